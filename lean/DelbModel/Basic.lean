def hello := "world"

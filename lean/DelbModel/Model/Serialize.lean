import DelbModel.Model.Tree
/-!
# The plain `Serializer` (_delb/nodes.py) and `Namespaces` (_delb/names.py)

* `normalizeDecls` / `lookupPrefix`  — `Namespaces.__normalize_declarations`, `lookup_prefix`
* `collect`                         — `Serializer._collect_prefixes` with
                                      `__redeclare_empty_prefix` and `_new_namespace_declaration`
* `emit`                            — `serialize_root`, `_serialize_tag`, `serialize_node`,
                                      `_generate_attributes_data`; output as tokens, `render` gives the string
* `build`                           — the reading side: a namespace-aware tree builder over the
                                      same tokens (what a parser plus delb's attribute reading deliver)

Dictionaries are insertion-ordered association lists.  The iteration order of the Python
`set` of a node's namespaces is not determined by the code: `collect` takes, per tag node in
traversal order, the order in which that set was iterated (an oracle input); the theorems
hold for every such order.
-/
namespace Delb.Ser

abbrev Dict := List (String × String)

def dget (d : Dict) (k : String) : Option String :=
  match d with
  | [] => none
  | (k', v) :: rest => if k' == k then some v else dget rest k

/-- `d[k] = v`: replace in place or append -/
def dset (d : Dict) (k v : String) : Dict :=
  match d with
  | [] => [(k, v)]
  | (k', v') :: rest => if k' == k then (k, v) :: rest else (k', v') :: dset rest k v

def dvalues (d : Dict) : List String := d.map (·.2)
def dkeys (d : Dict) : List String := d.map (·.1)

/-! ## `Namespaces` -/

/-- `Namespaces.__normalize_declarations`; `none` as prefix is Python's `None` -/
def normalizeDecls (decls : List (Option String × String)) : Except String Dict :=
  let hasNone := decls.any (fun d => d.1.isNone)
  let hasEmpty := decls.any (fun d => d.1 == some "")
  if hasNone && hasEmpty then .error "ValueError: default namespace defined redundantly" else
  let rec go (declared : List String) (result : Dict) : List (Option String × String) → Except String (List String × Dict)
    | [] => .ok (declared, result)
    | (p, ns) :: rest =>
      let p' := p.getD ""
      if (p.map (Gen.globalPrefixes.contains ·)).getD false then .error "ValueError: global prefix overridden"
      else if ns == Gen.xmlNamespace || ns == Gen.xmlnsNamespace then .error "ValueError: global namespace overridden"
      else if declared.contains ns then .error "ValueError: namespace declared redundantly"
      else go (ns :: declared) (dset result p' ns) rest
  match go [] [("xml", Gen.xmlNamespace), ("xmlns", Gen.xmlnsNamespace)] decls with
  | .error e => .error e
  | .ok (declared, result) =>
    .ok (Gen.commonNamespaces.foldl
      (fun r (pn : String × String) =>
        if declared.contains pn.2 then r
        else if (dget r pn.1).isSome then r else r ++ [(pn.1, pn.2)]) result)

/-- `lookup_prefix`: the inverse dictionary `{v: k for k, v in data.items()}` (later entries win) -/
def lookupPrefix (nsmap : Dict) (ns : String) : Option String :=
  nsmap.foldl (fun acc (pn : String × String) => if pn.2 == ns then some pn.1 else acc) none

/-! ## `_collect_prefixes` -/

inductive Err
  | assertion (site : String)
  | notImplemented        -- 2**16 generated prefixes exhausted
  | invalidCodePath (site : String)
deriving DecidableEq, Repr

def natToStr (n : Nat) : String := toString n

/-- `_new_namespace_declaration`: first `ns{i}:` that is neither in use nor a prefix of the
    caller's mapping -/
def findFree (nsmap : Dict) (m : Dict) : Nat → Nat → Option String
  | _, 0 => none
  | i, fuel+1 =>
    let p := "ns" ++ natToStr i
    if !(dvalues m).contains (p ++ ":") && (dget nsmap p).isNone then some (p ++ ":")
    else findFree nsmap m (i+1) fuel

def newDecl (nsmap m : Dict) (ns : String) : Except Err Dict :=
  match findFree nsmap m 0 65536 with
  | some p => .ok (dset m ns p)
  | none => .error .notImplemented

/-- the body of the inner loop for one namespace -/
def collectOne (nsmap : Dict) (m : Dict) (ns : String) : Except Err Dict :=
  if (dget m ns).isSome then .ok m
  else if ns == "" then
    -- __redeclare_empty_prefix, then `self._prefixes[""] = ""`
    match m.find? (fun e => e.2 == "") with
    | some (other, _) =>
      match newDecl nsmap m other with
      | .error e => .error e
      | .ok m' => .ok (dset m' "" "")
    | none => .ok (dset m "" "")
  else
    match lookupPrefix nsmap ns with
    | none => newDecl nsmap m ns
    | some p =>
      if p == "" && (dvalues m).contains "" then newDecl nsmap m ns
      else if p != "" then
        if (dvalues m).contains (p ++ ":") then .error (.assertion "prefix already used")
        else .ok (dset m ns (p ++ ":"))
      else
        if (dvalues m).contains "" then .error (.assertion "default prefix already used")
        else .ok (dset m ns "")

def collectMany (nsmap : Dict) : Dict → List String → Except Err Dict
  | m, [] => .ok m
  | m, ns :: rest =>
    match collectOne nsmap m ns with
    | .error e => .error e
    | .ok m' => collectMany nsmap m' rest

def collectNodes (nsmap : Dict) : Dict → List (List String) → Except Err Dict
  | m, [] => .ok m
  | m, nss :: rest =>
    match collectMany nsmap m nss with
    | .error e => .error e
    | .ok m' => collectNodes nsmap m' rest

def tagKids : Node → List Node
  | .tag _ _ _ kids => kids.filter Node.isTag
  | _ => []

/-- `traverse_bf_ltr_ttb(root, is_tag_node)`: tag nodes level by level -/
def bfsLevels : Nat → List Node → List Node
  | 0, _ => []
  | _, [] => []
  | fuel+1, level => level ++ bfsLevels fuel (level.flatMap tagKids)

mutual
  def nodeDepth : Node → Nat
    | .tag _ _ _ kids => 1 + kidsDepth kids
    | _ => 1
  def kidsDepth : List Node → Nat
    | [] => 0
    | k :: ks => max (nodeDepth k) (kidsDepth ks)
end

def bfsTags (root : Node) : List Node := bfsLevels (nodeDepth root + 1) [root]

def dedup : List String → List String
  | [] => []
  | x :: xs => if xs.contains x then dedup xs else x :: dedup xs

/-- the namespaces of one tag node (its own and its attributes'), each once -/
def nodeNamespaces : Node → List String
  | .tag ns _ attrs _ => dedup (ns :: attrs.map (·.ns))
  | _ => []

def rootNs : Node → String
  | .tag ns _ _ _ => ns
  | _ => ""

/-- is `l` a rearrangement of `r` (both duplicate-free)? -/
def isPermOf (l r : List String) : Bool :=
  l.length == r.length && l.all r.contains && r.all l.contains

/-- `_collect_prefixes(root)`; `orders` = per tag node (breadth first) the iteration order of
    its namespace set -/
def collect (nsmap : Dict) (root : Node) (orders : List (List String)) : Except Err Dict :=
  let m0 : Dict := if (dvalues nsmap).contains (rootNs root) then [] else [(rootNs root, "")]
  collectNodes nsmap m0 orders

/-- the canonical choice of orders (used when the caller does not care) -/
def defaultOrders (root : Node) : List (List String) := (bfsTags root).map nodeNamespaces

def ordersValid (root : Node) (orders : List (List String)) : Bool :=
  let tags := bfsTags root
  orders.length == tags.length &&
    (List.zip orders tags).all (fun (o, t) => isPermOf o (nodeNamespaces t))

/-! ## escaping -/

def escapeChar (table : List (Char × List Char)) (c : Char) : List Char :=
  match table.find? (fun e => e.1 == c) with
  | some (_, r) => r
  | none => [c]

/-- `str.translate(table)` -/
def escape (table : List (Char × List Char)) (s : Str) : Str := s.flatMap (escapeChar table)

def escapeText := escape Gen.textEscapes
def escapeAttr := escape Gen.attrEscapes

/-! ## emitting -/

inductive Tok where
  | stag (qname : Str) (attrs : List (Str × Str)) (selfClose : Bool)  -- attrs: written name, *raw* value
  | etag (qname : Str)
  | chars (s : Str)         -- raw character data (rendered escaped)
  | comment (s : Str)
  | pi (target : String) (s : Str)
deriving Repr, Inhabited

def pfx (m : Dict) (ns : String) : Except Err String :=
  match dget m ns with
  | some p => .ok p
  | none => .error (.invalidCodePath "KeyError: namespace without prefix")

def attrLt (a b : Attr) : Bool := a.ns < b.ns || (a.ns == b.ns && a.name < b.name)

def insertSorted (a : Attr) : List Attr → List Attr
  | [] => [a]
  | b :: bs => if attrLt a b then a :: b :: bs else b :: insertSorted a bs

/-- `sorted(node.attributes)` -/
def sortAttrs (as : List Attr) : List Attr := as.foldr insertSorted []

/-- `_generate_attributes_data` -/
def attrsData (m : Dict) : List Attr → Except Err (List (Str × Str))
  | [] => .ok []
  | a :: as =>
    match pfx m a.ns, attrsData m as with
    | .ok p, .ok rest => .ok (((p ++ a.name).toList, a.value) :: rest)
    | .error e, _ => .error e
    | _, .error e => .error e

def strLt (a b : String) : Bool := a < b

def insertStr (a : String) : List String → List String
  | [] => [a]
  | b :: bs => if strLt a b then a :: b :: bs else b :: insertStr a bs

/-- `prefix[:-1]` -/
def chopColon (p : String) : String := String.ofList p.toList.dropLast

/-- the namespace declarations `serialize_root` writes on the outermost element -/
def declarations (m : Dict) : List (Str × Str) :=
  let dflt : List (Str × Str) :=
    match m.find? (fun e => e.2 == "") with
    | some (ns, _) => if ns == "" then [] else [("xmlns".toList, ns.toList)]
    | none => []
  let prefixed := m.filter (fun e => e.2 != "" && !Gen.globalPrefixes.contains (chopColon e.2))
  let sortedP := (prefixed.map (·.2)).foldr insertStr []
  dflt ++ sortedP.filterMap (fun p =>
    match prefixed.find? (fun e => e.2 == p) with
    | some (ns, _) => some (("xmlns:" ++ chopColon p).toList, ns.toList)
    | none => none)

mutual
  /-- `serialize_node` / `_serialize_tag` of the plain Serializer -/
  def emitNode (m : Dict) : Node → Except Err (List Tok)
    | .tag ns name attrs kids =>
      match pfx m ns, attrsData m (sortAttrs attrs), emitKids m kids with
      | .ok p, .ok ad, .ok ks =>
        let qn := (p ++ name).toList
        if kids.isEmpty then .ok [.stag qn ad true]
        else .ok (.stag qn ad false :: ks ++ [.etag qn])
      | .error e, _, _ => .error e
      | _, .error e, _ => .error e
      | _, _, .error e => .error e
    | .text s => if s.isEmpty then .ok [] else .ok [.chars s]
    | .comment s => .ok [.comment s]
    | .pi t s => .ok [.pi t s]
  def emitKids (m : Dict) : List Node → Except Err (List Tok)
    | [] => .ok []
    | k :: ks =>
      match emitNode m k, emitKids m ks with
      | .ok a, .ok b => .ok (a ++ b)
      | .error e, _ => .error e
      | _, .error e => .error e
end

/-- `serialize_root`: declarations first, then the root's own attributes -/
def emitRoot (m : Dict) : Node → Except Err (List Tok)
  | .tag ns name attrs kids =>
    match emitNode m (.tag ns name attrs kids) with
    | .error e => .error e
    | .ok (.stag qn ad sc :: rest) => .ok (.stag qn (declarations m ++ ad) sc :: rest)
    | .ok ts => .ok ts
  | n => emitNode m n

def renderAttrs : List (Str × Str) → Str
  | [] => []
  | (k, v) :: rest => [' '] ++ k ++ ['=', '"'] ++ escapeAttr v ++ ['"'] ++ renderAttrs rest

def renderTok : Tok → Str
  | .stag qn attrs sc => ['<'] ++ qn ++ renderAttrs attrs ++ (if sc then ['/', '>'] else ['>'])
  | .etag qn => ['<', '/'] ++ qn ++ ['>']
  | .chars s => escapeText s
  | .comment s => "<!--".toList ++ s ++ "-->".toList
  | .pi t s => "<?".toList ++ t.toList ++ [' '] ++ s ++ "?>".toList

def render (ts : List Tok) : Str := ts.flatMap renderTok

/-- `TagNode.serialize(namespaces=…)` without format options -/
def serialize (nsmap : Dict) (root : Node) (orders : List (List String)) : Except Err Str :=
  match collect nsmap root orders with
  | .error e => .error e
  | .ok m =>
    match emitRoot m root with
    | .error e => .error e
    | .ok ts => .ok (render ts)

/-! ## the reading side -/

/-- split a written name at its first colon -/
def splitQName (q : Str) : Option Str × Str :=
  match q.span (· != ':') with
  | (l, []) => (none, l)
  | (p, _ :: l) => (some p, l)

/-- in-scope declarations: prefix ("" = default) ↦ namespace -/
abbrev Scope := List (String × String)

def scopeOf (attrs : List (Str × Str)) (outer : Scope) : Scope :=
  attrs.foldl (fun sc (kv : Str × Str) =>
    if kv.1 == "xmlns".toList then ("", String.ofList kv.2) :: sc
    else match splitQName kv.1 with
      | (some p, l) => if p == "xmlns".toList then (String.ofList l, String.ofList kv.2) :: sc else sc
      | _ => sc) outer

def resolve (sc : Scope) (p : String) : Option String :=
  if p == "xml" then some Gen.xmlNamespace
  else match sc.find? (fun e => e.1 == p) with
    | some (_, ns) => some ns
    | none => if p == "" then some "" else none

def isDecl (k : Str) : Bool :=
  k == "xmlns".toList || (splitQName k).1 == some "xmlns".toList

/-- attributes as delb reads them: an unprefixed attribute is reported in the default
    namespace in scope (documented conflation, `TagAttributes.__iter__`) -/
def readAttrs (sc : Scope) : List (Str × Str) → Option (List Attr)
  | [] => some []
  | (k, v) :: rest =>
    if isDecl k then readAttrs sc rest
    else
      let (p, l) := splitQName k
      match resolve sc (String.ofList (p.getD [])), readAttrs sc rest with
      | some ns, some as => some ({ ns := ns, name := String.ofList l, value := v } :: as)
      | _, _ => none

/-- open elements: (written name, namespace, local name, attributes, scope, children so far reversed) -/
structure Frame where
  qname : Str
  ns : String
  name : String
  attrs : List Attr
  scope : Scope
  kids : List Node

def pushText (s : Str) : List Node → List Node
  | .text t :: rest => .text (t ++ s) :: rest
  | ks => if s.isEmpty then ks else .text s :: ks

def addKid (k : Node) : List Frame → Option (List Frame)
  | [] => none
  | f :: fs => some ({ f with kids := k :: f.kids } :: fs)

/-- stack-based tree builder; returns the root when the tokens are one balanced element -/
def buildAux : List Tok → List Frame → Option Node → Option Node
  | [], [], done => done
  | [], _ :: _, _ => none
  | t :: ts, stack, done =>
    match t with
    | .stag qn attrs sc =>
      if done.isSome then none else
      let outer := match stack with | f :: _ => f.scope | [] => []
      let scope := scopeOf attrs outer
      let (p, l) := splitQName qn
      match resolve scope (String.ofList (p.getD [])), readAttrs scope attrs with
      | some ns, some as =>
        if sc then
          let n := Node.tag ns (String.ofList l) as []
          match stack with
          | [] => buildAux ts [] (some n)
          | f :: fs => buildAux ts ({ f with kids := n :: f.kids } :: fs) done
        else buildAux ts ({ qname := qn, ns := ns, name := String.ofList l, attrs := as, scope := scope, kids := [] } :: stack) done
      | _, _ => none
    | .etag qn =>
      match stack with
      | [] => none
      | f :: fs =>
        if f.qname != qn then none else
        let n := Node.tag f.ns f.name f.attrs f.kids.reverse
        match fs with
        | [] => buildAux ts [] (some n)
        | g :: gs => buildAux ts ({ g with kids := n :: g.kids } :: gs) done
    | .chars s =>
      match stack with
      | [] => none
      | f :: fs => buildAux ts ({ f with kids := pushText s f.kids } :: fs) done
    | .comment s =>
      match stack with
      | [] => none
      | f :: fs => buildAux ts ({ f with kids := .comment s :: f.kids } :: fs) done
    | .pi t s =>
      match stack with
      | [] => none
      | f :: fs => buildAux ts ({ f with kids := .pi t s :: f.kids } :: fs) done

def build (ts : List Tok) : Option Node := buildAux ts [] none

/-! ## what a re-read can return: merged text, attributes in written order -/

def mergeKids : List Node → List Node
  | [] => []
  | .text s :: rest =>
    match mergeKids rest with
    | .text t :: rest' => .text (s ++ t) :: rest'
    | rest' => if s = [] then rest' else .text s :: rest'
  | k :: rest => k :: mergeKids rest

mutual
  def normalize : Node → Node
    | .tag ns name attrs kids => .tag ns name (sortAttrs attrs) (mergeKids (normalizeList kids))
    | n => n
  def normalizeList : List Node → List Node
    | [] => []
    | k :: ks => normalize k :: normalizeList ks
end

/-! ## unescaping (the five predefined entities) -/

def entities : List (List Char × Char) :=
  [("&amp;".toList, '&'), ("&lt;".toList, '<'), ("&gt;".toList, '>'), ("&quot;".toList, '"'), ("&apos;".toList, '\'')]

def matchEntity (s : Str) : List (List Char × Char) → Option (Char × Nat)
  | [] => none
  | (e, c) :: rest => if e.isPrefixOf s then some (c, e.length) else matchEntity s rest

def unescapeAux : Nat → Str → Str
  | 0, _ => []
  | _, [] => []
  | fuel+1, c :: cs =>
    if c == '&' then
      match matchEntity (c :: cs) entities with
      | some (ch, n) => ch :: unescapeAux fuel ((c :: cs).drop n)
      | none => c :: unescapeAux fuel cs
    else c :: unescapeAux fuel cs

def unescape (s : Str) : Str := unescapeAux (s.length + 1) s

end Delb.Ser

namespace Delb.Ser

/-! ## vocabulary of the C13 / C02 theorems -/

mutual
  /-- all namespaces of elements and attributes in the tree -/
  def treeNamespaces : Node → List String
    | .tag ns _ attrs kids => ns :: attrs.map (·.ns) ++ kidsNamespaces kids
    | _ => []
  def kidsNamespaces : List Node → List String
    | [] => []
    | k :: ks => treeNamespaces k ++ kidsNamespaces ks
end

/-- a caller mapping as `Namespaces` holds it: prefixes are unique keys, no prefix contains a
    colon, and the two global prefixes are bound to their namespaces -/
structure NsMapOk (nsmap : Dict) : Prop where
  keysNodup : (dkeys nsmap).Nodup
  noColon : ∀ p ∈ dkeys nsmap, ':' ∉ p.toList
  xml : dget nsmap "xml" = some Gen.xmlNamespace
  xmlns : dget nsmap "xmlns" = some Gen.xmlnsNamespace

/-- the shape of a collected prefix: empty, or `q:` with non-empty colon-free `q` -/
def PrefixShape (p : String) : Prop :=
  p = "" ∨ ∃ q : String, p = q ++ ":" ∧ q ≠ "" ∧ ':' ∉ q.toList

/-- what C13 promises about the prefix map used for a tree -/
structure PMapOk (nsmap m : Dict) (t : Node) : Prop where
  total : ∀ ns ∈ treeNamespaces t, (dget m ns).isSome
  injective : ∀ ns₁ ns₂ p, dget m ns₁ = some p → dget m ns₂ = some p → ns₁ = ns₂
  emptyNs : ∀ p, dget m "" = some p → p = ""
  shape : ∀ ns p, dget m ns = some p → PrefixShape p
  caller : ∀ ns q p, ns ≠ "" → lookupPrefix nsmap ns = some q → q ≠ "" → dget m ns = some p →
    p = q ++ ":"
  keysNodup : (dkeys m).Nodup
  xmlPrefix : ∀ ns, dget m ns = some "xml:" → ns = Gen.xmlNamespace
  xmlnsPrefix : ∀ ns, dget m ns = some "xmlns:" → ns = Gen.xmlnsNamespace

end Delb.Ser

import DelbModel.Generated.Tables
/-!
# Plain ordered trees (the specification-side document model)

A `Node` is what a delb program can observe of a node: tag nodes with expanded
name, attributes and children; text; comments; processing instructions.
Strings that are scanned by models are `List Char`, opaque names are `String`.
-/
namespace Delb

abbrev Str := List Char

structure Attr where
  ns : String
  name : String
  value : Str
deriving DecidableEq, Repr, Inhabited

inductive Node where
  | tag (ns : String) (name : String) (attrs : List Attr) (kids : List Node)
  | text (s : Str)
  | comment (s : Str)
  | pi (target : String) (s : Str)
deriving Repr, Inhabited

namespace Node

def isText : Node → Bool
  | text _ => true
  | _ => false

def isTag : Node → Bool
  | tag .. => true
  | _ => false

end Node

/-- membership of a code point in a list of inclusive ranges (generated tables) -/
def inRanges (rs : List (Nat × Nat)) (n : Nat) : Bool :=
  rs.any (fun r => r.1 ≤ n && n ≤ r.2)

/-- Python's whitespace (what `\s`, `str.strip` and `str.isspace` agree on; see
    `Props/C07.lean` for the generated-table obligation that they do agree) -/
def pyWs (c : Char) : Bool := inRanges Gen.reWhitespace c.toNat

end Delb

/-!
# `functools.lru_cache` in front of a function (`tokenize`, `parse`, `_css_to_xpath`)

The cache is a list of `(key, value)` pairs, most recently used first (CPython keeps a doubly linked
list in that order next to the dictionary).  A call with a cached key returns the stored value and
moves the entry to the front; a miss computes the function, stores the pair at the front and drops
the least recently used entry when `maxsize` (> 0) is exceeded.  A call that raises stores nothing
(`lru_cache` only stores returned values).  `maxsize = 0` stands for an unbounded cache
(`functools.cache` / `maxsize=None`).

What is cached in delb are *shared objects* (token lists, expression trees).  That handing out the
same object twice is indistinguishable from computing it afresh needs the objects to be immutable
after construction; that half is the translator-generated obligation `c16_ast_immutable`.
-/
namespace Delb.Cache

variable {K V E : Type} [DecidableEq K]

abbrev Store (K V : Type) := List (K × V)

def lookup (k : K) : Store K V → Option V
  | [] => none
  | (k', v) :: rest => if k' = k then some v else lookup k rest

def erase (k : K) : Store K V → Store K V
  | [] => []
  | (k', v) :: rest => if k' = k then rest else (k', v) :: erase k rest

/-- drop least recently used entries beyond `maxsize` (0 = unbounded) -/
def trim (maxsize : Nat) (s : Store K V) : Store K V :=
  if maxsize = 0 then s else s.take maxsize

/-- one call through the cache: the answer and the cache afterwards -/
def call (f : K → Except E V) (maxsize : Nat) (s : Store K V) (k : K) : Except E V × Store K V :=
  match lookup k s with
  | some v => (.ok v, (k, v) :: erase k s)
  | none =>
    match f k with
    | .ok v => (.ok v, trim maxsize ((k, v) :: s))
    | .error e => (.error e, s)

/-- a program: calls and `cache_clear()`s in any order -/
inductive Op (K : Type)
  | call (k : K)
  | clear

/-- run a history; the list of answers (one per call) and the final cache -/
def run (f : K → Except E V) (maxsize : Nat) : Store K V → List (Op K) → List (Except E V) × Store K V
  | s, [] => ([], s)
  | s, .call k :: ops =>
    let (a, s') := call f maxsize s k
    let (as, s'') := run f maxsize s' ops
    (a :: as, s'')
  | _, .clear :: ops => run f maxsize [] ops

/-- what the same program observes without any cache -/
def runUncached (f : K → Except E V) : List (Op K) → List (Except E V)
  | [] => []
  | .call k :: ops => f k :: runUncached f ops
  | .clear :: ops => runUncached f ops

/-- every stored pair is a value the function returns for that key -/
def Sound (f : K → Except E V) (s : Store K V) : Prop := ∀ k v, (k, v) ∈ s → f k = .ok v

end Delb.Cache

import DelbModel.Generated.Tables
/-!
# `_WrapperCache.__gc_callback__` (_delb/nodes.py)

The cache maps lxml elements to their wrapper nodes.  After every garbage collection (`phase ==
"stop"`, no lock held) the callback evicts every wrapper that only the library references, after
folding the text nodes appended to its data / tail text node into the element.

A reference count as the callback sees it (`sys.getrefcount`) is the number of references the
*program* holds plus the references the library's own structures and the callback's frame hold; the
latter are listed below and compared with the thresholds the code uses (`Gen.gc…`, read from the
source on every run).

Text nodes: the head (`_data_node` / `_tail_node`) takes its content from the element
(`element.text` / `element.tail`), appended ones carry their own.
-/
namespace Delb.Gc

abbrev Str := List Char

structure TextObj where
  userRefs : Nat          -- references the program holds
  content : Str           -- own content (appended nodes); unused for a head
deriving Repr, DecidableEq

/-- one text position of an element: the head node and the nodes appended to it -/
structure Slot where
  headRefs : Nat          -- references the program holds to the head text node
  stored : Str            -- `element.text` resp. `element.tail` ("" for None)
  appended : List TextObj
deriving Repr, DecidableEq

structure Wrapper where
  elem : Nat              -- the lxml element (key of `wrappers`)
  isTag : Bool            -- TagNode (has `attributes` and a data slot) or comment / PI
  userRefs : Nat          -- references the program holds to the wrapper node
  docRefs : Option Nat    -- `__document__` is set: references the program holds to that document
  data : Slot             -- meaningful for tags only
  tail : Slot
deriving Repr, DecidableEq

structure State where
  locks : Nat
  cache : List Wrapper
deriving Repr

/-! ## reference counts at the points where the callback reads them -/

/-- `getrefcount(node)` in the loop: the program's references, the argument, the `wrappers` dict,
    the iterated tuple, the loop variable; `node.attributes.__node` for a tag; `document.__root_node__` -/
def wrapperRefcount (w : Wrapper) : Nat :=
  w.userRefs + 4 + (if w.isTag then 1 else 0) + (if w.docRefs.isSome then 1 else 0)

/-- `getrefcount(node.__document__)`: the program's references, the argument, `root.__document__`,
    `prologue._document`, `epilogue._document` -/
def documentRefcount (userRefs : Nat) : Nat := userRefs + 4

/-- `getrefcount(head)`: the program's references, the argument, the wrapper's slot, the local
    variable; the first appended node's `_bound_to` -/
def headRefcount (s : Slot) : Nat := s.headRefs + 3 + (if s.appended.isEmpty then 0 else 1)

/-- `getrefcount(current)` for an appended node: the program's references, the argument, the
    predecessor's `_appended_text_node`, the local variable; the successor's `_bound_to` -/
def appendedRefcount (t : TextObj) (hasNext : Bool) : Nat := t.userRefs + 3 + (if hasNext then 1 else 0)

/-! ## the callback -/

/-- the `while current is not None` loop: some appended node is referenced from elsewhere -/
def chainReferenced : List TextObj → Bool
  | [] => false
  | t :: rest => decide (appendedRefcount t (!rest.isEmpty) > Gen.gcAppendedBase + (if rest.isEmpty then 0 else 1))
      || chainReferenced rest

def headReferenced (s : Slot) : Bool :=
  decide (headRefcount s > Gen.gcHeadBase + (if s.appended.isEmpty then 0 else 1))

/-- the first test: `getrefcount(node) > 4 + isinstance(node, TagNode) + (doc is not None and getrefcount(doc) == 4)` -/
def wrapperReferenced (w : Wrapper) : Bool :=
  decide (wrapperRefcount w > Gen.gcWrapperBase + (if w.isTag then 1 else 0)
    + (match w.docRefs with
       | some d => if documentRefcount d == Gen.gcDocumentIdle then 1 else 0
       | none => 0))

/-- the `continue` conditions of one loop iteration -/
def keeps (w : Wrapper) : Bool :=
  wrapperReferenced w || headReferenced w.tail ||
    (w.isTag && (headReferenced w.data || chainReferenced w.data.appended)) ||
    chainReferenced w.tail.appended

/-- `_merge_appended_text_nodes`: the appended contents go into the element -/
def mergeSlot (s : Slot) : Slot :=
  { s with stored := s.stored ++ (s.appended.map (·.content)).flatten, appended := [] }

/-- what remains of an evicted wrapper is the element with the folded text -/
structure Element where
  elem : Nat
  text : Str
  tail : Str
deriving Repr, DecidableEq

def evict (w : Wrapper) : Element :=
  { elem := w.elem, text := (mergeSlot w.data).stored, tail := (mergeSlot w.tail).stored }

/-- one run of the callback: the wrappers that stay, and the elements of the evicted ones -/
def gcStep (s : State) : State × List Element :=
  if s.locks > 0 then (s, [])
  else ({ s with cache := s.cache.filter keeps }, (s.cache.filter (fun w => !keeps w)).map evict)

/-! ## what a program observes -/

/-- the text at a slot: what the text nodes there show, concatenated -/
def slotText (s : Slot) : Str := s.stored ++ (s.appended.map (·.content)).flatten

/-- the number of text node objects at a slot that exist (a head exists iff it has content) -/
def anyReferenced (w : Wrapper) : Bool :=
  w.userRefs > 0 || (match w.docRefs with | some d => d > 0 | none => false) ||
  w.tail.headRefs > 0 || w.tail.appended.any (·.userRefs > 0) ||
  (w.isTag && (w.data.headRefs > 0 || w.data.appended.any (·.userRefs > 0)))

/-! ## the lock: `with _wrapper_cache:` blocks, possibly nested -/

/-- a program's use of the lock: entering and leaving `with _wrapper_cache:` blocks -/
inductive LockOp
  | enter
  | exit
deriving Repr, DecidableEq

/-- the counter after a sequence of `__enter__`/`__exit__` calls, for given effects of the two methods -/
def lockCount (enterΔ exitΔ : Int) : Int → List LockOp → Int
  | c, [] => c
  | c, .enter :: ops => lockCount enterΔ exitΔ (c + enterΔ) ops
  | c, .exit :: ops => lockCount enterΔ exitΔ (c + exitΔ) ops

/-- the number of `with` blocks that are open after the sequence (`none`: an exit without a block) -/
def openBlocks : Nat → List LockOp → Option Nat
  | d, [] => some d
  | d, .enter :: ops => openBlocks (d + 1) ops
  | 0, .exit :: _ => none
  | d + 1, .exit :: ops => openBlocks d ops

end Delb.Gc

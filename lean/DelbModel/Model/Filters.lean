import DelbModel.Generated.FilterSkeleton
/-!
# The default-filter stack (`default_filters`, `altered_default_filters`) under generators

`altered_default_filters` pushes a tuple of filters on a process-global deque and pops it when the
`with` block (or the decorated call) ends.  Client code sees the top of that stack.  A library
call, or one resumption of a generator (from creation/`next()` to the next `yield`, `return` or
`close()`), is a finite sequence of stack actions.  The stack holds abstract filter-tuple ids.
-/
namespace Delb.Filters

inductive Act
  | push (f : Nat)        -- entering `with altered_default_filters(f)` / a decorated call
  | pop                   -- leaving it
  | read                  -- an ambient read: `default_filters[-1]`, `len(node)`, truthiness of a tag node, …
deriving DecidableEq, Repr

abbrev Stack := List Nat   -- head = top

/-- run a sequence of actions; `none` when it would pop an entry it did not push itself -/
def run : Stack → List Act → Option Stack
  | s, [] => some s
  | s, .push f :: as => run (f :: s) as
  | [], .pop :: _ => none
  | _ :: s, .pop :: as => run s as
  | s, .read :: as => run s as

/-- well-bracketed: every push is matched by a later pop of the same segment; `d` = own frames open -/
def balancedFrom : Nat → List Act → Bool
  | d, [] => d == 0
  | d, .push _ :: as => balancedFrom (d + 1) as
  | 0, .pop :: _ => false
  | d + 1, .pop :: as => balancedFrom d as
  | d, .read :: as => balancedFrom d as

/-- a segment that holds no own frame when control leaves it (no `yield` inside an own `with`) -/
def Balanced (as : List Act) : Prop := balancedFrom 0 as = true

/-- the values seen by the ambient reads of a segment -/
def reads : Stack → List Act → List (Option Nat)
  | _, [] => []
  | s, .push f :: as => reads (f :: s) as
  | [], .pop :: as => reads [] as
  | _ :: s, .pop :: as => reads s as
  | s, .read :: as => s.head? :: reads s as

/-- every ambient read happens while an own frame is open -/
def guardedFrom : Nat → List Act → Bool
  | _, [] => true
  | d, .push _ :: as => guardedFrom (d + 1) as
  | 0, .pop :: _ => false
  | d + 1, .pop :: as => guardedFrom d as
  | 0, .read :: _ => false
  | d + 1, .read :: as => guardedFrom (d + 1) as

def Guarded (as : List Act) : Prop := guardedFrom 0 as = true

/-- a schedule: the segments (library calls, generator resumptions) in the order they run, interleaved
    arbitrarily with the client's own pushes and pops -/
inductive Step
  | lib (segment : List Act)      -- a call or one resumption of some generator
  | clientPush (f : Nat)
  | clientPop

/-- the client's view after a schedule: `none` if the library popped a client frame -/
def runSchedule : Stack → List Step → Option Stack
  | s, [] => some s
  | s, .lib seg :: rest => match run s seg with
    | some s' => runSchedule s' rest
    | none => none
  | s, .clientPush f :: rest => runSchedule (f :: s) rest
  | [], .clientPop :: _ => none
  | _ :: s, .clientPop :: rest => runSchedule s rest

/-- what the client itself did to the stack -/
def clientOnly : Stack → List Step → Option Stack
  | s, [] => some s
  | s, .lib _ :: rest => clientOnly s rest
  | s, .clientPush f :: rest => clientOnly (f :: s) rest
  | [], .clientPop :: _ => none
  | _ :: s, .clientPop :: rest => clientOnly s rest

def allLibBalanced : List Step → Prop
  | [] => True
  | .lib seg :: rest => Balanced seg ∧ allLibBalanced rest
  | _ :: rest => allLibBalanced rest

/-! ## the premises for the current source, from the generated summaries -/

/-- no function yields inside an own `with altered_default_filters` block -/
def noYieldInOwnFrame (fs : List Gen.FnSummary) : Bool := fs.all (fun f => f.yieldsInOwnFrame == 0)

/-- the functions whose results must not depend on the ambient filters contain no ambient truthiness
    test of a node outside an own frame, and none of them is a generator function relying on the decorator -/
def listedAreGuarded (fs : List Gen.FnSummary) : Bool :=
  fs.all (fun f => !f.listed || (f.ambientTruthiness == 0 && !(f.isGenerator && f.decorated && f.yieldsInOwnFrame > 0)))

end Delb.Filters

import DelbModel.Model.Tree
/-!
# The byte level of `Document.write` / `Document.save` (delb/__init__.py, `_TextBufferWriter`)

`Document.write` wraps the binary buffer in an `io.TextIOWrapper` and reconfigures it with
`encoding=<label>` and `newline=<None|''|'\n'|'\r'|'\r\n'>`.  What reaches the buffer is therefore

    encode codec (translateNewlines newline text)

and the reading side decodes with the declared codec and applies the XML 1.0 end-of-line handling
(§2.11) before anything else: `(decode codec bytes).map xmlEol`.

Bytes are natural numbers below 256 (`ValidBytes`); the decoders reject anything else.  All
arithmetic is `/`, `%`, `*`, `+`, `-` by literals so that the proofs stay in linear arithmetic.
-/
namespace Delb.Codec

/-- every member is an octet -/
def ValidBytes (bs : List Nat) : Prop := ∀ b ∈ bs, b < 256

/-! ## generic decoding loop -/

/-- decode character by character with `step`; `fuel` bounds the number of characters (the callers
    pass the number of bytes, every step consuming at least one) -/
def decodeWith (step : List Nat → Option (Char × List Nat)) : Nat → List Nat → Option Str
  | _, [] => some []
  | 0, _ :: _ => none
  | fuel + 1, b :: bs =>
    match step (b :: bs) with
    | none => none
    | some (c, rest) =>
      match decodeWith step fuel rest with
      | none => none
      | some s => some (c :: s)

/-- the scalar value `n`, if it is one (not a surrogate, at most U+10FFFF) -/
def scalar? (n : Nat) : Option Char :=
  if n < 0xD800 ∨ (0xDFFF < n ∧ n < 0x110000) then some (Char.ofNat n) else none

/-! ## UTF-8 -/

def utf8EncodeChar (c : Char) : List Nat :=
  let n := c.toNat
  if n < 0x80 then [n]
  else if n < 0x800 then [0xC0 + n / 64, 0x80 + n % 64]
  else if n < 0x10000 then [0xE0 + n / 4096, 0x80 + n / 64 % 64, 0x80 + n % 64]
  else [0xF0 + n / 262144, 0x80 + n / 4096 % 64, 0x80 + n / 64 % 64, 0x80 + n % 64]

def encodeUtf8 (s : Str) : List Nat := s.flatMap utf8EncodeChar

/-- a continuation byte `10xxxxxx` -/
def isCont (b : Nat) : Bool := decide (0x80 ≤ b ∧ b < 0xC0)

/-- one strictly decoded character: the shortest form only (no `C0`/`C1` lead bytes, no three byte
    form below U+0800, no four byte form below U+10000), no surrogates, nothing above U+10FFFF,
    nothing truncated -/
def utf8Step : List Nat → Option (Char × List Nat)
  | [] => none
  | b0 :: rest =>
    if b0 < 0x80 then some (Char.ofNat b0, rest)
    else if b0 < 0xC2 then none
    else if b0 < 0xE0 then
      match rest with
      | b1 :: r =>
        if isCont b1 then some (Char.ofNat ((b0 - 0xC0) * 64 + (b1 - 0x80)), r) else none
      | _ => none
    else if b0 < 0xF0 then
      match rest with
      | b1 :: b2 :: r =>
        if isCont b1 && isCont b2 then
          let n := (b0 - 0xE0) * 4096 + (b1 - 0x80) * 64 + (b2 - 0x80)
          if 0x800 ≤ n then (scalar? n).map (fun c => (c, r)) else none
        else none
      | _ => none
    else if b0 < 0xF5 then
      match rest with
      | b1 :: b2 :: b3 :: r =>
        if isCont b1 && isCont b2 && isCont b3 then
          let n := (b0 - 0xF0) * 262144 + (b1 - 0x80) * 4096 + (b2 - 0x80) * 64 + (b3 - 0x80)
          if 0x10000 ≤ n then (scalar? n).map (fun c => (c, r)) else none
        else none
      | _ => none
    else none

def decodeUtf8 (bs : List Nat) : Option Str := decodeWith utf8Step bs.length bs

/-! ## UTF-16 -/

/-- the code units of a character: itself, or a surrogate pair above the basic plane -/
def utf16Units (c : Char) : List Nat :=
  let n := c.toNat
  if n < 0x10000 then [n] else [0xD800 + (n - 0x10000) / 1024, 0xDC00 + (n - 0x10000) % 1024]

/-- a code unit as two bytes -/
def unitBytes (bigEndian : Bool) (u : Nat) : List Nat :=
  if bigEndian then [u / 256, u % 256] else [u % 256, u / 256]

def utf16EncodeChar (bigEndian : Bool) (c : Char) : List Nat :=
  (utf16Units c).flatMap (unitBytes bigEndian)

/-- Python's `utf-16-le` / `utf-16-be`: no byte order mark -/
def encodeUtf16 (bigEndian : Bool) (s : Str) : List Nat := s.flatMap (utf16EncodeChar bigEndian)

/-- two octets as a code unit -/
def unitOf (bigEndian : Bool) (b0 b1 : Nat) : Option Nat :=
  if b0 < 256 ∧ b1 < 256 then some (if bigEndian then b0 * 256 + b1 else b1 * 256 + b0) else none

def utf16Step (bigEndian : Bool) : List Nat → Option (Char × List Nat)
  | b0 :: b1 :: rest =>
    match unitOf bigEndian b0 b1 with
    | none => none
    | some u =>
      if u < 0xD800 ∨ 0xDFFF < u then some (Char.ofNat u, rest)
      else if u < 0xDC00 then
        match rest with
        | b2 :: b3 :: r =>
          match unitOf bigEndian b2 b3 with
          | none => none
          | some v =>
            if 0xDC00 ≤ v ∧ v ≤ 0xDFFF then
              some (Char.ofNat (0x10000 + (u - 0xD800) * 1024 + (v - 0xDC00)), r)
            else none
        | _ => none
      else none
  | _ => none

def decodeUtf16 (bigEndian : Bool) (bs : List Nat) : Option Str :=
  decodeWith (utf16Step bigEndian) bs.length bs

/-- Python's codec `utf-16` when writing: the byte order mark U+FEFF in the platform's byte order
    (little endian on all common platforms: `FF FE`), then `utf-16-le` -/
def encodeUtf16Bom (s : Str) : List Nat := 0xFF :: 0xFE :: encodeUtf16 false s

/-- Python's codec `utf-16` when reading: a byte order mark decides the byte order and is dropped;
    without one the platform's byte order (little endian) is used -/
def decodeUtf16Bom (bs : List Nat) : Option Str :=
  match bs with
  | b0 :: b1 :: rest =>
    if b0 = 0xFF ∧ b1 = 0xFE then decodeUtf16 false rest
    else if b0 = 0xFE ∧ b1 = 0xFF then decodeUtf16 true rest
    else decodeUtf16 false bs
  | _ => decodeUtf16 false bs

/-! ## the one byte codecs -/

/-- code point = byte, for code points below `limit`; `errors='strict'`: none = UnicodeEncodeError -/
def encodeNarrow (limit : Nat) : Str → Option (List Nat)
  | [] => some []
  | c :: s =>
    if c.toNat < limit then
      match encodeNarrow limit s with
      | none => none
      | some bs => some (c.toNat :: bs)
    else none

def decodeNarrow (limit : Nat) : List Nat → Option Str
  | [] => some []
  | b :: bs =>
    if b < limit then
      match decodeNarrow limit bs with
      | none => none
      | some s => some (Char.ofNat b :: s)
    else none

def encodeLatin1 : Str → Option (List Nat) := encodeNarrow 0x100
def decodeLatin1 : List Nat → Option Str := decodeNarrow 0x100
def encodeAscii : Str → Option (List Nat) := encodeNarrow 0x80
def decodeAscii : List Nat → Option Str := decodeNarrow 0x80

/-! ## the codecs by label -/

inductive Codec
  | utf8 | utf16 | utf16le | utf16be | latin1 | ascii
deriving Repr, DecidableEq

/-- the Python codec label (after normalisation: `UTF-8`, `utf_8`, `latin1`, `iso-8859-1`, … are
    the same codecs) -/
def Codec.ofLabel? (l : String) : Option Codec :=
  match l with
  | "utf-8" => some .utf8
  | "utf-16" => some .utf16
  | "utf-16-le" => some .utf16le
  | "utf-16-be" => some .utf16be
  | "latin-1" => some .latin1
  | "ascii" => some .ascii
  | _ => none

def encode : Codec → Str → Option (List Nat)
  | .utf8, s => some (encodeUtf8 s)
  | .utf16, s => some (encodeUtf16Bom s)
  | .utf16le, s => some (encodeUtf16 false s)
  | .utf16be, s => some (encodeUtf16 true s)
  | .latin1, s => encodeLatin1 s
  | .ascii, s => encodeAscii s

def decode : Codec → List Nat → Option Str
  | .utf8, b => decodeUtf8 b
  | .utf16, b => decodeUtf16Bom b
  | .utf16le, b => decodeUtf16 false b
  | .utf16be, b => decodeUtf16 true b
  | .latin1, b => decodeLatin1 b
  | .ascii, b => decodeAscii b

/-- "an encoding able to represent the content": the characters a codec has a byte form for -/
def representable : Codec → Char → Prop
  | .latin1, ch => ch.toNat ≤ 0xFF
  | .ascii, ch => ch.toNat ≤ 0x7F
  | _, _ => True

instance (c : Codec) (ch : Char) : Decidable (representable c ch) := by
  cases c <;> unfold representable <;> infer_instance

/-! ## newlines -/

/-- `str.replace("\n", w)` -/
def replaceLf (w : Str) (s : Str) : Str := s.flatMap (fun c => if c = '\n' then w else [c])

/-- the translation `io.TextIOWrapper.write` applies for its `newline` argument:
    `None` → every `'\n'` becomes `os.linesep`; `''` and `'\n'` → nothing is translated;
    `'\r'`, `'\r\n'` → every `'\n'` becomes that string -/
def translateNewlinesWith (linesep : Str) : Option Str → Str → Str
  | none, s => replaceLf linesep s
  | some [], s => s
  | some w, s => replaceLf w s

/-- on Linux (`os.linesep == "\n"`) -/
def translateNewlines : Option Str → Str → Str := translateNewlinesWith ['\n']

/-- XML 1.0 §2.11 with the state "the previous character was a carriage return" -/
def xmlEolAux : Bool → Str → Str
  | _, [] => []
  | afterCr, c :: s =>
    if c = '\r' then '\n' :: xmlEolAux true s
    else if c = '\n' ∧ afterCr = true then xmlEolAux false s
    else c :: xmlEolAux false s

/-- XML 1.0 §2.11 end-of-line handling: `\r\n` and any `\r` not followed by `\n` become `\n` -/
def xmlEol (s : Str) : Str := xmlEolAux false s

/-- what `Document.write(buffer, encoding=…, newline=…)` hands to the binary buffer for the text `s` -/
def writeBytes (c : Codec) (nl : Option Str) (s : Str) : Option (List Nat) :=
  encode c (translateNewlines nl s)

/-- what an XML processor sees of the bytes: decoded with the declared codec, ends of lines normalised -/
def readBytes (c : Codec) (b : List Nat) : Option Str := (decode c b).map xmlEol

end Delb.Codec

import DelbModel.Model.Serialize
import DelbModel.Model.Whitespace
/-!
# `PrettySerializer` (_delb/nodes.py), i.e. `FormatOptions(width = 0)`

`prettyRoot` mirrors `serialize_root` → `_serialize_tag` → `_handle_child_nodes` →
`_serialize_child_nodes` → `serialize_node` / `_serialize_text` with the two predicates
`_whitespace_is_legit_before_node` / `_whitespace_is_legit_after_node`.

The output is a list of pieces: markup tokens, character data that stems from text nodes
(`text`), and whitespace the serializer inserts (`layout`).  `renderP` gives the exact
output string; `erase` forgets the whitespace *inside* start tags (attribute alignment),
which no parser reports, and turns both `text` and `layout` into character data so that
`Ser.build` reads the result back.

`str.isspace`, `lstrip`, `rstrip` and `_crunch_whitespace` use Python's whitespace
(`pyWs`, generated table).  Text nodes are assumed non-empty (an empty text node makes
`content[0]` raise IndexError in the code; whitespace-reduced trees have none).
-/
namespace Delb.Pretty
open Delb.Ser Delb.WS

structure Opts where
  indent : Str
  align : Bool
deriving Repr

inductive Piece where
  | stag (qname : Str) (attrs : List (Str × Str × Str)) (closePre : Str) (selfClose : Bool)
      -- attrs: (whitespace before, written name, raw value)
  | etag (qname : Str)
  | text (s : Str)      -- normalised content of a run of text nodes (rendered escaped)
  | layout (s : Str)    -- inserted whitespace
  | comment (s : Str)
  | pi (target : String) (s : Str)
  | verbatim (ts : List Tok)   -- an `xml:space="preserve"` subtree, written by the plain Serializer
deriving Repr, Inhabited

def indentN (o : Opts) (level : Nat) : Str := (List.replicate level o.indent).flatten

def firstIsSpace (s : Str) : Bool := match s.head? with | some c => pyWs c | none => false
def lastIsSpace (s : Str) : Bool := match s.getLast? with | some c => pyWs c | none => false

/-- `_whitespace_is_legit_before_node` for a non-root, non-text node with left sibling `prev` -/
def legitBeforeNode : Option Node → Bool
  | none => true
  | some (.text s) => lastIsSpace s
  | some _ => false

/-- `_whitespace_is_legit_after_node` for a non-root, non-text node with right sibling `next` -/
def legitAfterNode : Option Node → Bool
  | none => true
  | some (.text s) => firstIsSpace s
  | some _ => false

/-- `_normalize_text` without the escaping (escaping happens in `renderP`) -/
def normText (s : Str) : Str := collapse pyWs s

/-- `PrettySerializer._serialize_attributes` -/
def layoutAttrs (o : Opts) (level : Nat) (ad : List (Str × Str)) : List (Str × Str × Str) × Str :=
  if o.align && ad.length > 1 then
    let width := (ad.map (·.1.length)).foldl max 0
    (ad.map (fun kv =>
        (['\n'] ++ indentN o level ++ [' '] ++ o.indent ++ List.replicate (width - kv.1.length) ' ', kv.1, kv.2)),
     if o.indent.isEmpty then [] else ['\n'] ++ indentN o level)
  else (ad.map (fun kv => ([' '], kv.1, kv.2)), [])

/-- `_serialize_text` for the pending run `run` (contents of its non-empty text nodes, in order);
    `atStart`: the run's first node has index 0; `atEnd`: its last node is the last child -/
def flushText (o : Opts) (level : Nat) (atStart atEnd : Bool) (run : List Str) : List Piece :=
  match run with
  | [] => []
  | first :: _ =>
    let content := normText run.flatten
    if content = [' '] then []
    else
      let before := !o.indent.isEmpty && (atStart || firstIsSpace first)
      let after := atEnd || lastIsSpace (run.getLast?.getD [])
      let c1 := if before then ltrim pyWs content else content
      let c2 := if after then rtrim pyWs c1 else c1
      (if before then [Piece.layout (indentN o level)] else []) ++ [Piece.text c2]
        ++ (if after then [Piece.layout ['\n']] else [])

def lastText (run : List Str) : Option Node := run.getLast?.map Node.text

mutual
  /-- `_serialize_tag` at nesting level `level`; `ad` = attributes data incl. declarations for the root -/
  def prettyTag (o : Opts) (m : Dict) (level : Nat) (ad : List (Str × Str)) : Node → Except Err (List Piece)
    | .tag ns name attrs kids =>
      if directive attrs .default = .preserve then
        -- `_space_preserving_serializer._serialize_tag(node, attributes_data)`
        match emitNode m (.tag ns name attrs kids) with
        | .ok (.stag qn _ sc :: rest) => .ok [.verbatim (.stag qn ad sc :: rest)]
        | .ok ts => .ok [.verbatim ts]
        | .error e => .error e
      else
        match pfx m ns with
        | .error e => .error e
        | .ok p =>
          let qn := (p ++ name).toList
          let (la, closePre) := layoutAttrs o level ad
          if kids.isEmpty then .ok [.stag qn la closePre true]
          else
            match prettyKids o m (level + 1) none [] true kids with
            | .error e => .error e
            | .ok ks =>
              -- newline after the start tag: `child_nodes[0]` has index 0;
              -- indentation before the end tag: `child_nodes[-1]` is the last child
              .ok ([.stag qn la closePre false, .layout ['\n']] ++ ks
                   ++ (if o.indent.isEmpty then [] else [.layout (indentN o level)]) ++ [.etag qn])
    | _ => .error (.invalidCodePath "prettyTag on a non-tag node")
  /-- `_serialize_child_nodes`; `prev` = left sibling of the pending text run (or of the next
      node when nothing is pending), `run` = pending text contents, `runAtStart` = the run began at index 0 -/
  def prettyKids (o : Opts) (m : Dict) (level : Nat) (prev : Option Node) (run : List Str) (runAtStart : Bool) :
      List Node → Except Err (List Piece)
    | [] => .ok (flushText o level runAtStart true run)
    | .text s :: rest =>
      if s.isEmpty then prettyKids o m level prev run runAtStart rest
      else prettyKids o m level prev (run ++ [s]) (if run.isEmpty then prev.isNone else runAtStart) rest
    | k :: rest =>
      -- `serialize_node(k)`
      let flushed := flushText o level runAtStart false run
      let prev' := if run.isEmpty then prev else lastText run
      let pre := if !o.indent.isEmpty && legitBeforeNode prev' then [Piece.layout (indentN o level)] else []
      let body : Except Err (List Piece) :=
        match k with
        | .comment s => .ok [.comment s]
        | .pi t s => .ok [.pi t s]
        | .tag ns name attrs kids =>
          (match attrsData m (sortAttrs attrs) with
           | .error e => .error e
           | .ok ad => prettyTag o m level ad (.tag ns name attrs kids))
        | .text _ => .ok []
      let next := rest.find? (fun n => match n with | .text s => !s.isEmpty | _ => true)
      let post := if legitAfterNode next then [Piece.layout ['\n']] else []
      match body, prettyKids o m level (some k) [] false rest with
      | .ok b, .ok r => .ok (flushed ++ pre ++ b ++ post ++ r)
      | .error e, _ => .error e
      | _, .error e => .error e
end

/-- `serialize_root` of the PrettySerializer (no newline/indentation around the root) -/
def prettyRoot (o : Opts) (m : Dict) : Node → Except Err (List Piece)
  | .tag ns name attrs kids =>
    match attrsData m (sortAttrs attrs) with
    | .error e => .error e
    | .ok ad => prettyTag o m 0 (declarations m ++ ad) (.tag ns name attrs kids)
  | _ => .error (.invalidCodePath "root must be a tag node")

def renderAttrsL : List (Str × Str × Str) → Str
  | [] => []
  | (w, k, v) :: rest => w ++ k ++ ['=', '"'] ++ escapeAttr v ++ ['"'] ++ renderAttrsL rest

def renderPiece : Piece → Str
  | .stag qn attrs closePre sc => ['<'] ++ qn ++ renderAttrsL attrs ++ closePre ++ (if sc then ['/', '>'] else ['>'])
  | .etag qn => ['<', '/'] ++ qn ++ ['>']
  | .text s => escapeText s
  | .layout s => s
  | .comment s => "<!--".toList ++ s ++ "-->".toList
  | .pi t s => "<?".toList ++ t.toList ++ [' '] ++ s ++ "?>".toList
  | .verbatim ts => render ts

def renderP (ps : List Piece) : Str := ps.flatMap renderPiece

/-- what a parser sees: whitespace inside tags is no content; text and layout are character data -/
def erase : Piece → List Tok
  | .stag qn attrs _ sc => [.stag qn (attrs.map (fun a => (a.2.1, a.2.2))) sc]
  | .etag qn => [.etag qn]
  | .text s => [.chars s]
  | .layout s => [.chars s]
  | .comment s => [.comment s]
  | .pi t s => [.pi t s]
  | .verbatim ts => ts

def eraseAll (ps : List Piece) : List Tok := ps.flatMap erase

/-- `TagNode.serialize(format_options=FormatOptions(indentation, width=0, align_attributes))` -/
def serializePretty (o : Opts) (nsmap : Dict) (root : Node) (orders : List (List String)) : Except Err Str :=
  match collect nsmap root orders with
  | .error e => .error e
  | .ok m =>
    match prettyRoot o m root with
    | .error e => .error e
    | .ok ps => .ok (renderP ps)

/-! ## C18: the straightforward recursive pretty printer for data-style trees -/

mutual
  /-- data style: a tag holds nothing, one text, or non-text nodes separated by single-space
      text nodes (what reducing a conventionally indented document leaves); no `xml:space` -/
  def dataStyle : Node → Bool
    | .tag _ _ attrs kids =>
      !(attrs.any (fun a => a.ns == Gen.xmlNamespace && a.name == "space")) &&
      (match kids with
       | [] => true
       | [.text s] => !s.isEmpty
       | _ => dataKids true kids)
    | .text _ => false
    | _ => true
  /-- `expectNode`: a non-text node must come next -/
  def dataKids (expectNode : Bool) : List Node → Bool
    | [] => !expectNode
    | .text s :: rest => !expectNode && s == [' '] && !rest.isEmpty && dataKids true rest
    | k :: rest => expectNode && dataStyle k && dataKids false rest
end

def refAttrs (o : Opts) (level : Nat) (ad : List (Str × Str)) : List Str × Bool :=
  -- (lines of the start tag after `<name`, whether the closing bracket goes on its own line)
  if o.align && ad.length > 1 then
    let width := (ad.map (·.1.length)).foldl max 0
    (ad.map (fun kv => indentN o level ++ [' '] ++ o.indent ++ List.replicate (width - kv.1.length) ' '
              ++ kv.1 ++ ['=', '"'] ++ escapeAttr kv.2 ++ ['"']), true)
  else ([(ad.map (fun kv => [' '] ++ kv.1 ++ ['=', '"'] ++ escapeAttr kv.2 ++ ['"'])).flatten], false)

/-- lines of a start tag (`close` is `>` or `/>`) -/
def refStartTag (o : Opts) (level : Nat) (qn : Str) (ad : List (Str × Str)) (close : Str) : List Str :=
  let (ls, own) := refAttrs o level ad
  if own then
    [indentN o level ++ ['<'] ++ qn] ++ ls.dropLast ++
      (if o.indent.isEmpty then [ls.getLast?.getD [] ++ close] else [ls.getLast?.getD [], indentN o level ++ close])
  else [indentN o level ++ ['<'] ++ qn ++ ls.flatten ++ close]

mutual
  /-- the reference printer: every node on its own line(s) at its depth -/
  def ppRef (o : Opts) (m : Dict) (level : Nat) (ad : List (Str × Str)) : Node → List Str
    | .tag ns name _ kids =>
      let qn := ((dget m ns).getD "" ++ name).toList
      match kids with
      | [] => refStartTag o level qn ad ['/', '>']
      | [.text s] =>
        let c := strip pyWs (normText s)
        refStartTag o level qn ad ['>'] ++ (if c.isEmpty then [] else [indentN o (level + 1) ++ escapeText c])
          ++ [indentN o level ++ ['<', '/'] ++ qn ++ ['>']]
      | _ => refStartTag o level qn ad ['>'] ++ ppRefKids o m (level + 1) kids
          ++ [indentN o level ++ ['<', '/'] ++ qn ++ ['>']]
    | .comment s => [indentN o level ++ "<!--".toList ++ s ++ "-->".toList]
    | .pi t s => [indentN o level ++ "<?".toList ++ t.toList ++ [' '] ++ s ++ "?>".toList]
    | .text _ => []
  def ppRefKids (o : Opts) (m : Dict) (level : Nat) : List Node → List Str
    | [] => []
    | .tag ns name attrs kids :: rest =>
      ppRef o m level ((attrsData m (sortAttrs attrs)).toOption.getD []) (.tag ns name attrs kids)
        ++ ppRefKids o m level rest
    | k :: rest => ppRef o m level [] k ++ ppRefKids o m level rest
end

def joinLines : List Str → Str
  | [] => []
  | [l] => l
  | l :: ls => l ++ ['\n'] ++ joinLines ls

/-- the reference output for a whole tree -/
def ppRefRoot (o : Opts) (m : Dict) : Node → Str
  | .tag ns name attrs kids =>
    joinLines (ppRef o m 0 (declarations m ++ (attrsData m (sortAttrs attrs)).toOption.getD []) (.tag ns name attrs kids))
  | _ => []

end Delb.Pretty

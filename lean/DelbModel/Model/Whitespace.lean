import DelbModel.Model.Tree
/-!
# Whitespace reduction — `TagNode._reduce_whitespace*` (_delb/nodes.py)

`reduceContentImpl` mirrors `_reduce_whitespace_content` (the four-rule table),
`reduceKidsImpl`/`reduceNodeImpl` mirror `_reduce_whitespace_of_descendants`.
The specification side (`reduceContentSpec`, …) states the TEI normalisation
declaratively.  Everything is parametric in the whitespace predicate `ws`.
-/
namespace Delb.WS

/-- `_crunch_whitespace`: every maximal run of whitespace becomes one space -/
def collapseAux (ws : Char → Bool) : Bool → Str → Str
  | _, [] => []
  | inRun, c :: cs =>
    if ws c then (if inRun then collapseAux ws true cs else ' ' :: collapseAux ws true cs)
    else c :: collapseAux ws false cs

def collapse (ws : Char → Bool) (s : Str) : Str := collapseAux ws false s

def ltrim (ws : Char → Bool) (s : Str) : Str := s.dropWhile ws
def rtrim (ws : Char → Bool) (s : Str) : Str := (s.reverse.dropWhile ws).reverse
def strip (ws : Char → Bool) (s : Str) : Str := rtrim ws (ltrim ws s)

/-- `_reduce_whitespace_content(content, is_first, is_last)` -/
def reduceContentImpl (ws : Char → Bool) (content : Str) (isFirst isLast : Bool) : Str :=
  let collapsed := collapse ws content
  let cs := strip ws collapsed
  let hasNws := !cs.isEmpty
  let hasTrailing := collapsed.getLast? == some ' '
  let result :=
    if !isFirst && hasNws && collapsed.head? == some ' ' then ' ' :: cs else cs
  if (!(isLast || isFirst) && hasTrailing)
      || (!isLast && isFirst && hasTrailing && hasNws)
      || (isFirst && isLast && !hasNws)
  then result ++ [' '] else result

/-- declarative statement: collapse runs; trim the start of a first and the end of a
    last child; an only child consisting of whitespace becomes one space -/
def reduceContentSpec (ws : Char → Bool) (content : Str) (isFirst isLast : Bool) : Str :=
  let c := collapse ws content
  let c := if isFirst then ltrim ws c else c
  let c := if isLast then rtrim ws c else c
  if c.isEmpty && isFirst && isLast then [' '] else c

inductive Mode | default | preserve
deriving DecidableEq, Repr

/-- `_get_normalize_space_directive(default)` -/
def directive (attrs : List Attr) (inherited : Mode) : Mode :=
  match attrs.find? (fun a => a.ns == Gen.xmlNamespace && a.name == "space") with
  | none => inherited
  | some a =>
    if a.value = "default".toList then .default
    else if a.value = "preserve".toList then .preserve
    else inherited

/-- last loop of `_reduce_whitespace_of_descendants`: positions refer to the child list
    as it is *before* whitespace-only nodes are removed -/
def reduceTexts (rc : Str → Bool → Bool → Str) (n : Nat) : Nat → List Node → List Node
  | _, [] => []
  | i, .text s :: rest =>
    let r := rc s (i == 0) (i + 1 == n)
    if r.isEmpty then reduceTexts rc n (i+1) rest else .text r :: reduceTexts rc n (i+1) rest
  | i, k :: rest => k :: reduceTexts rc n (i+1) rest

mutual
  /-- `_reduce_whitespace_of_descendants(normalize_space = m)` applied to a node -/
  def reduceNode (rc : Str → Bool → Bool → Str) (m : Mode) : Node → Node
    | .tag ns name attrs kids =>
      let m' := directive attrs m
      let kids2 := reduceList rc m' kids
      .tag ns name attrs
        (match m' with
         | .preserve => kids2
         | .default => reduceTexts rc kids2.length 0 kids2)
    | n => n
  /-- drop empty text nodes, recurse into tag children with the mode in effect -/
  def reduceList (rc : Str → Bool → Bool → Str) (m : Mode) : List Node → List Node
    | [] => []
    | .text [] :: ks => reduceList rc m ks
    | k :: ks => reduceNode rc m k :: reduceList rc m ks
end

/-- `merge_text_nodes`: concatenate maximal runs of adjacent text nodes, drop empty ones -/
def mergeKids : List Node → List Node
  | [] => []
  | .text s :: rest =>
    match mergeKids rest with
    | .text t :: rest' => .text (s ++ t) :: rest'
    | rest' => if s = [] then rest' else .text s :: rest'
  | k :: rest => k :: mergeKids rest

mutual
  def mergeNode : Node → Node
    | .tag ns name attrs kids => .tag ns name attrs (mergeKids (mergeList kids))
    | n => n
  def mergeList : List Node → List Node
    | [] => []
    | k :: ks => mergeNode k :: mergeList ks
end

/-- `TagNode._reduce_whitespace()` as the code does it: mode starts as `default` -/
def reduceImpl (ws : Char → Bool) (t : Node) : Node :=
  reduceNode (reduceContentImpl ws) .default t

def reduceSpec (ws : Char → Bool) (t : Node) : Node :=
  reduceNode (reduceContentSpec ws) .default t

/-! ## observation functions used by the theorems -/

mutual
  /-- the tree without its text nodes (elements, attributes, comments, PIs, order) -/
  def skeleton : Node → Node
    | .tag ns name attrs kids => .tag ns name attrs (skeletonList kids)
    | n => n
  def skeletonList : List Node → List Node
    | [] => []
    | .text _ :: ks => skeletonList ks
    | k :: ks => skeleton k :: skeletonList ks
end

mutual
  /-- concatenated text content in document order -/
  def fullText : Node → Str
    | .tag _ _ _ kids => fullTextList kids
    | .text s => s
    | _ => []
  def fullTextList : List Node → Str
    | [] => []
    | k :: ks => fullText k ++ fullTextList ks
end

def nonWs (ws : Char → Bool) (s : Str) : Str := s.filter (fun c => !ws c)

/-- no two adjacent text nodes and no empty text node, anywhere (what a parser delivers) -/
def mergedKids : List Node → Bool
  | [] => true
  | [.text s] => !s.isEmpty
  | .text _ :: .text _ :: _ => false
  | .text s :: k :: ks => !s.isEmpty && mergedKids (k :: ks)
  | _ :: ks => mergedKids ks

mutual
  def merged : Node → Bool
    | .tag _ _ _ kids => mergedKids kids && mergedAll kids
    | _ => true
  def mergedAll : List Node → Bool
    | [] => true
    | k :: ks => merged k && mergedAll ks
end

end Delb.WS

import DelbModel.Model.Edit
/-!
# The public editing API as composites of the primitive steps

`add_following_siblings`, `add_preceding_siblings`, `append_children`, `insert_children`,
`prepend_children`, `detach(retain_child_nodes=True)`, `replace_with` and `__delitem__` of
`_delb/nodes.py` are not primitive: they call `_add_following_sibling`, `_add_preceding_sibling`,
`__add_first_child` and `detach()` in some order.  This file writes that order down *once*, as total
functions over a `Machine` (a state with a step function and a plain-tree view), so that the same
definition runs on

* the mechanism            `machC : Machine StateC EditErr`   (`stepC`, viewed through `absState`),
* the specification        `machA : Machine StateA EditErr`   (`stepA`),
* the lock-step pair of the JSON driver (`DelbDriver/Edit.lean`, errors are strings there).

The only thing a composite ever does to a state is `M.step` (and `offer`, see below); every decision
it takes (how many children are there, which group index will a detached node get) is read off the
plain-tree view `M.view`.

`offer` is `_prepare_new_relative`: it turns an offered item into a `Source`.  For the theorems the items
are `Source`s already (`offerSource`); the driver passes its own `materialize` (clones, tag definitions),
which is the one piece that stays outside this file.

The second half of the file holds the *specifications* of the calls on plain trees: no iteration, just
"the child list becomes …".
-/
namespace Delb.Edit

/-! ## reading the plain-tree view -/

def nodeAtA (s : StateA) (a : Addr) : Option PTree :=
  match s.groups[a.g]? with
  | some (some t) => getAtP t a.path
  | _ => none

def kidsCountA (s : StateA) (a : Addr) : Nat :=
  match nodeAtA s a with
  | some t => t.kids.length
  | none => 0

/-! ## machines -/

/-- errors raised by the composite itself (not by a primitive step) -/
inductive ApiErr
  | rootSibling            -- `_validate_sibling_operation`: a root node takes no siblings
  | indexError             -- `insert_children` / `__delitem__`: index beyond the child list
  | unpack                 -- `insert_children(i)` without a node: `this, *queue = node`
  | retainWithoutParent    -- `detach(retain_child_nodes=True)` on a parentless node
  | replaceRoot            -- `replace_with` on a parentless node
deriving Repr, DecidableEq

structure Machine (σ ε : Type) where
  step : σ → Prim → Except ε σ
  view : σ → StateA
  fail : ApiErr → ε

def apiErr : ApiErr → EditErr
  | .rootSibling => .invalidOperation "root-sibling"
  | .indexError => .indexError
  | .unpack => .valueError
  | .retainWithoutParent => .invalidOperation "retain-without-parent"
  | .replaceRoot => .invalidOperation "replace-root"

/-- the mechanism -/
def machC : Machine StateC EditErr := { step := stepC, view := absState, fail := apiErr }
/-- the specification -/
def machA : Machine StateA EditErr := { step := stepA, view := id, fail := apiErr }

/-- `_prepare_new_relative`: make the offered item a `Source`; `ctx` is the node the method was called on -/
abbrev Offer (σ ε ι : Type) := σ → (ctx : Addr) → ι → Except ε (σ × Source)

/-- the item is a `Source` already -/
def offerSource {σ ε : Type} : Offer σ ε Source := fun s _ src => .ok (s, src)

section composites
variable {σ ε ι : Type}

/-- `a.add_following_siblings(*items)`: the first item is put after `a`, the rest is handed to
    `this.add_following_siblings(*queue)`, i.e. goes after the node just added -/
def addFollowingAll (M : Machine σ ε) (offer : Offer σ ε ι) : List ι → σ → Addr → Except ε σ
  | [], s, _ => .ok s
  | it :: rest, s, a =>
    if a.path.isEmpty then .error (M.fail .rootSibling) else
    match offer s a it with
    | .error e => .error e
    | .ok (s1, src) =>
      match M.step s1 (.addFollowing a src) with
      | .error e => .error e
      | .ok s2 =>
        match splitLast a.path with
        | some (p, i) => addFollowingAll M offer rest s2 { a with path := p ++ [i + 1] }
        | none => .ok s2

/-- `a.add_preceding_siblings(*items)`: the first item is put before `a`, the rest is handed to
    `this.add_preceding_siblings(*queue)`: it goes before the node just added, which now sits at the
    index `a` had -/
def addPrecedingAll (M : Machine σ ε) (offer : Offer σ ε ι) : List ι → σ → Addr → Except ε σ
  | [], s, _ => .ok s
  | it :: rest, s, a =>
    if a.path.isEmpty then .error (M.fail .rootSibling) else
    match offer s a it with
    | .error e => .error e
    | .ok (s1, src) =>
      match M.step s1 (.addPreceding a src) with
      | .error e => .error e
      | .ok s2 => addPrecedingAll M offer rest s2 a

/-- `__add_first_child(_prepare_new_relative(item))` -/
def addFirstOne (M : Machine σ ε) (offer : Offer σ ε ι) (it : ι) (s : σ) (a : Addr) : Except ε σ :=
  match offer s a it with
  | .error e => .error e
  | .ok (s1, src) => M.step s1 (.addFirst a src)

/-- `a.append_children(*items)` -/
def appendChildren (M : Machine σ ε) (offer : Offer σ ε ι) (items : List ι) (s : σ) (a : Addr) : Except ε σ :=
  match items with
  | [] => .ok s
  | it :: rest =>
    let n := kidsCountA (M.view s) a
    if n = 0 then
      match addFirstOne M offer it s a with
      | .error e => .error e
      | .ok s2 => addFollowingAll M offer rest s2 { a with path := a.path ++ [0] }
    else addFollowingAll M offer (it :: rest) s { a with path := a.path ++ [n - 1] }

/-- `a.insert_children(idx, *items)` -/
def insertChildren (M : Machine σ ε) (offer : Offer σ ε ι) (idx : Nat) (items : List ι) (s : σ) (a : Addr) :
    Except ε σ :=
  let n := kidsCountA (M.view s) a
  if idx > n then .error (M.fail .indexError) else
  match items with
  | [] => .error (M.fail .unpack)
  | it :: rest =>
    let first : Except ε σ :=
      if idx = 0 then
        (if n > 0 then addPrecedingAll M offer [it] s { a with path := a.path ++ [0] }
         else addFirstOne M offer it s a)
      else addFollowingAll M offer [it] s { a with path := a.path ++ [idx - 1] }
    match first with
    | .error e => .error e
    | .ok s1 => addFollowingAll M offer rest s1 { a with path := a.path ++ [idx] }

/-- `a.prepend_children(*items)` -/
def prependChildren (M : Machine σ ε) (offer : Offer σ ε ι) (items : List ι) (s : σ) (a : Addr) : Except ε σ :=
  insertChildren M offer 0 items s a

/-- `n` times: detach the first child of `a` -/
def detachKids (M : Machine σ ε) (a : Addr) : Nat → σ → Except ε σ
  | 0, s => .ok s
  | k + 1, s =>
    match M.step s (.detach { a with path := a.path ++ [0] }) with
    | .error e => .error e
    | .ok s' => detachKids M a k s'

/-- `a.detach(retain_child_nodes=True)`: the child nodes are detached one by one (each becomes a
    parentless group; their group indexes are the next free ones), the node itself is detached, then
    `parent.insert_children(index, *child_nodes)` -/
def detachRetain (M : Machine σ ε) (s : σ) (a : Addr) : Except ε σ :=
  if a.path.isEmpty then .error (M.fail .retainWithoutParent) else
  let n := kidsCountA (M.view s) a
  let g0 := (M.view s).groups.length
  match detachKids M a n s with
  | .error e => .error e
  | .ok s1 =>
    match M.step s1 (.detach a) with
    | .error e => .error e
    | .ok s2 =>
      match splitLast a.path with
      | none => .ok s2
      | some (p, i) =>
        if n = 0 then .ok s2
        else insertChildren M offerSource i ((List.range n).map (fun k => Source.group (g0 + k))) s2 { a with path := p }

/-- `a.replace_with(item)` (the driver passes a list; the library call has exactly one item) -/
def replaceWith (M : Machine σ ε) (offer : Offer σ ε ι) (items : List ι) (s : σ) (a : Addr) : Except ε σ :=
  if a.path.isEmpty then .error (M.fail .replaceRoot) else
  match addFollowingAll M offer items s a with
  | .error e => .error e
  | .ok s1 => M.step s1 (.detach a)

/-- `del a[idx]` -/
def delItem (M : Machine σ ε) (idx : Nat) (s : σ) (a : Addr) : Except ε σ :=
  if idx ≥ kidsCountA (M.view s) a then .error (M.fail .indexError)
  else M.step s (.detach { a with path := a.path ++ [idx] })

/-- the calls of the public API that are composites -/
inductive ApiCall (ι : Type)
  | addFollowing (a : Addr) (items : List ι)
  | addPreceding (a : Addr) (items : List ι)
  | append (a : Addr) (items : List ι)
  | insert (a : Addr) (idx : Nat) (items : List ι)
  | prepend (a : Addr) (items : List ι)
  | detachRetain (a : Addr)
  | replace (a : Addr) (items : List ι)
  | delItem (a : Addr) (idx : Nat)

def runApi (M : Machine σ ε) (offer : Offer σ ε ι) (s : σ) : ApiCall ι → Except ε σ
  | .addFollowing a items => addFollowingAll M offer items s a
  | .addPreceding a items => addPrecedingAll M offer items s a
  | .append a items => appendChildren M offer items s a
  | .insert a idx items => insertChildren M offer idx items s a
  | .prepend a items => prependChildren M offer items s a
  | .detachRetain a => detachRetain M s a
  | .replace a items => replaceWith M offer items s a
  | .delItem a idx => delItem M idx s a

end composites

/-- the API call as the mechanism performs it -/
def apiC (s : StateC) (c : ApiCall Source) : Except EditErr StateC := runApi machC offerSource s c
/-- the same call on plain trees -/
def apiA (s : StateA) (c : ApiCall Source) : Except EditErr StateA := runApi machA offerSource s c

/-! ## specifications on plain trees

Nothing below iterates over the offered items one edit at a time: a call is described by the child list
it leaves behind. -/

/-- replace the node at `path` by `f` of it; nothing else changes (an invalid path changes nothing) -/
def replaceAtP (f : PTree → PTree) : PTree → List Nat → PTree
  | t, [] => f t
  | .tag i ns n a ks, k :: p =>
    match ks[k]? with
    | some c => .tag i ns n a (ks.set k (replaceAtP f c p))
    | none => .tag i ns n a ks
  | t, _ :: _ => t

/-- the forest with the node at `a` replaced by `f` of it -/
def setNodeA (gs : List (Option PTree)) (a : Addr) (f : PTree → PTree) : List (Option PTree) :=
  match gs[a.g]? with
  | some (some t) => gs.set a.g (some (replaceAtP f t a.path))
  | _ => gs

/-- the trees that `srcs` offer, in the order given; new text nodes are numbered from `n` on -/
def offeredTrees (gs : List (Option PTree)) : Nat → List Source → List PTree
  | _, [] => []
  | n, .newText str :: rest => .text n str :: offeredTrees gs (n + 1) rest
  | n, .group g :: rest =>
    match gs[g]? with
    | some (some t) => t :: offeredTrees gs n rest
    | _ => offeredTrees gs n rest

def freshCount : List Source → Nat
  | [] => 0
  | .newText _ :: rest => freshCount rest + 1
  | .group _ :: rest => freshCount rest

def takenGroups : List Source → List Nat
  | [] => []
  | .newText _ :: rest => takenGroups rest
  | .group g :: rest => g :: takenGroups rest

/-- every group slot in `taken` is emptied (as `stepA` does it: `none` stays behind) -/
def clearGroups (gs : List (Option PTree)) (taken : List Nat) : List (Option PTree) :=
  gs.mapIdx (fun i x => if i ∈ taken then none else x)

/-- the shape of all adding calls: the node at `a` gets the child list `newKids kids offered`, the
    offered groups leave the forest, the fresh text nodes use up identities, nothing else changes -/
def spliceSpec (s : StateA) (a : Addr) (srcs : List Source) (newKids : List PTree → List PTree → List PTree) :
    StateA :=
  { groups := setNodeA (clearGroups s.groups (takenGroups srcs)) a
      (fun t => t.setKids (newKids t.kids (offeredTrees s.groups s.nextId srcs))),
    nextId := s.nextId + freshCount srcs }

/-- `append_children(*srcs)` on the node at `a` -/
def appendSpec (s : StateA) (a : Addr) (srcs : List Source) : StateA :=
  spliceSpec s a srcs (fun kids offered => kids ++ offered)

/-- `insert_children(i, *srcs)` on the node at `a` -/
def insertSpec (s : StateA) (a : Addr) (i : Nat) (srcs : List Source) : StateA :=
  spliceSpec s a srcs (fun kids offered => kids.take i ++ offered ++ kids.drop i)

/-- `add_following_siblings(*srcs)` on child `k` of the node at `parent` -/
def addFollowingSpec (s : StateA) (parent : Addr) (k : Nat) (srcs : List Source) : StateA :=
  spliceSpec s parent srcs (fun kids offered => kids.take (k + 1) ++ offered ++ kids.drop (k + 1))

/-- `add_preceding_siblings(*srcs)` on child `k` of the node at `parent`: every further node goes before
    the one added last, so the offered nodes end up in *reverse* order -/
def addPrecedingSpec (s : StateA) (parent : Addr) (k : Nat) (srcs : List Source) : StateA :=
  spliceSpec s parent srcs (fun kids offered => kids.take k ++ offered.reverse ++ kids.drop k)

/-- child `k` of the node at `parent` -/
def childAddr (parent : Addr) (k : Nat) : Addr := { parent with path := parent.path ++ [k] }

def replaceSpecOf (s : StateA) (parent : Addr) (k : Nat) (node : PTree) (srcs : List Source) : StateA :=
  let s' := spliceSpec s parent srcs (fun kids offered => kids.take k ++ offered ++ kids.drop (k + 1))
  { s' with groups := s'.groups ++ [some node] }

/-- `replace_with(*srcs)` on child `k` of the node at `parent`: the offered nodes take its place, the node
    becomes a parentless group (the last one) -/
def replaceSpec (s : StateA) (parent : Addr) (k : Nat) (srcs : List Source) : StateA :=
  match nodeAtA s (childAddr parent k) with
  | some node => replaceSpecOf s parent k node srcs
  | none => s

def delItemSpecOf (s : StateA) (parent : Addr) (k : Nat) (node : PTree) : StateA :=
  { s with groups := setNodeA s.groups parent (fun t => t.setKids (t.kids.eraseIdx k)) ++ [some node] }

/-- `del parent[k]`: child `k` becomes a parentless group -/
def delItemSpec (s : StateA) (parent : Addr) (k : Nat) : StateA :=
  match nodeAtA s (childAddr parent k) with
  | some node => delItemSpecOf s parent k node
  | none => s

def detachRetainSpecOf (s : StateA) (parent : Addr) (k : Nat) (node : PTree) : StateA :=
  { s with groups :=
      setNodeA s.groups parent (fun t => t.setKids (t.kids.take k ++ node.kids ++ t.kids.drop (k + 1)))
        ++ List.replicate node.kids.length none ++ [some (node.setKids [])] }

/-- `detach(retain_child_nodes=True)` of child `k` of the node at `parent`: the node's children take its
    place, in order; the node becomes a parentless group without children.  (Each child was a group of its
    own for a moment: that leaves as many empty group slots as the node had children.) -/
def detachRetainSpec (s : StateA) (parent : Addr) (k : Nat) : StateA :=
  match nodeAtA s (childAddr parent k) with
  | some node => detachRetainSpecOf s parent k node
  | none => s

/-! ## legality of a call (decidable) -/

/-- the node at `a` is a tag node -/
def tagAt (s : StateA) (a : Addr) : Bool :=
  match nodeAtA s a with
  | some t => t.isTag
  | none => false

/-- the node at `parent` is a tag node and has a child `k` -/
def childAt (s : StateA) (parent : Addr) (k : Nat) : Bool :=
  match nodeAtA s parent with
  | some t => t.isTag && decide (k < t.kids.length)
  | none => false

/-- what may be offered to a node of group `g`: roots of existing groups other than `g` (so the target is not
    inside an offered tree), no group twice -/
def legalSources (s : StateA) (g : Nat) (srcs : List Source) : Bool :=
  (takenGroups srcs).all (fun g' => g' != g && (match s.groups[g']? with | some (some _) => true | _ => false))
    && decide (takenGroups srcs).Nodup

end Delb.Edit

import DelbModel.Model.Edit
/-!
# Guards of the editing API (`_delb/nodes.py`, `delb/__init__.py`)

The checks that make an editing call raise instead of changing a tree, in the order the code
evaluates them *before* its first mutation:

* `NodeBase._prepare_new_relative` — the offered node must have no parent and no siblings
* `_validate_sibling_operation` (NodeBase and TagNode variants) — what may sit next to a root
* `TagNode.detach` / `replace_with` / `insert_children` / `__setitem__` / `__delitem__` guards
* `CommentNode._validate_content`, `ProcessingInstructionNode._validate_target_value`

`NodeInfo` is what these checks read from a node.  `infoAt` derives it from a plain forest
(`StateA`), where a group is a parentless tree; `isDocRoot` marks the root of a document.
-/
namespace Delb.Guards
open Delb.Edit

inductive Kind | tag | text | comment | pi
deriving DecidableEq, Repr

inductive Rejection
  | invalidOperation | typeError | indexError | valueError
  | attributeError    -- not a deliberate rejection: `self.parent._new_tag_node_from_definition` on a parentless node
deriving DecidableEq, Repr

structure NodeInfo where
  kind : Kind
  hasParent : Bool
  hasNext : Bool        -- `_fetch_following_sibling()` is not None
  hasPrev : Bool        -- `fetch_preceding_sibling()` is not None (no filters)
  isDocRoot : Bool      -- `__document__` is set
  nkids : Nat
deriving Repr

def kindOf : PTree → Kind
  | .tag .. => .tag | .text .. => .text | .comment .. => .comment | .pi .. => .pi

def isMarkup (k : Kind) : Bool := k == .comment || k == .pi

/-- what the guards see of the node at `a`; `docRoot` = group index of the document's root, if any -/
def infoAt (s : StateA) (docRoot : Option Nat) (a : Addr) : Option NodeInfo :=
  match s.groups[a.g]? with
  | some (some t) =>
    match getAtP t a.path with
    | none => none
    | some n =>
      let sibs : List PTree × Nat := match splitLast a.path with
        | none => ([], 0)
        | some (p, i) => ((getAtP t p).map PTree.kids |>.getD [], i)
      some { kind := kindOf n, hasParent := !a.path.isEmpty,
             hasNext := !a.path.isEmpty && sibs.2 + 1 < sibs.1.length,
             hasPrev := !a.path.isEmpty && sibs.2 > 0,
             isDocRoot := a.path.isEmpty && docRoot == some a.g, nkids := n.kids.length }
  | _ => none

/-- `_prepare_new_relative`: "A node that shall be added to a tree must have neither a parent nor any sibling
    node" - and it must not be the root of a document (which has neither, but lives in its document) -/
def prepareNewRelative (offered : NodeInfo) : Option Rejection :=
  if offered.hasParent || offered.hasNext || offered.hasPrev || offered.isDocRoot then some .invalidOperation else none

/-- `_validate_sibling_operation(this)` called on `target` -/
def validateSibling (target : NodeInfo) (offeredKind : Kind) : Option Rejection :=
  if target.hasParent then none
  else if target.kind == .tag then
    -- TagNode variant: comment/PI next to a document root are fine; raises TypeError
    if isMarkup offeredKind && target.isDocRoot then none else some .typeError
  else
    -- NodeBase variant: only among comment/PI root siblings; raises InvalidOperation
    if isMarkup offeredKind && isMarkup target.kind then none else some .invalidOperation

/-- `add_following_siblings(node)` / `add_preceding_siblings(node)` with one node; `isDefinition`:
    the node is given as a `tag(…)` definition, which `_prepare_new_relative` turns into a node through
    `self.parent` when the target is not itself a tag node -/
def addSiblingGuard (target offered : NodeInfo) (isDefinition : Bool := false) : Option Rejection :=
  if isDefinition && target.kind != .tag && !target.hasParent then some .attributeError else
  match prepareNewRelative offered with
  | some r => some r
  | none => validateSibling target offered.kind

/-- `append_children(node)` / first step of `insert_children`: only the attachment check -/
def addChildGuard (offered : NodeInfo) : Option Rejection := prepareNewRelative offered

/-- `detach(retain_child_nodes)` -/
def detachGuard (target : NodeInfo) (retain : Bool) : Option Rejection :=
  if target.kind == .tag then
    if target.isDocRoot then some .invalidOperation
    else if retain && !target.hasParent then some .invalidOperation
    else none
  else none

/-- `replace_with(node)` -/
def replaceGuard (target offered : NodeInfo) (isDefinition : Bool := false) : Option Rejection :=
  if !target.hasParent then some .invalidOperation else addSiblingGuard target offered isDefinition

/-- `insert_children(index, node)` -/
def insertGuard (target offered : NodeInfo) (index : Int) : Option Rejection :=
  if index < 0 then some .valueError
  else if index > target.nkids then some .indexError
  else prepareNewRelative offered

/-- `node[index] = value` with an integer index (no negative-index support in `__setitem__`):
    an empty node takes the value as first child through `append_children`, otherwise the addressed
    child is replaced -/
def setItemGuard (target offered : NodeInfo) (index : Int) : Option Rejection :=
  if target.nkids == 0 && index == 0 then addChildGuard offered
  else if 0 ≤ index && index < target.nkids then prepareNewRelative offered else some .indexError

/-- `del node[index]`: `self[item]` supports negative indexes -/
def delItemGuard (target : NodeInfo) (index : Int) : Option Rejection :=
  let i := if index < 0 then index + target.nkids else index
  if 0 ≤ i && i < target.nkids then none else some .indexError

def hasSub (sub : Str) : Str → Bool
  | [] => sub.isEmpty
  | c :: cs => sub.isPrefixOf (c :: cs) || hasSub sub cs

/-- `CommentNode._validate_content`: `"--" in value or value.endswith("-")` raises ValueError -/
def commentContentOk (s : Str) : Bool := !(hasSub ['-', '-'] s) && s.getLast? != some '-'

def lowerAscii (c : Char) : Char := if 'A' ≤ c ∧ c ≤ 'Z' then Char.ofNat (c.toNat + 32) else c

/-- `ProcessingInstructionNode._validate_target_value`: empty or `xml` in any case raises ValueError -/
def piTargetOk (s : Str) : Bool := !s.isEmpty && s.map lowerAscii != ['x', 'm', 'l']

/-! ## the declarative side -/

/-- XML 1.0 §2.5: a comment must not contain `--` and must not end in `-` -/
def CommentWellFormed (s : Str) : Prop :=
  (¬ ∃ pre post, s = pre ++ ['-', '-'] ++ post) ∧ (s = [] ∨ ∃ pre c, s = pre ++ [c] ∧ c ≠ '-')

/-- a node may be offered to an editing call iff it is the root of its own group -/
def Offerable (s : StateA) (a : Addr) : Prop := a.path = [] ∧ ∃ t, s.groups[a.g]? = some (some t)

end Delb.Guards

import DelbModel.Model.Pretty
import DelbModel.Model.Clone
/-!
# `Document.__serialize`, `write`, `save`, `__str__` and the root setter (delb/__init__.py)

A document is its prologue (comments / processing instructions before the root), the root tree and
its epilogue.  `docPieces` is the stream `__serialize` writes: the XML declaration naming the encoding
in upper case, then prologue, root and epilogue — separated by a newline exactly when a formatting
serializer is used.  `readDoc` is the reading side on the same pieces.
-/
namespace Delb.Doc
open Delb.Ser

structure Document where
  prologue : List Node      -- comments and PIs only
  root : Node
  epilogue : List Node
deriving Repr

inductive DPiece
  | decl (encoding : String)          -- `<?xml version="1.0" encoding="…"?>`
  | newline                           -- `possible_newline`
  | misc (n : Node)                   -- a top-level comment or PI: `str(node)`
  | root (s : Str)                    -- the root's serialization
deriving Repr

def upperAscii (c : Char) : Char := if 'a' ≤ c ∧ c ≤ 'z' then Char.ofNat (c.toNat - 32) else c

/-- `encoding.upper()` (labels are ASCII) -/
def upper (s : String) : String := String.ofList (s.toList.map upperAscii)

/-- the pieces `Document.__serialize` writes; `formatted` = the serializer is a PrettySerializer -/
def docPieces (formatted : Bool) (encoding : String) (d : Document) (rootStr : Str) : List DPiece :=
  let nl : List DPiece := if formatted then [.newline] else []
  [.decl (upper encoding)] ++ nl
    ++ d.prologue.flatMap (fun n => DPiece.misc n :: nl)
    ++ [.root rootStr]
    ++ (match d.epilogue.getLast? with
        | none => []
        | some last => nl ++ d.epilogue.dropLast.flatMap (fun n => DPiece.misc n :: nl) ++ [.misc last])

def renderMisc : Node → Str
  | .comment s => "<!--".toList ++ s ++ "-->".toList
  | .pi t s => "<?".toList ++ t.toList ++ [' '] ++ s ++ "?>".toList
  | _ => []

def renderDPiece : DPiece → Str
  | .decl enc => ("<?xml version=\"1.0\" encoding=\"" ++ enc ++ "\"?>").toList
  | .newline => ['\n']
  | .misc n => renderMisc n
  | .root s => s

def renderDoc (ps : List DPiece) : Str := ps.flatMap renderDPiece

/-- the reading side: declaration, then top-level comments/PIs around exactly one root;
    newlines between top-level constructs are not content -/
def readDoc : List DPiece → Option (String × List Node × Str × List Node)
  | .decl enc :: rest =>
    let items := rest.filter (fun p => match p with | .newline => false | _ => true)
    let pro := items.takeWhile (fun p => match p with | .misc _ => true | _ => false)
    match items.drop pro.length with
    | .root s :: after =>
      if after.all (fun p => match p with | .misc _ => true | _ => false) then
        some (enc, pro.filterMap (fun p => match p with | .misc n => some n | _ => none), s,
              after.filterMap (fun p => match p with | .misc n => some n | _ => none))
      else none
    | _ => none
  | _ => none

def isMisc : Node → Bool
  | .comment _ => true
  | .pi .. => true
  | _ => false

/-- `Document.root = node`: `_copy_root_siblings` carries prologue and epilogue over to the new root -/
def setRoot (d : Document) (new : Node) : Document := { d with root := new }

mutual
  /-- `ParserOptions(remove_comments / remove_processing_instructions)`: exactly those nodes go -/
  def dropKinds (comments pis : Bool) : Node → Node
    | .tag ns name a ks => .tag ns name a (dropKindsList comments pis ks)
    | n => n
  def dropKindsList (comments pis : Bool) : List Node → List Node
    | [] => []
    | .comment s :: ks => if comments then dropKindsList comments pis ks else .comment s :: dropKindsList comments pis ks
    | .pi t s :: ks => if pis then dropKindsList comments pis ks else .pi t s :: dropKindsList comments pis ks
    | k :: ks => dropKinds comments pis k :: dropKindsList comments pis ks
end

end Delb.Doc

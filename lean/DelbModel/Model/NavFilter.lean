import DelbModel.Model.Nav
/-!
# Navigation with filters (`_delb/nodes.py`)

The filtered variants of the iterators of `Nav.lean`, in the shape of the code.  All filters in
effect (`default_filters[-1] + filter`, `chain(default_filters[-1], filter)`) are one predicate
`p : PTree → Bool`.  As in `Nav.lean` a *sibling pointer* is the list suffix that starts at that
sibling: `_fetch_following_sibling()` of the head of `c :: rest` is the pointer `rest`, and the
unfiltered preceding sibling of a node with left siblings `c :: left` (nearest first) is `c`, whose
own left siblings are `left`.

Which filters an iterator applies (code locations in `_delb/nodes.py`):

* `iterate_children`, `iterate_descendants`, `fetch_following_sibling`, `fetch_preceding_sibling`,
  `iterate_following`, `iterate_preceding`: default filters and the given ones;
* `iterate_ancestors` (`NodeBase.iterate_ancestors`): **only** the given filters, the default filters
  are not consulted;
* `first_child`, `last_child`, `__len__`, `__getitem__(int)`, `index`, `last_descendant`: the default
  filters (through `iterate_children()`).

`_iterate_following` and `_iterate_preceding` switch the default filters off for their own lookups
(`altered_default_filters()`), hence they walk the unfiltered tree and the public iterators test
every node they yield.  `last_descendant` is the one place that does *not* restrict the unfiltered
answer: it follows `last_child` under the filters and so never enters a hidden node
(`lastDescendantF`).
-/
namespace Delb.Nav
open Delb.Edit

/-- `for node in <iterator>: if all(f(node) for f in all_filters): yield node` -/
def yieldIf (p : PTree → Bool) : List PTree → List PTree
  | [] => []
  | c :: rest => if p c then c :: yieldIf p rest else yieldIf p rest

/-! ## children -/

/-- `TagNode.iterate_children(*filter)`: one loop from the first child node over
    `_fetch_following_sibling`; `cand` is the sibling pointer `candidate` -/
def childrenLoopF (p : PTree → Bool) : List PTree → List PTree
  | [] => []                                    -- `candidate is None`
  | c :: rest =>
    if p c then c :: childrenLoopF p rest       -- `yield candidate`
    else childrenLoopF p rest                   -- `candidate = candidate._fetch_following_sibling()`

/-- `iterate_children(*filter)`; nodes without children yield nothing (`kids = []`) -/
def childrenF (p : PTree → Bool) (t : PTree) : List PTree := childrenLoopF p t.kids

/-- `first_child`: `for result in self.iterate_children(): return result` / `return None` -/
def firstChildF (p : PTree → Bool) (t : PTree) : Option PTree :=
  match childrenF p t with
  | [] => none
  | c :: _ => some c

/-- `last_child`: `result = None; for result in self.iterate_children(): pass; return result` -/
def lastChildF (p : PTree → Bool) (t : PTree) : Option PTree :=
  (childrenF p t).foldl (fun _ c => some c) none

/-- `__len__`: `i = 0; for i, _ in enumerate(self.iterate_children(), start=1): pass; return i` -/
def lenF (p : PTree → Bool) (t : PTree) : Nat :=
  ((childrenF p t).zipIdx 1).foldl (fun _ x => x.2) 0

/-- `for index, child_node in enumerate(...): if index == item: return child_node` -/
def getLoop (item : Int) : List PTree → Nat → Option PTree
  | [], _ => none                               -- falls out of the loop: `IndexError`
  | c :: rest, index => if (index : Int) = item then some c else getLoop item rest (index + 1)

/-- `TagNode.__getitem__(item: int)`; `none` is the `IndexError` -/
def getItemF (p : PTree → Bool) (t : PTree) (item : Int) : Option PTree :=
  let item := if item < 0 then (lenF p t : Int) + item else item
  getLoop item (childrenF p t) 0

/-- `NodeBase.index`: `for index, node in enumerate(parent.iterate_children()): if node is self:
    return index`, fused with the generator it consumes.  `pos` is the position of `candidate` among
    all children of the parent and decides `node is self`; `none` is the `InvalidCodePath` the loop
    falls into when the node itself does not pass the default filters. -/
def indexLoop (p : PTree → Bool) (self : Nat) : List PTree → Nat → Nat → Option Nat
  | [], _, _ => none
  | c :: rest, pos, index =>
    if p c then
      if pos = self then some index else indexLoop p self rest (pos + 1) (index + 1)
    else indexLoop p self rest (pos + 1) index

/-- `index` of the child at position `i` of `parent` -/
def indexInF (p : PTree → Bool) (parent : PTree) (i : Nat) : Option Nat :=
  indexLoop p i parent.kids 0 0

/-- `index` of the node at `path`; `none` for a root (`parent is None`) as well -/
def indexF (p : PTree → Bool) (root : PTree) (path : List Nat) : Option Nat :=
  match splitLast path with
  | none => none
  | some (par, i) => match getAtP root par with
    | some parent => indexInF p parent i
    | none => none

/-! ## siblings -/

/-- `NodeBase.fetch_following_sibling(*filter)`: `candidate = self._fetch_following_sibling();
    while candidate is not None: …`.  The argument is the pointer `candidate`; the result is the
    node found together with its own following siblings. -/
def fetchFollowingSiblingLoop (p : PTree → Bool) : List PTree → Option (PTree × List PTree)
  | [] => none
  | c :: rest => if p c then some (c, rest) else fetchFollowingSiblingLoop p rest

/-- `NodeBase.iterate_following_siblings(*filter)`: `next_node = self.fetch_following_sibling(*filter);
    while next_node is not None: yield next_node; next_node = next_node.fetch_following_sibling(*filter)` -/
def iterateFollowingSiblingsLoop (p : PTree → Bool) : Nat → List PTree → List PTree
  | 0, _ => []
  | fuel + 1, sibs =>
    match fetchFollowingSiblingLoop p sibs with
    | none => []
    | some (n, sibs') => n :: iterateFollowingSiblingsLoop p fuel sibs'

/-- `fetch_preceding_sibling(*filter)` of `_ElementWrappingNode` and `TextNode`: compute the unfiltered
    predecessor `candidate` (the head of the left siblings, nearest first); `if all(…): return candidate
    else: return candidate.fetch_preceding_sibling(*filter)` — a recursion, not a loop -/
def fetchPrecedingSiblingRec (p : PTree → Bool) : List PTree → Option (PTree × List PTree)
  | [] => none                                  -- `candidate is None`
  | c :: left => if p c then some (c, left) else fetchPrecedingSiblingRec p left

/-- `NodeBase.iterate_preceding_siblings(*filter)` -/
def iteratePrecedingSiblingsLoop (p : PTree → Bool) : Nat → List PTree → List PTree
  | 0, _ => []
  | fuel + 1, left =>
    match fetchPrecedingSiblingRec p left with
    | none => []
    | some (n, left') => n :: iteratePrecedingSiblingsLoop p fuel left'

def fetchFollowingSiblingF (p : PTree → Bool) (root : PTree) (path : List Nat) : Option PTree :=
  (fetchFollowingSiblingLoop p (followingSiblings root path)).map (·.1)

def followingSiblingsF (p : PTree → Bool) (root : PTree) (path : List Nat) : List PTree :=
  iterateFollowingSiblingsLoop p ((followingSiblings root path).length + 1) (followingSiblings root path)

def fetchPrecedingSiblingF (p : PTree → Bool) (root : PTree) (path : List Nat) : Option PTree :=
  (fetchPrecedingSiblingRec p (precedingSiblings root path)).map (·.1)

def precedingSiblingsF (p : PTree → Bool) (root : PTree) (path : List Nat) : List PTree :=
  iteratePrecedingSiblingsLoop p ((precedingSiblings root path).length + 1) (precedingSiblings root path)

/-! ## descendants -/

/-- `TagNode.iterate_descendants(*filter)`: the loop of `descLoop`; only the `yield` is guarded, the
    children of a tag node that does not pass are visited all the same -/
def descLoopF (p : PTree → Bool) : Nat → List PTree → List (List PTree) → List PTree
  | 0, _, _ => []
  | _, [], [] => []
  | fuel + 1, [], s :: stack => descLoopF p fuel s stack
  | fuel + 1, n :: rest, stack =>
    match n with
    | .tag _ _ _ _ ks =>
      if p n then n :: descLoopF p fuel ks (rest :: stack) else descLoopF p fuel ks (rest :: stack)
    | _ =>
      if p n then n :: descLoopF p fuel rest stack else descLoopF p fuel rest stack

def descendantsF (p : PTree → Bool) (t : PTree) : List PTree := descLoopF p (2 * size t + 2) t.kids []

/-! ## ancestors -/

/-- `NodeBase.iterate_ancestors(*filter)`: `parent = self.parent; if parent is not None:
    if all(f(parent) for f in filter): yield parent; yield from parent.iterate_ancestors(*filter)`.
    `k` is the depth of the node the method is called on (the prefix `path.take k`); here `p` stands
    for the *given* filters only. -/
def ancestorsRecF (p : PTree → Bool) (root : PTree) (path : List Nat) : Nat → List PTree
  | 0 => []                                     -- `parent is None`
  | k + 1 =>
    match getAtP root (path.take k) with
    | some parent => if p parent then parent :: ancestorsRecF p root path k else ancestorsRecF p root path k
    | none => ancestorsRecF p root path k

def ancestorsF (p : PTree → Bool) (root : PTree) (path : List Nat) : List PTree :=
  ancestorsRecF p root path path.length

/-! ## following / preceding -/

/-- `NodeBase.iterate_following(*filter)`: `for node in self._iterate_following(): if all(…): yield node` -/
def followingF (p : PTree → Bool) (root : PTree) (path : List Nat) : List PTree :=
  yieldIf p (following root path)

/-- `NodeBase.iterate_preceding(*filter)` -/
def precedingF (p : PTree → Bool) (root : PTree) (path : List Nat) : List PTree :=
  yieldIf p (preceding root path)

/-- `try: return next(<generator>) except StopIteration: return None` -/
def nextOf : List PTree → Option PTree
  | [] => none
  | n :: _ => some n

/-- `NodeBase.fetch_following(*filter)` -/
def fetchFollowingF (p : PTree → Bool) (root : PTree) (path : List Nat) : Option PTree :=
  nextOf (followingF p root path)

/-- `NodeBase.fetch_preceding(*filter)` -/
def fetchPrecedingF (p : PTree → Bool) (root : PTree) (path : List Nat) : Option PTree :=
  nextOf (precedingF p root path)

/-! ## `last_descendant` under default filters -/

/-- `TagNode.last_descendant`: `node = self.last_child; while node is not None: candidate =
    node.last_child; if candidate is None: break; node = candidate` with `last_child` under the
    default filters: the walk never enters a node that does not pass -/
def lastDescendantF (p : PTree → Bool) : Nat → PTree → Option PTree
  | 0, _ => none
  | fuel + 1, t =>
    match lastChildF p t with
    | none => none
    | some l => match lastDescendantF p fuel l with
      | some d => some d
      | none => some l

end Delb.Nav

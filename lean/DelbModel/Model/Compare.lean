import DelbModel.Model.Tree
/-!
# `delb.utils.compare_trees` and the `__eq__` methods it relies on

`compare f a b` mirrors the recursion of `compare_trees` when the default filters in
effect amount to the predicate `f` (children are taken from `iterate_children()` and
`len()`, which apply the default filters; the two roots are compared unconditionally).
The result is `none` for "trees are equal" or the kind of the first difference together
with the path (child indexes among *visible* children) of the differing pair.
-/
namespace Delb.Compare

inductive Diff
  | nodeType | tagNamespace | tagLocalName | tagAttributes | tagChildrenSize | nodeContent
deriving DecidableEq, Repr

def lookupAttr (ns name : String) : List Attr → Option Str
  | [] => none
  | a :: as => if a.ns == ns && a.name == name then some a.value else lookupAttr ns name as

/-- `TagAttributes.__eq__` for two attribute collections -/
def attrsEq (a b : List Attr) : Bool :=
  a.length == b.length && a.all (fun x => lookupAttr x.ns x.name b == some x.value)

/-- `isinstance(rhr, lhr.__class__)` for the four concrete node classes -/
def sameKind : Node → Node → Bool
  | .tag .., .tag .. => true
  | .text _, .text _ => true
  | .comment _, .comment _ => true
  | .pi .., .pi .. => true
  | _, _ => false

/-- `lhr != rhr` for child-less nodes of the same class -/
def leafEq : Node → Node → Bool
  | .text s, .text t => s == t
  | .comment s, .comment t => s == t
  | .pi t s, .pi t' s' => t == t' && s == s'
  | _, _ => false

/-- advance the right-hand iterator to its next visible child -/
def skipHidden (f : Node → Bool) : List Node → List Node
  | [] => []
  | b :: bs => if f b then b :: bs else skipHidden f bs

mutual
  def compare (f : Node → Bool) : Node → Node → Option (Diff × List Nat)
    | .tag ns name attrs kids, .tag ns' name' attrs' kids' =>
      if ns != ns' then some (.tagNamespace, [])
      else if name != name' then some (.tagLocalName, [])
      else if !attrsEq attrs attrs' then some (.tagAttributes, [])
      else if (kids.filter f).length != (kids'.filter f).length then some (.tagChildrenSize, [])
      else compareKids f 0 kids kids'
    | a, b =>
      if !sameKind a b then some (.nodeType, [])
      else if !leafEq a b then some (.nodeContent, [])
      else none
  /-- `zip(lhr.iterate_children(), rhr.iterate_children())` with the filter applied lazily -/
  def compareKids (f : Node → Bool) (i : Nat) : List Node → List Node → Option (Diff × List Nat)
    | [], _ => none
    | a :: as, bs =>
      if f a then
        match skipHidden f bs with
        | [] => none
        | b :: bs' =>
          match compare f a b with
          | some (d, p) => some (d, i :: p)
          | none => compareKids f (i+1) as bs'
      else compareKids f i as bs
end

/-! ## Specification: equality of the visible trees -/

mutual
  /-- the tree a program sees under the filter: hidden children removed, hereditarily -/
  def visible (f : Node → Bool) : Node → Node
    | .tag ns name attrs kids => .tag ns name attrs (visibleList f kids)
    | n => n
  def visibleList (f : Node → Bool) : List Node → List Node
    | [] => []
    | k :: ks => if f k then visible f k :: visibleList f ks else visibleList f ks
end

/-- attribute collections denote the same dictionary -/
def sameDict (a b : List Attr) : Prop :=
  ∀ ns name, lookupAttr ns name a = lookupAttr ns name b

def uniqueKeys (a : List Attr) : Prop :=
  (a.map (fun x => (x.ns, x.name))).Nodup

mutual
  /-- structural equality of trees, attributes compared as dictionaries -/
  inductive Eqv : Node → Node → Prop
    | text (s : Str) : Eqv (.text s) (.text s)
    | comment (s : Str) : Eqv (.comment s) (.comment s)
    | pi (t : String) (s : Str) : Eqv (.pi t s) (.pi t s)
    | tag (ns name : String) (a b : List Attr) (ks ks' : List Node) :
        sameDict a b → EqvList ks ks' → Eqv (.tag ns name a ks) (.tag ns name b ks')
  inductive EqvList : List Node → List Node → Prop
    | nil : EqvList [] []
    | cons (a b : Node) (as bs : List Node) : Eqv a b → EqvList as bs → EqvList (a :: as) (b :: bs)
end

mutual
  /-- every tag node of the tree has attributes with pairwise different (namespace, name) -/
  def wellFormed : Node → Prop
    | .tag _ _ attrs kids => uniqueKeys attrs ∧ wellFormedList kids
    | _ => True
  def wellFormedList : List Node → Prop
    | [] => True
    | k :: ks => wellFormed k ∧ wellFormedList ks
end

end Delb.Compare

namespace Delb.Compare

/-- the node reached by a path of child indexes -/
def nodeAt : Node → List Nat → Option Node
  | n, [] => some n
  | .tag _ _ _ kids, i :: p => match kids[i]? with
    | some k => nodeAt k p
    | none => none
  | _, _ :: _ => none

def kidsOf : Node → List Node
  | .tag _ _ _ kids => kids
  | _ => []

/-- what it means for a reported pair to really differ in the reported aspect -/
def DiffersIn : Diff → Node → Node → Prop
  | .nodeType, x, y => sameKind x y = false
  | .tagNamespace, .tag ns _ _ _, .tag ns' _ _ _ => ns ≠ ns'
  | .tagLocalName, .tag ns n _ _, .tag ns' n' _ _ => ns = ns' ∧ n ≠ n'
  | .tagAttributes, .tag _ _ a _, .tag _ _ b _ => ¬ sameDict a b
  | .tagChildrenSize, x@(.tag ..), y@(.tag ..) => (kidsOf x).length ≠ (kidsOf y).length
  | .nodeContent, x, y => sameKind x y = true ∧ leafEq x y = false
  | _, _, _ => False

end Delb.Compare

import DelbModel.Model.XPath.Spec
/-!
# XPath 1.0 value semantics of predicate expressions (REC-xpath-19991116 §2.4, §3.4, §3.5, §4)

`Spec.lean` says what axes, node tests, proximity positions, steps, paths and unions mean, and takes
the VALUE of a predicate expression from the mechanism model (`predHolds`).  This file is the
declarative counterpart for that value: what the recommendation says a predicate expression
evaluates to, for the expressions the parser can produce (`Expr`, Parser.lean).

Nothing here mentions Python objects (`Val`, `None`, truthiness, `operator.*`).  The four object
types of §1 are `XVal`: node-set (of attribute nodes: `@name` selects at most one node, given by its
string-value), string, number, boolean.  Only non-negative integers arise as numbers: the supported
language has number literals, `position()` and `last()`, and no arithmetic.

`none` means "no value in the supported fragment":
* XPath 1.0 signals an error (unknown function, wrong number of arguments, undeclared prefix), or
* the recommendation's `number()` / `string()` conversion of a string / number / boolean would be
  needed (§4.2, §4.4: e.g. `@n < 3`, `contains(1, '1')`), which is outside the modelled language, or
* the function is `concat` / `text` (delb extensions of the predicate language that are not covered).

Where the mechanism (`evalExpr`, `truthy`) and this file differ, the mechanism deviates from
XPath 1.0: `PredSafe` (below) lists those situations one by one, `c06_pred_eq_xpath1_partial`
(Props/C06.lean) proves agreement outside them, `c06_pred_deviation_*` show the difference inside.
-/
namespace Delb.XPath
open Delb.Edit

/-- §1: "node-set, boolean, number, string".  A node-set here is the result of `attribute::name`:
    no node or one attribute node (an element has no two attributes with the same expanded-name),
    represented by its string-value (§5.3: the normalized value). -/
inductive XVal
  | nodes (a : Option Str)
  | str (s : Str)
  | num (n : Nat)
  | bool (b : Bool)
deriving DecidableEq, Repr, Inhabited

/-- §4.3 `boolean()`: "a number is true if and only if it is neither … zero nor NaN; a node-set is
    true if and only if it is non-empty; a string is true if and only if its length is non-zero" -/
def XVal.toBool : XVal → Bool
  | .nodes a => a.isSome
  | .str s => !s.isEmpty
  | .num n => n != 0
  | .bool b => b

/-- §4.2 `string()`: "a node-set is converted to a string by returning the string-value of the node in
    the node-set that is first in document order.  If the node-set is empty, an empty string is
    returned."  (Numbers and booleans: outside the supported fragment.) -/
def XVal.toStr : XVal → Option Str
  | .nodes a => some (a.getD [])
  | .str s => some s
  | _ => none

/-- §4.4 `number()`: "boolean true is converted to 1; boolean false is converted to 0".  (Strings and
    node-sets: outside the supported fragment.) -/
def XVal.toNum : XVal → Option Nat
  | .num n => some n
  | .bool b => some (if b then 1 else 0)
  | _ => none

/-- `attribute::pfx:name` from context node `n` (§2.2: "the attribute axis contains the attributes of
    the context node; the axis will be empty unless the context node is an element"; §2.3: a QName
    without prefix has a null namespace URI; "it is an error if the QName has a prefix for which there
    is no namespace declaration in the expression context"). -/
def attrNode (root : PTree) (env : NsEnv) (n : XNode) (pfx : Option Str) (name : Str) : Option (Option Str) :=
  let onNode (uri : String) : Option Str :=
    match nodeOf root n with
    | some (.tag _ _ _ attrs _) => lookupAttrVal attrs uri (showS name)
    | _ => none
  match pfx with
  | none => some (onNode "")
  | some p =>
    match Ser.dget env (showS p) with
    | some uri => some (onNode uri)
    | none => none

/-- §3.4 `=` (`ne = false`) and `!=` (`ne = true`):
    * "if one object to be compared is a node-set and the other is a string, then the comparison will
      be true if and only if there is a node in the node-set such that the result of performing the
      comparison on the string-value of the node and the other string is true" (both node-sets: a node
      in each) — so with an empty node-set `=` and `!=` are both false;
    * "if one object to be compared is a node-set and the other is a boolean, then the comparison will
      be true if and only if the result of performing the comparison on the boolean and on the result
      of converting the node-set to a boolean using the boolean function is true";
    * no node-set: "if at least one object to be compared is a boolean, then each object to be compared
      is converted to a boolean …  Otherwise, if at least one object to be compared is a number, then
      each … is converted to a number …  Otherwise, both objects to be compared are converted to
      strings."  (A number against a string or node-set needs `number()` of a string: `none`.) -/
def eqSpec (ne : Bool) : XVal → XVal → Option Bool
  | .bool a, y => some ((a == y.toBool) != ne)
  | x, .bool b => some ((x.toBool == b) != ne)
  | .num a, .num b => some ((a == b) != ne)
  | .num _, _ => none
  | _, .num _ => none
  | .nodes a, .nodes b => some (match a, b with | some x, some y => (x == y) != ne | _, _ => false)
  | .nodes a, .str s => some (match a with | some x => (x == s) != ne | none => false)
  | .str s, .nodes a => some (match a with | some x => (s == x) != ne | none => false)
  | .str a, .str b => some ((a == b) != ne)

/-- §3.4 `<`, `<=`, `>`, `>=`: "when neither object to be compared is a node-set and the operator is
    <=, <, >= or >, then the objects are compared by converting both objects to numbers" -/
def relSpec (op : String) (x y : XVal) : Option Bool :=
  match x.toNum, y.toNum with
  | some a, some b =>
    some (match op with
      | "<" => decide (a < b)
      | "<=" => decide (a ≤ b)
      | ">" => decide (a > b)
      | _ => decide (a ≥ b))
  | _, _ => none

/-- §3.4: "an or expression is evaluated by evaluating each operand and converting its value to a
    boolean as if by a call to the boolean function"; likewise `and` -/
def binSpec (op : String) (x y : XVal) : Option XVal :=
  match op with
  | "=" => (eqSpec false x y).map .bool
  | "!=" => (eqSpec true x y).map .bool
  | "<" | "<=" | ">" | ">=" => (relSpec op x y).map .bool
  | "and" => some (.bool (x.toBool && y.toBool))
  | "or" => some (.bool (x.toBool || y.toBool))
  | _ => none

/-- §4: `position()`, `last()` (§4.1); `boolean(object)`, `not(boolean)` (§4.3: "the argument is
    converted to type boolean as if by calling the boolean function"); `contains(string, string)`,
    `starts-with(string, string)` (§4.2, arguments converted "as if by calling the string function") -/
def funSpec (c : Ctx) (name : String) (xs : List XVal) : Option XVal :=
  match name, xs with
  | "position", [] => some (.num c.position)
  | "last", [] => some (.num c.size)
  | "boolean", [x] => some (.bool x.toBool)
  | "not", [x] => some (.bool (!x.toBool))
  | "contains", [x, y] =>
    (match x.toStr, y.toStr with
     | some a, some b => some (.bool (isInfix b a))
     | _, _ => none)
  | "starts-with", [x, y] =>
    (match x.toStr, y.toStr with
     | some a, some b => some (.bool (b.isPrefixOf a))
     | _, _ => none)
  | _, _ => none

mutual
  /-- the value of an expression in the context (node, position, size).  `hasAttr` and `attrVal` are
      the parser's two renderings of the same XPath expression `@name` (an abbreviated
      `attribute::name` location path); both denote its node-set. -/
  def valSpec (root : PTree) (env : NsEnv) (c : Ctx) : Expr → Option XVal
    | .num n => some (.num n)
    | .str s => some (.str s)
    | .hasAttr pfx name => (attrNode root env c.node pfx name).map .nodes
    | .attrVal pfx name => (attrNode root env c.node pfx name).map .nodes
    | .binop op l r =>
      match valSpec root env c l, valSpec root env c r with
      | some x, some y => binSpec op x y
      | _, _ => none
    | .func name args =>
      match valSpecArgs root env c args with
      | some xs => funSpec c (showS name) xs
      | none => none
  def valSpecArgs (root : PTree) (env : NsEnv) (c : Ctx) : List Expr → Option (List XVal)
    | [] => some []
    | a :: as =>
      match valSpec root env c a, valSpecArgs root env c as with
      | some x, some xs => some (x :: xs)
      | _, _ => none
end

/-- §2.4: "a PredicateExpr is evaluated by evaluating the Expr and converting the result to a boolean.
    If the result is a number, the result will be converted to true if the number is equal to the
    context position and will be converted to false otherwise; if the result is not a number, then the
    result will be converted as if by a call to the boolean function." -/
def predSpec (root : PTree) (env : NsEnv) (c : Ctx) (e : Expr) : Option Bool :=
  match valSpec root env c e with
  | some (.num n) => some (n == c.position)
  | some x => some x.toBool
  | none => none

/-! ## where the mechanism is known to differ

Each condition below is a check on one node of the expression tree (`…At`), required at every
subexpression (`allSub`), or a check on the predicate as a whole.  One condition per deviation. -/

mutual
  /-- `p` holds at every subexpression -/
  def allSub (p : Expr → Bool) : Expr → Bool
    | .binop op l r => p (.binop op l r) && allSub p l && allSub p r
    | .func name args => p (.func name args) && allSubArgs p args
    | e => p e
  def allSubArgs (p : Expr → Bool) : List Expr → Bool
    | [] => true
    | a :: as => allSub p a && allSubArgs p as
end

def isHasAttr : Expr → Bool
  | .hasAttr .. => true
  | _ => false

def isAttrVal : Expr → Bool
  | .attrVal .. => true
  | _ => false

def isTagNode (root : PTree) (n : XNode) : Bool :=
  match nodeOf root n with
  | some (.tag ..) => true
  | _ => false

/-- NOT a deviation but an invariant of the parser's output (`attrToValue`): `@name` is rendered as
    `hasAttr` where it is a whole predicate or an operand of `and` / `or`, and as `attrVal` where it is
    an operand of a comparison or an argument of a function. -/
def shapeAt : Expr → Bool
  | .binop op l r =>
    if op = "and" ∨ op = "or" then !isAttrVal l && !isAttrVal r else !isHasAttr l && !isHasAttr r
  | .func _ args => args.all (fun a => !isHasAttr a)
  | _ => true

/-- recorded finding `attribute-compare-absent`: the mechanism puts `""` (on a tag node) or `None` (on
    any other node) in the place of an empty node-set.  Safe: every attribute compared with `=` / `!=`
    is present — or the comparison is `@a = 's'` with a non-empty `s`, where the stand-in also gives
    false. -/
def attrCompareAt (root : PTree) (env : NsEnv) (c : Ctx) : Expr → Bool
  | .binop op l r =>
    if op = "=" ∨ op = "!=" then
      match valSpec root env c l, valSpec root env c r with
      | some (.nodes a), some (.str s) => a.isSome || (op == "=" && !s.isEmpty)
      | some (.str s), some (.nodes a) => a.isSome || (op == "=" && !s.isEmpty)
      | some (.nodes a), some (.nodes b) => a.isSome && b.isSome
      | _, _ => true
    else true
  | _ => true

/-- recorded finding `not-boolean-empty-attribute`: `not(@a)` / `boolean(@a)` look at the attribute's
    value.  Safe: the attribute in the argument is absent or has a non-empty value. -/
def attrBooleanAt (root : PTree) (env : NsEnv) (c : Ctx) : Expr → Bool
  | .func name [a] =>
    if showS name = "not" ∨ showS name = "boolean" then
      match valSpec root env c a with
      | some (.nodes (some v)) => !v.isEmpty
      | _ => true
    else true
  | _ => true

/-- recorded finding `number-predicate-not-position`: a predicate whose value is a number is used by
    truthiness.  Safe: the value of the whole predicate is not a number (the parser turns an integer
    literal `[n]` into `[position() = n]`, whose value is a boolean). -/
def numberPredOk (root : PTree) (env : NsEnv) (c : Ctx) (e : Expr) : Bool :=
  match valSpec root env c e with
  | some (.num _) => false
  | _ => true

/-- recorded finding `attribute-function-on-non-tag`: `contains(@a, …)` / `starts-with(@a, …)` raise on
    a context node that is not a tag node.  Safe: the context node is a tag node wherever an attribute
    is an argument of one of them. -/
def attrFunctionAt (root : PTree) (c : Ctx) : Expr → Bool
  | .func name args =>
    if showS name = "contains" ∨ showS name = "starts-with" then
      isTagNode root c.node || !args.any isAttrVal
    else true
  | _ => true

/-- additional deviation met by the proof (`and-or-non-boolean-operand`): `and` / `or` are Python's
    `operator.and_` / `operator.or_` — bitwise on integers (`[1 and 2]` is false), `TypeError` on
    strings — instead of converting the operands with `boolean()`.  Safe: both operands are
    boolean-valued or `@name`. -/
def andOrAt (root : PTree) (env : NsEnv) (c : Ctx) : Expr → Bool
  | .binop op l r =>
    if op = "and" ∨ op = "or" then
      (match valSpec root env c l with | some (.num _) => false | some (.str _) => false | _ => true) &&
      (match valSpec root env c r with | some (.num _) => false | some (.str _) => false | _ => true)
    else true
  | _ => true

/-- additional deviation met by the proof (`boolean-compared-with-non-boolean`): `=` / `!=` between a
    boolean and a non-boolean compare Python objects (`True == 2` is false, `True == 'a'` is false)
    instead of converting the other operand with `boolean()`.  Safe: no such comparison. -/
def boolCompareAt (root : PTree) (env : NsEnv) (c : Ctx) : Expr → Bool
  | .binop op l r =>
    if op = "=" ∨ op = "!=" then
      match valSpec root env c l, valSpec root env c r with
      | some (.bool _), some (.bool _) => true
      | some (.bool _), some _ => false
      | some _, some (.bool _) => false
      | _, _ => true
    else true
  | _ => true

/-- the predicate `e`, evaluated in context `c`, is outside the situations in which the mechanism is
    known to deviate from XPath 1.0 (one field per situation) -/
structure PredSafe (root : PTree) (env : NsEnv) (c : Ctx) (e : Expr) : Prop where
  /-- parser invariant (`attrToValue`), not a deviation: a whole predicate `@name` is `hasAttr` … -/
  shapeTop : isAttrVal e = false
  /-- … and the operands below are rendered as described at `shapeAt` -/
  shape : allSub shapeAt e = true
  /-- `attribute-compare-absent` -/
  attrCompare : allSub (attrCompareAt root env c) e = true
  /-- `not-boolean-empty-attribute` -/
  attrBoolean : allSub (attrBooleanAt root env c) e = true
  /-- `number-predicate-not-position` -/
  numberPred : numberPredOk root env c e = true
  /-- `attribute-function-on-non-tag` -/
  attrFunction : allSub (attrFunctionAt root c) e = true
  /-- `and-or-non-boolean-operand` -/
  andOr : allSub (andOrAt root env c) e = true
  /-- `boolean-compared-with-non-boolean` -/
  boolCompare : allSub (boolCompareAt root env c) e = true

instance (root : PTree) (env : NsEnv) (c : Ctx) (e : Expr) : Decidable (PredSafe root env c e) :=
  decidable_of_iff
    (isAttrVal e = false ∧ allSub shapeAt e = true ∧ allSub (attrCompareAt root env c) e = true ∧
     allSub (attrBooleanAt root env c) e = true ∧ numberPredOk root env c e = true ∧
     allSub (attrFunctionAt root c) e = true ∧ allSub (andOrAt root env c) e = true ∧
     allSub (boolCompareAt root env c) e = true)
    ⟨fun ⟨a, b, c, d, e, f, g, h⟩ => ⟨a, b, c, d, e, f, g, h⟩,
     fun s => ⟨s.shapeTop, s.shape, s.attrCompare, s.attrBoolean, s.numberPred, s.attrFunction, s.andOr,
               s.boolCompare⟩⟩

/-! ## location steps with XPath 1.0 predicate values -/

/-- `predHolds` (Spec.lean) with the value taken from `predSpec`; no value counts as false -/
def predHoldsXPath1 (root : PTree) (env : NsEnv) (pred : Expr) (n : XNode) (pos size : Nat) : Bool :=
  (predSpec root env { node := n, position := pos, size := size } pred).getD false

/-- `predFilter` (Spec.lean, §2.4) with `predHoldsXPath1` -/
def predFilterXPath1 (root : PTree) (env : NsEnv) (pred : Expr) (l : List XNode) : List XNode :=
  ((l.zipIdx 1).filter (fun ni => predHoldsXPath1 root env pred ni.1 ni.2 l.length)).map (·.1)

/-- `stepDenote` (Spec.lean, §2.1) with `predFilterXPath1` -/
def stepDenoteXPath1 (root : PTree) (env : NsEnv) (s : Step) (ctx : XNode) : List XNode :=
  s.preds.foldl (fun cur pred => predFilterXPath1 root env pred cur)
    ((axisDenote root s.axis ctx).filter (testDenote root env s.test))

end Delb.XPath

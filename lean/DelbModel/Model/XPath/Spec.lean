import DelbModel.Model.XPath.Eval
/-!
# XPath 1.0 location paths as a specification (denotational reading of the recommendation)

`Eval.lean` models the evaluator in the shape of the code (generators, candidate lists, "yielded"
sets).  This file says what a location path MEANS, in the words of the XPath 1.0 recommendation
(REC-xpath-19991116, sections quoted as §n), for the supported subset.  Nothing here walks pointers,
keeps accumulators or raises: an axis is a relation between nodes, a step is "the related nodes that
pass the test, numbered by proximity, filtered predicate by predicate", a path is the composition of
its steps, an expression the union of its paths.

That the mechanism model computes exactly this is `c06_step_eq_denotation`,
`c06_path_eq_denotation`, `c06_expr_eq_denotation` (Props/C06.lean).

The three established deviations from XPath 1.0 are part of the specification; each is marked
`DEVIATION n` where it enters:

1. an unprefixed name test addresses the declared default namespace (`testDenote`);
2. `following` / `preceding` include the descendants / the ancestors (`axisRel`);
3. `node()` stands for tag nodes only (`testDenote`).

The value of a predicate expression GIVEN (context node, context position, context size) is taken
from the model (`evalExpr`, `truthy`): its deviations from XPath 1.0 are recorded findings of their
own; this specification is about axes, node tests, proximity positions, composition, union and
duplicate-freeness.
-/
namespace Delb.XPath
open Delb.Edit

/-! ## the document (§5)

Nodes are named by addresses as in `Eval.lean`: `XNode.doc` is the root node of §5.1 (delb's
`_DocumentNode`), `XNode.at p` the node reached from the root element by the child indexes `p`. -/

/-- all nodes of the document in document order (§5: the root node is first, an element comes
    before its children, children come in the order of their occurrence) -/
def docNodes (root : PTree) : List XNode := XNode.doc :: (docOrder root).map XNode.at

/-- §5: "every node other than the root node has exactly one parent"; the root element's parent is
    the root node -/
def parentOf : XNode → Option XNode
  | .doc => none
  | .at p => if p.isEmpty then some .doc else some (.at p.dropLast)

/-- `a` is an ancestor of `n` (§2.2: "the parent of the context node and the parent's parent and so
    on"): the root node is an ancestor of every other node, otherwise `a`'s address is a proper
    prefix of `n`'s.  (`isAncestorOf_unfold` in Lemmas/XPathEval/Denote.lean: this is the transitive
    closure of `parentOf`.) -/
def isAncestorOf (a n : XNode) : Bool :=
  match a, n with
  | _, .doc => false
  | .doc, .at _ => true
  | .at p, .at q => p.isPrefixOf q && p != q

/-- `a` comes before `b` in document order (§5); on addresses this is the lexicographic order
    (`docBefore_iff` in Lemmas/XPathEval/Denote.lean: it is the order of `docNodes`) -/
def docBefore (a b : XNode) : Bool :=
  match a, b with
  | .doc, .at _ => true
  | .at p, .at q => Nav.pathLt p q
  | _, _ => false

/-! ## axes (§2.2) -/

/-- `axisRel axis ctx n`: node `n` is on the axis `axis` of the context node `ctx` -/
def axisRel (axis : String) (ctx n : XNode) : Bool :=
  match axis with
  | "self" => n == ctx
  | "child" => parentOf n == some ctx
  | "parent" => parentOf ctx == some n
  | "descendant" => isAncestorOf ctx n
  | "descendant_or_self" => n == ctx || isAncestorOf ctx n
  | "ancestor" => isAncestorOf n ctx
  | "ancestor_or_self" => n == ctx || isAncestorOf n ctx
  | "following_sibling" => parentOf n == parentOf ctx && docBefore ctx n
  | "preceding_sibling" => parentOf n == parentOf ctx && docBefore n ctx
  -- DEVIATION 2: XPath 1.0 has `docBefore ctx n && !isAncestorOf ctx n` ("excluding any descendants")
  | "following" => docBefore ctx n
  -- DEVIATION 2: XPath 1.0 has `docBefore n ctx && !isAncestorOf n ctx` ("excluding any ancestors");
  -- delb's reading keeps the ancestors inside the tree; the root node is on neither reading's axis
  | "preceding" => docBefore n ctx && n != .doc
  | _ => false

/-- §2.4: "the ancestor, ancestor-or-self, preceding, and preceding-sibling axes are reverse axes;
    all other axes are forward axes" -/
def isReverseAxis (axis : String) : Bool :=
  axis == "ancestor" || axis == "ancestor_or_self" || axis == "preceding" || axis == "preceding_sibling"

/-- the nodes on an axis in proximity order (§2.4: "the proximity position of a member of a node-set
    with respect to an axis is the position of the node in the node-set ordered in document order if
    the axis is a forward axis and ordered in reverse document order if the axis is a reverse axis") -/
def axisOrder (axis : String) (inDocumentOrder : List XNode) : List XNode :=
  if isReverseAxis axis then inDocumentOrder.reverse else inDocumentOrder

/-- the nodes of the document that are on the axis of `ctx`, in proximity order -/
def axisDenote (root : PTree) (axis : String) (ctx : XNode) : List XNode :=
  axisOrder axis ((docNodes root).filter (axisRel axis ctx))

/-! ## node tests (§2.3)

The principal node type of every supported axis is element. -/

/-- whether node `n` passes the node test `t`, with the prefix bindings `env` -/
def testDenote (root : PTree) (env : NsEnv) (t : NodeTest) (n : XNode) : Bool :=
  match t with
  -- `*`: "true for any node of the principal node type"; `p:*`: any element in the namespace bound to `p`
  | .anyName pfx =>
    match nodeOf root n with
    | some (.tag _ ns _ _ _) =>
      (match pfx with
       | none => true
       | some p => p.isEmpty || some ns == Ser.dget env (showS p))   -- (an empty prefix is no prefix)
    | _ => false
  -- QName: "true if the node has an expanded-name equal to the expanded-name specified by the QName"
  | .name pfx local_ =>
    match nodeOf root n with
    | some (.tag _ ns name _ _) =>
      let uri : String := match pfx with
        | some p => (Ser.dget env (showS p)).getD ""
        -- DEVIATION 1: XPath 1.0 has `""` here ("if the QName does not have a prefix, then the
        -- namespace URI is null"); delb takes the declared default namespace, if there is one
        | none => (Ser.dget env "").getD ""
      ns == uri && name == showS local_
    | _ => false
  | .type ty =>
    match n with
    -- the root node: a node, but neither text nor comment nor processing instruction
    | .doc => ty == "TagNode"
    | .at _ =>
      match nodeOf root n, ty with
      -- DEVIATION 3: XPath 1.0 has "node() is true for any node of any type whatsoever"; in delb
      -- `node()` (`TagNode`) stands for tag nodes (and the root node) only
      | some (.tag ..), "TagNode" => true
      | some (.text ..), "TextNode" => true                          -- text()
      | some (.comment ..), "CommentNode" => true                    -- comment()
      | some (.pi ..), "ProcessingInstructionNode" => true           -- processing-instruction()
      | _, _ => false
  -- processing-instruction('target')
  | .pi target =>
    match nodeOf root n with
    | some (.pi _ t _) => t == showS target
    | _ => false

/-! ## predicates (§2.4) -/

/-- the predicate holds for context node `n`, context position `pos`, context size `size`
    (value semantics of the predicate expression: the model's `evalExpr` / `truthy`) -/
def predHolds (root : PTree) (env : NsEnv) (pred : Expr) (n : XNode) (pos size : Nat) : Bool :=
  match evalExpr root env { node := n, position := pos, size := size } pred with
  | .ok v => truthy v
  | .error _ => false

/-- §2.4: "a predicate filters a node-set with respect to an axis to produce a new node-set.  For each
    node in the node-set to be filtered, the PredicateExpr is evaluated with that node as the context
    node, with the number of nodes in the node-set as the context size, and with the proximity
    position of the node in the node-set with respect to the axis as the context position" -/
def predFilter (root : PTree) (env : NsEnv) (pred : Expr) (l : List XNode) : List XNode :=
  ((l.zipIdx 1).filter (fun ni => predHolds root env pred ni.1 ni.2 l.length)).map (·.1)

/-! ## location steps (§2.1) -/

/-- §2.1: "the node-set selected by the location step is the node-set that results from generating an
    initial node-set from the axis and node-test, and then filtering that node-set by each of the
    predicates in turn" — kept as a list in proximity order, which is what numbers the positions -/
def stepDenote (root : PTree) (env : NsEnv) (s : Step) (ctx : XNode) : List XNode :=
  s.preds.foldl (fun cur pred => predFilter root env pred cur)
    ((axisDenote root s.axis ctx).filter (testDenote root env s.test))

/-! ## location paths (§2) and expressions (§3.3) -/

/-- §2.1 / §2: "the initial sequence of steps selects a set of nodes relative to a context node.  Each
    node in that set is used as a context node for the following step.  The sets of nodes identified
    by that step are unioned together."  As a list this may name a node several times; it is read as
    a set (only membership is used). -/
def stepsDenote (root : PTree) (env : NsEnv) : List Step → List XNode → List XNode
  | [], ns => ns
  | s :: ss, ns => stepsDenote root env ss (ns.flatMap (stepDenote root env s))

/-- the same as a relation: `Selects root env steps c n` iff there is a chain
    `c = c₀, c₁ ∈ ⟦s₁⟧ c₀, …, n = cₖ ∈ ⟦sₖ⟧ cₖ₋₁` (`mem_stepsDenote` in Lemmas/XPathEval/Denote.lean) -/
inductive Selects (root : PTree) (env : NsEnv) : List Step → XNode → XNode → Prop
  | nil (c : XNode) : Selects root env [] c c
  | cons {s : Step} {ss : List Step} {c m n : XNode} :
      m ∈ stepDenote root env s c → Selects root env ss m n → Selects root env (s :: ss) c n

/-- the initial context of a path: "a / by itself selects the root node of the document containing
    the context node"; a relative path starts at the context node -/
def pathStart (ctx : List Nat) (p : Path) : XNode := if p.absolute then .doc else .at ctx

def pathDenote (root : PTree) (env : NsEnv) (ctx : List Nat) (p : Path) : List XNode :=
  stepsDenote root env p.steps [pathStart ctx p]

/-- §3.3: "the | operator computes the union of its operands" -/
def exprDenote (root : PTree) (env : NsEnv) (ctx : List Nat) (x : XExpr) : List XNode :=
  x.flatMap (pathDenote root env ctx)

/-- the addresses of the tree nodes in a result (what `in_document_order()` sorts) -/
def addrsOf (l : List XNode) : List (List Nat) :=
  l.filterMap (fun n => match n with | .at p => some p | .doc => none)

/-- `in_document_order()` of the result: the selected tree nodes, each once, in document order -/
def exprDenoteSorted (root : PTree) (env : NsEnv) (ctx : List Nat) (x : XExpr) : List (List Nat) :=
  (docOrder root).filter (fun p => (exprDenote root env ctx x).contains (XNode.at p))

/-! ## which (step, context node) pairs a path visits

Used to say where the recorded findings would show ("no step applies … to the document node"). -/

/-- `Visits root env steps start s c`: evaluating `steps` from `start`, the specification uses `c` as
    a context node of step `s` -/
inductive Visits (root : PTree) (env : NsEnv) : List Step → XNode → Step → XNode → Prop
  | here {s : Step} {ss : List Step} {c : XNode} : Visits root env (s :: ss) c s c
  | there {s s' : Step} {ss : List Step} {c m c' : XNode} :
      m ∈ stepDenote root env s c → Visits root env ss m s' c' → Visits root env (s :: ss) c s' c'

/-- recorded finding `document-node-type-tests` (the `_DocumentNode` passes `text()`, `comment()`,
    `processing-instruction()`) does not show at this step: the test is not one of these, or the root
    node is not on the axis -/
def DocTypeOk (s : Step) (c : XNode) : Prop :=
  ∀ ty, s.test = .type ty → ty ≠ "TagNode" → axisRel s.axis c .doc = false

/-- a check on the step alone that implies `DocTypeOk` for every context node: the test is not
    `text()` / `comment()` / `processing-instruction()`, or the axis never contains the root node -/
def stepDocTypeFree (s : Step) : Bool :=
  match s.test with
  | .type ty => ty == "TagNode" ||
      !(["self", "descendant_or_self", "ancestor", "ancestor_or_self", "parent"].contains s.axis)
  | _ => true

/-- the axes delb's `_DocumentNode` offers (recorded finding `document-node-axes`: the others raise
    `AttributeError`) -/
def docAxes : List String := ["child", "descendant", "descendant_or_self", "self"]

def testPrefix : NodeTest → Option Str
  | .anyName pfx => pfx
  | .name pfx _ => pfx
  | _ => none

/-- nothing raises at step `s` for context node `c`: the axis exists and is offered by `c`, the name
    test's prefix is bound, the root node is not tested with `processing-instruction('t')`
    (`AssertionError`), and the predicates have values on the candidates -/
def StepSafe (root : PTree) (env : NsEnv) (s : Step) (c : XNode) : Prop :=
  s.axis ∈ realAxes ∧
  (c = .doc → s.axis ∈ docAxes) ∧
  checkPrefix env (testPrefix s.test) = .ok () ∧
  (∀ t, s.test = .pi t → axisRel s.axis c .doc = false) ∧
  (∀ pred ∈ s.preds, ∀ n pos size, n ∈ axisDenote root s.axis c → testDenote root env s.test n = true →
      ∃ v, evalExpr root env { node := n, position := pos, size := size } pred = .ok v)

/-- a check on the step alone: from a tree node it cannot select the root node — it has a name test
    (only elements pass), or its axis is none of ancestor / ancestor-or-self / parent -/
def stepAvoidsDoc (s : Step) : Bool :=
  match s.test with
  | .anyName _ => true
  | .name _ _ => true
  | _ => !(["ancestor", "ancestor_or_self", "parent"].contains s.axis)

end Delb.XPath

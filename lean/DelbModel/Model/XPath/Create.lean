import DelbModel.Model.XPath.Eval
/-!
# `TagNode.fetch_or_create_by_xpath` / `_create_by_xpath` (_delb/nodes.py) and
`_is_unambiguously_locatable` / `_derived_attributes` (_delb/xpath/ast.py)

The tree is a plain tree with identities; the call returns the (possibly extended) tree and the
address of the fetched or created node.  `envQ` is the prefix map the query is evaluated with,
`envC` the one `_create_by_xpath` receives (they differ only when the caller passes an empty
mapping).
-/
namespace Delb.XPath
open Delb.Edit

/-- `EvaluationNode._is_unambiguously_locatable` -/
def exprLocatable : Expr → Bool
  | .binop op l r =>
    if op == "and" then exprLocatable l && exprLocatable r
    else if op == "=" then
      (match l, r with
       | .attrVal _ _, .str _ => true
       | .str _, .attrVal _ _ => true
       | _, _ => false)
    else false
  | _ => false

def isNameTest : NodeTest → Bool
  | .name .. => true
  | _ => false

/-- `LocationStep._is_unambiguously_locatable`; several predicates count as their `and`-chain -/
def stepLocatable (s : Step) : Bool :=
  s.axis == "child" && isNameTest s.test && s.preds.all exprLocatable

/-- `XPathExpression._is_unambiguously_locatable` -/
def locatable : XExpr → Bool
  | [p] => p.steps.all stepLocatable
  | _ => false

/-- `_derived_attributes`: (prefix or "", local name, value) -/
def derivedAttrs : Expr → List (Str × Str × Str)
  | .binop op l r =>
    if op == "and" then derivedAttrs l ++ derivedAttrs r
    else if op == "=" then
      (match l, r with
       | .attrVal p n, .str v => [(p.getD [], n, v)]
       | .str v, .attrVal p n => [(p.getD [], n, v)]
       | _, _ => [])
    else []
  | _ => []

def stepAttrs (s : Step) : List (Str × Str × Str) := s.preds.flatMap derivedAttrs

inductive CreateErr
  | valueError              -- "The XPath expression doesn't determine a distinct branch."
  | ambiguous               -- AmbiguousTreeError
  | eval (e : EvalErr)
  | assertion (site : String)
deriving Repr, DecidableEq

/-- `new_node.attributes[(namespace, local_name)] = value` for each derived attribute, later ones
    overriding earlier ones with the same name -/
def setAttr (attrs : List Attr) (a : Attr) : List Attr :=
  if attrs.any (fun b => b.ns == a.ns && b.name == a.name) then
    attrs.map (fun b => if b.ns == a.ns && b.name == a.name then a else b)
  else attrs ++ [a]

def newNodeFor (envC : NsEnv) (id : Nat) (s : Step) : Option PTree :=
  match s.test with
  | .name pfx local_ =>
    let ns := (Ser.dget envC (match pfx with | some p => showS p | none => "")).getD ""
    let attrs := (stepAttrs s).foldl (fun acc (t : Str × Str × Str) =>
      let ans := if t.1.isEmpty then "" else (Ser.dget envC (showS t.1)).getD ""
      setAttr acc { ns := ans, name := showS t.2.1, value := t.2.2 }) []
    some (.tag id ns (showS local_) attrs [])
  | _ => none

/-- `append_children` under the default filters (tag and text nodes visible): the new node goes
    directly behind the last tag/text child; when there is none, `__add_first_child` appends it at the
    very end (behind comments and processing instructions) -/
def appendIndex (ks : List PTree) : Nat :=
  let rec go (i : Nat) (best : Option Nat) : List PTree → Option Nat
    | [] => best
    | k :: rest => go (i + 1) (if k.isTag || k.isText then some (i + 1) else best) rest
  (go 0 none ks).getD ks.length

def appendChildAt (root : PTree) (p : List Nat) (new : PTree) : Except EditErr PTree :=
  modifyAtP (fun t => insertKid (appendIndex t.kids) new t) root p

/-- the loop of `_create_by_xpath` -/
def createSteps (envC : NsEnv) : PTree → Nat → XNode → List Step → Except CreateErr (PTree × XNode × Nat)
  | root, nextId, cur, [] => .ok (root, cur, nextId)
  | root, nextId, cur, s :: rest =>
    match evalStep root envC s [] [cur] with
    | .error e => .error (.eval e)
    | .ok [] =>
      (match cur with
       | .doc => .error (.assertion "isinstance(node, TagNode)")
       | .at p =>
         match newNodeFor envC nextId s with
         | none => .error (.assertion "isinstance(node_test, NameMatchTest)")
         | some new =>
           match appendChildAt root p new with
           | .error _ => .error (.assertion "append_children")
           | .ok root' =>
             let i := match getAtP root p with | some t => appendIndex t.kids | none => 0
             createSteps envC root' (nextId + 1) (.at (p ++ [i])) rest)
    | .ok [c] => createSteps envC root nextId c rest
    | .ok _ => .error .ambiguous

/-- the prefixes `fetch_or_create_by_xpath` looks up before it creates anything: the one of the name test and
    those of the derived attributes (`if prefix and prefix not in namespaces`) -/
def unboundPrefixes (envC : NsEnv) (s : Step) : List Str :=
  ((match s.test with
    | .name (some p) _ => [p]
    | _ => []) ++ (stepAttrs s).map (·.1)).filter (fun p => !p.isEmpty && (Ser.dget envC (showS p)).isNone)

/-- `fetch_or_create_by_xpath(expression, namespaces)` on the node at `ctx` -/
def fetchOrCreate (root : PTree) (nextId : Nat) (envQ envC : NsEnv) (ctx : List Nat) (x : XExpr) :
    Except CreateErr (PTree × XNode × Nat) :=
  if !locatable x then .error .valueError
  else
    match evaluate root envQ ctx x with
    | .error e => .error (.eval e)
    | .ok [r] => .ok (root, r, nextId)
    | .ok (_ :: _ :: _) => .error .ambiguous
    | .ok [] =>
      match x with
      | [p] =>
        -- an unknown prefix is reported before any node is created
        match p.steps.flatMap (unboundPrefixes envC) with
        | q :: _ => .error (.eval (.unknownPrefix (showS q)))
        | [] => createSteps envC root nextId (if p.absolute then .doc else .at ctx) p.steps
      | _ => .error .valueError

end Delb.XPath

import DelbModel.Model.XPath.Tokenizer
/-!
# `_delb/xpath/parser.py` and the constructors of `_delb/xpath/ast.py`

The model follows the code line by line.  Wherever Python indexes a sequence, looks
up a dict or asserts, the model has an explicit `.pyError` outcome; that none of them
is reachable is theorem `c16_no_python_error` (Props/C16.lean), not a default value.
Recursion that slices token lists takes a fuel argument (`parse` supplies the number
of tokens + 1; sufficiency is `c16_terminates`).
-/
namespace Delb.XPath

/-! ## AST -/

inductive Expr where
  | num (n : Nat)
  | str (s : Str)
  | hasAttr (pfx : Option Str) (name : Str)
  | attrVal (pfx : Option Str) (name : Str)
  | func (name : Str) (args : List Expr)
  | binop (op : String) (l r : Expr)
deriving Repr, Inhabited

inductive NodeTest where
  | anyName (pfx : Option Str)
  | name (pfx : Option Str) (local_ : Str)
  | type (t : String)
  | pi (target : Str)
deriving Repr, Inhabited, DecidableEq

structure Step where
  axis : String
  test : NodeTest
  preds : List Expr
deriving Repr, Inhabited

structure Path where
  absolute : Bool
  steps : List Step
deriving Repr, Inhabited

abbrev XExpr := List Path

/-! ## token trees -/

inductive TT where
  | tok (t : Token)
  | group (ts : List TT)
deriving Repr, Inhabited

abbrev Pattern := List (Option TokType)

/-- `compare_tokens_with_pattern`: `zip` stops at the shorter sequence -/
def comparePattern : List TT → Pattern → Bool
  | .tok t :: ts, some ty :: ps => t.type == ty && comparePattern ts ps
  | .tok _ :: _, none :: _ => false
  | .group _ :: ts, none :: ps => comparePattern ts ps
  | .group _ :: _, some _ :: _ => false
  | _, _ => true

def allMatch (ts : List TT) (p : Pattern) : Bool := ts.length == p.length && comparePattern ts p
def initialMatch (ts : List TT) (p : Pattern) : Bool := decide (p.length ≤ ts.length) && comparePattern ts p

/-- `tokens[k]` followed by `assert isinstance(tokens[k], Token)` -/
def getTok (ts : List TT) (k : Nat) (site : String) : Except Err Token :=
  match ts[k]? with
  | none => .error (.pyError "IndexError" site)
  | some (.tok t) => .ok t
  | some (.group _) => .error (.pyError "AssertionError" site)

/-- `tokens[k]` followed by `assert isinstance(tokens[k], Sequence)` -/
def getGroup (ts : List TT) (k : Nat) (site : String) : Except Err (List TT) :=
  match ts[k]? with
  | none => .error (.pyError "IndexError" site)
  | some (.group g) => .ok g
  | some (.tok _) => .error (.pyError "AssertionError" site)

/-- `tokens[-1]` followed by `assert isinstance(…, Token)` -/
def getLastTok (ts : List TT) (site : String) : Except Err Token :=
  match ts.getLast? with
  | none => .error (.pyError "IndexError" site)
  | some (.tok t) => .ok t
  | some (.group _) => .error (.pyError "AssertionError" site)

/-! ## `group_enclosed_expressions`

The code scans left to right with a stack of openers and recurses into the slice of an
outermost pair when it closes.  The model keeps, per open bracket, the items collected so
far (innermost first); closing a bracket appends `opener, [contents], closer` (or
`opener, closer` when empty) to the enclosing level — the same tree, and errors are met
in the same left-to-right order. -/

def isOpener (t : Token) : Bool := t.type == .OPEN_BRACKET || t.type == .OPEN_PARENS
def isCloser (t : Token) : Bool := t.type == .CLOSE_BRACKET || t.type == .CLOSE_PARENS

/-- `COMPLEMENTING_TOKEN_TYPES[start_token.type]` -/
def complement : TokType → Option TokType
  | .OPEN_BRACKET => some .CLOSE_BRACKET
  | .OPEN_PARENS => some .CLOSE_PARENS
  | _ => none

def showStr (s : Str) : String := String.ofList s

/-- frames: (opener, items collected inside it so far, reversed) -/
def groupAux : List Token → List (Token × List TT) → List TT → Except Err (List TT)
  | [], [], acc => .ok acc.reverse
  | [], (op, _) :: _, _ =>
    .error (.parsing (some op.pos) s!"`{showStr op.str}` is never closed.")
  | t :: ts, frames, acc =>
    if isOpener t then groupAux ts ((t, []) :: frames) acc
    else if isCloser t then
      match frames with
      | [] => .error (.parsing (some t.pos) s!"`{showStr t.str}` is never opened.")
      | (op, inner) :: frames' =>
        match complement op.type with
        | none => .error (.pyError "KeyError" "group.COMPLEMENTING_TOKEN_TYPES")
        | some c =>
          if t.type ≠ c then
            .error (.parsing (some t.pos)
              s!"Closing `{showStr t.str}` doesn't match opening `{showStr op.str}` at position {op.pos}.")
          else
            let items := if inner.isEmpty then [TT.tok op, TT.tok t]
                         else [TT.tok op, TT.group inner.reverse, TT.tok t]
            match frames' with
            | [] => groupAux ts [] (items.reverse ++ acc)
            | (op', inner') :: rest => groupAux ts ((op', items.reverse ++ inner') :: rest) acc
    else
      match frames with
      | [] => groupAux ts [] (TT.tok t :: acc)
      | (op, inner) :: rest => groupAux ts ((op, TT.tok t :: inner) :: rest) acc

def groupEnclosed (ts : List Token) : Except Err (List TT) := groupAux ts [] []

/-! ## `expand_axes`, `partition_tokens` -/

def expandOne (t : Token) : List TT :=
  let mk (s : String) (ty : TokType) : TT := .tok { pos := t.pos, str := s.toList, type := ty }
  match t.type with
  | .SLASH_SLASH => [mk "/" .SLASH, mk "descendant-or-self" .NAME, mk "::" .AXIS_SEPARATOR,
                     mk "node" .NAME, mk "(" .OPEN_PARENS, mk ")" .CLOSE_PARENS, mk "/" .SLASH]
  | .DOT => [mk "self" .NAME, mk "::" .AXIS_SEPARATOR, mk "node" .NAME, mk "(" .OPEN_PARENS, mk ")" .CLOSE_PARENS]
  | .DOT_DOT => [mk "parent" .NAME, mk "::" .AXIS_SEPARATOR, mk "node" .NAME, mk "(" .OPEN_PARENS, mk ")" .CLOSE_PARENS]
  | _ => [.tok t]

def expandAxes : List TT → List TT
  | [] => []
  | .tok t :: ts => expandOne t ++ expandAxes ts
  | g :: ts => g :: expandAxes ts

def isSep (sep : TokType) : TT → Bool
  | .tok t => t.type == sep
  | .group _ => false

/-- `partition_tokens`: empty partitions are skipped, except that the last one is always yielded -/
def partitionAux (sep : TokType) : List TT → List TT → List (List TT)
  | cur, [] => [cur.reverse]
  | cur, t :: ts =>
    if isSep sep t then
      (if cur.isEmpty then partitionAux sep [] ts else cur.reverse :: partitionAux sep [] ts)
    else partitionAux sep (t :: cur) ts

def partitionTokens (sep : TokType) (ts : List TT) : List (List TT) := partitionAux sep [] ts

/-! ## AST constructors that validate (`Axis.__init__`, `Function.__init__`) -/

def normAxisName (s : Str) : String := String.ofList (s.map (fun c => if c = '-' then '_' else c))

/-- `Axis(name)`: `getattr(self, name.replace("-", "_"), None)` must not be `None` -/
def mkAxis (name : Str) : Option String :=
  let n := normAxisName name
  if Gen.axisAttrNames.contains n then some n else none

def lookupFunction (name : String) : List (String × Nat × Bool) → Option (Nat × Bool)
  | [] => none
  | (n, k, v) :: rest => if n == name then some (k, v) else lookupFunction name rest

/-- `Function(name, arguments)`; the error carries no position yet -/
def mkFunc (name : Str) (args : List Expr) : Except String Expr :=
  match lookupFunction (String.ofList name) Gen.xpathFunctions with
  | none => .error s!"Unknown function: `{showStr name}`"
  | some (nparams, varargs) =>
    if nparams > 1 && !varargs && nparams != args.length + 1 then
      .error s!"Arguments to function `{showStr name}` don't match its signature."
    else .ok (.func name args)

def digitValue (c : Char) : List (Nat × Nat × Nat) → Nat
  | [] => 0
  | (a, b, v) :: rest => if a ≤ c.toNat ∧ c.toNat ≤ b then v + (c.toNat - a) else digitValue c rest

/-- `int(string)` for a run of Unicode decimal digits -/
def intOfDigits (s : Str) : Nat := s.foldl (fun acc c => acc * 10 + digitValue c Gen.tokDigitValues) 0

/-- `string[1:-1]` -/
def unquote (s : Str) : Str := (s.drop 1).dropLast

def attrToValue : Expr → Expr
  | .hasAttr p n => .attrVal p n
  | e => e

/-! ## `parse_evaluation_expression` -/

def operators : List (TokType × String) :=
  [(.NAME, "or"), (.NAME, "and"), (.OTHER_OPS, "="), (.OTHER_OPS, "!="), (.OTHER_OPS, "<="),
   (.OTHER_OPS, "<"), (.OTHER_OPS, ">="), (.OTHER_OPS, ">")]

/-- index and token of the first top-level token that is the operator `op` -/
def findOp (op : TokType × String) : Nat → List TT → Option (Nat × Token)
  | _, [] => none
  | i, .tok t :: ts => if t.type == op.1 && t.str == op.2.toList then some (i, t) else findOp op (i+1) ts
  | i, .group _ :: ts => findOp op (i+1) ts

def findFirstOp (ts : List TT) : List (TokType × String) → Option (String × Nat × Token)
  | [] => none
  | op :: ops =>
    match findOp op 0 ts with
    | some (i, t) => some (op.2, i, t)
    | none => findFirstOp ts ops

mutual
  def parseExpr : Nat → List TT → Except Err Expr
    | 0, _ => .error .outOfFuel
    | fuel+1, tokens =>
      if tokens.isEmpty then .error (.parsing none "Missing expression.")
      else if allMatch tokens [some .NUMBER] then
        match getTok tokens 0 "expr.number" with
        | .error e => .error e
        | .ok t =>
          if Gen.intMaxStrDigits ≠ 0 ∧ t.str.length > Gen.intMaxStrDigits then
            .error (.parsing (some t.pos) "Number literal is too long.")
          else .ok (.num (intOfDigits t.str))
      else if allMatch tokens [some .STRING] then
        match getTok tokens 0 "expr.string" with
        | .error e => .error e
        | .ok t => .ok (.str (unquote t.str))
      else if allMatch tokens [some .STRUDEL, some .NAME] then
        match getTok tokens 1 "expr.attr" with
        | .error e => .error e
        | .ok t => .ok (.hasAttr none t.str)
      else if allMatch tokens [some .STRUDEL, some .NAME, some .COLON, some .NAME] then
        match getTok tokens 1 "expr.attr.prefix", getTok tokens 3 "expr.attr.name" with
        | .ok p, .ok n => .ok (.hasAttr (some p.str) n.str)
        | .error e, _ => .error e
        | _, .error e => .error e
      else if allMatch tokens [some .NAME, some .OPEN_PARENS, none, some .CLOSE_PARENS] then
        match getTok tokens 0 "expr.call.name", getGroup tokens 2 "expr.call.args" with
        | .error e, _ => .error e
        | _, .error e => .error e
        | .ok t0, .ok g =>
          match parseArgs fuel (partitionTokens .COMMA g) with
          | .error e => .error e
          | .ok args =>
            match mkFunc t0.str args with
            | .error msg => .error (.parsing (some t0.pos) msg)
            | .ok f => .ok f
      else if allMatch tokens [some .NAME, some .OPEN_PARENS, some .CLOSE_PARENS] then
        match getTok tokens 0 "expr.call0.name" with
        | .error e => .error e
        | .ok t0 =>
          match mkFunc t0.str [] with
          | .error msg => .error (.parsing none msg)
          | .ok f => .ok f
      else if allMatch tokens [some .OPEN_PARENS, none, some .CLOSE_PARENS] then
        match getGroup tokens 1 "expr.parens" with
        | .error e => .error e
        | .ok g => parseExpr fuel g
      else
        match findFirstOp tokens operators with
        | some (op, i, t) =>
          if ¬ (0 < i ∧ i + 1 < tokens.length) then
            .error (.parsing (some t.pos) "Missing operand.")
          else
            match parseExpr fuel (tokens.take i) with
            | .error e => .error e
            | .ok l =>
              match parseExpr fuel (tokens.drop (i+1)) with
              | .error e => .error e
              | .ok r =>
                if op = "and" ∨ op = "or" then .ok (.binop op l r)
                else .ok (.binop op (attrToValue l) (attrToValue r))
        | none =>
          match getTok tokens 0 "expr.unrecognized" with
          | .error e => .error e
          | .ok t => .error (.parsing (some t.pos) "Unrecognized predicate expression.")
  def parseArgs : Nat → List (List TT) → Except Err (List Expr)
    | _, [] => .ok []
    | fuel, p :: ps =>
      match parseExpr fuel p with
      | .error e => .error e
      | .ok a =>
        match parseArgs fuel ps with
        | .error e => .error e
        | .ok as => .ok (attrToValue a :: as)
end

/-! ## `parse_location_step` -/

def lookupNodeType (name : String) : List (String × String) → Option String
  | [] => none
  | (k, v) :: rest => if k == name then some v else lookupNodeType name rest

/-- the `while tokens:` loop over predicates -/
def parsePreds : Nat → Nat → List TT → Except Err (List Expr)
  | _, _, [] => .ok []
  | 0, _, _ :: _ => .error .outOfFuel
  | n+1, fuel, tokens@(_ :: _) =>
    if initialMatch tokens [some .OPEN_BRACKET, none, some .CLOSE_BRACKET] then
      match getGroup tokens 1 "step.predicate" with
      | .error e => .error e
      | .ok g =>
        match parseExpr fuel g with
        | .error e => .error e
        | .ok p =>
          let p' := match p with
            | .num k =>
              -- BooleanOperator(OPERATORS["="], Function("position", ()), predicate)
              (match mkFunc "position".toList [] with
               | .ok f => Except.ok (Expr.binop "=" f (.num k))
               | .error msg => Except.error (Err.parsing none msg))
            | e => .ok e
          match p' with
          | .error e => .error e
          | .ok p'' =>
            match parsePreds n fuel (tokens.drop 3) with
            | .error e => .error e
            | .ok ps => .ok (p'' :: ps)
    else
      match getLastTok tokens "step.unrecognized" with
      | .error e => .error e
      | .ok t => .error (.parsing (some t.pos) "Unrecognized expression.")

def parseStep (fuel : Nat) (allTokens : List TT) : Except Err Step :=
  if allTokens.isEmpty then .error (.parsing none "Missing location step.")
  else
  -- axis
  let axisRes : Except Err (String × List TT) :=
    if initialMatch allTokens [some .NAME, some .AXIS_SEPARATOR] then
      match getTok allTokens 0 "step.axis" with
      | .error e => .error e
      | .ok t0 =>
        match mkAxis t0.str with
        | none => .error (.parsing (some t0.pos) "Invalid axis specifier.")
        | some ax => .ok (ax, allTokens.drop 2)
    else .ok ("child", allTokens)
  match axisRes with
  | .error e => .error e
  | .ok (axis, tokens) =>
    if tokens.isEmpty then
      match getLastTok allTokens "step.all_tokens[-1]" with
      | .error e => .error e
      | .ok lt => .error (.parsing (some (lt.pos + lt.str.length)) "Missing node test.")
    else
    -- name test's prefix
    let pfxRes : Except Err (Option Str × List TT) :=
      if initialMatch tokens [some .NAME, some .COLON, some .NAME]
          || initialMatch tokens [some .NAME, some .COLON, some .ASTERISK] then
        match getTok tokens 0 "step.prefix" with
        | .error e => .error e
        | .ok t0 => .ok (some t0.str, tokens.drop 2)
      else .ok (none, tokens)
    match pfxRes with
    | .error e => .error e
    | .ok (pfx, tokens) =>
      -- node test
      let testRes : Except Err (NodeTest × List TT) :=
        if initialMatch tokens [some .NAME, some .OPEN_PARENS, none, some .CLOSE_PARENS] then
          match getTok tokens 0 "step.pi.name" with
          | .error e => .error e
          | .ok t0 =>
            if t0.str ≠ "processing-instruction".toList then
              .error (.parsing (some t0.pos) "Unrecognized node test.")
            else
              match getGroup tokens 2 "step.pi.args" with
              | .error e => .error e
              | .ok g =>
                match getTok g 0 "step.pi.target" with
                | .error e => .error e
                | .ok target => .ok (.pi (unquote target.str), tokens.drop 4)
        else if initialMatch tokens [some .NAME, some .OPEN_PARENS, some .CLOSE_PARENS] then
          match getTok tokens 0 "step.nodetype.name" with
          | .error e => .error e
          | .ok t0 =>
            match lookupNodeType (String.ofList t0.str) Gen.nodeTypeTests with
            | none => .error (.parsing (some t0.pos) "Unrecognized node test.")
            | some ty => .ok (.type ty, tokens.drop 3)
        else if initialMatch tokens [some .ASTERISK] then .ok (.anyName pfx, tokens.drop 1)
        else if initialMatch tokens [some .NAME] then
          match getTok tokens 0 "step.name" with
          | .error e => .error e
          | .ok t0 => .ok (.name pfx t0.str, tokens.drop 1)
        else if initialMatch tokens [some .STRUDEL, some .NAME] then
          match getTok tokens 0 "step.attribute" with
          | .error e => .error e
          | .ok t0 => .error (.unsupported t0.pos "Attribute lookup")
        else
          match getTok tokens 0 "step.unrecognized-test" with
          | .error e => .error e
          | .ok t0 => .error (.parsing (some t0.pos) "Unrecognized node test.")
      match testRes with
      | .error e => .error e
      | .ok (test, tokens) =>
        match parsePreds (tokens.length + 1) fuel tokens with
        | .error e => .error e
        | .ok preds => .ok { axis := axis, test := test, preds := preds }

def parseSteps (fuel : Nat) : List (List TT) → Except Err (List Step)
  | [] => .ok []
  | p :: ps =>
    match parseStep fuel p with
    | .error e => .error e
    | .ok s =>
      match parseSteps fuel ps with
      | .error e => .error e
      | .ok ss => .ok (s :: ss)

/-- `parse_location_path` -/
def parsePath (fuel : Nat) (tokens : List TT) : Except Err Path :=
  if tokens.isEmpty then .error (.parsing none "Missing location path.")
  else
    let tokens : List TT := expandAxes tokens
    match tokens.head? with
    | none => .error (.pyError "IndexError" "path.tokens[0]")
    | some (.group _) => .error (.pyError "NotImplementedError" "path.tokens[0]")
    | some (.tok t0) =>
      match parseSteps fuel (partitionTokens .SLASH tokens) with
      | .error e => .error e
      | .ok steps => .ok { absolute := t0.type == .SLASH, steps := steps }

def parsePaths (fuel : Nat) : List (List TT) → Except Err (List Path)
  | [] => .ok []
  | p :: ps =>
    match parsePath fuel p with
    | .error e => .error e
    | .ok x =>
      match parsePaths fuel ps with
      | .error e => .error e
      | .ok xs => .ok (x :: xs)

mutual
  def ttSize : TT → Nat
    | .tok _ => 1
    | .group ts => 1 + ttsSize ts
  def ttsSize : List TT → Nat
    | [] => 0
    | t :: ts => ttSize t + ttsSize ts
end

/-- `parse(expression)`; the `except` clause fills in a missing position with 0 -/
def parse (s : Str) : Except Err XExpr :=
  let r : Except Err XExpr :=
    match tokenize s with
    | .error e => .error e
    | .ok toks =>
      match groupEnclosed toks with
      | .error e => .error e
      | .ok tokens =>
        let fuel := ttsSize tokens + 1
        if tokens.any (isSep .PASEQ) then parsePaths fuel (partitionTokens .PASEQ tokens)
        else parsePaths fuel [tokens]
  match r with
  | .error (.parsing none msg) => .error (.parsing (some 0) msg)
  | r => r

/-- `XPathParsingError.__str__` (defined whenever expression, position and message are set) -/
def renderError (expr : Str) (pos : Nat) (msg : String) : String :=
  let snippetEnd := min (pos + 16) expr.length
  let body := showStr ((expr.drop pos).take (snippetEnd - pos))
  let snippet := if expr.length > snippetEnd then s!"`{body}…`" else s!"`{body}`"
  if snippet.length > 2 then s!"XPath parsing error at character {pos} ({snippet}): {msg}"
  else s!"XPath parsing error at character {pos}: {msg}"

end Delb.XPath

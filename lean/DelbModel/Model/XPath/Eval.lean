import DelbModel.Model.XPath.Parser
import DelbModel.Model.Nav
import DelbModel.Model.Serialize
/-!
# XPath evaluation (`_delb/xpath/ast.py`, `_delb/xpath/functions.py`, `_delb/xpath/__init__.py`)

Nodes are addresses in a plain tree (`Edit.PTree`): `XNode.doc` is the `_DocumentNode` of an
absolute path, `XNode.at p` the node reached by the child-index path `p` from the root of the
context node's tree.  Queries run under `altered_default_filters()`, i.e. over all node kinds.

Axis generators are given by document-order positions; that the code's pointer walks
(`iterate_descendants`, `_iterate_following`, `_iterate_preceding`, sibling walking) produce these
sequences is C05.  Everything above the axes follows the code: node tests with `ensure_prefix`,
`LocationStep._evaluate` (candidate list, then per predicate `(position, size)` renumbering),
de-duplication per step and per expression, Python value semantics of the predicate operators.
-/
namespace Delb.XPath
open Delb.Edit Delb.Nav

inductive XNode
  | doc
  | at (path : List Nat)
deriving DecidableEq, Repr, Inhabited

inductive EvalErr
  | unknownPrefix (p : String)     -- XPathEvaluationError
  | py (kind : String) (site : String)   -- AttributeError / AssertionError / TypeError: not meant to happen
deriving DecidableEq, Repr, Inhabited

/-- the namespaces in effect for a query: prefix ↦ namespace (`Namespaces`, normalised) -/
abbrev NsEnv := Ser.Dict

mutual
  /-- all addresses of a tree in document order -/
  def pathsOf : PTree → List (List Nat)
    | .tag _ _ _ _ ks => [] :: pathsOfList 0 ks
    | _ => [[]]
  def pathsOfList (i : Nat) : List PTree → List (List Nat)
    | [] => []
    | k :: ks => (pathsOf k).map (i :: ·) ++ pathsOfList (i + 1) ks
end

def isPrefix (p q : List Nat) : Bool := p.isPrefixOf q

def kidsCount (root : PTree) (p : List Nat) : Nat :=
  match getAtP root p with
  | some t => t.kids.length
  | none => 0

def docOrder (root : PTree) : List (List Nat) := pathsOf root

/-- descendants of `p` in document order -/
def descendantPaths (root : PTree) (p : List Nat) : List (List Nat) :=
  (docOrder root).filter (fun q => isPrefix p q && q != p)

/-- delb's `following`: everything after `p` in document order (descendants included) -/
def followingPaths (root : PTree) (p : List Nat) : List (List Nat) :=
  ((docOrder root).dropWhile (· != p)).drop 1

/-- delb's `preceding`: everything before `p`, nearest first (ancestors included) -/
def precedingPaths (root : PTree) (p : List Nat) : List (List Nat) :=
  ((docOrder root).takeWhile (· != p)).reverse

def ancestorPaths (p : List Nat) : List (List Nat) :=
  (Nav.downFrom p.length).map (fun k => p.take k)

def siblingsAfter (root : PTree) (p : List Nat) : List (List Nat) :=
  match splitLast p with
  | none => []
  | some (par, i) => ((List.range (kidsCount root par)).filter (· > i)).map (fun j => par ++ [j])

def siblingsBefore (root : PTree) (p : List Nat) : List (List Nat) :=
  match splitLast p with
  | none => []
  | some (par, i) => ((List.range i).reverse).map (fun j => par ++ [j])

def realAxes : List String :=
  ["ancestor", "ancestor_or_self", "child", "descendant", "descendant_or_self", "following",
   "following_sibling", "parent", "preceding", "preceding_sibling", "self"]

/-- `Axis.<name>(node)`; the `_DocumentNode` only offers `iterate_children` / `iterate_descendants` -/
def axisNodes (root : PTree) (axis : String) : XNode → Except EvalErr (List XNode)
  | .doc =>
    match axis with
    | "child" => .ok [.at []]
    | "descendant" => .ok ((docOrder root).map XNode.at)
    | "descendant_or_self" => .ok (.doc :: (docOrder root).map XNode.at)
    | "self" => .ok [.doc]
    | a => if realAxes.contains a then .error (.py "AttributeError" ("_DocumentNode." ++ a))
           else .error (.py "TypeError" "not an axis")
  | .at p =>
    match axis with
    | "ancestor" => .ok ((ancestorPaths p).map XNode.at ++ [.doc])
    | "ancestor_or_self" => .ok (.at p :: (ancestorPaths p).map XNode.at ++ [.doc])
    | "child" => .ok ((List.range (kidsCount root p)).map (fun i => .at (p ++ [i])))
    | "descendant" => .ok ((descendantPaths root p).map XNode.at)
    | "descendant_or_self" => .ok (.at p :: (descendantPaths root p).map XNode.at)
    | "following" => .ok ((followingPaths root p).map XNode.at)
    | "following_sibling" => .ok ((siblingsAfter root p).map XNode.at)
    | "parent" => .ok (match splitLast p with | some (par, _) => [.at par] | none => [.doc])
    | "preceding" => .ok ((precedingPaths root p).map XNode.at)
    | "preceding_sibling" => .ok ((siblingsBefore root p).map XNode.at)
    | "self" => .ok [.at p]
    | _ => .error (.py "TypeError" "not an axis")

def nodeOf (root : PTree) : XNode → Option PTree
  | .doc => none
  | .at p => getAtP root p

def showS (s : Str) : String := String.ofList s

/-- `ensure_prefix` -/
def checkPrefix (env : NsEnv) : Option Str → Except EvalErr Unit
  | none => .ok ()
  | some p => if (Ser.dget env (showS p)).isSome then .ok () else .error (.unknownPrefix (showS p))

/-- node tests (`AnyNameTest`, `NameMatchTest`, `NodeTypeTest`, `ProcessingInstructionTest`) -/
def nodeTest (root : PTree) (env : NsEnv) (t : NodeTest) (n : XNode) : Except EvalErr Bool :=
  match t with
  | .anyName pfx =>
    match checkPrefix env pfx with
    | .error e => .error e
    | .ok () =>
      match nodeOf root n with
      | some (.tag _ ns _ _ _) =>
        (match pfx with
         | some p => if p.isEmpty then .ok true else .ok (some ns == Ser.dget env (showS p))
         | none => .ok true)
      | _ => .ok false
  | .name pfx local_ =>
    match checkPrefix env pfx with
    | .error e => .error e
    | .ok () =>
      match nodeOf root n with
      | some (.tag _ ns name _ _) =>
        -- unprefixed: the declared default namespace if there is one, else "no namespace"
        let wanted : Option String := match pfx with
          | none => Ser.dget env ""
          | some p => Ser.dget env (showS p)
        let nsOk := match wanted with
          | none => ns.isEmpty
          | some w => if w.isEmpty then ns.isEmpty else ns == w
        .ok (nsOk && name == showS local_)
      | _ => .ok false
  | .type ty =>
    match n with
    | .doc => .ok true        -- `or isinstance(node, _DocumentNode)`
    | .at _ =>
      match nodeOf root n, ty with
      | some (.tag ..), "TagNode" => .ok true
      | some (.text ..), "TextNode" => .ok true
      | some (.comment ..), "CommentNode" => .ok true
      | some (.pi ..), "ProcessingInstructionNode" => .ok true
      | _, _ => .ok false
  | .pi target =>
    match n with
    | .doc => .error (.py "AssertionError" "ProcessingInstructionTest on _DocumentNode")
    | .at _ =>
      match nodeOf root n with
      | some (.pi _ t _) => .ok (t == showS target)
      | _ => .ok false

/-! ## predicate values (Python objects) -/

inductive Val
  | b (v : Bool)
  | i (n : Int)
  | s (v : Str)
  | none
deriving DecidableEq, Repr, Inhabited

def truthy : Val → Bool
  | .b v => v
  | .i n => n != 0
  | .s v => !v.isEmpty
  | .none => false

def asInt : Val → Option Int
  | .b v => some (if v then 1 else 0)
  | .i n => some n
  | _ => Option.none

def strLe (a b : Str) : Bool := a == b || a < b

/-- `operator.<op>(left, right)` -/
def applyOp (op : String) (l r : Val) : Except EvalErr Val :=
  let tyErr : Except EvalErr Val := .error (.py "TypeError" ("operator " ++ op))
  match op with
  | "=" | "!=" =>
    let eq := match asInt l, asInt r with
      | some a, some b => a == b
      | _, _ => l == r
    .ok (.b (if op == "=" then eq else !eq))
  | "<" | "<=" | ">" | ">=" =>
    let cmpI (a b : Int) : Bool := match op with
      | "<" => a < b | "<=" => a ≤ b | ">" => a > b | _ => a ≥ b
    let cmpS (a b : Str) : Bool := match op with
      | "<" => a < b | "<=" => strLe a b | ">" => b < a | _ => strLe b a
    (match asInt l, asInt r with
     | some a, some b => .ok (.b (cmpI a b))
     | _, _ => match l, r with
       | .s a, .s b => .ok (.b (cmpS a b))
       | _, _ => tyErr)
  | "and" | "or" =>
    (match l, r with
     | .b a, .b b => .ok (.b (if op == "and" then a && b else a || b))
     | _, _ =>
       match l, r, asInt l, asInt r with
       | .s _, _, _, _ => tyErr
       | _, .s _, _, _ => tyErr
       | _, _, some a, some b => .ok (.i (if op == "and" then (Nat.land a.toNat b.toNat : Nat) else (Nat.lor a.toNat b.toNat : Nat)))
       | _, _, _, _ => tyErr)
  | _ => tyErr

def lookupAttrVal (attrs : List Attr) (ns name : String) : Option Str :=
  (attrs.find? (fun a => a.ns == ns && a.name == name)).map (·.value)

structure Ctx where
  node : XNode
  position : Nat
  size : Nat

def isInfix (sub s : Str) : Bool :=
  match s with
  | [] => sub.isEmpty
  | c :: cs => sub.isPrefixOf (c :: cs) || isInfix sub cs

mutual
  /-- `EvaluationNode.evaluate(node, context)` -/
  def evalExpr (root : PTree) (env : NsEnv) (c : Ctx) : Expr → Except EvalErr Val
    | .num n => .ok (.i n)
    | .str s => .ok (.s s)
    | .hasAttr pfx name =>
      match checkPrefix env pfx with
      | .error e => .error e
      | .ok () =>
        match nodeOf root c.node with
        | some (.tag _ _ _ attrs _) =>
          -- `context.namespaces.get(self.prefix, "")`: no prefix means no namespace
          let ns := (pfx.bind (fun p => Ser.dget env (showS p))).getD ""
          .ok (.b (lookupAttrVal attrs ns (showS name)).isSome)
        | _ => .ok (.b false)
    | .attrVal pfx name =>
      match checkPrefix env pfx with
      | .error e => .error e
      | .ok () =>
        match nodeOf root c.node with
        | some (.tag _ _ _ attrs _) =>
          -- `context.namespaces.get(self.prefix, "")`: no prefix means no namespace
          let ns := (pfx.bind (fun p => Ser.dget env (showS p))).getD ""
          .ok (.s ((lookupAttrVal attrs ns (showS name)).getD []))
        | _ => .ok .none
    | .binop op l r =>
      match evalExpr root env c l with
      | .error e => .error e
      | .ok lv =>
        match evalExpr root env c r with
        | .error e => .error e
        | .ok rv => applyOp op lv rv
    | .func name args =>
      match evalArgs root env c args with
      | .error e => .error e
      | .ok vs =>
        match showS name, vs with
        | "position", [] => .ok (.i c.position)
        | "last", [] => .ok (.i c.size)
        | "boolean", [v] => .ok (.b (truthy v))
        | "not", [v] => .ok (.b (!truthy v))
        | "contains", [.s a, .s b] => .ok (.b (isInfix b a))
        | "starts-with", [.s a, .s b] => .ok (.b (b.isPrefixOf a))
        | "starts-with", [.none, _] => .error (.py "AttributeError" "None.startswith")
        | "concat", vs =>
          if vs.all (fun v => match v with | .s _ => true | _ => false) then
            .ok (.s (vs.flatMap (fun v => match v with | .s x => x | _ => [])))
          else .error (.py "TypeError" "concat")
        | "text", [] =>
          (match c.node with
           | .doc => .ok (.s [])     -- the document node's only child is the root element
           | .at p =>
             match getAtP root p with
             | some t => .ok (.s ((t.kids.find? PTree.isText).map Nav.textContent |>.getD []))
             | none => .ok (.s []))
        | n, _ => .error (.py "TypeError" ("function " ++ n))
  def evalArgs (root : PTree) (env : NsEnv) (c : Ctx) : List Expr → Except EvalErr (List Val)
    | [] => .ok []
    | a :: as =>
      match evalExpr root env c a, evalArgs root env c as with
      | .ok v, .ok vs => .ok (v :: vs)
      | .error e, _ => .error e
      | _, .error e => .error e
end

/-- one predicate over the current candidate list: `enumerate(candidates, start=1)` with `size = len(candidates)` -/
def filterPred (root : PTree) (env : NsEnv) (pred : Expr) (size : Nat) : Nat → List XNode → Except EvalErr (List XNode)
  | _, [] => .ok []
  | pos, n :: rest =>
    match evalExpr root env { node := n, position := pos, size := size } pred with
    | .error e => .error e
    | .ok v =>
      match filterPred root env pred size (pos + 1) rest with
      | .error e => .error e
      | .ok r => .ok (if truthy v then n :: r else r)

def applyPreds (root : PTree) (env : NsEnv) : List Expr → List XNode → Except EvalErr (List XNode)
  | [], cands => .ok cands
  | p :: ps, cands =>
    match filterPred root env p cands.length 1 cands with
    | .error e => .error e
    | .ok next => applyPreds root env ps next

def filterTest (root : PTree) (env : NsEnv) (t : NodeTest) : List XNode → Except EvalErr (List XNode)
  | [] => .ok []
  | n :: rest =>
    match nodeTest root env t n, filterTest root env t rest with
    | .ok b, .ok r => .ok (if b then n :: r else r)
    | .error e, _ => .error e
    | _, .error e => .error e

/-- `LocationStep._evaluate(node)` -/
def evalStepAt (root : PTree) (env : NsEnv) (s : Step) (n : XNode) : Except EvalErr (List XNode) :=
  match axisNodes root s.axis n with
  | .error e => .error e
  | .ok axis =>
    match filterTest root env s.test axis with
    | .error e => .error e
    | .ok cands => applyPreds root env s.preds cands

def addNew (acc : List XNode) : List XNode → List XNode
  | [] => acc
  | n :: rest => if acc.contains n then addNew acc rest else addNew (acc ++ [n]) rest

/-- `LocationStep.evaluate(node_set)`: results of all context nodes, first occurrence wins -/
def evalStep (root : PTree) (env : NsEnv) (s : Step) : List XNode → List XNode → Except EvalErr (List XNode)
  | acc, [] => .ok acc
  | acc, n :: rest =>
    match evalStepAt root env s n with
    | .error e => .error e
    | .ok r => evalStep root env s (addNew acc r) rest

def evalSteps (root : PTree) (env : NsEnv) : List Step → List XNode → Except EvalErr (List XNode)
  | [], ns => .ok ns
  | s :: ss, ns =>
    match evalStep root env s [] ns with
    | .error e => .error e
    | .ok r => evalSteps root env ss r

/-- `LocationPath.evaluate(node)` -/
def evalPath (root : PTree) (env : NsEnv) (ctx : List Nat) (p : Path) : Except EvalErr (List XNode) :=
  evalSteps root env p.steps [if p.absolute then .doc else .at ctx]

/-- `XPathExpression.evaluate`: union of the paths' results, first occurrence wins; a `_DocumentNode`
    in the final result trips an assertion -/
def evalPaths (root : PTree) (env : NsEnv) (ctx : List Nat) : List XNode → List Path → Except EvalErr (List XNode)
  | acc, [] => .ok acc
  | acc, p :: ps =>
    match evalPath root env ctx p with
    | .error e => .error e
    | .ok r =>
      if r.contains .doc then .error (.py "AssertionError" "_DocumentNode in result")
      else evalPaths root env ctx (addNew acc r) ps

def evaluate (root : PTree) (env : NsEnv) (ctx : List Nat) (x : XExpr) : Except EvalErr (List XNode) :=
  evalPaths root env ctx [] x

/-- `TagNode.location_path` -/
def locationPath (root : PTree) (p : List Nat) : Str :=
  let tagIndex (par : List Nat) (i : Nat) : Nat :=
    match getAtP root par with
    | some t => ((t.kids.take i).filter PTree.isTag).length
    | none => 0
  let rec go (pre : List Nat) : List Nat → List Str
    | [] => []
    | i :: rest => ("/*[" ++ toString (tagIndex pre i + 1) ++ "]").toList :: go (pre ++ [i]) rest
  "/*".toList ++ (go [] p).flatten

end Delb.XPath

namespace Delb.XPath
open Delb.Edit

/-- number of tag nodes among the first `i` children of the node at `par` -/
def tagIndex (root : PTree) (par : List Nat) (i : Nat) : Nat :=
  match getAtP root par with
  | some t => ((t.kids.take i).filter PTree.isTag).length
  | none => 0

/-- the expression `location_path` denotes: `/*` followed by one `*[position()=k]` step per level
    (what `parse` makes of the string; checked per case by the driver) -/
def locationPathAst (root : PTree) (p : List Nat) : XExpr :=
  let rec go (pre : List Nat) : List Nat → List Step
    | [] => []
    | i :: rest =>
      { axis := "child", test := .anyName none,
        preds := [.binop "=" (.func "position".toList []) (.num (tagIndex root pre i + 1))] } :: go (pre ++ [i]) rest
  [{ absolute := true, steps := { axis := "child", test := .anyName none, preds := [] } :: go [] p }]

/-- the address is that of a tag node whose ancestors are tag nodes -/
def tagPath (root : PTree) (p : List Nat) : Bool :=
  match getAtP root p with
  | some (.tag ..) => true
  | _ => false

end Delb.XPath

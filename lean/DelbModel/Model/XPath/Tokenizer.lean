import DelbModel.Model.Tree
/-!
# `_delb/xpath/tokenizer.py`

`grab_token` is one ordered alternation; at every index the first alternative that
matches wins and `ERROR = .*` always matches, so `search(pos=index)` always matches
*at* `index`.  The character classes and literal tokens come from
`Generated/Tables.lean` (probed through the compiled pattern itself).
-/
namespace Delb.XPath

inductive TokType
  | STRING | NAME | SLASH_SLASH | SLASH | ASTERISK | AXIS_SEPARATOR | COLON | DOT_DOT | DOT
  | OPEN_BRACKET | CLOSE_BRACKET | STRUDEL | EQUALS | OPEN_PARENS | CLOSE_PARENS | COMMA | PASEQ
  | OTHER_OPS | NUMBER | WHITESPACE
deriving DecidableEq, Repr, Inhabited

def TokType.ofName : String → Option TokType
  | "STRING" => some .STRING | "NAME" => some .NAME | "SLASH_SLASH" => some .SLASH_SLASH
  | "SLASH" => some .SLASH | "ASTERISK" => some .ASTERISK | "AXIS_SEPARATOR" => some .AXIS_SEPARATOR
  | "COLON" => some .COLON | "DOT_DOT" => some .DOT_DOT | "DOT" => some .DOT
  | "OPEN_BRACKET" => some .OPEN_BRACKET | "CLOSE_BRACKET" => some .CLOSE_BRACKET
  | "STRUDEL" => some .STRUDEL | "EQUALS" => some .EQUALS | "OPEN_PARENS" => some .OPEN_PARENS
  | "CLOSE_PARENS" => some .CLOSE_PARENS | "COMMA" => some .COMMA | "PASEQ" => some .PASEQ
  | "OTHER_OPS" => some .OTHER_OPS | "NUMBER" => some .NUMBER | "WHITESPACE" => some .WHITESPACE
  | _ => none

def TokType.name : TokType → String
  | .STRING => "STRING" | .NAME => "NAME" | .SLASH_SLASH => "SLASH_SLASH" | .SLASH => "SLASH"
  | .ASTERISK => "ASTERISK" | .AXIS_SEPARATOR => "AXIS_SEPARATOR" | .COLON => "COLON"
  | .DOT_DOT => "DOT_DOT" | .DOT => "DOT" | .OPEN_BRACKET => "OPEN_BRACKET"
  | .CLOSE_BRACKET => "CLOSE_BRACKET" | .STRUDEL => "STRUDEL" | .EQUALS => "EQUALS"
  | .OPEN_PARENS => "OPEN_PARENS" | .CLOSE_PARENS => "CLOSE_PARENS" | .COMMA => "COMMA"
  | .PASEQ => "PASEQ" | .OTHER_OPS => "OTHER_OPS" | .NUMBER => "NUMBER" | .WHITESPACE => "WHITESPACE"

structure Token where
  pos : Nat
  str : Str
  type : TokType
deriving DecidableEq, Repr, Inhabited

/-- what can come out of tokenizing/parsing. `pyError` stands for any Python exception
    that is *not* an `XPathParsingError` (IndexError, KeyError, AssertionError, …) -/
inductive Err
  | parsing (pos : Option Nat) (msg : String)
  | unsupported (pos : Nat) (msg : String)
  | pyError (kind : String) (site : String)
  | outOfFuel
deriving DecidableEq, Repr, Inhabited

def isNameStart (c : Char) : Bool := inRanges Gen.tokNameStart c.toNat
def isNameChar (c : Char) : Bool := inRanges Gen.tokNameCont c.toNat
def isDigit (c : Char) : Bool := inRanges Gen.tokDigits c.toNat
def isTokWs (c : Char) : Bool := inRanges Gen.tokWhitespace c.toNat
def isDelim (c : Char) : Bool := Gen.tokStringDelims.contains c
def isEscape (c : Char) : Bool := Gen.tokStringEscape.contains c
def noEscapee (c : Char) : Bool := inRanges Gen.tokNoEscape c.toNat

/-- the non-greedy string pattern as a deterministic scanner: number of chars after the
    opening delimiter `d` up to and including the closing one -/
def scanString (d : Char) : List Char → Option Nat
  | [] => none
  | c :: cs =>
    if c = d then some 1
    else if isEscape c then
      match cs with
      | [] => none
      | e :: cs' => if noEscapee e then none else (scanString d cs').map (· + 2)
    else (scanString d cs).map (· + 1)

def matchLiteral (cs : List Char) : List (List Char × String) → Option (Nat × TokType)
  | [] => none
  | (lit, g) :: rest =>
    if lit ≠ [] ∧ lit.isPrefixOf cs then
      match TokType.ofName g with
      | some t => some (lit.length, t)
      | none => matchLiteral cs rest
    else matchLiteral cs rest

/-- one application of `grab_token` at the head of `cs`: length and type of the token,
    `none` for the ERROR alternative -/
def grab (cs : List Char) : Option (Nat × TokType) :=
  match cs with
  | [] => none
  | c :: rest =>
    match (if isDelim c then scanString c rest else none) with
    | some n => some (n + 1, .STRING)
    | none =>
      if isDigit c then some (1 + (rest.takeWhile isDigit).length, .NUMBER)
      else if isNameStart c then some (1 + (rest.takeWhile isNameChar).length, .NAME)
      else match matchLiteral cs Gen.tokLiterals with
        | some r => some r
        | none =>
          if isTokWs c then some (1 + (rest.takeWhile isTokWs).length, .WHITESPACE)
          else none

/-- `tokenize`: `fuel` bounds the `while index < end` loop -/
def tokenizeAux : Nat → Nat → List Char → Except Err (List Token)
  | _, _, [] => .ok []
  | 0, _, _ :: _ => .error .outOfFuel
  | fuel+1, index, cs@(_ :: _) =>
    match grab cs with
    | none => .error (.parsing (some index) "Unrecognized token.")
    | some (n, ty) =>
      match tokenizeAux fuel (index + n) (cs.drop n) with
      | .error e => .error e
      | .ok ts =>
        if ty = .WHITESPACE then .ok ts
        else .ok ({ pos := index, str := cs.take n, type := ty } :: ts)

def tokenize (s : List Char) : Except Err (List Token) := tokenizeAux (s.length + 1) 0 s

end Delb.XPath

import DelbModel.Model.Tree
/-!
# `TagAttributes` / `Attribute` (_delb/nodes.py) over lxml's attribute store

* the **store** is lxml's `_Attrib`: an insertion-ordered mapping from Clark keys (`{ns}name` or `name`)
  to values; assigning an existing key keeps its position
* the element has a namespace `N` and an in-scope default namespace `D` (`nsmap.get(None)`, `""` if none)
* `TagAttributes._attributes` **caches** one `Attribute` view per *qualified name as it was given*
* a **view** knows its qualified name, whether it is still attached and, once detached, its last value

`resolve`, `etreeKey` and the operations follow the methods of the same name.  The specification is a
dictionary keyed by *canonical* names: by lxml's documented limitation `("", n)` and `(D, n)` are the
same attribute.
-/
namespace Delb.Attrs

abbrev QName := String × String          -- (namespace, local name)

structure Ctx where
  nodeNs : String      -- `node.namespace`
  defaultNs : String   -- `nsmap.get(None, "")`
deriving Repr

/-- an accessor as client code passes it -/
inductive Accessor
  | local_ (name : String)             -- "name": belongs to the node's namespace
  | clark (ns name : String)           -- "{ns}name"
  | pair (ns name : String)            -- (ns, name)
deriving Repr, DecidableEq

/-- `__resolve_accessor` -/
def resolve (c : Ctx) : Accessor → QName
  | .local_ n => (c.nodeNs, n)
  | .clark ns n => (ns, n)
  | .pair ns n => (ns, n)

/-- a Clark key of the store: `none` namespace = plain key -/
abbrev Key := Option String × String

/-- `_etree_key` -/
def etreeKey (c : Ctx) (q : QName) : Key :=
  if q.1 != "" && c.defaultNs != q.1 then (some q.1, q.2) else (none, q.2)

abbrev Store := List (Key × Str)

def sget (s : Store) (k : Key) : Option Str :=
  match s with
  | [] => none
  | (k', v) :: rest => if k' == k then some v else sget rest k

def sset (s : Store) (k : Key) (v : Str) : Store :=
  match s with
  | [] => [(k, v)]
  | (k', v') :: rest => if k' == k then (k, v) :: rest else (k', v') :: sset rest k v

def sdel (s : Store) (k : Key) : Store := s.filter (fun e => e.1 != k)

structure View where
  id : Nat
  attached : Bool
  qname : QName
  detachedValue : Option Str
deriving Repr

structure State where
  store : Store
  cache : List (QName × Nat)        -- qualified name ↦ view id
  views : List View
  nextView : Nat
deriving Repr

def cacheGet (c : List (QName × Nat)) (q : QName) : Option Nat :=
  match c with
  | [] => none
  | (q', v) :: rest => if q' == q then some v else cacheGet rest q

def cacheSet (c : List (QName × Nat)) (q : QName) (v : Nat) : List (QName × Nat) :=
  match c with
  | [] => [(q, v)]
  | (q', v') :: rest => if q' == q then (q, v) :: rest else (q', v') :: cacheSet rest q v

def cacheDel (c : List (QName × Nat)) (q : QName) : List (QName × Nat) := c.filter (fun e => e.1 != q)

def getView (s : State) (id : Nat) : Option View := s.views.find? (fun v => v.id == id)
def putView (s : State) (v : View) : State :=
  { s with views := s.views.map (fun w => if w.id == v.id then v else w) }

inductive Res
  | unit
  | bool (b : Bool)
  | nat (n : Nat)
  | value (v : Str)
  | view (id : Nat)
  | names (l : List QName)
  | keyError
  | none
deriving Repr, DecidableEq

/-- `item in attributes` -/
def contains (c : Ctx) (s : State) (a : Accessor) : Bool := (sget s.store (etreeKey c (resolve c a))).isSome

/-- `attributes[item]`: the cached view of that qualified name, or a new one -/
def getItem (c : Ctx) (s : State) (a : Accessor) : State × Res :=
  if !contains c s a then (s, .keyError)
  else
    let q := resolve c a
    match cacheGet s.cache q with
    | some v => (s, .view v)
    | none =>
      let v : View := { id := s.nextView, attached := true, qname := q, detachedValue := Option.none }
      ({ s with cache := cacheSet s.cache q v.id, views := s.views ++ [v], nextView := s.nextView + 1 }, .view v.id)

/-- `attributes[item] = value`: stores the value and caches a *new* view for the qualified name -/
def setItem (c : Ctx) (s : State) (a : Accessor) (value : Str) : State :=
  let q := resolve c a
  let v : View := { id := s.nextView, attached := true, qname := q, detachedValue := Option.none }
  { store := sset s.store (etreeKey c q) value, cache := cacheSet s.cache q v.id, views := s.views ++ [v],
    nextView := s.nextView + 1 }

/-- `del attributes[item]`: detaches the cached view of that qualified name (only that one) -/
def delItem (c : Ctx) (s : State) (a : Accessor) : State × Res :=
  if !contains c s a then (s, .keyError)
  else
    let q := resolve c a
    let (s1, r) := getItem c s a
    match r with
    | .view vid =>
      let value := (sget s1.store (etreeKey c q)).getD []
      let s2 := match getView s1 vid with
        | some v => putView s1 { v with attached := false, detachedValue := some value }
        | Option.none => s1
      ({ s2 with store := sdel s2.store (etreeKey c q), cache := cacheDel s2.cache q }, .unit)
    | _ => (s1, .keyError)

/-- `Attribute.value` -/
def viewValue (c : Ctx) (s : State) (vid : Nat) : Res :=
  match getView s vid with
  | Option.none => .keyError
  | some v =>
    if v.attached then
      match sget s.store (etreeKey c v.qname) with
      | some x => .value x
      | Option.none => .keyError            -- a view that was not told about the removal
    else match v.detachedValue with
      | some x => .value x
      | Option.none => .keyError

/-- `Attribute.value = x` -/
def viewSetValue (c : Ctx) (s : State) (vid : Nat) (x : Str) : State :=
  match getView s vid with
  | Option.none => s
  | some v =>
    if v.attached then { s with store := sset s.store (etreeKey c v.qname) x }
    else putView s { v with detachedValue := some x }

/-- `__iter__`: plain keys are reported in the default namespace in scope -/
def iter (c : Ctx) (s : State) : List QName :=
  s.store.map (fun e => match e.1 with
    | (some ns, n) => (ns, n)
    | (Option.none, n) => (c.defaultNs, n))

def len (s : State) : Nat := s.store.length

/-- `attributes.get(item)` returning the value (or nothing) -/
def getValue (c : Ctx) (s : State) (a : Accessor) : Option Str := sget s.store (etreeKey c (resolve c a))

/-! ## specification: a dictionary keyed by canonical names -/

/-- `("", n)` and `(D, n)` denote the same attribute -/
def canon (c : Ctx) (q : QName) : QName := if q.1 == c.defaultNs then ("", q.2) else q

abbrev Dict := List (QName × Str)

def dictGet (d : Dict) (q : QName) : Option Str :=
  match d with
  | [] => none
  | (q', v) :: rest => if q' == q then some v else dictGet rest q

def dictSet (d : Dict) (q : QName) (v : Str) : Dict :=
  match d with
  | [] => [(q, v)]
  | (q', v') :: rest => if q' == q then (q, v) :: rest else (q', v') :: dictSet rest q v

def dictDel (d : Dict) (q : QName) : Dict := d.filter (fun e => e.1 != q)

/-- the dictionary a store denotes -/
def absStore (s : Store) : Dict :=
  s.map (fun e => match e.1 with
    | (some ns, n) => ((ns, n), e.2)
    | (Option.none, n) => (("", n), e.2))

/-- keys of a store are in the form `etreeKey` produces for the current scope: no Clark key carries the
    default namespace or an empty namespace -/
def storeOk (c : Ctx) (s : Store) : Prop :=
  (∀ e ∈ s, ∀ ns, e.1.1 = some ns → ns ≠ "" ∧ ns ≠ c.defaultNs) ∧ (s.map (·.1)).Nodup

end Delb.Attrs

import DelbModel.Model.Tree
/-!
# `TagAttributes` / `Attribute` (_delb/nodes.py) over lxml's attribute store

* the **store** is lxml's `_Attrib`: an insertion-ordered mapping from Clark keys (`{ns}name` or `name`)
  to values; assigning an existing key keeps its position
* the element has a namespace `N` and an in-scope default namespace `D` (`nsmap.get(None)`, `""` if none)
* `TagAttributes._attributes` **caches** one `Attribute` object (a *view*) per **key of the store**
  (`_etree_key(qualified_name)`), so every spelling of one attribute shares one object
* a **view** knows its qualified name, whether it is still attached and, once detached, its last value;
  a view created by the mapping carries the name that iteration reports (`__reported_name`)

`resolve`, `etreeKey`, `reportedName` and the operations follow the methods of the same name.  The
specification is a dictionary keyed by *canonical* names: by lxml's documented limitation `("", n)` and
`(D, n)` are the same attribute.
-/
namespace Delb.Attrs

abbrev QName := String × String          -- (namespace, local name)

structure Ctx where
  nodeNs : String      -- `node.namespace`
  defaultNs : String   -- `nsmap.get(None, "")`
deriving Repr

/-- an accessor as client code passes it -/
inductive Accessor
  | local_ (name : String)             -- "name": belongs to the node's namespace
  | clark (ns name : String)           -- "{ns}name"
  | pair (ns name : String)            -- (ns, name)
deriving Repr, DecidableEq

/-- `__resolve_accessor` -/
def resolve (c : Ctx) : Accessor → QName
  | .local_ n => (c.nodeNs, n)
  | .clark ns n => (ns, n)
  | .pair ns n => (ns, n)

/-- `deconstruct_clark_notation` (`_delb/names.py`): `"{ns}local"` is split at the FIRST `}` into
    `(some ns, local)`, a name that does not start with `{` is `(none, name)`; `none`: Python raises
    (an opening brace without a closing one) -/
def deconstructClark (name : String) : Option (Option String × String) :=
  match name.toList with
  | '{' :: rest =>
    match rest.dropWhile (· != '}') with
    | '}' :: loc => some (some (String.ofList (rest.takeWhile (· != '}'))), String.ofList loc)
    | _ => none
  | _ => some (none, name)

/-- a string given as accessor: Clark notation or a plain local name -/
def accessorOfString (name : String) : Option Accessor :=
  match deconstructClark name with
  | some (some ns, l) => some (.clark ns l)
  | some (none, l) => some (.local_ l)
  | none => none

/-- a Clark key of the store: `none` namespace = plain key -/
abbrev Key := Option String × String

/-- `_etree_key` -/
def etreeKey (c : Ctx) (q : QName) : Key :=
  if q.1 != "" && c.defaultNs != q.1 then (some q.1, q.2) else (none, q.2)

/-- `__reported_name`: `namespace or nsmap.get(None, "")` -/
def reportedName (c : Ctx) (q : QName) : QName := (if q.1 == "" then c.defaultNs else q.1, q.2)

abbrev Store := List (Key × Str)

def sget (s : Store) (k : Key) : Option Str :=
  match s with
  | [] => none
  | (k', v) :: rest => if k' == k then some v else sget rest k

def sset (s : Store) (k : Key) (v : Str) : Store :=
  match s with
  | [] => [(k, v)]
  | (k', v') :: rest => if k' == k then (k, v) :: rest else (k', v') :: sset rest k v

def sdel (s : Store) (k : Key) : Store := s.filter (fun e => e.1 != k)

structure View where
  id : Nat
  attached : Bool                 -- `_attributes is not None`
  qname : QName                   -- `_qualified_name`
  detachedValue : Option Str      -- `_detached_value`
deriving Repr

abbrev Cache := List (Key × Nat)  -- store key ↦ view id  (`TagAttributes._attributes`)

structure State where
  store : Store
  cache : Cache
  views : List View
  nextView : Nat
deriving Repr

def cacheGet (c : Cache) (k : Key) : Option Nat :=
  match c with
  | [] => none
  | (k', v) :: rest => if k' == k then some v else cacheGet rest k

def cacheSet (c : Cache) (k : Key) (v : Nat) : Cache :=
  match c with
  | [] => [(k, v)]
  | (k', v') :: rest => if k' == k then (k, v) :: rest else (k', v') :: cacheSet rest k v

def cacheDel (c : Cache) (k : Key) : Cache := c.filter (fun e => e.1 != k)

def getView (s : State) (id : Nat) : Option View := s.views.find? (fun v => v.id == id)
def putView (s : State) (v : View) : State :=
  { s with views := s.views.map (fun w => if w.id == v.id then v else w) }

inductive Res
  | unit
  | bool (b : Bool)
  | nat (n : Nat)
  | value (v : Str)
  | view (id : Nat)
  | names (l : List QName)
  | keyError
  | none
deriving Repr, DecidableEq

/-- `item in attributes` -/
def contains (c : Ctx) (s : State) (a : Accessor) : Bool := (sget s.store (etreeKey c (resolve c a))).isSome

/-- `attributes[item]`: the cached view of the store key, or a new one that carries the reported name -/
def getItem (c : Ctx) (s : State) (a : Accessor) : State × Res :=
  if !contains c s a then (s, .keyError)
  else
    let q := resolve c a
    let k := etreeKey c q
    match cacheGet s.cache k with
    | some v => (s, .view v)
    | none =>
      let v : View := { id := s.nextView, attached := true, qname := reportedName c q, detachedValue := Option.none }
      ({ s with cache := cacheSet s.cache k v.id, views := s.views ++ [v], nextView := s.nextView + 1 }, .view v.id)

/-- `attributes[item] = value`: stores the value; an already cached view is kept, otherwise one is created -/
def setItem (c : Ctx) (s : State) (a : Accessor) (value : Str) : State :=
  let q := resolve c a
  let k := etreeKey c q
  let store := sset s.store k value
  match cacheGet s.cache k with
  | some _ => { s with store := store }
  | none =>
    let v : View := { id := s.nextView, attached := true, qname := reportedName c q, detachedValue := Option.none }
    { store := store, cache := cacheSet s.cache k v.id, views := s.views ++ [v], nextView := s.nextView + 1 }

/-- `attributes.update(mapping)`: one assignment per item -/
def update (c : Ctx) (s : State) (items : List (Accessor × Str)) : State :=
  items.foldl (fun s e => setItem c s e.1 e.2) s

/-- `Attribute.value` -/
def viewValue (c : Ctx) (s : State) (vid : Nat) : Res :=
  match getView s vid with
  | Option.none => .keyError
  | some v =>
    if v.attached then
      match sget s.store (etreeKey c v.qname) with
      | some x => .value x
      | Option.none => .keyError            -- does not happen in reachable states (`c11_view_value`)
    else match v.detachedValue with
      | some x => .value x
      | Option.none => .keyError

/-- `attribute._detached_value = attribute.value; attribute._attributes = None`; nothing if reading the value fails -/
def detachView (c : Ctx) (s : State) (vid : Nat) : Option State :=
  match getView s vid with
  | Option.none => Option.none
  | some v =>
    match viewValue c s vid with
    | .value x => some (putView s { v with attached := false, detachedValue := some x })
    | _ => Option.none

/-- `del attributes[item]`: the view of the store key (`self[qualified_name]`, created when none is cached)
    is detached with its value, the entry leaves store and cache -/
def delItem (c : Ctx) (s : State) (a : Accessor) : State × Res :=
  if !contains c s a then (s, .keyError)
  else
    let q := resolve c a
    let (s1, r) := getItem c s (.pair q.1 q.2)
    match r with
    | .view vid =>
      match detachView c s1 vid with
      | some s2 =>
        let k := etreeKey c q
        ({ s2 with store := sdel s2.store k, cache := cacheDel s2.cache k }, .unit)
      | Option.none => (s1, .keyError)
    | _ => (s1, .keyError)

/-- `Attribute.value = x` -/
def viewSetValue (c : Ctx) (s : State) (vid : Nat) (x : Str) : State :=
  match getView s vid with
  | Option.none => s
  | some v =>
    if v.attached then { s with store := sset s.store (etreeKey c v.qname) x }
    else putView s { v with detachedValue := some x }

/-- `Attribute._set_new_key(namespace, name)` (the setters of `namespace` and `local_name`).
    `.keyError` stands for the exceptions of the method (AssertionError on a detached object, KeyError). -/
def renameView (c : Ctx) (s : State) (vid : Nat) (nq : QName) : State × Res :=
  match getView s vid with
  | Option.none => (s, .keyError)
  | some v =>
    if v.qname == nq then (s, .unit)
    else if !v.attached then (s, .keyError)                     -- `assert attributes is not None`
    else
      let newKey := etreeKey c nq
      if newKey == etreeKey c v.qname then (s, .unit)           -- another spelling of the same name
      else
        -- an attribute with the new name is superseded: its cached object is detached with its value
        let s0? := match cacheGet s.cache newKey with
          | some rid => detachView c s rid
          | Option.none => some s
        match s0? with
        | Option.none => (s, .keyError)
        | some s0 =>
          match viewValue c s0 vid with
          | .value x =>
            -- `attributes[(namespace, name)] = self.value`
            let s1 := setItem c s0 (.pair nq.1 nq.2) x
            -- `self._qualified_name = (namespace, name)`
            let s2 := match getView s1 vid with
              | some v1 => putView s1 { v1 with qname := nq }
              | Option.none => s1
            -- `del attributes[current]`
            let (s3, r) := delItem c s2 (.pair v.qname.1 v.qname.2)
            match r with
            | .keyError => (s3, .keyError)
            | _ =>
              -- `self._attributes = attributes`
              let s4 := match getView s3 vid with
                | some v3 => putView s3 { v3 with attached := true }
                | Option.none => s3
              -- `attributes._attributes[new_key] = self`
              let s5 := { s4 with cache := cacheSet s4.cache newKey vid }
              -- the object `__setitem__` created when none was cached for the new key was never handed out
              -- and is referenced by nothing any more
              match cacheGet s0.cache newKey with
              | some _ => (s5, .unit)
              | Option.none => ({ s5 with views := s5.views.filter (fun w => w.id != s0.nextView) }, .unit)
          | _ => (s0, .keyError)

/-- `(attribute.namespace, attribute.local_name)`: `Attribute.namespace` is computed on access - an attribute object
    whose stored name has no namespace reports the default namespace in scope, like the iteration over the
    collection does (so the answer does not depend on when, or how often, the object was created) -/
def viewName (c : Ctx) (s : State) (vid : Nat) : Option QName :=
  (getView s vid).map (fun v => reportedName c v.qname)

/-! the mixin methods of `collections.abc.MutableMapping` are compositions of the above -/

/-- `attributes.pop(item)` (no default): `value = self[key]`, `del self[key]`, `return value` -/
def pop (c : Ctx) (s : State) (a : Accessor) : State × Res :=
  let (s1, r) := getItem c s a
  match r with
  | .view vid => ((delItem c s1 a).1, .view vid)
  | r => (s1, r)

/-- `attributes.setdefault(item, default)`: the attribute object if present, else assigns and returns `default` -/
def setDefault (c : Ctx) (s : State) (a : Accessor) (d : Str) : State × Res :=
  match getItem c s a with
  | (s1, .view vid) => (s1, .view vid)
  | _ => (setItem c s a d, .value d)

/-- the name iteration reports for a store key: plain keys are reported in the default namespace in scope -/
def iterName (c : Ctx) (k : Key) : QName :=
  match k with
  | (some ns, n) => (ns, n)
  | (Option.none, n) => (c.defaultNs, n)

/-- `__iter__` -/
def iter (c : Ctx) (s : State) : List QName := s.store.map (fun e => iterName c e.1)

def len (s : State) : Nat := s.store.length

/-- `attributes.popitem()`: pops the first name of the iteration (`KeyError` when empty) -/
def popItem (c : Ctx) (s : State) : State × Option QName × Res :=
  match iter c s with
  | [] => (s, Option.none, .keyError)
  | key :: _ =>
    let (s1, r) := pop c s (.pair key.1 key.2)
    (s1, some key, r)

def clearLoop (c : Ctx) : Nat → State → State
  | 0, s => s
  | n + 1, s =>
    match popItem c s with
    | (s1, some _, .view _) => clearLoop c n s1
    | _ => s

/-- `attributes.clear()`: `popitem()` until it raises `KeyError` -/
def clear (c : Ctx) (s : State) : State := clearLoop c (len s) s

/-- `attributes.get(item)` returning the value (or nothing) -/
def getValue (c : Ctx) (s : State) (a : Accessor) : Option Str := sget s.store (etreeKey c (resolve c a))

/-- `attribute != other[key]` is false: both lookups succeed and give the same value -/
def sameValue : Option Str → Option Str → Bool
  | some x, some y => x == y
  | _, _ => false

/-- `attributes == other` for another `TagAttributes` (possibly of an element with other namespaces in
    scope): same length, every reported name of `self` is a reported name of `other`, values equal.
    (The `Attribute` objects that `items()` and `other[key]` create are only cached, never handed out; the model
    leaves them out.) -/
def eqCollections (c₁ : Ctx) (s₁ : State) (c₂ : Ctx) (s₂ : State) : Bool :=
  len s₁ == len s₂ &&
  (iter c₁ s₁).all (fun key =>
    (iter c₂ s₂).contains key &&
    sameValue (getValue c₁ s₁ (.pair key.1 key.2)) (getValue c₂ s₂ (.pair key.1 key.2)))

/-- `attributes == other` for a plain mapping `other` (keys: any accessor form): same length, every key of
    `other` is `in self` and `self[key] == value` -/
def eqMapping (c : Ctx) (s : State) (other : List (Accessor × Str)) : Bool :=
  len s == other.length &&
  other.all (fun e => contains c s e.1 && getValue c s e.1 == some e.2)

/-! ## specification: a dictionary keyed by canonical names -/

/-- `("", n)` and `(D, n)` denote the same attribute -/
def canon (c : Ctx) (q : QName) : QName := if q.1 == c.defaultNs then ("", q.2) else q

abbrev Dict := List (QName × Str)

def dictGet (d : Dict) (q : QName) : Option Str :=
  match d with
  | [] => none
  | (q', v) :: rest => if q' == q then some v else dictGet rest q

def dictSet (d : Dict) (q : QName) (v : Str) : Dict :=
  match d with
  | [] => [(q, v)]
  | (q', v') :: rest => if q' == q then (q, v) :: rest else (q', v') :: dictSet rest q v

def dictDel (d : Dict) (q : QName) : Dict := d.filter (fun e => e.1 != q)

/-- the dictionary a store denotes -/
def absStore (s : Store) : Dict :=
  s.map (fun e => match e.1 with
    | (some ns, n) => ((ns, n), e.2)
    | (Option.none, n) => (("", n), e.2))

/-- the dictionary of reported names (what `dict(attributes)` shows, values as strings): the canonical
    dictionary with `""` replaced by the default namespace in scope -/
def reportedDict (c : Ctx) (s : Store) : Dict := s.map (fun e => (iterName c e.1, e.2))

/-- two dictionaries have the same entries -/
def dictEquiv (d₁ d₂ : Dict) : Prop := ∀ e, e ∈ d₁ ↔ e ∈ d₂

/-- keys of a store are in the form `etreeKey` produces for the current scope: no Clark key carries the
    default namespace or an empty namespace.  Preserved by every operation; true of every element built through
    delb and of parsed elements unless an attribute is written with a prefix bound to the URI that is also the
    default namespace in scope (recorded finding `prefixed-attribute-in-default-namespace`: there the library
    itself cannot reach the entry) -/
def storeOk (c : Ctx) (s : Store) : Prop :=
  (∀ e ∈ s, ∀ ns, e.1.1 = some ns → ns ≠ "" ∧ ns ≠ c.defaultNs) ∧ (s.map (·.1)).Nodup

/-- the invariant of reachable states: the cached view of a store key is an attached view of that key,
    every attached view is the cached view of its key, cached keys are in the store, view ids are unique and
    below `nextView`, a detached view has a value -/
structure ViewsOk (c : Ctx) (s : State) : Prop where
  fresh : ∀ v ∈ s.views, v.id < s.nextView
  unique : (s.views.map (·.id)).Nodup
  cached : ∀ k id, cacheGet s.cache k = some id →
    ∃ v, getView s id = some v ∧ v.attached = true ∧ etreeKey c v.qname = k
  attached : ∀ id v, getView s id = some v → v.attached = true → cacheGet s.cache (etreeKey c v.qname) = some id
  stored : ∀ k id, cacheGet s.cache k = some id → (sget s.store k).isSome = true
  detached : ∀ id v, getView s id = some v → v.attached = false → v.detachedValue.isSome = true

/-- `storeOk` and `ViewsOk` together -/
def Inv (c : Ctx) (s : State) : Prop := storeOk c s.store ∧ ViewsOk c s

/-- the states a client can reach: a wrapped element without attribute objects, then any sequence of the
    operations (`update`, `pop`, `popitem`, `clear`, `setdefault` are compositions of these) -/
inductive Reachable (c : Ctx) : State → Prop
  | init (st : Store) (n : Nat) : storeOk c st → Reachable c ⟨st, [], [], n⟩
  | getItem {s : State} (a : Accessor) : Reachable c s → Reachable c (getItem c s a).1
  | setItem {s : State} (a : Accessor) (x : Str) : Reachable c s → Reachable c (setItem c s a x)
  | delItem {s : State} (a : Accessor) : Reachable c s → Reachable c (delItem c s a).1
  | viewSetValue {s : State} (vid : Nat) (x : Str) : Reachable c s → Reachable c (viewSetValue c s vid x)
  | renameView {s : State} (vid : Nat) (nq : QName) : Reachable c s → Reachable c (renameView c s vid nq).1

end Delb.Attrs

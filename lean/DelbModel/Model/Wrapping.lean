import DelbModel.Model.Pretty
import DelbModel.Model.Wrap
/-!
# `TextWrappingSerializer` (_delb/nodes.py), i.e. `FormatOptions(width ≥ 1)`

One definition per Python method, with the same name in camelCase:

| Python                                                    | here                         |
|-----------------------------------------------------------|------------------------------|
| `_LengthTrackingWriter.__call__`                          | `write`                      |
| `PrettySerializer._whitespace_is_legit_before_node`       | `legitBefore`                |
| `PrettySerializer._whitespace_is_legit_after_node`        | `legitAfter`                 |
| `TextWrappingSerializer._fetch_following`                 | `fetchFollowing`             |
| `._line_offset`, `._available_space`                      | `lineOffset`, `availableSpace` |
| `._required_space`, `_for_text`, `_for_attributes`, `_for_following` | `requiredSpace…`  |
| `._node_fits_remaining_line`                              | `nodeFitsRemainingLine`      |
| `_LineFittingSerializer.serialize_node` (+ plain `_serialize_tag`) | `lfSerializeNode`, `lfHandleChildNodes` |
| `._serialize_appendable_node`                             | `serializeAppendableNode`    |
| `._serialize_text`, `_serialize_text_over_lines`, `_consolidate_text_lines` | same names  |
| `._wrap_text`                                             | `Wrap.wrapText` (`wrapFirst` = `next(self._wrap_text(…))`) |
| `.serialize_node`, `._serialize_tag`                      | `serializeNode`, `serializeTag` |
| `PrettySerializer._serialize_tag` + `Serializer._serialize_tag` | `prettySerializeTag`   |
| `PrettySerializer._handle_child_nodes`, `_serialize_child_nodes` | `handleChildNodes`, `serializeChildNodes` |
| `serialize_root`                                          | `wrapRoot`                   |
| `_get_serializer` + `TagNode.serialize`                   | `serializeWrapped`           |

The serializer object's mutable parts (`writer.offset`, `writer.preserve_space`, the buffer, `_level`,
`_unwritten_text_nodes`, `_line_fitting_serializer.space`) are the record `St` that is threaded
through; the immutable parts (options, prefixes, `_serialization_root`) are `Env`.

Nodes are addressed by their path (child indices) from the serialization root, and everything the
Python code asks the real tree (`parent`, `index`, `last_child`, `len`, siblings, `fetch_following`)
is computed from root and path.  The serializer runs under `altered_default_filters()`: all node
kinds are visible.  Text nodes are assumed non-empty.

`content` strings inside `serializeText…` are, as in Python, *escaped* (`_normalize_text` ends with
`.translate(CCE_TABLE_FOR_TEXT)`): lengths and wrap positions count escaped characters.  They are only
ever cut at spaces, so every cut-out part is the escape of a part of the raw text; `textPiece`
takes that back (`Ser.unescape`) because `Piece.text` holds raw text and `renderP` escapes it.

Recursion runs on an explicit fuel argument (the call chain is bounded by a small multiple of the
tree size); running out of fuel yields `Err.invalidCodePath "fuel"`.
-/
namespace Delb.Wrapping
open Delb.Ser Delb.WS Delb.Pretty

/-! ## navigation on root + path -/

abbrev Path := List Nat

def kidsOf : Node → List Node
  | .tag _ _ _ kids => kids
  | _ => []

/-- the node at `p` below `n` -/
def nodeAt : Node → Path → Option Node
  | n, [] => some n
  | n, i :: p =>
    match (kidsOf n)[i]? with
    | some k => nodeAt k p
    | none => none

mutual
  def size : Node → Nat
    | .tag _ _ _ kids => 1 + sizeList kids
    | _ => 1
  def sizeList : List Node → Nat
    | [] => 0
    | k :: ks => size k + sizeList ks
end

/-- `node.parent` (for a non-root path) -/
def parentOf (p : Path) : Path := p.dropLast

/-- `node.index` (for a non-root path) -/
def indexOf (p : Path) : Nat := p.getLast?.getD 0

/-- `len(node)` -/
def lenAt (root : Node) (p : Path) : Nat :=
  match nodeAt root p with
  | some n => (kidsOf n).length
  | none => 0

/-- `node.parent.last_child is node` -/
def isLastChild (root : Node) (p : Path) : Bool :=
  !p.isEmpty && indexOf p + 1 == lenAt root (parentOf p)

/-- `node.fetch_following_sibling()`, never leaving the serialization root -/
def fetchFollowingSibling (root : Node) (p : Path) : Option Path :=
  if p.isEmpty then none
  else if indexOf p + 1 < lenAt root (parentOf p) then some (parentOf p ++ [indexOf p + 1])
  else none

/-- `node.fetch_preceding_sibling()` -/
def fetchPrecedingSibling (p : Path) : Option Path :=
  if p.isEmpty || indexOf p == 0 then none else some (parentOf p ++ [indexOf p - 1])

/-- `next_sibling_of_an_ancestor` inside `NodeBase._iterate_following`, cut off at the serialization
    root (`n` bounds the number of steps by the length of the path) -/
def nextSiblingOfAnAncestor (root : Node) : Nat → Path → Option Path
  | 0, _ => none
  | n+1, p =>
    let parent := parentOf p
    if parent.isEmpty then none   -- the parent is the serialization root: what follows it is not part of the stream
    else
      match fetchFollowingSibling root parent with
      | some s => some s
      | none => nextSiblingOfAnAncestor root n parent

/-- `TextWrappingSerializer._fetch_following`: the next node in document order — the first child
    if there is one (!), else the next sibling, else the next sibling of the closest ancestor that
    has one — or `none` when that node lies outside the serialized subtree -/
def fetchFollowing (root : Node) (p : Path) : Option Path :=
  if lenAt root p > 0 then some (p ++ [0])
  else
    match fetchFollowingSibling root p with
    | some s => some s
    | none => nextSiblingOfAnAncestor root p.length p

/-- `_whitespace_is_legit_before_node` -/
def legitBefore (root : Node) (p : Path) : Bool :=
  if p.isEmpty then false            -- node is self._serialization_root
  else if indexOf p == 0 then true
  else
    match nodeAt root p with
    | some (.text s) => firstIsSpace s
    | some _ =>
      match (fetchPrecedingSibling p).bind (nodeAt root) with
      | some (.text s) =>
        -- `_whitespace_is_legit_after_node(preceding_sibling)`: a text node that is not the last child
        lastIsSpace s
      | _ => false
    | none => false

/-- `_whitespace_is_legit_after_node` -/
def legitAfter (root : Node) (p : Path) : Bool :=
  if p.isEmpty then false            -- node is self._serialization_root
  else if isLastChild root p then true
  else
    match nodeAt root p with
    | some (.text s) => lastIsSpace s
    | some _ =>
      match (fetchFollowingSibling root p).bind (nodeAt root) with
      | some (.text s) =>
        -- `_whitespace_is_legit_before_node(following_sibling)`: a text node with index > 0
        firstIsSpace s
      | _ => false
    | none => false

/-! ## environment, state, writer -/

structure Env where
  o : Opts
  width : Nat
  m : Dict          -- `_prefixes`
  root : Node       -- `_serialization_root`
  fuel : Nat        -- recursion budget for `requiredSpace`

/-- the mutable state of the serializer and its `_LengthTrackingWriter` -/
structure St where
  out : List Piece := []          -- `writer.buffer`
  offset : Nat := 0               -- `writer.offset`
  preserveSpace : Bool := false   -- `writer.preserve_space`
  level : Nat := 0                -- `_level`
  unwritten : List Path := []     -- `_unwritten_text_nodes`
  space : Mode := .default        -- `_line_fitting_serializer.space`

def nl : Piece := .layout ['\n']

def isNl (c : Char) : Bool := c == '\n'

/-- `data.lstrip("\n")` on a string given as pieces (markup never starts with a newline) -/
def stripNl : List Piece → List Piece
  | [] => []
  | .text s :: rest =>
    let s' := s.dropWhile isNl
    if s'.isEmpty then stripNl rest else .text s' :: rest
  | .layout s :: rest =>
    let s' := s.dropWhile isNl
    if s'.isEmpty then stripNl rest else .layout s' :: rest
  | .verbatim [.chars s] :: rest =>
    let s' := s.dropWhile isNl
    if s'.isEmpty then stripNl rest else .verbatim [.chars s'] :: rest
  | ps => ps

def isEmptyPiece : Piece → Bool
  | .text s => s.isEmpty
  | .layout s => s.isEmpty
  | .verbatim ts => ts.all (fun t => match t with | .chars s => s.isEmpty | _ => false)
  | _ => false

/-- the new `offset` after writing the non-empty string `data` -/
def newOffset (offset : Nat) (data : Str) : Nat :=
  if data.any isNl then (data.reverse.takeWhile (fun c => !isNl c)).length
  else offset + data.length

/-- `_LengthTrackingWriter.__call__(data)` where `data = renderP ps` -/
def write (st : St) (ps : List Piece) : St :=
  let ps := if !st.preserveSpace && st.offset == 0 then stripNl ps else ps
  let ps := ps.filter (fun p => !isEmptyPiece p)
  let data := renderP ps
  if data.isEmpty then st
  else { st with out := st.out ++ ps, offset := newOffset st.offset data }

/-- the plain `Serializer` writing through the length tracking writer: the writes that make up one
    token do not begin with a newline, so they act like one write per token -/
def writeToks (st : St) (ts : List Tok) : St :=
  ts.foldl (fun st t => write st [.verbatim [t]]) st

/-- `_line_offset` -/
def lineOffset (e : Env) (st : St) : Int :=
  if st.offset != 0 then (st.offset : Int) - ((st.level * e.o.indent.length : Nat) : Int) else 0

/-- `_available_space` -/
def availableSpace (e : Env) (st : St) : Nat := ((e.width : Int) - lineOffset e st).toNat

/-- `_normalize_text`: crunched and *escaped* -/
def normalizeText (s : Str) : Str := escapeText (normText s)

/-- a piece for (a part of) escaped text content -/
def textPiece (escaped : Str) : Piece := .text (unescape escaped)

/-- the pieces of one write of `pre + body (+ "\n")`, where `.rstrip()` was applied to the
    concatenation of indentation `pre` and escaped text `body` when `rstrip` is set -/
def textPieces (pre body : Str) (rstrip newline : Bool) : List Piece :=
  let body' := if rstrip then rtrim pyWs body else body
  let pre' := if rstrip && body'.isEmpty then rtrim pyWs pre else pre
  [.layout pre', textPiece body'] ++ (if newline then [nl] else [])

def getNode (e : Env) (p : Path) : Except Err Node :=
  match nodeAt e.root p with
  | some n => .ok n
  | none => .error (.invalidCodePath "no node at path")

def textAt (e : Env) (p : Path) : Except Err Str :=
  match nodeAt e.root p with
  | some (.text s) => .ok s
  | _ => .error (.invalidCodePath "no text node at path")

/-! ## `_required_space…` -/

/-- `up_to` may be negative in the Python code: then nothing fits -/
def upTo? (length : Nat) (upTo : Int) : Option Nat :=
  if (length : Int) ≤ upTo then some length else none

/-- `_required_space_for_text` -/
def requiredSpaceForText (e : Env) (p : Path) (s : Str) (upTo : Int) : Option Nat :=
  let content := normalizeText s
  let content := if content.head? == some ' ' && legitBefore e.root p then ltrim pyWs content else content
  let content := if content.getLast? == some ' ' && legitAfter e.root p then rtrim pyWs content else content
  upTo? content.length upTo

/-- `_required_space_for_attributes` (the sum only grows, so the order of iteration is irrelevant) -/
def requiredSpaceForAttributes (e : Env) : List Attr → Nat → Int → Except Err (Option Nat)
  | [], result, _ => .ok (some result)
  | a :: as, result, upTo =>
    match pfx e.m a.ns with
    | .error err => .error err
    | .ok p =>
      let result := result + 4 + a.name.length + p.length + (escapeAttr a.value).length
      if (result : Int) > upTo then .ok none else requiredSpaceForAttributes e as result upTo

mutual
  /-- `_required_space(node, up_to)` -/
  def requiredSpace (e : Env) : Nat → Path → Int → Except Err (Option Nat)
    | 0, _, _ => .error (.invalidCodePath "fuel")
    | fuel+1, p, upTo => do
      match ← getNode e p with
      | .text s => pure (requiredSpaceForText e p s upTo)
      | .comment s => pure (upTo? (renderPiece (.comment s)).length upTo)
      | .pi t s => pure (upTo? (renderPiece (.pi t s)).length upTo)
      | .tag ns name attrs kids =>
        let nameLength := name.length + (← pfx e.m ns).length
        let usedSpace := if kids.isEmpty then 3 + nameLength else 5 + 2 * nameLength
        if (usedSpace : Int) > upTo then return none
        let some attributesSpace ← requiredSpaceForAttributes e attrs 0 (upTo - usedSpace) | return none
        let usedSpace := usedSpace + attributesSpace
        let some usedSpace ← requiredSpaceChildren e fuel p 0 kids.length usedSpace upTo | return none
        let some followingSpace ← requiredSpaceForFollowing e fuel p (upTo - usedSpace) | return none
        return some (usedSpace + followingSpace)
  /-- the loop `for child_node in node.iterate_children()` of `_required_space`, from child `i` on -/
  def requiredSpaceChildren (e : Env) : Nat → Path → Nat → Nat → Nat → Int → Except Err (Option Nat)
    | 0, _, _, _, _, _ => .error (.invalidCodePath "fuel")
    | fuel+1, p, i, n, usedSpace, upTo => do
      if i ≥ n then return some usedSpace
      let some childSpace ← requiredSpace e fuel (p ++ [i]) (upTo - usedSpace) | return none
      requiredSpaceChildren e fuel p (i + 1) n (usedSpace + childSpace) upTo
  /-- `_required_space_for_following(node, up_to)` -/
  def requiredSpaceForFollowing (e : Env) : Nat → Path → Int → Except Err (Option Nat)
    | 0, _, _ => .error (.invalidCodePath "fuel")
    | fuel+1, p, upTo => do
      if legitAfter e.root p then return some 0
      let some following := fetchFollowing e.root p | return some 0
      match ← getNode e following with
      | .text s =>
        -- not crunched: only a real space ends the word
        let content := escapeText s
        let length := (Wrap.findSpFrom content 0).getD content.length
        return upTo? length upTo
      | _ => requiredSpace e fuel following upTo
end

/-- `_node_fits_remaining_line` -/
def nodeFitsRemainingLine (e : Env) (st : St) (p : Path) : Except Err Bool := do
  return (← requiredSpace e e.fuel p (availableSpace e st)).isSome

/-! ## `_LineFittingSerializer` and `_serialize_appendable_node` -/

def plainAttrs (ad : List (Str × Str)) : List (Str × Str × Str) := ad.map (fun kv => ([' '], kv.1, kv.2))

mutual
  /-- `_LineFittingSerializer.serialize_node`; for a tag node this runs the plain
      `Serializer._serialize_tag`, whose `_handle_child_nodes` comes back here -/
  def lfSerializeNode (m : Dict) : Node → St → Except Err St
    | .text s, st =>
      if s.isEmpty then .ok st
      else if st.space == .default then .ok (write st [.text (normText s)])
      else .ok (write st [.text s])
    | .comment s, st => .ok (write st [.comment s])
    | .pi t s, st => .ok (write st [.pi t s])
    | .tag ns name attrs kids, st =>
      let spaceState := st.space
      let space := directive attrs st.space
      -- sic: `self.writer.preserve_space = space == "default"`
      let st := if space != spaceState then { st with space := space, preserveSpace := space == .default } else st
      match pfx m ns, attrsData m (sortAttrs attrs) with
      | .error err, _ => .error err
      | _, .error err => .error err
      | .ok p, .ok ad =>
        let qn := (p ++ name).toList
        let body : Except Err St :=
          if kids.isEmpty then .ok (write st [.stag qn (plainAttrs ad) [] true])
          else
            match lfHandleChildNodes m kids (write st [.stag qn (plainAttrs ad) [] false]) with
            | .error err => .error err
            | .ok st => .ok (write st [.etag qn])
        match body with
        | .error err => .error err
        | .ok st =>
          -- sic: `self.writer.preserve_space = space_state == "default"`
          .ok (if space != spaceState then { st with space := spaceState, preserveSpace := spaceState == .default } else st)
  /-- `Serializer._handle_child_nodes` -/
  def lfHandleChildNodes (m : Dict) : List Node → St → Except Err St
    | [], st => .ok st
    | k :: ks, st =>
      match lfSerializeNode m k st with
      | .error err => .error err
      | .ok st => lfHandleChildNodes m ks st
end

/-- `_serialize_appendable_node` -/
def serializeAppendableNode (e : Env) (p : Path) (st : St) : Except Err St := do
  let node ← getNode e p
  let st := if st.offset == 0 && !e.o.indent.isEmpty then write st [.layout (indentN e.o st.level)] else st
  match node with
  | .text _ => throw (.assertion "_serialize_appendable_node on a text node")
  | .comment s => return write st [.comment s]
  | .pi t s => return write st [.pi t s]
  | .tag _ _ attrs _ =>
    if directive attrs .default == .preserve then
      -- `self._space_preserving_serializer.serialize_node(node)`
      let st := { st with preserveSpace := true }
      let st := writeToks st (← emitNode e.m node)
      return { st with preserveSpace := false }
    else
      let st ← lfSerializeNode e.m node st
      return { st with preserveSpace := false }

/-! ## text -/

/-- `next(self._wrap_text(text, width))`; `width` is `-1` when called with `_available_space - 1`
    on a full line: then `rfind(" ", 0, 0)` finds nothing and `find(" ", -1)` looks at the last
    character only -/
def wrapFirst (width : Int) (text : Str) : Except Err Str :=
  if width < 0 then
    if text.getLast? == some ' ' && text.length > 1 then .ok text.dropLast else .ok text
  else
    match Wrap.wrapText width.toNat text with
    | l :: _ => .ok l
    | [] => .error (.invalidCodePath "StopIteration")

/-- `_consolidate_text_lines` -/
def consolidateTextLines (e : Env) (st : St) (lines : List Str) : Except Err (List Str) := do
  let some lastNode := st.unwritten.getLast? | throw (.invalidCodePath "IndexError: no unwritten text nodes")
  let some first := lines.head? | throw (.invalidCodePath "IndexError: lines[0]")
  let lines :=
    if first.isEmpty && isLastChild e.root lastNode && legitAfter e.root lastNode then lines ++ [[]] else lines
  let lines := if st.offset == 0 && first.isEmpty then lines.drop 1 else lines
  match lines.reverse with
  | [] :: l :: rest => return (rest.reverse ++ [rtrim pyWs l, []])
  | _ => return lines

/-- `_serialize_text_over_lines(content)` -/
def serializeTextOverLines (e : Env) (st : St) (content : Str) : Except Err St := do
  let some firstNode := st.unwritten.head? | throw (.invalidCodePath "IndexError: no unwritten text nodes")
  let some lastNode := st.unwritten.getLast? | throw (.invalidCodePath "IndexError: no unwritten text nodes")
  let (st, lines) ←
    if st.offset == 0 then
      let lines := (if legitBefore e.root firstNode then [[]] else []) ++ Wrap.wrapText e.width (ltrim pyWs content)
      pure (st, lines)
    else do
      let avail := availableSpace e st
      let filling ←
        if content.head? == some ' ' then do
          pure (' ' :: (← wrapFirst ((avail : Int) - 1) (content.drop 1)))
        else wrapFirst avail content
      if !(filling.length > avail && legitBefore e.root firstNode) then
        let st := write st [textPiece filling]
        let content := content.drop (filling.length + 1)
        if content.isEmpty then return st
        pure (st, [[]] ++ Wrap.wrapText e.width content)
      else
        pure (st, [[]] ++ Wrap.wrapText e.width content)
  let some lastLine := lines.getLast? | throw (.invalidCodePath "IndexError: lines[-1]")
  let lines ←
    if lastLine.getLast? == some ' ' && legitAfter e.root lastNode then
      match fetchFollowingSibling e.root lastNode with
      | none => pure lines
      | some followingSibling =>
        -- `not self._required_space(…)`: `None` and `0` are both falsy
        match ← requiredSpace e e.fuel followingSibling ((e.width : Int) - lastLine.length) with
        | none | some 0 => pure (lines ++ [[]])
        | some _ => pure lines
    else pure lines
  let lines ← consolidateTextLines e st lines
  let some lastLine := lines.getLast? | throw (.invalidCodePath "IndexError: lines[-1]")
  let pre := indentN e.o st.level
  let st := lines.dropLast.foldl
    (fun st line => if line.isEmpty then write st [nl] else write st [.layout pre, textPiece line, nl]) st
  return if lastLine.isEmpty then st else write st [.layout pre, textPiece lastLine]

/-- `TextWrappingSerializer._serialize_text` -/
def serializeText (e : Env) (st : St) : Except Err St := do
  let nodes := st.unwritten
  let content := normalizeText (← nodes.mapM (textAt e)).flatten
  let some lastNode := nodes.getLast? | throw (.invalidCodePath "IndexError: no unwritten text nodes")
  let avail := availableSpace e st
  let st ←
    if avail == (rtrim pyWs content).length && legitAfter e.root lastNode then
      -- text fits perfectly
      if st.offset == 0 then
        pure (write st (textPieces (indentN e.o st.level) (ltrim pyWs content) true true))
      else
        pure (write st (textPieces [] content true true))
    else if avail > content.length then
      -- text fits current line
      let (pre, content) :=
        if st.offset == 0 then (indentN e.o st.level, ltrim pyWs content) else ([], content)
      let lineBreak ←
        if isLastChild e.root lastNode then pure true
        else
          match fetchFollowing e.root lastNode with
          | none => pure false
          | some following =>
            if legitBefore e.root following then do
              let r ← requiredSpace e e.fuel following ((avail : Int) - ((pre.length + content.length : Nat) : Int))
              pure r.isNone
            else pure false
      pure (write st (textPieces pre content lineBreak lineBreak))
    else if content == [' '] then
      -- " " doesn't fit line
      pure (write st [nl])
    else
      -- text doesn't fit current line
      serializeTextOverLines e st content
  return { st with unwritten := [] }

/-! ## nodes -/

mutual
  /-- `TextWrappingSerializer.serialize_node` -/
  def serializeNode (e : Env) : Nat → Path → St → Except Err St
    | 0, _, _ => .error (.invalidCodePath "fuel")
    | fuel+1, p, st => do
      let node ← getNode e p
      let st ← if st.unwritten.isEmpty then pure st else serializeText e st
      let st ←
        if ← nodeFitsRemainingLine e st p then do
          let st ← serializeAppendableNode e p st
          if (availableSpace e st == 0 || isLastChild e.root p) && legitAfter e.root p then
            return write st [nl]
          pure st
        else do
          if lineOffset e st > 0 && legitBefore e.root p then
            return ← serializeNode e fuel p (write st [nl])
          let st :=
            if !e.o.indent.isEmpty && st.offset == 0 && legitBefore e.root p then
              write st [.layout (indentN e.o st.level)]
            else st
          -- `super(PrettySerializer, self).serialize_node(node)`, i.e. `Serializer.serialize_node`
          let st ←
            match node with
            | .tag _ _ attrs _ => do
              let st := if directive attrs .default == .preserve then { st with preserveSpace := true } else st
              serializeTag e fuel p (← attrsData e.m (sortAttrs attrs)) st
            | .comment s => pure (write st [.comment s])
            | .pi t s => pure (write st [.pi t s])
            | .text s => pure (if s.isEmpty then st else write st [.text s])
          pure { st with preserveSpace := false }
      if legitAfter e.root p then
        let followingFits ←
          match fetchFollowing e.root p with
          | none => pure false
          | some following => nodeFitsRemainingLine e st following
        if !followingFits then return write st [nl]
      return st
  /-- `TextWrappingSerializer._serialize_tag` -/
  def serializeTag (e : Env) : Nat → Path → List (Str × Str) → St → Except Err St
    | 0, _, _, _ => .error (.invalidCodePath "fuel")
    | fuel+1, p, ad, st => do
      if !p.isEmpty && (← nodeFitsRemainingLine e st p) then serializeAppendableNode e p st
      else prettySerializeTag e fuel p ad st
  /-- `PrettySerializer._serialize_tag` and, for nodes without `xml:space="preserve"`,
      `Serializer._serialize_tag` with `PrettySerializer._serialize_attributes` -/
  def prettySerializeTag (e : Env) : Nat → Path → List (Str × Str) → St → Except Err St
    | 0, _, _, _ => .error (.invalidCodePath "fuel")
    | fuel+1, p, ad, st => do
      match ← getNode e p with
      | .tag ns name attrs kids =>
        if directive attrs .default == .preserve then
          -- `self._space_preserving_serializer._serialize_tag(node, attributes_data)`
          match ← emitNode e.m (.tag ns name attrs kids) with
          | .stag qn _ sc :: rest => return writeToks st (.stag qn ad sc :: rest)
          | ts => return writeToks st ts
        else
          let qn := ((← pfx e.m ns) ++ name).toList
          let (la, closePre) := layoutAttrs e.o st.level ad
          if kids.isEmpty then return write st [.stag qn la closePre true]
          let st := write st [.stag qn la closePre false]
          let st ← handleChildNodes e fuel p kids.length st
          return write st [.etag qn]
      | _ => throw (.invalidCodePath "_serialize_tag on a non-tag node")
  /-- `PrettySerializer._handle_child_nodes` for the `n ≥ 1` children of the node at `p` -/
  def handleChildNodes (e : Env) : Nat → Path → Nat → St → Except Err St
    | 0, _, _, _ => .error (.invalidCodePath "fuel")
    | fuel+1, p, n, st => do
      -- newline between an opening tag and its first child
      let st := if legitBefore e.root (p ++ [0]) then write st [nl] else st
      let st := { st with level := st.level + 1 }
      let st ← serializeChildNodes e fuel p 0 n st
      let st := { st with level := st.level - 1 }
      -- indentation before closing tag
      if !e.o.indent.isEmpty && legitAfter e.root (p ++ [n - 1]) then
        return write st [.layout (indentN e.o st.level)]
      return st
  /-- `PrettySerializer._serialize_child_nodes`, from child `i` on -/
  def serializeChildNodes (e : Env) : Nat → Path → Nat → Nat → St → Except Err St
    | 0, _, _, _, _ => .error (.invalidCodePath "fuel")
    | fuel+1, p, i, n, st => do
      if i ≥ n then
        if st.unwritten.isEmpty then return st else return ← serializeText e st
      match ← getNode e (p ++ [i]) with
      | .text s =>
        let st := if s.isEmpty then st else { st with unwritten := st.unwritten ++ [p ++ [i]] }
        serializeChildNodes e fuel p (i + 1) n st
      | _ =>
        let st ← serializeNode e fuel (p ++ [i]) st
        serializeChildNodes e fuel p (i + 1) n st
end

/-! ## entry points -/

def fuelFor (root : Node) : Nat := 8 * size root + 32

/-- `serialize_root` of the TextWrappingSerializer for the prefix map `m` -/
def wrapRoot (o : Opts) (width : Nat) (m : Dict) (root : Node) : Except Err (List Piece) :=
  match root with
  | .tag _ _ attrs _ =>
    match attrsData m (sortAttrs attrs) with
    | .error err => .error err
    | .ok ad =>
      let e : Env := { o := o, width := width, m := m, root := root, fuel := fuelFor root }
      match serializeTag e (fuelFor root) [] (declarations m ++ ad) {} with
      | .error err => .error err
      | .ok st => .ok st.out
  | _ => .error (.invalidCodePath "root must be a tag node")

/-- `TagNode.serialize(format_options=FormatOptions(indentation, width, align_attributes))`;
    as in `_get_serializer`, `width = 0` selects the PrettySerializer -/
def serializeWrapped (o : Opts) (width : Nat) (nsmap : Dict) (root : Node) (orders : List (List String)) :
    Except Err (List Piece) :=
  match collect nsmap root orders with
  | .error err => .error err
  | .ok m => if width == 0 then prettyRoot o m root else wrapRoot o width m root

end Delb.Wrapping

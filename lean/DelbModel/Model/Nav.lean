import DelbModel.Model.Edit
/-!
# Navigation (`_delb/nodes.py`, `_delb/utils.py`)

Two layers, as in the code:

* **sibling walking on the encoding** — `firstLoc`, `nextLoc`, `prevLoc` mirror
  `TagNode.iterate_children` (start), `_fetch_following_sibling` and `fetch_preceding_sibling`
  of element wrappers and text nodes (DATA / TAIL / APPENDED cases).  The C05 theorems say that
  walking with them enumerates exactly the indexes of the visible child list, in order.
* **tree walking on top of the sibling relation** — the loops of `iterate_descendants`
  (explicit `next_candidates` stack), `_iterate_following`, `_iterate_preceding`,
  `iterate_ancestors`, `depth`, `last_descendant`, `full_text`, the three traversers and
  `_sort_nodes_in_document_order`, written over plain trees where "a sibling pointer" is the
  list suffix that starts at that sibling.

Nodes are addressed by paths of child indexes from the root of their tree.
-/
namespace Delb.Nav
open Delb.Edit

/-! ## sibling walking on the encoding -/

/-- `iterate_children`: the data node if it exists, else the first child element -/
def firstLoc (data : Chain) (kids : List (El × Chain)) : Option Loc :=
  if data.length > 0 then some (.inData 0)
  else if kids.length > 0 then some (.elem 0) else none

/-- `_fetch_following_sibling` -/
def nextLoc (data : Chain) (kids : List (El × Chain)) : Loc → Option Loc
  -- TextNode: `_appended_text_node`, else (DATA) first child element / (APPENDED to DATA) likewise
  | .inData j =>
    if j + 1 < data.length then some (.inData (j + 1))
    else if kids.length > 0 then some (.elem 0) else none
  -- TextNode TAIL / APPENDED to a tail: `_appended_text_node`, else the anchor element's `getnext()`
  | .inTail k j =>
    if j + 1 < (tailOf kids k).length then some (.inTail k (j + 1))
    else if k + 1 < kids.length then some (.elem (k + 1)) else none
  -- _ElementWrappingNode: the tail node if it exists, else `getnext()`
  | .elem k =>
    if (tailOf kids k).length > 0 then some (.inTail k 0)
    else if k + 1 < kids.length then some (.elem (k + 1)) else none

/-- `fetch_preceding_sibling` (without filters) -/
def prevLoc (data : Chain) (kids : List (El × Chain)) : Loc → Option Loc
  | .inData 0 => none                                   -- DATA
  | .inData (j + 1) => some (.inData j)                 -- APPENDED: `_bound_to`
  | .inTail k 0 => some (.elem k)                       -- TAIL: the wrapper of `_bound_to`
  | .inTail k (j + 1) => some (.inTail k j)
  -- element: `getprevious()` is None → the parent's last data node; else the previous element's
  -- last tail node, else that element
  | .elem 0 => if data.length > 0 then some (.inData (data.length - 1)) else none
  | .elem (k + 1) =>
    if (tailOf kids k).length > 0 then some (.inTail k ((tailOf kids k).length - 1)) else some (.elem k)

/-- the index of a location in the visible child list -/
def locIndex (data : Chain) (kids : List (El × Chain)) : Loc → Nat
  | .inData j => j
  | .elem k => data.length + ((kids.take k).map (fun p => 1 + p.2.length)).sum
  | .inTail k j => data.length + ((kids.take k).map (fun p => 1 + p.2.length)).sum + 1 + j

/-- is the location inside the encoding? -/
def locValid (data : Chain) (kids : List (El × Chain)) : Loc → Bool
  | .inData j => j < data.length
  | .elem k => k < kids.length
  | .inTail k j => k < kids.length && j < (tailOf kids k).length

/-- `iterate_children` as the code walks: start at `firstLoc`, follow `nextLoc` -/
def walkFrom (data : Chain) (kids : List (El × Chain)) : Nat → Option Loc → List Loc
  | 0, _ => []
  | _, none => []
  | fuel + 1, some l => l :: walkFrom data kids fuel (nextLoc data kids l)

def childLocs (data : Chain) (kids : List (El × Chain)) : List Loc :=
  walkFrom data kids (visLen data kids + 1) (firstLoc data kids)

/-! ## tree walking over plain trees -/

mutual
  /-- document order (depth first, pre-order) -/
  def preorder : PTree → List PTree
    | .tag i ns n a ks => .tag i ns n a ks :: preorderList ks
    | t => [t]
  def preorderList : List PTree → List PTree
    | [] => []
    | k :: ks => preorder k ++ preorderList ks
end

mutual
  def size : PTree → Nat
    | .tag _ _ _ _ ks => 1 + sizeList ks
    | _ => 1
  def sizeList : List PTree → Nat
    | [] => 0
    | k :: ks => size k + sizeList ks
end

/-- `TagNode.iterate_descendants` (no filter): `candidate` is a sibling pointer (the suffix of a
    child list), `stack` the `next_candidates` -/
def descLoop : Nat → List PTree → List (List PTree) → List PTree
  | 0, _, _ => []
  | _, [], [] => []
  | fuel + 1, [], s :: stack => descLoop fuel s stack        -- `candidate = next_candidates.pop()`
  | fuel + 1, n :: rest, stack =>
    match n with
    | .tag _ _ _ _ ks => n :: descLoop fuel ks (rest :: stack)  -- push following sibling, go to first child
    | _ => n :: descLoop fuel rest stack

def descendants (t : PTree) : List PTree := descLoop (2 * size t + 2) t.kids []

/-- lengths n-1, …, 0: the proper prefixes of a path of length n, longest first -/
def downFrom (n : Nat) : List Nat := (List.range n).reverse

/-- the chain of ancestors (bottom to top) of the node at `path` (`iterate_ancestors`) -/
def ancestors (root : PTree) (path : List Nat) : List PTree :=
  (downFrom path.length).filterMap (fun k => getAtP root (path.take k))

def depth (root : PTree) (path : List Nat) : Nat := (ancestors root path).length

/-- siblings to the right / to the left (nearest first) of the node at `path` -/
def followingSiblings (root : PTree) (path : List Nat) : List PTree :=
  match splitLast path with
  | none => []
  | some (p, i) => match getAtP root p with
    | some par => par.kids.drop (i + 1)
    | none => []

def precedingSiblings (root : PTree) (path : List Nat) : List PTree :=
  match splitLast path with
  | none => []
  | some (p, i) => match getAtP root p with
    | some par => (par.kids.take i).reverse
    | none => []

/-- `_iterate_following`: first child, else following sibling, else the next sibling of an ancestor;
    i.e. the node's own descendants, then for every level from the node upwards the subtrees of
    the following siblings -/
def following (root : PTree) (path : List Nat) : List PTree :=
  (match getAtP root path with
   | some t => preorderList t.kids
   | none => []) ++
  (downFrom path.length).flatMap (fun k => preorderList (followingSiblings root (path.take (k + 1))))

mutual
  /-- reverse document order of a subtree: `iter_children` inside `_iterate_preceding` followed by the node -/
  def revPost : PTree → List PTree
    | .tag i ns n a ks => revPostList ks ++ [.tag i ns n a ks]
    | t => [t]
  /-- children right to left, each: its descendants in reverse order, then itself -/
  def revPostList : List PTree → List PTree
    | [] => []
    | k :: ks => revPostList ks ++ revPost k
end

/-- `_iterate_preceding`: preceding siblings (nearest first) each with its subtree in reverse document
    order, then the parent, and so on upwards -/
def preceding (root : PTree) (path : List Nat) : List PTree :=
  (downFrom path.length).flatMap (fun k =>
    ((precedingSiblings root (path.take (k + 1))).flatMap revPost) ++
      (match getAtP root (path.take k) with
       | some par => [par]
       | none => []))

/-- `last_descendant` -/
def lastDescendant : Nat → PTree → Option PTree
  | 0, _ => none
  | fuel + 1, t =>
    match t.kids.getLast? with
    | none => none
    | some l => match lastDescendant fuel l with
      | some d => some d
      | none => some l

mutual
  /-- `full_text` -/
  def fullText : PTree → Str
    | .tag _ _ _ _ ks => fullTextList ks
    | .text _ s => s
    | _ => []
  def fullTextList : List PTree → Str
    | [] => []
    | k :: ks => fullText k ++ fullTextList ks
end

/-- `traverse_bf_ltr_ttb` (queue based) -/
def bfLoop : Nat → List PTree → List PTree
  | 0, _ => []
  | _, [] => []
  | fuel + 1, n :: queue => n :: bfLoop fuel (queue ++ n.kids)

def traverseBF (t : PTree) : List PTree := t :: bfLoop (size t + 1) t.kids

mutual
  /-- `traverse_df_ltr_btt`: children first, then the node -/
  def postorder : PTree → List PTree
    | .tag i ns n a ks => postorderList ks ++ [.tag i ns n a ks]
    | t => [t]
  def postorderList : List PTree → List PTree
    | [] => []
    | k :: ks => postorder k ++ postorderList ks
end

/-- `traverse_df_ltr_ttb` -/
def traverseDF (t : PTree) : List PTree := t :: descendants t

/-- lexicographic order of paths = document order -/
def pathLt : List Nat → List Nat → Bool
  | [], [] => false
  | [], _ :: _ => true
  | _ :: _, [] => false
  | a :: as, b :: bs => a < b || (a == b && pathLt as bs)

def insertPath (p : List Nat) : List (List Nat) → List (List Nat)
  | [] => [p]
  | q :: qs => if pathLt p q then p :: q :: qs else if p == q then q :: qs else q :: insertPath p qs

/-- `_sort_nodes_in_document_order` on addresses: the trie of index paths emitted in sorted order -/
def sortPaths (ps : List (List Nat)) : List (List Nat) := ps.foldr insertPath []

end Delb.Nav

namespace Delb.Nav
open Delb.Edit

/-- the visible child that sits at a location of the encoding -/
def locNode (data : Chain) (kids : List (El × Chain)) : Loc → Option PTree
  | .inData j => (data[j]?).map (fun t => PTree.text t.id t.s)
  | .elem k => (kids[k]?).map (fun p => abs p.1)
  | .inTail k j => ((tailOf kids k)[j]?).map (fun t => PTree.text t.id t.s)

def textContent : PTree → Str
  | .text _ s => s
  | _ => []

end Delb.Nav

/-!
# `TextWrappingSerializer._wrap_text` (_delb/nodes.py)

```python
while len(text) > width:
    if (index := text.rfind(" ", 0, width + 1)) > -1 or (index := text.find(" ", width)) > 0:
        yield text[:index]
        text = text[index + 1 :]
    else:
        yield text
        return
if text:
    yield text
```
Strings are `List Char`; `rfind`/`find` results are `Option Nat` (`-1` = `none`).
The `while` loop takes a fuel argument; `wrapText` supplies `length + 1`, which the
lemmas show to be sufficient.
-/
namespace Delb.Wrap

/-- `text.rfind(" ", 0, n)`: index of the last space among the first `n` chars -/
def rfindSp : List Char → Nat → Option Nat
  | _, 0 => none
  | [], _ => none
  | c :: cs, n+1 =>
    match rfindSp cs n with
    | some i => some (i+1)
    | none => if c = ' ' then some 0 else none

/-- `text.find(" ", lo)`: index of the first space at position ≥ lo -/
def findSpFrom : List Char → Nat → Option Nat
  | [], _ => none
  | c :: cs, 0 => if c = ' ' then some 0 else (findSpFrom cs 0).map (· + 1)
  | _ :: cs, lo+1 => (findSpFrom cs lo).map (· + 1)

/-- `_wrap_text`, fuel-bounded. Note the second alternative requires `index > 0`. -/
def wrap (w : Nat) : Nat → List Char → List (List Char)
  | 0, _ => []
  | fuel+1, t =>
    if t.length > w then
      match rfindSp t (w+1) with
      | some i => t.take i :: wrap w fuel (t.drop (i+1))
      | none =>
        match findSpFrom t w with
        | some (i+1) => t.take (i+1) :: wrap w fuel (t.drop (i+2))
        | _ => [t]
    else if t = [] then [] else [t]

def wrapText (w : Nat) (t : List Char) : List (List Char) := wrap w (t.length + 1) t

/-- the text lines of an element that holds only the text `t`, at nesting depth `depth`
    (the element's own depth), as the TextWrappingSerializer writes them -/
def textLines (w : Nat) (indent : List Char) (depth : Nat) (t : List Char) : List (List Char) :=
  (wrapText w t).map (fun l => (List.replicate (depth + 1) indent).flatten ++ l)

/-- joining pieces with single spaces -/
def join : List (List Char) → List Char
  | [] => []
  | [l] => l
  | l :: ls => l ++ ' ' :: join ls

/-! ## Independent specification: greedy fill over a word list -/

/-- `cur` is the group of words on the line under construction (non-empty, in order) -/
def groups (w : Nat) : List (List Char) → List (List Char) → List (List (List Char))
  | cur, [] => [cur]
  | cur, wd :: wds =>
    if (join cur).length + 1 + wd.length ≤ w then groups w (cur ++ [wd]) wds
    else cur :: groups w [wd] wds

/-- words grouped into lines: a word joins the current line iff it still fits -/
def greedyGroups (w : Nat) : List (List Char) → List (List (List Char))
  | [] => []
  | wd :: wds => groups w [wd] wds

def greedyFill (w : Nat) (ws : List (List Char)) : List (List Char) :=
  (greedyGroups w ws).map join

/-- a word: non-empty and without a space -/
def IsWord (wd : List Char) : Prop := wd ≠ [] ∧ ' ' ∉ wd

end Delb.Wrap

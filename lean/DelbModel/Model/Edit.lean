import DelbModel.Model.Tree
/-!
# Tree edits: the plain-tree specification and the slot/chain mechanism of `_delb/nodes.py`

## What the code stores (mechanism)

lxml stores character data in two string slots per element (`text`, `tail`).  delb puts
objects on top: every slot that exists is represented by a *head* `TextNode`
(`_position` DATA/TAIL); further text nodes are chained to it through
`_appended_text_node` (`_position` APPENDED, content held by the object).  `El` is that
structure: a slot is the list of its text node objects (`[]` ⇔ lxml's string is `None`);
the children of a tag are its data slot and then its child elements, each paired with its
tail slot.  A parentless element never has a tail (`detach`/`clone` clear it).

Every function of the mechanism side follows the case split of the method it is named
after (DATA / TAIL / APPENDED, tail present or not).  Text contents are assumed non-empty
(`Legal`): with empty strings the code confuses `""` and `None` — that is a recorded finding,
not part of this model.

## Specification

`PTree` is an ordinary ordered tree with node identities; edits are list splices.
`abs` flattens an `El` into a `PTree`.  The C01 theorems say that every mechanism edit
commutes with `abs`.
-/
namespace Delb.Edit

/-! ## specification side -/

inductive PTree where
  | tag (id : Nat) (ns name : String) (attrs : List Attr) (kids : List PTree)
  | text (id : Nat) (s : Str)
  | comment (id : Nat) (s : Str)
  | pi (id : Nat) (target : String) (s : Str)
deriving Repr, Inhabited

namespace PTree
def id : PTree → Nat
  | tag i .. => i | text i _ => i | comment i _ => i | pi i .. => i
def kids : PTree → List PTree
  | tag _ _ _ _ ks => ks | _ => []
def isText : PTree → Bool
  | text .. => true | _ => false
def isTag : PTree → Bool
  | tag .. => true | _ => false
def setKids : PTree → List PTree → PTree
  | tag i ns n a _, ks => tag i ns n a ks
  | t, _ => t
end PTree

inductive EditErr
  | invalidOperation (why : String)
  | indexError
  | valueError
  | typeError
  | badAddress            -- the harness addressed a node that does not exist (tool problem)
deriving Repr, DecidableEq, Inhabited

/-- apply `f` to the node at `path` (child indexes) -/
def modifyAtP (f : PTree → Except EditErr PTree) : PTree → List Nat → Except EditErr PTree
  | t, [] => f t
  | .tag i ns n a ks, k :: p =>
    match ks[k]? with
    | none => .error .badAddress
    | some c =>
      match modifyAtP f c p with
      | .error e => .error e
      | .ok c' => .ok (.tag i ns n a (ks.set k c'))
  | _, _ :: _ => .error .badAddress

def getAtP : PTree → List Nat → Option PTree
  | t, [] => some t
  | .tag _ _ _ _ ks, k :: p => match ks[k]? with
    | some c => getAtP c p
    | none => none
  | _, _ :: _ => none

/-- insert `new` among the children of the node it is applied to, at index `i` -/
def insertKid (i : Nat) (new : PTree) (t : PTree) : Except EditErr PTree :=
  match t with
  | .tag id ns n a ks => if i ≤ ks.length then .ok (.tag id ns n a (ks.take i ++ new :: ks.drop i)) else .error .indexError
  | _ => .error .badAddress

/-- remove the child at index `i`, returning it -/
def removeKid (i : Nat) (t : PTree) : Except EditErr (PTree × PTree) :=
  match t with
  | .tag id ns n a ks =>
    match ks[i]? with
    | some c => .ok (.tag id ns n a (ks.eraseIdx i), c)
    | none => .error .badAddress
  | _ => .error .badAddress

/-- `merge_text_nodes` on a child list: every maximal run of text nodes becomes its first node
    with the concatenated content; (non-empty contents assumed) -/
def mergeRunsP : List PTree → List PTree
  | [] => []
  | .text i s :: rest =>
    match mergeRunsP rest with
    | .text _ t :: rest' => .text i (s ++ t) :: rest'
    | rest' => .text i s :: rest'
  | k :: rest => k :: mergeRunsP rest

mutual
  def mergeP : PTree → PTree
    | .tag i ns n a ks => .tag i ns n a (mergeRunsP (mergeListP ks))
    | t => t
  def mergeListP : List PTree → List PTree
    | [] => []
    | k :: ks => mergeP k :: mergeListP ks
end

/-! ## mechanism side -/

structure TNode where
  id : Nat
  s : Str
deriving Repr, Inhabited, DecidableEq

/-- a slot: the head text node and the nodes appended to it; `[]` = the lxml string is `None` -/
abbrev Chain := List TNode

inductive El where
  | tag (id : Nat) (ns name : String) (attrs : List Attr) (data : Chain) (kids : List (El × Chain))
  | comment (id : Nat) (s : Str)
  | pi (id : Nat) (target : String) (s : Str)
deriving Repr, Inhabited

def absChain (c : Chain) : List PTree := c.map (fun t => PTree.text t.id t.s)

mutual
  /-- what a program sees of an element -/
  def abs : El → PTree
    | .tag i ns n a data kids => .tag i ns n a (absChain data ++ absKids kids)
    | .comment i s => .comment i s
    | .pi i t s => .pi i t s
  def absKids : List (El × Chain) → List PTree
    | [] => []
    | (e, tl) :: rest => abs e :: absChain tl ++ absKids rest
end

/-- where a visible child sits in the encoding -/
inductive Loc
  | inData (j : Nat)              -- j = 0: DATA head, j > 0: APPENDED to it
  | elem (k : Nat)                -- the k-th child element
  | inTail (k j : Nat)            -- in the tail slot of the k-th child element
deriving Repr, DecidableEq

/-- resolve a child index of the visible child list into its location -/
def locate (data : Chain) (kids : List (El × Chain)) (i : Nat) : Option Loc :=
  if i < data.length then some (.inData i)
  else
    let rec go (k : Nat) (i : Nat) : List (El × Chain) → Option Loc
      | [] => none
      | (_, tl) :: rest =>
        if i = 0 then some (.elem k)
        else if i - 1 < tl.length then some (.inTail k (i - 1))
        else go (k + 1) (i - 1 - tl.length) rest
    go 0 (i - data.length) kids

/-- a node offered to an editing method (already passed `_prepare_new_relative`): a detached
    text node or a parentless element -/
inductive Offered
  | text (t : TNode)
  | el (e : El)
deriving Repr, Inhabited

def setTail (kids : List (El × Chain)) (k : Nat) (tl : Chain) : List (El × Chain) :=
  match kids[k]? with
  | some (e, _) => kids.set k (e, tl)
  | none => kids

def tailOf (kids : List (El × Chain)) (k : Nat) : Chain :=
  match kids[k]? with
  | some (_, tl) => tl
  | none => []

def insertElAfter (kids : List (El × Chain)) (k : Nat) (e : El) (tl : Chain) : List (El × Chain) :=
  kids.take (k + 1) ++ (e, tl) :: kids.drop (k + 1)

/-- `_add_following_sibling(node)` called on the child at `loc` of a tag with `data`/`kids` -/
def addFollowing (data : Chain) (kids : List (El × Chain)) (loc : Loc) (new : Offered) :
    Chain × List (El × Chain) :=
  match loc, new with
  -- TextNode._add_following_sibling → _insert_text_node_as_next_appended
  | .inData j, .text t => (data.take (j + 1) ++ t :: data.drop (j + 1), kids)
  | .inTail k j, .text t =>
    let tl := tailOf kids k
    (data, setTail kids k (tl.take (j + 1) ++ t :: tl.drop (j + 1)))
  -- TextNode._add_next_element_wrapping_node, DATA (j = 0) and APPENDED with a DATA head (j > 0):
  -- the element becomes the first child element, the rest of the chain becomes its tail
  | .inData j, .el e => (data.take (j + 1), (e, data.drop (j + 1)) :: kids)
  -- … TAIL (j = 0) and APPENDED with a TAIL head (j > 0)
  | .inTail k j, .el e =>
    let tl := tailOf kids k
    (data, insertElAfter (setTail kids k (tl.take (j + 1))) k e (tl.drop (j + 1)))
  -- _ElementWrappingNode._add_following_sibling, element offered: an existing tail moves to the new node
  | .elem k, .el e => (data, insertElAfter (setTail kids k []) k e (tailOf kids k))
  -- … text offered: it becomes the tail head, an existing tail is appended to it
  | .elem k, .text t => (data, setTail kids k (t :: tailOf kids k))

/-- `_add_preceding_sibling(node)` -/
def addPreceding (data : Chain) (kids : List (El × Chain)) (loc : Loc) (new : Offered) :
    Chain × List (El × Chain) :=
  match loc, new with
  -- TextNode._prepend_text_node: DATA/TAIL: the new node becomes the head; APPENDED: inserted before
  | .inData j, .text t => (data.take j ++ t :: data.drop j, kids)
  | .inTail k j, .text t =>
    let tl := tailOf kids k
    (data, setTail kids k (tl.take j ++ t :: tl.drop j))
  -- TextNode._add_preceding_sibling with an element, DATA: the whole chain becomes the element's tail
  | .inData 0, .el e => ([], (e, data) :: kids)
  -- APPENDED: `self._bound_to._add_following_sibling(node)`
  | .inData (j + 1), .el e => addFollowing data kids (.inData j) (.el e)
  -- TAIL: `_wrapper_cache(self._bound_to)._add_following_sibling(node)`
  | .inTail k 0, .el e => addFollowing data kids (.elem k) (.el e)
  | .inTail k (j + 1), .el e => addFollowing data kids (.inTail k j) (.el e)
  -- _ElementWrappingNode._add_preceding_sibling: `previous = self.fetch_preceding_sibling()`
  | .elem 0, new =>
    match data.length, new with
    | 0, .el e => (data, (e, []) :: kids)           -- addprevious
    | 0, .text t => ([t], kids)                     -- _bind_to_data(parent)
    | n + 1, new => addFollowing data kids (.inData n) new
  | .elem (k + 1), new =>
    match (tailOf kids k).length with
    | 0 => addFollowing data kids (.elem k) new
    | n + 1 => addFollowing data kids (.inTail k n) new

/-- `detach()` of the child at `loc`: the new child encoding and the detached node -/
def detachAt (data : Chain) (kids : List (El × Chain)) (loc : Loc) :
    Option (Chain × List (El × Chain) × Offered) :=
  match loc with
  -- TextNode.detach, DATA: a chained successor becomes the head, otherwise the slot vanishes; APPENDED: unlinked
  | .inData j =>
    match data[j]? with
    | some t => some (data.eraseIdx j, kids, .text t)
    | none => none
  | .inTail k j =>
    match (tailOf kids k)[j]? with
    | some t => some (data, setTail kids k ((tailOf kids k).eraseIdx j), .text t)
    | none => none
  -- _ElementWrappingNode.detach: an existing tail goes to the parent's data slot (index 0), to the
  -- previous element's tail, or is appended to the previous text node; then `remove`
  | .elem k =>
    match kids[k]? with
    | none => none
    | some (e, tl) =>
      match k with
      | 0 => some (data ++ tl, kids.eraseIdx 0, .el e)
      | k' + 1 => some (data, (setTail kids k' (tailOf kids k' ++ tl)).eraseIdx (k' + 1), .el e)

/-- `TextNode.content = s` for the text node at `loc` -/
def setContentAt (data : Chain) (kids : List (El × Chain)) (loc : Loc) (s : Str) :
    Option (Chain × List (El × Chain)) :=
  match loc with
  | .inData j => match data[j]? with
    | some t => some (data.set j { t with s := s }, kids)
    | none => none
  | .inTail k j => match (tailOf kids k)[j]? with
    | some t => some (data, setTail kids k ((tailOf kids k).set j { t with s := s }))
    | none => none
  | .elem _ => none

/-- `TextNode._merge_appended_text_nodes` on a head -/
def mergeChain : Chain → Chain
  | [] => []
  | h :: rest => [{ h with s := h.s ++ (rest.map (·.s)).flatten }]

mutual
  /-- `TagNode.merge_text_nodes` -/
  def mergeEl : El → El
    | .tag i ns n a data kids => .tag i ns n a (mergeChain data) (mergeElKids kids)
    | e => e
  def mergeElKids : List (El × Chain) → List (El × Chain)
    | [] => []
    | (e, tl) :: rest => (mergeEl e, mergeChain tl) :: mergeElKids rest
end

/-! ### applying an edit below a path -/

/-- number of visible children -/
def visLen (data : Chain) (kids : List (El × Chain)) : Nat :=
  data.length + (kids.map (fun p => 1 + p.2.length)).sum

/-- replace the `k`-th child element -/
def setEl (kids : List (El × Chain)) (k : Nat) (e : El) : List (El × Chain) :=
  match kids[k]? with
  | some (_, tl) => kids.set k (e, tl)
  | none => kids

/-- apply `f` to the element reached by `path` (indexes into visible child lists; every step
    must land on a child element) -/
def modifyAtE (f : El → Except EditErr El) : El → List Nat → Except EditErr El
  | e, [] => f e
  | .tag i ns n a data kids, x :: p =>
    match locate data kids x with
    | some (.elem k) =>
      match kids[k]? with
      | none => .error .badAddress
      | some (c, _) =>
        match modifyAtE f c p with
        | .error e => .error e
        | .ok c' => .ok (.tag i ns n a data (setEl kids k c'))
    | _ => .error .badAddress
  | _, _ :: _ => .error .badAddress

/-- the child-level edits, applied to the tag that owns the visible child list -/
inductive ChildOp
  | addFollowing (i : Nat) (new : Offered)
  | addPreceding (i : Nat) (new : Offered)
  | addFirst (new : Offered)              -- `__add_first_child`
  | setContent (i : Nat) (s : Str)

def applyChildOp (op : ChildOp) : El → Except EditErr El
  | .tag id ns n a data kids =>
    match op with
    | .addFollowing i new =>
      match locate data kids i with
      | some loc => let (d, k) := addFollowing data kids loc new; .ok (.tag id ns n a d k)
      | none => .error .badAddress
    | .addPreceding i new =>
      match locate data kids i with
      | some loc => let (d, k) := addPreceding data kids loc new; .ok (.tag id ns n a d k)
      | none => .error .badAddress
    | .addFirst new =>
      if visLen data kids ≠ 0 then .error .badAddress
      else match new with
        | .el e => .ok (.tag id ns n a data [(e, [])])      -- etree append
        | .text t => .ok (.tag id ns n a [t] kids)          -- _bind_to_data
    | .setContent i s =>
      match locate data kids i with
      | some loc =>
        match setContentAt data kids loc s with
        | some (d, k) => .ok (.tag id ns n a d k)
        | none => .error .badAddress
      | none => .error .badAddress
  | _ => .error .badAddress

def detachChild (i : Nat) : El → Except EditErr (El × Offered)
  | .tag id ns n a data kids =>
    match locate data kids i with
    | some loc =>
      match detachAt data kids loc with
      | some (d, k, off) => .ok (.tag id ns n a d k, off)
      | none => .error .badAddress
    | none => .error .badAddress
  | _ => .error .badAddress

/-- the same edits on the plain tree -/
def absOffered : Offered → PTree
  | .text t => .text t.id t.s
  | .el e => abs e

def applyChildOpP (op : ChildOp) (t : PTree) : Except EditErr PTree :=
  match op with
  | .addFollowing i new =>
    if i < t.kids.length then insertKid (i + 1) (absOffered new) t else .error .badAddress
  | .addPreceding i new =>
    if i < t.kids.length then insertKid i (absOffered new) t else .error .badAddress
  | .addFirst new => if t.isTag && t.kids.isEmpty then insertKid 0 (absOffered new) t else .error .badAddress
  | .setContent i s =>
    match t, t.kids[i]? with
    | .tag id ns n a ks, some (.text j _) => .ok (.tag id ns n a (ks.set i (.text j s)))
    | _, _ => .error .badAddress

def detachChildP (i : Nat) (t : PTree) : Except EditErr (PTree × PTree) := removeKid i t

end Delb.Edit

namespace Delb.Edit

/-! ## forests and histories

A state is a list of groups (parentless trees and detached text nodes) with stable indexes;
a group that was moved into another tree leaves `none` behind.  `nextId` numbers new nodes. -/

structure Addr where
  g : Nat
  path : List Nat
deriving Repr, DecidableEq

/-- the node offered to an edit -/
inductive Source
  | newText (s : Str)        -- a string: a fresh TextNode is created
  | group (g : Nat)          -- the root of the parentless group `g` (a detached node the program holds)
deriving Repr

inductive Prim
  | addFollowing (a : Addr) (src : Source)
  | addPreceding (a : Addr) (src : Source)
  | addFirst (a : Addr) (src : Source)
  | detach (a : Addr)
  | setContent (a : Addr) (s : Str)
  | merge (a : Addr)
  | newTag (ns name : String) (attrs : List Attr)
  | newComment (s : Str)
  | newPI (target : String) (s : Str)
  | cloneDeep (a : Addr)
deriving Repr

/-! ### mechanism -/

inductive GroupC
  | el (e : El)
  | text (t : TNode)
deriving Repr, Inhabited

structure StateC where
  groups : List (Option GroupC)
  nextId : Nat
deriving Repr, Inhabited

def splitLast : List Nat → Option (List Nat × Nat)
  | [] => none
  | [x] => some ([], x)
  | x :: xs => match splitLast xs with
    | some (p, l) => some (x :: p, l)
    | none => none

def takeSourceC (s : StateC) (target : Nat) : Source → Except EditErr (StateC × Offered)
  | .newText str => .ok ({ s with nextId := s.nextId + 1 }, .text { id := s.nextId, s := str })
  | .group g =>
    if g = target then .error .badAddress else
    match s.groups[g]? with
    | some (some (.el e)) => .ok ({ s with groups := s.groups.set g none }, .el e)
    | some (some (.text t)) => .ok ({ s with groups := s.groups.set g none }, .text t)
    | _ => .error .badAddress

def modifyGroupC (s : StateC) (g : Nat) (f : El → Except EditErr El) : Except EditErr StateC :=
  match s.groups[g]? with
  | some (some (.el e)) =>
    match f e with
    | .ok e' => .ok { s with groups := s.groups.set g (some (.el e')) }
    | .error err => .error err
  | _ => .error .badAddress

mutual
  /-- fresh identities for a deep clone (pre-order); returns the clone and the next free id -/
  def cloneEl (n : Nat) : El → El × Nat
    | .tag _ ns name a data kids =>
      let (data', n1) := cloneChain (n + 1) data
      let (kids', n2) := cloneKids n1 kids
      (.tag n ns name a data' kids', n2)
    | .comment _ s => (.comment n s, n + 1)
    | .pi _ t s => (.pi n t s, n + 1)
  def cloneKids (n : Nat) : List (El × Chain) → List (El × Chain) × Nat
    | [] => ([], n)
    | (e, tl) :: rest =>
      let (e', n1) := cloneEl n e
      let (tl', n2) := cloneChain n1 tl
      let (rest', n3) := cloneKids n2 rest
      ((e', tl') :: rest', n3)
  def cloneChain (n : Nat) : Chain → Chain × Nat
    | [] => ([], n)
    | t :: rest =>
      let (rest', n') := cloneChain (n + 1) rest
      ({ id := n, s := t.s } :: rest', n')
end

/-- the element or text node at `path` below `e` (for cloning) -/
def getAtE : El → List Nat → Option Offered
  | e, [] => some (.el e)
  | .tag _ _ _ _ data kids, x :: p =>
    match locate data kids x with
    | some (.elem k) => match kids[k]? with
      | some (c, _) => getAtE c p
      | none => none
    | some (.inData j) => if p.isEmpty then (data[j]?).map Offered.text else none
    | some (.inTail k j) => if p.isEmpty then ((tailOf kids k)[j]?).map Offered.text else none
    | none => none
  | _, _ :: _ => none

def stepC (s : StateC) : Prim → Except EditErr StateC
  | .addFollowing a src =>
    match splitLast a.path with
    | none => .error (.invalidOperation "root takes no siblings")
    | some (p, i) =>
      match takeSourceC s a.g src with
      | .error e => .error e
      | .ok (s', off) => modifyGroupC s' a.g (fun e => modifyAtE (applyChildOp (.addFollowing i off)) e p)
  | .addPreceding a src =>
    match splitLast a.path with
    | none => .error (.invalidOperation "root takes no siblings")
    | some (p, i) =>
      match takeSourceC s a.g src with
      | .error e => .error e
      | .ok (s', off) => modifyGroupC s' a.g (fun e => modifyAtE (applyChildOp (.addPreceding i off)) e p)
  | .addFirst a src =>
    match takeSourceC s a.g src with
    | .error e => .error e
    | .ok (s', off) => modifyGroupC s' a.g (fun e => modifyAtE (applyChildOp (.addFirst off)) e a.path)
  | .detach a =>
    match splitLast a.path with
    | none => .ok s      -- detaching a parentless node returns it unchanged
    | some (p, i) =>
      match s.groups[a.g]? with
      | some (some (.el e)) =>
        -- run the detach below `p`, remembering what came off
        match getAtE e a.path with
        | none => .error .badAddress
        | some off =>
          match modifyAtE (fun parent => (detachChild i parent).map (·.1)) e p with
          | .error err => .error err
          | .ok e' =>
            let grp := match off with | .el x => GroupC.el x | .text t => GroupC.text t
            .ok { s with groups := (s.groups.set a.g (some (.el e'))) ++ [some grp] }
      | _ => .error .badAddress
  | .setContent a str =>
    match splitLast a.path with
    | none =>
      match s.groups[a.g]? with
      | some (some (.text t)) => .ok { s with groups := s.groups.set a.g (some (.text { t with s := str })) }
      | _ => .error .badAddress
    | some (p, i) => modifyGroupC s a.g (fun e => modifyAtE (applyChildOp (.setContent i str)) e p)
  -- `merge_text_nodes` exists on tag nodes only: addressing a comment / PI is an address error
  | .merge a => modifyGroupC s a.g (fun e => modifyAtE
      (fun x => match x with | .tag .. => .ok (mergeEl x) | _ => .error .badAddress) e a.path)
  | .newTag ns name attrs =>
    .ok { groups := s.groups ++ [some (.el (.tag s.nextId ns name attrs [] []))], nextId := s.nextId + 1 }
  | .newComment str => .ok { groups := s.groups ++ [some (.el (.comment s.nextId str))], nextId := s.nextId + 1 }
  | .newPI t str => .ok { groups := s.groups ++ [some (.el (.pi s.nextId t str))], nextId := s.nextId + 1 }
  | .cloneDeep a =>
    match s.groups[a.g]? with
    | some (some (.el e)) =>
      match getAtE e a.path with
      | some (.el x) => let (c, n) := cloneEl s.nextId x; .ok { groups := s.groups ++ [some (.el c)], nextId := n }
      | some (.text t) => .ok { groups := s.groups ++ [some (.text { id := s.nextId, s := t.s })], nextId := s.nextId + 1 }
      | none => .error .badAddress
    | some (some (.text t)) =>
      if a.path.isEmpty then .ok { groups := s.groups ++ [some (.text { id := s.nextId, s := t.s })], nextId := s.nextId + 1 }
      else .error .badAddress
    | _ => .error .badAddress

/-! ### specification -/

structure StateA where
  groups : List (Option PTree)
  nextId : Nat
deriving Repr, Inhabited

def takeSourceA (s : StateA) (target : Nat) : Source → Except EditErr (StateA × PTree)
  | .newText str => .ok ({ s with nextId := s.nextId + 1 }, .text s.nextId str)
  | .group g =>
    if g = target then .error .badAddress else
    match s.groups[g]? with
    | some (some t) => .ok ({ s with groups := s.groups.set g none }, t)
    | _ => .error .badAddress

def modifyGroupA (s : StateA) (g : Nat) (f : PTree → Except EditErr PTree) : Except EditErr StateA :=
  match s.groups[g]? with
  | some (some (.tag i ns n a ks)) =>
    match f (.tag i ns n a ks) with
    | .ok t' => .ok { s with groups := s.groups.set g (some t') }
    | .error err => .error err
  | _ => .error .badAddress

mutual
  def cloneP (n : Nat) : PTree → PTree × Nat
    | .tag _ ns name a ks => let (ks', n') := cloneListP (n + 1) ks; (.tag n ns name a ks', n')
    | .text _ s => (.text n s, n + 1)
    | .comment _ s => (.comment n s, n + 1)
    | .pi _ t s => (.pi n t s, n + 1)
  def cloneListP (n : Nat) : List PTree → List PTree × Nat
    | [] => ([], n)
    | k :: ks => let (k', n1) := cloneP n k; let (ks', n2) := cloneListP n1 ks; (k' :: ks', n2)
end

def insertAtP (t : PTree) (p : List Nat) (i : Nat) (new : PTree) : Except EditErr PTree :=
  modifyAtP (fun parent => if i ≤ parent.kids.length ∧ parent.isTag then insertKid i new parent else .error .badAddress) t p

def stepA (s : StateA) : Prim → Except EditErr StateA
  | .addFollowing a src =>
    match splitLast a.path with
    | none => .error (.invalidOperation "root takes no siblings")
    | some (p, i) =>
      match takeSourceA s a.g src with
      | .error e => .error e
      | .ok (s', new) => modifyGroupA s' a.g (fun t => modifyAtP
          (fun parent => if i < parent.kids.length then insertKid (i + 1) new parent else .error .badAddress) t p)
  | .addPreceding a src =>
    match splitLast a.path with
    | none => .error (.invalidOperation "root takes no siblings")
    | some (p, i) =>
      match takeSourceA s a.g src with
      | .error e => .error e
      | .ok (s', new) => modifyGroupA s' a.g (fun t => modifyAtP
          (fun parent => if i < parent.kids.length then insertKid i new parent else .error .badAddress) t p)
  | .addFirst a src =>
    match takeSourceA s a.g src with
    | .error e => .error e
    | .ok (s', new) => modifyGroupA s' a.g (fun t => modifyAtP
        (fun parent => if parent.isTag && parent.kids.isEmpty then insertKid 0 new parent else .error .badAddress) t a.path)
  | .detach a =>
    match splitLast a.path with
    | none => .ok s
    | some (p, i) =>
      match s.groups[a.g]? with
      | some (some t) =>
        match getAtP t a.path with
        | none => .error .badAddress
        | some off =>
          match modifyAtP (fun parent => (removeKid i parent).map (·.1)) t p with
          | .error err => .error err
          | .ok t' => if t.isTag then .ok { s with groups := (s.groups.set a.g (some t')) ++ [some off] } else .error .badAddress
      | _ => .error .badAddress
  | .setContent a str =>
    match splitLast a.path with
    | none =>
      match s.groups[a.g]? with
      | some (some (.text i _)) => .ok { s with groups := s.groups.set a.g (some (.text i str)) }
      | _ => .error .badAddress
    | some (p, i) => modifyGroupA s a.g (fun t => modifyAtP (applyChildOpP (.setContent i str)) t p)
  | .merge a => modifyGroupA s a.g (fun t => modifyAtP (fun x => if x.isTag then .ok (mergeP x) else .error .badAddress) t a.path)
  | .newTag ns name attrs => .ok { groups := s.groups ++ [some (.tag s.nextId ns name attrs [])], nextId := s.nextId + 1 }
  | .newComment str => .ok { groups := s.groups ++ [some (.comment s.nextId str)], nextId := s.nextId + 1 }
  | .newPI t str => .ok { groups := s.groups ++ [some (.pi s.nextId t str)], nextId := s.nextId + 1 }
  | .cloneDeep a =>
    match s.groups[a.g]? with
    | some (some t) =>
      match getAtP t a.path with
      | some x => let (c, n) := cloneP s.nextId x; .ok { groups := s.groups ++ [some c], nextId := n }
      | none => .error .badAddress
    | _ => .error .badAddress

def absGroup : GroupC → PTree
  | .el e => abs e
  | .text t => .text t.id t.s

def absState (s : StateC) : StateA :=
  { groups := s.groups.map (Option.map absGroup), nextId := s.nextId }

def runC (s : StateC) : List Prim → Except EditErr StateC
  | [] => .ok s
  | p :: ps => match stepC s p with
    | .ok s' => runC s' ps
    | .error e => .error e

def runA (s : StateA) : List Prim → Except EditErr StateA
  | [] => .ok s
  | p :: ps => match stepA s p with
    | .ok s' => runA s' ps
    | .error e => .error e

end Delb.Edit

import DelbModel.Model.Edit
/-!
# Clones (`TagNode.clone`, `_ElementWrappingNode.clone`, `TextNode.clone`, `Document.clone`,
`tag_node_loader`, `_copy_root_siblings`)

The deep clone itself is `Edit.cloneEl` (mechanism) / `Edit.cloneP` (specification), related by
`c01_clone`.  This file adds the vocabulary of the C10 theorems: trees without identities,
the identities occurring in a tree, the groups an edit touches, and the stack algorithm that
copies the comments / processing instructions around a document's root.
-/
namespace Delb.Clone
open Delb.Edit

mutual
  /-- forget the node identities -/
  def strip : PTree → Node
    | .tag _ ns n a ks => .tag ns n a (stripList ks)
    | .text _ s => .text s
    | .comment _ s => .comment s
    | .pi _ t s => .pi t s
  def stripList : List PTree → List Node
    | [] => []
    | k :: ks => strip k :: stripList ks
end

mutual
  def idsOf : PTree → List Nat
    | .tag i _ _ _ ks => i :: idsOfList ks
    | .text i _ => [i]
    | .comment i _ => [i]
    | .pi i _ _ => [i]
  def idsOfList : List PTree → List Nat
    | [] => []
    | k :: ks => idsOf k ++ idsOfList ks
end

/-- `clone(deep=False)` of a tag node: same name and attributes, no children -/
def shallowP (n : Nat) : PTree → PTree
  | .tag _ ns name a _ => .tag n ns name a []
  | .text _ s => .text n s
  | .comment _ s => .comment n s
  | .pi _ t s => .pi n t s

def sourceGroups : Source → List Nat
  | .newText _ => []
  | .group g => [g]

/-- the groups an edit reads or writes (new groups are appended behind all existing ones) -/
def touched : Prim → List Nat
  | .addFollowing a src => a.g :: sourceGroups src
  | .addPreceding a src => a.g :: sourceGroups src
  | .addFirst a src => a.g :: sourceGroups src
  | .detach a => [a.g]
  | .setContent a _ => [a.g]
  | .merge a => [a.g]
  | .newTag .. => []
  | .newComment _ => []
  | .newPI .. => []
  | .cloneDeep _ => []          -- reads `a.g`, changes no existing group

/-! ## `_copy_root_siblings`

```python
stack = []; cur = source.getprevious()
while cur is not None: stack.append(cur); cur = cur.getprevious()
while stack: target.addprevious(copy(stack.pop()))
… and the same with getnext()/addnext()
```
A document is modelled as `(prologue, root, epilogue)` with both lists in document order. -/

/-- a Python list used as a stack: `append` pushes, `pop()` takes the top; the head of the Lean list is the top -/
def pushAll (nearestFirst : List PTree) : List PTree := nearestFirst.foldl (fun st x => x :: st) []

/-- `while stack: target.addprevious(copy(stack.pop()))`: every popped node goes directly before the
    target, i.e. to the end of the prologue built so far -/
def popAddPrevious : List PTree → List PTree → List PTree
  | [], acc => acc
  | x :: st, acc => popAddPrevious st (acc ++ [x])

/-- `while stack: target.addnext(copy(stack.pop()))`: every popped node goes directly after the target,
    i.e. to the front of the epilogue built so far -/
def popAddNext : List PTree → List PTree → List PTree
  | [], acc => acc
  | x :: st, acc => popAddNext st (x :: acc)

/-- prologue and epilogue of the copy; the walks with `getprevious()` / `getnext()` meet the siblings
    nearest first -/
def copyRootSiblings (prologue epilogue : List PTree) : List PTree × List PTree :=
  (popAddPrevious (pushAll prologue.reverse) [], popAddNext (pushAll epilogue) [])

/-! ## `Document.clone`

`Document.clone` is `Document(self.root)`; the `tag_node_loader` makes a deep clone of the root
(`data.clone(deep=True)`) and then `_copy_root_siblings(data, root)` — where every sibling that is
popped from the stack is *copied* (`copy(stack.pop())`), i.e. gets fresh identities as well.  The
identities are handed out in the order the copies are made: root first, then the prologue from
the farthest sibling to the nearest (document order), then the epilogue from the farthest sibling
to the nearest (reverse document order). -/

/-- a document whose nodes carry identities -/
structure PDoc where
  prologue : List PTree
  root : PTree
  epilogue : List PTree
deriving Repr

/-- the identities of a document, in document order -/
def idsOfDoc (d : PDoc) : List Nat := idsOfList d.prologue ++ idsOf d.root ++ idsOfList d.epilogue

/-- `while stack: target.addprevious(copy(stack.pop()))` with the fresh-identity counter -/
def popCopyAddPrevious (n : Nat) : List PTree → List PTree → List PTree × Nat
  | [], acc => (acc, n)
  | x :: st, acc => popCopyAddPrevious (cloneP n x).2 st (acc ++ [(cloneP n x).1])

/-- `while stack: target.addnext(copy(stack.pop()))` with the fresh-identity counter -/
def popCopyAddNext (n : Nat) : List PTree → List PTree → List PTree × Nat
  | [], acc => (acc, n)
  | x :: st, acc => popCopyAddNext (cloneP n x).2 st ((cloneP n x).1 :: acc)

/-- `Document.clone`: deep clone of the root, then `_copy_root_siblings`; returns the clone and
    the next free identity -/
def cloneDocument (n : Nat) (d : PDoc) : PDoc × Nat :=
  let r := cloneP n d.root
  let p := popCopyAddPrevious r.2 (pushAll d.prologue.reverse) []
  let e := popCopyAddNext p.2 (pushAll d.epilogue) []
  ({ prologue := p.1, root := r.1, epilogue := e.1 }, e.2)

end Delb.Clone

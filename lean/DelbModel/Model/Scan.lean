import DelbModel.Model.Serialize
/-!
# A scanner for the syntax the plain serializer emits (string → markup tokens)

`Serialize.lean` ends at `render : List Tok → Str`; its reading side `build` starts from tokens.
`scan` is the missing step: an XML scanner for start tags `<qname( name="value")*>` / `…/>`,
end tags `</qname>`, comments `<!--…-->`, processing instructions `<?target content?>` and
character data.  It follows XML 1.0 where the serializer's syntax touches it:

* every character has to match the `Char` production (§2.2); line ends are normalised on
  input (`\r\n` and `\r` become `\n`, §2.11) before anything else happens;
* a comment is `((Char - '-') | ('-' (Char - '-')))*` (§2.5): no `--` inside, no `-` at the end;
* a PI target is a name other than `xml` in any capitalisation, the white space after it is not
  part of the content, the content ends at the first `?>` (§2.6);
* attribute values are delimited by `"`, contain no `<`, and literal tab / line feed are
  normalised to a space (§3.3.3); attribute names are unique within a tag (§3.1);
* `&` has to start one of the five predefined entity references (the only references the
  escape tables produce; `unescape` alone would let a stray `&` pass, hence `refsOk`);
* character data does not contain `]]>` (§2.4).

Not modelled (the serializer never writes them): `'`-delimited values, white space around `=`,
numeric character references, CDATA sections, DOCTYPE, the XML declaration.  Names are checked
against the delimiters only (`nameChar`), not against the `NameStartChar` / `NameChar` classes.

Nesting is `build`'s business: `scan` returns a token stream, `(scan s).bind build` a tree.
All functions are total: structural recursion, or fuel bounded by the input length.
-/
namespace Delb.Ser

deriving instance DecidableEq for Tok

/-! ## character classes -/

/-- XML's `S` -/
def isWs (c : Char) : Bool := c == ' ' || c == '\t' || c == '\n' || c == '\r'

/-- XML's `Char` production (surrogates are no Lean `Char`s anyway) -/
def xmlChar (c : Char) : Bool :=
  c == '\t' || c == '\n' || c == '\r' || (32 ≤ c.toNat && c.toNat != 0xFFFE && c.toNat != 0xFFFF)

/-- a character that reaches the scanner unchanged: a `Char` other than carriage return -/
def docChar (c : Char) : Bool := xmlChar c && c != '\r'

/-- what may occur in a name: no markup delimiter, no white space -/
def nameChar (c : Char) : Bool :=
  xmlChar c && !(c == '<' || c == '>' || c == '/' || c == '=' || c == '"' || c == '\'' ||
    c == '&' || c == '!' || c == '?' || isWs c)

/-! ## line ends (XML 1.0 §2.11), applied to the whole input -/

def normEol (prevCR : Bool) : Str → Str
  | [] => []
  | c :: cs =>
    if c = '\r' then '\n' :: normEol true cs
    else if c = '\n' && prevCR then normEol false cs
    else c :: normEol false cs

/-! ## pieces -/

/-- the longest prefix of name characters, and what follows -/
def takeName : Str → Str × Str
  | [] => ([], [])
  | c :: cs => if nameChar c then (c :: (takeName cs).1, (takeName cs).2) else ([], c :: cs)

def skipWs : Str → Str
  | [] => []
  | c :: cs => if isWs c then skipWs cs else c :: cs

/-- up to the first `d` (which is consumed) -/
def takeUntil (d : Char) : Str → Option (Str × Str)
  | [] => none
  | c :: cs =>
    if c = d then some ([], cs)
    else match takeUntil d cs with
      | some (a, b) => some (c :: a, b)
      | none => none

/-- character data: up to the next `<` or the end of the input -/
def takeText : Str → Str × Str
  | [] => ([], [])
  | c :: cs => if c = '<' then ([], c :: cs) else (c :: (takeText cs).1, (takeText cs).2)

/-- every `&` starts one of the five predefined entity references -/
def refsOk : Str → Bool
  | [] => true
  | c :: cs => (c != '&' || (matchEntity (c :: cs) entities).isSome) && refsOk cs

/-- does `]]>` occur? -/
def hasCDEnd : Str → Bool
  | [] => false
  | c :: cs => (c == ']' && cs.head? == some ']' && cs.tail.head? == some '>') || hasCDEnd cs

/-- attribute-value normalisation of literal white space (line ends are `\n` already) -/
def normAttr (s : Str) : Str := s.map (fun c => if isWs c then ' ' else c)

/-! ## comments: `((Char - '-') | ('-' (Char - '-')))* '-->'` -/

/-- input after `<!--`; returns content and rest -/
def scanComment : Str → Option (Str × Str)
  | [] => none
  | c :: cs =>
    if c = '-' then
      match cs with
      | [] => none
      | d :: ds =>
        if d = '-' then
          match ds with
          | e :: r => if e = '>' then some ([], r) else none
          | [] => none
        else match scanComment ds with
          | some (a, b) => some (c :: d :: a, b)
          | none => none
    else match scanComment cs with
      | some (a, b) => some (c :: a, b)
      | none => none

/-! ## processing instructions -/

/-- up to the first `?>` (which is consumed) -/
def splitPI : Str → Option (Str × Str)
  | [] => none
  | c :: cs =>
    if c = '?' && cs.head? = some '>' then some ([], cs.tail)
    else match splitPI cs with
      | some (a, b) => some (c :: a, b)
      | none => none

/-- `xml` in any capitalisation is reserved -/
def isXmlTarget : Str → Bool
  | [a, b, c] => (a == 'x' || a == 'X') && (b == 'm' || b == 'M') && (c == 'l' || c == 'L')
  | _ => false

/-- input after `<?` -/
def scanPI (s : Str) : Option (Tok × Str) :=
  let t := (takeName s).1
  if t.isEmpty || isXmlTarget t then none else
  match (takeName s).2 with
  | [] => none
  | c :: r =>
    if isWs c then
      match splitPI (skipWs r) with
      | some (body, rest) => some (.pi (String.ofList t) body, rest)
      | none => none
    else if c = '?' then
      match r with
      | d :: rest => if d = '>' then some (.pi (String.ofList t) [], rest) else none
      | [] => none
    else none

/-! ## tags -/

def distinct : List Str → Bool
  | [] => true
  | x :: xs => !xs.contains x && distinct xs

/-- input after the element name or after an attribute; returns the attributes (written name,
    *unescaped* value), whether the tag closes itself, and the rest -/
def scanAttrs : Nat → Str → Option (List (Str × Str) × Bool × Str)
  | 0, _ => none
  | fuel+1, s =>
    match skipWs s with
    | [] => none
    | c :: r =>
      if c = '>' then some ([], false, r)
      else if c = '/' then
        match r with
        | d :: r' => if d = '>' then some ([], true, r') else none
        | [] => none
      else
        -- an attribute; white space has to separate it from what precedes it
        if !(s.head?.any isWs) then none else
        let k := (takeName (c :: r)).1
        match (takeName (c :: r)).2 with
        | e :: q :: r2 =>
          if k.isEmpty || e != '=' || q != '"' then none else
          match takeUntil '"' r2 with
          | none => none
          | some (raw, r3) =>
            if raw.contains '<' || !refsOk raw then none else
            match scanAttrs fuel r3 with
            | some (as, sc, rest) => some ((k, unescape (normAttr raw)) :: as, sc, rest)
            | none => none
        | _ => none

/-- input after `<` -/
def scanSTag (s : Str) : Option (Tok × Str) :=
  let qn := (takeName s).1
  if qn.isEmpty then none else
  match scanAttrs (s.length + 1) (takeName s).2 with
  | some (as, sc, rest) => if distinct (as.map (·.1)) then some (.stag qn as sc, rest) else none
  | none => none

/-- input after `</` -/
def scanETag (s : Str) : Option (Tok × Str) :=
  let qn := (takeName s).1
  if qn.isEmpty then none else
  match skipWs (takeName s).2 with
  | c :: r => if c = '>' then some (.etag qn, r) else none
  | [] => none

/-- input after `<` -/
def scanMarkup : Str → Option (Tok × Str)
  | [] => none
  | c :: r =>
    if c = '!' then
      match r with
      | d :: e :: r' =>
        if d = '-' && e = '-' then
          match scanComment r' with
          | some (s, rest) => some (.comment s, rest)
          | none => none
        else none
      | _ => none
    else if c = '?' then scanPI r
    else if c = '/' then scanETag r
    else scanSTag (c :: r)

/-- input starts with something else than `<` -/
def scanText (s : Str) : Option (Tok × Str) :=
  let raw := (takeText s).1
  if refsOk raw && !hasCDEnd raw then some (.chars (unescape raw), (takeText s).2) else none

def scanTok : Str → Option (Tok × Str)
  | [] => none
  | c :: cs => if c = '<' then scanMarkup cs else scanText (c :: cs)

def scanToks : Nat → Str → Option (List Tok)
  | _, [] => some []
  | 0, _ :: _ => none
  | fuel+1, c :: cs =>
    match scanTok (c :: cs) with
    | some (t, rest) =>
      match scanToks fuel rest with
      | some ts => some (t :: ts)
      | none => none
    | none => none

/-- the scanner: `none` = not well-formed -/
def scan (s : Str) : Option (List Tok) :=
  if s.all xmlChar then scanToks (s.length + 1) (normEol false s) else none

/-! ## well-formedness of tokens: what `render` needs to produce such input -/

def nameOk (n : Str) : Bool := !n.isEmpty && n.all nameChar

/-- attribute values: no carriage return (line-end normalisation), no tab / line feed
    (attribute-value normalisation); everything else is taken care of by escaping -/
def valueOk (v : Str) : Bool := v.all (fun c => docChar c && !isWs c || c == ' ')

/-- character data: no carriage return -/
def textOk (s : Str) : Bool := s.all docChar

/-- the comment grammar -/
def commentBody : Str → Bool
  | [] => true
  | c :: cs =>
    if c = '-' then
      match cs with
      | [] => false
      | d :: ds => d != '-' && commentBody ds
    else commentBody cs

/-- does `?>` occur? -/
def hasPIEnd : Str → Bool
  | [] => false
  | c :: cs => (c == '?' && cs.head? == some '>') || hasPIEnd cs

def tokOk : Tok → Bool
  | .stag qn attrs _ =>
    nameOk qn && attrs.all (fun kv => nameOk kv.1 && valueOk kv.2) && distinct (attrs.map (·.1))
  | .etag qn => nameOk qn
  | .chars s => textOk s
  | .comment s => textOk s && commentBody s
  | .pi t s =>
    nameOk t.toList && !isXmlTarget t.toList && textOk s && !hasPIEnd s && !(s.head?.any isWs)

/-- token lists `render` writes as well-formed markup that scans back -/
def ToksOk (ts : List Tok) : Prop := ts.all tokOk = true

instance (ts : List Tok) : Decidable (ToksOk ts) := by unfold ToksOk; infer_instance

/-- adjacent character data is one run of character data in the string, empty character data
    is nothing -/
def mergeChars : List Tok → List Tok
  | [] => []
  | .chars s :: rest =>
    match mergeChars rest with
    | .chars t :: rest' => .chars (s ++ t) :: rest'
    | rest' => if s = [] then rest' else .chars s :: rest'
  | t :: rest => t :: mergeChars rest

/-! ## vocabulary of the C02 scan theorems: trees and prefix maps that can be written

What lxml / delb check when such nodes are made (names, comment and PI content), plus what they do
not check but XML does not preserve: carriage returns anywhere, tab / line feed in attribute
values and namespace names, white space at the start of a PI's content. -/

mutual
  def NamesOk : Node → Prop
    | .tag ns name attrs kids =>
      nameOk name.toList = true ∧ valueOk ns.toList = true ∧
      (∀ a ∈ attrs, nameOk a.name.toList = true ∧ valueOk a.ns.toList = true ∧ valueOk a.value = true) ∧
      NamesOkList kids
    | .text s => textOk s = true
    | .comment s => tokOk (.comment s) = true
    | .pi t s => tokOk (.pi t s) = true
  def NamesOkList : List Node → Prop
    | [] => True
    | k :: ks => NamesOk k ∧ NamesOkList ks
end

/-- a prefix map whose namespaces can be written as attribute values and whose prefixes consist
    of name characters -/
def MapNamesOk (m : Dict) : Prop :=
  ∀ e ∈ m, valueOk e.1.toList = true ∧ ∀ c ∈ e.2.toList, nameChar c = true

/-- a caller mapping whose prefixes consist of name characters -/
def NsMapNamesOk (nsmap : Dict) : Prop :=
  ∀ e ∈ nsmap, ∀ c ∈ e.1.toList, nameChar c = true

end Delb.Ser

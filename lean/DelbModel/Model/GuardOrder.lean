import DelbModel.Generated.GuardSkeleton
/-!
# Checks before changes: the event machine behind "rejected edits change nothing" (C09)

`Generated/GuardSkeleton.lean` lists, for every editing entry point of /repo's current source, the
control-flow paths of its body as sequences of events: `guard` (a `raise` or a checking helper - the
call may be rejected here), `mutate` (a tree changes), `call f` (another entry point, which checks
and then mutates), `queued f` (entry point called for the further nodes of a multi-node call).

A run of a path executes its events in order; it is *rejected* at position `i` when the guard at
`i` fires, and what it has changed until then are the `mutate`/`call` events before `i`.
`shapeOk` is the discipline the code follows: once something has changed, no own guard comes any
more, and a further entry point is only called when it is on the list `allowed` of calls whose
checks cannot fire at that place.
-/
namespace Delb.GuardOrder
open Delb.Gen

def changes : GuardEv → Bool
  | .mutate _ => true
  | .call _ => true
  | _ => false

/-- the events of a single-node call -/
def single (p : List GuardEv) : List GuardEv :=
  p.filter (fun e => match e with | .queued _ => false | _ => true)

/-- may follow a change: further changes, and calls of entry points on the allow-list -/
def laterOk (allowed : List String) : GuardEv → Bool
  | .guard _ => false
  | .call c => allowed.contains c
  | _ => true

/-- guards first: after the first change nothing can reject any more -/
def shapeOk (allowed : List String) : List GuardEv → Bool
  | [] => true
  | e :: rest => if changes e then rest.all (laterOk allowed) else shapeOk allowed rest

/-- what a run that is rejected at position `i` has changed before -/
def changedBefore (p : List GuardEv) (i : Nat) : List GuardEv := (p.take i).filter changes

/-- calls whose own checks cannot fire where they are made (each with its reason):
    * `replace_with` → `detach`: the entry guard established `self.parent is not None`, so the node is
      no document root, and `retain_child_nodes` is false - neither guard of `TagNode.detach` applies;
    * `TagNode.detach` → `detach` of the child nodes: they have a parent, the same argument;
    * `TagNode.detach` → `insert_children(index, *child_nodes)` / `append_children(*child_nodes)`: the
      index is the node's former position (0 ≤ index ≤ the parent's length) and the offered nodes were
      detached a moment ago, so neither the bounds check nor `_prepare_new_relative` rejects.
    That these calls indeed never raise is part of the C01 correspondence (legal histories with
    `detach(retain_child_nodes=True)` and `replace_with`). -/
def allowedLater : String → List String
  | "NodeBase.replace_with" => ["detach"]
  | "TagNode.detach" => ["detach", "insert_children", "append_children"]
  | _ => []

end Delb.GuardOrder

import DelbModel.Model.Wrapping
import DelbModel.Lemmas.PrettyTransparent
import DelbModel.Lemmas.WrapTransparent.Hoare
import DelbModel.Lemmas.WrapTransparent.Machine
import DelbModel.Lemmas.WrapTransparent.Layout
import DelbModel.Lemmas.WrapTransparent.Gap
import DelbModel.Lemmas.WrapTransparent.LayRel
import DelbModel.Lemmas.WrapTransparent.Pieces
import DelbModel.Lemmas.WrapTransparent.Paths
import DelbModel.Lemmas.WrapTransparent.Plain
import DelbModel.Lemmas.WrapTransparent.Skeleton
import DelbModel.Lemmas.WrapTransparent.MachineSpec
import DelbModel.Lemmas.WrapTransparent.Text
import DelbModel.Lemmas.WrapTransparent.Main
/-!
# Helper lemmas for Props/C03Wrap.lean

* `Hoare.lean`       — `Post x Q`: a partial-correctness calculus for `Except Err`
* `Machine.lean`     — the serializer's methods with their join points named (all equations `rfl`)
* `Layout.lean`      — every layout piece written is whitespace (`wrapRoot_layout`)
* `Gap.lean`         — `GapOK t w first last`: the character data `w` written in place of the text `t`
                       reduces to `t`; `collapse` and appending
* `LayRel.lean`      — structural half: `Lay t u` (laid-out trees) and `wlay_reduce`
* `Pieces.lean`      — what `write` appends (gap pieces / markup pieces), offsets
* `Paths.lean`       — navigation by paths in terms of the parent's child list
* `Plain.lean`       — sub-trees written by the space-preserving and the line-fitting serializer
* `Skeleton.lean`    — the serializer's state between two nodes; `TextSpec`
* `MachineSpec.lean` — machine half: every method writes the plain emission of a laid-out tree
                       (`machine_spec`, `wrapRoot_lay`), given `TextSpec`
* `Text.lean`        — `_serialize_text` (`textSpec`), incl. `_wrap_text` on escaped text and the
                       swallowed trailing space (needs an indentation without newline)
* `Main.lean`        — `wrapped_transparent`
-/
namespace Delb.Wrapping

end Delb.Wrapping

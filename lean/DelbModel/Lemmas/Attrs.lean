import DelbModel.Model.Attrs
/-!
# Helper lemmas for C11 (attribute mapping)

`keyOf` / `unkey` translate between canonical qualified names and Clark keys of the store;
`etreeKey c q = keyOf (canon c q)` and `absStore` is `unkey` on keys.  The store operations
`sget` / `sset` / `sdel` are the dictionary operations through `unkey` as long as no key is `some ""`.
-/
namespace Delb.Attrs

/-! ## keys -/

/-- the Clark key of a canonical qualified name -/
def keyOf (q : QName) : Key := if q.1 = "" then (none, q.2) else (some q.1, q.2)

/-- the qualified name a Clark key denotes in the specification dictionary -/
def unkey (k : Key) : QName :=
  match k with
  | (some ns, n) => (ns, n)
  | (Option.none, n) => ("", n)

theorem etreeKey_eq (c : Ctx) (q : QName) : etreeKey c q = keyOf (canon c q) := by
  obtain ⟨ns, n⟩ := q
  unfold etreeKey canon keyOf
  by_cases h1 : ns = c.defaultNs
  · subst h1; simp
  · by_cases h2 : ns = ""
    · subst h2; simp
    · have h3 : ¬ c.defaultNs = ns := fun e => h1 e.symm
      simp [h1, h2, h3]

theorem unkey_keyOf (q : QName) : unkey (keyOf q) = q := by
  obtain ⟨ns, n⟩ := q
  unfold keyOf
  by_cases h : ns = ""
  · subst h; simp [unkey]
  · simp [h, unkey]

theorem keyOf_unkey {k : Key} (h : k.1 ≠ some "") : keyOf (unkey k) = k := by
  obtain ⟨o, n⟩ := k
  cases o with
  | none => simp [unkey, keyOf]
  | some ns =>
    have : ns ≠ "" := fun e => h (by simp [e])
    simp [unkey, keyOf, this]

theorem unkey_eq_iff {k k' : Key} (h : k.1 ≠ some "") (h' : k'.1 ≠ some "") :
    unkey k = unkey k' ↔ k = k' := by
  constructor
  · intro e
    have := congrArg keyOf e
    rwa [keyOf_unkey h, keyOf_unkey h'] at this
  · intro e; rw [e]

theorem keyOf_fst_ne (q : QName) : (keyOf q).1 ≠ some "" := by
  obtain ⟨ns, n⟩ := q
  unfold keyOf
  by_cases h : ns = ""
  · subst h; simp
  · simp [h]

theorem etreeKey_fst_ne (c : Ctx) (q : QName) : (etreeKey c q).1 ≠ some "" := by
  rw [etreeKey_eq]; exact keyOf_fst_ne _

theorem etreeKey_adm (c : Ctx) (q : QName) (ns : String) (h : (etreeKey c q).1 = some ns) :
    ns ≠ "" ∧ ns ≠ c.defaultNs := by
  unfold etreeKey at h
  by_cases h1 : (q.1 != "" && c.defaultNs != q.1) = true
  · rw [if_pos h1] at h
    simp at h h1
    subst h
    exact ⟨h1.1, fun e => h1.2 e.symm⟩
  · rw [if_neg h1] at h
    simp at h

theorem unkey_etreeKey (c : Ctx) (q : QName) : unkey (etreeKey c q) = canon c q := by
  rw [etreeKey_eq, unkey_keyOf]

theorem storeOk_fst_ne {c : Ctx} {s : Store} (hok : storeOk c s) : ∀ e ∈ s, e.1.1 ≠ some "" := by
  intro e he h
  exact (hok.1 e he "" h).1 rfl

/-! ## the abstraction function -/

@[simp] theorem absStore_nil : absStore [] = [] := rfl

@[simp] theorem absStore_cons (k : Key) (v : Str) (s : Store) :
    absStore ((k, v) :: s) = (unkey k, v) :: absStore s := by
  obtain ⟨o, n⟩ := k
  cases o <;> rfl

theorem absStore_keys (s : Store) : (absStore s).map (·.1) = (s.map (·.1)).map unkey := by
  induction s with
  | nil => rfl
  | cons e rest ih =>
    obtain ⟨k, v⟩ := e
    simp [ih]

theorem sget_eq (s : Store) (k : Key) (hs : ∀ e ∈ s, e.1.1 ≠ some "") (hk : k.1 ≠ some "") :
    sget s k = dictGet (absStore s) (unkey k) := by
  induction s with
  | nil => rfl
  | cons e rest ih =>
    obtain ⟨k', v⟩ := e
    have hk' : k'.1 ≠ some "" := hs (k', v) (by simp)
    have ih := ih (fun e he => hs e (by simp [he]))
    simp only [sget, absStore_cons, dictGet]
    by_cases hkk : k' = k
    · subst hkk; simp
    · have hne : unkey k' ≠ unkey k := fun e => hkk ((unkey_eq_iff hk' hk).1 e)
      simp [hkk, hne, ih]

theorem sset_eq (s : Store) (k : Key) (v : Str) (hs : ∀ e ∈ s, e.1.1 ≠ some "") (hk : k.1 ≠ some "") :
    absStore (sset s k v) = dictSet (absStore s) (unkey k) v := by
  induction s with
  | nil => simp [sset, dictSet]
  | cons e rest ih =>
    obtain ⟨k', v'⟩ := e
    have hk' : k'.1 ≠ some "" := hs (k', v') (by simp)
    have ih := ih (fun e he => hs e (by simp [he]))
    simp only [sset, absStore_cons, dictSet]
    by_cases hkk : k' = k
    · subst hkk; simp
    · have hne : unkey k' ≠ unkey k := fun e => hkk ((unkey_eq_iff hk' hk).1 e)
      simp [hkk, hne, ih]

theorem sdel_eq (s : Store) (k : Key) (hs : ∀ e ∈ s, e.1.1 ≠ some "") (hk : k.1 ≠ some "") :
    absStore (sdel s k) = dictDel (absStore s) (unkey k) := by
  induction s with
  | nil => rfl
  | cons e rest ih =>
    obtain ⟨k', v'⟩ := e
    have hk' : k'.1 ≠ some "" := hs (k', v') (by simp)
    have ih := ih (fun e he => hs e (by simp [he]))
    unfold sdel dictDel at *
    by_cases hkk : k' = k
    · subst hkk; simp [ih]
    · have hne : unkey k' ≠ unkey k := fun e => hkk ((unkey_eq_iff hk' hk).1 e)
      simp [hkk, hne, ih]

/-! ## `storeOk` is preserved -/

theorem mem_sset {s : Store} {k : Key} {v : Str} {e : Key × Str} (h : e ∈ sset s k v) :
    e.1 = k ∨ e ∈ s := by
  induction s with
  | nil => simp [sset] at h; left; rw [h]
  | cons e' rest ih =>
    obtain ⟨k', v'⟩ := e'
    unfold sset at h
    by_cases hkk : (k' == k) = true
    · rw [if_pos hkk] at h
      rcases List.mem_cons.1 h with h | h
      · left; rw [h]
      · right; exact List.mem_cons_of_mem _ h
    · rw [if_neg hkk] at h
      rcases List.mem_cons.1 h with h | h
      · right; rw [h]; exact List.mem_cons_self
      · rcases ih h with h | h
        · left; exact h
        · right; exact List.mem_cons_of_mem _ h

theorem nodup_sset {s : Store} (k : Key) (v : Str) (h : (s.map (·.1)).Nodup) :
    ((sset s k v).map (·.1)).Nodup := by
  induction s with
  | nil => simp [sset]
  | cons e' rest ih =>
    obtain ⟨k', v'⟩ := e'
    simp only [List.map_cons, List.nodup_cons] at h
    unfold sset
    by_cases hkk : (k' == k) = true
    · rw [if_pos hkk]
      have : k' = k := by simpa using hkk
      subst this
      simp only [List.map_cons, List.nodup_cons]
      exact h
    · rw [if_neg hkk]
      have hne : k' ≠ k := by simpa using hkk
      simp only [List.map_cons, List.nodup_cons]
      refine ⟨?_, ih h.2⟩
      intro hmem
      obtain ⟨e, he, hek⟩ := List.mem_map.1 hmem
      rcases mem_sset he with h' | h'
      · exact hne (hek ▸ h')
      · exact h.1 (List.mem_map.2 ⟨e, h', hek⟩)

theorem storeOk_sset {c : Ctx} {s : Store} (hok : storeOk c s) (q : QName) (v : Str) :
    storeOk c (sset s (etreeKey c q) v) := by
  refine ⟨?_, nodup_sset _ _ hok.2⟩
  intro e he ns hns
  rcases mem_sset he with h | h
  · rw [h] at hns; exact etreeKey_adm c q ns hns
  · exact hok.1 e h ns hns

theorem storeOk_sdel {c : Ctx} {s : Store} (hok : storeOk c s) (k : Key) : storeOk c (sdel s k) := by
  refine ⟨?_, ?_⟩
  · intro e he
    exact hok.1 e (List.mem_filter.1 he).1
  · exact List.Nodup.sublist (List.Sublist.map _ List.filter_sublist) hok.2

theorem nodup_map_unkey {l : List Key} (h : ∀ k ∈ l, k.1 ≠ some "") (hn : l.Nodup) :
    (l.map unkey).Nodup := by
  induction l with
  | nil => simp
  | cons k rest ih =>
    simp only [List.nodup_cons] at hn
    simp only [List.map_cons, List.nodup_cons]
    refine ⟨?_, ih (fun k hk => h k (List.mem_cons_of_mem _ hk)) hn.2⟩
    intro hmem
    obtain ⟨k', hk', e⟩ := List.mem_map.1 hmem
    have := (unkey_eq_iff (h k' (List.mem_cons_of_mem _ hk')) (h k List.mem_cons_self)).1 e
    exact hn.1 (this ▸ hk')

/-! ## cache and views -/

theorem cacheGet_cacheSet_self (l : List (QName × Nat)) (q : QName) (v : Nat) :
    cacheGet (cacheSet l q v) q = some v := by
  induction l with
  | nil => simp [cacheSet, cacheGet]
  | cons e rest ih =>
    obtain ⟨q', v'⟩ := e
    unfold cacheSet
    by_cases h : (q' == q) = true
    · rw [if_pos h]; simp [cacheGet]
    · rw [if_neg h]; unfold cacheGet; rw [if_neg h]; exact ih

theorem cacheGet_cacheSet_ne (l : List (QName × Nat)) {q q' : QName} (v : Nat) (hne : q' ≠ q) :
    cacheGet (cacheSet l q v) q' = cacheGet l q' := by
  induction l with
  | nil => simp [cacheSet, cacheGet]; exact fun e => hne e.symm
  | cons e rest ih =>
    obtain ⟨q'', v'⟩ := e
    unfold cacheSet
    by_cases h : (q'' == q) = true
    · rw [if_pos h]
      have : q'' = q := by simpa using h
      subst this
      have h1 : ¬ q'' = q' := fun e => hne e.symm
      simp [cacheGet, h1]
    · rw [if_neg h]; simp only [cacheGet, ih]

theorem cacheGet_cacheDel (l : List (QName × Nat)) (q q' : QName) :
    cacheGet (cacheDel l q) q' = if q' = q then none else cacheGet l q' := by
  induction l with
  | nil => simp [cacheDel, cacheGet]
  | cons e rest ih =>
    obtain ⟨q'', v'⟩ := e
    unfold cacheDel at *
    by_cases h : q'' = q
    · subst h
      by_cases h2 : q' = q''
      · subst h2; simp [ih]
      · have h3 : ¬ q'' = q' := fun e => h2 e.symm
        simp [ih, h2, h3, cacheGet]
    · by_cases h2 : q' = q
      · subst h2; simp [h, cacheGet, ih]
      · simp [h, cacheGet, ih, h2]

theorem find_append_fresh (views : List View) (v : View) (h : ∀ w ∈ views, w.id < v.id) :
    (views ++ [v]).find? (fun w => w.id == v.id) = some v := by
  induction views with
  | nil => simp
  | cons w rest ih =>
    have hw : w.id ≠ v.id := Nat.ne_of_lt (h w List.mem_cons_self)
    have ih := ih (fun w hw => h w (List.mem_cons_of_mem _ hw))
    simp [hw]
    simpa using ih

theorem find_map_id (l : List View) (f : View → View) (hf : ∀ x, (f x).id = x.id) (id : Nat) :
    (l.map f).find? (fun w => w.id == id) = (l.find? (fun w => w.id == id)).map f := by
  induction l with
  | nil => rfl
  | cons w rest ih =>
    simp only [List.map_cons, List.find?_cons, hf]
    cases (w.id == id) <;> simp [ih]

theorem getView_putView (s : State) (w : View) (id : Nat) :
    getView (putView s w) id = (getView s id).map (fun x => if x.id == w.id then w else x) := by
  unfold getView putView
  apply find_map_id
  intro x
  by_cases h : (x.id == w.id) = true
  · rw [if_pos h]; exact (by simpa using h : x.id = w.id).symm
  · rw [if_neg h]

theorem getView_id {s : State} {id : Nat} {v : View} (h : getView s id = some v) : v.id = id := by
  have := List.find?_some h
  simpa using this

/-- what `getItem` returns when it returns a view -/
theorem getItem_view {c : Ctx} {s s' : State} {a : Accessor} {vid : Nat}
    (h : getItem c s a = (s', .view vid)) :
    contains c s a = true ∧
    ((cacheGet s.cache (resolve c a) = some vid ∧ s' = s) ∨
     (cacheGet s.cache (resolve c a) = none ∧ vid = s.nextView ∧
      s' = { s with cache := cacheSet s.cache (resolve c a) s.nextView,
                    views := s.views ++ [{ id := s.nextView, attached := true, qname := resolve c a,
                                           detachedValue := Option.none }],
                    nextView := s.nextView + 1 })) := by
  unfold getItem at h
  by_cases hc : contains c s a = true
  · refine ⟨hc, ?_⟩
    simp only [hc, Bool.not_true, Bool.false_eq_true, if_false] at h
    cases hg : cacheGet s.cache (resolve c a) with
    | some v =>
      rw [hg] at h
      simp only [Prod.mk.injEq, Res.view.injEq] at h
      left; exact ⟨by rw [h.2], h.1.symm⟩
    | none =>
      rw [hg] at h
      simp only [Prod.mk.injEq, Res.view.injEq] at h
      right; exact ⟨rfl, h.2.symm, h.1.symm⟩
  · have : contains c s a = false := by simpa using hc
    simp [this] at h

/-- the state and view after `getItem` returned a view, given freshness of `nextView` and that a cached id
    of this qualified name is the id of an attached view of this qualified name -/
theorem getItem_post {c : Ctx} {s s' : State} {a : Accessor} {vid : Nat}
    (h : getItem c s a = (s', .view vid)) (hfresh : ∀ v ∈ s.views, v.id < s.nextView)
    (hcache : ∀ id, cacheGet s.cache (resolve c a) = some id →
      ∃ v, getView s id = some v ∧ v.attached = true ∧ v.qname = resolve c a) :
    s'.store = s.store ∧ contains c s' a = true ∧ cacheGet s'.cache (resolve c a) = some vid ∧
    ∃ v, getView s' vid = some v ∧ v.attached = true ∧ v.qname = resolve c a := by
  obtain ⟨hc, hcase⟩ := getItem_view h
  rcases hcase with ⟨hg, rfl⟩ | ⟨_, rfl, rfl⟩
  · exact ⟨rfl, hc, hg, hcache vid hg⟩
  · refine ⟨rfl, hc, cacheGet_cacheSet_self _ _ _,
      ⟨{ id := s.nextView, attached := true, qname := resolve c a, detachedValue := Option.none }, ?_, rfl, rfl⟩⟩
    exact find_append_fresh s.views
      { id := s.nextView, attached := true, qname := resolve c a, detachedValue := Option.none } hfresh

theorem delItem_snd (c : Ctx) (s : State) (a : Accessor) :
    (delItem c s a).2 = if contains c s a = true then .unit else .keyError := by
  unfold delItem getItem
  by_cases hc : contains c s a = true
  · simp only [hc, Bool.not_true, Bool.false_eq_true, if_false, if_true]
    cases cacheGet s.cache (resolve c a) <;> rfl
  · have : contains c s a = false := by simpa using hc
    simp [this]

theorem putView_store (s : State) (w : View) : (putView s w).store = s.store := rfl
theorem putView_cache (s : State) (w : View) : (putView s w).cache = s.cache := rfl

theorem delItem_store {c : Ctx} {s : State} {a : Accessor} (hc : contains c s a = true) :
    (delItem c s a).1.store = sdel s.store (etreeKey c (resolve c a)) := by
  unfold delItem getItem
  simp only [hc, Bool.not_true, Bool.false_eq_true, if_false]
  cases cacheGet s.cache (resolve c a) with
  | some v =>
    simp only
    cases getView s v <;> rfl
  | none =>
    simp only
    split <;> rfl

/-- `delItem` when the qualified name is cached under an existing view -/
theorem delItem_cached {c : Ctx} {s : State} {a : Accessor} {vid : Nat} {v : View}
    (hc : contains c s a = true) (hg : cacheGet s.cache (resolve c a) = some vid)
    (hv : getView s vid = some v) :
    delItem c s a =
      ({ (putView s { v with attached := false,
                             detachedValue := some ((sget s.store (etreeKey c (resolve c a))).getD []) }) with
           store := sdel s.store (etreeKey c (resolve c a)), cache := cacheDel s.cache (resolve c a) }, .unit) := by
  unfold delItem getItem
  simp only [hc, Bool.not_true, Bool.false_eq_true, if_false, hg, hv]
  rfl

/-! ## the cache invariant of reachable states

`c11_view_live_partial` and `c11_view_keeps_value_partial` assume that an id cached under a qualified name is
the id of an attached view of that qualified name.  `viewsOk` is that invariant (together with freshness of
`nextView`); it holds with an empty cache and is preserved by every operation of the model. -/

def viewsOk (s : State) : Prop :=
  (∀ v ∈ s.views, v.id < s.nextView) ∧
  ∀ q id, cacheGet s.cache q = some id → ∃ v, getView s id = some v ∧ v.attached = true ∧ v.qname = q

theorem viewsOk_empty (st : Store) (n : Nat) : viewsOk ⟨st, [], [], n⟩ := by
  refine ⟨by simp, ?_⟩
  intro q id h
  simp [cacheGet] at h

/-- caching a new attached view -/
theorem viewsOk_push {s : State} (h : viewsOk s) (st : Store) (q : QName) :
    viewsOk ⟨st, cacheSet s.cache q s.nextView,
      s.views ++ [{ id := s.nextView, attached := true, qname := q, detachedValue := Option.none }],
      s.nextView + 1⟩ := by
  refine ⟨?_, ?_⟩
  · intro v hv
    rcases List.mem_append.1 hv with hv | hv
    · exact Nat.lt_succ_of_lt (h.1 v hv)
    · simp at hv; subst hv; exact Nat.lt_succ_self _
  · intro q' id hg
    by_cases hq : q' = q
    · subst hq
      rw [cacheGet_cacheSet_self] at hg
      cases hg
      exact ⟨_, find_append_fresh s.views
        { id := s.nextView, attached := true, qname := q', detachedValue := Option.none } h.1, rfl, rfl⟩
    · rw [cacheGet_cacheSet_ne _ _ hq] at hg
      obtain ⟨v, hv, hatt, hqn⟩ := h.2 q' id hg
      refine ⟨v, ?_, hatt, hqn⟩
      unfold getView at *
      simp only [List.find?_append, hv, Option.some_or]

/-- replacing a view that no cached id refers to any more, with a possibly smaller cache -/
theorem viewsOk_putView {s : State} (h : viewsOk s) (w : View) (st : Store) (cache' : List (QName × Nat))
    (hsub : ∀ q id, cacheGet cache' q = some id → cacheGet s.cache q = some id ∧ id ≠ w.id) :
    viewsOk ⟨st, cache', (putView s w).views, s.nextView⟩ := by
  refine ⟨?_, ?_⟩
  · intro v hv
    simp only [putView, List.mem_map] at hv
    obtain ⟨u, hu, rfl⟩ := hv
    by_cases hid : (u.id == w.id) = true
    · rw [if_pos hid]
      have : u.id = w.id := by simpa using hid
      rw [← this]; exact h.1 u hu
    · rw [if_neg hid]; exact h.1 u hu
  · intro q id hg
    obtain ⟨hg', hne⟩ := hsub q id hg
    obtain ⟨v, hv, hatt, hqn⟩ := h.2 q id hg'
    refine ⟨v, ?_, hatt, hqn⟩
    have hvid : v.id = id := getView_id hv
    have := getView_putView s w id
    rw [hv] at this
    have hne' : ¬ v.id = w.id := by rw [hvid]; exact hne
    simp only [Option.map_some, beq_iff_eq, hne', if_false] at this
    exact this

theorem viewsOk_getItem {s : State} (c : Ctx) (a : Accessor) (h : viewsOk s) : viewsOk (getItem c s a).1 := by
  unfold getItem
  by_cases hc : contains c s a = true
  · simp only [hc, Bool.not_true, Bool.false_eq_true, if_false]
    cases cacheGet s.cache (resolve c a) with
    | some v => exact h
    | none => exact viewsOk_push h s.store (resolve c a)
  · have : contains c s a = false := by simpa using hc
    simp only [this, Bool.not_false, if_true]
    exact h

theorem viewsOk_setItem {s : State} (c : Ctx) (a : Accessor) (x : Str) (h : viewsOk s) :
    viewsOk (setItem c s a x) :=
  viewsOk_push h _ (resolve c a)

theorem delItem_eq {c : Ctx} {s s₁ : State} {a : Accessor} {vid : Nat} {v : View}
    (hc : contains c s a = true) (hgi : getItem c s a = (s₁, .view vid)) (hv : getView s₁ vid = some v) :
    delItem c s a =
      ({ (putView s₁ { v with attached := false,
                              detachedValue := some ((sget s₁.store (etreeKey c (resolve c a))).getD []) }) with
           store := sdel s₁.store (etreeKey c (resolve c a)), cache := cacheDel s₁.cache (resolve c a) }, .unit) := by
  unfold delItem
  simp only [hc, Bool.not_true, Bool.false_eq_true, if_false]
  rw [hgi]
  simp only [hv]
  rfl

theorem getItem_fst_snd {c : Ctx} {s : State} {a : Accessor} (hc : contains c s a = true) :
    ∃ vid, getItem c s a = ((getItem c s a).1, .view vid) := by
  unfold getItem
  simp only [hc, Bool.not_true, Bool.false_eq_true, if_false]
  cases cacheGet s.cache (resolve c a) with
  | some v => exact ⟨v, rfl⟩
  | none => exact ⟨s.nextView, rfl⟩

theorem viewsOk_delItem {s : State} (c : Ctx) (a : Accessor) (h : viewsOk s) : viewsOk (delItem c s a).1 := by
  by_cases hc : contains c s a = true
  · obtain ⟨vid, hgi⟩ := getItem_fst_snd (c := c) (s := s) (a := a) hc
    have h1 : viewsOk (getItem c s a).1 := viewsOk_getItem c a h
    generalize (getItem c s a).1 = s₁ at hgi h1
    obtain ⟨_, _, hg, v, hv, hatt, hq⟩ := getItem_post hgi h.1 (h.2 (resolve c a))
    rw [delItem_eq hc hgi hv]
    have hvid : v.id = vid := getView_id hv
    refine viewsOk_putView h1 _ _ _ ?_
    intro q id hgd
    rw [cacheGet_cacheDel] at hgd
    by_cases hqq : q = resolve c a
    · rw [if_pos hqq] at hgd; cases hgd
    · rw [if_neg hqq] at hgd
      refine ⟨hgd, ?_⟩
      show id ≠ v.id
      intro hid
      obtain ⟨u, hu, _, huq⟩ := h1.2 q id hgd
      rw [hid, hvid, hv] at hu
      cases hu
      exact hqq (huq.symm.trans hq)
  · have : contains c s a = false := by simpa using hc
    unfold delItem
    simp only [this, Bool.not_false, if_true]
    exact h

theorem viewsOk_viewSetValue {s : State} (c : Ctx) (vid : Nat) (x : Str) (h : viewsOk s) :
    viewsOk (viewSetValue c s vid x) := by
  unfold viewSetValue
  cases hv : getView s vid with
  | none => exact h
  | some v =>
    simp only
    by_cases hatt : v.attached = true
    · rw [if_pos hatt]; exact h
    · rw [if_neg hatt]
      have hvid : v.id = vid := getView_id hv
      refine viewsOk_putView h _ _ _ ?_
      intro q id hg
      refine ⟨hg, ?_⟩
      show id ≠ v.id
      intro hid
      obtain ⟨u, hu, huatt, _⟩ := h.2 q id hg
      rw [hid, hvid, hv] at hu
      cases hu
      exact hatt huatt

end Delb.Attrs

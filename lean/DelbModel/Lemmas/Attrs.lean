import DelbModel.Model.Attrs
/-!
# Helper lemmas for C11 (attribute mapping)

`keyOf` / `unkey` translate between canonical qualified names and Clark keys of the store;
`etreeKey c q = keyOf (canon c q)` and `absStore` is `unkey` on keys.  The store operations
`sget` / `sset` / `sdel` are the dictionary operations through `unkey` as long as no key is `some ""`.
-/
namespace Delb.Attrs

/-! ## keys -/

/-- the Clark key of a canonical qualified name -/
def keyOf (q : QName) : Key := if q.1 = "" then (none, q.2) else (some q.1, q.2)

/-- the qualified name a Clark key denotes in the specification dictionary -/
def unkey (k : Key) : QName :=
  match k with
  | (some ns, n) => (ns, n)
  | (Option.none, n) => ("", n)

theorem etreeKey_eq (c : Ctx) (q : QName) : etreeKey c q = keyOf (canon c q) := by
  obtain ⟨ns, n⟩ := q
  unfold etreeKey canon keyOf
  by_cases h1 : ns = c.defaultNs
  · subst h1; simp
  · by_cases h2 : ns = ""
    · subst h2; simp
    · have h3 : ¬ c.defaultNs = ns := fun e => h1 e.symm
      simp [h1, h2, h3]

theorem unkey_keyOf (q : QName) : unkey (keyOf q) = q := by
  obtain ⟨ns, n⟩ := q
  unfold keyOf
  by_cases h : ns = ""
  · subst h; simp [unkey]
  · simp [h, unkey]

theorem keyOf_unkey {k : Key} (h : k.1 ≠ some "") : keyOf (unkey k) = k := by
  obtain ⟨o, n⟩ := k
  cases o with
  | none => simp [unkey, keyOf]
  | some ns =>
    have : ns ≠ "" := fun e => h (by simp [e])
    simp [unkey, keyOf, this]

theorem unkey_eq_iff {k k' : Key} (h : k.1 ≠ some "") (h' : k'.1 ≠ some "") :
    unkey k = unkey k' ↔ k = k' := by
  constructor
  · intro e
    have := congrArg keyOf e
    rwa [keyOf_unkey h, keyOf_unkey h'] at this
  · intro e; rw [e]

theorem keyOf_fst_ne (q : QName) : (keyOf q).1 ≠ some "" := by
  obtain ⟨ns, n⟩ := q
  unfold keyOf
  by_cases h : ns = ""
  · subst h; simp
  · simp [h]

theorem etreeKey_fst_ne (c : Ctx) (q : QName) : (etreeKey c q).1 ≠ some "" := by
  rw [etreeKey_eq]; exact keyOf_fst_ne _

theorem etreeKey_adm (c : Ctx) (q : QName) (ns : String) (h : (etreeKey c q).1 = some ns) :
    ns ≠ "" ∧ ns ≠ c.defaultNs := by
  unfold etreeKey at h
  by_cases h1 : (q.1 != "" && c.defaultNs != q.1) = true
  · rw [if_pos h1] at h
    simp at h h1
    subst h
    exact ⟨h1.1, fun e => h1.2 e.symm⟩
  · rw [if_neg h1] at h
    simp at h

theorem unkey_etreeKey (c : Ctx) (q : QName) : unkey (etreeKey c q) = canon c q := by
  rw [etreeKey_eq, unkey_keyOf]

theorem storeOk_fst_ne {c : Ctx} {s : Store} (hok : storeOk c s) : ∀ e ∈ s, e.1.1 ≠ some "" := by
  intro e he h
  exact (hok.1 e he "" h).1 rfl

/-! ## the abstraction function -/

@[simp] theorem absStore_nil : absStore [] = [] := rfl

@[simp] theorem absStore_cons (k : Key) (v : Str) (s : Store) :
    absStore ((k, v) :: s) = (unkey k, v) :: absStore s := by
  obtain ⟨o, n⟩ := k
  cases o <;> rfl

theorem absStore_keys (s : Store) : (absStore s).map (·.1) = (s.map (·.1)).map unkey := by
  induction s with
  | nil => rfl
  | cons e rest ih =>
    obtain ⟨k, v⟩ := e
    simp [ih]

theorem sget_eq (s : Store) (k : Key) (hs : ∀ e ∈ s, e.1.1 ≠ some "") (hk : k.1 ≠ some "") :
    sget s k = dictGet (absStore s) (unkey k) := by
  induction s with
  | nil => rfl
  | cons e rest ih =>
    obtain ⟨k', v⟩ := e
    have hk' : k'.1 ≠ some "" := hs (k', v) (by simp)
    have ih := ih (fun e he => hs e (by simp [he]))
    simp only [sget, absStore_cons, dictGet]
    by_cases hkk : k' = k
    · subst hkk; simp
    · have hne : unkey k' ≠ unkey k := fun e => hkk ((unkey_eq_iff hk' hk).1 e)
      simp [hkk, hne, ih]

theorem sset_eq (s : Store) (k : Key) (v : Str) (hs : ∀ e ∈ s, e.1.1 ≠ some "") (hk : k.1 ≠ some "") :
    absStore (sset s k v) = dictSet (absStore s) (unkey k) v := by
  induction s with
  | nil => simp [sset, dictSet]
  | cons e rest ih =>
    obtain ⟨k', v'⟩ := e
    have hk' : k'.1 ≠ some "" := hs (k', v') (by simp)
    have ih := ih (fun e he => hs e (by simp [he]))
    simp only [sset, absStore_cons, dictSet]
    by_cases hkk : k' = k
    · subst hkk; simp
    · have hne : unkey k' ≠ unkey k := fun e => hkk ((unkey_eq_iff hk' hk).1 e)
      simp [hkk, hne, ih]

theorem sdel_eq (s : Store) (k : Key) (hs : ∀ e ∈ s, e.1.1 ≠ some "") (hk : k.1 ≠ some "") :
    absStore (sdel s k) = dictDel (absStore s) (unkey k) := by
  induction s with
  | nil => rfl
  | cons e rest ih =>
    obtain ⟨k', v'⟩ := e
    have hk' : k'.1 ≠ some "" := hs (k', v') (by simp)
    have ih := ih (fun e he => hs e (by simp [he]))
    unfold sdel dictDel at *
    by_cases hkk : k' = k
    · subst hkk; simp [ih]
    · have hne : unkey k' ≠ unkey k := fun e => hkk ((unkey_eq_iff hk' hk).1 e)
      simp [hkk, hne, ih]

/-! ## `storeOk` is preserved -/

theorem mem_sset {s : Store} {k : Key} {v : Str} {e : Key × Str} (h : e ∈ sset s k v) :
    e.1 = k ∨ e ∈ s := by
  induction s with
  | nil => simp [sset] at h; left; rw [h]
  | cons e' rest ih =>
    obtain ⟨k', v'⟩ := e'
    unfold sset at h
    by_cases hkk : (k' == k) = true
    · rw [if_pos hkk] at h
      rcases List.mem_cons.1 h with h | h
      · left; rw [h]
      · right; exact List.mem_cons_of_mem _ h
    · rw [if_neg hkk] at h
      rcases List.mem_cons.1 h with h | h
      · right; rw [h]; exact List.mem_cons_self
      · rcases ih h with h | h
        · left; exact h
        · right; exact List.mem_cons_of_mem _ h

theorem nodup_sset {s : Store} (k : Key) (v : Str) (h : (s.map (·.1)).Nodup) :
    ((sset s k v).map (·.1)).Nodup := by
  induction s with
  | nil => simp [sset]
  | cons e' rest ih =>
    obtain ⟨k', v'⟩ := e'
    simp only [List.map_cons, List.nodup_cons] at h
    unfold sset
    by_cases hkk : (k' == k) = true
    · rw [if_pos hkk]
      have : k' = k := by simpa using hkk
      subst this
      simp only [List.map_cons, List.nodup_cons]
      exact h
    · rw [if_neg hkk]
      have hne : k' ≠ k := by simpa using hkk
      simp only [List.map_cons, List.nodup_cons]
      refine ⟨?_, ih h.2⟩
      intro hmem
      obtain ⟨e, he, hek⟩ := List.mem_map.1 hmem
      rcases mem_sset he with h' | h'
      · exact hne (hek ▸ h')
      · exact h.1 (List.mem_map.2 ⟨e, h', hek⟩)

theorem storeOk_sset {c : Ctx} {s : Store} (hok : storeOk c s) (q : QName) (v : Str) :
    storeOk c (sset s (etreeKey c q) v) := by
  refine ⟨?_, nodup_sset _ _ hok.2⟩
  intro e he ns hns
  rcases mem_sset he with h | h
  · rw [h] at hns; exact etreeKey_adm c q ns hns
  · exact hok.1 e h ns hns

theorem storeOk_sdel {c : Ctx} {s : Store} (hok : storeOk c s) (k : Key) : storeOk c (sdel s k) := by
  refine ⟨?_, ?_⟩
  · intro e he
    exact hok.1 e (List.mem_filter.1 he).1
  · exact List.Nodup.sublist (List.Sublist.map _ List.filter_sublist) hok.2

theorem nodup_map_unkey {l : List Key} (h : ∀ k ∈ l, k.1 ≠ some "") (hn : l.Nodup) :
    (l.map unkey).Nodup := by
  induction l with
  | nil => simp
  | cons k rest ih =>
    simp only [List.nodup_cons] at hn
    simp only [List.map_cons, List.nodup_cons]
    refine ⟨?_, ih (fun k hk => h k (List.mem_cons_of_mem _ hk)) hn.2⟩
    intro hmem
    obtain ⟨k', hk', e⟩ := List.mem_map.1 hmem
    have := (unkey_eq_iff (h k' (List.mem_cons_of_mem _ hk')) (h k List.mem_cons_self)).1 e
    exact hn.1 (this ▸ hk')

/-! ## lookups in store and cache after an update -/

theorem sget_sset_self (s : Store) (k : Key) (v : Str) : sget (sset s k v) k = some v := by
  induction s with
  | nil => simp [sset, sget]
  | cons e rest ih =>
    obtain ⟨k', v'⟩ := e
    unfold sset
    by_cases h : (k' == k) = true
    · rw [if_pos h]; simp [sget]
    · rw [if_neg h]; unfold sget; rw [if_neg h]; exact ih

theorem sget_sset_ne (s : Store) {k k' : Key} (v : Str) (hne : k' ≠ k) :
    sget (sset s k v) k' = sget s k' := by
  induction s with
  | nil => simp [sset, sget]; exact fun e => hne e.symm
  | cons e rest ih =>
    obtain ⟨k'', v'⟩ := e
    unfold sset
    by_cases h : (k'' == k) = true
    · rw [if_pos h]
      have : k'' = k := by simpa using h
      subst this
      have h1 : ¬ k'' = k' := fun e => hne e.symm
      simp [sget, h1]
    · rw [if_neg h]; simp only [sget, ih]

theorem sget_sdel (s : Store) (k k' : Key) :
    sget (sdel s k) k' = if k' = k then none else sget s k' := by
  induction s with
  | nil => simp [sdel, sget]
  | cons e rest ih =>
    obtain ⟨k'', v'⟩ := e
    unfold sdel at *
    by_cases h : k'' = k
    · subst h
      by_cases h2 : k' = k''
      · subst h2; simp [ih]
      · have h3 : ¬ k'' = k' := fun e => h2 e.symm
        simp [ih, h2, h3, sget]
    · by_cases h2 : k' = k
      · subst h2; simp [h, sget, ih]
      · simp [h, sget, ih, h2]

theorem cacheGet_cacheSet_self (l : Cache) (q : Key) (v : Nat) :
    cacheGet (cacheSet l q v) q = some v := by
  induction l with
  | nil => simp [cacheSet, cacheGet]
  | cons e rest ih =>
    obtain ⟨q', v'⟩ := e
    unfold cacheSet
    by_cases h : (q' == q) = true
    · rw [if_pos h]; simp [cacheGet]
    · rw [if_neg h]; unfold cacheGet; rw [if_neg h]; exact ih

theorem cacheGet_cacheSet_ne (l : Cache) {q q' : Key} (v : Nat) (hne : q' ≠ q) :
    cacheGet (cacheSet l q v) q' = cacheGet l q' := by
  induction l with
  | nil => simp [cacheSet, cacheGet]; exact fun e => hne e.symm
  | cons e rest ih =>
    obtain ⟨q'', v'⟩ := e
    unfold cacheSet
    by_cases h : (q'' == q) = true
    · rw [if_pos h]
      have : q'' = q := by simpa using h
      subst this
      have h1 : ¬ q'' = q' := fun e => hne e.symm
      simp [cacheGet, h1]
    · rw [if_neg h]; simp only [cacheGet, ih]

theorem cacheGet_cacheDel (l : Cache) (q q' : Key) :
    cacheGet (cacheDel l q) q' = if q' = q then none else cacheGet l q' := by
  induction l with
  | nil => simp [cacheDel, cacheGet]
  | cons e rest ih =>
    obtain ⟨q'', v'⟩ := e
    unfold cacheDel at *
    by_cases h : q'' = q
    · subst h
      by_cases h2 : q' = q''
      · subst h2; simp [ih]
      · have h3 : ¬ q'' = q' := fun e => h2 e.symm
        simp [ih, h2, h3, cacheGet]
    · by_cases h2 : q' = q
      · subst h2; simp [h, cacheGet, ih]
      · simp [h, cacheGet, ih, h2]

theorem cacheGet_cacheSet (l : Cache) (q q' : Key) (v : Nat) :
    cacheGet (cacheSet l q v) q' = if q' = q then some v else cacheGet l q' := by
  by_cases h : q' = q
  · subst h; rw [if_pos rfl, cacheGet_cacheSet_self]
  · rw [if_neg h, cacheGet_cacheSet_ne _ _ h]

theorem sget_sset (s : Store) (k k' : Key) (v : Str) :
    sget (sset s k v) k' = if k' = k then some v else sget s k' := by
  by_cases h : k' = k
  · subst h; rw [if_pos rfl, sget_sset_self]
  · rw [if_neg h, sget_sset_ne _ _ h]

/-! ## names -/

theorem etreeKey_reportedName (c : Ctx) (q : QName) : etreeKey c (reportedName c q) = etreeKey c q := by
  obtain ⟨ns, n⟩ := q
  unfold etreeKey reportedName
  by_cases h : ns = ""
  · subst h; simp
  · simp [h]

theorem resolve_pair (c : Ctx) (q : QName) : resolve c (.pair q.1 q.2) = q := rfl

/-- the reported name of a key of an admissible store leads back to the key -/
theorem etreeKey_iterName {c : Ctx} {k : Key} (h : ∀ ns, k.1 = some ns → ns ≠ "" ∧ ns ≠ c.defaultNs) :
    etreeKey c (iterName c k) = k := by
  obtain ⟨o, n⟩ := k
  cases o with
  | none => simp [iterName, etreeKey]
  | some ns =>
    obtain ⟨h1, h2⟩ := h ns rfl
    have h3 : ¬ c.defaultNs = ns := fun e => h2 e.symm
    simp [iterName, etreeKey, h1, h3]

/-! ## the list of views -/

theorem find_map_id (l : List View) (f : View → View) (hf : ∀ x, (f x).id = x.id) (id : Nat) :
    (l.map f).find? (fun w => w.id == id) = (l.find? (fun w => w.id == id)).map f := by
  induction l with
  | nil => rfl
  | cons w rest ih =>
    simp only [List.map_cons, List.find?_cons, hf]
    cases (w.id == id) <;> simp [ih]

theorem getView_putView (s : State) (w : View) (id : Nat) :
    getView (putView s w) id = (getView s id).map (fun x => if x.id == w.id then w else x) := by
  unfold getView putView
  apply find_map_id
  intro x
  by_cases h : (x.id == w.id) = true
  · rw [if_pos h]; exact (by simpa using h : x.id = w.id).symm
  · rw [if_neg h]

theorem getView_id {s : State} {id : Nat} {v : View} (h : getView s id = some v) : v.id = id := by
  have := List.find?_some h
  simpa using this

theorem getView_mem {s : State} {id : Nat} {v : View} (h : getView s id = some v) : v ∈ s.views :=
  List.mem_of_find?_eq_some h

theorem getView_putView_ne (s : State) (w : View) {id : Nat} (h : id ≠ w.id) :
    getView (putView s w) id = getView s id := by
  rw [getView_putView]
  cases hv : getView s id with
  | none => rfl
  | some u =>
    have : u.id = id := getView_id hv
    have hne : ¬ u.id = w.id := by rw [this]; exact h
    simp [hne]

theorem getView_putView_self (s : State) (w : View) {u : View} (h : getView s w.id = some u) :
    getView (putView s w) w.id = some w := by
  rw [getView_putView, h]
  have : u.id = w.id := getView_id h
  simp [this]

theorem putView_store (s : State) (w : View) : (putView s w).store = s.store := rfl
theorem putView_cache (s : State) (w : View) : (putView s w).cache = s.cache := rfl
theorem putView_nextView (s : State) (w : View) : (putView s w).nextView = s.nextView := rfl

theorem putView_ids (s : State) (w : View) : (putView s w).views.map (·.id) = s.views.map (·.id) := by
  unfold putView
  simp only [List.map_map]
  apply List.map_congr_left
  intro u _
  simp only [Function.comp]
  by_cases h : (u.id == w.id) = true
  · rw [if_pos h]; exact (by simpa using h : u.id = w.id).symm
  · rw [if_neg h]

/-- ids below `n` and pairwise different -/
def idsOk (l : List View) (n : Nat) : Prop := (∀ v ∈ l, v.id < n) ∧ (l.map (·.id)).Nodup

theorem idsOk_of_ids {l l' : List View} {n : Nat} (h : idsOk l n) (e : l'.map (·.id) = l.map (·.id)) :
    idsOk l' n := by
  refine ⟨?_, by rw [e]; exact h.2⟩
  intro v hv
  have : v.id ∈ l.map (·.id) := by rw [← e]; exact List.mem_map.2 ⟨v, hv, rfl⟩
  obtain ⟨u, hu, hid⟩ := List.mem_map.1 this
  rw [← hid]; exact h.1 u hu

theorem idsOk_append {l : List View} {n : Nat} (h : idsOk l n) (v : View) (hv : v.id = n) :
    idsOk (l ++ [v]) (n + 1) := by
  refine ⟨?_, ?_⟩
  · intro u hu
    rcases List.mem_append.1 hu with hu | hu
    · exact Nat.lt_succ_of_lt (h.1 u hu)
    · simp at hu; subst hu; rw [hv]; exact Nat.lt_succ_self _
  · rw [List.map_append, List.nodup_append]
    refine ⟨h.2, by simp, ?_⟩
    intro a ha b hb
    simp at hb
    obtain ⟨u, hu, rfl⟩ := List.mem_map.1 ha
    rw [hb, hv]
    exact Nat.ne_of_lt (h.1 u hu)

theorem idsOk_filter {l : List View} {n : Nat} (h : idsOk l n) (p : View → Bool) : idsOk (l.filter p) n :=
  ⟨fun v hv => h.1 v (List.mem_filter.1 hv).1, List.Nodup.sublist (List.Sublist.map _ List.filter_sublist) h.2⟩

theorem idsOk_mono {l : List View} {n m : Nat} (h : idsOk l n) (hnm : n ≤ m) : idsOk l m :=
  ⟨fun v hv => Nat.lt_of_lt_of_le (h.1 v hv) hnm, h.2⟩

theorem find_none_of_lt {l : List View} {n id : Nat} (h : ∀ v ∈ l, v.id < n) (hid : n ≤ id) :
    l.find? (fun w => w.id == id) = none := by
  rw [List.find?_eq_none]
  intro v hv
  have := h v hv
  simp
  omega

theorem find_append_single (l : List View) (v : View) (id : Nat) :
    (l ++ [v]).find? (fun w => w.id == id) =
      match l.find? (fun w => w.id == id) with
      | some u => some u
      | none => if v.id = id then some v else none := by
  rw [List.find?_append]
  cases l.find? (fun w => w.id == id) with
  | some u => rfl
  | none =>
    by_cases h : v.id = id <;> simp [h]

theorem find_filter_ne (l : List View) (t id : Nat) :
    (l.filter (fun w => w.id != t)).find? (fun w => w.id == id) =
      if id = t then none else l.find? (fun w => w.id == id) := by
  induction l with
  | nil => simp
  | cons w rest ih =>
    by_cases h1 : w.id = t
    · by_cases h2 : id = t
      · simp [h1, h2, ih]
      · have h3 : ¬ t = id := fun e => h2 e.symm
        simp [h1, h2, h3, ih]
    · by_cases h2 : id = t
      · subst h2
        simp [h1, ih]
      · by_cases h3 : w.id = id
        · subst h3; simp [h1, h2]
        · simp [h1, h2, h3, ih]

/-! ## the view invariant through the three lookup functions

`ViewsOk` speaks about a state only through `sget s.store`, `cacheGet s.cache`, `getView s` (and the ids of the
views).  `LookOk` is that part as a predicate on three functions, so that every operation can be treated as a
pointwise update. -/

structure LookOk (c : Ctx) (sg : Key → Option Str) (cg : Key → Option Nat) (gv : Nat → Option View) : Prop where
  cached : ∀ k id, cg k = some id → ∃ v, gv id = some v ∧ v.attached = true ∧ etreeKey c v.qname = k
  attached : ∀ id v, gv id = some v → v.attached = true → cg (etreeKey c v.qname) = some id
  stored : ∀ k id, cg k = some id → (sg k).isSome = true
  detached : ∀ id v, gv id = some v → v.attached = false → v.detachedValue.isSome = true

theorem viewsOk_iff {c : Ctx} {s : State} :
    ViewsOk c s ↔ idsOk s.views s.nextView ∧ LookOk c (sget s.store) (cacheGet s.cache) (getView s) :=
  ⟨fun h => ⟨⟨h.fresh, h.unique⟩, ⟨h.cached, h.attached, h.stored, h.detached⟩⟩,
   fun h => ⟨h.1.1, h.1.2, h.2.cached, h.2.attached, h.2.stored, h.2.detached⟩⟩

theorem LookOk.congr {c : Ctx} {sg sg' : Key → Option Str} {cg cg' : Key → Option Nat} {gv gv' : Nat → Option View}
    (h : LookOk c sg cg gv) (h1 : ∀ k, sg' k = sg k) (h2 : ∀ k, cg' k = cg k) (h3 : ∀ i, gv' i = gv i) :
    LookOk c sg' cg' gv' := by
  have e1 : sg' = sg := funext h1
  have e2 : cg' = cg := funext h2
  have e3 : gv' = gv := funext h3
  rw [e1, e2, e3]; exact h

/-- the store changes, cached keys stay stored -/
theorem LookOk.store {c : Ctx} {sg sg' : Key → Option Str} {cg : Key → Option Nat} {gv : Nat → Option View}
    (h : LookOk c sg cg gv) (hs : ∀ k, (sg k).isSome = true → (sg' k).isSome = true) : LookOk c sg' cg gv :=
  ⟨h.cached, h.attached, fun k id hk => hs k (h.stored k id hk), h.detached⟩

/-- a new attached view is cached for a key that had none -/
theorem LookOk.push {c : Ctx} {sg : Key → Option Str} {cg : Key → Option Nat} {gv : Nat → Option View}
    (h : LookOk c sg cg gv) {k : Key} {n : Nat} {w : View} (hk : cg k = none) (hn : gv n = none)
    (hs : (sg k).isSome = true) (hw : w.attached = true) (hq : etreeKey c w.qname = k) :
    LookOk c sg (fun k' => if k' = k then some n else cg k') (fun i => if i = n then some w else gv i) := by
  refine ⟨?_, ?_, ?_, ?_⟩
  · intro k' id hc
    by_cases hk' : k' = k
    · subst hk'
      simp only [if_true] at hc
      cases hc
      exact ⟨w, by simp, hw, hq⟩
    · simp only [hk', if_false] at hc
      obtain ⟨v, hv, ha, hkv⟩ := h.cached k' id hc
      have : id ≠ n := fun e => by rw [e, hn] at hv; cases hv
      exact ⟨v, by simp [this, hv], ha, hkv⟩
  · intro id v hv ha
    by_cases hid : id = n
    · subst hid
      simp only [if_true] at hv
      cases hv
      simp [hq]
    · simp only [hid, if_false] at hv
      have := h.attached id v hv ha
      have hne : etreeKey c v.qname ≠ k := fun e => by rw [e, hk] at this; cases this
      simp [hne, this]
  · intro k' id hc
    by_cases hk' : k' = k
    · subst hk'; exact hs
    · simp only [hk', if_false] at hc
      exact h.stored k' id hc
  · intro id v hv ha
    by_cases hid : id = n
    · subst hid
      simp only [if_true] at hv
      cases hv
      rw [hw] at ha; cases ha
    · simp only [hid, if_false] at hv
      exact h.detached id v hv ha

/-- the cached view of a key is detached with a value and the key leaves the cache (and possibly the store) -/
theorem LookOk.detach {c : Ctx} {sg sg' : Key → Option Str} {cg : Key → Option Nat} {gv : Nat → Option View}
    (h : LookOk c sg cg gv) {vid : Nat} {v : View} (x : Str) (hv : gv vid = some v) (ha : v.attached = true)
    (hs : ∀ k, k ≠ etreeKey c v.qname → (sg k).isSome = true → (sg' k).isSome = true) :
    LookOk c sg' (fun k' => if k' = etreeKey c v.qname then none else cg k')
      (fun i => if i = vid then some { v with attached := false, detachedValue := some x } else gv i) := by
  refine ⟨?_, ?_, ?_, ?_⟩
  · intro k' id hc
    by_cases hk' : k' = etreeKey c v.qname
    · simp [hk'] at hc
    · simp only [hk', if_false] at hc
      obtain ⟨u, hu, hua, huk⟩ := h.cached k' id hc
      have : id ≠ vid := by
        intro e
        rw [e, hv] at hu
        cases hu
        exact hk' huk.symm
      exact ⟨u, by simp [this, hu], hua, huk⟩
  · intro id u hu hua
    by_cases hid : id = vid
    · subst hid
      simp only [if_true] at hu
      cases hu
      cases hua
    · simp only [hid, if_false] at hu
      have hc := h.attached id u hu hua
      have hne : etreeKey c u.qname ≠ etreeKey c v.qname := by
        intro e
        rw [e, h.attached vid v hv ha] at hc
        cases hc
        exact hid rfl
      simp [hne, hc]
  · intro k' id hc
    by_cases hk' : k' = etreeKey c v.qname
    · simp [hk'] at hc
    · simp only [hk', if_false] at hc
      exact hs k' hk' (h.stored k' id hc)
  · intro id u hu hua
    by_cases hid : id = vid
    · subst hid
      simp only [if_true] at hu
      cases hu
      rfl
    · simp only [hid, if_false] at hu
      exact h.detached id u hu hua

/-- a detached view gets another value -/
theorem LookOk.setDetached {c : Ctx} {sg : Key → Option Str} {cg : Key → Option Nat} {gv : Nat → Option View}
    (h : LookOk c sg cg gv) {vid : Nat} {v : View} (x : Str) (hv : gv vid = some v) (ha : v.attached = false) :
    LookOk c sg cg (fun i => if i = vid then some { v with detachedValue := some x } else gv i) := by
  refine ⟨?_, ?_, h.stored, ?_⟩
  · intro k' id hc
    obtain ⟨u, hu, hua, huk⟩ := h.cached k' id hc
    have : id ≠ vid := by
      intro e
      rw [e, hv] at hu
      cases hu
      rw [ha] at hua; cases hua
    exact ⟨u, by simp [this, hu], hua, huk⟩
  · intro id u hu hua
    by_cases hid : id = vid
    · subst hid
      simp only [if_true] at hu
      cases hu
      simp only at hua
      rw [ha] at hua; cases hua
    · simp only [hid, if_false] at hu
      exact h.attached id u hu hua
  · intro id u hu hua
    by_cases hid : id = vid
    · subst hid
      simp only [if_true] at hu
      cases hu
      rfl
    · simp only [hid, if_false] at hu
      exact h.detached id u hu hua

/-- an attached view moves to a key that has no cached view -/
theorem LookOk.move {c : Ctx} {sg sg' : Key → Option Str} {cg : Key → Option Nat} {gv : Nat → Option View}
    (h : LookOk c sg cg gv) {vid : Nat} {v : View} (nq : QName) (dv : Option Str)
    (hv : gv vid = some v) (ha : v.attached = true) (hfree : cg (etreeKey c nq) = none)
    (hnew : (sg' (etreeKey c nq)).isSome = true)
    (hs : ∀ k, k ≠ etreeKey c v.qname → (sg k).isSome = true → (sg' k).isSome = true) :
    LookOk c sg' (fun k' => if k' = etreeKey c nq then some vid else if k' = etreeKey c v.qname then none else cg k')
      (fun i => if i = vid then some { v with qname := nq, detachedValue := dv } else gv i) := by
  refine ⟨?_, ?_, ?_, ?_⟩
  · intro k' id hc
    by_cases hk1 : k' = etreeKey c nq
    · subst hk1
      simp only [if_true] at hc
      cases hc
      exact ⟨{ v with qname := nq, detachedValue := dv }, by simp, ha, rfl⟩
    · simp only [hk1, if_false] at hc
      by_cases hk2 : k' = etreeKey c v.qname
      · simp [hk2] at hc
      · simp only [hk2, if_false] at hc
        obtain ⟨u, hu, hua, huk⟩ := h.cached k' id hc
        have : id ≠ vid := by
          intro e
          rw [e, hv] at hu
          cases hu
          exact hk2 huk.symm
        exact ⟨u, by simp [this, hu], hua, huk⟩
  · intro id u hu hua
    by_cases hid : id = vid
    · subst hid
      simp only [if_true] at hu
      cases hu
      simp
    · simp only [hid, if_false] at hu
      have hc := h.attached id u hu hua
      have hne1 : etreeKey c u.qname ≠ etreeKey c v.qname := by
        intro e
        rw [e, h.attached vid v hv ha] at hc
        cases hc
        exact hid rfl
      have hne2 : etreeKey c u.qname ≠ etreeKey c nq := by
        intro e
        rw [e, hfree] at hc
        cases hc
      simp [hne1, hne2, hc]
  · intro k' id hc
    by_cases hk1 : k' = etreeKey c nq
    · subst hk1; exact hnew
    · simp only [hk1, if_false] at hc
      by_cases hk2 : k' = etreeKey c v.qname
      · simp [hk2] at hc
      · simp only [hk2, if_false] at hc
        exact hs k' hk2 (h.stored k' id hc)
  · intro id u hu hua
    by_cases hid : id = vid
    · subst hid
      simp only [if_true] at hu
      cases hu
      simp only at hua
      rw [ha] at hua; cases hua
    · simp only [hid, if_false] at hu
      exact h.detached id u hu hua

/-! ## the operations as updates of the lookup functions -/

theorem getView_putView_eq (s : State) (w : View) {u : View} (h : getView s w.id = some u) (id : Nat) :
    getView (putView s w) id = if id = w.id then some w else getView s id := by
  by_cases hid : id = w.id
  · subst hid; rw [if_pos rfl]; exact getView_putView_self s w h
  · rw [if_neg hid]; exact getView_putView_ne s w hid

theorem getView_push {s : State} (hf : ∀ v ∈ s.views, v.id < s.nextView) (w : View) (hw : w.id = s.nextView)
    (st : Store) (ca : Cache) (n : Nat) (id : Nat) :
    getView ⟨st, ca, s.views ++ [w], n⟩ id = if id = s.nextView then some w else getView s id := by
  unfold getView
  simp only
  rw [find_append_single]
  by_cases hid : id = s.nextView
  · subst hid
    rw [find_none_of_lt hf (Nat.le_refl _)]
    simp [hw]
  · rw [if_neg hid]
    cases hfind : List.find? (fun w => w.id == id) s.views with
    | some u => rfl
    | none =>
      have : ¬ w.id = id := by rw [hw]; exact fun e => hid e.symm
      simp [this]

theorem ViewsOk.getView_lt {c : Ctx} {s : State} (h : ViewsOk c s) {id : Nat} {v : View}
    (hv : getView s id = some v) : id < s.nextView := by
  have := h.fresh v (getView_mem hv)
  rwa [getView_id hv] at this

theorem ViewsOk.getView_next {c : Ctx} {s : State} (h : ViewsOk c s) : getView s s.nextView = none := by
  cases hv : getView s s.nextView with
  | none => rfl
  | some v => exact absurd (h.getView_lt hv) (Nat.lt_irrefl _)

/-- the state after a new attached view was cached for a key without cached view -/
theorem ViewsOk.pushState {c : Ctx} {s : State} (h : ViewsOk c s) {k : Key} (q : QName) (st : Store)
    (hk : cacheGet s.cache k = none) (hq : etreeKey c q = k) (hs : (sget st k).isSome = true)
    (hst : ∀ k', (sget s.store k').isSome = true → (sget st k').isSome = true) :
    ViewsOk c ⟨st, cacheSet s.cache k s.nextView,
      s.views ++ [{ id := s.nextView, attached := true, qname := q, detachedValue := Option.none }], s.nextView + 1⟩ := by
  rw [viewsOk_iff] at *
  refine ⟨idsOk_append h.1 _ rfl, ?_⟩
  have h2 := (h.2.store hst).push (w := { id := s.nextView, attached := true, qname := q, detachedValue := Option.none })
    hk (ViewsOk.getView_next (viewsOk_iff.2 h)) hs rfl hq
  exact h2.congr (fun _ => rfl) (fun k' => cacheGet_cacheSet _ _ _ _) (fun i => getView_push h.1.1 _ rfl _ _ _ _)

theorem ViewsOk.storeState {c : Ctx} {s : State} (h : ViewsOk c s) (st : Store)
    (hst : ∀ k', (sget s.store k').isSome = true → (sget st k').isSome = true) :
    ViewsOk c { s with store := st } := by
  rw [viewsOk_iff] at *
  exact ⟨h.1, h.2.store hst⟩

theorem sset_isSome (s : Store) (k : Key) (x : Str) (k' : Key) (h : (sget s k').isSome = true) :
    (sget (sset s k x) k').isSome = true := by
  rw [sget_sset]
  by_cases hk : k' = k
  · rw [if_pos hk]; rfl
  · rw [if_neg hk]; exact h

/-! ### `getItem` -/

theorem getItem_hit {c : Ctx} {s : State} {a : Accessor} {vid : Nat} (hc : contains c s a = true)
    (hg : cacheGet s.cache (etreeKey c (resolve c a)) = some vid) : getItem c s a = (s, .view vid) := by
  unfold getItem
  simp only [hc, Bool.not_true, Bool.false_eq_true, if_false, hg]

theorem getItem_miss {c : Ctx} {s : State} {a : Accessor} (hc : contains c s a = true)
    (hg : cacheGet s.cache (etreeKey c (resolve c a)) = none) :
    getItem c s a =
      (⟨s.store, cacheSet s.cache (etreeKey c (resolve c a)) s.nextView,
        s.views ++ [{ id := s.nextView, attached := true, qname := reportedName c (resolve c a),
                      detachedValue := Option.none }], s.nextView + 1⟩, .view s.nextView) := by
  unfold getItem
  simp only [hc, Bool.not_true, Bool.false_eq_true, if_false, hg]

theorem getItem_keyError {c : Ctx} {s : State} {a : Accessor} (hc : contains c s a = false) :
    getItem c s a = (s, .keyError) := by
  unfold getItem
  simp [hc]

theorem ViewsOk.getItem {c : Ctx} {s : State} (h : ViewsOk c s) (a : Accessor) : ViewsOk c (getItem c s a).1 := by
  cases hc : contains c s a with
  | false => rw [getItem_keyError hc]; exact h
  | true =>
    cases hg : cacheGet s.cache (etreeKey c (resolve c a)) with
    | some vid => rw [getItem_hit hc hg]; exact h
    | none =>
      rw [getItem_miss hc hg]
      exact h.pushState _ _ hg (etreeKey_reportedName c _) hc (fun _ h => h)

/-- what a successful lookup gives in a state that satisfies the invariant -/
theorem getItem_spec {c : Ctx} {s : State} (h : ViewsOk c s) {a : Accessor} (hc : contains c s a = true) :
    ∃ s' vid v, getItem c s a = (s', .view vid) ∧ ViewsOk c s' ∧ s'.store = s.store ∧
      cacheGet s'.cache (etreeKey c (resolve c a)) = some vid ∧
      getView s' vid = some v ∧ v.attached = true ∧ etreeKey c v.qname = etreeKey c (resolve c a) ∧
      (∀ id, id ≠ vid → getView s' id = getView s id) ∧
      (∀ k, k ≠ etreeKey c (resolve c a) → cacheGet s'.cache k = cacheGet s.cache k) ∧
      (getView s vid = none → vid = s.nextView ∧ cacheGet s.cache (etreeKey c (resolve c a)) = none) ∧
      (∀ u, getView s vid = some u → s' = s) := by
  have hinv := h.getItem a
  cases hg : cacheGet s.cache (etreeKey c (resolve c a)) with
  | some vid =>
    obtain ⟨v, hv, ha, hk⟩ := h.cached _ _ hg
    rw [getItem_hit hc hg] at hinv
    exact ⟨s, vid, v, getItem_hit hc hg, hinv, rfl, hg, hv, ha, hk, fun _ _ => rfl, fun _ _ => rfl,
      fun hn => (by rw [hn] at hv; cases hv), fun _ _ => rfl⟩
  | none =>
    rw [getItem_miss hc hg] at hinv
    refine ⟨_, s.nextView, (⟨s.nextView, true, reportedName c (resolve c a), Option.none⟩ : View), getItem_miss hc hg, hinv, rfl, cacheGet_cacheSet_self _ _ _, ?_, rfl,
      etreeKey_reportedName c _, ?_, ?_, fun _ => ⟨rfl, rfl⟩, ?_⟩
    · rw [getView_push h.fresh _ rfl]; simp
    · intro id hid
      rw [getView_push h.fresh _ rfl, if_neg hid]
    · intro k hk
      exact cacheGet_cacheSet_ne _ _ hk
    · intro u hu
      rw [h.getView_next] at hu; cases hu

/-! ### `setItem` -/

theorem setItem_hit {c : Ctx} {s : State} {a : Accessor} {vid : Nat} (x : Str)
    (hg : cacheGet s.cache (etreeKey c (resolve c a)) = some vid) :
    setItem c s a x = { s with store := sset s.store (etreeKey c (resolve c a)) x } := by
  unfold setItem
  simp only [hg]

theorem setItem_miss {c : Ctx} {s : State} {a : Accessor} (x : Str)
    (hg : cacheGet s.cache (etreeKey c (resolve c a)) = none) :
    setItem c s a x =
      ⟨sset s.store (etreeKey c (resolve c a)) x, cacheSet s.cache (etreeKey c (resolve c a)) s.nextView,
        s.views ++ [{ id := s.nextView, attached := true, qname := reportedName c (resolve c a),
                      detachedValue := Option.none }], s.nextView + 1⟩ := by
  unfold setItem
  simp only [hg]

theorem setItem_store (c : Ctx) (s : State) (a : Accessor) (x : Str) :
    (setItem c s a x).store = sset s.store (etreeKey c (resolve c a)) x := by
  cases hg : cacheGet s.cache (etreeKey c (resolve c a)) with
  | some vid => rw [setItem_hit x hg]
  | none => rw [setItem_miss x hg]

theorem ViewsOk.setItem {c : Ctx} {s : State} (h : ViewsOk c s) (a : Accessor) (x : Str) :
    ViewsOk c (setItem c s a x) := by
  cases hg : cacheGet s.cache (etreeKey c (resolve c a)) with
  | some vid =>
    rw [setItem_hit x hg]
    exact h.storeState _ (sset_isSome _ _ _)
  | none =>
    rw [setItem_miss x hg]
    exact h.pushState _ _ hg (etreeKey_reportedName c _) (by rw [sget_sset_self]; rfl) (sset_isSome _ _ _)

theorem ViewsOk.update {c : Ctx} (items : List (Accessor × Str)) {s : State} (h : ViewsOk c s) :
    ViewsOk c (update c s items) := by
  induction items generalizing s with
  | nil => exact h
  | cons e rest ih => exact ih (h.setItem e.1 e.2)

/-! ### `Attribute.value`, detaching, `delItem` -/

theorem viewValue_attached {c : Ctx} {s : State} {vid : Nat} {v : View} {x : Str} (hv : getView s vid = some v)
    (ha : v.attached = true) (hx : sget s.store (etreeKey c v.qname) = some x) : viewValue c s vid = .value x := by
  simp only [viewValue, hv, ha, if_true, hx]

theorem viewValue_detached {c : Ctx} {s : State} {vid : Nat} {v : View} {x : Str} (hv : getView s vid = some v)
    (ha : v.attached = false) (hx : v.detachedValue = some x) : viewValue c s vid = .value x := by
  simp only [viewValue, hv, ha, Bool.false_eq_true, if_false, hx]

/-- in a state that satisfies the invariant the value of an attached view is the stored value of its key -/
theorem ViewsOk.viewValue {c : Ctx} {s : State} (h : ViewsOk c s) {vid : Nat} {v : View}
    (hv : getView s vid = some v) (ha : v.attached = true) :
    ∃ x, sget s.store (etreeKey c v.qname) = some x ∧ viewValue c s vid = .value x := by
  have hs := h.stored _ _ (h.attached vid v hv ha)
  cases hx : sget s.store (etreeKey c v.qname) with
  | none => rw [hx] at hs; cases hs
  | some x => exact ⟨x, rfl, viewValue_attached hv ha hx⟩

theorem detachView_eq {c : Ctx} {s : State} {vid : Nat} {v : View} {x : Str} (hv : getView s vid = some v)
    (hx : viewValue c s vid = .value x) :
    detachView c s vid = some (putView s { v with attached := false, detachedValue := some x }) := by
  unfold detachView
  simp only [hv, hx]

/-- `delItem` when the key is cached under an attached view whose value can be read (no invariant needed) -/
theorem delItem_eq {c : Ctx} {s : State} {a : Accessor} {vid : Nat} {v : View} {x : Str}
    (hc : contains c s a = true) (hg : cacheGet s.cache (etreeKey c (resolve c a)) = some vid)
    (hv : getView s vid = some v) (hx : viewValue c s vid = .value x) :
    delItem c s a =
      ({ (putView s { v with attached := false, detachedValue := some x }) with
           store := sdel s.store (etreeKey c (resolve c a)), cache := cacheDel s.cache (etreeKey c (resolve c a)) },
       .unit) := by
  have hc' : contains c s (.pair (resolve c a).1 (resolve c a).2) = true := hc
  have hgi : getItem c s (.pair (resolve c a).1 (resolve c a).2) = (s, .view vid) := getItem_hit hc' hg
  unfold delItem
  simp only [hc, Bool.not_true, Bool.false_eq_true, if_false, hgi, detachView_eq hv hx]
  rfl

theorem delItem_keyError {c : Ctx} {s : State} {a : Accessor} (hc : contains c s a = false) :
    delItem c s a = (s, .keyError) := by
  unfold delItem
  simp [hc]

/-- `delItem` in a state that satisfies the invariant: the view of the key (looked up first) is detached with
    the stored value, the key leaves store and cache -/
theorem delItem_spec {c : Ctx} {s : State} (h : ViewsOk c s) {a : Accessor} (hc : contains c s a = true) :
    ∃ s₁ vid v x, getItem c s (.pair (resolve c a).1 (resolve c a).2) = (s₁, .view vid) ∧ ViewsOk c s₁ ∧
      s₁.store = s.store ∧ cacheGet s₁.cache (etreeKey c (resolve c a)) = some vid ∧
      getView s₁ vid = some v ∧ v.attached = true ∧ etreeKey c v.qname = etreeKey c (resolve c a) ∧
      sget s.store (etreeKey c (resolve c a)) = some x ∧
      (∀ id, id ≠ vid → getView s₁ id = getView s id) ∧
      (∀ k, k ≠ etreeKey c (resolve c a) → cacheGet s₁.cache k = cacheGet s.cache k) ∧
      (getView s vid = none → vid = s.nextView ∧ cacheGet s.cache (etreeKey c (resolve c a)) = none) ∧
      (∀ u, getView s vid = some u → s₁ = s) ∧
      delItem c s a =
        ({ (putView s₁ { v with attached := false, detachedValue := some x }) with
             store := sdel s.store (etreeKey c (resolve c a)),
             cache := cacheDel s₁.cache (etreeKey c (resolve c a)) }, .unit) := by
  have hc' : contains c s (.pair (resolve c a).1 (resolve c a).2) = true := hc
  obtain ⟨s₁, vid, v, hgi, h1, hst, hg, hv, ha, hk, hfv, hfc, hnone, hsome⟩ := getItem_spec h hc'
  have hk' : etreeKey c v.qname = etreeKey c (resolve c a) := hk
  obtain ⟨x, hx, hval⟩ := h1.viewValue hv ha
  rw [hk', hst] at hx
  refine ⟨s₁, vid, v, x, hgi, h1, hst, hg, hv, ha, hk', hx, hfv, hfc, hnone, hsome, ?_⟩
  unfold delItem
  simp only [hc, Bool.not_true, Bool.false_eq_true, if_false, hgi, detachView_eq hv hval]
  rw [← hst]
  rfl

theorem ViewsOk.delItem {c : Ctx} {s : State} (h : ViewsOk c s) (a : Accessor) : ViewsOk c (delItem c s a).1 := by
  cases hc : contains c s a with
  | false => rw [delItem_keyError hc]; exact h
  | true =>
    obtain ⟨s₁, vid, v, x, _, h1, hst, hg, hv, ha, hk, hx, _, _, _, _, hd⟩ := delItem_spec h hc
    rw [hd, viewsOk_iff]
    rw [viewsOk_iff] at h1
    refine ⟨idsOk_of_ids h1.1 (putView_ids _ _), ?_⟩
    have h2 := h1.2.detach (sg' := sget (sdel s.store (etreeKey c (resolve c a)))) x hv ha (by
      intro k hne hs
      rw [sget_sdel, if_neg (by rw [← hk]; exact hne), ← hst]
      exact hs)
    refine h2.congr (fun _ => rfl) (fun k => ?_) (fun i => ?_)
    · rw [hk]; exact cacheGet_cacheDel _ _ _
    · have hvid : v.id = vid := getView_id hv
      subst hvid
      exact getView_putView_eq s₁ { v with attached := false, detachedValue := some x } (u := v) hv i

/-! ### `Attribute.value = x` -/

theorem viewSetValue_attached {c : Ctx} {s : State} {vid : Nat} {v : View} (x : Str) (hv : getView s vid = some v)
    (ha : v.attached = true) :
    viewSetValue c s vid x = { s with store := sset s.store (etreeKey c v.qname) x } := by
  unfold viewSetValue
  simp only [hv, ha, if_true]

theorem viewSetValue_detached {c : Ctx} {s : State} {vid : Nat} {v : View} (x : Str) (hv : getView s vid = some v)
    (ha : v.attached = false) :
    viewSetValue c s vid x = putView s { v with detachedValue := some x } := by
  unfold viewSetValue
  simp only [hv, ha, Bool.false_eq_true, if_false]

theorem viewSetValue_none {c : Ctx} {s : State} {vid : Nat} (x : Str) (hv : getView s vid = none) :
    viewSetValue c s vid x = s := by
  unfold viewSetValue
  simp only [hv]

theorem ViewsOk.viewSetValue {c : Ctx} {s : State} (h : ViewsOk c s) (vid : Nat) (x : Str) :
    ViewsOk c (viewSetValue c s vid x) := by
  cases hv : getView s vid with
  | none => rw [viewSetValue_none x hv]; exact h
  | some v =>
    cases ha : v.attached with
    | true =>
      rw [viewSetValue_attached x hv ha]
      exact h.storeState _ (sset_isSome _ _ _)
    | false =>
      rw [viewSetValue_detached x hv ha, viewsOk_iff]
      rw [viewsOk_iff] at h
      refine ⟨idsOk_of_ids h.1 (putView_ids _ _), ?_⟩
      refine (h.2.setDetached x hv ha).congr (fun _ => rfl) (fun _ => rfl) (fun i => ?_)
      have hvid : v.id = vid := getView_id hv
      subst hvid
      exact getView_putView_eq s { v with detachedValue := some x } (u := v) hv i

/-! ### `renameView` -/

theorem renameView_none {c : Ctx} {s : State} {vid : Nat} (nq : QName) (hv : getView s vid = none) :
    renameView c s vid nq = (s, .keyError) := by
  unfold renameView
  simp only [hv]

theorem renameView_same {c : Ctx} {s : State} {vid : Nat} {v : View} (hv : getView s vid = some v) :
    renameView c s vid v.qname = (s, .unit) := by
  unfold renameView
  simp only [hv, beq_self_eq_true, if_true]

theorem renameView_detached {c : Ctx} {s : State} {vid : Nat} {v : View} {nq : QName} (hv : getView s vid = some v)
    (hq : v.qname ≠ nq) (ha : v.attached = false) : renameView c s vid nq = (s, .keyError) := by
  have hq' : (v.qname == nq) = false := by simpa using hq
  unfold renameView
  simp only [hv, hq', ha, Bool.false_eq_true, if_false, Bool.not_false, if_true]

theorem renameView_alias {c : Ctx} {s : State} {vid : Nat} {v : View} {nq : QName} (hv : getView s vid = some v)
    (ha : v.attached = true) (hk : etreeKey c nq = etreeKey c v.qname) : renameView c s vid nq = (s, .unit) := by
  by_cases hq : v.qname = nq
  · subst hq; exact renameView_same hv
  · have hq' : (v.qname == nq) = false := by simpa using hq
    unfold renameView
    simp only [hv, hq', ha, Bool.false_eq_true, if_false, Bool.not_true, hk, beq_self_eq_true, if_true]

/-- the part of `_set_new_key` after the assignment: rename the object, delete the old name -/
theorem renameTail {c : Ctx} {s1 : State} {vid : Nat} {v : View} {nq : QName} {x y : Str}
    (hv : getView s1 vid = some v) (ha : v.attached = true)
    (hne : etreeKey c v.qname ≠ etreeKey c nq)
    (hold : sget s1.store (etreeKey c v.qname) = some y)
    (hnew : sget s1.store (etreeKey c nq) = some x)
    (hcv : cacheGet s1.cache (etreeKey c v.qname) = some vid) :
    ∃ s3, delItem c (putView s1 { v with qname := nq }) (.pair v.qname.1 v.qname.2) = (s3, .unit) ∧
      s3.store = sdel s1.store (etreeKey c v.qname) ∧ s3.cache = cacheDel s1.cache (etreeKey c v.qname) ∧
      s3.nextView = s1.nextView ∧ s3.views.map (·.id) = s1.views.map (·.id) ∧
      (∀ id, getView s3 id =
        if id = vid then some { v with qname := nq, attached := false, detachedValue := some x }
        else getView s1 id) := by
  have hvid : v.id = vid := getView_id hv
  subst hvid
  have hv2 : getView (putView s1 { v with qname := nq }) v.id = some { v with qname := nq } :=
    getView_putView_self s1 { v with qname := nq } (u := v) hv
  have hval : viewValue c (putView s1 { v with qname := nq }) v.id = .value x :=
    viewValue_attached hv2 ha hnew
  have hc : contains c (putView s1 { v with qname := nq }) (.pair v.qname.1 v.qname.2) = true := by
    show (sget s1.store (etreeKey c v.qname)).isSome = true
    rw [hold]; rfl
  have hd := delItem_eq (a := .pair v.qname.1 v.qname.2) hc hcv hv2 hval
  refine ⟨_, hd, rfl, rfl, rfl, ?_, ?_⟩
  · show (putView (putView s1 { v with qname := nq })
        { v with qname := nq, attached := false, detachedValue := some x }).views.map (·.id) = _
    rw [putView_ids, putView_ids]
  · intro id
    show getView (putView (putView s1 { v with qname := nq })
        { v with qname := nq, attached := false, detachedValue := some x }) id = _
    rw [getView_putView_eq _ { v with qname := nq, attached := false, detachedValue := some x } hv2]
    by_cases hid : id = v.id
    · simp [hid]
    · simp only [hid, if_false]
      exact getView_putView_ne s1 { v with qname := nq } hid

/-- `renameView` to a different attribute in a state that satisfies the invariant, as an update of the lookups -/
theorem renameView_spec {c : Ctx} {s : State} (h : ViewsOk c s) {vid : Nat} {v : View} {nq : QName}
    (hv : getView s vid = some v) (ha : v.attached = true) (hk : etreeKey c nq ≠ etreeKey c v.qname) :
    ∃ s' x, renameView c s vid nq = (s', .unit) ∧ sget s.store (etreeKey c v.qname) = some x ∧
      s'.store = sdel (sset s.store (etreeKey c nq) x) (etreeKey c v.qname) ∧
      (∀ k, cacheGet s'.cache k =
        if k = etreeKey c nq then some vid else if k = etreeKey c v.qname then none else cacheGet s.cache k) ∧
      (∀ id, getView s' id =
        if id = vid then some { v with qname := nq, detachedValue := some x }
        else match cacheGet s.cache (etreeKey c nq) with
          | some rid =>
            if id = rid then
              (getView s rid).map (fun r => { r with attached := false, detachedValue := sget s.store (etreeKey c nq) })
            else getView s id
          | Option.none => getView s id) ∧
      idsOk s'.views s'.nextView := by
  have hq : v.qname ≠ nq := fun e => hk (by rw [e])
  have hq' : (v.qname == nq) = false := by simpa using hq
  have hk' : (etreeKey c nq == etreeKey c v.qname) = false := by simpa using hk
  have hne : etreeKey c v.qname ≠ etreeKey c nq := fun e => hk e.symm
  have hcv := h.attached vid v hv ha
  obtain ⟨x, hx, hval⟩ := h.viewValue hv ha
  have hvid : v.id = vid := getView_id hv
  subst hvid
  have hlt : v.id < s.nextView := h.getView_lt hv
  have ha' : (!v.attached) = false := by simp [ha]
  cases hg : cacheGet s.cache (etreeKey c nq) with
  | none =>
    -- no attribute object is cached for the new name: `__setitem__` creates one, it is dropped at the end
    have h1 := setItem_miss (c := c) (s := s) (a := .pair nq.1 nq.2) x hg
    have hv1 : getView (setItem c s (.pair nq.1 nq.2) x) v.id = some v := by
      rw [h1, getView_push h.fresh _ rfl, if_neg (Nat.ne_of_lt hlt)]
      exact hv
    have hold : sget (setItem c s (.pair nq.1 nq.2) x).store (etreeKey c v.qname) = some x := by
      rw [setItem_store]
      show sget (sset s.store (etreeKey c nq) x) _ = _
      rw [sget_sset_ne _ _ hne]; exact hx
    have hnew : sget (setItem c s (.pair nq.1 nq.2) x).store (etreeKey c nq) = some x := by
      rw [setItem_store]
      exact sget_sset_self _ _ _
    have hcv1 : cacheGet (setItem c s (.pair nq.1 nq.2) x).cache (etreeKey c v.qname) = some v.id := by
      rw [h1]
      show cacheGet (cacheSet s.cache (etreeKey c nq) s.nextView) _ = _
      rw [cacheGet_cacheSet_ne _ _ hne]; exact hcv
    obtain ⟨s3, hd, hst3, hca3, hnv3, hids3, hgv3⟩ := renameTail hv1 ha hne hold hnew hcv1
    have hgv3' := hgv3 v.id
    rw [if_pos rfl] at hgv3'
    refine ⟨⟨s3.store, cacheSet s3.cache (etreeKey c nq) v.id, List.filter (fun w => w.id != s.nextView)
      (putView s3 { v with qname := nq, attached := true, detachedValue := some x }).views, s3.nextView⟩,
      x, ?_, hx, ?_, ?_, ?_, ?_⟩
    · unfold renameView
      simp only [hv, hq', ha', hk', hg, hval, hv1, hd, hgv3', Bool.false_eq_true, if_false]
      rfl
    · show s3.store = _
      rw [hst3, setItem_store]; rfl
    · intro k
      show cacheGet (cacheSet s3.cache (etreeKey c nq) v.id) k = _
      rw [cacheGet_cacheSet, hca3, cacheGet_cacheDel, h1]
      show (if k = etreeKey c nq then some v.id else if k = etreeKey c v.qname then none
        else cacheGet (cacheSet s.cache (etreeKey c nq) s.nextView) k) = _
      by_cases hk1 : k = etreeKey c nq
      · simp [hk1]
      · simp only [hk1, if_false]
        rw [cacheGet_cacheSet_ne _ _ hk1]
    · intro id
      show List.find? (fun w => w.id == id) (List.filter (fun w => w.id != s.nextView)
        (putView s3 { v with qname := nq, attached := true, detachedValue := some x }).views) = _
      rw [find_filter_ne]
      have hp := getView_putView_eq s3 { v with qname := nq, attached := true, detachedValue := some x }
        (u := { v with qname := nq, attached := false, detachedValue := some x }) hgv3' id
      unfold getView at hp
      rw [hp]
      by_cases hid : id = v.id
      · subst hid
        have : v = { v with attached := true } := by cases v; simp at ha; simp [ha]
        simp [Nat.ne_of_lt hlt]
        cases v; simp at ha; simp [ha]
      · simp only [hid, if_false]
        have := hgv3 id
        rw [if_neg hid, h1, getView_push h.fresh _ rfl] at this
        by_cases hid2 : id = s.nextView
        · subst hid2
          simp [h.getView_next]
        · simp only [hid2, if_false] at this ⊢
          exact this
    · show idsOk (List.filter (fun w => w.id != s.nextView)
        (putView s3 { v with qname := nq, attached := true, detachedValue := some x }).views) s3.nextView
      apply idsOk_filter
      apply idsOk_of_ids _ (putView_ids _ _)
      rw [hnv3]
      apply idsOk_of_ids _ hids3
      rw [h1]
      exact idsOk_append ⟨h.fresh, h.unique⟩ _ rfl
  | some rid =>
    -- the attribute of the new name is superseded: its cached object is detached with its value
    obtain ⟨r, hr, hra, hrk⟩ := h.cached _ _ hg
    obtain ⟨y, hy, hvaly⟩ := h.viewValue hr hra
    rw [hrk] at hy
    have hrid : r.id = rid := getView_id hr
    subst hrid
    have hne_id : v.id ≠ r.id := by
      intro e
      rw [e, hr] at hv
      cases hv
      exact hk hrk.symm
    have hd0 := detachView_eq hr hvaly
    have hv0 : getView (putView s { r with attached := false, detachedValue := some y }) v.id = some v := by
      rw [getView_putView_ne s { r with attached := false, detachedValue := some y } hne_id]; exact hv
    have hval0 : viewValue c (putView s { r with attached := false, detachedValue := some y }) v.id = .value x :=
      viewValue_attached hv0 ha hx
    have hg0 : cacheGet (putView s { r with attached := false, detachedValue := some y }).cache
        (etreeKey c (resolve c (.pair nq.1 nq.2))) = some r.id := hg
    have h1 := setItem_hit (c := c) (a := .pair nq.1 nq.2) x hg0
    have hv1 : getView (setItem c (putView s { r with attached := false, detachedValue := some y })
        (.pair nq.1 nq.2) x) v.id = some v := by
      rw [h1]; exact hv0
    have hold : sget (setItem c (putView s { r with attached := false, detachedValue := some y })
        (.pair nq.1 nq.2) x).store (etreeKey c v.qname) = some x := by
      rw [setItem_store]
      show sget (sset s.store (etreeKey c nq) x) _ = _
      rw [sget_sset_ne _ _ hne]; exact hx
    have hnew : sget (setItem c (putView s { r with attached := false, detachedValue := some y })
        (.pair nq.1 nq.2) x).store (etreeKey c nq) = some x := by
      rw [setItem_store]
      exact sget_sset_self _ _ _
    have hcv1 : cacheGet (setItem c (putView s { r with attached := false, detachedValue := some y })
        (.pair nq.1 nq.2) x).cache (etreeKey c v.qname) = some v.id := by
      rw [h1]; exact hcv
    obtain ⟨s3, hd, hst3, hca3, hnv3, hids3, hgv3⟩ := renameTail hv1 ha hne hold hnew hcv1
    have hgv3' := hgv3 v.id
    rw [if_pos rfl] at hgv3'
    refine ⟨⟨s3.store, cacheSet s3.cache (etreeKey c nq) v.id,
      (putView s3 { v with qname := nq, attached := true, detachedValue := some x }).views, s3.nextView⟩,
      x, ?_, hx, ?_, ?_, ?_, ?_⟩
    · unfold renameView
      simp only [hv, hq', ha', hk', hg, hd0, hval0, hv1, hd, hgv3', putView_cache, Bool.false_eq_true, if_false]
      rfl
    · show s3.store = _
      rw [hst3, setItem_store]; rfl
    · intro k
      show cacheGet (cacheSet s3.cache (etreeKey c nq) v.id) k = _
      rw [cacheGet_cacheSet, hca3, cacheGet_cacheDel, h1]
      rfl
    · intro id
      have hp := getView_putView_eq s3 { v with qname := nq, attached := true, detachedValue := some x }
        (u := { v with qname := nq, attached := false, detachedValue := some x }) hgv3' id
      show getView (putView s3 { v with qname := nq, attached := true, detachedValue := some x }) id = _
      rw [hp]
      by_cases hid : id = v.id
      · subst hid
        cases v; simp at ha; simp [ha]
      · simp only [hid, if_false]
        have := hgv3 id
        rw [if_neg hid, h1] at this
        rw [this]
        show getView (putView s { r with attached := false, detachedValue := some y }) id = _
        rw [getView_putView_eq s { r with attached := false, detachedValue := some y } (u := r) hr, hr, hy]
        rfl
    · show idsOk (putView s3 { v with qname := nq, attached := true, detachedValue := some x }).views s3.nextView
      apply idsOk_of_ids _ (putView_ids _ _)
      rw [hnv3]
      apply idsOk_of_ids _ hids3
      rw [h1]
      exact idsOk_of_ids ⟨h.fresh, h.unique⟩ (putView_ids _ _)

theorem ViewsOk.renameView {c : Ctx} {s : State} (h : ViewsOk c s) (vid : Nat) (nq : QName) :
    ViewsOk c (renameView c s vid nq).1 := by
  cases hv : getView s vid with
  | none => rw [renameView_none nq hv]; exact h
  | some v =>
    by_cases hq : v.qname = nq
    · subst hq; rw [renameView_same hv]; exact h
    · cases ha : v.attached with
      | false => rw [renameView_detached hv hq ha]; exact h
      | true =>
        by_cases hk : etreeKey c nq = etreeKey c v.qname
        · rw [renameView_alias hv ha hk]; exact h
        · obtain ⟨s', x, hr, hx, hst, hca, hgv, hids⟩ := renameView_spec h hv ha hk
          rw [hr, viewsOk_iff]
          refine ⟨hids, ?_⟩
          rw [viewsOk_iff] at h
          have hnew : (sget s'.store (etreeKey c nq)).isSome = true := by
            rw [hst, sget_sdel, if_neg hk, sget_sset_self]; rfl
          have hs : ∀ k, k ≠ etreeKey c v.qname → (sget s.store k).isSome = true → (sget s'.store k).isSome = true := by
            intro k hne hk'
            rw [hst, sget_sdel, if_neg hne]
            exact sset_isSome _ _ _ _ hk'
          cases hg : cacheGet s.cache (etreeKey c nq) with
          | none =>
            refine (h.2.move nq (some x) hv ha hg hnew hs).congr (fun _ => rfl) hca (fun i => ?_)
            rw [hgv i, hg]
          | some rid =>
            obtain ⟨r, hr', hra, hrk⟩ := h.2.cached _ _ hg
            have hne_id : vid ≠ rid := by
              intro e
              rw [e, hr'] at hv
              cases hv
              exact hk hrk.symm
            have hsome := h.2.stored _ _ hg
            cases hy : sget s.store (etreeKey c nq) with
            | none => rw [hy] at hsome; cases hsome
            | some y =>
              have h1 := h.2.detach (sg' := sget s.store) y hr' hra (fun _ _ hs => hs)
              have hv1 : (fun i => if i = rid then some { r with attached := false, detachedValue := some y }
                  else getView s i) vid = some v := by
                simp only [hne_id, if_false]; exact hv
              have h2 := h1.move nq (some x) hv1 ha (by simp [hrk]) hnew hs
              refine h2.congr (fun _ => rfl) (fun k => ?_) (fun i => ?_)
              · rw [hca k, hrk]
                by_cases hk1 : k = etreeKey c nq
                · simp [hk1]
                · simp [hk1]
              · rw [hgv i, hg]
                by_cases hi : i = vid
                · simp [hi]
                · simp only [hi, if_false]
                  by_cases hi2 : i = rid
                  · simp [hi2, hr', hy]
                  · simp [hi2]

/-! ### the mixin methods -/

theorem ViewsOk.pop {c : Ctx} {s : State} (h : ViewsOk c s) (a : Accessor) : ViewsOk c (pop c s a).1 := by
  have h1 := h.getItem a
  unfold Attrs.pop
  cases hr : (Attrs.getItem c s a).2 with
  | view vid =>
    have : Attrs.getItem c s a = ((Attrs.getItem c s a).1, .view vid) := by rw [← hr]
    rw [this]
    exact h1.delItem a
  | _ =>
    rw [show Attrs.getItem c s a = ((Attrs.getItem c s a).1, (Attrs.getItem c s a).2) from rfl, hr]
    exact h1

theorem ViewsOk.setDefault {c : Ctx} {s : State} (h : ViewsOk c s) (a : Accessor) (d : Str) :
    ViewsOk c (setDefault c s a d).1 := by
  have h1 := h.getItem a
  unfold Attrs.setDefault
  cases hr : (Attrs.getItem c s a).2 with
  | view vid =>
    have : Attrs.getItem c s a = ((Attrs.getItem c s a).1, .view vid) := by rw [← hr]
    rw [this]
    exact h1
  | _ =>
    rw [show Attrs.getItem c s a = ((Attrs.getItem c s a).1, (Attrs.getItem c s a).2) from rfl, hr]
    exact h.setItem a d

theorem ViewsOk.popItem {c : Ctx} {s : State} (h : ViewsOk c s) : ViewsOk c (popItem c s).1 := by
  unfold Attrs.popItem
  cases iter c s with
  | nil => exact h
  | cons key _ => exact h.pop _

theorem ViewsOk.clearLoop {c : Ctx} (n : Nat) {s : State} (h : ViewsOk c s) : ViewsOk c (clearLoop c n s) := by
  induction n generalizing s with
  | zero => exact h
  | succ n ih =>
    unfold Attrs.clearLoop
    have h1 := h.popItem
    generalize Attrs.popItem c s = r at h1
    obtain ⟨s1, k, res⟩ := r
    cases k with
    | none => exact h
    | some q =>
      cases res <;> first | exact h | exact ih h1

theorem ViewsOk.clear {c : Ctx} {s : State} (h : ViewsOk c s) : ViewsOk c (clear c s) := h.clearLoop _

theorem viewsOk_empty (c : Ctx) (st : Store) (n : Nat) : ViewsOk c ⟨st, [], [], n⟩ := by
  refine ⟨by simp, by simp, ?_, ?_, ?_, ?_⟩
  · intro k id h; simp [cacheGet] at h
  · intro id v h; simp [getView] at h
  · intro k id h; simp [cacheGet] at h
  · intro id v h; simp [getView] at h

/-! ## `storeOk` along the operations -/

theorem getItem_store (c : Ctx) (s : State) (a : Accessor) : (getItem c s a).1.store = s.store := by
  unfold getItem
  cases contains c s a with
  | false => rfl
  | true =>
    simp only [Bool.not_true, Bool.false_eq_true, if_false]
    cases cacheGet s.cache (etreeKey c (resolve c a)) <;> rfl

theorem detachView_store {c : Ctx} {s s' : State} {vid : Nat} (h : detachView c s vid = some s') :
    s'.store = s.store := by
  unfold detachView at h
  cases hv : getView s vid with
  | none => simp [hv] at h
  | some v =>
    simp only [hv] at h
    cases hx : viewValue c s vid <;> simp [hx] at h
    rw [← h]; rfl

/-- the store after `delItem`: unchanged when it raises, else without the key -/
theorem delItem_store (c : Ctx) (s : State) (a : Accessor) :
    ((delItem c s a).2 = .keyError ∧ (delItem c s a).1.store = s.store) ∨
    ((delItem c s a).2 = .unit ∧ (delItem c s a).1.store = sdel s.store (etreeKey c (resolve c a))) := by
  unfold delItem
  cases hc : contains c s a with
  | false => left; simp
  | true =>
    simp only [Bool.not_true, Bool.false_eq_true, if_false]
    have hst := getItem_store c s (.pair (resolve c a).1 (resolve c a).2)
    generalize getItem c s (.pair (resolve c a).1 (resolve c a).2) = r at hst
    obtain ⟨s1, res⟩ := r
    cases res <;> try (left; exact ⟨rfl, hst⟩)
    rename_i vid
    simp only
    split
    · rename_i s2 hd
      right
      refine ⟨rfl, ?_⟩
      show sdel s2.store _ = _
      rw [detachView_store hd]
      exact congrArg (fun st => sdel st _) hst
    · left; exact ⟨rfl, hst⟩

theorem storeOk_delItem {c : Ctx} {s : State} (hok : storeOk c s.store) (a : Accessor) :
    storeOk c (delItem c s a).1.store := by
  rcases delItem_store c s a with ⟨_, h⟩ | ⟨_, h⟩
  · rw [h]; exact hok
  · rw [h]; exact storeOk_sdel hok _

theorem viewSetValue_store (c : Ctx) (s : State) (vid : Nat) (x : Str) :
    (viewSetValue c s vid x).store = s.store ∨
    ∃ v, getView s vid = some v ∧ v.attached = true ∧ (viewSetValue c s vid x).store = sset s.store (etreeKey c v.qname) x := by
  cases hv : getView s vid with
  | none => left; rw [viewSetValue_none x hv]
  | some v =>
    cases ha : v.attached with
    | true => right; exact ⟨v, rfl, ha, by rw [viewSetValue_attached x hv ha]⟩
    | false => left; rw [viewSetValue_detached x hv ha]; rfl

theorem storeOk_viewSetValue {c : Ctx} {s : State} (hok : storeOk c s.store) (vid : Nat) (x : Str) :
    storeOk c (viewSetValue c s vid x).store := by
  rcases viewSetValue_store c s vid x with h | ⟨v, _, _, h⟩
  · rw [h]; exact hok
  · rw [h]; exact storeOk_sset hok _ _

theorem storeOk_setItem {c : Ctx} {s : State} (hok : storeOk c s.store) (a : Accessor) (x : Str) :
    storeOk c (setItem c s a x).store := by
  rw [setItem_store]; exact storeOk_sset hok _ _

theorem Inv.renameView {c : Ctx} {s : State} (h : Inv c s) (vid : Nat) (nq : QName) :
    Inv c (renameView c s vid nq).1 := by
  refine ⟨?_, h.2.renameView vid nq⟩
  cases hv : getView s vid with
  | none => rw [renameView_none nq hv]; exact h.1
  | some v =>
    by_cases hq : v.qname = nq
    · subst hq; rw [renameView_same hv]; exact h.1
    · cases ha : v.attached with
      | false => rw [renameView_detached hv hq ha]; exact h.1
      | true =>
        by_cases hk : etreeKey c nq = etreeKey c v.qname
        · rw [renameView_alias hv ha hk]; exact h.1
        · obtain ⟨s', x, hr, _, hst, _⟩ := renameView_spec h.2 hv ha hk
          rw [hr]
          show storeOk c s'.store
          rw [hst]
          exact storeOk_sdel (storeOk_sset h.1 _ _) _

theorem Inv.getItem {c : Ctx} {s : State} (h : Inv c s) (a : Accessor) : Inv c (getItem c s a).1 :=
  ⟨by rw [getItem_store]; exact h.1, h.2.getItem a⟩

theorem Inv.setItem {c : Ctx} {s : State} (h : Inv c s) (a : Accessor) (x : Str) : Inv c (setItem c s a x) :=
  ⟨storeOk_setItem h.1 a x, h.2.setItem a x⟩

theorem Inv.delItem {c : Ctx} {s : State} (h : Inv c s) (a : Accessor) : Inv c (delItem c s a).1 :=
  ⟨storeOk_delItem h.1 a, h.2.delItem a⟩

theorem Inv.viewSetValue {c : Ctx} {s : State} (h : Inv c s) (vid : Nat) (x : Str) :
    Inv c (viewSetValue c s vid x) :=
  ⟨storeOk_viewSetValue h.1 vid x, h.2.viewSetValue vid x⟩

theorem Inv.update {c : Ctx} (items : List (Accessor × Str)) {s : State} (h : Inv c s) : Inv c (update c s items) := by
  induction items generalizing s with
  | nil => exact h
  | cons e rest ih => exact ih (h.setItem e.1 e.2)

theorem Inv.pop {c : Ctx} {s : State} (h : Inv c s) (a : Accessor) : Inv c (pop c s a).1 := by
  have h1 := h.getItem a
  unfold Attrs.pop
  cases hr : (Attrs.getItem c s a).2 with
  | view vid =>
    have : Attrs.getItem c s a = ((Attrs.getItem c s a).1, .view vid) := by rw [← hr]
    rw [this]
    exact h1.delItem a
  | _ =>
    rw [show Attrs.getItem c s a = ((Attrs.getItem c s a).1, (Attrs.getItem c s a).2) from rfl, hr]
    exact h1

/-! ## dictionaries -/

theorem sget_etreeKey {c : Ctx} {st : Store} (hok : storeOk c st) (q : QName) :
    sget st (etreeKey c q) = dictGet (absStore st) (canon c q) := by
  have h := sget_eq st (etreeKey c q) (storeOk_fst_ne hok) (etreeKey_fst_ne _ _)
  rwa [unkey_etreeKey] at h

theorem etreeKey_eq_iff (c : Ctx) (q₁ q₂ : QName) : etreeKey c q₁ = etreeKey c q₂ ↔ canon c q₁ = canon c q₂ :=
  ⟨fun h => by rw [← unkey_etreeKey, ← unkey_etreeKey, h], fun h => by rw [etreeKey_eq, etreeKey_eq, h]⟩

theorem dictDel_dictSet_comm (d : Dict) {n o : QName} (x : Str) (hne : n ≠ o) :
    dictDel (dictSet d n x) o = dictSet (dictDel d o) n x := by
  induction d with
  | nil => simp [dictSet, dictDel, hne]
  | cons e rest ih =>
    obtain ⟨q, v⟩ := e
    unfold dictDel at *
    by_cases h1 : q = n
    · subst h1
      simp [dictSet, hne]
    · by_cases h2 : q = o
      · subst h2
        simp [dictSet, h1, ih]
      · simp [dictSet, h1, h2, ih]

theorem sget_of_mem {st : Store} (hn : (st.map (·.1)).Nodup) {k : Key} {v : Str} (h : (k, v) ∈ st) :
    sget st k = some v := by
  induction st with
  | nil => cases h
  | cons e rest ih =>
    obtain ⟨k', v'⟩ := e
    simp only [List.map_cons, List.nodup_cons] at hn
    rcases List.mem_cons.1 h with h | h
    · cases h; simp [sget]
    · have hne : k' ≠ k := fun e => hn.1 (e ▸ List.mem_map.2 ⟨(k, v), h, rfl⟩)
      simp [sget, hne, ih hn.2 h]

theorem mem_of_sget {st : Store} {k : Key} {v : Str} (h : sget st k = some v) : (k, v) ∈ st := by
  induction st with
  | nil => cases h
  | cons e rest ih =>
    obtain ⟨k', v'⟩ := e
    unfold sget at h
    by_cases hk : (k' == k) = true
    · rw [if_pos hk] at h
      cases h
      have : k' = k := by simpa using hk
      subst this
      exact List.mem_cons_self
    · rw [if_neg hk] at h
      exact List.mem_cons_of_mem _ (ih h)

theorem iter_eq (c : Ctx) (s : State) : iter c s = (reportedDict c s.store).map (·.1) := by
  unfold iter reportedDict
  rw [List.map_map]
  rfl

/-- an entry of the dictionary of reported names: the name is iterated and looking it up gives the value -/
theorem mem_reportedDict_iff {c : Ctx} {st : Store} (hok : storeOk c st) (q : QName) (v : Str) :
    (q, v) ∈ reportedDict c st ↔
      q ∈ (reportedDict c st).map (·.1) ∧ sget st (etreeKey c q) = some v := by
  unfold reportedDict
  constructor
  · intro h
    obtain ⟨⟨k, v'⟩, he, heq⟩ := List.mem_map.1 h
    simp only [Prod.mk.injEq] at heq
    obtain ⟨rfl, rfl⟩ := heq
    refine ⟨List.mem_map.2 ⟨(iterName c k, v'), h, rfl⟩, ?_⟩
    rw [etreeKey_iterName (hok.1 _ he)]
    exact sget_of_mem hok.2 he
  · rintro ⟨h1, h2⟩
    obtain ⟨⟨q', v'⟩, he, rfl⟩ := List.mem_map.1 h1
    obtain ⟨⟨k, v''⟩, hk, heq⟩ := List.mem_map.1 he
    simp only [Prod.mk.injEq] at heq
    obtain ⟨rfl, rfl⟩ := heq
    simp only at h2
    rw [etreeKey_iterName (hok.1 _ hk), sget_of_mem hok.2 hk] at h2
    cases h2
    exact he

theorem nodup_map_of_leftInv {α β : Type} {f : α → β} {g : β → α} {l : List α} (h : ∀ a ∈ l, g (f a) = a)
    (hn : l.Nodup) : (l.map f).Nodup := by
  induction l with
  | nil => simp
  | cons a rest ih =>
    simp only [List.nodup_cons] at hn
    simp only [List.map_cons, List.nodup_cons]
    refine ⟨?_, ih (fun b hb => h b (List.mem_cons_of_mem _ hb)) hn.2⟩
    intro hmem
    obtain ⟨b, hb, e⟩ := List.mem_map.1 hmem
    have : b = a := by
      rw [← h b (List.mem_cons_of_mem _ hb), e, h a List.mem_cons_self]
    exact hn.1 (this ▸ hb)

theorem reportedDict_keys_nodup {c : Ctx} {st : Store} (hok : storeOk c st) :
    ((reportedDict c st).map (·.1)).Nodup := by
  have : (reportedDict c st).map (·.1) = (st.map (·.1)).map (iterName c) := by
    unfold reportedDict
    rw [List.map_map, List.map_map]
    rfl
  rw [this]
  refine nodup_map_of_leftInv (g := etreeKey c) ?_ hok.2
  intro k hk
  obtain ⟨e, he, rfl⟩ := List.mem_map.1 hk
  exact etreeKey_iterName (hok.1 e he)

/-- pigeonhole: a duplicate-free list inside a list that is not longer contains all of it -/
theorem subset_of_nodup_of_length_le {α : Type} {l₁ l₂ : List α} (hn : l₁.Nodup) (hsub : l₁ ⊆ l₂)
    (hlen : l₂.length ≤ l₁.length) : l₂ ⊆ l₁ := by
  intro x hx
  apply Classical.byContradiction
  intro hnot
  have hn' : (x :: l₁).Nodup := List.nodup_cons.2 ⟨hnot, hn⟩
  have hsub' : (x :: l₁) ⊆ l₂ := by
    intro y hy
    rcases List.mem_cons.1 hy with rfl | hy
    · exact hx
    · exact hsub hy
  have := List.Nodup.length_le_of_subset hn' hsub'
  simp at this
  omega

/-! ## fixtures of the non-vacuity examples in `Props/C11.lean`

An element `<e xmlns="urn:u" xmlns:q="urn:q" a="1" q:b="2"/>`: the default namespace is the element's. -/

/-- the example element context -/
def exCtx : Ctx := { nodeNs := "urn:u", defaultNs := "urn:u" }
/-- its store -/
def exStore : Store := [((none, "a"), ['1']), ((some "urn:q", "b"), ['2'])]
/-- the freshly wrapped element -/
def exInit : State := ⟨exStore, [], [], 0⟩
/-- after `A["a"]` and `A["{urn:q}b"]`: two attribute objects are held -/
def exHeld : State := (getItem exCtx (getItem exCtx exInit (.local_ "a")).1 (.clark "urn:q" "b")).1
/-- after `del A[("", "a")]` (the other spelling of `a`) -/
def exRemoved : State := (delItem exCtx exHeld (.pair "" "a")).1

theorem exStore_ok : storeOk exCtx exStore := by
  refine ⟨?_, by decide⟩
  intro e he ns hns
  simp only [exStore, List.mem_cons, List.not_mem_nil, or_false] at he
  rcases he with rfl | rfl
  · cases hns
  · cases hns; exact ⟨by decide, by decide⟩

theorem ex_reachable : Reachable exCtx exInit ∧ Reachable exCtx exHeld ∧ Reachable exCtx exRemoved := by
  have h0 : Reachable exCtx exInit := .init _ _ exStore_ok
  have h1 : Reachable exCtx exHeld := .getItem _ (.getItem _ h0)
  exact ⟨h0, h1, .delItem _ h1⟩

/-! ## Clark notation of names given as strings -/

theorem split_at_brace (a l : List Char) (h : '}' ∉ a) :
    (a ++ '}' :: l).takeWhile (· != '}') = a ∧ (a ++ '}' :: l).dropWhile (· != '}') = '}' :: l := by
  induction a with
  | nil => simp
  | cons c cs ih =>
    have hc : c ≠ '}' := fun e => h (e ▸ List.mem_cons_self)
    have hcs : '}' ∉ cs := fun m => h (List.mem_cons_of_mem _ m)
    obtain ⟨h1, h2⟩ := ih hcs
    simp [hc, h1, h2]

theorem deconstructClark_clark (ns l : String) (h : '}' ∉ ns.toList) :
    deconstructClark ("{" ++ ns ++ "}" ++ l) = some (some ns, l) := by
  unfold deconstructClark
  have e : ("{" ++ ns ++ "}" ++ l).toList = '{' :: (ns.toList ++ '}' :: l.toList) := by
    simp [String.toList_append]
  rw [e]
  obtain ⟨h1, h2⟩ := split_at_brace ns.toList l.toList h
  simp only [h1, h2]
  simp

theorem deconstructClark_plain (n : String) (h : n.toList.head? ≠ some '{') :
    deconstructClark n = some (none, n) := by
  unfold deconstructClark
  cases hn : n.toList with
  | nil => rfl
  | cons c cs =>
    have hc : c ≠ '{' := by
      intro e; apply h; rw [hn, e]; rfl
    split
    · rename_i rest heq
      cases heq
      exact absurd rfl hc
    · rfl

end Delb.Attrs

import DelbModel.Model.XPath.Eval
import DelbModel.Lemmas.LocationPath
import DelbModel.Lemmas.XPath
/-! helper lemmas for `c14_parse_location_path_partial` (Props/C14.lean): tokenizing and parsing the string
`/*` ++ `/*[k]`...

* ASCII digits: the ten characters, checked one by one against the generated tables (`lpp_forall_digit`)
* `grab` on the five kinds of token that occur; `tokenizeAux` on the pieces (`lppToks`), `tokenize`
* `groupAux` / `groupEnclosed` (`lppTTs`), `expandAxes`, `partitionAux` (`lppParts`, `lppStepTTs`)
* `parseExpr` on a number, `parsePreds` on `[k]`, `parseStep` on `*` and on `*[k]`: the number is refused when
  its digit string is longer than `Gen.intMaxStrDigits` (`lppFits` says that it is not)
* `parseSteps`, `parsePath`, `parse`: the expression when every index fits, "Number literal is too long."
  otherwise; a tree with `10 ^ Gen.intMaxStrDigits` tag children is the counterexample to the
  unconditional statement
-/
namespace Delb.XPath
open Delb.Edit

theorem lpp_digit_cases {c : Char} (h : c.isDigit = true) :
    c = '0' ∨ c = '1' ∨ c = '2' ∨ c = '3' ∨ c = '4' ∨ c = '5' ∨ c = '6' ∨ c = '7' ∨ c = '8' ∨ c = '9' := by
  rw [Char.isDigit_iff_toNat] at h
  have h1 : c.toNat = 48 ∨ c.toNat = 49 ∨ c.toNat = 50 ∨ c.toNat = 51 ∨ c.toNat = 52 ∨ c.toNat = 53 ∨
      c.toNat = 54 ∨ c.toNat = 55 ∨ c.toNat = 56 ∨ c.toNat = 57 := by
    have : '0'.toNat = 48 := rfl
    have : '9'.toNat = 57 := rfl
    omega
  rcases h1 with h | h | h | h | h | h | h | h | h | h
  all_goals
    have := congrArg Char.ofNat h
    rw [Char.ofNat_toNat] at this
    simp [this]

/-- a property of the ten ASCII digits, checked one by one -/
theorem lpp_forall_digit {P : Char → Prop} (h : P '0' ∧ P '1' ∧ P '2' ∧ P '3' ∧ P '4' ∧ P '5' ∧ P '6' ∧ P '7' ∧ P '8' ∧ P '9')
    {c : Char} (hc : c.isDigit = true) : P c := by
  obtain ⟨h0, h1, h2, h3, h4, h5, h6, h7, h8, h9⟩ := h
  rcases lpp_digit_cases hc with rfl | rfl | rfl | rfl | rfl | rfl | rfl | rfl | rfl | rfl <;> assumption

theorem lpp_isDigit_of_digit {c : Char} (hc : c.isDigit = true) : isDigit c = true :=
  lpp_forall_digit (P := fun c => isDigit c = true) (by decide) hc

theorem lpp_isDelim_of_digit {c : Char} (hc : c.isDigit = true) : isDelim c = false :=
  lpp_forall_digit (P := fun c => isDelim c = false) (by decide) hc

theorem lpp_digitValue_of_digit {c : Char} (hc : c.isDigit = true) :
    digitValue c Gen.tokDigitValues = c.toNat - '0'.toNat :=
  lpp_forall_digit (P := fun c => digitValue c Gen.tokDigitValues = c.toNat - '0'.toNat) (by decide) hc


theorem lpp_takeWhile_digits (ds rest : List Char) (hds : ∀ c ∈ ds, c.isDigit = true) :
    (ds ++ ']' :: rest).takeWhile isDigit = ds := by
  induction ds with
  | nil =>
    have : isDigit ']' = false := by decide
    simp [this]
  | cons d ds ih =>
    have hd := lpp_isDigit_of_digit (hds d (by simp))
    simp only [List.cons_append, List.takeWhile_cons, hd, if_true]
    rw [ih (fun c hc => hds c (List.mem_cons_of_mem _ hc))]

theorem lpp_grab_number (ds rest : List Char) (hne : ds ≠ []) (hds : ∀ c ∈ ds, c.isDigit = true) :
    grab (ds ++ ']' :: rest) = some (ds.length, .NUMBER) := by
  cases ds with
  | nil => exact absurd rfl hne
  | cons d ds =>
    have hd := hds d (by simp)
    simp only [List.cons_append, grab, lpp_isDelim_of_digit hd, lpp_isDigit_of_digit hd, if_true,
      lpp_takeWhile_digits ds rest (fun c hc => hds c (List.mem_cons_of_mem _ hc)), List.length_cons]
    simp [Nat.add_comm]

theorem lpp_intOfDigits (ds : List Char) (hds : ∀ c ∈ ds, c.isDigit = true) :
    intOfDigits ds = Nat.ofDigitChars 10 ds 0 := by
  unfold intOfDigits Nat.ofDigitChars
  generalize 0 = init
  induction ds generalizing init with
  | nil => rfl
  | cons d ds ih =>
    simp only [List.foldl_cons, lpp_digitValue_of_digit (hds d (by simp))]
    rw [ih (fun c hc => hds c (List.mem_cons_of_mem _ hc)), Nat.mul_comm]

theorem lpp_intOfDigits_toDigits (n : Nat) : intOfDigits (Nat.toDigits 10 n) = n := by
  rw [lpp_intOfDigits _ (fun c hc => Nat.isDigit_of_mem_toDigits (by decide) (by decide) hc)]
  exact Nat.ofDigitChars_ten_toDigits

theorem lpp_grab_asterisk (rest : List Char) : grab ('*' :: rest) = some (1, .ASTERISK) := by
  have h1 : isDelim '*' = false := by decide
  have h2 : isDigit '*' = false := by decide
  have h3 : isNameStart '*' = false := by decide
  simp [grab, h1, h2, h3, matchLiteral, Gen.tokLiterals, TokType.ofName]

theorem lpp_grab_open (rest : List Char) : grab ('[' :: rest) = some (1, .OPEN_BRACKET) := by
  have h1 : isDelim '[' = false := by decide
  have h2 : isDigit '[' = false := by decide
  have h3 : isNameStart '[' = false := by decide
  simp [grab, h1, h2, h3, matchLiteral, Gen.tokLiterals, TokType.ofName]

theorem lpp_grab_close (rest : List Char) : grab (']' :: rest) = some (1, .CLOSE_BRACKET) := by
  have h1 : isDelim ']' = false := by decide
  have h2 : isDigit ']' = false := by decide
  have h3 : isNameStart ']' = false := by decide
  simp [grab, h1, h2, h3, matchLiteral, Gen.tokLiterals, TokType.ofName]

theorem lpp_grab_slash_ast (rest : List Char) : grab ('/' :: '*' :: rest) = some (1, .SLASH) := by
  have h1 : isDelim '/' = false := by decide
  have h2 : isDigit '/' = false := by decide
  have h3 : isNameStart '/' = false := by decide
  simp [grab, h1, h2, h3, matchLiteral, Gen.tokLiterals, TokType.ofName]


/-- the tokens of `/*[k+1]`..., first one at offset `off` -/
def lppToks (off : Nat) : List Nat → List Token
  | [] => []
  | k :: ks =>
    { pos := off, str := ['/'], type := .SLASH } ::
    { pos := off + 1, str := ['*'], type := .ASTERISK } ::
    { pos := off + 2, str := ['['], type := .OPEN_BRACKET } ::
    { pos := off + 3, str := Nat.toDigits 10 (k + 1), type := .NUMBER } ::
    { pos := off + 3 + (Nat.toDigits 10 (k + 1)).length, str := [']'], type := .CLOSE_BRACKET } ::
    lppToks (off + 3 + (Nat.toDigits 10 (k + 1)).length + 1) ks

theorem lpp_tokenizeAux_step (fuel idx : Nat) (cs : List Char) (n : Nat) (ty : TokType) (ts : List Token)
    (hne : cs ≠ []) (hg : grab cs = some (n, ty)) (hty : ty ≠ .WHITESPACE)
    (hrest : tokenizeAux fuel (idx + n) (cs.drop n) = .ok ts) :
    tokenizeAux (fuel + 1) idx cs = .ok ({ pos := idx, str := cs.take n, type := ty } :: ts) := by
  cases cs with
  | nil => exact absurd rfl hne
  | cons c cs =>
    simp only [tokenizeAux, hg, hrest, hty, if_false]

theorem lpp_tokenizeAux (ks : List Nat) : ∀ (fuel off : Nat), 5 * ks.length ≤ fuel →
    tokenizeAux fuel off ((ks.map idxPiece).flatten) = .ok (lppToks off ks) := by
  induction ks with
  | nil => intro fuel off _; cases fuel <;> simp [tokenizeAux, lppToks]
  | cons k ks ih =>
    intro fuel off hf
    obtain ⟨f, rfl⟩ : ∃ f, fuel = f + 5 := ⟨fuel - 5, by simp at hf; omega⟩
    have hf' : 5 * ks.length ≤ f := by simp at hf; omega
    have hdig : ∀ c ∈ Nat.toDigits 10 (k + 1), c.isDigit = true :=
      fun c hc => Nat.isDigit_of_mem_toDigits (by decide) (by decide) hc
    simp only [List.map_cons, List.flatten_cons, idxPiece_eq, List.cons_append, List.append_assoc, List.nil_append]
    rw [lppToks]
    refine lpp_tokenizeAux_step _ _ _ 1 _ _ (by simp) (lpp_grab_slash_ast _) (by decide) ?_
    refine lpp_tokenizeAux_step _ _ _ 1 _ _ (by simp) (lpp_grab_asterisk _) (by decide) ?_
    refine lpp_tokenizeAux_step _ _ _ 1 _ _ (by simp) (lpp_grab_open _) (by decide) ?_
    have h4 := lpp_tokenizeAux_step (f + 1) (off + 1 + 1 + 1)
      (Nat.toDigits 10 (k + 1) ++ ']' :: (ks.map idxPiece).flatten) _ _
      ({ pos := off + 3 + (Nat.toDigits 10 (k + 1)).length, str := [']'], type := .CLOSE_BRACKET } ::
        lppToks (off + 3 + (Nat.toDigits 10 (k + 1)).length + 1) ks)
      (by simp) (lpp_grab_number _ _ Nat.toDigits_ne_nil hdig) (by decide) (by
        rw [List.drop_left]
        have h5 := lpp_tokenizeAux_step f (off + 1 + 1 + 1 + (Nat.toDigits 10 (k + 1)).length)
          (']' :: (ks.map idxPiece).flatten) 1 _ _ (by simp) (lpp_grab_close _) (by decide)
          (ih f _ hf')
        simpa [Nat.add_assoc] using h5)
    simpa [Nat.add_assoc] using h4


theorem lpp_length_pieces (ks : List Nat) : 5 * ks.length ≤ ((ks.map idxPiece).flatten).length := by
  induction ks with
  | nil => simp
  | cons k ks ih =>
    have := Nat.length_toDigits_pos (b := 10) (n := k + 1)
    simp only [List.map_cons, List.flatten_cons, idxPiece_eq, List.length_append, List.length_cons, List.length_nil]
    omega

theorem lpp_tokenize (ks : List Nat) :
    tokenize ("/*".toList ++ (ks.map idxPiece).flatten) =
      .ok ({ pos := 0, str := ['/'], type := .SLASH } :: { pos := 1, str := ['*'], type := .ASTERISK } ::
        lppToks 2 ks) := by
  have hlen := lpp_length_pieces ks
  unfold tokenize
  have e : "/*".toList ++ (ks.map idxPiece).flatten = '/' :: '*' :: (ks.map idxPiece).flatten := rfl
  rw [e]
  simp only [List.length_cons]
  have h := lpp_tokenizeAux_step (((ks.map idxPiece).flatten).length + 1 + 1) 0
    ('/' :: '*' :: (ks.map idxPiece).flatten) 1 _ _ (by simp) (lpp_grab_slash_ast _) (by decide)
    (lpp_tokenizeAux_step (((ks.map idxPiece).flatten).length + 1) 1
      ('*' :: (ks.map idxPiece).flatten) 1 _ _ (by simp) (lpp_grab_asterisk _) (by decide)
      (lpp_tokenizeAux ks _ 2 (by omega)))
  simpa using h

/-- the grouped tokens of `/*[k+1]`... -/
def lppTTs (off : Nat) : List Nat → List TT
  | [] => []
  | k :: ks =>
    .tok { pos := off, str := ['/'], type := .SLASH } ::
    .tok { pos := off + 1, str := ['*'], type := .ASTERISK } ::
    .tok { pos := off + 2, str := ['['], type := .OPEN_BRACKET } ::
    .group [.tok { pos := off + 3, str := Nat.toDigits 10 (k + 1), type := .NUMBER }] ::
    .tok { pos := off + 3 + (Nat.toDigits 10 (k + 1)).length, str := [']'], type := .CLOSE_BRACKET } ::
    lppTTs (off + 3 + (Nat.toDigits 10 (k + 1)).length + 1) ks

theorem lpp_groupAux (ks : List Nat) : ∀ (off : Nat) (acc : List TT),
    groupAux (lppToks off ks) [] acc = .ok (acc.reverse ++ lppTTs off ks) := by
  induction ks with
  | nil => intro off acc; simp [lppToks, lppTTs, groupAux]
  | cons k ks ih =>
    intro off acc
    simp only [lppToks, lppTTs, groupAux, isOpener, isCloser, complement, tokType_beq]
    simp [ih]

theorem lpp_groupEnclosed (ks : List Nat) :
    groupEnclosed ({ pos := 0, str := ['/'], type := .SLASH } :: { pos := 1, str := ['*'], type := .ASTERISK } ::
        lppToks 2 ks) =
      .ok (.tok { pos := 0, str := ['/'], type := .SLASH } :: .tok { pos := 1, str := ['*'], type := .ASTERISK } ::
        lppTTs 2 ks) := by
  simp only [groupEnclosed, groupAux, isOpener, isCloser, tokType_beq]
  simp [lpp_groupAux]


/-- the tokens of one step `*[k+1]` whose `/` is at `off` -/
def lppStepTTs (off k : Nat) : List TT :=
  [.tok { pos := off + 1, str := ['*'], type := .ASTERISK },
   .tok { pos := off + 2, str := ['['], type := .OPEN_BRACKET },
   .group [.tok { pos := off + 3, str := Nat.toDigits 10 (k + 1), type := .NUMBER }],
   .tok { pos := off + 3 + (Nat.toDigits 10 (k + 1)).length, str := [']'], type := .CLOSE_BRACKET }]

def lppParts (off : Nat) : List Nat → List (List TT)
  | [] => []
  | k :: ks => lppStepTTs off k :: lppParts (off + 3 + (Nat.toDigits 10 (k + 1)).length + 1) ks

theorem lpp_expandAxes (ks : List Nat) : ∀ off, expandAxes (lppTTs off ks) = lppTTs off ks := by
  induction ks with
  | nil => intro off; simp [lppTTs]
  | cons k ks ih => intro off; simp [lppTTs, expandOne, ih]

theorem lpp_any_paseq (ks : List Nat) : ∀ off, (lppTTs off ks).any (isSep .PASEQ) = false := by
  induction ks with
  | nil => intro off; simp [lppTTs]
  | cons k ks ih => intro off; simp [lppTTs, isSep, tokType_beq, ih]

theorem lpp_partitionAux (ks : List Nat) : ∀ (off : Nat) (cur : List TT), cur ≠ [] →
    partitionAux .SLASH cur (lppTTs off ks) = cur.reverse :: lppParts off ks := by
  induction ks with
  | nil => intro off cur _; simp [lppTTs, lppParts, partitionAux]
  | cons k ks ih =>
    intro off cur hcur
    have hc : cur.isEmpty = false := by cases cur <;> simp_all
    simp only [lppTTs, lppParts, partitionAux, isSep, tokType_beq, hc]
    simp [ih, lppStepTTs]


/-- the digit string of `k+1` passes the length check of `int()` -/
def lppFits (k : Nat) : Prop :=
  Gen.intMaxStrDigits = 0 ∨ (Nat.toDigits 10 (k + 1)).length ≤ Gen.intMaxStrDigits

instance (k : Nat) : Decidable (lppFits k) := by unfold lppFits; infer_instance

theorem lpp_mkFunc_position : mkFunc "position".toList [] = .ok (.func "position".toList []) := by
  have h : lookupFunction (String.ofList "position".toList) Gen.xpathFunctions = some (1, false) := by decide
  unfold mkFunc
  rw [h]
  rfl

theorem lpp_parseExpr_num (fuel p : Nat) (s : Str) :
    parseExpr (fuel + 1) [.tok { pos := p, str := s, type := .NUMBER }] =
      if Gen.intMaxStrDigits ≠ 0 ∧ s.length > Gen.intMaxStrDigits then
        .error (.parsing (some p) "Number literal is too long.")
      else .ok (.num (intOfDigits s)) := by
  simp [parseExpr, allMatch, comparePattern, getTok]

theorem lpp_parsePreds (n fuel off k : Nat) :
    parsePreds (n + 2) (fuel + 1)
      [.tok { pos := off + 2, str := ['['], type := .OPEN_BRACKET },
       .group [.tok { pos := off + 3, str := Nat.toDigits 10 (k + 1), type := .NUMBER }],
       .tok { pos := off + 3 + (Nat.toDigits 10 (k + 1)).length, str := [']'], type := .CLOSE_BRACKET }] =
      if lppFits k then .ok [.binop "=" (.func "position".toList []) (.num (k + 1))]
      else .error (.parsing (some (off + 3)) "Number literal is too long.") := by
  have hm : initialMatch
      [.tok { pos := off + 2, str := ['['], type := .OPEN_BRACKET },
       .group [.tok { pos := off + 3, str := Nat.toDigits 10 (k + 1), type := .NUMBER }],
       .tok { pos := off + 3 + (Nat.toDigits 10 (k + 1)).length, str := [']'], type := .CLOSE_BRACKET }]
      [some .OPEN_BRACKET, none, some .CLOSE_BRACKET] = true := by
    simp [initialMatch, comparePattern]
  rw [parsePreds, if_pos hm]
  simp only [getGroup, List.getElem?_cons_succ, List.getElem?_cons_zero, lpp_parseExpr_num,
    lpp_intOfDigits_toDigits, lpp_mkFunc_position, List.drop_succ_cons, List.drop_zero, parsePreds]
  by_cases h : lppFits k
  · rw [if_pos h]
    have h' : ¬ (Gen.intMaxStrDigits ≠ 0 ∧ (Nat.toDigits 10 (k + 1)).length > Gen.intMaxStrDigits) := by
      unfold lppFits at h; omega
    rw [if_neg h']
  · rw [if_neg h]
    have h' : (Gen.intMaxStrDigits ≠ 0 ∧ (Nat.toDigits 10 (k + 1)).length > Gen.intMaxStrDigits) := by
      unfold lppFits at h; omega
    rw [if_pos h']

theorem lpp_initialMatch_ne (t : Token) (rest : List TT) (ty : TokType) (ps : Pattern) (h : t.type ≠ ty) :
    initialMatch (.tok t :: rest) (some ty :: ps) = false := by
  simp [initialMatch, comparePattern, tokType_beq, h]

theorem lpp_initialMatch_one (t : Token) (rest : List TT) :
    initialMatch (.tok t :: rest) [some t.type] = true := by
  simp [initialMatch, comparePattern]

/-- a step that starts with `*`: child axis, any name, then the predicates -/
theorem lpp_parseStep_asterisk (fuel : Nat) (t : Token) (rest : List TT) (ht : t.type = .ASTERISK) :
    parseStep fuel (.tok t :: rest) =
      match parsePreds (rest.length + 1) fuel rest with
      | .error e => .error e
      | .ok preds => .ok { axis := "child", test := .anyName none, preds := preds } := by
  have h1 := lpp_initialMatch_ne t rest .NAME [some .AXIS_SEPARATOR] (by rw [ht]; decide)
  have h2 := lpp_initialMatch_ne t rest .NAME [some .COLON, some .NAME] (by rw [ht]; decide)
  have h3 := lpp_initialMatch_ne t rest .NAME [some .COLON, some .ASTERISK] (by rw [ht]; decide)
  have h4 := lpp_initialMatch_ne t rest .NAME [some .OPEN_PARENS, none, some .CLOSE_PARENS] (by rw [ht]; decide)
  have h5 := lpp_initialMatch_ne t rest .NAME [some .OPEN_PARENS, some .CLOSE_PARENS] (by rw [ht]; decide)
  have h6 := lpp_initialMatch_one t rest
  rw [ht] at h6
  unfold parseStep
  simp only [List.isEmpty_cons, Bool.false_eq_true, if_false, h1, h2, h3, h4, h5, h6, Bool.or_self, if_true,
    List.drop_succ_cons, List.drop_zero]

  cases parsePreds (rest.length + 1) fuel rest <;> rfl

theorem lpp_parseStep_first (fuel : Nat) (t : Token) (ht : t.type = .ASTERISK) :
    parseStep fuel [.tok t] = .ok { axis := "child", test := .anyName none, preds := [] } := by
  rw [lpp_parseStep_asterisk fuel t [] ht]
  simp [parsePreds]

theorem lpp_parseStep (fuel off k : Nat) :
    parseStep (fuel + 1) (lppStepTTs off k) =
      if lppFits k then .ok (idxStep k)
      else .error (.parsing (some (off + 3)) "Number literal is too long.") := by
  unfold lppStepTTs
  rw [lpp_parseStep_asterisk _ _ _ rfl]
  have h := lpp_parsePreds 2 fuel off k
  simp only [List.length_cons, List.length_nil] at h ⊢
  rw [h]
  by_cases hk : lppFits k
  · simp only [if_pos hk]; rfl
  · simp only [if_neg hk]

theorem lpp_parseSteps_ok (fuel : Nat) (ks : List Nat) (h : ∀ k ∈ ks, lppFits k) : ∀ off,
    parseSteps (fuel + 1) (lppParts off ks) = .ok (ks.map idxStep) := by
  induction ks with
  | nil => intro off; simp [lppParts, parseSteps]
  | cons k ks ih =>
    intro off
    simp only [lppParts, parseSteps, lpp_parseStep, if_pos (h k (by simp)),
      ih (fun k hk => h k (List.mem_cons_of_mem _ hk)), List.map_cons]

theorem lpp_parseSteps_error (fuel : Nat) (ks : List Nat) (h : ¬ ∀ k ∈ ks, lppFits k) : ∀ off,
    ∃ pos, parseSteps (fuel + 1) (lppParts off ks) = .error (.parsing (some pos) "Number literal is too long.") := by
  induction ks with
  | nil => exact absurd (by simp) h
  | cons k ks ih =>
    intro off
    by_cases hk : lppFits k
    · have h' : ¬ ∀ k ∈ ks, lppFits k := fun h' => h (by simpa [hk] using h')
      obtain ⟨pos, hpos⟩ := ih h' (off + 3 + (Nat.toDigits 10 (k + 1)).length + 1)
      exact ⟨pos, by simp only [lppParts, parseSteps, lpp_parseStep, if_pos hk, hpos]⟩
    · exact ⟨off + 3, by simp only [lppParts, parseSteps, lpp_parseStep, if_neg hk]⟩


/-- the first step `*` of every location path -/
def lppStep0 : Step := { axis := "child", test := .anyName none, preds := [] }

theorem lpp_parsePath (fuel : Nat) (ks : List Nat) :
    parsePath (fuel + 1) (.tok { pos := 0, str := ['/'], type := .SLASH } ::
        .tok { pos := 1, str := ['*'], type := .ASTERISK } :: lppTTs 2 ks) =
      match parseSteps (fuel + 1) (lppParts 2 ks) with
      | .error e => .error e
      | .ok steps => .ok { absolute := true, steps := lppStep0 :: steps } := by
  have hp : partitionTokens .SLASH (.tok { pos := 0, str := ['/'], type := .SLASH } ::
        .tok { pos := 1, str := ['*'], type := .ASTERISK } :: lppTTs 2 ks) =
      [.tok { pos := 1, str := ['*'], type := .ASTERISK }] :: lppParts 2 ks := by
    simp [partitionTokens, partitionAux, isSep, lpp_partitionAux]
  have h0 : ∀ f, parseStep f [.tok { pos := 1, str := ['*'], type := .ASTERISK }] = .ok lppStep0 :=
    fun f => lpp_parseStep_first f _ rfl
  simp only [parsePath, List.isEmpty_cons, Bool.false_eq_true, if_false, expandAxes_tok, expandOne,
    List.cons_append, List.nil_append, lpp_expandAxes, List.head?_cons, hp, parseSteps,
    h0]
  cases parseSteps (fuel + 1) (lppParts 2 ks) <;> rfl

theorem lpp_parse_eq (ks : List Nat) :
    parse ("/*".toList ++ (ks.map idxPiece).flatten) =
      match parseSteps (ttsSize (.tok { pos := 0, str := ['/'], type := .SLASH } ::
          .tok { pos := 1, str := ['*'], type := .ASTERISK } :: lppTTs 2 ks) + 1) (lppParts 2 ks) with
      | .error (.parsing none msg) => .error (.parsing (some 0) msg)
      | .error e => .error e
      | .ok steps => .ok [{ absolute := true, steps := lppStep0 :: steps }] := by
  have hany : (TT.tok { pos := 0, str := ['/'], type := .SLASH } ::
      .tok { pos := 1, str := ['*'], type := .ASTERISK } :: lppTTs 2 ks).any (isSep .PASEQ) = false := by
    simp [isSep, lpp_any_paseq]
  unfold parse
  simp only [lpp_tokenize, lpp_groupEnclosed, hany, Bool.false_eq_true, if_false, parsePaths, lpp_parsePath]
  generalize parseSteps _ (lppParts 2 ks) = r
  rcases r with e | steps
  · cases e <;> try rfl
    rename_i pos msg
    cases pos <;> rfl
  · rfl

theorem lpp_parse_ok (ks : List Nat) (h : ∀ k ∈ ks, lppFits k) :
    parse ("/*".toList ++ (ks.map idxPiece).flatten) =
      .ok [{ absolute := true, steps := lppStep0 :: ks.map idxStep }] := by
  rw [lpp_parse_eq, lpp_parseSteps_ok _ ks h]

theorem lpp_parse_error (ks : List Nat) (h : ¬ ∀ k ∈ ks, lppFits k) :
    ∃ pos, parse ("/*".toList ++ (ks.map idxPiece).flatten) =
      .error (.parsing (some pos) "Number literal is too long.") := by
  obtain ⟨pos, hpos⟩ := lpp_parseSteps_error (ttsSize (.tok { pos := 0, str := ['/'], type := .SLASH } ::
          .tok { pos := 1, str := ['*'], type := .ASTERISK } :: lppTTs 2 ks)) ks h 2
  exact ⟨pos, by rw [lpp_parse_eq, hpos]⟩

/-! ## `location_path` -/

theorem lpp_fits_iff (k : Nat) :
    lppFits k ↔ (Gen.intMaxStrDigits = 0 ∨ k + 1 < 10 ^ Gen.intMaxStrDigits) := by
  unfold lppFits
  generalize Gen.intMaxStrDigits = m
  by_cases h0 : m = 0
  · simp [h0]
  · rw [Nat.length_toDigits_le_iff (by decide) (by omega)]

theorem lpp_parse_locationPath_ok (root : PTree) (p : List Nat) (h : ∀ k ∈ tagIdxs root [] p, lppFits k) :
    parse (locationPath root p) = .ok (locationPathAst root p) := by
  rw [locationPath_eq, locationPathAst_eq, lpp_parse_ok _ h]
  rfl

theorem lpp_parse_locationPath_error (root : PTree) (p : List Nat) (h : ¬ ∀ k ∈ tagIdxs root [] p, lppFits k) :
    ∃ pos, parse (locationPath root p) = .error (.parsing (some pos) "Number literal is too long.") := by
  rw [locationPath_eq]
  exact lpp_parse_error _ h

theorem lpp_tagIndex_le (root : PTree) (pre : List Nat) (i : Nat) : tagIndex root pre i ≤ i := by
  unfold tagIndex
  cases getAtP root pre with
  | none => exact Nat.zero_le _
  | some t =>
    exact Nat.le_trans (List.length_filter_le _ _) (by rw [List.length_take]; exact Nat.min_le_left _ _)

theorem lpp_tagIdxs_le (root : PTree) (p : List Nat) : ∀ (pre : List Nat) (k : Nat), k ∈ tagIdxs root pre p →
    ∃ i ∈ p, k ≤ i := by
  induction p with
  | nil => intro pre k hk; simp [tagIdxs] at hk
  | cons i p ih =>
    intro pre k hk
    simp only [tagIdxs, List.mem_cons] at hk
    rcases hk with rfl | hk
    · exact ⟨i, by simp, lpp_tagIndex_le root pre i⟩
    · obtain ⟨j, hj, hkj⟩ := ih _ k hk
      exact ⟨j, List.mem_cons_of_mem _ hj, hkj⟩

/-! ## the counterexample: a node with `n` tag children, the last of them -/

def lppWide (n : Nat) : PTree := .tag 0 "" "r" [] (List.replicate n (.tag 1 "" "a" [] []))

theorem lpp_wide_tagPath (n : Nat) : tagPath (lppWide (n + 1)) [n] = true := by
  simp [tagPath, lppWide, getAtP]

theorem lpp_wide_tagIdxs (n : Nat) : tagIdxs (lppWide (n + 1)) [] [n] = [n] := by
  have hf : ∀ m, (List.replicate m (PTree.tag 1 "" "a" [] [])).filter PTree.isTag =
      List.replicate m (PTree.tag 1 "" "a" [] []) := by
    intro m
    rw [List.filter_eq_self]
    intro a ha
    rw [(List.mem_replicate.1 ha).2]
    rfl
  simp [tagIdxs, tagIndex, lppWide, getAtP, PTree.kids, List.take_replicate, hf]

theorem lpp_wide_error (h : Gen.intMaxStrDigits ≠ 0) :
    tagPath (lppWide (10 ^ Gen.intMaxStrDigits - 1 + 1)) [10 ^ Gen.intMaxStrDigits - 1] = true ∧
    ∃ pos, parse (locationPath (lppWide (10 ^ Gen.intMaxStrDigits - 1 + 1)) [10 ^ Gen.intMaxStrDigits - 1]) =
      .error (.parsing (some pos) "Number literal is too long.") := by
  refine ⟨lpp_wide_tagPath _, lpp_parse_locationPath_error _ _ ?_⟩
  rw [lpp_wide_tagIdxs]
  intro hall
  have := (lpp_fits_iff _).1 (hall (10 ^ Gen.intMaxStrDigits - 1) (by simp))
  have hpos : 0 < 10 ^ Gen.intMaxStrDigits := Nat.pow_pos (by decide)
  omega

end Delb.XPath

import DelbModel.Lemmas.Pretty
/-!
# Helper lemmas for the declarative layout facts of C18

* the width of the name column of an aligned start tag (`nameWidth`) is the length of the longest name;
* the lines of an aligned / unaligned start tag;
* `ppRefKids` is the concatenation of the outputs of the non-text children.
-/
namespace Delb.Pretty
open Delb.Ser Delb.WS

/-! ## the name column -/

/-- `key_width = max(len(k) for k in attributes_data)` -/
def nameWidth (ad : List (Str × Str)) : Nat := (ad.map (·.1.length)).foldl max 0

theorem le_foldl_max : ∀ (l : List Nat) (a : Nat), a ≤ l.foldl max a
  | [], a => Nat.le_refl a
  | x :: xs, a => Nat.le_trans (Nat.le_max_left a x) (le_foldl_max xs (max a x))

theorem mem_le_foldl_max : ∀ (l : List Nat) (a x : Nat), x ∈ l → x ≤ l.foldl max a
  | [], _, _, h => by cases h
  | y :: ys, a, x, h => by
    rcases List.mem_cons.1 h with rfl | h
    · exact Nat.le_trans (Nat.le_max_right a x) (le_foldl_max ys _)
    · exact mem_le_foldl_max ys _ x h

theorem foldl_max_mem : ∀ (l : List Nat) (a : Nat), l.foldl max a = a ∨ l.foldl max a ∈ l
  | [], _ => Or.inl rfl
  | x :: xs, a => by
    simp only [List.foldl_cons]
    rcases foldl_max_mem xs (max a x) with h | h
    · rw [h]
      rcases Nat.le_total a x with hax | hax
      · right; simp [Nat.max_eq_right hax]
      · left; exact Nat.max_eq_left hax
    · right; exact List.mem_cons_of_mem _ h

/-- no name is longer than the name column -/
theorem nameWidth_le {ad : List (Str × Str)} {kv : Str × Str} (h : kv ∈ ad) : kv.1.length ≤ nameWidth ad :=
  mem_le_foldl_max _ 0 _ (List.mem_map.2 ⟨kv, h, rfl⟩)

/-- the name column is as wide as the longest name -/
theorem nameWidth_attained {ad : List (Str × Str)} (h : ad ≠ []) : ∃ kv ∈ ad, kv.1.length = nameWidth ad := by
  rcases foldl_max_mem (ad.map (·.1.length)) 0 with h0 | hm
  · cases ad with
    | nil => exact absurd rfl h
    | cons kv rest =>
      refine ⟨kv, by simp, ?_⟩
      have := nameWidth_le (ad := kv :: rest) (kv := kv) (by simp)
      unfold nameWidth at this ⊢
      omega
  · obtain ⟨kv, hkv, he⟩ := List.mem_map.1 hm
    exact ⟨kv, hkv, he⟩

/-- the padding in front of a name -/
def namePad (ad : List (Str × Str)) (kv : Str × Str) : Str := List.replicate (nameWidth ad - kv.1.length) ' '

theorem namePad_spaces (ad : List (Str × Str)) (kv : Str × Str) : ∀ c ∈ namePad ad kv, c = ' ' := by
  intro c hc
  exact (List.mem_replicate.1 hc).2

theorem namePad_length {ad : List (Str × Str)} {kv : Str × Str} (h : kv ∈ ad) :
    (namePad ad kv ++ kv.1).length = nameWidth ad := by
  have := nameWidth_le h
  simp only [namePad, List.length_append, List.length_replicate]
  omega

/-! ## start tags -/

theorem take_getElem_prefix (pre rest : Str) (c : Char) (n : Nat) (h : pre.length = n) :
    (pre ++ c :: rest).take n = pre ∧ (pre ++ c :: rest)[n]? = some c := by
  subst h; simp

theorem alignedLines_eq (o : Opts) (level : Nat) (ad : List (Str × Str)) :
    alignedLines o level ad
      = ad.map (fun kv => indentN o level ++ [' '] ++ o.indent ++ namePad ad kv ++ kv.1
          ++ ['=', '"'] ++ escapeAttr kv.2 ++ ['"']) := rfl

theorem aligned_cond {o : Opts} {ad : List (Str × Str)} (hal : o.align = true) (hn : ad.length > 1) :
    (o.align && decide (ad.length > 1)) = true := by simp [hal, hn]

theorem unaligned_cond {o : Opts} {ad : List (Str × Str)} (h : o.align = false ∨ ad.length ≤ 1) :
    ¬ (o.align && decide (ad.length > 1)) = true := by
  rcases h with h | h
  · simp [h]
  · simp only [Bool.and_eq_true, decide_eq_true_eq, not_and]
    intro _; omega

/-- an aligned start tag: `<name`, one line per attribute, the closing bracket -/
theorem refStartTag_aligned' (o : Opts) (hi : o.indent ≠ []) (level : Nat) (qn : Str) (ad : List (Str × Str))
    (close : Str) (hal : o.align = true) (hn : ad.length > 1) :
    refStartTag o level qn ad close
      = [indentN o level ++ ['<'] ++ qn]
        ++ ad.map (fun kv => indentN o level ++ [' '] ++ o.indent ++ namePad ad kv ++ kv.1
              ++ ['=', '"'] ++ escapeAttr kv.2 ++ ['"'])
        ++ [indentN o level ++ close] := by
  rw [refStartTag_aligned o hi level qn ad close (aligned_cond hal hn), alignedLines_eq]
  simp

/-- the serializer's start tag piece, written at the indentation of its level, consists of the
    reference start-tag lines -/
theorem render_stag_piece (o : Opts) (hi : o.indent ≠ []) (level : Nat) (qn : Str) (ad : List (Str × Str))
    (sc : Bool) :
    indentN o level ++ renderPiece (.stag qn (layoutAttrs o level ad).1 (layoutAttrs o level ad).2 sc)
      = joinLines (refStartTag o level qn ad (if sc then ['/', '>'] else ['>'])) := by
  rw [← render_startTag o hi]
  simp [renderPiece]

/-! ## children -/

/-- the attribute data a non-root child is written with (`_generate_attributes_data`) -/
def childAttrs (m : Dict) : Node → List (Str × Str)
  | .tag _ _ attrs _ => (attrsData m (sortAttrs attrs)).toOption.getD []
  | _ => []

theorem ppRefKids_eq_flatMap (o : Opts) (m : Dict) (level : Nat) : ∀ (kids : List Node),
    ppRefKids o m level kids = kids.flatMap (fun k => ppRef o m level (childAttrs m k) k)
  | [] => by simp [ppRefKids]
  | .tag ns name attrs ks :: rest => by
    rw [ppRefKids.eq_2, ppRefKids_eq_flatMap o m level rest]; simp [childAttrs]
  | .text s :: rest => by
    rw [ppRefKids.eq_3 _ _ _ _ _ (by simp), ppRefKids_eq_flatMap o m level rest]; simp [childAttrs]
  | .comment s :: rest => by
    rw [ppRefKids.eq_3 _ _ _ _ _ (by simp), ppRefKids_eq_flatMap o m level rest]; simp [childAttrs]
  | .pi t s :: rest => by
    rw [ppRefKids.eq_3 _ _ _ _ _ (by simp), ppRefKids_eq_flatMap o m level rest]; simp [childAttrs]

/-- text nodes between the children contribute no line -/
theorem flatMap_filter_nonText (f : Node → List Str) (hf : ∀ s, f (.text s) = []) : ∀ (kids : List Node),
    kids.flatMap f = (kids.filter (fun k => !k.isText)).flatMap f
  | [] => rfl
  | k :: rest => by
    cases k <;> simp [Node.isText, hf, flatMap_filter_nonText f hf rest]

theorem ppRefKids_eq_filter (o : Opts) (m : Dict) (level : Nat) (kids : List Node) :
    ppRefKids o m level kids
      = (kids.filter (fun k => !k.isText)).flatMap (fun k => ppRef o m level (childAttrs m k) k) := by
  rw [ppRefKids_eq_flatMap]
  exact flatMap_filter_nonText _ (fun s => by simp) kids

/-- in a data-style child list the text nodes are single spaces -/
theorem dataKids_texts : ∀ (l : List Node) (b : Bool), dataKids b l = true →
    ∀ k ∈ l, k.isText = true → k = .text [' ']
  | [], _, _ => by simp
  | k :: rest, b, h => by
    intro k' hk' ht
    cases hk : k.isText with
    | true =>
      cases k with
      | text s =>
        obtain ⟨_, hs, _, hd⟩ := dataKids_text h
        rcases List.mem_cons.1 hk' with rfl | hk'
        · rw [hs]
        · exact dataKids_texts rest true hd k' hk' ht
      | _ => simp [Node.isText] at hk
    | false =>
      obtain ⟨_, _, hr⟩ := dataKids_node hk h
      rcases List.mem_cons.1 hk' with rfl | hk'
      · rw [hk] at ht; cases ht
      · exact dataKids_texts rest false hr k' hk' ht

/-- a data-style child list that expects a node starts with a non-text node -/
theorem dataKids_true_head {l : List Node} (h : dataKids true l = true) (hne : l ≠ []) :
    ∃ k rest, l = k :: rest ∧ k.isText = false := by
  cases l with
  | nil => exact absurd rfl hne
  | cons k rest =>
    refine ⟨k, rest, rfl, ?_⟩
    cases hk : k.isText with
    | false => rfl
    | true =>
      cases k with
      | text s => have := (dataKids_text h).1; cases this
      | _ => simp [Node.isText] at hk

/-! ## the defining equations of the reference printer -/

theorem ppRef_no_kids (o : Opts) (m : Dict) (level : Nat) (ad : List (Str × Str)) (ns name : String)
    (attrs : List Attr) :
    ppRef o m level ad (.tag ns name attrs [])
      = refStartTag o level ((dget m ns).getD "" ++ name).toList ad ['/', '>'] := by
  rw [ppRef.eq_1]

theorem ppRef_one_text (o : Opts) (m : Dict) (level : Nat) (ad : List (Str × Str)) (ns name : String)
    (attrs : List Attr) (s : Str) :
    ppRef o m level ad (.tag ns name attrs [.text s])
      = refStartTag o level ((dget m ns).getD "" ++ name).toList ad ['>']
        ++ (if (strip pyWs (normText s)).isEmpty then []
            else [indentN o (level + 1) ++ escapeText (strip pyWs (normText s))])
        ++ [indentN o level ++ ['<', '/'] ++ ((dget m ns).getD "" ++ name).toList ++ ['>']] := by
  rw [ppRef.eq_2]

theorem ppRef_node_kids (o : Opts) (m : Dict) (level : Nat) (ad : List (Str × Str)) (ns name : String)
    (attrs : List Attr) (k : Node) (rest : List Node) (hk : k.isText = false) :
    ppRef o m level ad (.tag ns name attrs (k :: rest))
      = refStartTag o level ((dget m ns).getD "" ++ name).toList ad ['>']
        ++ ((k :: rest).filter (fun c => !c.isText)).flatMap
              (fun c => ppRef o m (level + 1) (childAttrs m c) c)
        ++ [indentN o level ++ ['<', '/'] ++ ((dget m ns).getD "" ++ name).toList ++ ['>']] := by
  rw [ppRef.eq_3 _ _ _ _ _ _ _ _ (by simp) (by
    intro s hs
    simp only [List.cons.injEq] at hs
    rw [hs.1] at hk
    simp [Node.isText] at hk), ppRefKids_eq_filter]

end Delb.Pretty

import DelbModel.Model.Pretty
/-!
# Helper lemmas for C18 (pretty serializer = reference pretty printer on data-style trees)
-/
namespace Delb.Pretty
open Delb.Ser Delb.WS

/-! ## induction over trees -/

theorem node_induct {P : Node → Prop} {Q : List Node → Prop}
    (tag : ∀ ns name attrs kids, Q kids → P (.tag ns name attrs kids))
    (text : ∀ s, P (.text s)) (comment : ∀ s, P (.comment s)) (pi : ∀ t s, P (.pi t s))
    (nil : Q []) (cons : ∀ k ks, P k → Q ks → Q (k :: ks)) :
    (∀ t, P t) ∧ (∀ l, Q l) := by
  have hP : ∀ t, P t := fun t =>
    Node.rec (motive_1 := P) (motive_2 := Q) tag text comment pi nil cons t
  refine ⟨hP, fun l => ?_⟩
  induction l with
  | nil => exact nil
  | cons k ks ih => exact cons k ks (hP k) ih

/-! ## whitespace facts -/

/-- the space character is Python whitespace (generated table `Gen.reWhitespace`) -/
theorem pyWs_space : pyWs ' ' = true := by decide

theorem collapseAux_allWs (ws : Char → Bool) : ∀ (s : Str), (∀ c ∈ s, ws c = true) →
    collapseAux ws true s = []
  | [], _ => rfl
  | c :: cs, h => by
    have hc : ws c = true := h c (by simp)
    have := collapseAux_allWs ws cs (fun d hd => h d (by simp [hd]))
    simp [collapseAux, hc, this]

theorem allWs_of_collapseAux (ws : Char → Bool) : ∀ (s : Str) (b : Bool),
    (∀ c ∈ collapseAux ws b s, ws c = true) → ∀ c ∈ s, ws c = true
  | [], _, _ => by simp
  | c :: cs, b, h => by
    by_cases hc : ws c = true
    · have ih : ∀ d ∈ cs, ws d = true := by
        apply allWs_of_collapseAux ws cs true
        intro d hd
        apply h
        cases b <;> simp [collapseAux, hc, hd]
      intro d hd
      rcases List.mem_cons.1 hd with rfl | hd
      · exact hc
      · exact ih d hd
    · exfalso
      apply hc
      apply h
      simp [collapseAux, hc]

theorem allWs_of_dropWhile {ws : Char → Bool} : ∀ {s : Str}, (∀ c ∈ s.dropWhile ws, ws c = true) →
    ∀ c ∈ s, ws c = true
  | [], _ => by simp
  | c :: cs, h => by
    by_cases hc : ws c = true
    · have ih := allWs_of_dropWhile (s := cs) (by simpa [List.dropWhile_cons, hc] using h)
      intro d hd
      rcases List.mem_cons.1 hd with rfl | hd
      · exact hc
      · exact ih d hd
    · simp [hc] at h

theorem allWs_of_strip_nil {ws : Char → Bool} {s : Str} (h : strip ws s = []) : ∀ c ∈ s, ws c = true := by
  unfold strip rtrim ltrim at h
  have h1 : (s.dropWhile ws).reverse.dropWhile ws = [] := by simpa using h
  have h2 : ∀ c ∈ (s.dropWhile ws).reverse, ws c = true := allWs_of_dropWhile (by simp [h1])
  exact allWs_of_dropWhile (fun c hc => h2 c (by simpa using hc))

/-- a non-empty text whose collapsed form strips to nothing collapses to exactly one space -/
theorem collapse_eq_space_of_strip_nil {ws : Char → Bool} {s : Str} (hs : s ≠ [])
    (h : strip ws (collapse ws s) = []) : collapse ws s = [' '] := by
  have hall : ∀ c ∈ s, ws c = true := allWs_of_collapseAux ws s false (allWs_of_strip_nil h)
  cases s with
  | nil => exact absurd rfl hs
  | cons c cs =>
    have hc : ws c = true := hall c (by simp)
    have := collapseAux_allWs ws cs (fun d hd => hall d (by simp [hd]))
    simp [collapse, collapseAux, hc, this]

theorem strip_space : strip pyWs [' '] = [] := by
  simp [strip, rtrim, ltrim, pyWs_space]

theorem collapse_space : collapse pyWs [' '] = [' '] := by
  simp [collapse, collapseAux, pyWs_space]

/-! ## lines -/

/-- every line followed by a newline -/
def unlines (ls : List Str) : Str := ls.flatMap (fun l => l ++ ['\n'])

@[simp] theorem unlines_nil : unlines [] = [] := rfl
@[simp] theorem unlines_cons (l : Str) (ls : List Str) : unlines (l :: ls) = l ++ ['\n'] ++ unlines ls := by
  simp [unlines]
@[simp] theorem unlines_append (a b : List Str) : unlines (a ++ b) = unlines a ++ unlines b := by
  simp [unlines]

theorem joinLines_cons_cons (l l' : Str) (ls : List Str) :
    joinLines (l :: l' :: ls) = l ++ ['\n'] ++ joinLines (l' :: ls) := rfl

theorem joinLines_newline : ∀ (ls : List Str), ls ≠ [] → joinLines ls ++ ['\n'] = unlines ls
  | [], h => absurd rfl h
  | [l], _ => by simp [joinLines]
  | l :: l' :: ls, _ => by
    rw [joinLines_cons_cons, unlines_cons, ← joinLines_newline (l' :: ls) (by simp)]
    simp

theorem joinLines_snoc : ∀ (ls : List Str) (e : Str), joinLines (ls ++ [e]) = unlines ls ++ e
  | [], e => by simp [joinLines]
  | [l], e => by simp [joinLines]
  | l :: l' :: ls, e => by
    have := joinLines_snoc (l' :: ls) e
    simp only [List.cons_append] at this ⊢
    rw [joinLines_cons_cons, this]
    simp

/-- start-tag lines, child lines, end-tag line -/
theorem joinLines_block (a b : List Str) (e : Str) (ha : a ≠ []) :
    joinLines (a ++ b ++ [e]) = joinLines a ++ ['\n'] ++ unlines b ++ e := by
  rw [joinLines_snoc, unlines_append, joinLines_newline a ha]

theorem indentN_succ (o : Opts) (n : Nat) : indentN o (n + 1) = indentN o n ++ o.indent := by
  simp [indentN, List.replicate_succ']

theorem indentN_zero (o : Opts) : indentN o 0 = [] := rfl

/-! ## start tags -/

theorem renderAttrsL_plain : ∀ (ad : List (Str × Str)),
    renderAttrsL (ad.map (fun kv => ([' '], kv.1, kv.2)))
      = (ad.map (fun kv => [' '] ++ kv.1 ++ ['=', '"'] ++ escapeAttr kv.2 ++ ['"'])).flatten
  | [] => rfl
  | kv :: rest => by
    simp [renderAttrsL, renderAttrsL_plain rest]

theorem renderAttrsL_aligned (W : Str × Str → Str) : ∀ (ad : List (Str × Str)),
    renderAttrsL (ad.map (fun kv => (['\n'] ++ W kv, kv.1, kv.2)))
      = (ad.map (fun kv => W kv ++ kv.1 ++ ['=', '"'] ++ escapeAttr kv.2 ++ ['"'])).flatMap (fun l => ['\n'] ++ l)
  | [] => rfl
  | kv :: rest => by
    simp only [List.map_cons, renderAttrsL, List.flatMap_cons, renderAttrsL_aligned W rest]
    simp

theorem joinLines_cons_snoc : ∀ (ls : List Str) (x y : Str),
    joinLines (x :: (ls ++ [y])) = x ++ ls.flatMap (fun l => ['\n'] ++ l) ++ ['\n'] ++ y
  | [], x, y => by simp [joinLines]
  | l :: ls, x, y => by
    simp only [List.cons_append]
    rw [joinLines_cons_cons, joinLines_cons_snoc ls l y]
    simp

theorem dropLast_getLast : ∀ (ls : List Str), ls ≠ [] → ls.dropLast ++ [ls.getLast?.getD []] = ls := by
  intro ls h
  rw [List.getLast?_eq_some_getLast h] 
  simp [List.dropLast_concat_getLast]

/-- the attribute lines of an aligned start tag -/
def alignedLines (o : Opts) (level : Nat) (ad : List (Str × Str)) : List Str :=
  ad.map (fun kv => indentN o level ++ [' '] ++ o.indent
    ++ List.replicate ((ad.map (·.1.length)).foldl max 0 - kv.1.length) ' '
    ++ kv.1 ++ ['=', '"'] ++ escapeAttr kv.2 ++ ['"'])

theorem refStartTag_aligned (o : Opts) (hi : o.indent ≠ []) (level : Nat) (qn : Str) (ad : List (Str × Str)) (close : Str)
    (h : (o.align && decide (ad.length > 1)) = true) :
    refStartTag o level qn ad close
      = (indentN o level ++ ['<'] ++ qn) :: (alignedLines o level ad ++ [indentN o level ++ close]) := by
  have hie : o.indent.isEmpty = false := by simpa [List.isEmpty_iff] using hi
  have hne : alignedLines o level ad ≠ [] := by
    have : ad ≠ [] := by
      intro h0; simp [h0] at h
    simpa [alignedLines] using this
  have := dropLast_getLast _ hne
  simp only [refStartTag, refAttrs, h, if_true, hie]
  show _ :: (((alignedLines o level ad).dropLast ++ [(alignedLines o level ad).getLast?.getD [], indentN o level ++ close])) = _
  conv => rhs; rw [← this]
  simp

theorem refStartTag_plain (o : Opts) (level : Nat) (qn : Str) (ad : List (Str × Str)) (close : Str)
    (h : ¬ (o.align && decide (ad.length > 1)) = true) :
    refStartTag o level qn ad close
      = [indentN o level ++ ['<'] ++ qn
          ++ (ad.map (fun kv => [' '] ++ kv.1 ++ ['=', '"'] ++ escapeAttr kv.2 ++ ['"'])).flatten ++ close] := by
  simp [refStartTag, refAttrs, h]

theorem refStartTag_ne_nil (o : Opts) (hi : o.indent ≠ []) (level : Nat) (qn : Str) (ad : List (Str × Str)) (close : Str) :
    refStartTag o level qn ad close ≠ [] := by
  by_cases hal : (o.align && decide (ad.length > 1)) = true
  · rw [refStartTag_aligned o hi level qn ad close hal]; simp
  · rw [refStartTag_plain o level qn ad close hal]; simp

/-- the start tag as the serializer writes it = the reference start-tag lines -/
theorem render_startTag (o : Opts) (hi : o.indent ≠ []) (level : Nat) (qn : Str) (ad : List (Str × Str)) (close : Str) :
    indentN o level ++ ['<'] ++ qn ++ renderAttrsL (layoutAttrs o level ad).1 ++ (layoutAttrs o level ad).2 ++ close
      = joinLines (refStartTag o level qn ad close) := by
  have hie : o.indent.isEmpty = false := by simpa [List.isEmpty_iff] using hi
  by_cases hal : (o.align && decide (ad.length > 1)) = true
  · rw [refStartTag_aligned o hi level qn ad close hal, joinLines_cons_snoc]
    simp only [layoutAttrs, hal, if_true, hie]
    have := renderAttrsL_aligned (fun kv => indentN o level ++ [' '] ++ o.indent
      ++ List.replicate ((ad.map (·.1.length)).foldl max 0 - kv.1.length) ' ') ad
    simp only [List.append_assoc] at this ⊢
    rw [this]
    simp [alignedLines]
  · rw [refStartTag_plain o level qn ad close hal]
    simp only [layoutAttrs, hal]
    simp [joinLines, renderAttrsL_plain]

/-! ## rendering -/

@[simp] theorem renderP_nil : renderP [] = [] := rfl
@[simp] theorem renderP_cons (p : Piece) (ps : List Piece) : renderP (p :: ps) = renderPiece p ++ renderP ps := by
  simp [renderP]
@[simp] theorem renderP_append (a b : List Piece) : renderP (a ++ b) = renderP a ++ renderP b := by
  simp [renderP]

/-! ## unfolding `prettyKids` (its equation lemmas cannot be generated automatically) -/

/-- `serialize_node(k)` for a non-text child -/
def nodeBody (o : Opts) (m : Dict) (level : Nat) : Node → Except Err (List Piece)
  | .comment s => .ok [.comment s]
  | .pi t s => .ok [.pi t s]
  | .tag ns name attrs kids =>
    (match attrsData m (sortAttrs attrs) with
     | .error e => .error e
     | .ok ad => prettyTag o m level ad (.tag ns name attrs kids))
  | .text _ => .ok []

def combine (pre post : List Piece) (body r : Except Err (List Piece)) : Except Err (List Piece) :=
  match body, r with
  | .ok b, .ok r => .ok (pre ++ b ++ post ++ r)
  | .error e, _ => .error e
  | _, .error e => .error e

theorem combine_ok {pre post : List Piece} {body r : Except Err (List Piece)} {ps : List Piece}
    (h : combine pre post body r = .ok ps) :
    ∃ b r', body = .ok b ∧ r = .ok r' ∧ ps = pre ++ b ++ post ++ r' := by
  unfold combine at h
  split at h
  · injection h with h; exact ⟨_, _, rfl, rfl, h.symm⟩
  · cases h
  · cases h

theorem prettyKids_nil (o m level prev run ras) :
    prettyKids o m level prev run ras [] = .ok (flushText o level ras true run) := rfl

theorem prettyKids_text (o m level prev run ras s rest) :
    prettyKids o m level prev run ras (.text s :: rest) =
      if s.isEmpty then prettyKids o m level prev run ras rest
      else prettyKids o m level prev (run ++ [s]) (if run.isEmpty then prev.isNone else ras) rest := rfl

theorem prettyKids_node (o m level prev run ras k rest) (hk : k.isText = false) :
    prettyKids o m level prev run ras (k :: rest) =
      combine (flushText o level ras false run ++
          (if !o.indent.isEmpty && legitBeforeNode (if run.isEmpty then prev else lastText run)
            then [Piece.layout (indentN o level)] else []))
        (if legitAfterNode (rest.find? (fun n => match n with | .text s => !s.isEmpty | _ => true))
          then [Piece.layout ['\n']] else [])
        (nodeBody o m level k) (prettyKids o m level (some k) [] false rest) := by
  cases k with
  | text s => simp [Node.isText] at hk
  | _ => rfl

/-! ## text -/

theorem flushText_space (o : Opts) (level : Nat) (a b : Bool) : flushText o level a b [[' ']] = [] := by
  simp [flushText, normText, collapse_space]

/-- the only text of a leaf element: indentation, stripped content, newline – or nothing -/
theorem render_flush_leaf (o : Opts) (hi : o.indent ≠ []) (level : Nat) (s : Str) (hs : s ≠ []) :
    renderP (flushText o level true true [s])
      = unlines (if (strip pyWs (normText s)).isEmpty then []
                 else [indentN o level ++ escapeText (strip pyWs (normText s))]) := by
  have hie : o.indent.isEmpty = false := by simpa [List.isEmpty_iff] using hi
  by_cases hc : normText s = [' ']
  · simp [flushText, hc, strip_space]
  · have hne : strip pyWs (normText s) ≠ [] := fun h => hc (collapse_eq_space_of_strip_nil hs h)
    have hne' : (strip pyWs (normText s)).isEmpty = false := by simpa [List.isEmpty_iff] using hne
    rw [hne']
    have e : rtrim pyWs (ltrim pyWs (normText s)) = strip pyWs (normText s) := rfl
    simp [flushText, hc, hie, renderPiece, e]

/-! ## the data-style predicate -/

theorem directive_default {attrs : List Attr}
    (h : attrs.any (fun a => a.ns == Gen.xmlNamespace && a.name == "space") = false) :
    directive attrs .default = .default := by
  have : attrs.find? (fun a => a.ns == Gen.xmlNamespace && a.name == "space") = none := by
    rw [List.find?_eq_none]
    intro a ha
    have := List.any_eq_false.1 h a ha
    simpa using this
  simp [directive, this]

theorem dataStyle_tag {ns name : String} {attrs : List Attr} {kids : List Node}
    (h : dataStyle (.tag ns name attrs kids) = true) :
    attrs.any (fun a => a.ns == Gen.xmlNamespace && a.name == "space") = false ∧
    (kids = [] ∨ (∃ s, kids = [.text s] ∧ s ≠ []) ∨
      (dataKids true kids = true ∧ kids ≠ [] ∧ ∀ s, kids ≠ [.text s])) := by
  match kids, h with
  | [], h =>
    simp only [dataStyle, Bool.and_true, Bool.not_eq_true'] at h
    exact ⟨h, Or.inl rfl⟩
  | [.text s], h =>
    simp only [dataStyle, Bool.and_eq_true, Bool.not_eq_true', List.isEmpty_eq_false_iff] at h
    exact ⟨h.1, Or.inr (Or.inl ⟨s, rfl, h.2⟩)⟩
  | k :: k' :: rest, h =>
    rw [dataStyle.eq_3 _ _ _ _ (by simp) (by simp)] at h
    simp only [Bool.and_eq_true, Bool.not_eq_true'] at h
    exact ⟨h.1, Or.inr (Or.inr ⟨h.2, by simp, by simp⟩)⟩
  | [.tag a b c d], h =>
    rw [dataStyle.eq_3 _ _ _ _ (by simp) (by simp)] at h
    simp only [Bool.and_eq_true, Bool.not_eq_true'] at h
    exact ⟨h.1, Or.inr (Or.inr ⟨h.2, by simp, by simp⟩)⟩
  | [.comment a], h =>
    rw [dataStyle.eq_3 _ _ _ _ (by simp) (by simp)] at h
    simp only [Bool.and_eq_true, Bool.not_eq_true'] at h
    exact ⟨h.1, Or.inr (Or.inr ⟨h.2, by simp, by simp⟩)⟩
  | [.pi a b], h =>
    rw [dataStyle.eq_3 _ _ _ _ (by simp) (by simp)] at h
    simp only [Bool.and_eq_true, Bool.not_eq_true'] at h
    exact ⟨h.1, Or.inr (Or.inr ⟨h.2, by simp, by simp⟩)⟩

theorem dataKids_text {b : Bool} {s : Str} {rest : List Node} (h : dataKids b (.text s :: rest) = true) :
    b = false ∧ s = [' '] ∧ rest ≠ [] ∧ dataKids true rest = true := by
  simpa [dataKids, List.isEmpty_iff, and_assoc] using h

theorem dataKids_node {b : Bool} {k : Node} {rest : List Node} (hk : k.isText = false)
    (h : dataKids b (k :: rest) = true) :
    b = true ∧ dataStyle k = true ∧ dataKids false rest = true := by
  rw [dataKids.eq_3 _ _ _ (by intro s hs; simp [hs, Node.isText] at hk)] at h
  simpa [and_assoc] using h

/-! ## unfolding `prettyTag` -/

theorem pfx_ok {m : Dict} {ns p : String} (h : pfx m ns = .ok p) : dget m ns = some p := by
  unfold pfx at h
  split at h
  · injection h with h; subst h; assumption
  · cases h

theorem prettyTag_ok {o : Opts} {m : Dict} {level : Nat} {ad : List (Str × Str)} {ns name : String}
    {attrs : List Attr} {kids : List Node} {ps : List Piece}
    (hdir : directive attrs .default = .default)
    (h : prettyTag o m level ad (.tag ns name attrs kids) = .ok ps) :
    ∃ p, dget m ns = some p ∧
      ((kids = [] ∧ ps = [.stag (p ++ name).toList (layoutAttrs o level ad).1 (layoutAttrs o level ad).2 true]) ∨
       (kids ≠ [] ∧ ∃ ks, prettyKids o m (level + 1) none [] true kids = .ok ks ∧
          ps = [.stag (p ++ name).toList (layoutAttrs o level ad).1 (layoutAttrs o level ad).2 false,
                .layout ['\n']] ++ ks
               ++ (if o.indent.isEmpty then [] else [.layout (indentN o level)]) ++ [.etag (p ++ name).toList])) := by
  rw [prettyTag.eq_1, hdir, if_neg (by decide)] at h
  split at h
  · cases h
  · rename_i p hp
    refine ⟨p, pfx_ok hp, ?_⟩
    simp only at h
    split at h
    · rename_i hk
      injection h with h
      exact Or.inl ⟨by simpa [List.isEmpty_iff] using hk, h.symm⟩
    · rename_i hk
      split at h
      · cases h
      · rename_i ks hks
        injection h with h
        exact Or.inr ⟨by simpa [List.isEmpty_iff] using hk, ks, hks, h.symm⟩

/-! ## the reference printer -/

theorem ppRef_tag_ne_nil (o : Opts) (hi : o.indent ≠ []) (m : Dict) (level : Nat) (ad : List (Str × Str))
    (ns name : String) (attrs : List Attr) (kids : List Node) :
    ppRef o m level ad (.tag ns name attrs kids) ≠ [] := by
  have := refStartTag_ne_nil o hi level ((dget m ns).getD "" ++ name).toList ad
  cases kids with
  | nil => rw [ppRef.eq_1]; exact this _
  | cons k rest =>
    by_cases h : ∃ s, k :: rest = [.text s]
    · obtain ⟨s, hs⟩ := h
      rw [hs, ppRef.eq_2]
      simp
    · rw [ppRef.eq_3 _ _ _ _ _ _ _ _ (by simp) (fun s hs => h ⟨s, hs⟩)]
      simp

@[simp] theorem ppRef_text (o m level ad s) : ppRef o m level ad (.text s) = [] := by simp [ppRef]
@[simp] theorem ppRef_comment (o m level ad s) :
    ppRef o m level ad (.comment s) = [indentN o level ++ "<!--".toList ++ s ++ "-->".toList] := by simp [ppRef]
@[simp] theorem ppRef_pi (o m level ad t s) :
    ppRef o m level ad (.pi t s) = [indentN o level ++ "<?".toList ++ t.toList ++ [' '] ++ s ++ "?>".toList] := by
  simp [ppRef]

theorem legitAfter_of_dataKids {rest : List Node} (h : dataKids false rest = true) :
    legitAfterNode (rest.find? (fun n => match n with | .text s => !s.isEmpty | _ => true)) = true := by
  cases rest with
  | nil => rfl
  | cons k rest' =>
    cases hk : k.isText with
    | false => have := (dataKids_node hk h).1; cases this
    | true =>
      cases k with
      | text s =>
        obtain ⟨_, rfl, _, _⟩ := dataKids_text h
        simp [legitAfterNode, firstIsSpace, pyWs_space]
      | _ => simp [Node.isText] at hk

theorem nodeBody_tag_ok {o : Opts} {m : Dict} {level : Nat} {ns name : String} {attrs : List Attr}
    {kids : List Node} {b : List Piece} (h : nodeBody o m level (.tag ns name attrs kids) = .ok b) :
    ∃ ad, attrsData m (sortAttrs attrs) = .ok ad ∧ prettyTag o m level ad (.tag ns name attrs kids) = .ok b := by
  simp only [nodeBody] at h
  split at h
  · cases h
  · exact ⟨_, by assumption, h⟩

/-! ## the main induction -/

theorem pretty_eq_ref (o : Opts) (hi : o.indent ≠ []) (m : Dict) :
    (∀ t, dataStyle t = true → ∀ level ad ps, prettyTag o m level ad t = .ok ps →
        indentN o level ++ renderP ps = joinLines (ppRef o m level ad t)) ∧
    (∀ l, ∀ b, dataKids b l = true → ∀ level prev run ras ps,
        (if b then (run = [] ∧ prev = none) ∨ run = [[' ']] else run = []) →
        prettyKids o m level prev run ras l = .ok ps →
        renderP ps = unlines (ppRefKids o m level l)) := by
  have hie : o.indent.isEmpty = false := by simpa [List.isEmpty_iff] using hi
  apply node_induct
  · -- tag
    intro ns name attrs kids ihk hd level ad ps h
    obtain ⟨hno, hk⟩ := dataStyle_tag hd
    obtain ⟨p, hp, hcase⟩ := prettyTag_ok (directive_default hno) h
    have hqn : (dget m ns).getD "" = p := by simp [hp]
    rcases hk with rfl | ⟨s, rfl, hs⟩ | ⟨hdk, hne, hnt⟩
    · rcases hcase with ⟨_, rfl⟩ | ⟨hne, _⟩
      · rw [ppRef.eq_1, hqn, ← render_startTag o hi]
        simp [renderPiece]
      · exact absurd rfl hne
    · rcases hcase with ⟨hnil, _⟩ | ⟨_, ks, hks, rfl⟩
      · cases hnil
      · have hse : s.isEmpty = false := by simpa [List.isEmpty_iff] using hs
        rw [prettyKids_text, hse, prettyKids_nil] at hks
        simp only [Bool.false_eq_true, if_false, List.nil_append, List.isEmpty_nil, Option.isNone_none, if_true] at hks
        injection hks with hks
        subst hks
        rw [ppRef.eq_2, hqn, joinLines_block _ _ _ (refStartTag_ne_nil o hi _ _ _ _), ← render_startTag o hi]
        simp [renderPiece, hie, render_flush_leaf o hi _ s hs]
    · rcases hcase with ⟨hnil, _⟩ | ⟨_, ks, hks, rfl⟩
      · exact absurd hnil hne
      · have := ihk true hdk (level + 1) none [] true ks (by simp) hks
        rw [ppRef.eq_3 _ _ _ _ _ _ _ _ hne hnt, hqn,
          joinLines_block _ _ _ (refStartTag_ne_nil o hi _ _ _ _), ← render_startTag o hi]
        simp [renderPiece, hie, this]
  · intro s hd; simp [dataStyle] at hd
  · intro s _ level ad ps h; simp [prettyTag] at h
  · intro t s _ level ad ps h; simp [prettyTag] at h
  · intro b hd; cases b <;> simp [dataKids] at hd
    intro level prev run ras ps hrun h
    subst hrun
    rw [prettyKids_nil] at h
    injection h with h
    subst h
    simp [flushText, ppRefKids]
  · intro k rest ihk ihrest b hd level prev run ras ps hrun h
    cases hk : k.isText with
    | true =>
      cases k with
      | text s =>
        obtain ⟨rfl, rfl, hne, hdk⟩ := dataKids_text hd
        simp only [Bool.false_eq_true, if_false] at hrun
        subst hrun
        rw [prettyKids_text] at h
        simp only [List.isEmpty_cons, Bool.false_eq_true, if_false, List.nil_append] at h
        have := ihrest true hdk level prev [[' ']] _ ps (by simp) h
        rw [this, ppRefKids.eq_3 _ _ _ _ _ (by simp)]
        simp
      | _ => simp [Node.isText] at hk
    | false =>
      obtain ⟨rfl, hdk, hdrest⟩ := dataKids_node hk hd
      simp only [if_true] at hrun
      rw [prettyKids_node _ _ _ _ _ _ _ _ hk] at h
      obtain ⟨body, r', hb, hr, rfl⟩ := combine_ok h
      have hr' := ihrest false hdrest level (some k) [] false r' (by simp) hr
      have hfl : flushText o level ras false run = [] := by
        rcases hrun with ⟨rfl, _⟩ | rfl
        · simp [flushText]
        · exact flushText_space ..
      have hpre : (!o.indent.isEmpty && legitBeforeNode (if run.isEmpty then prev else lastText run)) = true := by
        rcases hrun with ⟨rfl, rfl⟩ | rfl
        · simp [hie, legitBeforeNode]
        · simp [hie, legitBeforeNode, lastText, lastIsSpace, pyWs_space]
      rw [hfl, hpre, legitAfter_of_dataKids hdrest]
      simp only [if_true, renderP_append, hr']
      cases k with
      | text s => simp [Node.isText] at hk
      | comment s =>
        simp only [nodeBody] at hb
        injection hb with hb
        subst hb
        rw [ppRefKids.eq_3 _ _ _ _ _ (by simp)]
        simp [renderPiece]
      | pi t s =>
        simp only [nodeBody] at hb
        injection hb with hb
        subst hb
        rw [ppRefKids.eq_3 _ _ _ _ _ (by simp)]
        simp [renderPiece]
      | tag ns name attrs kids =>
        obtain ⟨ad, had, hb⟩ := nodeBody_tag_ok hb
        have := ihk hdk level ad body hb
        rw [ppRefKids.eq_2, had, unlines_append,
          ← joinLines_newline _ (ppRef_tag_ne_nil o hi m level _ ns name attrs kids)]
        simp only [Except.toOption, Option.getD_some]
        rw [← this]
        simp [renderPiece]

/-! ## totality -/

theorem mem_insertSorted {a b : Attr} : ∀ {l : List Attr}, a ∈ insertSorted b l → a = b ∨ a ∈ l
  | [], h => by simpa [insertSorted] using h
  | c :: cs, h => by
    simp only [insertSorted] at h
    split at h
    · simpa using h
    · rcases List.mem_cons.1 h with rfl | h
      · simp
      · rcases mem_insertSorted h with rfl | h
        · simp
        · simp [h]

theorem mem_sortAttrs {a : Attr} : ∀ {l : List Attr}, a ∈ sortAttrs l → a ∈ l
  | [], h => by simp [sortAttrs] at h
  | c :: cs, h => by
    have h' : a ∈ insertSorted c (sortAttrs cs) := by simpa [sortAttrs] using h
    rcases mem_insertSorted h' with rfl | h''
    · simp
    · simp [mem_sortAttrs h'']

theorem attrsData_total {m : Dict} : ∀ {l : List Attr}, (∀ a ∈ l, (dget m a.ns).isSome) →
    ∃ ad, attrsData m l = .ok ad
  | [], _ => ⟨[], rfl⟩
  | a :: as, h => by
    obtain ⟨p, hp⟩ := Option.isSome_iff_exists.1 (h a (by simp))
    obtain ⟨ad, had⟩ := attrsData_total (l := as) (fun b hb => h b (by simp [hb]))
    exact ⟨_, by simp [attrsData, pfx, hp, had]; rfl⟩

theorem dataKids_all : ∀ (l : List Node) (b : Bool), dataKids b l = true →
    ∀ k ∈ l, k.isText = false → dataStyle k = true
  | [], _, _ => by simp
  | k :: rest, b, h => by
    intro k' hk' hnt
    cases hk : k.isText with
    | true =>
      cases k with
      | text s =>
        obtain ⟨_, _, _, hd⟩ := dataKids_text h
        rcases List.mem_cons.1 hk' with rfl | hk'
        · simp [Node.isText] at hnt
        · exact dataKids_all rest true hd k' hk' hnt
      | _ => simp [Node.isText] at hk
    | false =>
      obtain ⟨_, hd, hr⟩ := dataKids_node hk h
      rcases List.mem_cons.1 hk' with rfl | hk'
      · exact hd
      · exact dataKids_all rest false hr k' hk' hnt

theorem pretty_total (o : Opts) (m : Dict) :
    (∀ t, dataStyle t = true → (∀ ns ∈ treeNamespaces t, (dget m ns).isSome) → t.isTag = true →
        ∀ level ad, ∃ ps, prettyTag o m level ad t = .ok ps) ∧
    (∀ l, (∀ k ∈ l, k.isText = false → dataStyle k = true) →
        (∀ ns ∈ kidsNamespaces l, (dget m ns).isSome) →
        ∀ level prev run ras, ∃ ps, prettyKids o m level prev run ras l = .ok ps) := by
  apply node_induct
  · intro ns name attrs kids ihk hd hm _ level ad
    obtain ⟨hno, hk⟩ := dataStyle_tag hd
    have hkids : ∀ k ∈ kids, k.isText = false → dataStyle k = true := by
      rcases hk with rfl | ⟨s, rfl, _⟩ | ⟨hdk, _, _⟩
      · simp
      · simp [Node.isText]
      · exact dataKids_all kids true hdk
    obtain ⟨p, hp⟩ := Option.isSome_iff_exists.1 (hm ns (by simp [treeNamespaces]))
    have hpfx : pfx m ns = .ok p := by simp [pfx, hp]
    obtain ⟨ks, hks⟩ := ihk hkids (fun ns' h' => hm ns' (by simp [treeNamespaces, h'])) (level + 1) none [] true
    rw [prettyTag.eq_1, directive_default hno, if_neg (by decide), hpfx]
    simp only [hks]
    split <;> exact ⟨_, rfl⟩
  · intro s _ _ h; simp [Node.isTag] at h
  · intro s _ _ h; simp [Node.isTag] at h
  · intro t s _ _ h; simp [Node.isTag] at h
  · intro _ _ level prev run ras
    exact ⟨_, prettyKids_nil ..⟩
  · intro k rest ihk ihrest hds hm level prev run ras
    have hrest := ihrest (fun k' h' => hds k' (by simp [h'])) (fun ns' h' => hm ns' (by simp [kidsNamespaces, h']))
    cases hk : k.isText with
    | true =>
      cases k with
      | text s =>
        rw [prettyKids_text]
        split <;> apply hrest
      | _ => simp [Node.isText] at hk
    | false =>
      rw [prettyKids_node _ _ _ _ _ _ _ _ hk]
      obtain ⟨r, hr⟩ := hrest level (some k) [] false
      have hb : ∃ b, nodeBody o m level k = .ok b := by
        cases k with
        | text s => simp [Node.isText] at hk
        | comment s => exact ⟨_, rfl⟩
        | pi t s => exact ⟨_, rfl⟩
        | tag ns name attrs kids =>
          have hm' : ∀ ns' ∈ treeNamespaces (.tag ns name attrs kids), (dget m ns').isSome :=
            fun ns' h' => hm ns' (by simp [kidsNamespaces, h'])
          obtain ⟨ad, had⟩ := attrsData_total (m := m) (l := sortAttrs attrs) (fun a ha =>
            hm' a.ns (by
              simp only [treeNamespaces]
              have := mem_sortAttrs ha
              simp only [List.cons_append, List.mem_cons, List.mem_append, List.mem_map]
              exact Or.inr (Or.inl ⟨a, this, rfl⟩)))
          obtain ⟨b, hb⟩ := ihk (hds _ (by simp) hk) hm' rfl level ad
          exact ⟨b, by simp [nodeBody, had, hb]⟩
      obtain ⟨b, hb⟩ := hb
      rw [hb, hr]
      exact ⟨_, rfl⟩

/-! ## every reference line is indented -/

theorem refStartTag_indented (o : Opts) (level : Nat) (qn : Str) (ad : List (Str × Str)) (close : Str) :
    ∀ l ∈ refStartTag o level qn ad close, ∃ rest, l = indentN o level ++ rest := by
  by_cases hal : (o.align && decide (ad.length > 1)) = true
  · have hls : ∀ l ∈ alignedLines o level ad, ∃ rest, l = indentN o level ++ rest := by
      intro l hl
      simp only [alignedLines, List.mem_map] at hl
      obtain ⟨kv, _, rfl⟩ := hl
      exact ⟨_, by simp only [List.append_assoc]; rfl⟩
    have hne : alignedLines o level ad ≠ [] := by
      have : ad ≠ [] := by
        intro h0; simp [h0] at hal
      simpa [alignedLines] using this
    have hlast : (alignedLines o level ad).getLast?.getD [] ∈ alignedLines o level ad := by
      rw [List.getLast?_eq_some_getLast hne]
      exact List.getLast_mem hne
    have e : refStartTag o level qn ad close = (indentN o level ++ ['<'] ++ qn) ::
        ((alignedLines o level ad).dropLast ++
          (if o.indent.isEmpty then [(alignedLines o level ad).getLast?.getD [] ++ close]
           else [(alignedLines o level ad).getLast?.getD [], indentN o level ++ close])) := by
      simp only [refStartTag, refAttrs, hal, if_true]
      rfl
    rw [e]
    intro l hl
    rcases List.mem_cons.1 hl with rfl | hl
    · exact ⟨_, by simp only [List.append_assoc]; rfl⟩
    rcases List.mem_append.1 hl with hl | hl
    · exact hls l (List.dropLast_subset _ hl)
    · obtain ⟨r, hr⟩ := hls _ hlast
      split at hl
      · simp only [List.mem_singleton] at hl
        exact ⟨r ++ close, by rw [hl, hr]; simp⟩
      · simp only [List.mem_cons, List.not_mem_nil, or_false] at hl
        rcases hl with rfl | rfl
        · exact ⟨r, hr⟩
        · exact ⟨_, rfl⟩
  · rw [refStartTag_plain o level qn ad close hal]
    intro l hl
    simp only [List.mem_singleton] at hl
    exact ⟨_, by rw [hl]; simp only [List.append_assoc]; rfl⟩

theorem ref_lines_indented (o : Opts) (m : Dict) :
    (∀ t, ∀ level ad, ∀ l ∈ ppRef o m level ad t, ∃ rest, l = indentN o level ++ rest) ∧
    (∀ ks, ∀ level, ∀ l ∈ ppRefKids o m level ks, ∃ rest, l = indentN o level ++ rest) := by
  apply node_induct
  · intro ns name attrs kids ih level ad l hl
    have hstart := refStartTag_indented o level ((dget m ns).getD "" ++ name).toList ad
    have hend : ∀ l ∈ [indentN o level ++ ['<', '/'] ++ ((dget m ns).getD "" ++ name).toList ++ ['>']],
        ∃ rest, l = indentN o level ++ rest := by
      intro l hl
      simp only [List.mem_singleton] at hl
      exact ⟨_, by rw [hl]; simp only [List.append_assoc]; rfl⟩
    have hdeep : ∀ l, (∃ rest, l = indentN o (level + 1) ++ rest) → ∃ rest, l = indentN o level ++ rest := by
      rintro l ⟨r, rfl⟩
      exact ⟨o.indent ++ r, by rw [indentN_succ]; simp⟩
    cases kids with
    | nil => rw [ppRef.eq_1] at hl; exact hstart _ l hl
    | cons k rest =>
      by_cases h : ∃ s, k :: rest = [.text s]
      · obtain ⟨s, hs⟩ := h
        rw [hs, ppRef.eq_2] at hl
        rcases List.mem_append.1 hl with hl | hl
        · rcases List.mem_append.1 hl with hl | hl
          · exact hstart _ l hl
          · split at hl
            · cases hl
            · simp only [List.mem_singleton] at hl
              exact hdeep l ⟨_, hl⟩
        · exact hend l hl
      · rw [ppRef.eq_3 _ _ _ _ _ _ _ _ (by simp) (fun s hs => h ⟨s, hs⟩)] at hl
        rcases List.mem_append.1 hl with hl | hl
        · rcases List.mem_append.1 hl with hl | hl
          · exact hstart _ l hl
          · exact hdeep l (ih (level + 1) l hl)
        · exact hend l hl
  · intro s level ad l hl; simp at hl
  · intro s level ad l hl
    simp only [ppRef_comment, List.mem_singleton] at hl
    exact ⟨_, by rw [hl]; simp only [List.append_assoc]; rfl⟩
  · intro t s level ad l hl
    simp only [ppRef_pi, List.mem_singleton] at hl
    exact ⟨_, by rw [hl]; simp only [List.append_assoc]; rfl⟩
  · intro level l hl; simp [ppRefKids] at hl
  · intro k rest ihk ihrest level l hl
    cases k with
    | tag ns name attrs kids =>
      rw [ppRefKids.eq_2] at hl
      rcases List.mem_append.1 hl with hl | hl
      · exact ihk level _ l hl
      · exact ihrest level l hl
    | _ =>
      rw [ppRefKids.eq_3 _ _ _ _ _ (by simp)] at hl
      rcases List.mem_append.1 hl with hl | hl
      · exact ihk level _ l hl
      · exact ihrest level l hl

end Delb.Pretty

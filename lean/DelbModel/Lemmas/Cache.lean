import DelbModel.Model.Cache
/-! helper lemmas for the lru-cache model (C16) -/
namespace Delb.Cache

variable {K V E : Type} [DecidableEq K]

theorem lookup_mem {k : K} {v : V} : ∀ {s : Store K V}, lookup k s = some v → (k, v) ∈ s
  | [], h => by simp [lookup] at h
  | (k', v') :: rest, h => by
    simp only [lookup] at h
    split at h
    · rename_i hk
      cases h
      subst hk
      exact List.mem_cons_self
    · exact List.mem_cons_of_mem _ (lookup_mem h)

theorem mem_of_mem_erase {k : K} {p : K × V} : ∀ {s : Store K V}, p ∈ erase k s → p ∈ s
  | [], h => by simp [erase] at h
  | (k', v') :: rest, h => by
    simp only [erase] at h
    split at h
    · exact List.mem_cons_of_mem _ h
    · rcases List.mem_cons.mp h with h | h
      · exact h ▸ List.mem_cons_self
      · exact List.mem_cons_of_mem _ (mem_of_mem_erase h)

omit [DecidableEq K] in
theorem mem_of_mem_trim {m : Nat} {p : K × V} {s : Store K V} (h : p ∈ trim m s) : p ∈ s := by
  unfold trim at h
  split at h
  · exact h
  · exact List.mem_of_mem_take h

theorem erase_length_of_lookup {k : K} {v : V} : ∀ {s : Store K V}, lookup k s = some v →
    (erase k s).length + 1 = s.length
  | [], h => by simp [lookup] at h
  | (k', v') :: rest, h => by
    simp only [lookup] at h
    simp only [erase]
    split
    · simp
    · rename_i hk
      simp only [hk, if_false] at h
      simp [erase_length_of_lookup h]

theorem call_answer (f : K → Except E V) (m : Nat) (s : Store K V) (k : K) (hs : Sound f s) :
    (call f m s k).1 = f k := by
  unfold call
  split
  · rename_i v hv
    exact (hs k v (lookup_mem hv)).symm
  · split <;> rename_i h <;> simp [h]

theorem call_sound (f : K → Except E V) (m : Nat) (s : Store K V) (k : K) (hs : Sound f s) :
    Sound f (call f m s k).2 := by
  unfold call
  split
  · rename_i v hv
    intro k' v' hmem
    rcases List.mem_cons.mp hmem with h | h
    · cases h
      exact hs k v (lookup_mem hv)
    · exact hs k' v' (mem_of_mem_erase h)
  · split
    · rename_i v hv
      intro k' v' hmem
      rcases List.mem_cons.mp (mem_of_mem_trim hmem) with h | h
      · cases h
        exact hv
      · exact hs k' v' h
    · exact hs

theorem call_bounded (f : K → Except E V) (m : Nat) (s : Store K V) (k : K) (hm : 0 < m)
    (hs : s.length ≤ m) : (call f m s k).2.length ≤ m := by
  unfold call
  split
  · rename_i v hv
    have := erase_length_of_lookup hv
    simp only [List.length_cons]
    omega
  · split
    · unfold trim
      have : m ≠ 0 := by omega
      simp only [this, if_false, List.length_take, List.length_cons]
      omega
    · exact hs

theorem run_answers (f : K → Except E V) (m : Nat) :
    ∀ (ops : List (Op K)) (s : Store K V), Sound f s → (run f m s ops).1 = runUncached f ops ∧ Sound f (run f m s ops).2
  | [], s, hs => ⟨rfl, hs⟩
  | .call k :: ops, s, hs => by
    have ha := call_answer f m s k hs
    have hs' := call_sound f m s k hs
    have ih := run_answers f m ops (call f m s k).2 hs'
    simp only [run, runUncached]
    exact ⟨by rw [ha, ih.1], ih.2⟩
  | .clear :: ops, s, _ => by
    have ih := run_answers f m ops ([] : Store K V) (fun _ _ h => by cases h)
    simpa only [run, runUncached] using ih

theorem run_bounded (f : K → Except E V) (m : Nat) (hm : 0 < m) :
    ∀ (ops : List (Op K)) (s : Store K V), s.length ≤ m → (run f m s ops).2.length ≤ m
  | [], _, hs => hs
  | .call k :: ops, s, hs => by
    simp only [run]
    exact run_bounded f m hm ops _ (call_bounded f m s k hm hs)
  | .clear :: ops, _, _ => by
    simp only [run]
    exact run_bounded f m hm ops [] (Nat.zero_le _)

end Delb.Cache

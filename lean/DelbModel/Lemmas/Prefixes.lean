import DelbModel.Model.Serialize
/-!
# Lemmas for C13 (namespace prefixes)

* association lists (`dget`, `dset`, `dkeys`, `dvalues`), `lookupPrefix`
* facts about the generated tables (small `decide`s)
* `normalizeDecls`
* the invariant of `collectOne` / `collectMany` / `collectNodes`
* completeness of the breadth-first traversal
* `declarations`
-/
namespace Delb.Ser

/-! ## association lists -/

theorem dget_cons (k' v : String) (rest : Dict) (k : String) :
    dget ((k', v) :: rest) k = if k' = k then some v else dget rest k := by
  simp [dget]

theorem mem_of_dget {d : Dict} {k v : String} (h : dget d k = some v) : (k, v) ∈ d := by
  induction d with
  | nil => simp [dget] at h
  | cons e rest ih =>
    obtain ⟨k', v'⟩ := e
    rw [dget_cons] at h
    split at h
    · cases h; subst_vars; simp
    · exact List.mem_cons_of_mem _ (ih h)

theorem dget_eq_none_iff {d : Dict} {k : String} : dget d k = none ↔ k ∉ dkeys d := by
  induction d with
  | nil => simp [dget, dkeys]
  | cons e rest ih =>
    obtain ⟨k', v'⟩ := e
    rw [dget_cons]
    by_cases hk : k' = k
    · simp [hk, dkeys]
    · have : ¬ k = k' := fun h => hk h.symm
      simp [hk, this, dkeys] at ih ⊢
      exact ih

theorem dget_isSome_iff {d : Dict} {k : String} : (dget d k).isSome ↔ k ∈ dkeys d := by
  cases h : dget d k with
  | none => simp [dget_eq_none_iff.mp h]
  | some v =>
    have : k ∈ dkeys d := by
      apply Classical.byContradiction
      intro hn
      rw [dget_eq_none_iff.mpr hn] at h
      cases h
    simp [this]

theorem mem_dkeys_of_mem {d : Dict} {k v : String} (h : (k, v) ∈ d) : k ∈ dkeys d :=
  List.mem_map.mpr ⟨(k, v), h, rfl⟩

theorem mem_dvalues_of_mem {d : Dict} {k v : String} (h : (k, v) ∈ d) : v ∈ dvalues d :=
  List.mem_map.mpr ⟨(k, v), h, rfl⟩

theorem dget_of_mem {d : Dict} {k v : String} (hn : (dkeys d).Nodup) (h : (k, v) ∈ d) :
    dget d k = some v := by
  induction d with
  | nil => cases h
  | cons e rest ih =>
    obtain ⟨k', v'⟩ := e
    rw [dget_cons]
    simp only [dkeys, List.map_cons, List.nodup_cons] at hn
    rcases List.mem_cons.mp h with h | h
    · cases h; simp
    · have hne : k' ≠ k := by
        intro he
        subst he
        exact hn.1 (mem_dkeys_of_mem h)
      simp [hne]
      exact ih hn.2 h

theorem mem_dvalues_iff {d : Dict} (hn : (dkeys d).Nodup) {v : String} :
    v ∈ dvalues d ↔ ∃ k, dget d k = some v := by
  constructor
  · intro h
    obtain ⟨⟨k, v'⟩, hm, rfl⟩ := List.mem_map.mp h
    exact ⟨k, dget_of_mem hn hm⟩
  · rintro ⟨k, h⟩
    exact mem_dvalues_of_mem (mem_of_dget h)

theorem dget_dset (d : Dict) (k v k' : String) :
    dget (dset d k v) k' = if k = k' then some v else dget d k' := by
  induction d with
  | nil => simp [dset, dget]
  | cons e rest ih =>
    obtain ⟨k0, v0⟩ := e
    simp only [dset]
    by_cases h0 : k0 = k
    · subst h0
      by_cases h1 : k0 = k' <;> simp [dget_cons, h1]
    · simp only [beq_iff_eq, h0, if_false, dget_cons, ih]
      by_cases h1 : k0 = k'
      · subst h1
        have : ¬ k = k0 := fun h => h0 h.symm
        simp [this]
      · simp [h1]

theorem dkeys_dset (d : Dict) (k v : String) :
    dkeys (dset d k v) = if k ∈ dkeys d then dkeys d else dkeys d ++ [k] := by
  induction d with
  | nil => simp [dset, dkeys]
  | cons e rest ih =>
    obtain ⟨k0, v0⟩ := e
    simp only [dset]
    by_cases h0 : k0 = k
    · subst h0
      simp [dkeys]
    · have h0' : ¬ k = k0 := fun h => h0 h.symm
      simp only [dkeys] at ih
      simp only [beq_iff_eq, h0, if_false, dkeys, List.map_cons, ih, List.mem_cons, h0', false_or]
      split <;> simp_all

theorem nodup_dkeys_dset {d : Dict} (hn : (dkeys d).Nodup) (k v : String) :
    (dkeys (dset d k v)).Nodup := by
  rw [dkeys_dset]
  split
  · exact hn
  · rename_i h
    rw [List.nodup_append]
    refine ⟨hn, by simp, ?_⟩
    intro a ha b hb
    simp at hb
    subst hb
    intro he
    subst he
    exact h ha

theorem mem_dkeys_dset (d : Dict) (k v k' : String) :
    k' ∈ dkeys (dset d k v) ↔ k' = k ∨ k' ∈ dkeys d := by
  rw [← dget_isSome_iff, ← dget_isSome_iff, dget_dset]
  by_cases h : k = k'
  · simp [h]
  · have : ¬ k' = k := fun e => h e.symm
    simp [h, this]

/-! ## `lookupPrefix` -/

def lookupStep (ns : String) (acc : Option String) (pn : String × String) : Option String :=
  if pn.2 == ns then some pn.1 else acc

theorem lookupPrefix_eq (d : Dict) (ns : String) :
    lookupPrefix d ns = d.foldl (lookupStep ns) none := rfl

theorem foldl_lookup_some {ns : String} {d : Dict} {acc : Option String} {p : String}
    (h : d.foldl (lookupStep ns) acc = some p) : acc = some p ∨ (p, ns) ∈ d := by
  induction d generalizing acc with
  | nil => exact Or.inl h
  | cons e rest ih =>
    obtain ⟨k, v⟩ := e
    simp only [List.foldl_cons] at h
    rcases ih h with h' | h'
    · simp only [lookupStep] at h'
      split at h'
      · rename_i hv
        simp at hv
        cases h'
        subst hv
        exact Or.inr (by simp)
      · exact Or.inl h'
    · exact Or.inr (List.mem_cons_of_mem _ h')

theorem foldl_lookup_isSome {ns : String} {d : Dict} {acc : Option String}
    (h : acc.isSome ∨ ns ∈ dvalues d) : (d.foldl (lookupStep ns) acc).isSome := by
  induction d generalizing acc with
  | nil =>
    rcases h with h | h
    · exact h
    · simp [dvalues] at h
  | cons e rest ih =>
    obtain ⟨k, v⟩ := e
    simp only [List.foldl_cons]
    apply ih
    rcases h with h | h
    · left
      simp only [lookupStep]
      split
      · rfl
      · exact h
    · simp only [dvalues, List.map_cons, List.mem_cons] at h
      rcases h with h | h
      · left
        simp [lookupStep, h]
      · right
        exact h

theorem lookupPrefix_mem {d : Dict} {ns p : String} (h : lookupPrefix d ns = some p) :
    (p, ns) ∈ d := by
  rw [lookupPrefix_eq] at h
  rcases foldl_lookup_some h with h | h
  · cases h
  · exact h

theorem lookupPrefix_isSome {d : Dict} {ns : String} (h : ns ∈ dvalues d) :
    (lookupPrefix d ns).isSome := by
  rw [lookupPrefix_eq]
  exact foldl_lookup_isSome (Or.inr h)

theorem lookupPrefix_none {d : Dict} {ns : String} (h : lookupPrefix d ns = none) :
    ns ∉ dvalues d := by
  intro hm
  have := lookupPrefix_isSome hm
  rw [h] at this
  cases this

theorem lookupPrefix_dget {d : Dict} (hn : (dkeys d).Nodup) {ns p : String}
    (h : lookupPrefix d ns = some p) : dget d p = some ns :=
  dget_of_mem hn (lookupPrefix_mem h)

theorem lookupPrefix_inj {d : Dict} (hn : (dkeys d).Nodup) {a b p : String}
    (ha : lookupPrefix d a = some p) (hb : lookupPrefix d b = some p) : a = b := by
  have h1 := lookupPrefix_dget hn ha
  have h2 := lookupPrefix_dget hn hb
  rw [h1] at h2
  cases h2
  rfl

/-- a value with a single holder is looked up to that holder -/
theorem lookupPrefix_of_unique {d : Dict} {ns p : String} (hm : (p, ns) ∈ d)
    (hu : ∀ p', (p', ns) ∈ d → p' = p) : lookupPrefix d ns = some p := by
  have h := lookupPrefix_isSome (mem_dvalues_of_mem hm)
  cases hl : lookupPrefix d ns with
  | none => rw [hl] at h; cases h
  | some p' => rw [hu p' (lookupPrefix_mem hl)]

/-! ## strings -/

theorem natToStr_no_colon (n : Nat) : ':' ∉ (natToStr n).toList := by
  intro h
  have h' : ':' ∈ Nat.toDigits 10 n := by
    have : (natToStr n).toList = Nat.toDigits 10 n := by
      show (Nat.repr n).toList = _
      simp [Nat.repr, String.toList_ofList]
    rwa [this] at h
  have := Nat.isDigit_of_mem_toDigits (by decide) (by decide) h'
  exact absurd this (by decide)

theorem str_append_ne_empty (q : String) : q ++ ":" ≠ "" := by
  intro h
  have := congrArg String.toList h
  simp [String.toList_append] at this

theorem str_append_colon_inj {a b : String} (h : a ++ ":" = b ++ ":") : a = b :=
  (String.append_left_inj ":").mp h

theorem genPrefix_ne_empty (i : Nat) : "ns" ++ natToStr i ≠ "" := by
  intro h
  have := congrArg String.toList h
  simp [String.toList_append] at this

theorem genPrefix_no_colon (i : Nat) : ':' ∉ ("ns" ++ natToStr i).toList := by
  rw [String.toList_append]
  intro h
  rcases List.mem_append.mp h with h | h
  · revert h; decide
  · exact natToStr_no_colon i h

/-! ## `findFree` / `newDecl` -/

theorem findFree_spec {nsmap m : Dict} : ∀ {fuel i : Nat} {p : String},
    findFree nsmap m i fuel = some p →
    ∃ j, p = "ns" ++ natToStr j ++ ":" ∧ p ∉ dvalues m ∧ dget nsmap ("ns" ++ natToStr j) = none := by
  intro fuel
  induction fuel with
  | zero => intro i p h; simp [findFree] at h
  | succ fuel ih =>
    intro i p h
    simp only [findFree] at h
    split at h
    · rename_i hc
      cases h
      simp at hc
      exact ⟨i, rfl, hc.1, hc.2⟩
    · exact ih h

/-! ## the invariant of `_collect_prefixes` -/

/-- where a collected prefix comes from: empty, or `q:` with `q` the caller's prefix for the
    namespace or a prefix the caller does not use -/
def Origin (nsmap : Dict) (ns v : String) : Prop :=
  v = "" ∨ ∃ q : String, v = q ++ ":" ∧ q ≠ "" ∧ ':' ∉ q.toList ∧
    (lookupPrefix nsmap ns = some q ∨ dget nsmap q = none)

structure Inv (nsmap m : Dict) : Prop where
  keysNodup : (dkeys m).Nodup
  inj : ∀ a b p, dget m a = some p → dget m b = some p → a = b
  emptyNs : ∀ p, dget m "" = some p → p = ""
  origin : ∀ ns v, dget m ns = some v → Origin nsmap ns v
  caller : ∀ ns v q, dget m ns = some v → ns ≠ "" → lookupPrefix nsmap ns = some q → q ≠ "" →
    v = q ++ ":"

theorem Inv.nil (nsmap : Dict) : Inv nsmap [] :=
  ⟨by simp [dkeys], by simp [dget], by simp [dget], by simp [dget], by simp [dget]⟩

theorem Inv.dset {nsmap m : Dict} (h : Inv nsmap m) {ns v : String}
    (hfresh : ∀ k, dget m k ≠ some v)
    (hE : ns = "" → v = "")
    (hO : Origin nsmap ns v)
    (hC : ns ≠ "" → ∀ q, lookupPrefix nsmap ns = some q → q ≠ "" → v = q ++ ":") :
    Inv nsmap (dset m ns v) := by
  refine ⟨nodup_dkeys_dset h.keysNodup _ _, ?_, ?_, ?_, ?_⟩
  · intro a b p ha hb
    rw [dget_dset] at ha hb
    by_cases h1 : ns = a
    · by_cases h2 : ns = b
      · rw [← h1, ← h2]
      · rw [if_pos h1] at ha; rw [if_neg h2] at hb
        cases ha; exact absurd hb (hfresh b)
    · by_cases h2 : ns = b
      · rw [if_neg h1] at ha; rw [if_pos h2] at hb
        cases hb; exact absurd ha (hfresh a)
      · rw [if_neg h1] at ha; rw [if_neg h2] at hb
        exact h.inj a b p ha hb
  · intro p hp
    rw [dget_dset] at hp
    split at hp
    · rename_i he; cases hp; exact hE he
    · exact h.emptyNs p hp
  · intro k w hk
    rw [dget_dset] at hk
    split at hk
    · rename_i he; cases hk; subst he; exact hO
    · exact h.origin k w hk
  · intro k w q hk hne hl hq
    rw [dget_dset] at hk
    split at hk
    · rename_i he; cases hk; subst he; exact hC hne q hl hq
    · exact h.caller k w q hk hne hl hq

theorem Inv.init (nsmap : Dict) (r : String) (hr : r ∉ dvalues nsmap) : Inv nsmap [(r, "")] := by
  have := Inv.dset (Inv.nil nsmap) (ns := r) (v := "") (by simp [dget]) (fun _ => rfl) (Or.inl rfl)
    (by
      intro _ q hl
      exact absurd (mem_dvalues_of_mem (lookupPrefix_mem hl)) hr)
  simpa [Ser.dset] using this

theorem Inv.newDecl {nsmap m m' : Dict} (h : Inv nsmap m) {ns : String}
    (hns : ns ≠ "")
    (hC : ∀ q, lookupPrefix nsmap ns = some q → q = "")
    (hd : newDecl nsmap m ns = .ok m') :
    Inv nsmap m' ∧ ∃ p, m' = Ser.dset m ns p ∧ p ≠ "" := by
  simp only [Ser.newDecl] at hd
  split at hd
  · rename_i p hp
    cases hd
    obtain ⟨j, rfl, hfresh, hnone⟩ := findFree_spec hp
    refine ⟨?_, _, rfl, str_append_ne_empty _⟩
    apply h.dset
    · intro k hk
      exact hfresh (mem_dvalues_of_mem (mem_of_dget hk))
    · intro he; exact absurd he hns
    · exact Or.inr ⟨_, rfl, genPrefix_ne_empty j, genPrefix_no_colon j, Or.inr hnone⟩
    · intro _ q hl hq
      exact absurd (hC q hl) hq
  · cases hd

theorem newDecl_ne_assertion (nsmap m : Dict) (ns site : String) :
    newDecl nsmap m ns ≠ .error (.assertion site) := by
  intro hs
  simp only [Ser.newDecl] at hs
  split at hs <;> cases hs

theorem find_empty_some {m : Dict} {other x : String} (hn : (dkeys m).Nodup)
    (h : m.find? (fun e => e.2 == "") = some (other, x)) : dget m other = some "" := by
  have h1 := List.find?_some h
  have h2 := List.mem_of_find?_eq_some h
  simp at h1
  subst h1
  exact dget_of_mem hn h2

theorem find_empty_none {m : Dict} (h : m.find? (fun e => e.2 == "") = none) :
    ∀ k, dget m k ≠ some "" := by
  intro k hk
  have := List.find?_eq_none.mp h _ (mem_of_dget hk)
  simp at this

theorem not_contains_fresh {m : Dict} {v : String} (h : ¬ (dvalues m).contains v = true) :
    ∀ k, dget m k ≠ some v := by
  intro k hk
  apply h
  simpa using mem_dvalues_of_mem (mem_of_dget hk)

/-- one step of the inner loop: never an assertion, keeps the invariant, binds `ns`,
    keeps every bound namespace bound -/
theorem collectOne_spec {nsmap m : Dict} (hn : NsMapOk nsmap) (h : Inv nsmap m) (ns : String) :
    (∀ site, collectOne nsmap m ns ≠ .error (.assertion site)) ∧
    ∀ m', collectOne nsmap m ns = .ok m' →
      Inv nsmap m' ∧ ns ∈ dkeys m' ∧ ∀ k ∈ dkeys m, k ∈ dkeys m' := by
  unfold collectOne
  split
  · rename_i hsome
    refine ⟨(by intro s hs; cases hs), ?_⟩
    intro m' hm'
    cases hm'
    exact ⟨h, dget_isSome_iff.mp hsome, fun k hk => hk⟩
  rename_i hnone
  have hnone' : dget m ns = none := by
    cases hd : dget m ns with
    | none => rfl
    | some v => rw [hd] at hnone; simp at hnone
  split
  · -- the empty namespace
    rename_i hempty
    simp at hempty
    subst hempty
    split
    · rename_i other x hfind
      have hother := find_empty_some h.keysNodup hfind
      have hone : other ≠ "" := by
        intro he; subst he; rw [hnone'] at hother; cases hother
      have hC : ∀ q, lookupPrefix nsmap other = some q → q = "" := by
        intro q hl
        apply Classical.byContradiction
        intro hq
        exact str_append_ne_empty q (h.caller other "" q hother hone hl hq).symm
      split
      · rename_i e he
        refine ⟨?_, ?_⟩
        · intro s hs
          cases hs
          exact newDecl_ne_assertion _ _ _ _ he
        · intro m' hm'; cases hm'
      · rename_i m1 hm1
        obtain ⟨hinv1, p, rfl, hp⟩ := h.newDecl hone hC hm1
        refine ⟨(by intro s hs; cases hs), ?_⟩
        intro m' hm'
        cases hm'
        refine ⟨?_, ?_, ?_⟩
        · apply hinv1.dset
          · intro k hk
            rw [dget_dset] at hk
            split at hk
            · cases hk; exact hp rfl
            · rename_i hne
              exact hne (h.inj _ _ _ hother hk)
          · intro _; rfl
          · exact Or.inl rfl
          · intro hne; exact absurd rfl hne
        · simp [mem_dkeys_dset]
        · intro k hk
          simp [mem_dkeys_dset, hk]
    · rename_i hfind
      refine ⟨(by intro s hs; cases hs), ?_⟩
      intro m' hm'
      cases hm'
      refine ⟨?_, ?_, ?_⟩
      · apply h.dset (find_empty_none hfind) (fun _ => rfl) (Or.inl rfl)
        intro hne; exact absurd rfl hne
      · simp [mem_dkeys_dset]
      · intro k hk
        simp [mem_dkeys_dset, hk]
  · rename_i hne
    have hne' : ns ≠ "" := by simpa using hne
    have hnewDecl : (∀ q, lookupPrefix nsmap ns = some q → q = "") →
        (∀ site, newDecl nsmap m ns ≠ .error (.assertion site)) ∧
        ∀ m', newDecl nsmap m ns = .ok m' →
          Inv nsmap m' ∧ ns ∈ dkeys m' ∧ ∀ k ∈ dkeys m, k ∈ dkeys m' := by
      intro hC
      constructor
      · intro s
        exact newDecl_ne_assertion _ _ _ _
      · intro m' hm'
        obtain ⟨hinv, p, rfl, _⟩ := h.newDecl hne' hC hm'
        refine ⟨hinv, by simp [mem_dkeys_dset], ?_⟩
        intro k hk
        simp [mem_dkeys_dset, hk]
    split
    · rename_i hl
      exact hnewDecl (by intro q hq; rw [hl] at hq; cases hq)
    · rename_i p hl
      split
      · rename_i hc
        simp at hc
        exact hnewDecl (by intro q hq; rw [hl] at hq; cases hq; exact hc.1)
      · split
        · rename_i hp
          have hp' : p ≠ "" := by simpa using hp
          split
          · -- the assertion site: impossible
            rename_i hcont
            exfalso
            have hmem : (p ++ ":") ∈ dvalues m := by simpa using hcont
            obtain ⟨k, hk⟩ := (mem_dvalues_iff h.keysNodup).mp hmem
            rcases h.origin k _ hk with ho | ⟨q, hq, _, _, ho⟩
            · exact str_append_ne_empty p ho
            · have hpq : p = q := str_append_colon_inj hq
              subst hpq
              rcases ho with ho | ho
              · have := lookupPrefix_inj hn.keysNodup ho hl
                subst this
                rw [hnone'] at hk
                cases hk
              · rw [lookupPrefix_dget hn.keysNodup hl] at ho
                cases ho
          · rename_i hcont
            refine ⟨(by intro s hs; cases hs), ?_⟩
            intro m' hm'
            cases hm'
            refine ⟨?_, by simp [mem_dkeys_dset], ?_⟩
            · apply h.dset (not_contains_fresh hcont)
              · intro he; exact absurd he hne'
              · refine Or.inr ⟨p, rfl, hp', ?_, Or.inl hl⟩
                exact hn.noColon p (mem_dkeys_of_mem (lookupPrefix_mem hl))
              · intro _ q hq _
                rw [hl] at hq
                cases hq
                rfl
            · intro k hk
              simp [mem_dkeys_dset, hk]
        · rename_i hc hp
          have hp' : p = "" := by simpa using hp
          subst hp'
          simp only [beq_self_eq_true, Bool.true_and] at hc
          simp only [hc]
          refine ⟨(by intro s hs; simp at hs), ?_⟩
          intro m' hm'
          simp at hm'
          cases hm'
          refine ⟨?_, by simp [mem_dkeys_dset], ?_⟩
          · apply h.dset (not_contains_fresh hc)
            · intro he; exact absurd he hne'
            · exact Or.inl rfl
            · intro _ q hq hq'
              rw [hl] at hq
              cases hq
              exact absurd rfl hq'
          · intro k hk
            simp [mem_dkeys_dset, hk]

/-! ## the loops -/

theorem collectMany_spec {nsmap : Dict} (hn : NsMapOk nsmap) :
    ∀ (nss : List String) {m : Dict}, Inv nsmap m →
    (∀ site, collectMany nsmap m nss ≠ .error (.assertion site)) ∧
    ∀ m', collectMany nsmap m nss = .ok m' →
      Inv nsmap m' ∧ (∀ ns ∈ nss, ns ∈ dkeys m') ∧ ∀ k ∈ dkeys m, k ∈ dkeys m' := by
  intro nss
  induction nss with
  | nil =>
    intro m h
    simp only [collectMany]
    refine ⟨(by intro s hs; cases hs), ?_⟩
    intro m' hm'
    cases hm'
    exact ⟨h, by simp, fun k hk => hk⟩
  | cons ns rest ih =>
    intro m h
    obtain ⟨h1, h2⟩ := collectOne_spec hn h ns
    simp only [collectMany]
    split
    · rename_i e he
      refine ⟨?_, by intro m' hm'; cases hm'⟩
      intro s hs
      cases hs
      exact h1 _ he
    · rename_i m1 hm1
      obtain ⟨hinv1, hns, hmono1⟩ := h2 m1 hm1
      obtain ⟨h3, h4⟩ := ih hinv1
      refine ⟨h3, ?_⟩
      intro m' hm'
      obtain ⟨hinv', hall, hmono'⟩ := h4 m' hm'
      refine ⟨hinv', ?_, fun k hk => hmono' k (hmono1 k hk)⟩
      intro x hx
      rcases List.mem_cons.mp hx with hx | hx
      · subst hx; exact hmono' _ hns
      · exact hall x hx

theorem collectNodes_spec {nsmap : Dict} (hn : NsMapOk nsmap) :
    ∀ (orders : List (List String)) {m : Dict}, Inv nsmap m →
    (∀ site, collectNodes nsmap m orders ≠ .error (.assertion site)) ∧
    ∀ m', collectNodes nsmap m orders = .ok m' →
      Inv nsmap m' ∧ (∀ ns ∈ orders.flatten, ns ∈ dkeys m') ∧ ∀ k ∈ dkeys m, k ∈ dkeys m' := by
  intro orders
  induction orders with
  | nil =>
    intro m h
    simp only [collectNodes]
    refine ⟨(by intro s hs; cases hs), ?_⟩
    intro m' hm'
    cases hm'
    exact ⟨h, by simp, fun k hk => hk⟩
  | cons nss rest ih =>
    intro m h
    obtain ⟨h1, h2⟩ := collectMany_spec hn nss h
    simp only [collectNodes]
    split
    · rename_i e he
      refine ⟨?_, by intro m' hm'; cases hm'⟩
      intro s hs
      cases hs
      exact h1 _ he
    · rename_i m1 hm1
      obtain ⟨hinv1, hns, hmono1⟩ := h2 m1 hm1
      obtain ⟨h3, h4⟩ := ih hinv1
      refine ⟨h3, ?_⟩
      intro m' hm'
      obtain ⟨hinv', hall, hmono'⟩ := h4 m' hm'
      refine ⟨hinv', ?_, fun k hk => hmono' k (hmono1 k hk)⟩
      intro x hx
      rw [List.flatten_cons] at hx
      rcases List.mem_append.mp hx with hx | hx
      · exact hmono' _ (hns x hx)
      · exact hall x hx

theorem Inv.m0 (nsmap : Dict) (r : String) :
    Inv nsmap (if (dvalues nsmap).contains r then [] else [(r, "")]) := by
  split
  · exact Inv.nil nsmap
  · rename_i h
    exact Inv.init nsmap r (by simpa using h)

theorem collect_spec {nsmap : Dict} (hn : NsMapOk nsmap) (root : Node)
    (orders : List (List String)) :
    (∀ site, collect nsmap root orders ≠ .error (.assertion site)) ∧
    ∀ m', collect nsmap root orders = .ok m' →
      Inv nsmap m' ∧ (∀ ns ∈ orders.flatten, ns ∈ dkeys m') := by
  obtain ⟨h1, h2⟩ := collectNodes_spec hn orders (Inv.m0 nsmap (rootNs root))
  refine ⟨h1, ?_⟩
  intro m' hm'
  obtain ⟨a, b, _⟩ := h2 m' hm'
  exact ⟨a, b⟩

/-! ## breadth-first traversal reaches every tag node -/

theorem mem_dedup {x : String} : ∀ {l : List String}, x ∈ dedup l ↔ x ∈ l := by
  intro l
  induction l with
  | nil => simp [dedup]
  | cons y ys ih =>
    simp only [dedup]
    split
    · rename_i hc
      have hy : y ∈ ys := by simpa using hc
      rw [ih, List.mem_cons]
      constructor
      · exact Or.inr
      · rintro (h | h)
        · subst h; exact hy
        · exact h
    · simp [ih]

theorem treeNamespaces_tag {n : Node} {ns : String} (h : ns ∈ treeNamespaces n) : n.isTag = true := by
  cases n <;> simp [treeNamespaces, Node.isTag] at h ⊢

theorem mem_kidsNamespaces {ns : String} : ∀ {kids : List Node}, ns ∈ kidsNamespaces kids →
    ∃ k ∈ kids, ns ∈ treeNamespaces k := by
  intro kids
  induction kids with
  | nil => simp [kidsNamespaces]
  | cons k ks ih =>
    intro h
    simp only [kidsNamespaces, List.mem_append] at h
    rcases h with h | h
    · exact ⟨k, by simp, h⟩
    · obtain ⟨k', hk', h'⟩ := ih h
      exact ⟨k', List.mem_cons_of_mem _ hk', h'⟩

theorem nodeDepth_le_kidsDepth {k : Node} : ∀ {kids : List Node}, k ∈ kids →
    nodeDepth k ≤ kidsDepth kids := by
  intro kids
  induction kids with
  | nil => simp
  | cons k' ks ih =>
    intro h
    simp only [kidsDepth]
    rcases List.mem_cons.mp h with h | h
    · subst h; omega
    · have := ih h; omega

theorem nodeDepth_tagKids {t k : Node} (h : k ∈ tagKids t) : nodeDepth k + 1 ≤ nodeDepth t := by
  cases t with
  | tag ns name attrs kids =>
    simp only [tagKids, List.mem_filter] at h
    have := nodeDepth_le_kidsDepth h.1
    simp only [nodeDepth]
    omega
  | _ => simp [tagKids] at h

theorem bfsLevels_complete : ∀ (fuel : Nat) (level : List Node),
    (∀ t ∈ level, nodeDepth t ≤ fuel) →
    ∀ t ∈ level, ∀ ns ∈ treeNamespaces t, ∃ n ∈ bfsLevels fuel level, ns ∈ nodeNamespaces n := by
  intro fuel
  induction fuel with
  | zero =>
    intro level hd t ht
    have := hd t ht
    cases t <;> simp [nodeDepth] at this
  | succ fuel ih =>
    intro level hd t ht ns hns
    cases level with
    | nil => cases ht
    | cons l0 ls =>
      simp only [bfsLevels]
      cases t with
      | tag tns name attrs kids =>
        simp only [treeNamespaces, List.mem_cons, List.mem_append] at hns
        have hown : (tns = ns ∨ ns ∈ attrs.map (·.ns)) → ns ∈ nodeNamespaces (.tag tns name attrs kids) := by
          intro h
          simp only [nodeNamespaces, mem_dedup, List.mem_cons]
          rcases h with h | h
          · exact Or.inl h.symm
          · exact Or.inr h
        rcases hns with (hns | hns) | hns
        · exact ⟨_, List.mem_append_left _ ht, hown (Or.inl hns.symm)⟩
        · exact ⟨_, List.mem_append_left _ ht, hown (Or.inr hns)⟩
        · obtain ⟨k, hk, hkns⟩ := mem_kidsNamespaces hns
          have hkt : k ∈ tagKids (.tag tns name attrs kids) := by
            simp only [tagKids, List.mem_filter]
            exact ⟨hk, treeNamespaces_tag hkns⟩
          have hnext : ∀ t' ∈ (l0 :: ls).flatMap tagKids, nodeDepth t' ≤ fuel := by
            intro t' ht'
            obtain ⟨p, hp, hp'⟩ := List.mem_flatMap.mp ht'
            have := nodeDepth_tagKids hp'
            have := hd p hp
            omega
          obtain ⟨n, hn, hnn⟩ := ih _ hnext k (List.mem_flatMap.mpr ⟨_, ht, hkt⟩) ns hkns
          exact ⟨n, List.mem_append_right _ hn, hnn⟩
      | _ => simp [treeNamespaces] at hns

theorem bfsTags_complete (root : Node) : ∀ ns ∈ treeNamespaces root,
    ∃ n ∈ bfsTags root, ns ∈ nodeNamespaces n := by
  intro ns hns
  exact bfsLevels_complete (nodeDepth root + 1) [root] (by simp) root (by simp) ns hns

theorem zip_cover {α β : Type} : ∀ (as : List α) (bs : List β), as.length = bs.length →
    ∀ b ∈ bs, ∃ a, (a, b) ∈ List.zip as bs := by
  intro as
  induction as with
  | nil => intro bs h b hb; cases bs <;> simp_all
  | cons a as ih =>
    intro bs h b hb
    cases bs with
    | nil => cases hb
    | cons b' bs =>
      simp only [List.length_cons, Nat.add_right_cancel_iff] at h
      rcases List.mem_cons.mp hb with hb | hb
      · subst hb; exact ⟨a, by simp⟩
      · obtain ⟨a', ha'⟩ := ih bs h b hb
        exact ⟨a', by simp [ha']⟩

theorem orders_cover {root : Node} {orders : List (List String)}
    (ho : ordersValid root orders = true) :
    ∀ ns ∈ treeNamespaces root, ns ∈ orders.flatten := by
  intro ns hns
  obtain ⟨n, hn, hnn⟩ := bfsTags_complete root ns hns
  simp only [ordersValid, Bool.and_eq_true, beq_iff_eq, List.all_eq_true] at ho
  obtain ⟨o, hz⟩ := zip_cover orders (bfsTags root) ho.1 n hn
  have hp := ho.2 (o, n) hz
  simp only [isPermOf, Bool.and_eq_true, List.all_eq_true] at hp
  have := hp.2 ns hnn
  exact List.mem_flatten.mpr ⟨o, (List.of_mem_zip hz).1, by simpa using this⟩

theorem xml_colon_lit : "xml:" = "xml" ++ ":" ∧ "xmlns:" = "xmlns" ++ ":" ∧
    "xml:" ≠ "" ∧ "xmlns:" ≠ "" := by decide

/-- a collected prefix `g:` for a prefix `g` the caller's mapping binds to `gns` belongs to `gns` -/
theorem Inv.bound_prefix {nsmap m : Dict} (hn : NsMapOk nsmap) (h : Inv nsmap m)
    {g gns v ns : String} (hg : dget nsmap g = some gns) (hv : v = g ++ ":") (hne : v ≠ "")
    (hd : dget m ns = some v) : ns = gns := by
  rcases h.origin ns v hd with ho | ⟨q, hq, _, _, ho⟩
  · exact absurd ho hne
  · have hgq : g = q := str_append_colon_inj (hv.symm.trans hq)
    subst hgq
    rcases ho with ho | ho
    · have := lookupPrefix_dget hn.keysNodup ho
      rw [hg] at this
      cases this
      rfl
    · rw [hg] at ho
      cases ho

theorem Inv.pmapOk {nsmap m : Dict} {t : Node} (hn : NsMapOk nsmap) (h : Inv nsmap m)
    (htotal : ∀ ns ∈ treeNamespaces t, ns ∈ dkeys m) : PMapOk nsmap m t := by
  refine ⟨?_, h.inj, h.emptyNs, ?_, ?_, h.keysNodup, ?_, ?_⟩
  · intro ns hns
    exact dget_isSome_iff.mpr (htotal ns hns)
  · intro ns p hp
    rcases h.origin ns p hp with ho | ⟨q, hq, hq1, hq2, _⟩
    · exact Or.inl ho
    · exact Or.inr ⟨q, hq, hq1, hq2⟩
  · intro ns q p hns hl hq hp
    exact h.caller ns p q hp hns hl hq
  · intro ns hd
    exact h.bound_prefix hn hn.xml xml_colon_lit.1 xml_colon_lit.2.2.1 hd
  · intro ns hd
    exact h.bound_prefix hn hn.xmlns xml_colon_lit.2.1 xml_colon_lit.2.2.2 hd

/-! ## facts about the generated tables and literals (small `decide`s) -/

theorem xml_mem_globalPrefixes : "xml" ∈ Gen.globalPrefixes := by decide
theorem xmlns_mem_globalPrefixes : "xmlns" ∈ Gen.globalPrefixes := by decide
theorem commonPrefixes_no_colon : ∀ pn ∈ Gen.commonNamespaces, ':' ∉ pn.1.toList := by decide
theorem literal_facts : ':' ∉ "xml".toList ∧ ':' ∉ "xmlns".toList ∧ ':' ∉ "".toList ∧
    "xml" ≠ "xmlns" ∧ "" ≠ "xml" := by decide
theorem empty_ne_xmlns : "" ≠ "xmlns" := by decide

/-! ## `normalizeDecls` -/

theorem dset_of_dget_none {d : Dict} {k : String} (v : String) (h : dget d k = none) :
    dset d k v = d ++ [(k, v)] := by
  induction d with
  | nil => rfl
  | cons e rest ih =>
    obtain ⟨k', v'⟩ := e
    rw [dget_cons] at h
    split at h
    · cases h
    · rename_i hne
      simp [dset, hne, ih h]

/-- the key under which a declaration is stored -/
def declKey (d : Option String × String) : String := d.1.getD ""

/-- values of `result` come from `declared` or are global; declared values have one holder -/
def GoInv (declared : List String) (result : Dict) : Prop :=
  (∀ k v, dget result k = some v → v ∈ declared ∨ v = Gen.xmlNamespace ∨ v = Gen.xmlnsNamespace) ∧
  (∀ k1 k2 v, v ∈ declared → dget result k1 = some v → dget result k2 = some v → k1 = k2)

theorem go_spec : ∀ (l : List (Option String × String)) (declared : List String) (result : Dict)
    (declared' : List String) (result' : Dict),
    normalizeDecls.go declared result l = .ok (declared', result') →
    ((dkeys result).Nodup → (dkeys result').Nodup) ∧
    (∀ k ∈ dkeys result', k ∈ dkeys result ∨ ∃ d ∈ l, declKey d = k) ∧
    (∀ k, (∀ d ∈ l, declKey d ≠ k) → dget result' k = dget result k) ∧
    (∀ d ∈ l, d.2 ∈ declared') ∧
    (∀ d ∈ l, ∀ p, d.1 = some p → p ∉ Gen.globalPrefixes) ∧
    (GoInv declared result → GoInv declared' result') ∧
    (l.Pairwise (fun a b => declKey a ≠ declKey b) →
      ∀ p ns, (some p, ns) ∈ l → dget result' p = some ns) ∧
    (∀ ns ∈ declared, ns ∈ declared') := by
  intro l
  induction l with
  | nil =>
    intro declared result declared' result' h
    simp only [normalizeDecls.go] at h
    cases h
    simp
  | cons d rest ih =>
    intro declared result declared' result' h
    obtain ⟨p, ns⟩ := d
    simp only [normalizeDecls.go] at h
    split at h
    · cases h
    rename_i hglob
    split at h
    · cases h
    rename_i hns
    split at h
    · cases h
    rename_i hdecl
    obtain ⟨i1, i2, i3, i4, i5, i6, i7, i8⟩ := ih _ _ _ _ h
    have hdecl' : ns ∉ declared := by simpa using hdecl
    have hns' : ns ≠ Gen.xmlNamespace ∧ ns ≠ Gen.xmlnsNamespace := by simpa using hns
    refine ⟨?_, ?_, ?_, ?_, ?_, ?_, ?_, ?_⟩
    · intro hn
      exact i1 (nodup_dkeys_dset hn _ _)
    · intro k hk
      rcases i2 k hk with hk | ⟨d, hd, hdk⟩
      · rcases (mem_dkeys_dset _ _ _ _).mp hk with hk | hk
        · exact Or.inr ⟨(p, ns), by simp, hk.symm⟩
        · exact Or.inl hk
      · exact Or.inr ⟨d, List.mem_cons_of_mem _ hd, hdk⟩
    · intro k hk
      rw [i3 k (fun d hd => hk d (List.mem_cons_of_mem _ hd)), dget_dset]
      have := hk (p, ns) (by simp)
      simp only [declKey] at this
      simp [this]
    · intro d hd
      rcases List.mem_cons.mp hd with hd | hd
      · subst hd
        exact i8 _ (by simp)
      · exact i4 d hd
    · intro d hd q hq
      rcases List.mem_cons.mp hd with hd | hd
      · subst hd
        simp only at hq
        subst hq
        simpa using hglob
      · exact i5 d hd q hq
    · intro hJ
      apply i6
      constructor
      · intro k v hk
        rw [dget_dset] at hk
        split at hk
        · cases hk; exact Or.inl (by simp)
        · rcases hJ.1 k v hk with h1 | h1
          · exact Or.inl (List.mem_cons_of_mem _ h1)
          · exact Or.inr h1
      · intro k1 k2 v hv h1 h2
        have hfresh : ∀ k, dget result k ≠ some ns := by
          intro k hk
          rcases hJ.1 k ns hk with h | h | h
          · exact hdecl' h
          · exact hns'.1 h
          · exact hns'.2 h
        rw [dget_dset] at h1 h2
        by_cases e1 : p.getD "" = k1
        · by_cases e2 : p.getD "" = k2
          · rw [← e1, ← e2]
          · rw [if_pos e1] at h1; rw [if_neg e2] at h2
            cases h1; exact absurd h2 (hfresh k2)
        · by_cases e2 : p.getD "" = k2
          · rw [if_neg e1] at h1; rw [if_pos e2] at h2
            cases h2; exact absurd h1 (hfresh k1)
          · rw [if_neg e1] at h1; rw [if_neg e2] at h2
            rcases List.mem_cons.mp hv with hv | hv
            · subst hv; exact absurd h1 (hfresh k1)
            · exact hJ.2 k1 k2 v hv h1 h2
    · intro hpw q ns' hmem
      rw [List.pairwise_cons] at hpw
      rcases List.mem_cons.mp hmem with hmem | hmem
      · cases hmem
        rw [i3 q, dget_dset]
        · simp
        · intro d hd hk
          exact hpw.1 d hd (by simp [declKey] at hk ⊢; exact hk.symm)
      · exact i7 hpw.2 q ns' hmem
    · intro x hx
      exact i8 x (List.mem_cons_of_mem _ hx)

def commonStep (declared : List String) (r : Dict) (pn : String × String) : Dict :=
  if declared.contains pn.2 then r
  else if (dget r pn.1).isSome then r else r ++ [(pn.1, pn.2)]

theorem foldl_common_spec (declared : List String) : ∀ (cs : List (String × String)) (r : Dict),
    ((dkeys r).Nodup → (dkeys (cs.foldl (commonStep declared) r)).Nodup) ∧
    (∀ k ∈ dkeys (cs.foldl (commonStep declared) r), k ∈ dkeys r ∨ ∃ pn ∈ cs, pn.1 = k) ∧
    (∀ k v, dget r k = some v → dget (cs.foldl (commonStep declared) r) k = some v) ∧
    (∀ k v, v ∈ declared → dget (cs.foldl (commonStep declared) r) k = some v →
      dget r k = some v) := by
  intro cs
  induction cs with
  | nil => intro r; simp
  | cons pn rest ih =>
    intro r
    simp only [List.foldl_cons]
    obtain ⟨i1, i2, i3, i4⟩ := ih (commonStep declared r pn)
    obtain ⟨ck, cv⟩ := pn
    by_cases h1 : cv ∈ declared
    · have hs : commonStep declared r (ck, cv) = r := by simp [commonStep, h1]
      rw [hs] at i1 i2 i3 i4 ⊢
      refine ⟨i1, ?_, i3, i4⟩
      intro k hk
      rcases i2 k hk with h | ⟨pn, hpn, h⟩
      · exact Or.inl h
      · exact Or.inr ⟨pn, List.mem_cons_of_mem _ hpn, h⟩
    by_cases h2 : (dget r ck).isSome = true
    · have hs : commonStep declared r (ck, cv) = r := by simp [commonStep, h2]
      rw [hs] at i1 i2 i3 i4 ⊢
      refine ⟨i1, ?_, i3, i4⟩
      intro k hk
      rcases i2 k hk with h | ⟨pn, hpn, h⟩
      · exact Or.inl h
      · exact Or.inr ⟨pn, List.mem_cons_of_mem _ hpn, h⟩
    · have hnone : dget r ck = none := by
        cases hd : dget r ck with
        | none => rfl
        | some v => rw [hd] at h2; simp at h2
      have hs : commonStep declared r (ck, cv) = dset r ck cv := by
        rw [dset_of_dget_none _ hnone]
        simp [commonStep, h1, hnone]
      rw [hs] at i1 i2 i3 i4 ⊢
      refine ⟨fun hn => i1 (nodup_dkeys_dset hn _ _), ?_, ?_, ?_⟩
      · intro k hk
        rcases i2 k hk with h | ⟨pn, hpn, h⟩
        · rcases (mem_dkeys_dset _ _ _ _).mp h with h | h
          · exact Or.inr ⟨(ck, cv), by simp, h.symm⟩
          · exact Or.inl h
        · exact Or.inr ⟨pn, List.mem_cons_of_mem _ hpn, h⟩
      · intro k v hk
        apply i3
        rw [dget_dset]
        split
        · rename_i he; subst he; rw [hnone] at hk; cases hk
        · exact hk
      · intro k v hv hk
        have := i4 k v hv hk
        rw [dget_dset] at this
        split at this
        · cases this
          exact absurd hv h1
        · exact this

/-- what an accepted `normalizeDecls` run looks like -/
theorem normalizeDecls_ok {decls : List (Option String × String)} {nsmap : Dict}
    (h : normalizeDecls decls = .ok nsmap) :
    ¬ (decls.any (fun d => d.1.isNone) = true ∧ decls.any (fun d => d.1 == some "") = true) ∧
    ∃ declared result,
      normalizeDecls.go [] [("xml", Gen.xmlNamespace), ("xmlns", Gen.xmlnsNamespace)] decls
        = .ok (declared, result) ∧
      nsmap = Gen.commonNamespaces.foldl (commonStep declared) result := by
  unfold normalizeDecls at h
  simp only at h
  split at h
  · cases h
  rename_i hne
  refine ⟨by simpa using hne, ?_⟩
  split at h
  · cases h
  · rename_i declared result hgo
    cases h
    exact ⟨declared, result, hgo, rfl⟩

theorem initDict_nodup :
    (dkeys [("xml", Gen.xmlNamespace), ("xmlns", Gen.xmlnsNamespace)]).Nodup := by
  simp [dkeys, literal_facts.2.2.2.1]

theorem normalizeDecls_nodup {decls : List (Option String × String)} {nsmap : Dict}
    (h : normalizeDecls decls = .ok nsmap) : (dkeys nsmap).Nodup := by
  obtain ⟨_, declared, result, hgo, rfl⟩ := normalizeDecls_ok h
  obtain ⟨g1, _⟩ := go_spec _ _ _ _ _ hgo
  exact (foldl_common_spec declared _ _).1 (g1 initDict_nodup)

/-- the two global bindings, inserted first, survive: no declaration may use their prefixes -/
theorem normalizeDecls_globals {decls : List (Option String × String)} {nsmap : Dict}
    (h : normalizeDecls decls = .ok nsmap) :
    dget nsmap "xml" = some Gen.xmlNamespace ∧ dget nsmap "xmlns" = some Gen.xmlnsNamespace := by
  obtain ⟨_, declared, result, hgo, rfl⟩ := normalizeDecls_ok h
  obtain ⟨_, _, g3, _, g5, _⟩ := go_spec _ _ _ _ _ hgo
  obtain ⟨_, _, f3, _⟩ := foldl_common_spec declared Gen.commonNamespaces result
  have hkey : ∀ g, g ∈ Gen.globalPrefixes → "" ≠ g → ∀ d ∈ decls, declKey d ≠ g := by
    intro g hg hge d hd
    obtain ⟨p, ns⟩ := d
    cases p with
    | none => exact hge
    | some p =>
      intro he
      simp only [declKey, Option.getD_some] at he
      subst he
      exact g5 _ hd _ rfl hg
  constructor
  · apply f3
    rw [g3 _ (hkey _ xml_mem_globalPrefixes literal_facts.2.2.2.2)]
    simp [dget]
  · apply f3
    rw [g3 _ (hkey _ xmlns_mem_globalPrefixes empty_ne_xmlns)]
    simp [dget]

theorem normalizeDecls_nsMapOk {decls : List (Option String × String)} {nsmap : Dict}
    (hcolon : ∀ d ∈ decls, ∀ p, d.1 = some p → ':' ∉ p.toList)
    (h : normalizeDecls decls = .ok nsmap) : NsMapOk nsmap := by
  refine ⟨normalizeDecls_nodup h, ?_, (normalizeDecls_globals h).1, (normalizeDecls_globals h).2⟩
  obtain ⟨_, declared, result, hgo, rfl⟩ := normalizeDecls_ok h
  obtain ⟨_, g2, _⟩ := go_spec _ _ _ _ _ hgo
  intro k hk
  rcases (foldl_common_spec declared _ _).2.1 k hk with hk | ⟨pn, hpn, rfl⟩
  · rcases g2 k hk with hk | ⟨d, hd, rfl⟩
    · simp only [dkeys, List.map_cons, List.map_nil, List.mem_cons, List.not_mem_nil, or_false] at hk
      rcases hk with rfl | rfl
      · exact literal_facts.1
      · exact literal_facts.2.1
    · obtain ⟨p, ns⟩ := d
      cases p with
      | none => exact literal_facts.2.2.1
      | some p => exact hcolon _ hd p rfl
  · exact commonPrefixes_no_colon pn hpn

theorem normalizeDecls_keeps {decls : List (Option String × String)} {nsmap : Dict}
    (hnodup : (decls.map (·.1)).Nodup)
    (h : normalizeDecls decls = .ok nsmap) :
    dget nsmap "xml" = some Gen.xmlNamespace ∧
    ∀ p ns, (some p, ns) ∈ decls → dget nsmap p = some ns ∧ lookupPrefix nsmap ns = some p := by
  have hnd := normalizeDecls_nodup h
  obtain ⟨hne, declared, result, hgo, rfl⟩ := normalizeDecls_ok h
  obtain ⟨_, _, g3, g4, g5, g6, g7, _⟩ := go_spec _ _ _ _ _ hgo
  obtain ⟨_, _, f3, f4⟩ := foldl_common_spec declared Gen.commonNamespaces result
  refine ⟨(normalizeDecls_globals h).1, ?_⟩
  · intro p ns hmem
    have hpw : decls.Pairwise (fun a b => declKey a ≠ declKey b) := by
      have := List.pairwise_map.mp hnodup
      refine List.Pairwise.imp_of_mem ?_ this
      intro a b ha hb hab
      obtain ⟨pa, na⟩ := a
      obtain ⟨pb, nb⟩ := b
      simp only [declKey]
      intro he
      cases pa with
      | none =>
        cases pb with
        | none => exact hab rfl
        | some q =>
          simp only [Option.getD_none, Option.getD_some] at he
          subst he
          apply hne
          constructor
          · exact List.any_eq_true.mpr ⟨_, ha, rfl⟩
          · exact List.any_eq_true.mpr ⟨_, hb, by simp⟩
      | some q =>
        cases pb with
        | none =>
          simp only [Option.getD_none, Option.getD_some] at he
          subst he
          apply hne
          constructor
          · exact List.any_eq_true.mpr ⟨_, hb, rfl⟩
          · exact List.any_eq_true.mpr ⟨_, ha, by simp⟩
        | some q' =>
          simp only [Option.getD_some] at he
          subst he
          exact hab rfl
    have hres : dget result p = some ns := g7 hpw p ns hmem
    have hfin := f3 p ns hres
    refine ⟨hfin, ?_⟩
    have hdecl : ns ∈ declared := g4 _ hmem
    have hJ : GoInv declared result := by
      apply g6
      constructor
      · intro k v hk
        simp only [dget] at hk
        split at hk
        · cases hk; exact Or.inr (Or.inl rfl)
        · split at hk
          · cases hk; exact Or.inr (Or.inr rfl)
          · cases hk
      · intro _ _ v hv
        cases hv
    apply lookupPrefix_of_unique (mem_of_dget hfin)
    intro p' hp'
    have h1 := f4 p' ns hdecl (dget_of_mem hnd hp')
    exact hJ.2 p' p ns hdecl h1 hres

/-! ## `declarations` -/

theorem mem_insertStr {x a : String} : ∀ {l : List String}, x ∈ insertStr a l ↔ x = a ∨ x ∈ l := by
  intro l
  induction l with
  | nil => simp [insertStr]
  | cons b bs ih =>
    simp only [insertStr]
    split
    · simp
    · simp only [List.mem_cons, ih]
      constructor
      · rintro (h | h | h)
        · exact Or.inr (Or.inl h)
        · exact Or.inl h
        · exact Or.inr (Or.inr h)
      · rintro (h | h | h)
        · exact Or.inr (Or.inl h)
        · exact Or.inl h
        · exact Or.inr (Or.inr h)

theorem mem_sortStr {x : String} : ∀ {l : List String}, x ∈ l.foldr insertStr [] ↔ x ∈ l := by
  intro l
  induction l with
  | nil => simp
  | cons b bs ih => simp [List.foldr_cons, mem_insertStr, ih]

theorem xmlns_prefix_inj {a b : String} (h : ("xmlns:" ++ a).toList = ("xmlns:" ++ b).toList) :
    a = b := by
  rw [String.toList_inj] at h
  exact (String.append_right_inj "xmlns:").mp h

theorem xmlns_prefix_ne (a : String) : ("xmlns:" ++ a).toList ≠ "xmlns".toList := by
  intro h
  have := congrArg List.length h
  simp [String.toList_append] at this

theorem xmlns_ne_decl : "xmlns".toList ≠ "xmlns:xml".toList ∧ "xmlns".toList ≠ "xmlns:xmlns".toList := by
  decide

/-- the pieces of `declarations m` -/
def dfltDecl (m : Dict) : List (Str × Str) :=
  match m.find? (fun e => e.2 == "") with
  | some (ns, _) => if ns == "" then [] else [("xmlns".toList, ns.toList)]
  | none => []

def prefixedDecls (m : Dict) : Dict :=
  m.filter (fun e => e.2 != "" && !Gen.globalPrefixes.contains (chopColon e.2))

def declOf (prefixed : Dict) (p : String) : Option (Str × Str) :=
  match prefixed.find? (fun e => e.2 == p) with
  | some (ns, _) => some (("xmlns:" ++ chopColon p).toList, ns.toList)
  | none => none

theorem declarations_eq (m : Dict) :
    declarations m = dfltDecl m ++
      (((prefixedDecls m).map (·.2)).foldr insertStr []).filterMap (declOf (prefixedDecls m)) := rfl

theorem mem_declarations {m : Dict} {kv : Str × Str} (h : kv ∈ declarations m) :
    (kv ∈ dfltDecl m) ∨
    ∃ ns p, (ns, p) ∈ m ∧ p ≠ "" ∧ chopColon p ∉ Gen.globalPrefixes ∧
      (prefixedDecls m).find? (fun e => e.2 == p) = some (ns, p) ∧
      kv = (("xmlns:" ++ chopColon p).toList, ns.toList) := by
  rw [declarations_eq, List.mem_append] at h
  rcases h with h | h
  · exact Or.inl h
  · right
    obtain ⟨p, hp, hd⟩ := List.mem_filterMap.mp h
    simp only [declOf] at hd
    split at hd
    · rename_i ns x hfind
      cases hd
      have h1 := List.find?_some hfind
      have h2 := List.mem_of_find?_eq_some hfind
      simp at h1
      subst h1
      simp only [prefixedDecls, List.mem_filter] at h2
      obtain ⟨hm, hc⟩ := h2
      simp at hc
      exact ⟨ns, x, hm, hc.1, hc.2, hfind, rfl⟩
    · cases hd

theorem mem_dfltDecl {m : Dict} (hn : (dkeys m).Nodup) {kv : Str × Str} (h : kv ∈ dfltDecl m) :
    ∃ ns, ns ≠ "" ∧ dget m ns = some "" ∧ kv = ("xmlns".toList, ns.toList) := by
  simp only [dfltDecl] at h
  split at h
  · rename_i ns x hfind
    split at h
    · cases h
    · rename_i hne
      simp at h
      exact ⟨ns, by simpa using hne, find_empty_some hn hfind, h⟩
  · cases h

theorem declarations_spec {nsmap m : Dict} {t : Node} (hm : PMapOk nsmap m t) :
    (∀ kv ∈ declarations m, kv.1 ≠ "xmlns:xml".toList ∧ kv.1 ≠ "xmlns:xmlns".toList) ∧
    (∀ ns p, dget m ns = some p → p ≠ "" → chopColon p ∉ Gen.globalPrefixes →
        (("xmlns:" ++ chopColon p).toList, ns.toList) ∈ declarations m) ∧
    (∀ v, ("xmlns".toList, v) ∈ declarations m → v ≠ [] ∧ dget m (String.ofList v) = some "") := by
  refine ⟨?_, ?_, ?_⟩
  · intro kv hkv
    rcases mem_declarations hkv with h | ⟨ns, p, _, _, hg, _, rfl⟩
    · obtain ⟨ns, _, _, rfl⟩ := mem_dfltDecl hm.keysNodup h
      exact xmlns_ne_decl
    · constructor
      · intro he
        have : chopColon p = "xml" := xmlns_prefix_inj he
        rw [this] at hg
        exact hg xml_mem_globalPrefixes
      · intro he
        have : chopColon p = "xmlns" := xmlns_prefix_inj he
        rw [this] at hg
        exact hg xmlns_mem_globalPrefixes
  · intro ns p hd hp hg
    rw [declarations_eq]
    apply List.mem_append_right
    have hmem : (ns, p) ∈ prefixedDecls m := by
      simp only [prefixedDecls, List.mem_filter]
      refine ⟨mem_of_dget hd, ?_⟩
      simp [hp, hg]
    apply List.mem_filterMap.mpr
    refine ⟨p, mem_sortStr.mpr (List.mem_map.mpr ⟨_, hmem, rfl⟩), ?_⟩
    simp only [declOf]
    split
    · rename_i ns' x hfind
      have h1 := List.find?_some hfind
      have h2 := List.mem_of_find?_eq_some hfind
      simp at h1
      subst h1
      have h3 : (ns', x) ∈ m := (List.mem_filter.mp h2).1
      have : ns' = ns := hm.injective _ _ _ (dget_of_mem hm.keysNodup h3) hd
      rw [this]
    · rename_i hnone
      have := List.find?_eq_none.mp hnone _ hmem
      simp at this
  · intro v hv
    rcases mem_declarations hv with h | ⟨ns, p, _, _, _, _, he⟩
    · obtain ⟨ns, hne, hd, he⟩ := mem_dfltDecl hm.keysNodup h
      have hv' : v = ns.toList := (Prod.mk.inj he).2
      subst hv'
      constructor
      · intro hnil
        apply hne
        rw [← String.toList_inj, hnil]
        rfl
      · rw [String.ofList_toList]
        exact hd
    · exact absurd (Prod.mk.inj he).1.symm (xmlns_prefix_ne _)

/-! ## `emitRoot` -/

theorem emitNode_tag_ok {m : Dict} {ns name : String} {attrs : List Attr} {kids : List Node}
    {ts : List Tok} (h : emitNode m (.tag ns name attrs kids) = .ok ts) :
    ∃ qn ad sc rest, ts = .stag qn ad sc :: rest ∧ attrsData m (sortAttrs attrs) = .ok ad := by
  rw [emitNode] at h
  split at h
  · rename_i p ad ks hp had hks
    split at h
    · cases h; exact ⟨_, ad, true, [], rfl, had⟩
    · cases h; exact ⟨_, ad, false, _, rfl, had⟩
  · cases h
  · cases h
  · cases h

theorem emitRoot_spec (m : Dict) (ns name : String) (attrs : List Attr)
    (kids : List Node) (toks : List Tok)
    (h : emitRoot m (.tag ns name attrs kids) = .ok toks) :
    ∃ qn ad sc rest rest', toks = .stag qn (declarations m ++ ad) sc :: rest ∧
      emitNode m (.tag ns name attrs kids) = .ok (.stag qn ad sc :: rest') ∧ rest = rest' ∧
      attrsData m (sortAttrs attrs) = .ok ad := by
  simp only [emitRoot] at h
  split at h
  · cases h
  · rename_i qn ad sc rest he
    cases h
    obtain ⟨qn', ad', sc', rest', heq, had⟩ := emitNode_tag_ok he
    cases heq
    exact ⟨qn, ad, sc, rest, rest, rfl, he, rfl, had⟩
  · rename_i ts hne he
    obtain ⟨qn', ad', sc', rest', heq, had⟩ := emitNode_tag_ok he
    exact absurd heq (hne _ _ _ _)

end Delb.Ser

import DelbModel.Model.EditApi
import DelbModel.Lemmas.Edit
/-!
# C01 helper lemmas: the composite API calls

1. simulation: a composite run on two machines whose steps correspond gives corresponding outcomes;
2. the composites on plain trees (`machA`) equal the splice specifications.
-/
namespace Delb.Edit

/-! ## 1. simulation -/

section sim
variable {σ₁ σ₂ ε₁ ε₂ ι : Type}

/-- two outcomes correspond: both succeed with related results, or both fail -/
def ExRel {α₁ α₂ : Type} (R : α₁ → α₂ → Prop) : Except ε₁ α₁ → Except ε₂ α₂ → Prop
  | .ok a, .ok b => R a b
  | .error _, .error _ => True
  | _, _ => False

@[simp] theorem ExRel_ok_ok {α₁ α₂ : Type} (R : α₁ → α₂ → Prop) (a : α₁) (b : α₂) :
    ExRel (ε₁ := ε₁) (ε₂ := ε₂) R (.ok a) (.ok b) = R a b := rfl
@[simp] theorem ExRel_err_err {α₁ α₂ : Type} (R : α₁ → α₂ → Prop) (e : ε₁) (e' : ε₂) :
    ExRel R (.error e : Except ε₁ α₁) (.error e' : Except ε₂ α₂) = True := rfl
@[simp] theorem ExRel_ok_err {α₁ α₂ : Type} (R : α₁ → α₂ → Prop) (a : α₁) (e' : ε₂) :
    ExRel R (.ok a : Except ε₁ α₁) (.error e' : Except ε₂ α₂) = False := rfl
@[simp] theorem ExRel_err_ok {α₁ α₂ : Type} (R : α₁ → α₂ → Prop) (e : ε₁) (b : α₂) :
    ExRel R (.error e : Except ε₁ α₁) (.ok b : Except ε₂ α₂) = False := rfl

/-- the steps of the two machines correspond under `R`, and related states look the same -/
structure Sim (M₁ : Machine σ₁ ε₁) (M₂ : Machine σ₂ ε₂) (R : σ₁ → σ₂ → Prop) : Prop where
  view : ∀ s₁ s₂, R s₁ s₂ → M₁.view s₁ = M₂.view s₂
  step : ∀ s₁ s₂ p, R s₁ s₂ → ExRel R (M₁.step s₁ p) (M₂.step s₂ p)

def OfferSim (R : σ₁ → σ₂ → Prop) (o₁ : Offer σ₁ ε₁ ι) (o₂ : Offer σ₂ ε₂ ι) : Prop :=
  ∀ s₁ s₂ ctx it, R s₁ s₂ → ExRel (fun x y => R x.1 y.1 ∧ x.2 = y.2) (o₁ s₁ ctx it) (o₂ s₂ ctx it)

theorem offerSource_sim (R : σ₁ → σ₂ → Prop) :
    OfferSim (ε₁ := ε₁) (ε₂ := ε₂) R offerSource offerSource := by
  intro s₁ s₂ ctx it h
  simp [offerSource, h]

variable {M₁ : Machine σ₁ ε₁} {M₂ : Machine σ₂ ε₂} {R : σ₁ → σ₂ → Prop}
  {o₁ : Offer σ₁ ε₁ ι} {o₂ : Offer σ₂ ε₂ ι}

/-- case split on a pair of corresponding outcomes `h : ExRel Q x y`; only the ok/ok case survives -/
local macro "exsplit " h:ident " : " x:term ", " y:term : tactic =>
  `(tactic| (cases h1 : $x <;> cases h2 : $y <;>
      simp only [h1, h2, ExRel_ok_ok, ExRel_err_err, ExRel_ok_err, ExRel_err_ok] at $h:ident ⊢))

theorem sim_addFollowingAll (hS : Sim M₁ M₂ R) (hO : OfferSim R o₁ o₂) :
    ∀ (items : List ι) (s₁ : σ₁) (s₂ : σ₂) (a : Addr), R s₁ s₂ →
      ExRel R (addFollowingAll M₁ o₁ items s₁ a) (addFollowingAll M₂ o₂ items s₂ a) := by
  intro items
  induction items with
  | nil => intro s₁ s₂ a h; simpa [addFollowingAll] using h
  | cons it rest ih =>
    intro s₁ s₂ a h
    simp only [addFollowingAll]
    split
    · simp
    · have hoff := hO s₁ s₂ a it h
      exsplit hoff : o₁ s₁ a it, o₂ s₂ a it
      rename_i x _ y _
      obtain ⟨s1, src⟩ := x
      obtain ⟨s1', src'⟩ := y
      obtain ⟨hR1, rfl⟩ := hoff
      have hst := hS.step s1 s1' (.addFollowing a src) hR1
      exsplit hst : M₁.step s1 (.addFollowing a src), M₂.step s1' (.addFollowing a src)
      split
      · exact ih _ _ _ hst
      · simpa using hst

theorem sim_addPrecedingAll (hS : Sim M₁ M₂ R) (hO : OfferSim R o₁ o₂) :
    ∀ (items : List ι) (s₁ : σ₁) (s₂ : σ₂) (a : Addr), R s₁ s₂ →
      ExRel R (addPrecedingAll M₁ o₁ items s₁ a) (addPrecedingAll M₂ o₂ items s₂ a) := by
  intro items
  induction items with
  | nil => intro s₁ s₂ a h; simpa [addPrecedingAll] using h
  | cons it rest ih =>
    intro s₁ s₂ a h
    simp only [addPrecedingAll]
    split
    · simp
    · have hoff := hO s₁ s₂ a it h
      exsplit hoff : o₁ s₁ a it, o₂ s₂ a it
      rename_i x _ y _
      obtain ⟨s1, src⟩ := x
      obtain ⟨s1', src'⟩ := y
      obtain ⟨hR1, rfl⟩ := hoff
      have hst := hS.step s1 s1' (.addPreceding a src) hR1
      exsplit hst : M₁.step s1 (.addPreceding a src), M₂.step s1' (.addPreceding a src)
      exact ih _ _ _ hst

theorem sim_addFirstOne (hS : Sim M₁ M₂ R) (hO : OfferSim R o₁ o₂) (it : ι) (s₁ : σ₁) (s₂ : σ₂) (a : Addr)
    (h : R s₁ s₂) : ExRel R (addFirstOne M₁ o₁ it s₁ a) (addFirstOne M₂ o₂ it s₂ a) := by
  simp only [addFirstOne]
  have hoff := hO s₁ s₂ a it h
  exsplit hoff : o₁ s₁ a it, o₂ s₂ a it
  rename_i x _ y _
  obtain ⟨s1, src⟩ := x
  obtain ⟨s1', src'⟩ := y
  obtain ⟨hR1, rfl⟩ := hoff
  exact hS.step s1 s1' (.addFirst a src) hR1

theorem sim_appendChildren (hS : Sim M₁ M₂ R) (hO : OfferSim R o₁ o₂) (items : List ι) (s₁ : σ₁) (s₂ : σ₂)
    (a : Addr) (h : R s₁ s₂) :
    ExRel R (appendChildren M₁ o₁ items s₁ a) (appendChildren M₂ o₂ items s₂ a) := by
  cases items with
  | nil => simpa [appendChildren] using h
  | cons it rest =>
    simp only [appendChildren, hS.view s₁ s₂ h]
    split
    · have h1 := sim_addFirstOne hS hO it s₁ s₂ a h
      exsplit h1 : addFirstOne M₁ o₁ it s₁ a, addFirstOne M₂ o₂ it s₂ a
      exact sim_addFollowingAll hS hO _ _ _ _ h1
    · exact sim_addFollowingAll hS hO _ _ _ _ h

theorem sim_insertChildren (hS : Sim M₁ M₂ R) (hO : OfferSim R o₁ o₂) (idx : Nat) (items : List ι)
    (s₁ : σ₁) (s₂ : σ₂) (a : Addr) (h : R s₁ s₂) :
    ExRel R (insertChildren M₁ o₁ idx items s₁ a) (insertChildren M₂ o₂ idx items s₂ a) := by
  simp only [insertChildren, hS.view s₁ s₂ h]
  split
  · simp
  · cases items with
    | nil => simp
    | cons it rest =>
      simp only
      have hfirst : ExRel R
          (if idx = 0 then
            (if kidsCountA (M₂.view s₂) a > 0 then addPrecedingAll M₁ o₁ [it] s₁ { a with path := a.path ++ [0] }
             else addFirstOne M₁ o₁ it s₁ a)
           else addFollowingAll M₁ o₁ [it] s₁ { a with path := a.path ++ [idx - 1] })
          (if idx = 0 then
            (if kidsCountA (M₂.view s₂) a > 0 then addPrecedingAll M₂ o₂ [it] s₂ { a with path := a.path ++ [0] }
             else addFirstOne M₂ o₂ it s₂ a)
           else addFollowingAll M₂ o₂ [it] s₂ { a with path := a.path ++ [idx - 1] }) := by
        split
        · split
          · exact sim_addPrecedingAll hS hO _ _ _ _ h
          · exact sim_addFirstOne hS hO _ _ _ _ h
        · exact sim_addFollowingAll hS hO _ _ _ _ h
      revert hfirst
      generalize (if idx = 0 then
            (if kidsCountA (M₂.view s₂) a > 0 then addPrecedingAll M₁ o₁ [it] s₁ { a with path := a.path ++ [0] }
             else addFirstOne M₁ o₁ it s₁ a)
           else addFollowingAll M₁ o₁ [it] s₁ { a with path := a.path ++ [idx - 1] }) = x
      generalize (if idx = 0 then
            (if kidsCountA (M₂.view s₂) a > 0 then addPrecedingAll M₂ o₂ [it] s₂ { a with path := a.path ++ [0] }
             else addFirstOne M₂ o₂ it s₂ a)
           else addFollowingAll M₂ o₂ [it] s₂ { a with path := a.path ++ [idx - 1] }) = y
      intro hxy
      exsplit hxy : x, y
      exact sim_addFollowingAll hS hO _ _ _ _ hxy

theorem sim_detachKids (hS : Sim M₁ M₂ R) (a : Addr) :
    ∀ (n : Nat) (s₁ : σ₁) (s₂ : σ₂), R s₁ s₂ → ExRel R (detachKids M₁ a n s₁) (detachKids M₂ a n s₂) := by
  intro n
  induction n with
  | zero => intro s₁ s₂ h; simpa [detachKids] using h
  | succ k ih =>
    intro s₁ s₂ h
    simp only [detachKids]
    have hst := hS.step s₁ s₂ (.detach { a with path := a.path ++ [0] }) h
    exsplit hst : M₁.step s₁ (.detach { a with path := a.path ++ [0] }), M₂.step s₂ (.detach { a with path := a.path ++ [0] })
    exact ih _ _ hst

theorem sim_detachRetain (hS : Sim M₁ M₂ R) (s₁ : σ₁) (s₂ : σ₂) (a : Addr) (h : R s₁ s₂) :
    ExRel R (detachRetain M₁ s₁ a) (detachRetain M₂ s₂ a) := by
  simp only [detachRetain, hS.view s₁ s₂ h]
  split
  · simp
  · have h1 := sim_detachKids hS a (kidsCountA (M₂.view s₂) a) s₁ s₂ h
    exsplit h1 : detachKids M₁ a (kidsCountA (M₂.view s₂) a) s₁, detachKids M₂ a (kidsCountA (M₂.view s₂) a) s₂
    rename_i t₁ _ t₂ _
    have h2 := hS.step t₁ t₂ (.detach a) h1
    exsplit h2 : M₁.step t₁ (.detach a), M₂.step t₂ (.detach a)
    split
    · simpa using h2
    · split
      · simpa using h2
      · exact sim_insertChildren hS (offerSource_sim R) _ _ _ _ _ h2

theorem sim_replaceWith (hS : Sim M₁ M₂ R) (hO : OfferSim R o₁ o₂) (items : List ι) (s₁ : σ₁) (s₂ : σ₂)
    (a : Addr) (h : R s₁ s₂) :
    ExRel R (replaceWith M₁ o₁ items s₁ a) (replaceWith M₂ o₂ items s₂ a) := by
  simp only [replaceWith]
  split
  · simp
  · have h1 := sim_addFollowingAll hS hO items s₁ s₂ a h
    exsplit h1 : addFollowingAll M₁ o₁ items s₁ a, addFollowingAll M₂ o₂ items s₂ a
    exact hS.step _ _ _ h1

theorem sim_delItem (hS : Sim M₁ M₂ R) (idx : Nat) (s₁ : σ₁) (s₂ : σ₂) (a : Addr) (h : R s₁ s₂) :
    ExRel R (delItem M₁ idx s₁ a) (delItem M₂ idx s₂ a) := by
  simp only [delItem, hS.view s₁ s₂ h]
  split
  · simp
  · exact hS.step _ _ _ h

/-- every composite API call preserves the correspondence -/
theorem sim_runApi (hS : Sim M₁ M₂ R) (hO : OfferSim R o₁ o₂) (s₁ : σ₁) (s₂ : σ₂) (c : ApiCall ι)
    (h : R s₁ s₂) : ExRel R (runApi M₁ o₁ s₁ c) (runApi M₂ o₂ s₂ c) := by
  cases c with
  | addFollowing a items => exact sim_addFollowingAll hS hO items s₁ s₂ a h
  | addPreceding a items => exact sim_addPrecedingAll hS hO items s₁ s₂ a h
  | append a items => exact sim_appendChildren hS hO items s₁ s₂ a h
  | insert a idx items => exact sim_insertChildren hS hO idx items s₁ s₂ a h
  | prepend a items => exact sim_insertChildren hS hO 0 items s₁ s₂ a h
  | detachRetain a => exact sim_detachRetain hS s₁ s₂ a h
  | replace a items => exact sim_replaceWith hS hO items s₁ s₂ a h
  | delItem a idx => exact sim_delItem hS idx s₁ s₂ a h

end sim

end Delb.Edit

namespace Delb.Edit

/-! ## 2. the composites on plain trees -/

/-! ### paths -/

theorem splitLast_append (p : List Nat) (i : Nat) : splitLast (p ++ [i]) = some (p, i) := by
  induction p with
  | nil => rfl
  | cons x q ih =>
    cases q with
    | nil => rfl
    | cons y q => simp only [List.cons_append] at ih ⊢; simp only [splitLast, ih]

theorem append_singleton_isEmpty (p : List Nat) (i : Nat) : (p ++ [i]).isEmpty = false := by
  cases p <;> rfl

theorem modifyAtP_eq_replaceAtP (F : PTree → Except EditErr PTree) (f : PTree → PTree) :
    ∀ (p : List Nat) (t x : PTree), getAtP t p = some x → F x = .ok (f x) →
      modifyAtP F t p = .ok (replaceAtP f t p) := by
  intro p
  induction p with
  | nil =>
    intro t x h hF
    simp only [getAtP, Option.some.injEq] at h
    subst h
    simp only [modifyAtP, replaceAtP, hF]
  | cons k p ih =>
    intro t x h hF
    cases t with
    | tag i ns n a ks =>
      simp only [getAtP] at h
      split at h
      · rename_i c hc
        simp only [modifyAtP, replaceAtP, hc, ih c x h hF]
      · cases h
    | text => simp [getAtP] at h
    | comment => simp [getAtP] at h
    | pi => simp [getAtP] at h

theorem replaceAtP_comp (f f' : PTree → PTree) :
    ∀ (p : List Nat) (t : PTree), replaceAtP f' (replaceAtP f t p) p = replaceAtP (fun x => f' (f x)) t p := by
  intro p
  induction p with
  | nil => intro t; simp only [replaceAtP]
  | cons k p ih =>
    intro t
    cases t with
    | tag i ns n a ks =>
      simp only [replaceAtP]
      cases hc : ks[k]? with
      | none => simp only [replaceAtP, hc]
      | some c =>
        have hk : k < ks.length := by
          rcases Nat.lt_or_ge k ks.length with h | h
          · exact h
          · simp [List.getElem?_eq_none h] at hc
        simp only [replaceAtP, List.getElem?_set_self hk, List.set_set, ih c]
    | text => simp only [replaceAtP]
    | comment => simp only [replaceAtP]
    | pi => simp only [replaceAtP]

theorem replaceAtP_congr (f f' : PTree → PTree) :
    ∀ (p : List Nat) (t x : PTree), getAtP t p = some x → f x = f' x → replaceAtP f t p = replaceAtP f' t p := by
  intro p
  induction p with
  | nil =>
    intro t x h hf
    simp only [getAtP, Option.some.injEq] at h
    subst h
    simp only [replaceAtP, hf]
  | cons k p ih =>
    intro t x h hf
    cases t with
    | tag i ns n a ks =>
      simp only [getAtP] at h
      split at h
      · rename_i c hc
        simp only [replaceAtP, hc, ih c x h hf]
      · cases h
    | text => simp [getAtP] at h
    | comment => simp [getAtP] at h
    | pi => simp [getAtP] at h

theorem getAtP_replaceAtP (f : PTree → PTree) :
    ∀ (p : List Nat) (t x : PTree), getAtP t p = some x → getAtP (replaceAtP f t p) p = some (f x) := by
  intro p
  induction p with
  | nil =>
    intro t x h
    simp only [getAtP, Option.some.injEq] at h
    subst h
    simp only [replaceAtP, getAtP]
  | cons k p ih =>
    intro t x h
    cases t with
    | tag i ns n a ks =>
      simp only [getAtP] at h
      split at h
      · rename_i c hc
        have hk : k < ks.length := by
          rcases Nat.lt_or_ge k ks.length with h | h
          · exact h
          · simp [List.getElem?_eq_none h] at hc
        simp only [replaceAtP, hc, getAtP, List.getElem?_set_self hk, ih c x h]
      · cases h
    | text => simp [getAtP] at h
    | comment => simp [getAtP] at h
    | pi => simp [getAtP] at h

theorem getAtP_root_isTag : ∀ (p : List Nat) (t x : PTree), getAtP t p = some x → x.isTag = true → t.isTag = true := by
  intro p t x h hx
  cases p with
  | nil =>
    simp only [getAtP, Option.some.injEq] at h
    subst h
    exact hx
  | cons k p =>
    cases t with
    | tag => rfl
    | text => simp [getAtP] at h
    | comment => simp [getAtP] at h
    | pi => simp [getAtP] at h

theorem getAtP_append : ∀ (p q : List Nat) (t : PTree),
    getAtP t (p ++ q) = (getAtP t p).bind (fun x => getAtP x q) := by
  intro p
  induction p with
  | nil => intro q t; simp [getAtP]
  | cons k p ih =>
    intro q t
    cases t with
    | tag i ns n a ks =>
      simp only [List.cons_append, getAtP]
      cases ks[k]? with
      | none => rfl
      | some c => exact ih q c
    | text => simp [getAtP]
    | comment => simp [getAtP]
    | pi => simp [getAtP]

theorem setKids_setKids (x : PTree) (a b : List PTree) : (x.setKids a).setKids b = x.setKids b := by
  cases x <;> rfl

theorem kids_setKids (x : PTree) (a : List PTree) (h : x.isTag = true) : (x.setKids a).kids = a := by
  cases x <;> first | rfl | cases h

theorem isTag_setKids (x : PTree) (a : List PTree) : (x.setKids a).isTag = x.isTag := by
  cases x <;> rfl

theorem setKids_kids (x : PTree) : x.setKids x.kids = x := by
  cases x <;> rfl

theorem insertKid_eq (j : Nat) (new x : PTree) (hx : x.isTag = true) (hj : j ≤ x.kids.length) :
    insertKid j new x = .ok (x.setKids (x.kids.take j ++ new :: x.kids.drop j)) := by
  cases x with
  | tag i ns n a ks => simp only [PTree.kids] at hj; simp only [insertKid, if_pos hj, PTree.setKids, PTree.kids]
  | text => cases hx
  | comment => cases hx
  | pi => cases hx

/-! ### forests -/


theorem getElem?_clearGroups (gs : List (Option PTree)) (T : List Nat) (i : Nat) :
    (clearGroups gs T)[i]? = (gs[i]?).map (fun x => if i ∈ T then none else x) := by
  simp only [clearGroups, List.getElem?_mapIdx]

@[simp] theorem length_clearGroups (gs : List (Option PTree)) (T : List Nat) :
    (clearGroups gs T).length = gs.length := by
  simp only [clearGroups, List.length_mapIdx]

theorem clearGroups_nil (gs : List (Option PTree)) : clearGroups gs [] = gs := by
  apply List.ext_getElem?
  intro i
  simp [getElem?_clearGroups]

theorem clearGroups_singleton (gs : List (Option PTree)) (g : Nat) : clearGroups gs [g] = gs.set g none := by
  apply List.ext_getElem?
  intro i
  simp only [getElem?_clearGroups, List.mem_singleton, List.getElem?_set]
  by_cases h : g = i
  · subst h
    by_cases hl : g < gs.length
    · simp [hl]
    · simp [hl]
  · have : ¬ i = g := fun e => h e.symm
    simp [h, this]

theorem legalSources_iff (s : StateA) (g : Nat) (srcs : List Source) :
    legalSources s g srcs = true ↔
      (∀ g' ∈ takenGroups srcs, g' ≠ g ∧ ∃ t, s.groups[g']? = some (some t)) ∧ (takenGroups srcs).Nodup := by
  simp only [legalSources, Bool.and_eq_true, List.all_eq_true, bne_iff_ne, ne_eq, decide_eq_true_eq]
  constructor
  · rintro ⟨h1, h2⟩
    refine ⟨fun g' hg' => ⟨(h1 g' hg').1, ?_⟩, h2⟩
    have := (h1 g' hg').2
    split at this
    · rename_i t ht; exact ⟨t, ht⟩
    · cases this
  · rintro ⟨h1, h2⟩
    refine ⟨fun g' hg' => ⟨(h1 g' hg').1, ?_⟩, h2⟩
    obtain ⟨t, ht⟩ := (h1 g' hg').2
    simp [ht]


theorem offeredTrees_congr (gs gs' : List (Option PTree)) :
    ∀ (srcs : List Source) (n : Nat), (∀ g ∈ takenGroups srcs, gs[g]? = gs'[g]?) →
      offeredTrees gs n srcs = offeredTrees gs' n srcs := by
  intro srcs
  induction srcs with
  | nil => intro n _; rfl
  | cons src rest ih =>
    intro n h
    cases src with
    | newText str =>
      simp only [offeredTrees]
      rw [ih (n + 1) (fun g hg => h g (by simpa [takenGroups] using hg))]
    | group g0 =>
      have h0 := h g0 (by simp [takenGroups])
      simp only [offeredTrees, h0]
      rw [ih n (fun g hg => h g (by simp [takenGroups, hg]))]

theorem offeredTrees_cons (gs : List (Option PTree)) (n : Nat) (src : Source) (rest : List Source) :
    offeredTrees gs n (src :: rest) = offeredTrees gs n [src] ++ offeredTrees gs (n + freshCount [src]) rest := by
  cases src with
  | newText str => simp [offeredTrees, freshCount]
  | group g0 =>
    simp only [offeredTrees, freshCount, Nat.add_zero]
    split <;> simp

theorem freshCount_cons (src : Source) (rest : List Source) :
    freshCount (src :: rest) = freshCount [src] + freshCount rest := by
  cases src <;> simp [freshCount, Nat.add_comm]

theorem takenGroups_cons (src : Source) (rest : List Source) :
    takenGroups (src :: rest) = takenGroups [src] ++ takenGroups rest := by
  cases src <;> simp [takenGroups]

/-- under legality a single source offers exactly one tree -/
theorem offeredTrees_single (s : StateA) (g : Nat) (src : Source) (hl : legalSources s g [src] = true) :
    ∃ new, offeredTrees s.groups s.nextId [src] = [new] := by
  cases src with
  | newText str => exact ⟨_, rfl⟩
  | group g0 =>
    obtain ⟨t, ht⟩ := (((legalSources_iff s g _).1 hl).1 g0 (by simp [takenGroups])).2
    exact ⟨t, by simp [offeredTrees, ht]⟩

theorem takeSourceA_legal (s : StateA) (g : Nat) (src : Source) (new : PTree)
    (hl : legalSources s g [src] = true) (hnew : offeredTrees s.groups s.nextId [src] = [new]) :
    takeSourceA s g src = .ok ({ groups := clearGroups s.groups (takenGroups [src]),
                                 nextId := s.nextId + freshCount [src] }, new) := by
  cases src with
  | newText str =>
    simp only [offeredTrees, List.cons.injEq, and_true] at hnew
    subst hnew
    simp [takeSourceA, takenGroups, clearGroups_nil, freshCount]
  | group g0 =>
    obtain ⟨hne, t, ht⟩ := ((legalSources_iff s g _).1 hl).1 g0 (by simp [takenGroups])
    simp only [offeredTrees, ht, List.cons.injEq, and_true] at hnew
    subst hnew
    simp [takeSourceA, hne, ht, takenGroups, clearGroups_singleton, freshCount]

theorem modifyGroupA_ok (s : StateA) (g : Nat) (f : PTree → Except EditErr PTree) (t t' : PTree)
    (hg : s.groups[g]? = some (some t)) (ht : t.isTag = true) (hf : f t = .ok t') :
    modifyGroupA s g f = .ok { s with groups := s.groups.set g (some t') } := by
  cases t with
  | tag i ns n a ks => simp only [modifyGroupA, hg, hf]
  | text => cases ht
  | comment => cases ht
  | pi => cases ht

/-- the splice specification spelled out for a valid group -/
theorem spliceSpec_eq (s : StateA) (g : Nat) (p : List Nat) (srcs : List Source)
    (F : List PTree → List PTree → List PTree) (t : PTree)
    (hg : s.groups[g]? = some (some t)) (hng : g ∉ takenGroups srcs) :
    spliceSpec s ⟨g, p⟩ srcs F =
      { groups := (clearGroups s.groups (takenGroups srcs)).set g
          (some (replaceAtP (fun x => x.setKids (F x.kids (offeredTrees s.groups s.nextId srcs))) t p)),
        nextId := s.nextId + freshCount srcs } := by
  simp only [spliceSpec, setNodeA, getElem?_clearGroups, hg, Option.map_some, if_neg hng]


theorem not_mem_taken_of_legal {s : StateA} {g : Nat} {srcs : List Source} (hl : legalSources s g srcs = true) :
    g ∉ takenGroups srcs := fun h => (((legalSources_iff s g srcs).1 hl).1 g h).1 rfl

/-- one insertion step: `addFollowing`, `addPreceding` and `addFirst` all take the source and then insert
    it at some index `j` of the child list at `p` -/
theorem insert_step (s : StateA) (g : Nat) (p : List Nat) (j : Nat) (src : Source) (t x : PTree)
    (hg : s.groups[g]? = some (some t)) (hx : getAtP t p = some x) (hxt : x.isTag = true)
    (hj : j ≤ x.kids.length) (hl : legalSources s g [src] = true) :
    ∃ s' new, takeSourceA s g src = .ok (s', new) ∧
      ∀ G : PTree → Except EditErr PTree, G x = insertKid j new x →
        modifyGroupA s' g (fun t => modifyAtP G t p) =
          .ok (spliceSpec s ⟨g, p⟩ [src] (fun ks off => ks.take j ++ off ++ ks.drop j)) := by
  obtain ⟨new, hnew⟩ := offeredTrees_single s g src hl
  refine ⟨_, new, takeSourceA_legal s g src new hl hnew, ?_⟩
  intro G hG
  have hng := not_mem_taken_of_legal hl
  have hg' : (clearGroups s.groups (takenGroups [src]))[g]? = some (some t) := by
    simp only [getElem?_clearGroups, hg, Option.map_some, if_neg hng]
  rw [modifyGroupA_ok _ g _ t _ hg' (getAtP_root_isTag p t x hx hxt)
    (modifyAtP_eq_replaceAtP G (fun x => x.setKids (x.kids.take j ++ new :: x.kids.drop j)) p t x hx
      (by rw [hG, insertKid_eq j new x hxt hj]))]
  rw [spliceSpec_eq s g p [src] _ t hg hng, hnew]
  simp


theorem stepA_addFollowing_spec (s : StateA) (g : Nat) (p : List Nat) (k : Nat) (src : Source) (t x : PTree)
    (hg : s.groups[g]? = some (some t)) (hx : getAtP t p = some x) (hxt : x.isTag = true)
    (hk : k < x.kids.length) (hl : legalSources s g [src] = true) :
    stepA s (.addFollowing ⟨g, p ++ [k]⟩ src) =
      .ok (spliceSpec s ⟨g, p⟩ [src] (fun ks off => ks.take (k + 1) ++ off ++ ks.drop (k + 1))) := by
  obtain ⟨s', new, hts, hm⟩ := insert_step s g p (k + 1) src t x hg hx hxt hk hl
  simp only [stepA, splitLast_append, hts]
  exact hm _ (by simp only [if_pos hk])

theorem stepA_addPreceding_spec (s : StateA) (g : Nat) (p : List Nat) (k : Nat) (src : Source) (t x : PTree)
    (hg : s.groups[g]? = some (some t)) (hx : getAtP t p = some x) (hxt : x.isTag = true)
    (hk : k < x.kids.length) (hl : legalSources s g [src] = true) :
    stepA s (.addPreceding ⟨g, p ++ [k]⟩ src) =
      .ok (spliceSpec s ⟨g, p⟩ [src] (fun ks off => ks.take k ++ off ++ ks.drop k)) := by
  obtain ⟨s', new, hts, hm⟩ := insert_step s g p k src t x hg hx hxt (Nat.le_of_lt hk) hl
  simp only [stepA, splitLast_append, hts]
  exact hm _ (by simp only [if_pos hk])

theorem stepA_addFirst_spec (s : StateA) (g : Nat) (p : List Nat) (src : Source) (t x : PTree)
    (hg : s.groups[g]? = some (some t)) (hx : getAtP t p = some x) (hxt : x.isTag = true)
    (hk : x.kids = []) (hl : legalSources s g [src] = true) :
    stepA s (.addFirst ⟨g, p⟩ src) =
      .ok (spliceSpec s ⟨g, p⟩ [src] (fun ks off => ks.take 0 ++ off ++ ks.drop 0)) := by
  obtain ⟨s', new, hts, hm⟩ := insert_step s g p 0 src t x hg hx hxt (Nat.zero_le _) hl
  simp only [stepA, hts]
  exact hm _ (by simp [hxt, hk])

/-- what the forest looks like after one source was spliced in -/
theorem spliceSpec_single_get (s : StateA) (g : Nat) (p : List Nat) (src : Source)
    (F : List PTree → List PTree → List PTree) (t : PTree)
    (hg : s.groups[g]? = some (some t)) (hl : legalSources s g [src] = true) (i : Nat) :
    (spliceSpec s ⟨g, p⟩ [src] F).groups[i]? =
      if i = g then some (some (replaceAtP (fun x => x.setKids (F x.kids (offeredTrees s.groups s.nextId [src]))) t p))
      else if i ∈ takenGroups [src] then (s.groups[i]?).map (fun _ => none) else s.groups[i]? := by
  have hlt : g < s.groups.length := by
    rcases Nat.lt_or_ge g s.groups.length with h | h
    · exact h
    · simp [List.getElem?_eq_none h] at hg
  rw [spliceSpec_eq s g p [src] F t hg (not_mem_taken_of_legal hl)]
  simp only [List.getElem?_set, length_clearGroups, getElem?_clearGroups]
  by_cases h : g = i
  · subst h; simp [hlt]
  · have : ¬ i = g := fun e => h e.symm
    simp only [if_neg h, if_neg this]
    split <;> cases s.groups[i]? <;> simp

theorem legalSources_tail (s s1 : StateA) (g : Nat) (src : Source) (rest : List Source)
    (hl : legalSources s g (src :: rest) = true)
    (h1 : ∀ i, i ≠ g → i ∉ takenGroups [src] → s1.groups[i]? = s.groups[i]?) :
    legalSources s g [src] = true ∧ legalSources s1 g rest = true := by
  rw [legalSources_iff] at hl ⊢
  rw [legalSources_iff]
  rw [takenGroups_cons] at hl
  obtain ⟨hall, hnd⟩ := hl
  rw [List.nodup_append] at hnd
  obtain ⟨hnd1, hnd2, hdisj⟩ := hnd
  refine ⟨⟨fun g' hg' => hall g' (List.mem_append_left _ hg'), hnd1⟩, fun g' hg' => ?_, hnd2⟩
  obtain ⟨hne, t, ht⟩ := hall g' (List.mem_append_right _ hg')
  refine ⟨hne, t, ?_⟩
  rw [h1 g' hne (fun hin => hdisj g' hin g' hg' rfl), ht]


theorem getElem?_lt {α} {l : List α} {i : Nat} {x : α} (h : l[i]? = some x) : i < l.length := by
  rcases Nat.lt_or_ge i l.length with h' | h'
  · exact h'
  · simp [List.getElem?_eq_none h'] at h

/-- splicing one source and then the others (with the kid-list functions fitting together) is splicing
    them all at once -/
theorem spliceSpec_cons (s : StateA) (g : Nat) (p : List Nat) (src : Source) (rest : List Source) (t x : PTree)
    (F1 F' F : List PTree → List PTree → List PTree)
    (hg : s.groups[g]? = some (some t)) (hx : getAtP t p = some x) (hxt : x.isTag = true)
    (hl : legalSources s g (src :: rest) = true)
    (hF : ∀ new off, F' (F1 x.kids [new]) off = F x.kids (new :: off)) :
    spliceSpec (spliceSpec s ⟨g, p⟩ [src] F1) ⟨g, p⟩ rest F' = spliceSpec s ⟨g, p⟩ (src :: rest) F := by
  have hget := fun hl1 => spliceSpec_single_get s g p src F1 t hg hl1
  obtain ⟨hl1, hl2⟩ := legalSources_tail s (spliceSpec s ⟨g, p⟩ [src] F1) g src rest hl
    (fun i hi hni => by
      have hl1 : legalSources s g [src] = true := by
        rw [legalSources_iff] at hl ⊢
        rw [takenGroups_cons] at hl
        exact ⟨fun g' hg' => hl.1 g' (List.mem_append_left _ hg'), (List.nodup_append.1 hl.2).1⟩
      rw [hget hl1 i, if_neg hi, if_neg hni])
  replace hget := hget hl1
  obtain ⟨new, hnew⟩ := offeredTrees_single s g src hl1
  have hs1g := hget g
  rw [if_pos rfl, hnew] at hs1g
  have hnext : (spliceSpec s ⟨g, p⟩ [src] F1).nextId = s.nextId + freshCount [src] := rfl
  have hoff : offeredTrees (spliceSpec s ⟨g, p⟩ [src] F1).groups (s.nextId + freshCount [src]) rest =
      offeredTrees s.groups (s.nextId + freshCount [src]) rest := by
    apply offeredTrees_congr
    intro g' hg'
    have hleg := (legalSources_iff _ g rest).1 hl2
    have hleg' := (legalSources_iff s g (src :: rest)).1 hl
    rw [takenGroups_cons] at hleg'
    have hdisj := (List.nodup_append.1 hleg'.2).2.2
    rw [hget g', if_neg (hleg.1 g' hg').1, if_neg (fun hin => hdisj g' hin g' hg' rfl)]
  rw [spliceSpec_eq _ g p rest F' _ hs1g (not_mem_taken_of_legal hl2),
    spliceSpec_eq s g p (src :: rest) F t hg (not_mem_taken_of_legal hl), hnext, hoff,
    replaceAtP_comp, offeredTrees_cons, hnew, freshCount_cons src rest, Nat.add_assoc]
  have htree : replaceAtP (fun x => (x.setKids (F1 x.kids [new])).setKids
        (F' (x.setKids (F1 x.kids [new])).kids (offeredTrees s.groups (s.nextId + freshCount [src]) rest))) t p =
      replaceAtP (fun x => x.setKids
        (F x.kids ([new] ++ offeredTrees s.groups (s.nextId + freshCount [src]) rest))) t p := by
    apply replaceAtP_congr _ _ p t x hx
    simp only [setKids_setKids, kids_setKids x _ hxt, hF, List.singleton_append]
  rw [htree]
  congr 1
  apply List.ext_getElem?
  intro i
  have hlt := getElem?_lt hg
  simp only [List.getElem?_set, length_clearGroups, getElem?_clearGroups]
  by_cases h : g = i
  · subst h
    have : g < (spliceSpec s ⟨g, p⟩ [src] F1).groups.length := getElem?_lt hs1g
    simp [hlt, this]
  · have hne : ¬ i = g := fun e => h e.symm
    simp only [if_neg h, hget i, if_neg hne, takenGroups_cons src rest, List.mem_append]
    by_cases h1 : i ∈ takenGroups [src] <;> by_cases h2 : i ∈ takenGroups rest <;>
      cases s.groups[i]? <;> simp [h1, h2]


@[simp] theorem machA_step : machA.step = stepA := rfl
@[simp] theorem machA_view (s : StateA) : machA.view s = s := rfl

theorem replaceAtP_self (f : PTree → PTree) :
    ∀ (p : List Nat) (t x : PTree), getAtP t p = some x → f x = x → replaceAtP f t p = t := by
  intro p
  induction p with
  | nil =>
    intro t x h hf
    simp only [getAtP, Option.some.injEq] at h
    subst h
    simp only [replaceAtP, hf]
  | cons k p ih =>
    intro t x h hf
    cases t with
    | tag i ns n a ks =>
      simp only [getAtP] at h
      split at h
      · rename_i c hc
        simp only [replaceAtP, hc, ih c x h hf]
        congr 1
        apply List.ext_getElem?
        intro i
        simp only [List.getElem?_set]
        split
        · rename_i hki; subst hki
          have hc' := hc
          rw [List.getElem?_eq_getElem (getElem?_lt hc)] at hc'
          simp [getElem?_lt hc, (Option.some.inj hc').symm]
        · rfl
      · cases h
    | text => simp [getAtP] at h
    | comment => simp [getAtP] at h
    | pi => simp [getAtP] at h

theorem set_getElem?_self {α} (l : List α) (i : Nat) (x : α) (h : l[i]? = some x) : l.set i x = l := by
  apply List.ext_getElem?
  intro j
  simp only [List.getElem?_set]
  split
  · rename_i hij; subst hij
    have h' := h
    rw [List.getElem?_eq_getElem (getElem?_lt h)] at h'
    simp [getElem?_lt h, (Option.some.inj h').symm]
  · rfl

/-- nothing offered, nothing changes -/
theorem spliceSpec_nil (s : StateA) (g : Nat) (p : List Nat) (t x : PTree)
    (F : List PTree → List PTree → List PTree)
    (hg : s.groups[g]? = some (some t)) (hx : getAtP t p = some x) (hF : F x.kids [] = x.kids) :
    spliceSpec s ⟨g, p⟩ [] F = s := by
  rw [spliceSpec_eq s g p [] F t hg (by simp [takenGroups])]
  simp only [takenGroups, clearGroups_nil, offeredTrees, freshCount, Nat.add_zero]
  rw [replaceAtP_self _ p t x hx (by simp only [hF, setKids_kids]), set_getElem?_self _ _ _ hg]

/-- the target node after one source was spliced in -/
theorem spliceSpec_single_node (s : StateA) (g : Nat) (p : List Nat) (src : Source)
    (F : List PTree → List PTree → List PTree) (t x new : PTree)
    (hg : s.groups[g]? = some (some t)) (hx : getAtP t p = some x)
    (hl : legalSources s g [src] = true) (hnew : offeredTrees s.groups s.nextId [src] = [new]) :
    ∃ t1, (spliceSpec s ⟨g, p⟩ [src] F).groups[g]? = some (some t1) ∧
      getAtP t1 p = some (x.setKids (F x.kids [new])) := by
  refine ⟨replaceAtP (fun x => x.setKids (F x.kids [new])) t p, ?_,
    getAtP_replaceAtP (fun x => x.setKids (F x.kids [new])) p t x hx⟩
  rw [spliceSpec_single_get s g p src F t hg hl g, if_pos rfl, hnew]

theorem splice_following_list {α} (ks : List α) (j : Nat) (hj : j ≤ ks.length) (new : α) (off : List α) :
    (ks.take j ++ [new] ++ ks.drop j).take (j + 1) ++ off ++ (ks.take j ++ [new] ++ ks.drop j).drop (j + 1) =
      ks.take j ++ (new :: off) ++ ks.drop j := by
  have hlen : (ks.take j ++ [new]).length = j + 1 := by simp [List.length_take, Nat.min_eq_left hj]
  rw [List.take_left' hlen, List.drop_left' hlen]
  simp

theorem splice_preceding_list {α} (ks : List α) (j : Nat) (hj : j ≤ ks.length) (new : α) (off : List α) :
    (ks.take j ++ [new] ++ ks.drop j).take j ++ off.reverse ++ (ks.take j ++ [new] ++ ks.drop j).drop j =
      ks.take j ++ (new :: off).reverse ++ ks.drop j := by
  have hlen : (ks.take j).length = j := by simp [List.length_take, Nat.min_eq_left hj]
  rw [List.append_assoc (ks.take j), List.take_left' hlen, List.drop_left' hlen]
  simp

theorem legal_head {s : StateA} {g : Nat} {src : Source} {rest : List Source}
    (hl : legalSources s g (src :: rest) = true) : legalSources s g [src] = true := by
  rw [legalSources_iff] at hl ⊢
  rw [takenGroups_cons] at hl
  exact ⟨fun g' hg' => hl.1 g' (List.mem_append_left _ hg'), (List.nodup_append.1 hl.2).1⟩

theorem legal_tail {s : StateA} {g : Nat} {p : List Nat} {src : Source} {rest : List Source} {t : PTree}
    (F : List PTree → List PTree → List PTree) (hg : s.groups[g]? = some (some t))
    (hl : legalSources s g (src :: rest) = true) : legalSources (spliceSpec s ⟨g, p⟩ [src] F) g rest = true :=
  (legalSources_tail s _ g src rest hl (fun i hi hni => by
    rw [spliceSpec_single_get s g p src F t hg (legal_head hl) i, if_neg hi, if_neg hni])).2

/-- `add_following_siblings` on plain trees -/
theorem addFollowingAll_spec (g : Nat) (p : List Nat) :
    ∀ (srcs : List Source) (s : StateA) (k : Nat) (t x : PTree),
      s.groups[g]? = some (some t) → getAtP t p = some x → x.isTag = true → k < x.kids.length →
      legalSources s g srcs = true →
      addFollowingAll machA offerSource srcs s ⟨g, p ++ [k]⟩ =
        .ok (spliceSpec s ⟨g, p⟩ srcs (fun ks off => ks.take (k + 1) ++ off ++ ks.drop (k + 1))) := by
  intro srcs
  induction srcs with
  | nil =>
    intro s k t x hg hx hxt hk hl
    rw [spliceSpec_nil s g p t x _ hg hx (by simp)]
    rfl
  | cons src rest ih =>
    intro s k t x hg hx hxt hk hl
    have hl1 := legal_head hl
    obtain ⟨new, hnew⟩ := offeredTrees_single s g src hl1
    obtain ⟨t1, hg1, hx1⟩ := spliceSpec_single_node s g p src
      (fun ks off => ks.take (k + 1) ++ off ++ ks.drop (k + 1)) t x new hg hx hl1 hnew
    simp only [addFollowingAll, append_singleton_isEmpty, offerSource, machA_step, Bool.false_eq_true, if_false,
      stepA_addFollowing_spec s g p k src t x hg hx hxt hk hl1, splitLast_append]
    rw [ih _ (k + 1) t1 _ hg1 hx1 (by rw [isTag_setKids]; exact hxt)
      (by rw [kids_setKids _ _ hxt]; simp [List.length_take]; omega) (legal_tail _ hg hl)]
    rw [spliceSpec_cons s g p src rest t x _ _ (fun ks off => ks.take (k + 1) ++ off ++ ks.drop (k + 1)) hg hx hxt hl
      (fun new off => splice_following_list x.kids (k + 1) hk new off)]

/-- `add_preceding_siblings` on plain trees -/
theorem addPrecedingAll_spec (g : Nat) (p : List Nat) (k : Nat) :
    ∀ (srcs : List Source) (s : StateA) (t x : PTree),
      s.groups[g]? = some (some t) → getAtP t p = some x → x.isTag = true → k < x.kids.length →
      legalSources s g srcs = true →
      addPrecedingAll machA offerSource srcs s ⟨g, p ++ [k]⟩ =
        .ok (spliceSpec s ⟨g, p⟩ srcs (fun ks off => ks.take k ++ off.reverse ++ ks.drop k)) := by
  intro srcs
  induction srcs with
  | nil =>
    intro s t x hg hx hxt hk hl
    rw [spliceSpec_nil s g p t x _ hg hx (by simp)]
    rfl
  | cons src rest ih =>
    intro s t x hg hx hxt hk hl
    have hl1 := legal_head hl
    obtain ⟨new, hnew⟩ := offeredTrees_single s g src hl1
    have hsame : spliceSpec s ⟨g, p⟩ [src] (fun ks off => ks.take k ++ off ++ ks.drop k) =
        spliceSpec s ⟨g, p⟩ [src] (fun ks off => ks.take k ++ off.reverse ++ ks.drop k) := by
      simp only [spliceSpec, hnew, List.reverse_singleton]
    obtain ⟨t1, hg1, hx1⟩ := spliceSpec_single_node s g p src
      (fun ks off => ks.take k ++ off.reverse ++ ks.drop k) t x new hg hx hl1 hnew
    simp only [addPrecedingAll, append_singleton_isEmpty, offerSource, machA_step, Bool.false_eq_true, if_false,
      stepA_addPreceding_spec s g p k src t x hg hx hxt hk hl1, hsame]
    rw [ih _ t1 _ hg1 hx1 (by rw [isTag_setKids]; exact hxt)
      (by rw [kids_setKids _ _ hxt]; simp [List.length_take]; omega) (legal_tail _ hg hl)]
    rw [spliceSpec_cons s g p src rest t x _ _ (fun ks off => ks.take k ++ off.reverse ++ ks.drop k) hg hx hxt hl
      (fun new off => by
        simpa using splice_preceding_list x.kids k (Nat.le_of_lt hk) new off)]


theorem nodeAtA_some {s : StateA} {a : Addr} {x : PTree} (h : nodeAtA s a = some x) :
    ∃ t, s.groups[a.g]? = some (some t) ∧ getAtP t a.path = some x := by
  simp only [nodeAtA] at h
  split at h
  · rename_i t ht; exact ⟨t, ht, h⟩
  · cases h

theorem nodeAtA_eq {s : StateA} {g : Nat} {p : List Nat} {t : PTree} (hg : s.groups[g]? = some (some t)) :
    nodeAtA s ⟨g, p⟩ = getAtP t p := by
  simp only [nodeAtA, hg]

theorem tagAt_iff (s : StateA) (a : Addr) :
    tagAt s a = true ↔ ∃ t x, s.groups[a.g]? = some (some t) ∧ getAtP t a.path = some x ∧ x.isTag = true := by
  simp only [tagAt]
  constructor
  · intro h
    split at h
    · rename_i x hx
      obtain ⟨t, ht, hx'⟩ := nodeAtA_some hx
      exact ⟨t, x, ht, hx', h⟩
    · cases h
  · rintro ⟨t, x, ht, hx, hxt⟩
    cases a with
    | mk g p => rw [nodeAtA_eq ht]; simp only at hx; simp only [hx, hxt]

theorem childAt_iff (s : StateA) (a : Addr) (k : Nat) :
    childAt s a k = true ↔ ∃ t x, s.groups[a.g]? = some (some t) ∧ getAtP t a.path = some x ∧ x.isTag = true ∧
      k < x.kids.length := by
  simp only [childAt]
  constructor
  · intro h
    split at h
    · rename_i x hx
      obtain ⟨t, ht, hx'⟩ := nodeAtA_some hx
      simp only [Bool.and_eq_true, decide_eq_true_eq] at h
      exact ⟨t, x, ht, hx', h.1, h.2⟩
    · cases h
  · rintro ⟨t, x, ht, hx, hxt, hk⟩
    cases a with
    | mk g p => rw [nodeAtA_eq ht]; simp only at hx; simp [hx, hxt, hk]

theorem spliceSpec_congr (s : StateA) (g : Nat) (p : List Nat) (srcs : List Source) (t x : PTree)
    (F F' : List PTree → List PTree → List PTree)
    (hg : s.groups[g]? = some (some t)) (hx : getAtP t p = some x) (hng : g ∉ takenGroups srcs)
    (hF : ∀ off, F x.kids off = F' x.kids off) :
    spliceSpec s ⟨g, p⟩ srcs F = spliceSpec s ⟨g, p⟩ srcs F' := by
  rw [spliceSpec_eq s g p srcs F t hg hng, spliceSpec_eq s g p srcs F' t hg hng,
    replaceAtP_congr (fun x => x.setKids (F x.kids (offeredTrees s.groups s.nextId srcs)))
      (fun x => x.setKids (F' x.kids (offeredTrees s.groups s.nextId srcs))) p t x hx (by simp only [hF])]

theorem kidsCountA_eq {s : StateA} {g : Nat} {p : List Nat} {t x : PTree}
    (hg : s.groups[g]? = some (some t)) (hx : getAtP t p = some x) : kidsCountA s ⟨g, p⟩ = x.kids.length := by
  simp only [kidsCountA, nodeAtA_eq hg, hx]

/-- `insert_children(idx, src, *rest)` on plain trees -/
theorem insertChildren_spec (s : StateA) (g : Nat) (p : List Nat) (idx : Nat) (src : Source) (rest : List Source)
    (t x : PTree) (hg : s.groups[g]? = some (some t)) (hx : getAtP t p = some x) (hxt : x.isTag = true)
    (hidx : idx ≤ x.kids.length) (hl : legalSources s g (src :: rest) = true) :
    insertChildren machA offerSource idx (src :: rest) s ⟨g, p⟩ = .ok (insertSpec s ⟨g, p⟩ idx (src :: rest)) := by
  have hl1 := legal_head hl
  obtain ⟨new, hnew⟩ := offeredTrees_single s g src hl1
  -- whichever way the first node goes in, it ends up at `idx`
  have hfirst : (if idx = 0 then
        (if kidsCountA (machA.view s) ⟨g, p⟩ > 0 then addPrecedingAll machA offerSource [src] s ⟨g, p ++ [0]⟩
         else addFirstOne machA offerSource src s ⟨g, p⟩)
      else addFollowingAll machA offerSource [src] s ⟨g, p ++ [idx - 1]⟩) =
      .ok (spliceSpec s ⟨g, p⟩ [src] (fun ks off => ks.take idx ++ off ++ ks.drop idx)) := by
    rw [machA_view, kidsCountA_eq hg hx]
    split
    · rename_i h0
      subst h0
      split
      · rename_i hpos
        rw [addPrecedingAll_spec g p 0 [src] s t x hg hx hxt hpos hl1]
        simp only [spliceSpec, hnew, List.reverse_singleton]
      · rename_i hpos
        have hk : x.kids = [] := List.eq_nil_of_length_eq_zero (by omega)
        simp only [addFirstOne, offerSource, machA_step]
        rw [stepA_addFirst_spec s g p src t x hg hx hxt hk hl1]
    · rename_i h0
      rw [addFollowingAll_spec g p [src] s (idx - 1) t x hg hx hxt (by omega) hl1]
      have : idx - 1 + 1 = idx := by omega
      rw [this]
  obtain ⟨t1, hg1, hx1⟩ := spliceSpec_single_node s g p src
    (fun ks off => ks.take idx ++ off ++ ks.drop idx) t x new hg hx hl1 hnew
  simp only [insertChildren]
  rw [if_neg (by rw [machA_view, kidsCountA_eq hg hx]; omega)]
  simp only [hfirst]
  rw [addFollowingAll_spec g p rest _ idx t1 _ hg1 hx1 (by rw [isTag_setKids]; exact hxt)
    (by rw [kids_setKids _ _ hxt]; simp [List.length_take]; omega) (legal_tail _ hg hl)]
  rw [spliceSpec_cons s g p src rest t x _ _ (fun ks off => ks.take idx ++ off ++ ks.drop idx) hg hx hxt hl
    (fun new off => splice_following_list x.kids idx hidx new off)]
  rfl

/-- `append_children(*srcs)` on plain trees -/
theorem appendChildren_spec (s : StateA) (g : Nat) (p : List Nat) (srcs : List Source)
    (t x : PTree) (hg : s.groups[g]? = some (some t)) (hx : getAtP t p = some x) (hxt : x.isTag = true)
    (hl : legalSources s g srcs = true) :
    appendChildren machA offerSource srcs s ⟨g, p⟩ = .ok (appendSpec s ⟨g, p⟩ srcs) := by
  cases srcs with
  | nil =>
    simp only [appendChildren, appendSpec]
    rw [spliceSpec_nil s g p t x _ hg hx (by simp)]
  | cons src rest =>
    have hl1 := legal_head hl
    obtain ⟨new, hnew⟩ := offeredTrees_single s g src hl1
    simp only [appendChildren, machA_view, kidsCountA_eq hg hx, appendSpec]
    split
    · rename_i h0
      have hk : x.kids = [] := List.eq_nil_of_length_eq_zero h0
      obtain ⟨t1, hg1, hx1⟩ := spliceSpec_single_node s g p src
        (fun ks off => ks.take 0 ++ off ++ ks.drop 0) t x new hg hx hl1 hnew
      simp only [addFirstOne, offerSource, machA_step]
      rw [stepA_addFirst_spec s g p src t x hg hx hxt hk hl1]
      simp only
      rw [addFollowingAll_spec g p rest _ 0 t1 _ hg1 hx1 (by rw [isTag_setKids]; exact hxt)
        (by rw [kids_setKids _ _ hxt]; simp) (legal_tail _ hg hl)]
      rw [spliceSpec_cons s g p src rest t x _ _ (fun ks off => ks ++ off) hg hx hxt hl
        (fun new off => by simp [hk])]
    · rename_i h0
      rw [addFollowingAll_spec g p (src :: rest) s _ t x hg hx hxt (by omega) hl]
      have : x.kids.length - 1 + 1 = x.kids.length := by omega
      rw [this]
      exact congrArg _ (spliceSpec_congr s g p _ t x _ _ hg hx (not_mem_taken_of_legal hl) (fun off => by simp))


theorem removeKid_eq (k : Nat) (x c : PTree) (hxt : x.isTag = true) (hc : x.kids[k]? = some c) :
    removeKid k x = .ok (x.setKids (x.kids.eraseIdx k), c) := by
  cases x with
  | tag i ns n a ks => simp only [PTree.kids] at hc; simp only [removeKid, hc, PTree.setKids, PTree.kids]
  | text => cases hxt
  | comment => cases hxt
  | pi => cases hxt

/-- the primitive `detach` of child `k` of the node at `p` -/
theorem stepA_detach_spec (s : StateA) (g : Nat) (p : List Nat) (k : Nat) (t x c : PTree)
    (hg : s.groups[g]? = some (some t)) (hx : getAtP t p = some x) (hxt : x.isTag = true)
    (hc : x.kids[k]? = some c) :
    stepA s (.detach ⟨g, p ++ [k]⟩) =
      .ok { s with groups := s.groups.set g (some (replaceAtP (fun x => x.setKids (x.kids.eraseIdx k)) t p))
                              ++ [some c] } := by
  have hget : getAtP t (p ++ [k]) = some c := by
    rw [getAtP_append, hx]
    cases x with
    | tag i ns n a ks => simp only [PTree.kids] at hc; simp [getAtP, hc]
    | text => cases hxt
    | comment => cases hxt
    | pi => cases hxt
  simp only [stepA, splitLast_append, hg, hget]
  rw [modifyAtP_eq_replaceAtP _ (fun x => x.setKids (x.kids.eraseIdx k)) p t x hx
    (by rw [removeKid_eq k x c hxt hc]; rfl)]
  simp only [getAtP_root_isTag p t x hx hxt, if_true]

theorem eraseIdx_splice {α} (ks : List α) (k : Nat) (hk : k < ks.length) (off : List α) :
    (ks.take (k + 1) ++ off ++ ks.drop (k + 1)).eraseIdx k = ks.take k ++ off ++ ks.drop (k + 1) := by
  have h1 : ks.take (k + 1) = ks.take k ++ [ks[k]] := by
    rw [List.take_succ_eq_append_getElem hk]
  have hlen : (ks.take k).length = k := by simp [List.length_take]; omega
  rw [h1, List.append_assoc, List.append_assoc, List.eraseIdx_append_of_length_le (by omega), hlen]
  simp

/-- `replace_with` on plain trees -/
theorem replaceWith_spec (s : StateA) (g : Nat) (p : List Nat) (k : Nat) (srcs : List Source)
    (t x c : PTree) (hg : s.groups[g]? = some (some t)) (hx : getAtP t p = some x) (hxt : x.isTag = true)
    (hc : x.kids[k]? = some c) (hl : legalSources s g srcs = true) :
    replaceWith machA offerSource srcs s ⟨g, p ++ [k]⟩ = .ok (replaceSpecOf s ⟨g, p⟩ k c srcs) := by
  have hk := getElem?_lt hc
  have hng := not_mem_taken_of_legal hl
  have hlt := getElem?_lt hg
  simp only [replaceWith, append_singleton_isEmpty, Bool.false_eq_true, if_false,
    addFollowingAll_spec g p srcs s k t x hg hx hxt hk hl, machA_step]
  rw [spliceSpec_eq s g p srcs _ t hg hng]
  rw [stepA_detach_spec _ g p k _ (x.setKids (x.kids.take (k + 1) ++ offeredTrees s.groups s.nextId srcs ++ x.kids.drop (k + 1))) c
    (List.getElem?_set_self (by rw [length_clearGroups]; exact hlt)) (getAtP_replaceAtP _ p t x hx) (by rw [isTag_setKids]; exact hxt)
    (by rw [kids_setKids _ _ hxt, List.append_assoc, List.getElem?_append_left (by simp [List.length_take]; omega),
          List.getElem?_take_of_lt (by omega), hc])]
  simp only [replaceSpecOf]
  rw [spliceSpec_eq s g p srcs _ t hg hng, replaceAtP_comp, List.set_set]
  congr 5
  apply replaceAtP_congr _ _ p t x hx
  simp only [setKids_setKids, kids_setKids x _ hxt, eraseIdx_splice x.kids k hk]

/-- `del a[k]` on plain trees -/
theorem delItem_spec (s : StateA) (g : Nat) (p : List Nat) (k : Nat)
    (t x c : PTree) (hg : s.groups[g]? = some (some t)) (hx : getAtP t p = some x) (hxt : x.isTag = true)
    (hc : x.kids[k]? = some c) :
    delItem machA k s ⟨g, p⟩ = .ok (delItemSpecOf s ⟨g, p⟩ k c) := by
  have hk := getElem?_lt hc
  simp only [delItem, machA_view, kidsCountA_eq hg hx, ge_iff_le, if_neg (Nat.not_le.2 hk), machA_step,
    stepA_detach_spec s g p k t x c hg hx hxt hc, delItemSpecOf, setNodeA, hg]


theorem replaceAtP_append (f : PTree → PTree) :
    ∀ (p q : List Nat) (t : PTree), replaceAtP f t (p ++ q) = replaceAtP (fun x => replaceAtP f x q) t p := by
  intro p
  induction p with
  | nil => intro q t; simp only [List.nil_append, replaceAtP]
  | cons k p ih =>
    intro q t
    cases t with
    | tag i ns n a ks =>
      simp only [List.cons_append, replaceAtP]
      cases ks[k]? with
      | none => rfl
      | some c => simp only [ih q c]
    | text => simp only [List.cons_append, replaceAtP]
    | comment => simp only [List.cons_append, replaceAtP]
    | pi => simp only [List.cons_append, replaceAtP]

theorem replaceAtP_single (f : PTree → PTree) (x c : PTree) (k : Nat) (hxt : x.isTag = true)
    (hc : x.kids[k]? = some c) : replaceAtP f x [k] = x.setKids (x.kids.set k (f c)) := by
  cases x with
  | tag i ns n a ks => simp only [PTree.kids] at hc; simp only [replaceAtP, hc, PTree.setKids, PTree.kids]
  | text => cases hxt
  | comment => cases hxt
  | pi => cases hxt

theorem isTag_of_kids_ne_nil (N : PTree) (h : N.kids ≠ []) : N.isTag = true := by
  cases N <;> first | rfl | exact absurd rfl h

/-- detaching the first child `m` times -/
theorem detachKids_spec (g : Nat) (q : List Nat) :
    ∀ (m : Nat) (s : StateA) (t N : PTree), s.groups[g]? = some (some t) → getAtP t q = some N →
      m ≤ N.kids.length →
      detachKids machA ⟨g, q⟩ m s =
        .ok { s with groups := s.groups.set g (some (replaceAtP (fun y => y.setKids (y.kids.drop m)) t q))
                                ++ (N.kids.take m).map some } := by
  intro m
  induction m with
  | zero =>
    intro s t N hg hN _
    simp only [detachKids, List.take_zero, List.map_nil, List.append_nil]
    rw [replaceAtP_self _ q t N hN (by simp only [List.drop_zero, setKids_kids]), set_getElem?_self _ _ _ hg]
  | succ m ih =>
    intro s t N hg hN hm
    have hlt := getElem?_lt hg
    cases hks : N.kids with
    | nil => rw [hks] at hm; simp at hm
    | cons c0 tl =>
      have hNt : N.isTag = true := isTag_of_kids_ne_nil N (by rw [hks]; simp)
      simp only [detachKids, machA_step]
      rw [stepA_detach_spec s g q 0 t N c0 hg hN hNt (by rw [hks]; rfl)]
      simp only
      rw [ih _ (replaceAtP (fun x => x.setKids (x.kids.eraseIdx 0)) t q) (N.setKids (N.kids.eraseIdx 0))
        (by rw [List.getElem?_append_left (by simpa using hlt)]; exact List.getElem?_set_self (by simpa using hlt))
        (getAtP_replaceAtP _ q t N hN)
        (by rw [kids_setKids _ _ hNt, hks]; rw [hks] at hm; simp at hm ⊢; omega)]
      simp only [kids_setKids _ _ hNt, hks, List.eraseIdx_zero, List.tail_cons, List.take_succ_cons, List.map_cons]
      rw [List.set_append_left _ _ (by simpa using hlt), List.set_set, replaceAtP_comp,
        replaceAtP_congr _ (fun y => y.setKids (y.kids.drop (m + 1))) q t N hN
          (by simp only [setKids_setKids, kids_setKids _ _ hNt, hks, List.tail_cons, List.drop_succ_cons])]
      simp


/-- the sources `detach(retain_child_nodes=True)` hands to `insert_children`: the groups the child nodes became -/
def retained (g0 n : Nat) : List Source := (List.range n).map (fun i => Source.group (g0 + i))

theorem retained_succ (g0 n : Nat) : retained g0 (n + 1) = .group g0 :: retained (g0 + 1) n := by
  simp only [retained, List.range_succ_eq_map, List.map_cons, List.map_map, Nat.add_zero]
  congr 1
  apply List.map_congr_left
  intro i _
  simp only [Function.comp, Nat.add_assoc, Nat.add_comm 1 i]

theorem takenGroups_retained (g0 n : Nat) : takenGroups (retained g0 n) = (List.range n).map (fun i => g0 + i) := by
  induction n generalizing g0 with
  | zero => rfl
  | succ n ih =>
    rw [retained_succ, takenGroups, ih, List.range_succ_eq_map]
    simp only [List.map_cons, List.map_map, Nat.add_zero]
    congr 1
    apply List.map_congr_left
    intro i _
    simp only [Function.comp, Nat.add_assoc, Nat.add_comm 1 i]

theorem freshCount_retained (g0 n : Nat) : freshCount (retained g0 n) = 0 := by
  induction n generalizing g0 with
  | zero => rfl
  | succ n ih => rw [retained_succ, freshCount, ih]

theorem offeredTrees_retained (cs : List PTree) :
    ∀ (A B : List (Option PTree)) (m : Nat),
      offeredTrees (A ++ cs.map some ++ B) m (retained A.length cs.length) = cs := by
  induction cs with
  | nil => intro A B m; rfl
  | cons c cs ih =>
    intro A B m
    have h0 : (A ++ (c :: cs).map some ++ B)[A.length]? = some (some c) := by
      rw [List.append_assoc, List.getElem?_append_right (Nat.le_refl _)]
      simp
    rw [List.length_cons, retained_succ, offeredTrees, h0]
    simp only
    have := ih (A ++ [some c]) B m
    simp only [List.length_append, List.length_singleton, List.append_assoc, List.nil_append,
      List.cons_append] at this
    simp only [List.map_cons, List.append_assoc, List.cons_append, this]

theorem mem_retained_taken {g0 n g' : Nat} (h : g' ∈ takenGroups (retained g0 n)) : ∃ i, i < n ∧ g' = g0 + i := by
  rw [takenGroups_retained] at h
  simp only [List.mem_map, List.mem_range] at h
  obtain ⟨i, hi, rfl⟩ := h
  exact ⟨i, hi, rfl⟩

theorem eraseIdx_set_self {α} (l : List α) (k : Nat) (y : α) : (l.set k y).eraseIdx k = l.eraseIdx k := by
  induction l generalizing k with
  | nil => rfl
  | cons a l ih =>
    cases k with
    | zero => rfl
    | succ k => simp only [List.set_cons_succ, List.eraseIdx_cons_succ, ih]

theorem eraseIdx_take_drop {α} (ks : List α) (k : Nat) (hk : k < ks.length) (cs : List α) :
    (ks.eraseIdx k).take k ++ cs ++ (ks.eraseIdx k).drop k = ks.take k ++ cs ++ ks.drop (k + 1) := by
  have hlen : (ks.take k).length = k := by simp [List.length_take]; omega
  rw [List.eraseIdx_eq_take_drop_succ, List.take_left' hlen, List.drop_left' hlen]

theorem insertChildren_spec' (s : StateA) (g : Nat) (p : List Nat) (idx : Nat) (srcs : List Source)
    (t x : PTree) (hg : s.groups[g]? = some (some t)) (hx : getAtP t p = some x) (hxt : x.isTag = true)
    (hidx : idx ≤ x.kids.length) (hne : srcs ≠ []) (hl : legalSources s g srcs = true) :
    insertChildren machA offerSource idx srcs s ⟨g, p⟩ = .ok (insertSpec s ⟨g, p⟩ idx srcs) := by
  cases srcs with
  | nil => exact absurd rfl hne
  | cons src rest => exact insertChildren_spec s g p idx src rest t x hg hx hxt hidx hl

theorem clearGroups_append_retained (A B : List (Option PTree)) (cs : List PTree) :
    clearGroups (A ++ cs.map some ++ B) ((List.range cs.length).map (fun i => A.length + i)) =
      A ++ List.replicate cs.length none ++ B := by
  apply List.ext_getElem?
  intro i
  have hmem : i ∈ (List.range cs.length).map (fun i => A.length + i) ↔ A.length ≤ i ∧ i < A.length + cs.length := by
    simp only [List.mem_map, List.mem_range]
    constructor
    · rintro ⟨j, hj, rfl⟩; omega
    · rintro ⟨h1, h2⟩; exact ⟨i - A.length, by omega, by omega⟩
  rw [getElem?_clearGroups]
  by_cases h1 : i < A.length
  · have hn : ¬ (A.length ≤ i ∧ i < A.length + cs.length) := by omega
    rw [List.append_assoc, List.append_assoc, List.getElem?_append_left h1, List.getElem?_append_left h1]
    cases A[i]? <;> simp [hmem, hn]
  · by_cases h2 : i < A.length + cs.length
    · have hy : A.length ≤ i ∧ i < A.length + cs.length := by omega
      rw [List.getElem?_append_left (by simp; omega), List.getElem?_append_right (by omega),
        List.getElem?_append_left (by simp; omega), List.getElem?_append_right (by omega)]
      simp [hmem, hy, List.getElem?_replicate]
      have : i - A.length < cs.length := by omega
      simp [this]
    · have hn : ¬ (A.length ≤ i ∧ i < A.length + cs.length) := by omega
      rw [List.getElem?_append_right (by simp; omega), List.getElem?_append_right (by simp; omega)]
      simp only [List.length_append, List.length_map, List.length_replicate]
      cases B[i - (A.length + cs.length)]? <;> simp [hmem, hn]

/-- `detach(retain_child_nodes=True)` on plain trees -/
theorem detachRetain_spec (s : StateA) (g : Nat) (p : List Nat) (k : Nat)
    (t x N : PTree) (hg : s.groups[g]? = some (some t)) (hx : getAtP t p = some x) (hxt : x.isTag = true)
    (hN : x.kids[k]? = some N) :
    detachRetain machA s ⟨g, p ++ [k]⟩ = .ok (detachRetainSpecOf s ⟨g, p⟩ k N) := by
  have hk := getElem?_lt hN
  have hlt := getElem?_lt hg
  have hgetN : getAtP t (p ++ [k]) = some N := by
    rw [getAtP_append, hx]
    cases x with
    | tag i ns n a ks => simp only [PTree.kids] at hN; simp [getAtP, hN]
    | text => cases hxt
    | comment => cases hxt
    | pi => cases hxt
  -- phase 1: the children come off
  have h1 := detachKids_spec g (p ++ [k]) N.kids.length s t N hg hgetN (Nat.le_refl _)
  rw [List.take_length, replaceAtP_append,
    replaceAtP_congr _ (fun x => x.setKids (x.kids.set k (N.setKids []))) p t x hx
      (by rw [replaceAtP_single _ x N k hxt hN, List.drop_length])] at h1
  -- phase 2: the node comes off
  have h2 : stepA
      { s with groups := s.groups.set g (some (replaceAtP (fun x => x.setKids (x.kids.set k (N.setKids []))) t p))
                        ++ N.kids.map some } (.detach ⟨g, p ++ [k]⟩) =
      .ok { s with groups := s.groups.set g (some (replaceAtP (fun x => x.setKids (x.kids.eraseIdx k)) t p))
                        ++ N.kids.map some ++ [some (N.setKids [])] } := by
    rw [stepA_detach_spec _ g p k _ (x.setKids (x.kids.set k (N.setKids []))) (N.setKids [])
      (by rw [List.getElem?_append_left (by simpa using hlt)]; exact List.getElem?_set_self (by simpa using hlt))
      (getAtP_replaceAtP _ p t x hx) (by rw [isTag_setKids]; exact hxt)
      (by rw [kids_setKids _ _ hxt]; exact List.getElem?_set_self hk)]
    simp only
    rw [List.set_append_left _ _ (by simpa using hlt), List.set_set, replaceAtP_comp,
      replaceAtP_congr _ (fun x => x.setKids (x.kids.eraseIdx k)) p t x hx
        (by simp only [setKids_setKids, kids_setKids _ _ hxt, eraseIdx_set_self])]
  simp only [detachRetain, append_singleton_isEmpty, Bool.false_eq_true, if_false, machA_view,
    kidsCountA_eq hg hgetN, h1, machA_step, h2, splitLast_append]
  split
  · -- no children
    rename_i h0
    have hks : N.kids = [] := List.eq_nil_of_length_eq_zero h0
    simp only [detachRetainSpecOf, setNodeA, hg, hks, List.map_nil, List.append_nil, List.length_nil,
      List.replicate_zero, List.eraseIdx_eq_take_drop_succ]
  · -- phase 3: `parent.insert_children(k, *child_nodes)`
    rename_i h0
    have hg2 : (s.groups.set g (some (replaceAtP (fun x => x.setKids (x.kids.eraseIdx k)) t p))
        ++ N.kids.map some ++ [some (N.setKids [])])[g]? =
        some (some (replaceAtP (fun x => x.setKids (x.kids.eraseIdx k)) t p)) := by
      rw [List.append_assoc, List.getElem?_append_left (by simpa using hlt)]
      exact List.getElem?_set_self (by simpa using hlt)
    have hoff := offeredTrees_retained N.kids
      (s.groups.set g (some (replaceAtP (fun x => x.setKids (x.kids.eraseIdx k)) t p))) [some (N.setKids [])] s.nextId
    rw [List.length_set] at hoff
    have hleg : legalSources
        ⟨s.groups.set g (some (replaceAtP (fun x => x.setKids (x.kids.eraseIdx k)) t p))
          ++ N.kids.map some ++ [some (N.setKids [])], s.nextId⟩ g (retained s.groups.length N.kids.length) = true := by
      rw [legalSources_iff]
      refine ⟨fun g' hg' => ?_, ?_⟩
      · obtain ⟨i, hi, rfl⟩ := mem_retained_taken hg'
        refine ⟨by omega, N.kids[i], ?_⟩
        simp only
        rw [List.append_assoc, List.getElem?_append_right (by simp), List.length_set, Nat.add_sub_cancel_left,
          List.getElem?_append_left (by simpa using hi)]
        simp [hi]
      · rw [takenGroups_retained]
        rw [List.Nodup, List.pairwise_map]
        exact (List.nodup_range (n := N.kids.length)).imp (fun h => by omega)
    have hne : retained s.groups.length N.kids.length ≠ [] := by
      cases hn : N.kids.length with
      | zero => exact absurd hn h0
      | succ n => rw [retained_succ]; simp
    have hins := insertChildren_spec' _ g p k (retained s.groups.length N.kids.length) _ _ hg2
      (getAtP_replaceAtP _ p t x hx) (by rw [isTag_setKids]; exact hxt)
      (by rw [kids_setKids _ _ hxt, List.length_eraseIdx_of_lt hk]; omega) hne hleg
    rw [show (List.map (fun k => Source.group (s.groups.length + k)) (List.range N.kids.length)) =
      retained s.groups.length N.kids.length from rfl, hins]
    simp only [insertSpec]
    rw [spliceSpec_eq _ g p _ _ _ hg2 (not_mem_taken_of_legal hleg)]
    simp only [hoff, freshCount_retained, Nat.add_zero, detachRetainSpecOf, setNodeA, hg, replaceAtP_comp]
    have htree : replaceAtP (fun x => (x.setKids (x.kids.eraseIdx k)).setKids
          (List.take k (x.setKids (x.kids.eraseIdx k)).kids ++ N.kids ++
            List.drop k (x.setKids (x.kids.eraseIdx k)).kids)) t p =
        replaceAtP (fun t => t.setKids (List.take k t.kids ++ N.kids ++ List.drop (k + 1) t.kids)) t p :=
      replaceAtP_congr _ _ p t x hx
        (by simp only [setKids_setKids, kids_setKids _ _ hxt, eraseIdx_take_drop x.kids k hk])
    have hclear := clearGroups_append_retained
      (s.groups.set g (some (replaceAtP (fun x => x.setKids (x.kids.eraseIdx k)) t p))) [some (N.setKids [])] N.kids
    rw [List.length_set] at hclear
    rw [htree, takenGroups_retained, hclear, List.append_assoc, List.set_append_left _ _ (by simpa using hlt),
      List.set_set, List.append_assoc]


/-- child `k` of the node at `parent`, as an address -/
theorem nodeAtA_child (s : StateA) (parent : Addr) (k : Nat) (t x c : PTree)
    (hg : s.groups[parent.g]? = some (some t)) (hx : getAtP t parent.path = some x) (hxt : x.isTag = true)
    (hc : x.kids[k]? = some c) : nodeAtA s (childAddr parent k) = some c := by
  cases parent with
  | mk g p =>
    simp only [childAddr, nodeAtA_eq hg, getAtP_append] at hx ⊢
    rw [hx]
    cases x with
    | tag i ns n a ks => simp only [PTree.kids] at hc; simp [getAtP, hc]
    | text => cases hxt
    | comment => cases hxt
    | pi => cases hxt

/-! ## 3. what the mechanism runs is a history of primitive steps -/

/-- the mechanism, keeping a log of the primitive steps it performed -/
def machT : Machine (StateC × List Prim) EditErr :=
  { step := fun st p => match stepC st.1 p with
      | .ok s' => .ok (s', st.2 ++ [p])
      | .error e => .error e
    view := fun st => absState st.1
    fail := apiErr }

theorem runC_append (s : StateC) (ops : List Prim) (p : Prim) (s1 s2 : StateC)
    (h1 : runC s ops = .ok s1) (h2 : stepC s1 p = .ok s2) : runC s (ops ++ [p]) = .ok s2 := by
  induction ops generalizing s with
  | nil =>
    simp only [runC, Except.ok.injEq] at h1
    subst h1
    simp only [List.nil_append, runC, h2]
  | cons q ops ih =>
    simp only [runC] at h1
    split at h1
    · rename_i s' hs'
      simp only [List.cons_append, runC, hs']
      exact ih s' h1
    · cases h1

/-- the logging mechanism does what the mechanism does, and its log replays to the state it is in -/
theorem sim_machC_machT (s0 : StateC) :
    Sim machC machT (fun c st => st.1 = c ∧ runC s0 st.2 = .ok c) where
  view := by rintro c ⟨c', tr⟩ ⟨rfl, _⟩; rfl
  step := by
    rintro c ⟨c', tr⟩ p ⟨rfl, hrun⟩
    show ExRel _ (stepC c' p) (match stepC c' p with | .ok s' => .ok (s', tr ++ [p]) | .error e => .error e)
    cases hc : stepC c' p with
    | ok s' => exact ⟨rfl, runC_append s0 tr p c' s' hrun hc⟩
    | error e => trivial

/-- every composite API call the mechanism runs to the end is a history of primitive steps -/
theorem runApi_machC_history (s s' : StateC) (c : ApiCall Source) (h : runApi machC offerSource s c = .ok s') :
    ∃ ops, runC s ops = .ok s' := by
  have hsim := sim_runApi (sim_machC_machT s) (offerSource_sim _) s (s, []) c ⟨rfl, rfl⟩
  rw [h] at hsim
  cases hT : runApi machT offerSource (s, []) c with
  | error e => rw [hT] at hsim; exact hsim.elim
  | ok st =>
    rw [hT] at hsim
    obtain ⟨h1, h2⟩ := hsim
    exact ⟨st.2, h2⟩


end Delb.Edit

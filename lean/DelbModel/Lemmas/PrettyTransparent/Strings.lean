import DelbModel.Lemmas.Whitespace
import DelbModel.Lemmas.PrettyTransparent.Lay
/-!
# C03, step 2 (strings): reducing the whitespace of a written "gap" gives the original text

Between two non-text children (or the start / end tag) the pretty printer writes
`chunk … = gapA ++ gapM ++ gapZ`: the newline after the preceding node, the text (trimmed and
surrounded by indentation / newline) and the indentation before the following node.
`chunk_some_reduce` / `chunk_none_reduce`: whitespace reduction of the chunk gives back the text.
-/
set_option linter.unusedSimpArgs false
namespace Delb.Pretty
open Delb.Ser Delb.WS

theorem pyWs_nl : pyWs '\n' = true := by decide

/-- one space if the string is not empty -/
def sp (x : Str) : Str := if x = [] then [] else [' ']

@[simp] theorem sp_nil : sp [] = [] := rfl
@[simp] theorem sp_cons (a : Char) (x : Str) : sp (a :: x) = [' '] := by simp [sp]

/-! ## `collapse` of whitespace ++ core ++ whitespace -/

section
variable (ws : Char → Bool)

theorem collapseAux_true_ws_append (W x : Str) (h : ∀ c ∈ W, ws c = true) :
    collapseAux ws true (W ++ x) = collapseAux ws true x := by
  induction W with
  | nil => rfl
  | cons c W ih =>
    have hc : ws c = true := h c (by simp)
    simp only [List.cons_append, collapseAux, hc, if_true]
    exact ih (fun d hd => h d (by simp [hd]))

theorem collapseAux_ws_append (b : Bool) (W x : Str) (h : ∀ c ∈ W, ws c = true) (hne : W ≠ []) :
    collapseAux ws b (W ++ x) = (if b then [] else [' ']) ++ collapseAux ws true x := by
  cases W with
  | nil => exact absurd rfl hne
  | cons c W =>
    have hc : ws c = true := h c (by simp)
    simp only [List.cons_append, collapseAux, hc, if_true]
    rw [collapseAux_true_ws_append ws W x (fun d hd => h d (by simp [hd]))]
    cases b <;> simp

theorem collapseAux_headNonWs (b : Bool) (x : Str) (h : HeadNonWs ws x) :
    collapseAux ws b x = collapseAux ws false x := by
  cases x with
  | nil => simp [collapseAux]
  | cons c cs =>
    have hc : ws c = false := by simpa using h
    simp [collapseAux, hc]

theorem collapseAux_cons (b : Bool) (c : Char) (cs : Str) :
    collapseAux ws b (c :: cs) =
      if ws c then (if b then collapseAux ws true cs else ' ' :: collapseAux ws true cs)
      else c :: collapseAux ws false cs := by
  simp [collapseAux]

theorem collapseAux_append_last (b : Bool) (x y : Str) (hne : x ≠ []) (h : LastNonWs ws x) :
    collapseAux ws b (x ++ y) = collapseAux ws b x ++ collapseAux ws false y := by
  induction x generalizing b with
  | nil => exact absurd rfl hne
  | cons c x ih =>
    by_cases hx : x = []
    · subst hx
      have hc : ws c = false := by simpa using h
      simp [collapseAux, hc]
    · have hl' : LastNonWs ws x := by
        obtain ⟨d, r, rfl⟩ := List.exists_cons_of_ne_nil hx
        simpa using h
      simp only [List.cons_append, collapseAux_cons, ih _ hx hl']
      split
      · split <;> rfl
      · rfl

theorem collapseAux_false_allWs (W : Str) (h : ∀ c ∈ W, ws c = true) :
    collapseAux ws false W = sp W := by
  cases W with
  | nil => rfl
  | cons c W =>
    have hc : ws c = true := h c (by simp)
    simp [collapseAux, hc, collapseAux_allWs ws W (fun d hd => h d (by simp [hd]))]

/-- left whitespace, a collapsed core with non-whitespace ends, right whitespace -/
theorem collapse_sandwich (L core R : Str) (hL : ∀ c ∈ L, ws c = true) (hR : ∀ c ∈ R, ws c = true)
    (hfix : collapse ws core = core) (hne : core ≠ []) (hh : HeadNonWs ws core) (hl : LastNonWs ws core) :
    collapse ws (L ++ (core ++ R)) = sp L ++ (core ++ sp R) := by
  unfold collapse at *
  have h1 : collapseAux ws false (core ++ R) = core ++ sp R := by
    rw [collapseAux_append_last ws _ _ _ hne hl, hfix, collapseAux_false_allWs ws R hR]
  by_cases hL0 : L = []
  · subst hL0; simpa using h1
  · rw [collapseAux_ws_append ws _ _ _ hL hL0,
      collapseAux_headNonWs ws true _ (headNonWs_append ws _ _ hne hh), h1]
    simp [sp, hL0]

theorem sp_allWs (hsp : ws ' ' = true) (x : Str) : ∀ c ∈ sp x, ws c = true := by
  unfold sp; split <;> simp [hsp]

/-- whitespace reduction of left whitespace ++ core ++ right whitespace -/
theorem reduce_sandwich (hsp : ws ' ' = true) (L core R : Str) (hL : ∀ c ∈ L, ws c = true)
    (hR : ∀ c ∈ R, ws c = true) (hfix : collapse ws core = core) (hne : core ≠ [])
    (hh : HeadNonWs ws core) (hl : LastNonWs ws core) (f l : Bool) :
    reduceContentSpec ws (L ++ (core ++ R)) f l =
      (if f then [] else sp L) ++ (core ++ (if l then [] else sp R)) := by
  unfold reduceContentSpec
  rw [collapse_sandwich ws L core R hL hR hfix hne hh hl]
  have hlt : ltrim ws (sp L ++ (core ++ sp R)) = core ++ sp R := by
    rw [ltrim_append_of_all ws _ _ (sp_allWs ws hsp L)]
    exact ltrim_of_headNonWs ws _ (headNonWs_append ws _ _ hne hh)
  have hrt : ∀ Y : Str, rtrim ws (Y ++ (core ++ sp R)) = Y ++ core := by
    intro Y
    rw [← List.append_assoc, rtrim_append_of_all ws _ _ (sp_allWs ws hsp R)]
    exact rtrim_of_lastNonWs ws _ (lastNonWs_append ws _ _ hne hl)
  have hrt0 := hrt []
  simp only [List.nil_append] at hrt0
  have hce : ∀ X Y : Str, (X ++ (core ++ Y)).isEmpty = false := by
    intro X Y
    obtain ⟨a, tl, rfl⟩ := List.exists_cons_of_ne_nil hne
    cases X <;> simp
  have hce' : ∀ X : Str, (X ++ core).isEmpty = false := by
    intro X
    have := hce X []
    simpa using this
  have hce0 : core.isEmpty = false := by simpa using hce' []
  cases f <;> cases l <;>
    simp only [if_true, if_false, Bool.false_eq_true, hlt, hrt, hrt0, hce, hce', hce0, List.nil_append,
      List.append_nil, Bool.and_true, Bool.and_false, Bool.false_and]

/-- whitespace reduction of a non-empty whitespace-only string -/
theorem reduce_allWs (hsp : ws ' ' = true) (W : Str) (hW : ∀ c ∈ W, ws c = true) (f l : Bool) :
    reduceContentSpec ws W f l = if f && l then [' '] else if f || l then [] else sp W := by
  unfold reduceContentSpec collapse
  rw [collapseAux_false_allWs ws W hW]
  cases W with
  | nil => cases f <;> cases l <;> simp
  | cons c W => cases f <;> cases l <;> simp [ltrim_cons, rtrim_cons, hsp]

end

/-! ## the gaps between non-text children -/

def AllWs (s : Str) : Prop := ∀ c ∈ s, pyWs c = true

theorem allWs_nil : AllWs [] := by simp [AllWs]
theorem allWs_nl : AllWs ['\n'] := by simp [AllWs, pyWs_nl]
theorem allWs_space : AllWs [' '] := by simp [AllWs, pyWs_space]
theorem allWs_append {a b : Str} (ha : AllWs a) (hb : AllWs b) : AllWs (a ++ b) := by
  intro c hc
  rcases List.mem_append.1 hc with h | h
  · exact ha c h
  · exact hb c h
theorem allWs_ite {c : Prop} [Decidable c] {a b : Str} (ha : AllWs a) (hb : AllWs b) :
    AllWs (if c then a else b) := by
  split <;> assumption

/-- the newline written after the node before the gap (or after the start tag) -/
def gapA (t : Option Str) (start end_ : Bool) : Str :=
  match t with
  | none => if start || end_ then ['\n'] else []
  | some s => if start || firstIsSpace s then ['\n'] else []

/-- what `flushText` writes for the gap's text -/
def gapM (o : Opts) (level : Nat) (t : Option Str) (start end_ : Bool) : Str :=
  match t with
  | none => []
  | some s => (flushStrs o level start end_ [s]).flatten

/-- the indentation written before the node after the gap (`T` before the end tag) -/
def gapZ (o : Opts) (level : Nat) (T : Str) (t : Option Str) (start end_ : Bool) : Str :=
  if end_ then T
  else match t with
    | none => if !o.indent.isEmpty && start then indentN o level else []
    | some s => if !o.indent.isEmpty && lastIsSpace s then indentN o level else []

def chunk (o : Opts) (level : Nat) (T : Str) (t : Option Str) (start end_ : Bool) : Str :=
  gapA t start end_ ++ (gapM o level t start end_ ++ gapZ o level T t start end_)

theorem firstIsSpace_shape {pre core post : Str} (hpre : pre = [] ∨ pre = [' ']) (hne : core ≠ [])
    (hh : HeadNonWs pyWs core) : firstIsSpace (pre ++ (core ++ post)) = !pre.isEmpty := by
  obtain ⟨a, tl, rfl⟩ := List.exists_cons_of_ne_nil hne
  have ha : pyWs a = false := by simpa using hh
  rcases hpre with rfl | rfl <;> simp [firstIsSpace, ha, pyWs_space]

theorem lastIsSpace_shape {pre core post : Str} (hpost : post = [] ∨ post = [' ']) (hne : core ≠ [])
    (hl : LastNonWs pyWs core) : lastIsSpace (pre ++ (core ++ post)) = !post.isEmpty := by
  rcases hpost with rfl | rfl
  · have h2 := lastNonWs_append pyWs pre core hne hl
    unfold lastIsSpace
    simp only [List.append_nil]
    cases hg : (pre ++ core).getLast? with
    | none => simp
    | some c => simpa using h2 c hg
  · unfold lastIsSpace
    rw [← List.append_assoc, List.getLast?_append]
    simp [pyWs_space]

theorem noDbl_append_right (a b : Str) (h : NoDbl (a ++ b)) : NoDbl b := by
  induction a with
  | nil => exact h
  | cons x a ih =>
    rw [List.cons_append, noDbl_cons] at h
    exact ih h.2

theorem noDbl_append_left (a b : Str) (h : NoDbl (a ++ b)) : NoDbl a := by
  induction a with
  | nil => simp
  | cons x a ih =>
    rw [List.cons_append, noDbl_cons] at h
    rw [noDbl_cons]
    refine ⟨fun hx => ?_, ih h.2⟩
    have := h.1 hx
    cases a <;> simp_all

theorem trim_shape {pre core post : Str} (hlt : ltrim pyWs (pre ++ (core ++ post)) = core ++ post)
    (hrt : ∀ X : Str, rtrim pyWs (X ++ (core ++ post)) = X ++ core) (b a : Bool) :
    (if a = true then rtrim pyWs (if b = true then ltrim pyWs (pre ++ (core ++ post)) else pre ++ (core ++ post))
      else (if b = true then ltrim pyWs (pre ++ (core ++ post)) else pre ++ (core ++ post))) =
      (if b = true then [] else pre) ++ (core ++ (if a = true then [] else post)) := by
  have hrt0 := hrt []
  simp only [List.nil_append] at hrt0
  cases b <;> cases a <;> simp [hlt, hrt, hrt0]

theorem flatten_pieces (b a : Bool) (I X N : Str) :
    ((if b = true then [I] else []) ++ [X] ++ (if a = true then [N] else [])).flatten =
      (if b = true then I else []) ++ (X ++ (if a = true then N else [])) := by
  cases b <;> cases a <;> simp

section
variable (o : Opts) (level : Nat) (T : Str) (hI : AllWs (indentN o level)) (hT : AllWs T)
include hI hT

theorem gapZ_allWs (t : Option Str) (start end_ : Bool) : AllWs (gapZ o level T t start end_) := by
  unfold gapZ
  cases t <;> exact allWs_ite hT (allWs_ite hI allWs_nil)

theorem chunk_none_reduce (start end_ : Bool) (h : ¬(start = true ∧ end_ = true)) :
    reduceContentSpec pyWs (chunk o level T none start end_) start end_ = [] := by
  have hW : AllWs (chunk o level T none start end_) := by
    unfold chunk gapA gapM gapZ
    exact allWs_append (allWs_ite allWs_nl allWs_nil)
      (allWs_append allWs_nil (allWs_ite hT (allWs_ite hI allWs_nil)))
  rw [reduce_allWs pyWs pyWs_space _ hW]
  cases start <;> cases end_ <;> simp_all [chunk, gapA, gapM, gapZ]

theorem chunk_some_reduce (s : Str) (start end_ : Bool)
    (hs : reduceContentSpec pyWs s start end_ = s) (hne : s ≠ []) :
    reduceContentSpec pyWs (chunk o level T (some s) start end_) start end_ = s ∧
      chunk o level T (some s) start end_ ≠ [] := by
  have hshape : Shape pyWs s := by
    rw [← hs]
    exact shape_of_collapsed _ pyWs_space _ (spec_onlySp _ _ _ _) (spec_noDbl _ pyWs_space _ _ _)
  rcases hshape with rfl | rfl | ⟨pre, core, post, rfl, hpre, hpost, hcne, hh, hl⟩
  · exact absurd rfl hne
  · -- a single space
    have hse : start = end_ := by
      cases start <;> cases end_ <;>
        simp [reduceContentSpec, collapse, collapseAux, pyWs_space, ltrim, rtrim] at hs ⊢
    subst hse
    have hfl : flushStrs o level start start [[' ']] = [] := by
      simp [flushStrs, normText, collapse_space]
    have hc : chunk o level T (some [' ']) start start = '\n' :: gapZ o level T (some [' ']) start start := by
      simp [chunk, gapA, gapM, hfl, firstIsSpace, pyWs_space]
    have hW : AllWs (chunk o level T (some [' ']) start start) := by
      rw [hc]
      show AllWs (['\n'] ++ gapZ o level T (some [' ']) start start)
      exact allWs_append allWs_nl (gapZ_allWs o level T hI hT _ _ _)
    rw [reduce_allWs pyWs pyWs_space _ hW]
    rw [hc]
    cases start <;> simp
  · have hfirst := firstIsSpace_shape (post := post) hpre hcne hh
    have hlast := lastIsSpace_shape (pre := pre) hpost hcne hl
    have hpreW : AllWs pre := by rcases hpre with rfl | rfl <;> simp [AllWs, pyWs_space]
    have hpostW : AllWs post := by rcases hpost with rfl | rfl <;> simp [AllWs, pyWs_space]
    have hsp_pre : sp pre = pre := by rcases hpre with rfl | rfl <;> simp
    have hsp_post : sp post = post := by rcases hpost with rfl | rfl <;> simp
    have hO : OnlySp pyWs (pre ++ (core ++ post)) := by rw [← hs]; exact spec_onlySp _ _ _ _
    have hN : NoDbl (pre ++ (core ++ post)) := by rw [← hs]; exact spec_noDbl _ pyWs_space _ _ _
    have hfix : collapse pyWs core = core :=
      collapseAux_fixed pyWs false core (fun c hc => hO c (by simp [hc]))
        (noDbl_append_left _ _ (noDbl_append_right _ _ hN)) (by simp)
    have hred := reduce_sandwich pyWs pyWs_space pre core post hpreW hpostW hfix hcne hh hl start end_
    rw [hs, hsp_pre, hsp_post] at hred
    obtain ⟨a, tl, hcore⟩ := List.exists_cons_of_ne_nil hcne
    have ha : pyWs a = false := by subst hcore; simpa using hh
    have ha' : a ≠ ' ' := by intro h; subst h; simp [pyWs_space] at ha
    have hstart : start = true → pre = [] := by
      intro h; subst h; subst hcore
      rcases hpre with rfl | rfl
      · rfl
      · simp at hred; exact absurd hred.1.symm ha'
    have hend : end_ = true → post = [] := by
      intro h; subst h
      rcases hpost with rfl | rfl
      · rfl
      · have := congrArg List.length hred
        cases start <;> simp at this
        omega
    have hcs : collapse pyWs (pre ++ (core ++ post)) = pre ++ (core ++ post) := by
      rw [collapse_sandwich pyWs pre core post hpreW hpostW hfix hcne hh hl, hsp_pre, hsp_post]
    have hlt : ltrim pyWs (pre ++ (core ++ post)) = core ++ post := by
      rw [ltrim_append_of_all _ _ _ hpreW]
      exact ltrim_of_headNonWs _ _ (headNonWs_append _ _ _ hcne hh)
    have hrt : ∀ X : Str, rtrim pyWs (X ++ (core ++ post)) = X ++ core := by
      intro X
      rw [← List.append_assoc, rtrim_append_of_all _ _ _ hpostW]
      exact rtrim_of_lastNonWs _ _ (lastNonWs_append _ _ _ hcne hl)
    have hns : pre ++ (core ++ post) ≠ [' '] := by
      subst hcore
      rcases hpre with rfl | rfl <;> simp [ha']
    have hflush : gapM o level (some (pre ++ (core ++ post))) start end_ =
        (if (!o.indent.isEmpty && (start || !pre.isEmpty)) = true then indentN o level else []) ++
        (((if (!o.indent.isEmpty && (start || !pre.isEmpty)) = true then [] else pre) ++
          (core ++ (if (end_ || !post.isEmpty) = true then [] else post))) ++
          (if (end_ || !post.isEmpty) = true then ['\n'] else [])) := by
      unfold gapM flushStrs
      simp only [List.flatten_cons, List.flatten_nil, List.append_nil, normText, hcs, hns, if_false, hfirst,
        hlast, List.getLast?_singleton, Option.getD_some]
      rw [trim_shape hlt hrt, flatten_pieces]
    have hA : AllWs (gapA (some (pre ++ (core ++ post))) start end_) := by
      unfold gapA; exact allWs_ite allWs_nl allWs_nil
    unfold chunk
    rw [hflush]
    generalize hbe : (!o.indent.isEmpty && (start || !pre.isEmpty)) = before
    generalize haf : (end_ || !post.isEmpty) = after
    have key : ∀ (A Ip p' q' NL Z : Str), A ++ ((Ip ++ ((p' ++ (core ++ q')) ++ NL)) ++ Z) =
        (A ++ (Ip ++ p')) ++ (core ++ (q' ++ (NL ++ Z))) := by
      intros; simp only [List.append_assoc]
    rw [key]
    have hL' : AllWs (gapA (some (pre ++ (core ++ post))) start end_ ++
        ((if before = true then indentN o level else []) ++ (if before = true then [] else pre))) :=
      allWs_append hA (allWs_append (allWs_ite hI allWs_nil) (allWs_ite allWs_nil hpreW))
    have hR' : AllWs ((if after = true then [] else post) ++ ((if after = true then ['\n'] else []) ++
        gapZ o level T (some (pre ++ (core ++ post))) start end_)) :=
      allWs_append (allWs_ite allWs_nil hpostW) (allWs_append (allWs_ite allWs_nl allWs_nil)
        (gapZ_allWs o level T hI hT _ _ _))
    constructor
    · rw [reduce_sandwich pyWs pyWs_space _ core _ hL' hR' hfix hcne hh hl]
      have h1 : (if start = true then [] else sp (gapA (some (pre ++ (core ++ post))) start end_ ++
          ((if before = true then indentN o level else []) ++ (if before = true then [] else pre)))) = pre := by
        subst hbe
        cases start
        · rcases hpre with rfl | rfl <;> simp at hfirst <;> simp [gapA, hfirst]
        · simp [hstart rfl]
      have h2 : (if end_ = true then [] else sp ((if after = true then [] else post) ++
          ((if after = true then ['\n'] else []) ++
            gapZ o level T (some (pre ++ (core ++ post))) start end_))) = post := by
        subst haf
        cases end_
        · rcases hpost with rfl | rfl <;> simp at hlast <;> simp [gapZ, hlast]
        · simp [hend rfl]
      rw [h1, h2]
    · subst hcore; simp
end
end Delb.Pretty

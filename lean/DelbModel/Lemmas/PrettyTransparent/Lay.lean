import DelbModel.Model.Pretty
import DelbModel.Lemmas.Roundtrip
import DelbModel.Lemmas.Pretty
/-!
# C03, step 1: the pretty printer's output is the plain emission of a "laid-out" tree

`layNode` adds the inserted whitespace to a tree as separate text nodes, mirroring
`prettyTag` / `prettyKids` exactly.  Reading the pretty printer's pieces back with `Ser.build`
gives `normalize (layNode … t)` (`prettyTag_build`, `prettyRoot_build`); no assumption on the
shape of the text nodes is needed for this step.
-/
set_option linter.unusedSimpArgs false
namespace Delb.Pretty
open Delb.Ser Delb.WS

/-- the character data `flushText` writes, piece by piece -/
def flushStrs (o : Opts) (level : Nat) (atStart atEnd : Bool) (run : List Str) : List Str :=
  match run with
  | [] => []
  | first :: _ =>
    let content := normText run.flatten
    if content = [' '] then []
    else
      let before := !o.indent.isEmpty && (atStart || firstIsSpace first)
      let after := atEnd || lastIsSpace (run.getLast?.getD [])
      let c1 := if before then ltrim pyWs content else content
      let c2 := if after then rtrim pyWs c1 else c1
      (if before then [indentN o level] else []) ++ [c2] ++ (if after then [['\n']] else [])

theorem eraseAll_flushText (o : Opts) (level : Nat) (a b : Bool) (run : List Str) :
    eraseAll (flushText o level a b run) = (flushStrs o level a b run).map Tok.chars := by
  unfold flushText flushStrs
  cases run with
  | nil => rfl
  | cons first rest =>
    simp only
    split
    · rfl
    · split <;> split <;> simp [eraseAll, erase]

/-- `_whitespace_is_legit_after_node` for a node whose following siblings are `rest` -/
def postNl (rest : List Node) : Bool :=
  legitAfterNode (rest.find? (fun n => match n with | .text s => !s.isEmpty | _ => true))

mutual
  /-- the tree with the layout whitespace of `prettyTag` added as text nodes -/
  def layNode (o : Opts) (level : Nat) : Node → Node
    | .tag ns name attrs kids =>
      if directive attrs .default = .preserve then .tag ns name attrs kids
      else if kids.isEmpty then .tag ns name attrs []
      else .tag ns name attrs
        ([.text ['\n']] ++ layKidsM o (level + 1) none [] true kids
          ++ (if o.indent.isEmpty then [] else [.text (indentN o level)]))
    | n => n
  /-- mirrors `prettyKids` -/
  def layKidsM (o : Opts) (level : Nat) (prev : Option Node) (run : List Str) (ras : Bool) :
      List Node → List Node
    | [] => (flushStrs o level ras true run).map Node.text
    | .text s :: rest =>
      if s.isEmpty then layKidsM o level prev run ras rest
      else layKidsM o level prev (run ++ [s]) (if run.isEmpty then prev.isNone else ras) rest
    | k :: rest =>
      (flushStrs o level ras false run).map Node.text
        ++ (if !o.indent.isEmpty && legitBeforeNode (if run.isEmpty then prev else lastText run)
              then [Node.text (indentN o level)] else [])
        ++ [layNode o level k]
        ++ (if postNl rest then [Node.text ['\n']] else [])
        ++ layKidsM o level (some k) [] false rest
end

theorem layKidsM_nil (o level prev run ras) :
    layKidsM o level prev run ras [] = (flushStrs o level ras true run).map Node.text := by
  simp [layKidsM]

theorem layKidsM_text (o level prev run ras s rest) :
    layKidsM o level prev run ras (.text s :: rest) =
      if s.isEmpty then layKidsM o level prev run ras rest
      else layKidsM o level prev (run ++ [s]) (if run.isEmpty then prev.isNone else ras) rest := by
  simp [layKidsM]

theorem layKidsM_node (o level prev run ras k rest) (hk : k.isText = false) :
    layKidsM o level prev run ras (k :: rest) =
      (flushStrs o level ras false run).map Node.text
        ++ (if !o.indent.isEmpty && legitBeforeNode (if run.isEmpty then prev else lastText run)
              then [Node.text (indentN o level)] else [])
        ++ [layNode o level k]
        ++ (if postNl rest then [Node.text ['\n']] else [])
        ++ layKidsM o level (some k) [] false rest := by
  cases k with
  | text s => simp [Node.isText] at hk
  | _ => simp [layKidsM]


@[simp] theorem eraseAll_nil : eraseAll [] = [] := rfl
@[simp] theorem eraseAll_cons (p : Piece) (ps : List Piece) : eraseAll (p :: ps) = erase p ++ eraseAll ps := by
  simp [eraseAll]
@[simp] theorem eraseAll_append (a b : List Piece) : eraseAll (a ++ b) = eraseAll a ++ eraseAll b := by
  simp [eraseAll]

theorem layoutAttrs_erase (o : Opts) (level : Nat) (ad : List (Str × Str)) :
    (layoutAttrs o level ad).1.map (fun a => (a.2.1, a.2.2)) = ad := by
  unfold layoutAttrs
  split <;> simp [Function.comp_def]

theorem pushAll_append (acc a b : List Node) : pushAll acc (a ++ b) = pushAll (pushAll acc a) b := by
  simp [pushAll, List.foldl_append]

theorem pushAll_cons (acc : List Node) (n : Node) (l : List Node) :
    pushAll acc (n :: l) = pushAll (pushNode n acc) l := by
  simp [pushAll]

@[simp] theorem pushAll_nil (acc : List Node) : pushAll acc [] = acc := rfl

theorem normalizeList_append : ∀ (a b : List Node), normalizeList (a ++ b) = normalizeList a ++ normalizeList b
  | [], b => by simp [normalizeList]
  | k :: a, b => by simp [normalizeList, normalizeList_append a b]

theorem normalizeList_texts : ∀ (ss : List Str), normalizeList (ss.map Node.text) = ss.map Node.text
  | [] => by simp [normalizeList]
  | s :: ss => by simp [normalizeList, normalize, normalizeList_texts ss]

theorem buildAux_charsList : ∀ (ss : List Str) (rest : List Tok) (f : Frame) (fs : List Frame) (done : Option Node),
    buildAux (ss.map Tok.chars ++ rest) (f :: fs) done =
      buildAux rest ({ f with kids := pushAll f.kids (ss.map Node.text) } :: fs) done
  | [], rest, f, fs, done => by simp
  | s :: ss, rest, f, fs, done => by
    simp only [List.map_cons, List.cons_append, buildAux_chars]
    rw [buildAux_charsList ss]
    simp [pushAll_cons, pushNode]

theorem close_kids1 (s : Str) (X : List Node) :
    (pushAll (pushText s []) X).reverse = Ser.mergeKids (.text s :: X) := by
  have := pushAll_reverse (.text s :: X) []
  rw [attach_nil_left, pushAll_cons] at this
  exact this

theorem close_kids2 (s t : Str) (X : List Node) :
    (pushText t (pushAll (pushText s []) X)).reverse = Ser.mergeKids (.text s :: (X ++ [.text t])) := by
  have := pushAll_reverse (.text s :: (X ++ [.text t])) []
  rw [attach_nil_left, pushAll_cons, pushAll_append] at this
  exact this

theorem buildAux_optLayout (c : Prop) [Decidable c] (s : Str) (rest : List Tok) (f : Frame) (fs : List Frame)
    (done : Option Node) :
    buildAux (eraseAll (if c then [Piece.layout s] else []) ++ rest) (f :: fs) done =
      buildAux rest ({ f with kids := pushAll f.kids (normalizeList (if c then [Node.text s] else [])) } :: fs) done := by
  by_cases h : c
  · simp [h, erase, buildAux_chars, normalizeList, normalize, pushAll_cons, pushNode]
  · simp [h, normalizeList]

theorem isText_normalize (k : Node) : (normalize k).isText = k.isText := by
  cases k <;> simp [normalize, Node.isText]

theorem isText_layNode (o : Opts) (level : Nat) (k : Node) : (layNode o level k).isText = k.isText := by
  cases k with
  | tag ns name attrs kids =>
    rw [layNode]
    split
    · rfl
    · split <;> rfl
  | _ => simp [layNode]

theorem pushNode_nontext (n : Node) (acc : List Node) (h : n.isText = false) : pushNode n acc = n :: acc := by
  cases n <;> simp_all [pushNode, Node.isText]

theorem prettyTag_preserve {o : Opts} {m : Dict} {level : Nat} {ad : List (Str × Str)} {ns name : String}
    {attrs : List Attr} {kids : List Node} {ps : List Piece}
    (hd : directive attrs .default = .preserve)
    (had : attrsData m (sortAttrs attrs) = .ok ad)
    (h : prettyTag o m level ad (.tag ns name attrs kids) = .ok ps) :
    ∃ toks, emitNode m (.tag ns name attrs kids) = .ok toks ∧ ps = [.verbatim toks] := by
  rw [prettyTag.eq_1, if_pos hd] at h
  cases he : emitNode m (.tag ns name attrs kids) with
  | error e => rw [he] at h; cases h
  | ok ts =>
    obtain ⟨p, ad0, ks, _, had0, _, hts⟩ := emitNode_tag_inv he
    rw [had] at had0
    cases had0
    rw [he] at h
    refine ⟨ts, rfl, ?_⟩
    cases kids with
    | nil =>
      simp only [List.isEmpty_nil, if_true] at hts
      subst hts
      cases h
      rfl
    | cons k0 ks0 =>
      simp only [List.isEmpty_cons, Bool.false_eq_true, if_false] at hts
      subst hts
      cases h
      rfl

theorem directive_cases (attrs : List Attr) (h : ¬ directive attrs .default = .preserve) :
    directive attrs .default = .default := by
  cases hd : directive attrs .default with
  | default => rfl
  | preserve => exact absurd hd h

theorem prettyTag_preserve_root {o : Opts} {m : Dict} {level : Nat} {ad : List (Str × Str)} {ns name : String}
    {attrs : List Attr} {kids : List Node} {ps : List Piece}
    (hd : directive attrs .default = .preserve)
    (had : attrsData m (sortAttrs attrs) = .ok ad)
    (h : prettyTag o m level (declarations m ++ ad) (.tag ns name attrs kids) = .ok ps) :
    ∃ toks, emitRoot m (.tag ns name attrs kids) = .ok toks ∧ ps = [.verbatim toks] := by
  rw [prettyTag.eq_1, if_pos hd] at h
  cases he : emitNode m (.tag ns name attrs kids) with
  | error e => rw [he] at h; cases h
  | ok ts =>
    obtain ⟨p, ad0, ks, _, had0, _, hts⟩ := emitNode_tag_inv he
    rw [had] at had0
    cases had0
    rw [he] at h
    simp only [emitRoot, he]
    cases kids with
    | nil =>
      simp only [List.isEmpty_nil, if_true] at hts
      subst hts
      cases h
      exact ⟨_, rfl, rfl⟩
    | cons k0 ks0 =>
      simp only [List.isEmpty_cons, Bool.false_eq_true, if_false] at hts
      subst hts
      cases h
      exact ⟨_, rfl, rfl⟩

section
variable {m : Dict} (hc : MapCtx m) (P : Node → Prop) (PL : List Node → Prop)
  (hP : ∀ ns name attrs kids, P (.tag ns name attrs kids) →
      ':' ∉ name.toList ∧ ns ≠ Gen.xmlnsNamespace ∧ (∀ a ∈ attrs, AttrOk a) ∧ PL kids)
  (hPL : ∀ k ks, PL (k :: ks) → P k ∧ PL ks)
include hc hP hPL

theorem pretty_build (o : Opts) :
    (∀ k, ∀ level b, k.isText = false → nodeBody o m level k = .ok b → P k →
      ∀ rest f fs, f.scope = rootScope m →
      buildAux (eraseAll b ++ rest) (f :: fs) none =
        buildAux rest ({ f with kids := normalize (layNode o level k) :: f.kids } :: fs) none) ∧
    (∀ l, ∀ level prev run ras ks, prettyKids o m level prev run ras l = .ok ks → PL l →
      ∀ rest f fs, f.scope = rootScope m →
      buildAux (eraseAll ks ++ rest) (f :: fs) none =
        buildAux rest ({ f with kids := pushAll f.kids (normalizeList (layKidsM o level prev run ras l)) } :: fs) none) := by
  apply Pretty.node_induct
  · intro ns name attrs kids ihk level b _ hb hk rest f fs hf
    obtain ⟨ad, had, hb⟩ := nodeBody_tag_ok hb
    obtain ⟨hname, hns, hattrs, hkids⟩ := hP _ _ _ _ hk
    by_cases hd : directive attrs .default = .preserve
    · obtain ⟨toks, he, rfl⟩ := prettyTag_preserve hd had hb
      have := emitNode_build hc P PL hP hPL _ toks he hk rest f fs hf
      simp only [eraseAll_cons, erase, eraseAll_nil, List.append_nil]
      rw [this, layNode, if_pos hd]
      simp [normalize, pushNode]
    · have hdd := directive_cases attrs hd
      obtain ⟨p, hp, hcase⟩ := prettyTag_ok hdd hb
      obtain ⟨pq, hs, hr, ha, hnd⟩ := stag_read hc (pfx_ok_iff.mpr hp) had hname hns hattrs
      have hscope : scopeOf ad f.scope = rootScope m := by rw [scopeOf_noDecl _ _ hnd, hf]
      rcases hcase with ⟨rfl, rfl⟩ | ⟨hne, ks, hks, rfl⟩
      · simp only [eraseAll_cons, erase, eraseAll_nil, List.append_nil, layoutAttrs_erase, List.cons_append,
          List.nil_append]
        rw [buildAux_stag_child hscope hs hr ha, layNode, if_neg hd]
        simp [normalize, normalizeList, Ser.mergeKids]
      · have hke : kids.isEmpty = false := by simpa [List.isEmpty_iff] using hne
        simp only [eraseAll_cons, eraseAll_append, erase, eraseAll_nil, List.append_nil, layoutAttrs_erase,
          List.cons_append, List.nil_append, List.append_assoc]
        rw [buildAux_stag_child hscope hs hr ha]
        simp only [Bool.false_eq_true, if_false]
        rw [buildAux_chars]
        rw [ihk (level + 1) none [] true ks hks hkids _ _ _ rfl]
        dsimp only
        rw [layNode, if_neg hd, hke]
        by_cases hi : o.indent.isEmpty = true
        · simp only [hi, if_true, eraseAll_nil, List.nil_append, List.cons_append]
          rw [buildAux_etag_child']
          simp only [Bool.false_eq_true, if_false, List.append_nil, String.ofList_toList, normalize,
            normalizeList_append, normalizeList, close_kids1, List.cons_append, List.nil_append]
        · simp only [hi, if_false, eraseAll_cons, erase, eraseAll_nil, List.append_nil, List.cons_append,
            List.nil_append, Bool.false_eq_true]
          rw [buildAux_chars, buildAux_etag_child']
          simp only [String.ofList_toList, normalize,
            normalizeList_append, normalizeList, close_kids2, List.cons_append, List.nil_append]
  · intro s level b h; simp [Node.isText] at h
  · intro s level b _ hb _ rest f fs _
    simp only [nodeBody] at hb
    cases hb
    simp [erase, buildAux_comment, layNode, normalize]
  · intro t s level b _ hb _ rest f fs _
    simp only [nodeBody] at hb
    cases hb
    simp [erase, buildAux_pi, layNode, normalize]
  · intro level prev run ras ks h _ rest f fs _
    rw [prettyKids_nil] at h
    cases h
    rw [eraseAll_flushText, buildAux_charsList, layKidsM_nil, normalizeList_texts]
  · intro k l ihk ihl level prev run ras ks h hpl rest f fs hf
    obtain ⟨hk1, hk2⟩ := hPL _ _ hpl
    cases hk : k.isText with
    | true =>
      cases k with
      | text s =>
        rw [prettyKids_text] at h
        rw [layKidsM_text]
        split at h
        · rename_i hs; rw [if_pos hs]; exact ihl _ _ _ _ _ h hk2 _ _ _ hf
        · rename_i hs; rw [if_neg hs]; exact ihl _ _ _ _ _ h hk2 _ _ _ hf
      | _ => simp [Node.isText] at hk
    | false =>
      rw [prettyKids_node _ _ _ _ _ _ _ _ hk] at h
      obtain ⟨body, r', hb, hr, rfl⟩ := combine_ok h
      rw [layKidsM_node _ _ _ _ _ _ _ hk]
      simp only [eraseAll_append, List.append_assoc, eraseAll_flushText, normalizeList_append,
        normalizeList_texts, pushAll_append]
      rw [buildAux_charsList, buildAux_optLayout]
      dsimp only
      rw [ihk level body hk hb hk1 _ _ _ (by exact hf), buildAux_optLayout]
      dsimp only
      rw [ihl _ _ _ _ _ hr hk2 _ _ _ (by exact hf)]
      have hn : (normalize (layNode o level k)).isText = false := by
        rw [isText_normalize, isText_layNode, hk]
      simp only [normalizeList, pushAll_cons, pushAll_nil, pushNode_nontext _ _ hn]
      rfl

theorem prettyRoot_build (o : Opts) (t : Node) (htag : t.isTag = true) (ht : P t) (ps : List Piece)
    (h : prettyRoot o m t = .ok ps) : build (eraseAll ps) = some (normalize (layNode o 0 t)) := by
  cases t with
  | text s => cases htag
  | comment s => cases htag
  | pi t s => cases htag
  | tag ns name attrs kids =>
    simp only [prettyRoot] at h
    split at h
    · cases h
    rename_i ad had
    obtain ⟨hname, hns, hattrs, hkids⟩ := hP _ _ _ _ ht
    by_cases hd : directive attrs .default = .preserve
    · obtain ⟨toks, he, rfl⟩ := prettyTag_preserve_root hd had h
      have := build_emitRoot hc P PL hP hPL _ rfl ht toks he
      simp only [eraseAll_cons, erase, eraseAll_nil, List.append_nil]
      rw [this, layNode, if_pos hd]
    · have hdd := directive_cases attrs hd
      obtain ⟨p, hp, hcase⟩ := prettyTag_ok hdd h
      obtain ⟨pq, hs, hr, ha, hnd⟩ := stag_read hc (pfx_ok_iff.mpr hp) had hname hns hattrs
      have hscope : scopeOf (declarations m ++ ad) [] = rootScope m := by
        rw [scopeOf_append, scopeOf_noDecl _ _ hnd]; rfl
      have ha' : readAttrs (rootScope m) (declarations m ++ ad) = some (sortAttrs attrs) := by
        rw [readAttrs_decls _ _ _ (isDecl_declarations m), ha]
      unfold build
      rcases hcase with ⟨rfl, rfl⟩ | ⟨hne, ks, hks, rfl⟩
      · simp only [eraseAll_cons, erase, eraseAll_nil, List.append_nil, layoutAttrs_erase]
        rw [buildAux_stag_root hscope hs hr ha', layNode, if_neg hd]
        simp [normalize, normalizeList, Ser.mergeKids, buildAux]
      · have hke : kids.isEmpty = false := by simpa [List.isEmpty_iff] using hne
        simp only [eraseAll_cons, eraseAll_append, erase, eraseAll_nil, List.append_nil, layoutAttrs_erase,
          List.cons_append, List.nil_append, List.append_assoc]
        rw [buildAux_stag_root hscope hs hr ha']
        simp only [Bool.false_eq_true, if_false]
        rw [buildAux_chars]
        rw [(pretty_build hc P PL hP hPL o).2 kids 1 none [] true ks hks hkids _ _ _ rfl]
        dsimp only
        rw [layNode, if_neg hd, hke]
        by_cases hi : o.indent.isEmpty = true
        · simp only [hi, if_true, eraseAll_nil, List.nil_append]
          rw [buildAux_etag_root']
          simp only [Bool.false_eq_true, if_false, List.append_nil, String.ofList_toList, normalize,
            normalizeList, close_kids1, buildAux]
          rfl
        · simp only [hi, if_false, eraseAll_cons, erase, eraseAll_nil, List.append_nil, List.cons_append,
            List.nil_append, Bool.false_eq_true]
          rw [buildAux_chars, buildAux_etag_root']
          simp only [String.ofList_toList, normalize,
            normalizeList_append, normalizeList, close_kids2, List.cons_append, List.nil_append, buildAux]
end
end Delb.Pretty

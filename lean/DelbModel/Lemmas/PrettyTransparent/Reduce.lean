import DelbModel.Lemmas.PrettyTransparent.Strings
/-!
# C03, step 2 (trees): reducing the whitespace of the laid-out tree gives the original tree
-/
set_option linter.unusedSimpArgs false
namespace Delb.Pretty
open Delb.Ser Delb.WS

/-! ## `postNl` on parser-shaped child lists -/

@[simp] theorem postNl_nil : postNl [] = true := rfl
theorem postNl_text (s : Str) (rest : List Node) (hs : s ≠ []) : postNl (.text s :: rest) = firstIsSpace s := by
  have : s.isEmpty = false := by simpa [List.isEmpty_iff] using hs
  simp [postNl, List.find?, this, legitAfterNode]
theorem postNl_nontext (k : Node) (rest : List Node) (hk : k.isText = false) : postNl (k :: rest) = false := by
  cases k <;> simp_all [postNl, List.find?, legitAfterNode, Node.isText]

theorem legitBefore_nontext (k : Node) (hk : k.isText = false) : legitBeforeNode (some k) = false := by
  cases k <;> simp_all [legitBeforeNode, Node.isText]

/-! ## the simple form of `layKidsM` on parser-shaped child lists -/

/-- `layKidsM` when no two text nodes are adjacent and none is empty; `g` lays out the non-text children -/
def layS (o : Opts) (level : Nat) (g : Node → Node) (prev : Option Node) : List Node → List Node
  | [] => []
  | .text s :: rest =>
    (flushStrs o level prev.isNone rest.isEmpty [s]).map Node.text ++ layS o level g (some (.text s)) rest
  | k :: rest =>
    (if !o.indent.isEmpty && legitBeforeNode prev then [Node.text (indentN o level)] else [])
      ++ [g k] ++ (if postNl rest then [Node.text ['\n']] else []) ++ layS o level g (some k) rest

@[simp] theorem layS_nil (o level g prev) : layS o level g prev [] = [] := by simp [layS]
theorem layS_text (o level g prev s rest) : layS o level g prev (.text s :: rest) =
    (flushStrs o level prev.isNone rest.isEmpty [s]).map Node.text ++ layS o level g (some (.text s)) rest := by
  simp [layS]
theorem layS_nontext (o level g prev k rest) (hk : k.isText = false) : layS o level g prev (k :: rest) =
    (if !o.indent.isEmpty && legitBeforeNode prev then [Node.text (indentN o level)] else [])
      ++ [g k] ++ (if postNl rest then [Node.text ['\n']] else []) ++ layS o level g (some k) rest := by
  cases k with
  | text s => simp [Node.isText] at hk
  | _ => simp [layS]

theorem flushStrs_nil (o level a b) : flushStrs o level a b [] = [] := rfl

theorem layKidsM_merged (o : Opts) (level : Nat) : ∀ kids, mergedKids kids = true →
    (∀ prev b, layKidsM o level prev [] b kids = layS o level (layNode o level) prev kids) ∧
    (headIsText kids = false → ∀ prev s b, s ≠ [] →
      layKidsM o level prev [s] b kids =
        (flushStrs o level b kids.isEmpty [s]).map Node.text
          ++ layS o level (layNode o level) (some (.text s)) kids) := by
  intro kids
  induction kids with
  | nil =>
    intro _
    refine ⟨fun prev b => by simp [layKidsM_nil, flushStrs_nil], fun _ prev s b _ => by simp [layKidsM_nil]⟩
  | cons k rest ih =>
    intro hm
    cases hk : k.isText with
    | true =>
      cases k with
      | text s =>
        rw [mergedKids_text] at hm
        simp only [Bool.and_eq_true, Bool.not_eq_true'] at hm
        obtain ⟨⟨hs, hh⟩, hm⟩ := hm
        obtain ⟨ih1, ih2⟩ := ih hm
        have hsne : s ≠ [] := by simpa [List.isEmpty_iff] using hs
        refine ⟨fun prev b => ?_, fun h => by simp at h⟩
        rw [layKidsM_text, hs]
        simp only [Bool.false_eq_true, if_false, List.nil_append, List.isEmpty_nil, if_true]
        rw [ih2 hh prev s _ hsne, layS_text]
      | _ => simp [Node.isText] at hk
    | false =>
      rw [mergedKids_nontext _ _ hk] at hm
      obtain ⟨ih1, _⟩ := ih hm
      refine ⟨fun prev b => ?_, fun _ prev s b hs => ?_⟩
      · rw [layKidsM_node _ _ _ _ _ _ _ hk, layS_nontext _ _ _ _ _ _ hk, ih1]
        simp [flushStrs_nil]
      · rw [layKidsM_node _ _ _ _ _ _ _ hk, layS_nontext _ _ _ _ _ _ hk, ih1]
        simp [lastText]

theorem layS_map (o : Opts) (level : Nat) (g h : Node → Node) (ht : ∀ s, h (.text s) = .text s) :
    ∀ kids prev, (layS o level g prev kids).map h = layS o level (fun k => h (g k)) prev kids := by
  intro kids
  induction kids with
  | nil => intro prev; simp
  | cons k rest ih =>
    intro prev
    cases hk : k.isText with
    | true =>
      cases k with
      | text s =>
        rw [layS_text, layS_text, List.map_append, ih]
        simp [Function.comp_def, ht]
      | _ => simp [Node.isText] at hk
    | false =>
      rw [layS_nontext _ _ _ _ _ _ hk, layS_nontext _ _ _ _ _ _ hk]
      simp only [List.map_append, ih]
      congr 1
      congr 1
      · congr 1
        split <;> simp [ht]
      · split <;> simp [ht]


/-! ## merging adjacent text nodes -/

/-- a text node unless the string is empty -/
def txt (c : Str) : List Node := if c = [] then [] else [.text c]

theorem mk_single (a : Str) : Ser.mergeKids [.text a] = txt a := by
  simp [mergeKids_text_cons, Ser.mergeKids, txt]

theorem mk_texts (a b : Str) (L : List Node) :
    Ser.mergeKids (.text a :: .text b :: L) = Ser.mergeKids (.text (a ++ b) :: L) := by
  rw [mergeKids_text_cons a, mergeKids_text_cons b, mergeKids_text_cons (a ++ b)]
  rcases hm : Ser.mergeKids L with _ | ⟨x, xs⟩
  · by_cases hb : b = [] <;> simp [hb]
  · cases x <;> by_cases hb : b = [] <;> simp [hb]

theorem mk_text_node (a : Str) (k : Node) (L : List Node) (hk : k.isText = false) :
    Ser.mergeKids (.text a :: k :: L) = txt a ++ k :: Ser.mergeKids L := by
  cases k <;> simp_all [mergeKids_text_cons, Ser.mergeKids, txt, Node.isText] <;> split <;> simp

theorem mk_node (k : Node) (L : List Node) (hk : k.isText = false) :
    Ser.mergeKids (k :: L) = k :: Ser.mergeKids L := by
  cases k <;> simp_all [Ser.mergeKids, Node.isText]

theorem mk_optText (a b : Str) (c : Prop) [Decidable c] (L : List Node) :
    Ser.mergeKids (.text a :: ((if c then [Node.text b] else []) ++ L)) =
      Ser.mergeKids (.text (a ++ if c then b else []) :: L) := by
  by_cases h : c <;> simp [h, mk_texts]

theorem mk_optHead (b : Str) (c : Prop) [Decidable c] (L : List Node) :
    Ser.mergeKids ((if c then [Node.text b] else []) ++ L) =
      Ser.mergeKids (.text (if c then b else []) :: L) := by
  by_cases h : c <;> simp [h, mergeKids_text_nil]

theorem mk_texts_map (strs : List Str) : ∀ (a : Str) (L : List Node),
    Ser.mergeKids (.text a :: (strs.map Node.text ++ L)) = Ser.mergeKids (.text (a ++ strs.flatten) :: L) := by
  induction strs with
  | nil => intro a L; simp
  | cons s strs ih =>
    intro a L
    simp only [List.map_cons, List.cons_append, mk_texts, ih, List.flatten_cons, List.append_assoc]

/-! ## the child list that is read back -/

/-- what `Ser.build` returns for the children written by `prettyKids`: `t` is the pending text of
    the current gap, `start`: no non-text child so far -/
def bkA (o : Opts) (level : Nat) (T : Str) (g : Node → Node) (start : Bool) (t : Option Str) :
    List Node → List Node
  | [] => txt (chunk o level T t start true)
  | .text s :: rest => bkA o level T g start (some s) rest
  | k :: rest => txt (chunk o level T t start false) ++ g k :: bkA o level T g false none rest

theorem bkA_nil (o level T g start t) : bkA o level T g start t [] = txt (chunk o level T t start true) := by
  simp [bkA]
theorem bkA_text (o level T g start t s rest) :
    bkA o level T g start t (.text s :: rest) = bkA o level T g start (some s) rest := by
  simp [bkA]
theorem bkA_nontext (o level T g start t k rest) (hk : k.isText = false) :
    bkA o level T g start t (k :: rest) =
      txt (chunk o level T t start false) ++ g k :: bkA o level T g false none rest := by
  cases k with
  | text s => simp [Node.isText] at hk
  | _ => simp [bkA]

/-- the newline pending at the beginning of a gap -/
def lead (start : Bool) (kids : List Node) : Str := if start || postNl kids then ['\n'] else []

theorem layS_merge (o : Opts) (level : Nat) (T : Str) (g : Node → Node)
    (hg : ∀ k, k.isText = false → (g k).isText = false) : ∀ kids, mergedKids kids = true →
    (∀ prev start, prev.isNone = start → legitBeforeNode prev = start →
      Ser.mergeKids (.text (lead start kids) :: (layS o level g prev kids ++ [.text T])) =
        bkA o level T g start none kids) ∧
    (headIsText kids = false → ∀ s start, s ≠ [] →
      Ser.mergeKids (.text (gapA (some s) start kids.isEmpty ++ gapM o level (some s) start kids.isEmpty)
          :: (layS o level g (some (.text s)) kids ++ [.text T])) =
        bkA o level T g start (some s) kids) := by
  intro kids
  induction kids with
  | nil =>
    intro _
    refine ⟨fun prev start _ _ => ?_, fun _ s start _ => ?_⟩
    · simp [mk_texts, mk_single, bkA_nil, chunk, gapA, gapM, gapZ, lead]
    · simp [mk_texts, mk_single, bkA_nil, chunk, gapZ]
  | cons k rest ih =>
    intro hm
    cases hk : k.isText with
    | true =>
      cases k with
      | text s =>
        rw [mergedKids_text] at hm
        simp only [Bool.and_eq_true, Bool.not_eq_true'] at hm
        obtain ⟨⟨hs, hh⟩, hm⟩ := hm
        obtain ⟨_, ih2⟩ := ih hm
        have hsne : s ≠ [] := by simpa [List.isEmpty_iff] using hs
        refine ⟨fun prev start hp _ => ?_, fun h => by simp at h⟩
        rw [layS_text, List.append_assoc, mk_texts_map, bkA_text, ← ih2 hh s start hsne, hp]
        simp [lead, postNl_text _ _ hsne, gapA, gapM]
      | _ => simp [Node.isText] at hk
    | false =>
      rw [mergedKids_nontext _ _ hk] at hm
      obtain ⟨ih1, _⟩ := ih hm
      have hgk := hg k hk
      have ih1' := ih1 (some k) false rfl (legitBefore_nontext k hk)
      refine ⟨fun prev start hp hl => ?_, fun _ s start hs => ?_⟩
      · rw [layS_nontext _ _ _ _ _ _ hk, bkA_nontext _ _ _ _ _ _ _ _ hk, ← ih1']
        simp only [List.append_assoc, List.cons_append, List.nil_append, mk_optText, mk_text_node _ _ _ hgk,
          mk_optHead]
        simp [lead, postNl_nontext _ _ hk, chunk, gapA, gapM, gapZ, hl]
      · rw [layS_nontext _ _ _ _ _ _ hk, bkA_nontext _ _ _ _ _ _ _ _ hk, ← ih1']
        simp only [List.append_assoc, List.cons_append, List.nil_append, mk_optText, mk_text_node _ _ _ hgk,
          mk_optHead]
        simp [lead, chunk, gapZ, legitBeforeNode]


/-! ## reducing the read-back child list -/

theorem reduceList_txt (rc : Str → Bool → Bool → Str) (m : Mode) (c : Str) (L : List Node) :
    reduceList rc m (txt c ++ L) = txt c ++ reduceList rc m L := by
  unfold txt
  split
  · simp
  · rename_i h; simp [reduceList_text, h]

theorem reduceList_bkA (rc : Str → Bool → Bool → Str) (m : Mode) (o : Opts) (level : Nat) (T : Str)
    (g : Node → Node) (hg : ∀ k, k.isText = false → (g k).isText = false) :
    ∀ kids start t, reduceList rc m (bkA o level T g start t kids) =
      bkA o level T (fun k => reduceNode rc m (g k)) start t kids := by
  intro kids
  induction kids with
  | nil => intro start t; simp only [bkA_nil]; simpa using reduceList_txt rc m _ []
  | cons k rest ih =>
    intro start t
    cases hk : k.isText with
    | true =>
      cases k with
      | text s => simp only [bkA_text, ih]
      | _ => simp [Node.isText] at hk
    | false =>
      rw [bkA_nontext _ _ _ _ _ _ _ _ hk, bkA_nontext _ _ _ _ _ _ _ _ hk, reduceList_txt,
        reduceList_nontext _ _ _ _ (hg k hk), ih]

theorem bkA_congr (o : Opts) (level : Nat) (T : Str) (g g' : Node → Node) :
    ∀ kids start t, (∀ k ∈ kids, k.isText = false → g k = g' k) →
      bkA o level T g start t kids = bkA o level T g' start t kids := by
  intro kids
  induction kids with
  | nil => intro start t _; simp only [bkA_nil]
  | cons k rest ih =>
    intro start t h
    have ih' := fun s t => ih s t (fun x hx => h x (by simp [hx]))
    cases hk : k.isText with
    | true =>
      cases k with
      | text s => simp only [bkA_text, ih']
      | _ => simp [Node.isText] at hk
    | false =>
      rw [bkA_nontext _ _ _ _ _ _ _ _ hk, bkA_nontext _ _ _ _ _ _ _ _ hk, ih', h k (by simp) hk]

/-- the text nodes are fixed points of the content reduction (flags as in `reduceTextsF`) -/
def TextsOK (rc : Str → Bool → Bool → Str) : Bool → List Node → Prop
  | _, [] => True
  | f, .text s :: rest => rc s f rest.isEmpty = s ∧ s ≠ [] ∧ TextsOK rc false rest
  | _, _ :: rest => TextsOK rc false rest

theorem textsOK_text (rc f s rest) : TextsOK rc f (.text s :: rest) ↔
    rc s f rest.isEmpty = s ∧ s ≠ [] ∧ TextsOK rc false rest := by simp [TextsOK]
theorem textsOK_nontext (rc f k rest) (hk : k.isText = false) :
    TextsOK rc f (k :: rest) ↔ TextsOK rc false rest := by
  cases k <;> simp_all [TextsOK, Node.isText]

theorem length_reduceTextsF (rc : Str → Bool → Bool → Str) : ∀ l f, (reduceTextsF rc f l).length ≤ l.length := by
  intro l
  induction l with
  | nil => intro f; simp
  | cons k rest ih =>
    intro f
    cases hk : k.isText with
    | true =>
      cases k with
      | text s =>
        rw [reduceTextsF_text]
        split
        · have := ih false; simp; omega
        · have := ih false; simp; omega
      | _ => simp [Node.isText] at hk
    | false =>
      rw [reduceTextsF_nontext _ _ _ _ hk]
      have := ih false; simp; omega

theorem textsOK_of_fixed (rc : Str → Bool → Bool → Str) : ∀ l f, reduceTextsF rc f l = l → TextsOK rc f l := by
  intro l
  induction l with
  | nil => intro f _; simp [TextsOK]
  | cons k rest ih =>
    intro f h
    cases hk : k.isText with
    | true =>
      cases k with
      | text s =>
        rw [reduceTextsF_text] at h
        split at h
        · have := length_reduceTextsF rc rest false
          rw [h] at this
          simp at this
          omega
        · rename_i hne
          simp only [List.cons.injEq, Node.text.injEq] at h
          rw [textsOK_text]
          refine ⟨h.1, ?_, ih _ h.2⟩
          rw [h.1] at hne
          simpa [List.isEmpty_iff] using hne
      | _ => simp [Node.isText] at hk
    | false =>
      rw [reduceTextsF_nontext _ _ _ _ hk] at h
      rw [textsOK_nontext _ _ _ _ hk]
      simp only [List.cons.injEq, true_and] at h
      exact ih _ h

theorem reduceTextsF_txt_drop (rc : Str → Bool → Bool → Str) (f : Bool) (c : Str) (k : Node) (L : List Node)
    (hk : k.isText = false) (hc : rc c f false = []) :
    reduceTextsF rc f (txt c ++ k :: L) = k :: reduceTextsF rc false L := by
  unfold txt
  split
  · simp [reduceTextsF_nontext _ _ _ _ hk]
  · simp [reduceTextsF_text, hc, reduceTextsF_nontext _ _ _ _ hk]

section
variable (o : Opts) (level : Nat) (T : Str) (hI : AllWs (indentN o level)) (hT : AllWs T)
  (g : Node → Node) (hg : ∀ k, k.isText = false → (g k).isText = false) (hgt : ∀ s, g (.text s) = .text s)
include hI hT hg hgt

theorem reduce_bkA : ∀ kids start t, mergedKids kids = true →
    (match t with
     | some s => reduceContentSpec pyWs s start kids.isEmpty = s ∧ s ≠ [] ∧ headIsText kids = false ∧
        TextsOK (reduceContentSpec pyWs) false kids
     | none => TextsOK (reduceContentSpec pyWs) start kids ∧ (start = true → kids ≠ [])) →
    reduceTextsF (reduceContentSpec pyWs) start (bkA o level T g start t kids) =
      (match t with | some s => [Node.text s] | none => []) ++ kids.map g := by
  intro kids
  induction kids with
  | nil =>
    intro start t _ h
    rw [bkA_nil]
    cases t with
    | some s =>
      obtain ⟨h1, h2, _, _⟩ := h
      obtain ⟨hr, hne⟩ := chunk_some_reduce o level T hI hT s start true h1 h2
      simp [txt, hne, reduceTextsF_text, hr, h2]
    | none =>
      obtain ⟨_, h2⟩ := h
      have hs : start = false := by cases start <;> simp_all
      subst hs
      have hr := chunk_none_reduce o level T hI hT false true (by simp)
      unfold txt
      split <;> simp [reduceTextsF_text, hr]
  | cons k rest ih =>
    intro start t hm h
    cases hk : k.isText with
    | true =>
      cases k with
      | text s =>
        rw [mergedKids_text] at hm
        simp only [Bool.and_eq_true, Bool.not_eq_true'] at hm
        obtain ⟨⟨hs, hh⟩, hm⟩ := hm
        cases t with
        | some s' => simp at h
        | none =>
          obtain ⟨h1, _⟩ := h
          rw [textsOK_text] at h1
          rw [bkA_text, ih start (some s) hm ⟨h1.1, h1.2.1, hh, h1.2.2⟩]
          simp [hgt]
      | _ => simp [Node.isText] at hk
    | false =>
      rw [mergedKids_nontext _ _ hk] at hm
      rw [bkA_nontext _ _ _ _ _ _ _ _ hk]
      have hgk := hg k hk
      cases t with
      | some s =>
        obtain ⟨h1, h2, _, h4⟩ := h
        rw [textsOK_nontext _ _ _ _ hk] at h4
        simp only [List.isEmpty_cons] at h1
        obtain ⟨hr, hne⟩ := chunk_some_reduce o level T hI hT s start false h1 h2
        have := ih false none hm ⟨h4, by simp⟩
        simp only [List.nil_append] at this
        simp [txt, hne, reduceTextsF_text, hr, h2, reduceTextsF_nontext _ _ _ _ hgk, this]
      | none =>
        obtain ⟨h1, _⟩ := h
        rw [textsOK_nontext _ _ _ _ hk] at h1
        have hr := chunk_none_reduce o level T hI hT start false (by simp)
        have := ih false none hm ⟨h1, by simp⟩
        simp only [List.nil_append] at this
        rw [reduceTextsF_txt_drop _ _ _ _ _ hgk hr, this]
        simp
end

/-! ## attribute order does not matter for `xml:space` -/

theorem find?_eq_of_unique {α} (p : α → Bool) (l l' : List α)
    (hu : ∀ x ∈ l, ∀ y ∈ l, p x = true → p y = true → x = y) (hmem : ∀ a, a ∈ l' ↔ a ∈ l) :
    l'.find? p = l.find? p := by
  cases h : l.find? p with
  | none =>
    rw [List.find?_eq_none] at h ⊢
    intro x hx; exact h x ((hmem x).1 hx)
  | some a =>
    have ha := List.mem_of_find?_eq_some h
    have hpa := List.find?_some h
    cases h' : l'.find? p with
    | none =>
      rw [List.find?_eq_none] at h'
      exact absurd hpa (h' a ((hmem a).2 ha))
    | some b =>
      have hb := List.mem_of_find?_eq_some h'
      have hpb := List.find?_some h'
      rw [hu b ((hmem b).1 hb) a ha hpb hpa]

theorem inj_of_nodup_map {α β} (f : α → β) : ∀ (l : List α), (l.map f).Nodup →
    ∀ x ∈ l, ∀ y ∈ l, f x = f y → x = y := by
  intro l
  induction l with
  | nil => intro _ x hx; simp at hx
  | cons a l ih =>
    intro hn x hx y hy hxy
    simp only [List.map_cons, List.nodup_cons, List.mem_map, not_exists, not_and] at hn
    rcases List.mem_cons.1 hx with hxa | hx' <;> rcases List.mem_cons.1 hy with hya | hy'
    · rw [hxa, hya]
    · subst hxa; exact absurd hxy.symm (hn.1 y hy')
    · subst hya; exact absurd hxy (hn.1 x hx')
    · exact ih hn.2 x hx' y hy' hxy

theorem directive_sortAttrs (attrs : List Attr) (m : Mode)
    (hn : (attrs.map (fun a => (a.ns, a.name))).Nodup) :
    directive (sortAttrs attrs) m = directive attrs m := by
  unfold directive
  rw [find?_eq_of_unique _ attrs (sortAttrs attrs) ?_ (fun a => Ser.mem_sortAttrs)]
  intro x hx y hy hpx hpy
  simp only [Bool.and_eq_true, beq_iff_eq] at hpx hpy
  exact inj_of_nodup_map _ attrs hn x hx y hy (by simp [hpx, hpy])

/-! ## `normalize` on parser-shaped trees only sorts the attributes -/

mutual
  def sortDeep : Node → Node
    | .tag ns name attrs kids => .tag ns name (sortAttrs attrs) (sortDeepList kids)
    | n => n
  def sortDeepList : List Node → List Node
    | [] => []
    | k :: ks => sortDeep k :: sortDeepList ks
end

@[simp] theorem sortDeepList_nil : sortDeepList [] = [] := by simp [sortDeepList]
@[simp] theorem sortDeepList_cons (k ks) : sortDeepList (k :: ks) = sortDeep k :: sortDeepList ks := by
  simp [sortDeepList]
theorem sortDeep_tag (ns name attrs kids) :
    sortDeep (.tag ns name attrs kids) = .tag ns name (sortAttrs attrs) (sortDeepList kids) := by simp [sortDeep]
@[simp] theorem sortDeep_text (s) : sortDeep (.text s) = .text s := by simp [sortDeep]
theorem isText_sortDeep (k : Node) : (sortDeep k).isText = k.isText := by cases k <;> simp [sortDeep, Node.isText]
theorem sortDeepList_eq_map : ∀ l, sortDeepList l = l.map sortDeep
  | [] => by simp
  | k :: ks => by simp [sortDeepList_eq_map ks]

theorem normalizeList_eq_map : ∀ l, normalizeList l = l.map normalize
  | [] => by simp [normalizeList]
  | k :: ks => by simp [normalizeList, normalizeList_eq_map ks]

theorem mk_merged : ∀ (l : List Node), mergedKids l = true → Ser.mergeKids l = l := by
  intro l
  induction l with
  | nil => intro _; simp [Ser.mergeKids]
  | cons k rest ih =>
    intro hm
    cases hk : k.isText with
    | true =>
      cases k with
      | text s =>
        rw [mergedKids_text] at hm
        simp only [Bool.and_eq_true, Bool.not_eq_true'] at hm
        obtain ⟨⟨hs, hh⟩, hm⟩ := hm
        have hsne : s ≠ [] := by simpa [List.isEmpty_iff] using hs
        rw [mergeKids_text_cons, ih hm]
        cases rest with
        | nil => simp [hsne]
        | cons x xs =>
          cases x with
          | text t => simp at hh
          | _ => simp [hsne]
      | _ => simp [Node.isText] at hk
    | false =>
      rw [mergedKids_nontext _ _ hk] at hm
      rw [mk_node _ _ hk, ih hm]

theorem mergedKids_map (h : Node → Node) (ht : ∀ k, (h k).isText = k.isText)
    (hs : ∀ s, h (.text s) = .text s) : ∀ l, mergedKids (l.map h) = mergedKids l := by
  intro l
  induction l with
  | nil => rfl
  | cons k rest ih =>
    cases hk : k.isText with
    | true =>
      cases k with
      | text s =>
        simp only [List.map_cons, hs, mergedKids_text, ih]
        cases rest with
        | nil => rfl
        | cons x xs => simp [ht]
      | _ => simp [Node.isText] at hk
    | false =>
      have : (h k).isText = false := by rw [ht, hk]
      simp only [List.map_cons, mergedKids_nontext _ _ this, mergedKids_nontext _ _ hk, ih]

theorem normalize_eq_sortDeep :
    (∀ t, merged t = true → normalize t = sortDeep t) ∧
    (∀ l, mergedAll l = true → normalizeList l = sortDeepList l) := by
  apply Pretty.node_induct
  · intro ns name attrs kids ih h
    simp only [merged_tag, Bool.and_eq_true] at h
    rw [normalize, ih h.2, sortDeep_tag, mk_merged]
    rw [sortDeepList_eq_map, mergedKids_map _ isText_sortDeep sortDeep_text]
    exact h.1
  · intro s _; simp [normalize]
  · intro s _; simp [normalize, sortDeep]
  · intro t s _; simp [normalize, sortDeep]
  · intro _; simp [normalizeList]
  · intro k ks ihk ihks h
    simp only [mergedAll_cons, Bool.and_eq_true] at h
    simp [normalizeList, ihk h.1, ihks h.2]

theorem reduceTexts_map (rc : Str → Bool → Bool → Str) (h : Node → Node) (ht : ∀ k, (h k).isText = k.isText)
    (hs : ∀ s, h (.text s) = .text s) : ∀ l n i, reduceTexts rc n i (l.map h) = (reduceTexts rc n i l).map h := by
  intro l
  induction l with
  | nil => intro n i; simp
  | cons k rest ih =>
    intro n i
    cases hk : k.isText with
    | true =>
      cases k with
      | text s =>
        simp only [List.map_cons, hs, reduceTexts_text, ih]
        split <;> simp [hs]
      | _ => simp [Node.isText] at hk
    | false =>
      have : (h k).isText = false := by rw [ht, hk]
      simp only [List.map_cons, reduceTexts_nontext _ _ _ _ _ this, reduceTexts_nontext _ _ _ _ _ hk, ih]

section
variable (P : Node → Prop) (PL : List Node → Prop)
  (hP : ∀ ns name attrs kids, P (.tag ns name attrs kids) →
      (attrs.map (fun a => (a.ns, a.name))).Nodup ∧ PL kids)
  (hPL : ∀ k ks, PL (k :: ks) → P k ∧ PL ks)
include hP hPL

theorem reduce_sortDeep (rc : Str → Bool → Bool → Str) :
    (∀ t, P t → ∀ m, reduceNode rc m (sortDeep t) = sortDeep (reduceNode rc m t)) ∧
    (∀ l, PL l → ∀ m, reduceList rc m (sortDeepList l) = sortDeepList (reduceList rc m l)) := by
  apply Pretty.node_induct
  · intro ns name attrs kids ih hp m
    obtain ⟨hn, hk⟩ := hP _ _ _ _ hp
    rw [sortDeep_tag, reduceNode_tag, reduceNode_tag, sortDeep_tag, directive_sortAttrs _ _ hn, ih hk]
    congr 1
    cases directive attrs m with
    | preserve => simp
    | default =>
      simp only [finishKids_default, sortDeepList_eq_map, List.length_map]
      exact reduceTexts_map rc _ isText_sortDeep sortDeep_text _ _ _
  · intro s _ m; simp
  · intro s _ m; simp [sortDeep]
  · intro t s _ m; simp [sortDeep]
  · intro _ m; simp
  · intro k ks ihk ihks hp m
    obtain ⟨hp1, hp2⟩ := hPL _ _ hp
    cases hk : k.isText with
    | true =>
      cases k with
      | text s =>
        simp only [sortDeepList_cons, sortDeep_text, reduceList_text, ihks hp2]
        split <;> simp
      | _ => simp [Node.isText] at hk
    | false =>
      have : (sortDeep k).isText = false := by rw [isText_sortDeep, hk]
      rw [sortDeepList_cons, reduceList_nontext _ _ _ _ this, reduceList_nontext _ _ _ _ hk, ihk hp1, ihks hp2,
        sortDeepList_cons]

/-- a parser-shaped tree that is a fixed point of the reduction stays one when its attributes are sorted -/
theorem reduce_normalize_fixed (rc : Str → Bool → Bool → Str) (t : Node) (hp : P t) (hm : merged t = true)
    (m : Mode) (hr : reduceNode rc m t = t) : reduceNode rc m (normalize t) = normalize t := by
  rw [normalize_eq_sortDeep.1 t hm, (reduce_sortDeep P PL hP hPL rc).1 t hp, hr]
end

theorem mk_append_nilText : ∀ L : List Node, Ser.mergeKids (L ++ [.text []]) = Ser.mergeKids L := by
  intro L
  induction L with
  | nil => simp [mk_single, txt, Ser.mergeKids]
  | cons k L ih =>
    cases hk : k.isText with
    | true =>
      cases k with
      | text s => rw [List.cons_append, mergeKids_text_cons, mergeKids_text_cons, ih]
      | _ => simp [Node.isText] at hk
    | false => rw [List.cons_append, mk_node _ _ hk, mk_node _ _ hk, ih]

theorem mk_tail (c : Prop) [Decidable c] (x : Str) (L : List Node) :
    Ser.mergeKids (L ++ (if c then [] else [Node.text x])) =
      Ser.mergeKids (L ++ [Node.text (if c then [] else x)]) := by
  by_cases h : c <;> simp [h, mk_append_nilText]

theorem allWs_indentN (o : Opts) (h : AllWs o.indent) (level : Nat) : AllWs (indentN o level) := by
  intro c hc
  simp only [indentN, List.mem_flatten, List.mem_replicate] at hc
  obtain ⟨l, ⟨_, rfl⟩, hcl⟩ := hc
  exact h c hcl

/-- what a fixed point of the reduction (in default mode) says about the children -/
theorem reduced_kids {ns name : String} {attrs : List Attr} {kids : List Node}
    (hdd : directive attrs .default = .default) (hmk : mergedKids kids = true) (hma : mergedAll kids = true)
    (hr : reduceNode (reduceContentSpec pyWs) .default (.tag ns name attrs kids) = .tag ns name attrs kids) :
    (∀ k ∈ kids, k.isText = false → reduceNode (reduceContentSpec pyWs) .default k = k) ∧
    TextsOK (reduceContentSpec pyWs) true kids := by
  rw [reduceNode_tag, hdd, finishKids_default] at hr
  simp only [Node.tag.injEq, true_and] at hr
  have hidem := (idem_reduce_all _ (spec_idem pyWs pyWs_space)).2 kids .default hma
  have hmk2 := (((merged_reduce_all (reduceContentSpec pyWs)).2 kids .default hma).2 hmk).1
  generalize reduceList (reduceContentSpec pyWs) .default kids = K2 at *
  constructor
  · intro k hk hnt
    have hk' : k ∈ reduceTexts (reduceContentSpec pyWs) K2.length 0 K2 := by rw [hr]; exact hk
    rcases mem_reduceTexts _ _ _ _ _ hk' with ⟨s, rfl, _⟩ | ⟨_, hk2⟩
    · simp at hnt
    · exact (hidem k hk2).1
  · apply textsOK_of_fixed
    rw [reduceTexts_eq_F _ _ 0 _ (by simp)] at hr
    have := reduceTextsF_idem _ (spec_idem pyWs pyWs_space) true K2 hmk2
    simp only [beq_self_eq_true] at hr
    rw [hr] at this
    exact this

section
variable (P : Node → Prop) (PL : List Node → Prop)
  (hP : ∀ ns name attrs kids, P (.tag ns name attrs kids) →
      (attrs.map (fun a => (a.ns, a.name))).Nodup ∧ PL kids)
  (hPL : ∀ k ks, PL (k :: ks) → P k ∧ PL ks)
include hP hPL

/-- **step 2**: whitespace reduction of the laid-out tree (as read back) gives the original tree -/
theorem lay_reduce (o : Opts) (hind : AllWs o.indent) :
    (∀ t, P t → merged t = true → reduceNode (reduceContentSpec pyWs) .default t = t →
      ∀ level, reduceNode (reduceContentSpec pyWs) .default (normalize (layNode o level t)) = normalize t) ∧
    (∀ l, PL l → mergedAll l = true → ∀ k ∈ l, reduceNode (reduceContentSpec pyWs) .default k = k →
      ∀ level, reduceNode (reduceContentSpec pyWs) .default (normalize (layNode o level k)) = normalize k) := by
  apply Pretty.node_induct
  · intro ns name attrs kids ih hp hm hr level
    obtain ⟨hn, hpk⟩ := hP _ _ _ _ hp
    by_cases hd : directive attrs .default = .preserve
    · rw [layNode, if_pos hd]
      exact reduce_normalize_fixed P PL hP hPL _ _ hp hm _ hr
    · have hdd := directive_cases attrs hd
      simp only [merged_tag, Bool.and_eq_true] at hm
      obtain ⟨hmk, hma⟩ := hm
      by_cases hke : kids = []
      · subst hke
        rw [layNode, if_neg hd]
        simp [normalize, normalizeList, Ser.mergeKids, reduceNode_tag, directive_sortAttrs _ _ hn, hdd]
      · obtain ⟨hfix, hok⟩ := reduced_kids hdd hmk hma hr
        have hkE : kids.isEmpty = false := by simpa [List.isEmpty_iff] using hke
        have hI := allWs_indentN o hind (level + 1)
        have hT : AllWs (if o.indent.isEmpty then [] else indentN o level) :=
          allWs_ite allWs_nil (allWs_indentN o hind level)
        have hg : ∀ k : Node, k.isText = false → (normalize (layNode o (level + 1) k)).isText = false := by
          intro k hk; rw [isText_normalize, isText_layNode, hk]
        have e1 : normalize (layNode o level (.tag ns name attrs kids)) =
            .tag ns name (sortAttrs attrs)
              (bkA o (level + 1) (if o.indent.isEmpty then [] else indentN o level)
                (fun k => normalize (layNode o (level + 1) k)) true none kids) := by
          rw [layNode, if_neg hd, hkE]
          simp only [Bool.false_eq_true, if_false, normalize]
          congr 1
          rw [normalizeList_eq_map, List.map_append, List.map_append, (layKidsM_merged o (level + 1) kids hmk).1,
            layS_map _ _ _ _ (fun s => by simp [normalize])]
          have : (if o.indent.isEmpty then [] else [Node.text (indentN o level)]).map normalize =
              (if o.indent.isEmpty then [] else [Node.text (indentN o level)]) := by
            split <;> simp [normalize]
          rw [this, List.append_assoc]
          simp only [List.map_cons, List.map_nil, normalize, List.cons_append, List.nil_append]
          rw [← List.cons_append, mk_tail, List.cons_append]
          have := ((layS_merge o (level + 1) (if o.indent.isEmpty then [] else indentN o level)
            (fun k => normalize (layNode o (level + 1) k)) hg kids hmk).1 none true rfl rfl)
          simpa [lead] using this
        have e2 : normalize (.tag ns name attrs kids) = .tag ns name (sortAttrs attrs) (kids.map normalize) := by
          rw [normalize, normalizeList_eq_map, mk_merged]
          rw [mergedKids_map _ isText_normalize (fun s => by simp [normalize])]
          exact hmk
        rw [e1, e2, reduceNode_tag, directive_sortAttrs _ _ hn, hdd, finishKids_default,
          reduceList_bkA _ _ _ _ _ _ hg,
          bkA_congr _ _ _ _ normalize kids true none
            (fun k hk hnt => ih hpk hma k hk (hfix k hk hnt) (level + 1)),
          reduceTexts_eq_F _ _ 0 _ (by simp)]
        simp only [beq_self_eq_true]
        rw [reduce_bkA o (level + 1) _ hI hT normalize (fun k hk => by rw [isText_normalize, hk])
          (fun s => by simp [normalize]) kids true none hmk ⟨hok, fun _ => hke⟩]
        simp
  · intro s _ _ _ level; simp [layNode, normalize]
  · intro s _ _ _ level; simp [layNode, normalize]
  · intro t s _ _ _ level; simp [layNode, normalize]
  · intro _ _ k hk; simp at hk
  · intro k ks ihk ihks hpl hma x hx hrx level
    obtain ⟨hp1, hp2⟩ := hPL _ _ hpl
    simp only [mergedAll_cons, Bool.and_eq_true] at hma
    rcases List.mem_cons.1 hx with rfl | hx
    · exact ihk hp1 hma.1 hrx level
    · exact ihks hp2 hma.2 x hx hrx level
end
end Delb.Pretty

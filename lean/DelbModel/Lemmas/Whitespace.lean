import DelbModel.Model.Whitespace
namespace Delb.WS

/-! ## string level -/

/-- every whitespace character of `s` is the plain space -/
def OnlySp (ws : Char → Bool) (s : Str) : Prop := ∀ c ∈ s, ws c = true → c = ' '

/-- no two adjacent plain spaces -/
def NoDbl : Str → Prop
  | a :: b :: rest => ¬(a = ' ' ∧ b = ' ') ∧ NoDbl (b :: rest)
  | _ => True

def HeadNonWs (ws : Char → Bool) (s : Str) : Prop := ∀ a, s.head? = some a → ws a = false
def LastNonWs (ws : Char → Bool) (s : Str) : Prop := ∀ a, s.getLast? = some a → ws a = false

@[simp] theorem onlySp_nil (ws) : OnlySp ws [] := by simp [OnlySp]
theorem onlySp_cons (ws a s) : OnlySp ws (a :: s) ↔ (ws a = true → a = ' ') ∧ OnlySp ws s := by
  simp [OnlySp]

@[simp] theorem noDbl_nil : NoDbl [] := by simp [NoDbl]
@[simp] theorem noDbl_single (a) : NoDbl [a] := by simp [NoDbl]
theorem noDbl_cons (a : Char) (l : Str) :
    NoDbl (a :: l) ↔ (a = ' ' → l.head? ≠ some ' ') ∧ NoDbl l := by
  cases l <;> simp [NoDbl]

theorem noDbl_getElem {s : Str} (h : NoDbl s) :
    ∀ i, s[i]? = some ' ' → s[i+1]? ≠ some ' ' := by
  induction s with
  | nil => simp
  | cons a l ih =>
    rw [noDbl_cons] at h
    intro i
    cases i with
    | zero =>
      cases l <;> simp_all
    | succ i => simpa using ih h.2 i

@[simp] theorem headNonWs_nil (ws) : HeadNonWs ws [] := by simp [HeadNonWs]
@[simp] theorem headNonWs_cons (ws a s) : HeadNonWs ws (a :: s) ↔ ws a = false := by
  simp [HeadNonWs]
@[simp] theorem lastNonWs_nil (ws) : LastNonWs ws [] := by simp [LastNonWs]
@[simp] theorem lastNonWs_single (ws a) : LastNonWs ws [a] ↔ ws a = false := by
  simp [LastNonWs]
@[simp] theorem lastNonWs_cons_cons (ws a b s) :
    LastNonWs ws (a :: b :: s) ↔ LastNonWs ws (b :: s) := by
  simp [LastNonWs, List.getLast?_cons_cons]

/-! ### collapse -/

theorem collapseAux_onlySp (ws : Char → Bool) (b : Bool) (s : Str) :
    OnlySp ws (collapseAux ws b s) := by
  induction s generalizing b with
  | nil => simp [collapseAux]
  | cons c cs ih =>
    simp only [collapseAux]
    split
    · split
      · exact ih _
      · rw [onlySp_cons]; exact ⟨fun _ => rfl, ih _⟩
    · rw [onlySp_cons]; exact ⟨fun h => by simp_all, ih _⟩

theorem collapseAux_true_head (ws : Char → Bool) (s : Str) :
    HeadNonWs ws (collapseAux ws true s) := by
  induction s with
  | nil => simp [collapseAux]
  | cons c cs ih =>
    simp only [collapseAux]
    split
    · simpa using ih
    · simp_all

theorem collapseAux_noDbl (ws : Char → Bool) (hsp : ws ' ' = true) (b : Bool) (s : Str) :
    NoDbl (collapseAux ws b s) := by
  induction s generalizing b with
  | nil => simp [collapseAux]
  | cons c cs ih =>
    simp only [collapseAux]
    split
    · split
      · exact ih _
      · rw [noDbl_cons]
        refine ⟨fun _ h => ?_, ih _⟩
        have := collapseAux_true_head ws cs _ h
        simp_all
    · rw [noDbl_cons]
      refine ⟨fun h => ?_, ih _⟩
      subst h; simp_all

theorem nonWs_collapseAux (ws : Char → Bool) (hsp : ws ' ' = true) (b : Bool) (s : Str) :
    nonWs ws (collapseAux ws b s) = nonWs ws s := by
  induction s generalizing b with
  | nil => simp [collapseAux]
  | cons c cs ih =>
    simp only [collapseAux]
    split
    · split
      · rw [ih]; simp_all [nonWs]
      · have := ih true; simp_all [nonWs]
    · have := ih false; simp_all [nonWs]

theorem collapseAux_fixed (ws : Char → Bool) (b : Bool) (c : Str)
    (h1 : OnlySp ws c) (h2 : NoDbl c) (h3 : b = true → HeadNonWs ws c) :
    collapseAux ws b c = c := by
  induction c generalizing b with
  | nil => simp [collapseAux]
  | cons a rest ih =>
    rw [onlySp_cons] at h1
    rw [noDbl_cons] at h2
    simp only [collapseAux]
    split
    · rename_i hw
      have ha := h1.1 hw
      subst ha
      cases b with
      | true => simp_all
      | false =>
        simp
        apply ih true h1.2 h2.2
        intro _ x hx
        cases hws : ws x with
        | false => rfl
        | true =>
          have hm : x ∈ rest := List.mem_of_mem_head? (by simp [hx])
          have := h1.2 x hm hws
          subst this
          exact absurd hx (h2.1 rfl)
    · rw [ih false h1.2 h2.2 (by simp)]

/-! ### ltrim -/

theorem ltrim_cons (ws : Char → Bool) (a : Char) (s : Str) :
    ltrim ws (a :: s) = if ws a then ltrim ws s else a :: s := by
  simp [ltrim, List.dropWhile_cons]

@[simp] theorem ltrim_nil (ws : Char → Bool) : ltrim ws [] = [] := rfl

theorem ltrim_headNonWs (ws : Char → Bool) (s : Str) : HeadNonWs ws (ltrim ws s) := by
  induction s with
  | nil => simp
  | cons a s ih => rw [ltrim_cons]; split <;> simp_all

theorem ltrim_of_headNonWs (ws : Char → Bool) (s : Str) (h : HeadNonWs ws s) :
    ltrim ws s = s := by
  cases s with
  | nil => rfl
  | cons a s => rw [ltrim_cons]; simp_all

theorem ltrim_onlySp (ws : Char → Bool) (s : Str) (h : OnlySp ws s) : OnlySp ws (ltrim ws s) := by
  induction s with
  | nil => simp
  | cons a s ih =>
    rw [ltrim_cons]; rw [onlySp_cons] at h
    split
    · exact ih h.2
    · rw [onlySp_cons]; exact h

theorem ltrim_noDbl (ws : Char → Bool) (s : Str) (h : NoDbl s) : NoDbl (ltrim ws s) := by
  induction s with
  | nil => simp
  | cons a s ih =>
    rw [ltrim_cons]
    split
    · rw [noDbl_cons] at h; exact ih h.2
    · exact h

theorem nonWs_ltrim (ws : Char → Bool) (s : Str) : nonWs ws (ltrim ws s) = nonWs ws s := by
  induction s with
  | nil => simp
  | cons a s ih =>
    rw [ltrim_cons]
    split
    · rw [ih]; simp_all [nonWs]
    · rfl

theorem ltrim_append_of_all (ws : Char → Bool) (pre x : Str) (h : ∀ a ∈ pre, ws a = true) :
    ltrim ws (pre ++ x) = ltrim ws x := by
  induction pre with
  | nil => rfl
  | cons a s ih => simp_all [ltrim_cons]

/-! ### rtrim -/

@[simp] theorem rtrim_nil (ws : Char → Bool) : rtrim ws [] = [] := rfl

theorem rtrim_cons (ws : Char → Bool) (a : Char) (s : Str) :
    rtrim ws (a :: s) = if (rtrim ws s).isEmpty && ws a then [] else a :: rtrim ws s := by
  simp only [rtrim, List.reverse_cons, List.dropWhile_append]
  by_cases h : (List.dropWhile ws s.reverse).isEmpty = true
  · by_cases h2 : ws a = true <;> simp_all
  · simp_all

theorem rtrim_head (ws : Char → Bool) (s : Str) (a : Char)
    (h : (rtrim ws s).head? = some a) : s.head? = some a := by
  cases s with
  | nil => simp at h
  | cons b s => rw [rtrim_cons] at h; split at h <;> simp_all

theorem rtrim_headNonWs (ws : Char → Bool) (s : Str) (h : HeadNonWs ws s) :
    HeadNonWs ws (rtrim ws s) := fun a ha => h a (rtrim_head ws s a ha)

theorem rtrim_onlySp (ws : Char → Bool) (s : Str) (h : OnlySp ws s) : OnlySp ws (rtrim ws s) := by
  induction s with
  | nil => simp
  | cons a s ih =>
    rw [rtrim_cons]; rw [onlySp_cons] at h
    split
    · simp
    · rw [onlySp_cons]; exact ⟨h.1, ih h.2⟩

theorem rtrim_noDbl (ws : Char → Bool) (s : Str) (h : NoDbl s) : NoDbl (rtrim ws s) := by
  induction s with
  | nil => simp
  | cons a s ih =>
    rw [rtrim_cons]; rw [noDbl_cons] at h
    split
    · simp
    · rw [noDbl_cons]
      exact ⟨fun ha hh => h.1 ha (rtrim_head ws s _ hh), ih h.2⟩

theorem nonWs_rtrim (ws : Char → Bool) (s : Str) : nonWs ws (rtrim ws s) = nonWs ws s := by
  induction s with
  | nil => simp
  | cons a s ih =>
    rw [rtrim_cons]
    split
    · rename_i h
      simp at h
      rw [h.1] at ih
      simp_all [nonWs]
    · simp_all [nonWs, List.filter_cons]

theorem rtrim_lastNonWs (ws : Char → Bool) (s : Str) : LastNonWs ws (rtrim ws s) := by
  induction s with
  | nil => simp
  | cons a s ih =>
    rw [rtrim_cons]
    split
    · simp
    · rename_i h
      cases hr : rtrim ws s with
      | nil => simp_all
      | cons b t => rw [hr] at ih; simpa using ih

theorem rtrim_of_lastNonWs (ws : Char → Bool) (s : Str) (h : LastNonWs ws s) :
    rtrim ws s = s := by
  induction s with
  | nil => rfl
  | cons a s ih =>
    rw [rtrim_cons]
    cases s with
    | nil => simp_all
    | cons b t =>
      rw [lastNonWs_cons_cons] at h
      rw [ih h]; simp

theorem rtrim_of_all (ws : Char → Bool) (s : Str) (h : ∀ a ∈ s, ws a = true) :
    rtrim ws s = [] := by
  induction s with
  | nil => rfl
  | cons a s ih => rw [rtrim_cons]; simp_all

theorem rtrim_append_of_all (ws : Char → Bool) (x post : Str) (h : ∀ a ∈ post, ws a = true) :
    rtrim ws (x ++ post) = rtrim ws x := by
  induction x with
  | nil => simpa using rtrim_of_all ws post h
  | cons a s ih => rw [List.cons_append, rtrim_cons, rtrim_cons, ih]

/-! ### shape of a collapsed string -/

theorem tail_decomp (ws : Char → Bool) (x : Str) (h1 : OnlySp ws x) (h2 : NoDbl x) :
    ∃ core post, x = core ++ post ∧ (post = [] ∨ post = [' ']) ∧ LastNonWs ws core := by
  induction x with
  | nil => exact ⟨[], [], rfl, Or.inl rfl, by simp⟩
  | cons a rest ih =>
    rw [onlySp_cons] at h1
    rw [noDbl_cons] at h2
    obtain ⟨core, post, hx, hpost, hl⟩ := ih h1.2 h2.2
    cases core with
    | nil =>
      cases hw : ws a with
      | false => exact ⟨[a], post, by simp [hx], hpost, by simp [hw]⟩
      | true =>
        have ha := h1.1 hw
        subst ha
        refine ⟨[], ' ' :: rest, rfl, Or.inr ?_, by simp⟩
        rcases hpost with rfl | rfl
        · simp_all
        · simp_all
    | cons b t =>
      exact ⟨a :: b :: t, post, by simp [hx], hpost, by simpa using hl⟩

/-- a collapsed string is empty, a single space, or a non-empty core that starts and ends
    with non-whitespace, optionally preceded and followed by one space -/
def Shape (ws : Char → Bool) (c : Str) : Prop :=
  c = [] ∨ c = [' '] ∨ ∃ pre core post, c = pre ++ (core ++ post) ∧ (pre = [] ∨ pre = [' ']) ∧
    (post = [] ∨ post = [' ']) ∧ core ≠ [] ∧ HeadNonWs ws core ∧ LastNonWs ws core

theorem shape_of_headNonWs (ws : Char → Bool) (hsp : ws ' ' = true) (x : Str) (h1 : OnlySp ws x) (h2 : NoDbl x)
    (h3 : HeadNonWs ws x) (hne : x ≠ []) :
    ∃ core post, x = core ++ post ∧ (post = [] ∨ post = [' ']) ∧ core ≠ [] ∧
      HeadNonWs ws core ∧ LastNonWs ws core := by
  obtain ⟨core, post, hx, hpost, hl⟩ := tail_decomp ws x h1 h2
  cases core with
  | nil =>
    subst hx
    rcases hpost with rfl | rfl
    · simp at hne
    · simp_all
  | cons b t =>
    refine ⟨b :: t, post, hx, hpost, by simp, ?_, hl⟩
    subst hx; simpa using h3

theorem shape_of_collapsed (ws : Char → Bool) (hsp : ws ' ' = true) (c : Str)
    (h1 : OnlySp ws c) (h2 : NoDbl c) : Shape ws c := by
  cases c with
  | nil => exact Or.inl rfl
  | cons a rest =>
    cases hw : ws a with
    | false =>
      obtain ⟨core, post, hx, hpost, hne, hh, hl⟩ :=
        shape_of_headNonWs ws hsp (a :: rest) h1 h2 (by simp [hw]) (by simp)
      exact Or.inr (Or.inr ⟨[], core, post, by simpa using hx, Or.inl rfl, hpost, hne, hh, hl⟩)
    | true =>
      rw [onlySp_cons] at h1
      rw [noDbl_cons] at h2
      have ha := h1.1 hw
      subst ha
      cases rest with
      | nil => exact Or.inr (Or.inl rfl)
      | cons b t =>
        have hb : ws b = false := by
          cases hb : ws b with
          | false => rfl
          | true =>
            have := h1.2 b (by simp) hb
            subst this
            simp at h2
        obtain ⟨core, post, hx, hpost, hne, hh, hl⟩ :=
          shape_of_headNonWs ws hsp (b :: t) h1.2 h2.2 (by simp [hb]) (by simp)
        exact Or.inr (Or.inr ⟨[' '], core, post, by simp [hx], Or.inr rfl, hpost, hne, hh, hl⟩)

theorem collapse_shape (ws : Char → Bool) (hsp : ws ' ' = true) (s : Str) :
    Shape ws (collapse ws s) :=
  shape_of_collapsed ws hsp _ (collapseAux_onlySp ws false s) (collapseAux_noDbl ws hsp false s)

theorem headNonWs_append (ws : Char → Bool) (x y : Str) (hne : x ≠ []) (h : HeadNonWs ws x) :
    HeadNonWs ws (x ++ y) := by
  cases x with
  | nil => simp at hne
  | cons a t => simpa using h

theorem lastNonWs_append (ws : Char → Bool) (x y : Str) (hne : y ≠ []) (h : LastNonWs ws y) :
    LastNonWs ws (x ++ y) := by
  intro a ha
  rw [List.getLast?_append] at ha
  cases hy : y.getLast? with
  | none => simp_all
  | some b => rw [hy] at ha; simp at ha; subst ha; exact h _ hy

theorem impl_eq_spec_of_shape (ws : Char → Bool) (hsp : ws ' ' = true) (c : Str)
    (h : Shape ws c) (isFirst isLast : Bool) :
    (let cs := strip ws c
     let hasNws := !cs.isEmpty
     let hasTrailing := c.getLast? == some ' '
     let result := if !isFirst && hasNws && c.head? == some ' ' then ' ' :: cs else cs
     if (!(isLast || isFirst) && hasTrailing) || (!isLast && isFirst && hasTrailing && hasNws)
        || (isFirst && isLast && !hasNws)
     then result ++ [' '] else result) =
    (let c1 := if isFirst then ltrim ws c else c
     let c2 := if isLast then rtrim ws c1 else c1
     if c2.isEmpty && isFirst && isLast then [' '] else c2) := by
  rcases h with rfl | rfl | ⟨pre, core, post, rfl, hpre, hpost, hne, hh, hl⟩
  · cases isFirst <;> cases isLast <;> simp [strip]
  · cases isFirst <;> cases isLast <;> simp [strip, ltrim_cons, rtrim_cons, hsp]
  · have hpreAll : ∀ a ∈ pre, ws a = true := by rcases hpre with rfl | rfl <;> simp [hsp]
    have hpostAll : ∀ a ∈ post, ws a = true := by rcases hpost with rfl | rfl <;> simp [hsp]
    have hL : ltrim ws (pre ++ (core ++ post)) = core ++ post := by
      rw [ltrim_append_of_all ws _ _ hpreAll]
      exact ltrim_of_headNonWs ws _ (headNonWs_append ws _ _ hne hh)
    have hR1 : rtrim ws (core ++ post) = core := by
      rw [rtrim_append_of_all ws _ _ hpostAll]
      exact rtrim_of_lastNonWs ws _ hl
    have hR : rtrim ws (pre ++ (core ++ post)) = pre ++ core := by
      rw [← List.append_assoc, rtrim_append_of_all ws _ _ hpostAll]
      exact rtrim_of_lastNonWs ws _ (lastNonWs_append ws _ _ hne hl)
    have hS : strip ws (pre ++ (core ++ post)) = core := by
      unfold strip; rw [hL, hR1]
    obtain ⟨a, t, rfl⟩ := List.exists_cons_of_ne_nil hne
    have ha : ws a = false := by simpa using hh
    have ha' : a ≠ ' ' := by intro h; subst h; simp_all
    have hlast : (a :: t).getLast? ≠ some ' ' := by
      intro h; have := hl _ h; simp_all
    have hlast2 : (a :: (t ++ [' '])).getLast? = some ' ' := by
      rw [← List.cons_append, List.getLast?_append]; simp
    cases isFirst <;> cases isLast <;>
      simp only [hS, hL, hR, hR1, Bool.not_true, Bool.not_false, Bool.true_and, Bool.false_and,
        Bool.or_false, Bool.or_true, Bool.false_or, Bool.and_true, Bool.and_false,
        if_true, if_false, Bool.false_eq_true] <;>
      rcases hpre with rfl | rfl <;> rcases hpost with rfl | rfl <;> simp [ha', hlast, hlast2]

/-! ### content reduction -/

theorem content_impl_eq_spec (ws : Char → Bool) (hsp : ws ' ' = true)
    (s : Str) (isFirst isLast : Bool) :
    reduceContentImpl ws s isFirst isLast = reduceContentSpec ws s isFirst isLast :=
  impl_eq_spec_of_shape ws hsp (collapse ws s) (collapse_shape ws hsp s) isFirst isLast

/-- the string before the final "only child" rule -/
def specCore (ws : Char → Bool) (s : Str) (isFirst isLast : Bool) : Str :=
  let c := collapse ws s
  let c := if isFirst then ltrim ws c else c
  if isLast then rtrim ws c else c

theorem spec_eq (ws : Char → Bool) (s : Str) (f l : Bool) :
    reduceContentSpec ws s f l =
      if (specCore ws s f l).isEmpty && f && l then [' '] else specCore ws s f l := rfl

theorem specCore_onlySp (ws : Char → Bool) (s : Str) (f l : Bool) :
    OnlySp ws (specCore ws s f l) := by
  have h := collapseAux_onlySp ws false s
  cases f <;> cases l <;> simp only [specCore, collapse, if_true, if_false, Bool.false_eq_true]
  · exact h
  · exact rtrim_onlySp _ _ h
  · exact ltrim_onlySp _ _ h
  · exact rtrim_onlySp _ _ (ltrim_onlySp _ _ h)

theorem specCore_noDbl (ws : Char → Bool) (hsp : ws ' ' = true) (s : Str) (f l : Bool) :
    NoDbl (specCore ws s f l) := by
  have h := collapseAux_noDbl ws hsp false s
  cases f <;> cases l <;> simp only [specCore, collapse, if_true, if_false, Bool.false_eq_true]
  · exact h
  · exact rtrim_noDbl _ _ h
  · exact ltrim_noDbl _ _ h
  · exact rtrim_noDbl _ _ (ltrim_noDbl _ _ h)

theorem nonWs_specCore (ws : Char → Bool) (hsp : ws ' ' = true) (s : Str) (f l : Bool) :
    nonWs ws (specCore ws s f l) = nonWs ws s := by
  have h := nonWs_collapseAux ws hsp false s
  cases f <;> cases l <;>
    simp only [specCore, collapse, if_true, if_false, Bool.false_eq_true, nonWs_rtrim, nonWs_ltrim, h]

theorem spec_onlySp (ws : Char → Bool) (s : Str) (f l : Bool) :
    OnlySp ws (reduceContentSpec ws s f l) := by
  rw [spec_eq]; split
  · simp [OnlySp]
  · exact specCore_onlySp ws s f l

theorem spec_noDbl (ws : Char → Bool) (hsp : ws ' ' = true) (s : Str) (f l : Bool) :
    NoDbl (reduceContentSpec ws s f l) := by
  rw [spec_eq]; split
  · simp
  · exact specCore_noDbl ws hsp s f l

theorem nonWs_spec (ws : Char → Bool) (hsp : ws ' ' = true) (s : Str) (f l : Bool) :
    nonWs ws (reduceContentSpec ws s f l) = nonWs ws s := by
  rw [spec_eq]; split
  · rename_i h
    simp at h
    have := nonWs_specCore ws hsp s f l
    rw [h.1.1] at this
    rw [← this]; simp [nonWs, hsp]
  · exact nonWs_specCore ws hsp s f l

theorem specCore_head (ws : Char → Bool) (s : Str) (l : Bool) :
    HeadNonWs ws (specCore ws s true l) := by
  cases l <;> simp only [specCore, if_true, if_false, Bool.false_eq_true]
  · exact ltrim_headNonWs _ _
  · exact rtrim_headNonWs _ _ (ltrim_headNonWs _ _)

theorem specCore_last (ws : Char → Bool) (s : Str) (f : Bool) :
    LastNonWs ws (specCore ws s f true) := by
  simp only [specCore, if_true]
  exact rtrim_lastNonWs _ _

theorem specCore_fixed (ws : Char → Bool) (hsp : ws ' ' = true) (s : Str) (f l : Bool) :
    specCore ws (specCore ws s f l) f l = specCore ws s f l := by
  have hc : collapse ws (specCore ws s f l) = specCore ws s f l :=
    collapseAux_fixed ws false _ (specCore_onlySp ws s f l) (specCore_noDbl ws hsp s f l) (by simp)
  have hl : f = true → ltrim ws (specCore ws s f l) = specCore ws s f l := by
    intro h; subst h; exact ltrim_of_headNonWs _ _ (specCore_head ws s l)
  have hr : l = true → rtrim ws (specCore ws s f l) = specCore ws s f l := by
    intro h; subst h; exact rtrim_of_lastNonWs _ _ (specCore_last ws s f)
  generalize specCore ws s f l = x at *
  cases f <;> cases l <;> simp_all [specCore]

theorem spec_idem (ws : Char → Bool) (hsp : ws ' ' = true) (s : Str) (f l : Bool) :
    reduceContentSpec ws (reduceContentSpec ws s f l) f l = reduceContentSpec ws s f l := by
  rw [spec_eq ws s]
  split
  · rename_i h
    simp at h
    obtain ⟨⟨_, rfl⟩, rfl⟩ := h
    simp [reduceContentSpec, collapse, collapseAux, hsp, ltrim_cons]
  · rename_i h
    rw [spec_eq, specCore_fixed ws hsp]
    simp [h]

/-! ## tree level -/

theorem node_induct {P : Node → Prop} {Q : List Node → Prop}
    (tag : ∀ ns name attrs kids, Q kids → P (.tag ns name attrs kids))
    (text : ∀ s, P (.text s)) (comment : ∀ s, P (.comment s)) (pi : ∀ t s, P (.pi t s))
    (nil : Q []) (cons : ∀ k ks, P k → Q ks → Q (k :: ks)) :
    (∀ t, P t) ∧ (∀ l, Q l) := by
  have hP : ∀ t, P t := fun t =>
    Node.rec (motive_1 := P) (motive_2 := Q) tag text comment pi nil cons t
  refine ⟨hP, fun l => ?_⟩
  induction l with
  | nil => exact nil
  | cons k ks ih => exact cons k ks (hP k) ih

variable (rc : Str → Bool → Bool → Str)

/-- what `reduceNode` does with the already recursively reduced child list -/
def finishKids (m' : Mode) (kids2 : List Node) : List Node :=
  match m' with
  | .preserve => kids2
  | .default => reduceTexts rc kids2.length 0 kids2

@[simp] theorem finishKids_preserve (l) : finishKids rc .preserve l = l := rfl
@[simp] theorem finishKids_default (l) :
    finishKids rc .default l = reduceTexts rc l.length 0 l := rfl

theorem reduceNode_tag (m ns name attrs kids) :
    reduceNode rc m (.tag ns name attrs kids) =
      .tag ns name attrs (finishKids rc (directive attrs m)
        (reduceList rc (directive attrs m) kids)) := by
  simp only [reduceNode]
  cases directive attrs m <;> rfl
@[simp] theorem reduceNode_text (m s) : reduceNode rc m (.text s) = .text s := by
  simp [reduceNode]
@[simp] theorem reduceNode_comment (m s) : reduceNode rc m (.comment s) = .comment s := by
  simp [reduceNode]
@[simp] theorem reduceNode_pi (m t s) : reduceNode rc m (.pi t s) = .pi t s := by
  simp [reduceNode]

@[simp] theorem reduceList_nil (m) : reduceList rc m [] = [] := by simp [reduceList]
theorem reduceList_text (m s ks) : reduceList rc m (.text s :: ks) =
    if s = [] then reduceList rc m ks else .text s :: reduceList rc m ks := by
  cases s <;> simp [reduceList]
theorem reduceList_nontext (m k ks) (h : k.isText = false) :
    reduceList rc m (k :: ks) = reduceNode rc m k :: reduceList rc m ks := by
  cases k <;> simp_all [reduceList, Node.isText]

@[simp] theorem reduceTexts_nil (n i) : reduceTexts rc n i [] = [] := by simp [reduceTexts]
theorem reduceTexts_text (n i s rest) : reduceTexts rc n i (.text s :: rest) =
    if (rc s (i == 0) (i + 1 == n)).isEmpty then reduceTexts rc n (i+1) rest
    else .text (rc s (i == 0) (i + 1 == n)) :: reduceTexts rc n (i+1) rest := by
  simp [reduceTexts]
theorem reduceTexts_nontext (n i k rest) (h : k.isText = false) :
    reduceTexts rc n i (k :: rest) = k :: reduceTexts rc n (i+1) rest := by
  cases k <;> simp_all [reduceTexts, Node.isText]

@[simp] theorem isText_tag (ns name attrs kids) : (Node.tag ns name attrs kids).isText = false := by
  simp [Node.isText]
@[simp] theorem isText_text (s) : (Node.text s).isText = true := by
  simp [Node.isText]
@[simp] theorem isText_comment (s) : (Node.comment s).isText = false := by
  simp [Node.isText]
@[simp] theorem isText_pi (t s) : (Node.pi t s).isText = false := by
  simp [Node.isText]

/-! ### skeleton -/

@[simp] theorem skeleton_tag (ns name attrs kids) :
    skeleton (.tag ns name attrs kids) = .tag ns name attrs (skeletonList kids) := by
  simp [skeleton]
@[simp] theorem skeletonList_nil : skeletonList [] = [] := by simp [skeletonList]
@[simp] theorem skeletonList_text (s ks) : skeletonList (.text s :: ks) = skeletonList ks := by
  simp [skeletonList]
theorem skeletonList_nontext (k ks) (h : k.isText = false) :
    skeletonList (k :: ks) = skeleton k :: skeletonList ks := by
  cases k <;> simp_all [skeletonList, Node.isText]

theorem skeletonList_reduceTexts (n i l) :
    skeletonList (reduceTexts rc n i l) = skeletonList l := by
  induction l generalizing i with
  | nil => simp
  | cons k ks ih =>
    cases k with
    | text s => rw [reduceTexts_text]; split <;> simp [ih]
    | _ => simp [reduceTexts_nontext, skeletonList_nontext, ih]

theorem skeleton_reduce_all :
    (∀ t, ∀ m, skeleton (reduceNode rc m t) = skeleton t) ∧
    (∀ l, ∀ m, skeletonList (reduceList rc m l) = skeletonList l) := by
  apply node_induct
  · intro ns name attrs kids ih m
    rw [reduceNode_tag]
    cases directive attrs m <;> simp [skeletonList_reduceTexts, ih]
  · intros; simp
  · intros; simp
  · intros; simp
  · intros; simp
  · intro k ks ihk ihks m
    cases k with
    | text s => rw [reduceList_text]; split <;> simp [ihks]
    | tag ns name attrs kids =>
      have := ihk m
      rw [reduceList_nontext _ _ _ _ rfl, skeletonList_nontext _ _ rfl]
      rw [reduceNode_tag] at this ⊢
      rw [skeletonList_nontext _ _ rfl, this, ihks]
    | _ => simp [reduceList_nontext, skeletonList_nontext, ihks]

/-! ### fullText / nonWs -/

@[simp] theorem fullText_tag (ns name attrs kids) :
    fullText (.tag ns name attrs kids) = fullTextList kids := by simp [fullText]
@[simp] theorem fullText_text (s) : fullText (.text s) = s := by simp [fullText]
@[simp] theorem fullTextList_nil : fullTextList [] = [] := by simp [fullTextList]
@[simp] theorem fullTextList_cons (k ks) :
    fullTextList (k :: ks) = fullText k ++ fullTextList ks := by simp [fullTextList]

theorem nonWs_append (ws : Char → Bool) (a b : Str) :
    nonWs ws (a ++ b) = nonWs ws a ++ nonWs ws b := by simp [nonWs]

theorem nonWs_reduceTexts (ws : Char → Bool)
    (hrc : ∀ s f l, nonWs ws (rc s f l) = nonWs ws s) (n i l) :
    nonWs ws (fullTextList (reduceTexts rc n i l)) = nonWs ws (fullTextList l) := by
  induction l generalizing i with
  | nil => simp
  | cons k ks ih =>
    cases k with
    | text s =>
      rw [reduceTexts_text]
      split
      · rename_i h
        have := hrc s (i == 0) (i + 1 == n)
        simp at h
        rw [h] at this
        simp [nonWs_append, ih, ← this]
        simp [nonWs]
      · simp [nonWs_append, ih, hrc]
    | _ => simp [reduceTexts_nontext, nonWs_append, ih]

theorem nonWs_reduce_all (ws : Char → Bool)
    (hrc : ∀ s f l, nonWs ws (rc s f l) = nonWs ws s) :
    (∀ t, ∀ m, nonWs ws (fullText (reduceNode rc m t)) = nonWs ws (fullText t)) ∧
    (∀ l, ∀ m, nonWs ws (fullTextList (reduceList rc m l)) = nonWs ws (fullTextList l)) := by
  apply node_induct
  · intro ns name attrs kids ih m
    rw [reduceNode_tag]
    cases directive attrs m <;> simp [nonWs_reduceTexts rc ws hrc, ih]
  · intros; simp
  · intros; simp
  · intros; simp
  · intros; simp
  · intro k ks ihk ihks m
    cases k with
    | text s =>
      rw [reduceList_text]; split
      · subst_vars; simpa using ihks m
      · simp [ihks, nonWs_append]
    | tag ns name attrs kids =>
      rw [reduceList_nontext _ _ _ _ (by simp)]
      simp only [fullTextList_cons, nonWs_append, ihk m, ihks m]
    | _ => simp [reduceList_nontext, nonWs_append, ihks]

/-! ### merged -/

/-- does the list start with a text node? -/
def headIsText : List Node → Bool
  | k :: _ => k.isText
  | [] => false

@[simp] theorem headIsText_nil : headIsText [] = false := rfl
@[simp] theorem headIsText_cons (k ks) : headIsText (k :: ks) = k.isText := rfl

@[simp] theorem mergedKids_nil : mergedKids [] = true := by simp [mergedKids]
theorem mergedKids_text (s l) :
    mergedKids (.text s :: l) = (!s.isEmpty && !headIsText l && mergedKids l) := by
  cases l with
  | nil => simp [mergedKids]
  | cons k ks => cases k <;> simp [mergedKids]
theorem mergedKids_nontext (k l) (h : k.isText = false) :
    mergedKids (k :: l) = mergedKids l := by
  cases k <;> simp_all [mergedKids]

@[simp] theorem merged_tag (ns name attrs kids) :
    merged (.tag ns name attrs kids) = (mergedKids kids && mergedAll kids) := by simp [merged]
@[simp] theorem merged_text (s) : merged (.text s) = true := by simp [merged]
@[simp] theorem merged_comment (s) : merged (.comment s) = true := by simp [merged]
@[simp] theorem merged_pi (t s) : merged (.pi t s) = true := by simp [merged]
@[simp] theorem mergedAll_nil : mergedAll [] = true := by simp [mergedAll]
@[simp] theorem mergedAll_cons (k ks) : mergedAll (k :: ks) = (merged k && mergedAll ks) := by
  simp [mergedAll]

theorem headIsText_reduceTexts (n i l) (h : headIsText l = false) :
    headIsText (reduceTexts rc n i l) = false := by
  cases l with
  | nil => simp
  | cons k ks =>
    simp at h
    simp [reduceTexts_nontext, h]

theorem mergedKids_reduceTexts (n i l) (h : mergedKids l = true) :
    mergedKids (reduceTexts rc n i l) = true := by
  induction l generalizing i with
  | nil => simp
  | cons k ks ih =>
    cases k with
    | text s =>
      rw [mergedKids_text] at h
      simp at h
      rw [reduceTexts_text]
      split
      · exact ih _ h.2
      · rename_i hr
        rw [mergedKids_text]
        simp [hr, headIsText_reduceTexts rc _ _ _ h.1.2, ih _ h.2]
    | _ =>
      rw [mergedKids_nontext _ _ (by simp)] at h
      simp [reduceTexts_nontext, mergedKids_nontext, ih _ h]

theorem mergedAll_reduceTexts (n i l) (h : mergedAll l = true) :
    mergedAll (reduceTexts rc n i l) = true := by
  induction l generalizing i with
  | nil => simp
  | cons k ks ih =>
    simp at h
    cases k with
    | text s => rw [reduceTexts_text]; split <;> simp [ih _ h.2]
    | _ => simp_all [reduceTexts_nontext]

theorem isText_reduceNode (m k) : (reduceNode rc m k).isText = k.isText := by
  cases k <;> simp [reduceNode_tag]

theorem merged_reduce_all :
    (∀ t, ∀ m, merged t = true → merged (reduceNode rc m t) = true) ∧
    (∀ l, ∀ m, mergedAll l = true → mergedAll (reduceList rc m l) = true ∧
      (mergedKids l = true → mergedKids (reduceList rc m l) = true ∧
        headIsText (reduceList rc m l) = headIsText l)) := by
  apply node_induct
  · intro ns name attrs kids ih m h
    simp at h
    obtain ⟨h1, h2⟩ := ih (directive attrs m) h.2
    obtain ⟨h2, _⟩ := h2 h.1
    rw [reduceNode_tag]
    cases directive attrs m <;>
      simp_all [mergedKids_reduceTexts, mergedAll_reduceTexts]
  · intros; simp
  · intros; simp
  · intros; simp
  · intros; simp
  · intro k ks ihk ihks m h
    simp at h
    obtain ⟨h1, h2⟩ := ihks m h.2
    cases k with
    | text s =>
      rw [reduceList_text]
      split
      · subst_vars
        refine ⟨h1, ?_⟩
        simp [mergedKids_text]
      · refine ⟨by simp [h1], ?_⟩
        rw [mergedKids_text, mergedKids_text]
        intro hm
        simp at hm
        obtain ⟨h3, h4⟩ := h2 hm.2
        simp_all
    | tag ns name attrs kids =>
      rw [reduceList_nontext _ _ _ _ (by simp)]
      refine ⟨by simp only [mergedAll_cons, ihk m h.1, h1, Bool.and_self], ?_⟩
      rw [mergedKids_nontext _ _ (by simp), mergedKids_nontext _ _ (by simp [isText_reduceNode])]
      intro hm
      exact ⟨(h2 hm).1, by simp [isText_reduceNode]⟩
    | _ =>
      simp_all [reduceList_nontext, mergedKids_nontext]

/-! ### idempotence -/

/-- `reduceTexts` with the first/last flags computed structurally instead of by index -/
def reduceTextsF (first : Bool) : List Node → List Node
  | [] => []
  | .text s :: rest =>
    let r := rc s first rest.isEmpty
    if r.isEmpty then reduceTextsF false rest else .text r :: reduceTextsF false rest
  | k :: rest => k :: reduceTextsF false rest

@[simp] theorem reduceTextsF_nil (f) : reduceTextsF rc f [] = [] := by simp [reduceTextsF]
theorem reduceTextsF_text (f s rest) : reduceTextsF rc f (.text s :: rest) =
    if (rc s f rest.isEmpty).isEmpty then reduceTextsF rc false rest
    else .text (rc s f rest.isEmpty) :: reduceTextsF rc false rest := by
  simp [reduceTextsF]
theorem reduceTextsF_nontext (f k rest) (h : k.isText = false) :
    reduceTextsF rc f (k :: rest) = k :: reduceTextsF rc false rest := by
  cases k <;> simp_all [reduceTextsF]

theorem reduceTexts_eq_F (n i l) (h : n = i + l.length) :
    reduceTexts rc n i l = reduceTextsF rc (i == 0) l := by
  induction l generalizing i with
  | nil => simp
  | cons k ks ih =>
    have h' : n = (i + 1) + ks.length := by simp at h; omega
    have hi : ((i + 1) == 0) = false := by simp
    have hl : (i + 1 == n) = ks.isEmpty := by
      cases ks <;> simp at h' ⊢ <;> omega
    cases k with
    | text s => rw [reduceTexts_text, reduceTextsF_text, ih _ h', hi, hl]
    | _ => simp [reduceTexts_nontext, reduceTextsF_nontext, ih _ h', hi]

theorem reduceTextsF_flag (f l) (h : headIsText l = false) :
    reduceTextsF rc f l = reduceTextsF rc false l := by
  cases l with
  | nil => simp
  | cons k ks => simp at h; simp [reduceTextsF_nontext, h]

theorem headIsText_reduceTextsF (f l) (h : headIsText l = false) :
    headIsText (reduceTextsF rc f l) = false := by
  cases l with
  | nil => simp
  | cons k ks => simp at h; simp [reduceTextsF_nontext, h]

theorem isEmpty_reduceTextsF (f l) (h : headIsText l = false) :
    (reduceTextsF rc f l).isEmpty = l.isEmpty := by
  cases l with
  | nil => simp
  | cons k ks => simp at h; simp [reduceTextsF_nontext, h]

theorem reduceTextsF_idem (hrc : ∀ s f l, rc (rc s f l) f l = rc s f l) (f l)
    (h : mergedKids l = true) :
    reduceTextsF rc f (reduceTextsF rc f l) = reduceTextsF rc f l := by
  induction l generalizing f with
  | nil => simp
  | cons k ks ih =>
    cases k with
    | text s =>
      rw [mergedKids_text] at h
      simp at h
      obtain ⟨⟨hs, hh⟩, hm⟩ := h
      rw [reduceTextsF_text]
      split
      · rw [reduceTextsF_flag rc f _ (headIsText_reduceTextsF rc _ _ hh)]
        exact ih false hm
      · rename_i hr
        rw [reduceTextsF_text, isEmpty_reduceTextsF rc _ _ hh, hrc, if_neg hr, ih false hm]
    | _ =>
      rw [mergedKids_nontext _ _ (by simp)] at h
      simp [reduceTextsF_nontext, ih false h]

theorem reduceTexts_idem (hrc : ∀ s f l, rc (rc s f l) f l = rc s f l) (l)
    (h : mergedKids l = true) :
    reduceTexts rc (reduceTexts rc l.length 0 l).length 0 (reduceTexts rc l.length 0 l) =
      reduceTexts rc l.length 0 l := by
  rw [reduceTexts_eq_F rc _ 0 _ (by simp), reduceTexts_eq_F rc _ 0 l (by simp)]
  exact reduceTextsF_idem rc hrc _ l h

theorem mem_reduceTexts (n i l x) (h : x ∈ reduceTexts rc n i l) :
    (∃ s, x = .text s ∧ s ≠ []) ∨ (x.isText = false ∧ x ∈ l) := by
  induction l generalizing i with
  | nil => simp at h
  | cons k ks ih =>
    cases k with
    | text s =>
      rw [reduceTexts_text] at h
      split at h
      · rcases ih _ h with h | h
        · exact Or.inl h
        · exact Or.inr ⟨h.1, by simp [h.2]⟩
      · rename_i hr
        simp at h hr
        rcases h with rfl | h
        · exact Or.inl ⟨_, rfl, hr⟩
        · rcases ih _ h with h | h
          · exact Or.inl h
          · exact Or.inr ⟨h.1, by simp [h.2]⟩
    | _ =>
      rw [reduceTexts_nontext _ _ _ _ _ (by simp)] at h
      simp at h
      rcases h with rfl | h
      · exact Or.inr ⟨by simp, by simp⟩
      · rcases ih _ h with h | h
        · exact Or.inl h
        · exact Or.inr ⟨h.1, by simp [h.2]⟩

theorem reduceList_fixed (m l) (h : ∀ x ∈ l, reduceNode rc m x = x ∧ x ≠ .text []) :
    reduceList rc m l = l := by
  induction l with
  | nil => simp
  | cons k ks ih =>
    have hk := h k (by simp)
    have ih := ih (fun x hx => h x (by simp [hx]))
    cases k with
    | text s =>
      rw [reduceList_text, ih]
      have : s ≠ [] := by intro hs; subst hs; simp at hk
      simp [this]
    | _ =>
      rw [reduceList_nontext _ _ _ _ (by simp), ih, hk.1]

theorem idem_reduce_all (hrc : ∀ s f l, rc (rc s f l) f l = rc s f l) :
    (∀ t, ∀ m, merged t = true → reduceNode rc m (reduceNode rc m t) = reduceNode rc m t) ∧
    (∀ l, ∀ m, mergedAll l = true →
      ∀ x ∈ reduceList rc m l, reduceNode rc m x = x ∧ x ≠ .text []) := by
  apply node_induct
  · intro ns name attrs kids ih m h
    simp at h
    have hk := ((merged_reduce_all rc).2 kids (directive attrs m) h.2).2 h.1
    have ih := ih (directive attrs m) h.2
    rw [reduceNode_tag, reduceNode_tag]
    generalize directive attrs m = m' at *
    generalize reduceList rc m' kids = kids2 at *
    congr 1
    cases m' with
    | preserve => simp [reduceList_fixed rc _ _ ih]
    | default =>
      simp only [finishKids_default]
      have : reduceList rc .default (reduceTexts rc kids2.length 0 kids2) =
          reduceTexts rc kids2.length 0 kids2 := by
        apply reduceList_fixed
        intro x hx
        rcases mem_reduceTexts rc _ _ _ _ hx with ⟨s, rfl, hs⟩ | ⟨_, hx⟩
        · simp [hs]
        · exact ih x hx
      rw [this]
      exact reduceTexts_idem rc hrc _ hk.1
  · intros; simp
  · intros; simp
  · intros; simp
  · intro m _ x hx; simp at hx
  · intro k ks ihk ihks m h x hx
    simp at h
    cases k with
    | text s =>
      rw [reduceList_text] at hx
      split at hx
      · exact ihks m h.2 x hx
      · simp at hx
        rcases hx with rfl | hx
        · simp_all
        · exact ihks m h.2 x hx
    | tag ns name attrs kids =>
      rw [reduceList_nontext _ _ _ _ (by simp)] at hx
      simp only [List.mem_cons] at hx
      rcases hx with rfl | hx
      · exact ⟨ihk m h.1, by simp [reduceNode_tag]⟩
      · exact ihks m h.2 x hx
    | _ =>
      rw [reduceList_nontext _ _ _ _ (by simp)] at hx
      simp at hx
      rcases hx with rfl | hx
      · simp
      · exact ihks m h.2 x hx

/-! ### merge_text_nodes -/

@[simp] theorem mergeKids_nil : mergeKids [] = [] := by simp [mergeKids]
theorem mergeKids_nontext (k rest) (h : k.isText = false) :
    mergeKids (k :: rest) = k :: mergeKids rest := by
  cases k <;> simp_all [mergeKids]

theorem mergedKids_mergeKids (l : List Node) : mergedKids (mergeKids l) = true := by
  induction l with
  | nil => simp
  | cons k ks ih =>
    cases k with
    | text s =>
      rw [mergeKids]
      generalize mergeKids ks = r at ih
      split
      · rename_i t rest'
        rw [mergedKids_text] at ih ⊢
        simp at ih ⊢
        simp [ih]
      · rename_i hnt
        split
        · exact ih
        · rename_i hs
          rw [mergedKids_text]
          simp [hs, ih]
          cases r with
          | nil => rfl
          | cons x xs =>
            cases x with
            | text t => exact absurd rfl (hnt t xs)
            | _ => simp
    | _ => simp [mergeKids_nontext, mergedKids_nontext, ih]

theorem mergedAll_mergeKids (l : List Node) (h : mergedAll l = true) :
    mergedAll (mergeKids l) = true := by
  induction l with
  | nil => simp
  | cons k ks ih =>
    simp at h
    have ih := ih h.2
    cases k with
    | text s =>
      rw [mergeKids]
      generalize mergeKids ks = r at ih
      split
      · simp_all
      · split
        · exact ih
        · simp [ih]
    | _ => simp_all [mergeKids_nontext]

theorem mergeNode_tag (ns name attrs kids) :
    mergeNode (.tag ns name attrs kids) = .tag ns name attrs (mergeKids (mergeList kids)) := by
  simp [mergeNode]

theorem merged_merge_all :
    (∀ t, merged (mergeNode t) = true) ∧ (∀ l, mergedAll (mergeList l) = true) := by
  apply node_induct
  · intro ns name attrs kids ih
    rw [mergeNode_tag]
    simp [mergedKids_mergeKids, mergedAll_mergeKids _ ih]
  · intros; simp [mergeNode]
  · intros; simp [mergeNode]
  · intros; simp [mergeNode]
  · simp [mergeList]
  · intro k ks ihk ihks
    simp [mergeList, ihk, ihks]

end Delb.WS

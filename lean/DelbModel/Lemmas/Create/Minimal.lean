import DelbModel.Lemmas.Create.Main
import DelbModel.Lemmas.Create.Untouched
/-!
# C15 helper lemmas: what `_create_by_xpath` adds is one minimal chain

The loop of `_create_by_xpath` has two phases.  As long as a step selects exactly one node the tree stays
as it is (`Walk`); the first step without a match makes a node below the current one, and from then on
every step is evaluated at a node without children, hence creates (`createSteps_chain`).  The outcome is
the old tree with one subtree `nodeFor … (branch …)` inserted below the end of the walk
(`createSteps_shape`).  The rest of the file reads the shape, the identities, the names and the attributes
off `branch`.
-/
namespace Delb.XPath
open Delb.Edit

/-! ## vocabulary of the statements -/

/-- the node a path is evaluated from -/
def startOf (ctx : List Nat) (p : Path) : XNode := if p.absolute then .doc else .at ctx

/-- `root'` is `root` with the one subtree `B` put among the children of the tag node at `d`, at index `i`,
    which is where `append_children` puts a node (`appendIndex`) -/
def AddedBelow (root root' : PTree) (d : List Nat) (i : Nat) (B : PTree) : Prop :=
  ∃ id ns nm a ks, getAtP root d = some (.tag id ns nm a ks) ∧ i = appendIndex ks ∧
    getAtP root' d = some (.tag id ns nm a (ks.take i ++ B :: ks.drop i)) ∧
    modifyAtP (insertKid i B) root d = .ok root'

/-- the child list `ks` is a branch without ramification of `k` tag nodes with the identities `n`, `n+1`, …:
    `ks` has one member, a tag node, whose child list is such a branch of `k-1` nodes; `k = 0`: no child -/
def IsChainKids : Nat → Nat → List PTree → Prop
  | _, 0, ks => ks = []
  | n, k + 1, ks => ∃ ns nm a ks', ks = [.tag n ns nm a ks'] ∧ IsChainKids (n + 1) k ks'

/-- the attribute `_create_by_xpath` sets for a derived attribute (prefix or `[]`, local name, value) -/
def derivedAttr (envC : NsEnv) (t : Str × Str × Str) : Attr :=
  { ns := attrNsOf envC t.1, name := showS t.2.1, value := t.2.2 }

/-- a tag node with namespace `ns`, local name `nm` and attributes `attrs` is what the step `s` asks for:
    the local name of the name test, the namespace its prefix stands for in `envC` (no prefix: the
    default namespace, none declared: no namespace), and the attributes derived from the predicates -
    no others, no expanded name twice, every derived expanded name present, and with the derived value
    when the equalities of the step do not contradict each other -/
def StepNode (envC : NsEnv) (s : Step) (ns nm : String) (attrs : List Attr) : Prop :=
  (∃ pfx l, s.test = .name pfx l ∧ nm = showS l ∧
    ns = (Ser.dget envC (match pfx with | some p => showS p | none => "")).getD "") ∧
  (∀ a ∈ attrs, ∃ t ∈ stepAttrs s, a = derivedAttr envC t) ∧
  (attrs.map (fun a => (a.ns, a.name))).Nodup ∧
  (∀ t ∈ stepAttrs s, ∃ a ∈ attrs, a.ns = attrNsOf envC t.1 ∧ a.name = showS t.2.1) ∧
  (consistentStepIn envC s → ∀ t ∈ stepAttrs s, derivedAttr envC t ∈ attrs)

/-- the branch `ks` (a child list) has one tag node per step of `ss`, top-down, each as the step asks for and
    with no child besides the next one -/
def ChainFits (envC : NsEnv) : List Step → List PTree → Prop
  | [], ks => ks = []
  | s :: ss, ks => ∃ id ns nm a ks', ks = [.tag id ns nm a ks'] ∧ StepNode envC s ns nm a ∧ ChainFits envC ss ks'

/-! ## what the loop builds -/

/-- the node made for `s` with the children `ks` -/
def nodeFor (envC : NsEnv) (id : Nat) (s : Step) (ks : List PTree) : PTree :=
  match newNodeFor envC id s with
  | some t => t.setKids ks
  | none => .tag id "" "" [] ks

/-- the chain made for the steps `ss`, as a child list -/
def branch (envC : NsEnv) : Nat → List Step → List PTree
  | _, [] => []
  | id, s :: rest => [nodeFor envC id s (branch envC (id + 1) rest)]

/-- every step of the list selects exactly one node, from `cur` down to `d` -/
inductive Walk (root : PTree) (env : NsEnv) : XNode → List Step → XNode → Prop
  | nil (cur : XNode) : Walk root env cur [] cur
  | cons {cur c d : XNode} {s : Step} {ss : List Step} : evalStep root env s [] [cur] = .ok [c] →
      Walk root env c ss d → Walk root env cur (s :: ss) d

/-! ## evaluation -/

theorem evalSteps_no_nodes (root : PTree) (env : NsEnv) : ∀ ss : List Step, evalSteps root env ss [] = .ok []
  | [] => rfl
  | s :: ss => by simp only [evalSteps, evalStep]; exact evalSteps_no_nodes root env ss

theorem evalSteps_append (root : PTree) (env : NsEnv) (a b : List Step) (ns : List XNode) :
    evalSteps root env (a ++ b) ns =
      match evalSteps root env a ns with
      | .error e => .error e
      | .ok r => evalSteps root env b r := by
  induction a generalizing ns with
  | nil => rfl
  | cons s a ih =>
    simp only [List.cons_append, evalSteps]
    cases evalStep root env s [] ns with
    | error e => rfl
    | ok r => exact ih r

theorem Walk.evalSteps {root : PTree} {env : NsEnv} {cur d : XNode} {ss : List Step}
    (w : Walk root env cur ss d) : evalSteps root env ss [cur] = .ok [d] := by
  induction w with
  | nil cur => rfl
  | cons h _ ih => simp only [Delb.XPath.evalSteps, h]; exact ih

theorem Walk.take {root : PTree} {env : NsEnv} {cur d : XNode} {ss : List Step}
    (w : Walk root env cur ss d) : ∀ j, ∃ c, Walk root env cur (ss.take j) c := by
  induction w with
  | nil cur => intro j; exact ⟨cur, by simpa using Walk.nil cur⟩
  | cons h _ ih =>
    intro j
    cases j with
    | zero => exact ⟨_, by simpa using Walk.nil _⟩
    | succ j =>
      obtain ⟨c, hc⟩ := ih j
      exact ⟨c, by simpa using Walk.cons h hc⟩

theorem applyPreds_no_cands (root : PTree) (env : NsEnv) : ∀ ps : List Expr, applyPreds root env ps [] = .ok []
  | [] => rfl
  | p :: ps => by simp only [applyPreds, filterPred]; exact applyPreds_no_cands root env ps

/-- a child step at a node without children selects nothing (and looks at no prefix) -/
theorem evalStep_no_kids (root : PTree) (env : NsEnv) (s : Step) (q : List Nat) (hax : s.axis = "child")
    (hk : kidsCount root q = 0) : evalStep root env s [] [.at q] = .ok [] := by
  have h1 : evalStepAt root env s (.at q) = .ok [] := by
    simp only [evalStepAt, hax, axisNodes_child, childNodes, hk, List.range_zero, List.map_nil, filterTest,
      applyPreds_no_cands]
  simp only [evalStep, h1, addNew]

/-! ## `modifyAtP` -/

theorem modifyAtP_congr_at (f g : PTree → Except EditErr PTree) : ∀ (p : List Nat) (root t : PTree),
    getAtP root p = some t → f t = g t → modifyAtP f root p = modifyAtP g root p := by
  intro p
  induction p with
  | nil =>
    intro root t hg hfg
    simp only [getAtP, Option.some.injEq] at hg
    subst hg
    simpa [modifyAtP] using hfg
  | cons k p ih =>
    intro root t hg hfg
    cases root with
    | tag id ns nm a ks =>
      simp only [getAtP] at hg
      cases hc : ks[k]? with
      | none => simp [hc] at hg
      | some c =>
        simp only [hc] at hg
        simp only [modifyAtP, hc, ih c t hg hfg]
    | text id s => simp [getAtP] at hg
    | comment id s => simp [getAtP] at hg
    | pi id t s => simp [getAtP] at hg

/-- two edits, the second one at or below the address of the first, are one edit -/
theorem modifyAtP_comp (f g : PTree → Except EditErr PTree) (p : List Nat) : ∀ (q : List Nat) (root root2 : PTree),
    modifyAtP f root q = .ok root2 →
    modifyAtP g root2 (q ++ p) =
      modifyAtP (fun t => match f t with
        | .ok t' => modifyAtP g t' p
        | .error e => .error e) root q := by
  intro q
  induction q with
  | nil =>
    intro root root2 h
    simp only [modifyAtP] at h
    simp only [List.nil_append, modifyAtP, h]
  | cons k q ih =>
    intro root root2 h
    cases root with
    | tag id ns nm a ks =>
      simp only [modifyAtP] at h
      split at h
      · cases h
      · rename_i c hc
        split at h
        · cases h
        · rename_i c' hc'
          simp only [Except.ok.injEq] at h
          subst h
          have hk : k < ks.length := by
            rcases Nat.lt_or_ge k ks.length with hlt | hge
            · exact hlt
            · rw [List.getElem?_eq_none hge] at hc; cases hc
          have e1 : (ks.set k c')[k]? = some c' := by simp [hk]
          simp only [List.cons_append, modifyAtP, e1, hc, ih c c' hc']
          split <;> simp [List.set_set]
    | text id s => simp [modifyAtP] at h
    | comment id s => simp [modifyAtP] at h
    | pi id t s => simp [modifyAtP] at h

theorem set_self_of_getElem? {α} (ks : List α) (k : Nat) (c : α) (h : ks[k]? = some c) : ks.set k c = ks := by
  apply List.ext_getElem?
  intro j
  by_cases hj : k = j
  · subst hj
    rw [List.getElem?_set_self (by
      rcases Nat.lt_or_ge k ks.length with hlt | hge
      · exact hlt
      · rw [List.getElem?_eq_none hge] at h; cases h), h]
  · rw [List.getElem?_set_ne hj]

theorem modifyAtP_const_self : ∀ (q : List Nat) (root t : PTree), getAtP root q = some t →
    modifyAtP (fun _ => .ok t) root q = .ok root := by
  intro q
  induction q with
  | nil =>
    intro root t h
    simp only [getAtP, Option.some.injEq] at h
    simp [modifyAtP, h]
  | cons k q ih =>
    intro root t h
    cases root with
    | tag id ns nm a ks =>
      simp only [getAtP] at h
      cases hc : ks[k]? with
      | none => simp [hc] at h
      | some c =>
        simp only [hc] at h
        simp only [modifyAtP, hc, ih c t h]
        congr 2
        exact set_self_of_getElem? ks k c hc
    | text id s => simp [getAtP] at h
    | comment id s => simp [getAtP] at h
    | pi id t s => simp [getAtP] at h

theorem set_insert {α} (ks : List α) (i : Nat) (x y : α) (hi : i ≤ ks.length) :
    (ks.take i ++ x :: ks.drop i).set i y = ks.take i ++ y :: ks.drop i := by
  have hlen : (ks.take i).length = i := by simp [List.length_take]; omega
  rw [List.set_append_right _ _ (by omega), hlen]
  simp

/-! ## the nodes the loop makes -/

theorem locatable_of_ok' {root root' : PTree} {n n' : Nat} {envQ envC : NsEnv} {ctx : List Nat} {x : XExpr}
    {r : XNode} (h : fetchOrCreate root n envQ envC ctx x = .ok (root', r, n')) : locatable x = true := by
  cases hloc : locatable x with
  | true => rfl
  | false => simp [fetchOrCreate, hloc] at h

theorem stepLocatable_axis {s : Step} (h : stepLocatable s = true) : s.axis = "child" := by
  simp only [stepLocatable, Bool.and_eq_true, beq_iff_eq] at h
  exact h.1.1

theorem stepLocatable_test {s : Step} (h : stepLocatable s = true) : ∃ pfx l, s.test = .name pfx l := by
  simp only [stepLocatable, Bool.and_eq_true] at h
  cases ht : s.test <;> simp [ht, isNameTest] at h
  exact ⟨_, _, rfl⟩

theorem newNodeFor_shape {envC : NsEnv} {id : Nat} {s : Step} {new : PTree} (h : newNodeFor envC id s = some new) :
    ∃ ns nm a, new = .tag id ns nm a [] := by
  unfold newNodeFor at h
  split at h
  · simp only [Option.some.injEq] at h
    exact ⟨_, _, _, h.symm⟩
  · cases h

theorem nodeFor_of_new {envC : NsEnv} {id : Nat} {s : Step} {ns nm : String} {a : List Attr}
    (h : newNodeFor envC id s = some (.tag id ns nm a [])) (ks : List PTree) :
    nodeFor envC id s ks = .tag id ns nm a ks := by
  simp [nodeFor, h, PTree.setKids]

theorem appendIndex_nil : appendIndex [] = 0 := rfl

/-- second phase: below a node without children every step makes a node -/
theorem createSteps_chain (envC : NsEnv) : ∀ (rest : List Step) (root1 : PTree) (id : Nat) (q : List Nat)
    (i : Nat) (ns nm : String) (a : List Attr) (root' : PTree) (r : XNode) (n' : Nat),
    (∀ s ∈ rest, stepLocatable s = true) → getAtP root1 q = some (.tag i ns nm a []) →
    createSteps envC root1 id (.at q) rest = .ok (root', r, n') →
    modifyAtP (fun _ => .ok (.tag i ns nm a (branch envC id rest))) root1 q = .ok root' ∧
      r = .at (q ++ List.replicate rest.length 0) ∧ n' = id + rest.length := by
  intro rest
  induction rest with
  | nil =>
    intro root1 id q i ns nm a root' r n' _ hg h
    simp only [createSteps, Except.ok.injEq, Prod.mk.injEq] at h
    obtain ⟨rfl, rfl, rfl⟩ := h
    exact ⟨modifyAtP_const_self q root1 _ hg, by simp, rfl⟩
  | cons s rest ih =>
    intro root1 id q i ns nm a root' r n' hall hg h
    have hloc := hall s (List.mem_cons_self ..)
    have hE : evalStep root1 envC s [] [.at q] = .ok [] :=
      evalStep_no_kids root1 envC s q (stepLocatable_axis hloc) (by simp [kidsCount, hg, PTree.kids])
    simp only [createSteps, hE] at h
    cases hnn : newNodeFor envC id s with
    | none => simp [hnn] at h
    | some new =>
      simp only [hnn] at h
      obtain ⟨ns', nm', a', rfl⟩ := newNodeFor_shape hnn
      cases hap : appendChildAt root1 q (.tag id ns' nm' a' []) with
      | error e => simp [hap] at h
      | ok root2 =>
        simp only [hap, hg, PTree.kids, appendIndex_nil] at h
        obtain ⟨_, _, _, _, _, hg0, _, hg1, _⟩ := appendChildAt_spec root1 root2 q _ hap
        rw [hg] at hg0
        simp only [Option.some.injEq, PTree.tag.injEq] at hg0
        obtain ⟨rfl, rfl, rfl, rfl, rfl⟩ := hg0
        simp only [appendIndex_nil, List.take_nil, List.drop_nil, List.nil_append] at hg1
        have hg2 : getAtP root2 (q ++ [0]) = some (.tag id ns' nm' a' []) := by
          simp [getAtP_append, hg1, getAtP_single, PTree.kids]
        obtain ⟨h1, h2, h3⟩ := ih root2 (id + 1) (q ++ [0]) id ns' nm' a' root' r n'
          (fun x hx => hall x (List.mem_cons_of_mem _ hx)) hg2 h
        have hap' : modifyAtP (fun _ => .ok (.tag i ns nm a [.tag id ns' nm' a' []])) root1 q = .ok root2 := by
          rw [← hap]
          unfold appendChildAt
          apply modifyAtP_congr_at _ _ q root1 _ hg
          simp [insertKid, PTree.kids, appendIndex_nil]
        refine ⟨?_, by rw [h2]; simp [List.replicate_succ], by simp only [List.length_cons]; omega⟩
        rw [modifyAtP_comp _ _ [0] q root1 root2 hap'] at h1
        rw [← h1]
        apply modifyAtP_congr_at _ _ q root1 _ hg
        simp [modifyAtP, branch, nodeFor_of_new hnn]

theorem appendIndex_le_of_ok {root root1 : PTree} {p : List Nat} {new : PTree} {id : Nat} {ns nm : String}
    {a : List Attr} {ks : List PTree} (hap : appendChildAt root p new = .ok root1)
    (hg : getAtP root p = some (.tag id ns nm a ks)) : appendIndex ks ≤ ks.length := by
  obtain ⟨_, _, _, _, _, hg0, hle, _, _⟩ := appendChildAt_spec root root1 p new hap
  rw [hg] at hg0
  simp only [Option.some.injEq, PTree.tag.injEq] at hg0
  obtain ⟨rfl, rfl, rfl, rfl, rfl⟩ := hg0
  exact hle

/-- the loop: a walk along single matches, then one subtree is put below its end -/
theorem createSteps_shape (envC : NsEnv) : ∀ (steps : List Step) (root : PTree) (n : Nat) (cur : XNode)
    (root' : PTree) (r : XNode) (n' : Nat), (∀ s ∈ steps, stepLocatable s = true) →
    createSteps envC root n cur steps = .ok (root', r, n') →
    ∃ matched missing d, steps = matched ++ missing ∧ Walk root envC cur matched d ∧
      ((missing = [] ∧ root' = root ∧ r = d ∧ n' = n) ∨
       (∃ s rest dp id ns nm a ks, missing = s :: rest ∧ d = .at dp ∧ evalStep root envC s [] [.at dp] = .ok [] ∧
          getAtP root dp = some (.tag id ns nm a ks) ∧ appendIndex ks ≤ ks.length ∧
          modifyAtP (insertKid (appendIndex ks) (nodeFor envC n s (branch envC (n + 1) rest))) root dp = .ok root' ∧
          r = .at (dp ++ appendIndex ks :: List.replicate rest.length 0) ∧ n' = n + (rest.length + 1))) := by
  intro steps
  induction steps with
  | nil =>
    intro root n cur root' r n' _ h
    simp only [createSteps, Except.ok.injEq, Prod.mk.injEq] at h
    obtain ⟨rfl, rfl, rfl⟩ := h
    exact ⟨[], [], cur, rfl, Walk.nil cur, .inl ⟨rfl, rfl, rfl, rfl⟩⟩
  | cons s rest ih =>
    intro root n cur root' r n' hall h
    have hall' : ∀ x ∈ rest, stepLocatable x = true := fun x hx => hall x (List.mem_cons_of_mem _ hx)
    cases hE : evalStep root envC s [] [cur] with
    | error e => simp [createSteps, hE] at h
    | ok l =>
      match l, hE with
      | [], hE =>
        simp only [createSteps, hE] at h
        cases cur with
        | doc => simp at h
        | «at» p =>
          simp only at h
          cases hnn : newNodeFor envC n s with
          | none => simp [hnn] at h
          | some new =>
            simp only [hnn] at h
            obtain ⟨ns', nm', a', rfl⟩ := newNodeFor_shape hnn
            cases hap : appendChildAt root p (.tag n ns' nm' a' []) with
            | error e => simp [hap] at h
            | ok root1 =>
              simp only [hap] at h
              obtain ⟨id, ns, nm, a, ks, hg, hi, hg1, _⟩ := appendChildAt_spec root root1 p _ hap
              simp only [hg, PTree.kids] at h
              have hlen : (ks.take (appendIndex ks)).length = appendIndex ks := by
                simp [List.length_take]; omega
              have hg2 : getAtP root1 (p ++ [appendIndex ks]) = some (.tag n ns' nm' a' []) := by
                simp only [getAtP_append, hg1, Option.bind_some, getAtP_single, PTree.kids]
                rw [List.getElem?_append_right (by omega), hlen]
                simp
              obtain ⟨h1, h2, h3⟩ := createSteps_chain envC rest root1 (n + 1) (p ++ [appendIndex ks]) n ns' nm' a'
                root' r n' hall' hg2 h
              refine ⟨[], s :: rest, .at p, rfl, Walk.nil _, .inr ⟨s, rest, p, id, ns, nm, a, ks, rfl, rfl, hE, hg, hi,
                ?_, by rw [h2]; simp, by omega⟩⟩
              unfold appendChildAt at hap
              rw [modifyAtP_comp _ _ [appendIndex ks] p root root1 hap] at h1
              rw [← h1]
              apply modifyAtP_congr_at _ _ p root _ hg
              simp only [insertKid, PTree.kids, hi, if_true, modifyAtP]
              have e1 : (ks.take (appendIndex ks) ++ PTree.tag n ns' nm' a' [] :: ks.drop (appendIndex ks))[appendIndex ks]? =
                  some (.tag n ns' nm' a' []) := by
                rw [List.getElem?_append_right (by omega), hlen]; simp
              simp only [e1, set_insert _ _ _ _ hi, nodeFor_of_new hnn]
      | [c], hE =>
        simp only [createSteps, hE] at h
        obtain ⟨matched, missing, d, e, w, hrest⟩ := ih root n c root' r n' hall' h
        exact ⟨s :: matched, missing, d, by rw [e]; rfl, Walk.cons hE w, hrest⟩
      | _ :: _ :: _, hE => simp [createSteps, hE] at h

/-! ## reading the chain off `branch` -/

theorem nodeFor_eq (envC : NsEnv) (id : Nat) (s : Step) (pfx : Option Str) (l : Str) (ht : s.test = .name pfx l)
    (ks : List PTree) :
    nodeFor envC id s ks = .tag id ((Ser.dget envC (pfxKey pfx)).getD "") (showS l)
      (((stepAttrs s).map (toAttr envC)).foldl setAttr []) ks := by
  simp [nodeFor, newNodeFor_eq envC id s pfx l ht, PTree.setKids]

theorem branch_isChain (envC : NsEnv) : ∀ (ss : List Step) (id : Nat), (∀ s ∈ ss, stepLocatable s = true) →
    IsChainKids id ss.length (branch envC id ss)
  | [], _, _ => rfl
  | s :: ss, id, h => by
    obtain ⟨pfx, l, ht⟩ := stepLocatable_test (h s (List.mem_cons_self ..))
    exact ⟨_, _, _, _, by rw [branch, nodeFor_eq envC id s pfx l ht],
      branch_isChain envC ss (id + 1) (fun x hx => h x (List.mem_cons_of_mem _ hx))⟩

theorem mem_idsOfList_branch (envC : NsEnv) : ∀ (ss : List Step) (id : Nat), (∀ s ∈ ss, stepLocatable s = true) →
    ∀ x, x ∈ Clone.idsOfList (branch envC id ss) ↔ id ≤ x ∧ x < id + ss.length
  | [], id, _, x => by simp [branch, Clone.idsOfList]
  | s :: ss, id, h, x => by
    obtain ⟨pfx, l, ht⟩ := stepLocatable_test (h s (List.mem_cons_self ..))
    have ih := mem_idsOfList_branch envC ss (id + 1) (fun x hx => h x (List.mem_cons_of_mem _ hx)) x
    simp only [branch, nodeFor_eq envC id s pfx l ht, Clone.idsOfList, Clone.idsOf, List.append_nil, List.mem_cons, ih,
      List.length_cons]
    omega

/-! ### attributes -/

theorem mem_setAttr {attrs : List Attr} {a b : Attr} (h : b ∈ setAttr attrs a) : b ∈ attrs ∨ b = a := by
  unfold setAttr at h
  split at h
  · obtain ⟨c, hc, e⟩ := List.mem_map.1 h
    split at e
    · exact .inr e.symm
    · exact .inl (e ▸ hc)
  · rcases List.mem_append.1 h with h | h
    · exact .inl h
    · exact .inr (List.mem_singleton.1 h)

theorem mem_foldl_setAttr {L acc : List Attr} {b : Attr} (h : b ∈ L.foldl setAttr acc) : b ∈ acc ∨ b ∈ L := by
  induction L generalizing acc with
  | nil => exact .inl h
  | cons x rest ih =>
    rcases ih h with h | h
    · rcases mem_setAttr h with h | h
      · exact .inl h
      · exact .inr (h ▸ List.mem_cons_self ..)
    · exact .inr (List.mem_cons_of_mem _ h)

def attrKey (a : Attr) : String × String := (a.ns, a.name)

theorem keys_setAttr (attrs : List Attr) (a : Attr) (h : (attrs.map attrKey).Nodup) :
    ((setAttr attrs a).map attrKey).Nodup := by
  unfold setAttr
  split
  · have e : (attrs.map (fun b => if b.ns == a.ns && b.name == a.name then a else b)).map attrKey = attrs.map attrKey := by
      rw [List.map_map]
      apply List.map_congr_left
      intro b _
      simp only [Function.comp]
      split
      · rename_i hb
        simp only [Bool.and_eq_true, beq_iff_eq] at hb
        simp [attrKey, hb.1, hb.2]
      · rfl
    rw [e]; exact h
  · rename_i hany
    rw [List.map_append, List.nodup_append]
    refine ⟨h, by simp, ?_⟩
    intro k hk k' hk' e
    simp only [List.map_cons, List.map_nil, List.mem_singleton] at hk'
    subst hk' e
    obtain ⟨b, hb, e⟩ := List.mem_map.1 hk
    apply hany
    rw [List.any_eq_true]
    refine ⟨b, hb, ?_⟩
    simp only [attrKey, Prod.mk.injEq] at e
    simp [e.1, e.2]

theorem keys_foldl_setAttr (L acc : List Attr) (h : (acc.map attrKey).Nodup) :
    ((L.foldl setAttr acc).map attrKey).Nodup := by
  induction L generalizing acc with
  | nil => exact h
  | cons x rest ih => exact ih _ (keys_setAttr acc x h)

theorem lookup_isSome_foldl (L : List Attr) (ns name : String) (acc : List Attr)
    (h : (∃ a ∈ L, a.ns = ns ∧ a.name = name) ∨ (lookupAttrVal acc ns name).isSome = true) :
    (lookupAttrVal (L.foldl setAttr acc) ns name).isSome = true := by
  induction L generalizing acc with
  | nil =>
    rcases h with ⟨a, ha, _⟩ | h
    · cases ha
    · exact h
  | cons x rest ih =>
    simp only [List.foldl_cons]
    apply ih
    by_cases hx : x.ns = ns ∧ x.name = name
    · right; rw [lookup_setAttr, if_pos hx]; rfl
    · rcases h with ⟨a, ha, hk⟩ | h
      · rcases List.mem_cons.1 ha with rfl | ha
        · exact absurd hk hx
        · exact .inl ⟨a, ha, hk⟩
      · right; rw [lookup_setAttr, if_neg hx]; exact h

theorem mem_of_lookup {attrs : List Attr} {ns name : String} {v : Str} (h : lookupAttrVal attrs ns name = some v) :
    ({ ns := ns, name := name, value := v } : Attr) ∈ attrs := by
  unfold lookupAttrVal at h
  cases hf : attrs.find? (fun a => a.ns == ns && a.name == name) with
  | none => simp [hf] at h
  | some a =>
    simp only [hf, Option.map_some, Option.some.injEq] at h
    have hm := List.mem_of_find?_eq_some hf
    have hp := List.find?_some hf
    simp only [Bool.and_eq_true, beq_iff_eq] at hp
    cases a
    simp only at hp h
    rw [← hp.1, ← hp.2, ← h]
    exact hm

theorem toAttr_eq_derivedAttr (envC : NsEnv) : toAttr envC = derivedAttr envC := rfl

theorem stepNode_new (envC : NsEnv) (s : Step) (pfx : Option Str) (l : Str) (ht : s.test = .name pfx l) :
    StepNode envC s ((Ser.dget envC (pfxKey pfx)).getD "") (showS l)
      (((stepAttrs s).map (toAttr envC)).foldl setAttr []) := by
  refine ⟨⟨pfx, l, ht, rfl, by cases pfx <;> rfl⟩, ?_, ?_, ?_, ?_⟩
  · intro a ha
    rcases mem_foldl_setAttr ha with h | h
    · cases h
    · obtain ⟨t, ht', e⟩ := List.mem_map.1 h
      exact ⟨t, ht', e.symm⟩
  · exact keys_foldl_setAttr _ [] (by simp)
  · intro t ht'
    have := lookup_isSome_foldl ((stepAttrs s).map (toAttr envC)) (attrNsOf envC t.1) (showS t.2.1) []
      (.inl ⟨toAttr envC t, List.mem_map.2 ⟨t, ht', rfl⟩, rfl, rfl⟩)
    obtain ⟨v, hv⟩ := Option.isSome_iff_exists.1 this
    exact ⟨_, mem_of_lookup hv, rfl, rfl⟩
  · intro hc t ht'
    exact mem_of_lookup (newAttrs_lookup envC s hc t ht')

theorem branch_fits (envC : NsEnv) : ∀ (ss : List Step) (id : Nat), (∀ s ∈ ss, stepLocatable s = true) →
    ChainFits envC ss (branch envC id ss)
  | [], _, _ => rfl
  | s :: ss, id, h => by
    obtain ⟨pfx, l, ht⟩ := stepLocatable_test (h s (List.mem_cons_self ..))
    exact ⟨_, _, _, _, _, by rw [branch, nodeFor_eq envC id s pfx l ht], stepNode_new envC s pfx l ht,
      branch_fits envC ss (id + 1) (fun x hx => h x (List.mem_cons_of_mem _ hx))⟩

/-! ## identities -/

theorem idsOfList_append (A B : List PTree) :
    Clone.idsOfList (A ++ B) = Clone.idsOfList A ++ Clone.idsOfList B := by
  induction A with
  | nil => simp [Clone.idsOfList]
  | cons k ks ih => simp [Clone.idsOfList, ih]

theorem mem_idsOfList_set (P : Nat → Prop) (c c' : PTree)
    (hcc : ∀ x, x ∈ Clone.idsOf c' ↔ x ∈ Clone.idsOf c ∨ P x) : ∀ (ks : List PTree) (k : Nat), ks[k]? = some c →
    ∀ x, x ∈ Clone.idsOfList (ks.set k c') ↔ x ∈ Clone.idsOfList ks ∨ P x := by
  intro ks
  induction ks with
  | nil => intro k h; simp at h
  | cons y ys ih =>
    intro k h x
    cases k with
    | zero =>
      simp only [List.getElem?_cons_zero, Option.some.injEq] at h
      subst h
      simp only [List.set_cons_zero, Clone.idsOfList, List.mem_append, hcc]
      constructor
      · rintro ((h | h) | h)
        · exact .inl (.inl h)
        · exact .inr h
        · exact .inl (.inr h)
      · rintro ((h | h) | h)
        · exact .inl (.inl h)
        · exact .inr h
        · exact .inl (.inr h)
    | succ k =>
      simp only [List.getElem?_cons_succ] at h
      simp only [List.set_cons_succ, Clone.idsOfList, List.mem_append, ih k h x]
      constructor
      · rintro (h | h | h)
        · exact .inl (.inl h)
        · exact .inl (.inr h)
        · exact .inr h
      · rintro ((h | h) | h)
        · exact .inl h
        · exact .inr (.inl h)
        · exact .inr (.inr h)

/-- the identities after one subtree was put in: the old ones and those of the subtree -/
theorem mem_idsOf_insert (i : Nat) (B : PTree) : ∀ (d : List Nat) (root root' : PTree),
    modifyAtP (insertKid i B) root d = .ok root' →
    ∀ x, x ∈ Clone.idsOf root' ↔ x ∈ Clone.idsOf root ∨ x ∈ Clone.idsOf B := by
  intro d
  induction d with
  | nil =>
    intro root root' h x
    simp only [modifyAtP] at h
    obtain ⟨id, ns, nm, a, ks, rfl, _, rfl⟩ := insertKid_spec _ _ _ _ h
    simp only [Clone.idsOf, idsOfList_append, Clone.idsOfList, List.mem_cons, List.mem_append]
    conv => rhs; rw [← List.take_append_drop i ks, idsOfList_append, List.mem_append]
    constructor
    · rintro (h | h | h | h)
      · exact .inl (.inl h)
      · exact .inl (.inr (.inl h))
      · exact .inr h
      · exact .inl (.inr (.inr h))
    · rintro ((h | h | h) | h)
      · exact .inl h
      · exact .inr (.inl h)
      · exact .inr (.inr (.inr h))
      · exact .inr (.inr (.inl h))
  | cons k d ih =>
    intro root root' h x
    cases root with
    | tag id ns nm a ks =>
      simp only [modifyAtP] at h
      split at h
      · cases h
      · rename_i c hc
        split at h
        · cases h
        · rename_i c' hc'
          simp only [Except.ok.injEq] at h
          subst h
          simp only [Clone.idsOf, List.mem_cons,
            mem_idsOfList_set (fun x => x ∈ Clone.idsOf B) c c' (ih c c' hc') ks k hc x]
          constructor
          · rintro (h | h | h)
            · exact .inl (.inl h)
            · exact .inl (.inr h)
            · exact .inr h
          · rintro ((h | h) | h)
            · exact .inl h
            · exact .inr (.inl h)
            · exact .inr (.inr h)
    | text id s => simp [modifyAtP] at h
    | comment id s => simp [modifyAtP] at h
    | pi id t s => simp [modifyAtP] at h

/-! ## where `append_children` puts the node -/

def tagOrText (t : PTree) : Bool := t.isTag || t.isText

theorem appendIndex_go_spec : ∀ (ks : List PTree) (i : Nat) (best : Option Nat),
    ((∀ x ∈ ks, tagOrText x = false) ∧ appendIndex.go i best ks = best) ∨
    (∃ j x, ks[j]? = some x ∧ tagOrText x = true ∧ (∀ y ∈ ks.drop (j + 1), tagOrText y = false) ∧
      appendIndex.go i best ks = some (i + j + 1)) := by
  intro ks
  induction ks with
  | nil => intro i best; exact .inl ⟨by simp, rfl⟩
  | cons k rest ih =>
    intro i best
    simp only [appendIndex.go]
    rcases ih (i + 1) (if k.isTag || k.isText then some (i + 1) else best) with ⟨h1, h2⟩ | ⟨j, x, h1, h2, h3, h4⟩
    · by_cases hk : tagOrText k = true
      · right
        refine ⟨0, k, rfl, hk, by simpa using h1, ?_⟩
        rw [h2]
        simp only [tagOrText] at hk
        simp [hk]
      · left
        have hk' : tagOrText k = false := by simpa using hk
        refine ⟨?_, ?_⟩
        · intro x hx
          rcases List.mem_cons.1 hx with rfl | hx
          · exact hk'
          · exact h1 x hx
        · rw [h2]
          simp only [tagOrText] at hk'
          simp [hk']
    · right
      refine ⟨j + 1, x, by simpa using h1, h2, by simpa using h3, ?_⟩
      rw [h4]
      congr 1
      omega

/-- the index `append_children` inserts at: directly behind the last tag or text child (everything
    behind it is a comment or a processing instruction), at the very end when there is no such child -/
theorem appendIndex_spec (ks : List PTree) :
    appendIndex ks ≤ ks.length ∧
    (∀ y ∈ ks.drop (appendIndex ks), y.isTag = false ∧ y.isText = false) ∧
    (appendIndex ks = ks.length ∨
      ∃ x, 0 < appendIndex ks ∧ ks[appendIndex ks - 1]? = some x ∧ (x.isTag || x.isText) = true) := by
  unfold appendIndex
  rcases appendIndex_go_spec ks 0 none with ⟨_, h2⟩ | ⟨j, x, h1, h2, h3, h4⟩
  · rw [h2]
    simp
  · rw [h4]
    have hj : j < ks.length := by
      rcases Nat.lt_or_ge j ks.length with hlt | hge
      · exact hlt
      · rw [List.getElem?_eq_none hge] at h1; cases h1
    simp only [Option.getD_some, Nat.zero_add]
    refine ⟨hj, ?_, .inr ⟨x, by omega, by simpa using h1, h2⟩⟩
    intro y hy
    have := h3 y hy
    simpa [tagOrText] using this

/-! ## the call -/

/-- a successful call that used up identities went through the loop, and the loop made a chain -/
theorem fetchOrCreate_created (root root' : PTree) (n n' : Nat) (envQ envC : NsEnv) (ctx : List Nat) (p : Path)
    (r : XNode) (h : fetchOrCreate root n envQ envC ctx [p] = .ok (root', r, n')) (hcr : n' ≠ n) :
    (∀ s ∈ p.steps, stepLocatable s = true) ∧
    ∃ matched s rest d, p.steps = matched ++ s :: rest ∧ n' = n + (rest.length + 1) ∧
      Walk root envC (startOf ctx p) matched (.at d) ∧ evalStep root envC s [] [.at d] = .ok [] ∧
      ∃ id ns nm a ks, getAtP root d = some (.tag id ns nm a ks) ∧ appendIndex ks ≤ ks.length ∧
        modifyAtP (insertKid (appendIndex ks) (nodeFor envC n s (branch envC (n + 1) rest))) root d = .ok root' ∧
        r = .at (d ++ appendIndex ks :: List.replicate rest.length 0) := by
  have hl := locatable_of_ok' h
  have hloc : ∀ s ∈ p.steps, stepLocatable s = true := by
    simpa [locatable, List.all_eq_true] using hl
  refine ⟨hloc, ?_⟩
  simp only [fetchOrCreate, hl, Bool.not_true, Bool.false_eq_true, if_false] at h
  cases hE : evaluate root envQ ctx [p] with
  | error e => simp [hE] at h
  | ok l =>
    match l, hE with
    | [], hE =>
      simp only [hE] at h
      cases hU : p.steps.flatMap (unboundPrefixes envC) with
      | cons q qs => simp [hU] at h
      | nil =>
        simp only [hU] at h
        obtain ⟨matched, missing, d, e, w, hc | ⟨s, rest, dp, id, ns, nm, a, ks, rfl, rfl, h1, h2, h3, h4, h5, h6⟩⟩ :=
          createSteps_shape envC p.steps root n _ root' r n' hloc h
        · exact absurd hc.2.2.2 hcr
        · exact ⟨matched, s, rest, dp, e, h6, w, h1, id, ns, nm, a, ks, h2, h3, h4, h5⟩
    | [r0], hE =>
      simp only [hE, Except.ok.injEq, Prod.mk.injEq] at h
      exact absurd h.2.2.symm hcr
    | _ :: _ :: _, hE => simp [hE] at h

/-- everything about a creating call under one existential: the place `d`, the index `i`, the added
    subtree `B`, and the number `m` of leading steps that had a match -/
theorem fetchOrCreate_branch (root root' : PTree) (n n' : Nat) (envQ envC : NsEnv) (ctx : List Nat) (p : Path)
    (r : XNode) (h : fetchOrCreate root n envQ envC ctx [p] = .ok (root', r, n')) (hcr : n' ≠ n) :
    ∃ d i B m, AddedBelow root root' d i B ∧ m < p.steps.length ∧ n' = n + (p.steps.length - m) ∧
      IsChainKids n (p.steps.length - m) [B] ∧ ChainFits envC (p.steps.drop m) [B] ∧
      r = .at (d ++ i :: List.replicate (p.steps.length - m - 1) 0) ∧
      (∀ x, x ∈ Clone.idsOf root' ↔ x ∈ Clone.idsOf root ∨ (n ≤ x ∧ x < n')) ∧
      (∀ j, j ≤ m → ∃ c, evalSteps root envC (p.steps.take j) [startOf ctx p] = .ok [c]) ∧
      evalSteps root envC (p.steps.take m) [startOf ctx p] = .ok [.at d] ∧
      (∀ s, p.steps[m]? = some s → evalStep root envC s [] [.at d] = .ok []) ∧
      (∀ j, m < j → evalSteps root envC (p.steps.take j) [startOf ctx p] = .ok []) := by
  obtain ⟨hloc, matched, s, rest, d, e, hn, w, hE, id, ns, nm, a, ks, hg, hi, hmod, hr⟩ :=
    fetchOrCreate_created root root' n n' envQ envC ctx p r h hcr
  have hlen : p.steps.length - matched.length = rest.length + 1 := by
    rw [e]; simp only [List.length_append, List.length_cons]; omega
  have hloc' : ∀ x ∈ s :: rest, stepLocatable x = true := by
    intro x hx
    apply hloc x
    rw [e]
    exact List.mem_append_right _ hx
  have hB : [nodeFor envC n s (branch envC (n + 1) rest)] = branch envC n (s :: rest) := rfl
  refine ⟨d, appendIndex ks, nodeFor envC n s (branch envC (n + 1) rest), matched.length, ?_, ?_, ?_, ?_, ?_, ?_, ?_,
    ?_, ?_, ?_, ?_⟩
  · obtain ⟨t, t', h1, h2, h3, _⟩ := modifyAtP_spec _ d root root' hmod
    rw [hg] at h1
    simp only [Option.some.injEq] at h1
    subst h1
    obtain ⟨_, _, _, _, _, e1, _, e2⟩ := insertKid_spec _ _ _ _ h2
    simp only [PTree.tag.injEq] at e1
    obtain ⟨rfl, rfl, rfl, rfl, rfl⟩ := e1
    exact ⟨id, ns, nm, a, ks, hg, rfl, by rw [h3, e2], hmod⟩
  · rw [e]; simp
  · rw [hlen]; exact hn
  · rw [hlen, hB]
    exact branch_isChain envC (s :: rest) n hloc'
  · rw [e, List.drop_left, hB]
    exact branch_fits envC (s :: rest) n hloc'
  · rw [hlen, hr]; simp
  · intro x
    rw [mem_idsOf_insert _ _ d root root' hmod x]
    have := mem_idsOfList_branch envC (s :: rest) n hloc' x
    rw [← hB] at this
    simp only [Clone.idsOfList, List.append_nil, List.length_cons] at this
    rw [this, hn]
  · intro j hj
    obtain ⟨c, hc⟩ := w.take j
    refine ⟨c, ?_⟩
    rw [e, List.take_append_of_le_length hj]
    exact hc.evalSteps
  · rw [e, List.take_left]
    exact w.evalSteps
  · intro s' hs'
    rw [e, List.getElem?_append_right (Nat.le_refl _)] at hs'
    simp only [Nat.sub_self, List.getElem?_cons_zero, Option.some.injEq] at hs'
    subst hs'
    exact hE
  · intro j hj
    obtain ⟨k, rfl⟩ : ∃ k, j = matched.length + (k + 1) := ⟨j - matched.length - 1, by omega⟩
    rw [e, List.take_append, List.take_of_length_le (by omega)]
    have : matched.length + (k + 1) - matched.length = k + 1 := by omega
    rw [this, List.take_succ_cons, evalSteps_append, w.evalSteps]
    simp only [evalSteps, hE]
    exact evalSteps_no_nodes root envC _

/-- when query and creation use the same mapping, a successful call that found nothing created something -/
theorem fetchOrCreate_not_found_creates (root root' : PTree) (n n' : Nat) (env : NsEnv) (ctx : List Nat) (p : Path)
    (r : XNode) (hq : evaluate root env ctx [p] = .ok [])
    (h : fetchOrCreate root n env env ctx [p] = .ok (root', r, n')) : n' ≠ n := by
  have hl := locatable_of_ok' h
  have hloc : ∀ s ∈ p.steps, stepLocatable s = true := by
    simpa [locatable, List.all_eq_true] using hl
  simp only [fetchOrCreate, hl, Bool.not_true, Bool.false_eq_true, if_false, hq] at h
  cases hU : p.steps.flatMap (unboundPrefixes env) with
  | cons q qs => simp [hU] at h
  | nil =>
    simp only [hU] at h
    obtain ⟨matched, missing, d, e, w, hc | ⟨s, rest, dp, id, ns, nm, a, ks, rfl, rfl, h1, h2, h3, h4, h5, h6⟩⟩ :=
      createSteps_shape env p.steps root n _ root' r n' hloc h
    · exfalso
      obtain ⟨rfl, _, _, _⟩ := hc
      rw [List.append_nil] at e
      have hw := w.evalSteps
      rw [← e] at hw
      cases d with
      | doc => simp [evaluate, evalPaths, evalPath, hw] at hq
      | «at» q => simp [evaluate, evalPaths, evalPath, hw, addNew] at hq
    · omega

end Delb.XPath

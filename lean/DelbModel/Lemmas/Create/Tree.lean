import DelbModel.Lemmas.Create.Eval
/-!
# C15 helper lemmas: what `modifyAtP` changes, seen through the node-local information a locatable
step looks at
-/
namespace Delb.XPath
open Delb.Edit

/-- a node without its children: all a locatable step looks at -/
def shallow : PTree → PTree
  | .tag i ns n a _ => .tag i ns n a []
  | t => t

def shallowAt (root : PTree) (a : List Nat) : Option PTree := (getAtP root a).map shallow

def shallowOf (root : PTree) : XNode → Option PTree
  | .doc => none
  | .at p => shallowAt root p

theorem attrEqB_shallow (env : NsEnv) (t : Option PTree) (pfx : Option Str) (n v : Str) :
    attrEqB env (t.map shallow) pfx n v = attrEqB env t pfx n v := by
  cases t with
  | none => rfl
  | some t => cases t <;> rfl

theorem exprB_shallow (env : NsEnv) (t : Option PTree) : ∀ e : Expr, exprB env (t.map shallow) e = exprB env t e
  | .binop op l r => by
    simp only [exprB, exprB_shallow env t l, exprB_shallow env t r, attrEqB_shallow]
  | .num _ => rfl
  | .str _ => rfl
  | .hasAttr _ _ => rfl
  | .attrVal _ _ => rfl
  | .func _ _ => rfl

theorem testB_shallow (env : NsEnv) (t : Option PTree) (nt : NodeTest) :
    testB env (t.map shallow) nt = testB env t nt := by
  cases nt with
  | name pfx l =>
    cases t with
    | none => rfl
    | some t => cases t <;> rfl
  | _ => rfl

theorem stepB_shallow (env : NsEnv) (s : Step) (t : Option PTree) :
    stepB env s (t.map shallow) = stepB env s t := by
  have e : exprB env (t.map shallow) = exprB env t := funext (exprB_shallow env t)
  simp only [stepB, testB_shallow, e]

theorem stepB_nodeOf (env : NsEnv) (s : Step) (root : PTree) (m : XNode) :
    stepB env s (nodeOf root m) = stepB env s (shallowOf root m) := by
  cases m with
  | doc => rfl
  | «at» p => exact (stepB_shallow env s _).symm

theorem stepB_none (env : NsEnv) (s : Step) : stepB env s none = false := by
  unfold stepB
  cases s.test <;> rfl

/-! ## changes strictly below an address -/

def StrictlyBelow (q a : List Nat) : Prop := ∃ k t, a = q ++ k :: t

/-- `root'` differs from `root` only strictly below `q` (as far as locatable steps can see) -/
def Below (q : List Nat) (root root' : PTree) : Prop :=
  ∀ a, ¬ StrictlyBelow q a → shallowAt root' a = shallowAt root a

theorem Below.refl (q : List Nat) (root : PTree) : Below q root root := fun _ _ => rfl

theorem Below.trans {q : List Nat} {r1 r2 r3 : PTree} (h1 : Below q r1 r2) (h2 : Below q r2 r3) :
    Below q r1 r3 := fun a ha => (h2 a ha).trans (h1 a ha)

theorem Below.mono {q : List Nat} {i : Nat} {r1 r2 : PTree} (h : Below (q ++ [i]) r1 r2) : Below q r1 r2 := by
  intro a ha
  apply h a
  rintro ⟨k, t, rfl⟩
  exact ha ⟨i, k :: t, by simp⟩

theorem Below.child_shallow {p : List Nat} {j : Nat} {r1 r2 : PTree} (h : Below (p ++ [j]) r1 r2) (i : Nat) :
    shallowAt r2 (p ++ [i]) = shallowAt r1 (p ++ [i]) := by
  apply h
  rintro ⟨k, t, e⟩
  have := congrArg List.length e
  simp at this

theorem Below.kidsCount_eq {p : List Nat} {j : Nat} {r1 r2 : PTree} (h : Below (p ++ [j]) r1 r2) :
    kidsCount r2 p = kidsCount r1 p := by
  have key : ∀ i, i < kidsCount r2 p ↔ i < kidsCount r1 p := by
    intro i
    rw [lt_kidsCount_iff, lt_kidsCount_iff]
    have := h.child_shallow i
    unfold shallowAt at this
    cases h1 : getAtP r1 (p ++ [i]) <;> cases h2 : getAtP r2 (p ++ [i]) <;> simp_all
  apply Nat.le_antisymm
  · apply Nat.le_of_not_lt
    intro hlt
    exact Nat.lt_irrefl _ ((key _).1 hlt)
  · apply Nat.le_of_not_lt
    intro hlt
    exact Nat.lt_irrefl _ ((key _).2 hlt)

theorem Below.childNodes_eq {p : List Nat} {j : Nat} {r1 r2 : PTree} (h : Below (p ++ [j]) r1 r2) :
    childNodes r2 (.at p) = childNodes r1 (.at p) := by
  simp only [Delb.XPath.childNodes, h.kidsCount_eq]

theorem Below.root_shallow {r1 r2 : PTree} (h : Below [] r1 r2) : shallowAt r2 [] = shallowAt r1 [] := by
  apply h
  rintro ⟨k, t, e⟩
  simp at e

/-! ## `modifyAtP` -/

theorem modifyAtP_spec (f : PTree → Except EditErr PTree) : ∀ (p : List Nat) (root root1 : PTree),
    modifyAtP f root p = .ok root1 →
    ∃ t t', getAtP root p = some t ∧ f t = .ok t' ∧ getAtP root1 p = some t' ∧
      (shallow t' = shallow t → Below p root root1) := by
  intro p
  induction p with
  | nil =>
    intro root root1 h
    simp only [modifyAtP] at h
    refine ⟨root, root1, rfl, h, rfl, fun hs a ha => ?_⟩
    cases a with
    | nil => simp [shallowAt, getAtP, hs]
    | cons k t => exact absurd ⟨k, t, rfl⟩ ha
  | cons k p ih =>
    intro root root1 h
    cases root with
    | tag id ns n a ks =>
      simp only [modifyAtP] at h
      split at h
      · cases h
      · rename_i c hc
        split at h
        · cases h
        · rename_i c' hc'
          simp only [Except.ok.injEq] at h
          subst h
          obtain ⟨t, t', h1, h2, h3, h4⟩ := ih c c' hc'
          have hk : k < ks.length := by
            rcases Nat.lt_or_ge k ks.length with hlt | hge
            · exact hlt
            · rw [List.getElem?_eq_none hge] at hc; cases hc
          refine ⟨t, t', by simp [getAtP, hc, h1], h2, by simp [getAtP, hk, h3], fun hs b hb => ?_⟩
          cases b with
          | nil => simp [shallowAt, getAtP, shallow]
          | cons j b' =>
            by_cases hj : j = k
            · subst hj
              have hb' : ¬ StrictlyBelow p b' := by
                rintro ⟨x, t, rfl⟩
                exact hb ⟨x, t, rfl⟩
              have := h4 hs b' hb'
              have e1 : (ks.set j c')[j]? = some c' := by simp [hk]
              simp only [shallowAt, getAtP, e1, hc]
              exact this
            · have : (ks.set k c')[j]? = ks[j]? := List.getElem?_set_ne (Ne.symm hj)
              simp [shallowAt, getAtP, this]
    | text id s => simp [modifyAtP] at h
    | comment id s => simp [modifyAtP] at h
    | pi id t s => simp [modifyAtP] at h

theorem insertKid_spec (i : Nat) (new t t' : PTree) (h : insertKid i new t = .ok t') :
    ∃ id ns n a ks, t = .tag id ns n a ks ∧ i ≤ ks.length ∧ t' = .tag id ns n a (ks.take i ++ new :: ks.drop i) := by
  cases t with
  | tag id ns n a ks =>
    simp only [insertKid] at h
    split at h
    · rename_i hle
      simp only [Except.ok.injEq] at h
      exact ⟨id, ns, n, a, ks, rfl, hle, h.symm⟩
    · cases h
  | text id s => simp [insertKid] at h
  | comment id s => simp [insertKid] at h
  | pi id t s => simp [insertKid] at h

theorem appendChildAt_spec (root root1 : PTree) (p : List Nat) (new : PTree)
    (h : appendChildAt root p new = .ok root1) :
    ∃ id ns n a ks, getAtP root p = some (.tag id ns n a ks) ∧ appendIndex ks ≤ ks.length ∧
      getAtP root1 p = some (.tag id ns n a (ks.take (appendIndex ks) ++ new :: ks.drop (appendIndex ks))) ∧
      Below p root root1 := by
  obtain ⟨t, t', h1, h2, h3, h4⟩ := modifyAtP_spec _ p root root1 h
  obtain ⟨id, ns, n, a, ks, rfl, hle, rfl⟩ := insertKid_spec _ _ _ _ h2
  exact ⟨id, ns, n, a, ks, h1, hle, h3, h4 rfl⟩

end Delb.XPath

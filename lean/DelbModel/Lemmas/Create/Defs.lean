import DelbModel.Model.XPath.Create
/-!
# C15: vocabulary of the hypotheses of the `_partial` theorems

`_create_by_xpath` resolves prefixes with `namespaces.get(prefix)` while it builds nodes, but the
query raises for an unbound prefix; and attributes are set per *expanded* name.  The two hypotheses
`stepPrefixesBound` and `consistentStepIn` say that neither difference is visible.  Since
`fetch_or_create_by_xpath` checks the (non-empty) prefixes before it creates anything, the first one follows
from the success of a call for steps without a present-but-empty prefix (`stepNoEmptyPrefix`).
-/
namespace Delb.XPath
open Delb.Edit

/-- the namespace `_create_by_xpath` gives to a derived attribute with prefix `p` (`[]` = no prefix) -/
def attrNsOf (env : NsEnv) (p : Str) : String :=
  if p.isEmpty then "" else (Ser.dget env (showS p)).getD ""

/-- the attribute equalities of a step do not contradict each other, attribute names compared after
    prefix resolution (two prefixes may be bound to the same namespace) -/
def consistentStepIn (env : NsEnv) (s : Step) : Prop :=
  ∀ a b, a ∈ stepAttrs s → b ∈ stepAttrs s → attrNsOf env a.1 = attrNsOf env b.1 → a.2.1 = b.2.1 →
    a.2.2 = b.2.2

/-- every prefix of an attribute test in the predicate is non-empty and bound in `env` -/
def exprPrefixesBound (env : NsEnv) : Expr → Bool
  | .attrVal (some p) _ => !p.isEmpty && (Ser.dget env (showS p)).isSome
  | .hasAttr (some p) _ => !p.isEmpty && (Ser.dget env (showS p)).isSome
  | .binop _ l r => exprPrefixesBound env l && exprPrefixesBound env r
  | _ => true

/-- the prefix of a name test is bound in `env` -/
def testPrefixBound (env : NsEnv) : NodeTest → Bool
  | .name (some p) _ => (Ser.dget env (showS p)).isSome
  | .anyName (some p) => (Ser.dget env (showS p)).isSome
  | _ => true

/-- all prefixes a step mentions are bound in `env` -/
def stepPrefixesBound (env : NsEnv) (s : Step) : Bool :=
  testPrefixBound env s.test && s.preds.all (exprPrefixesBound env)

/-- no attribute test of the predicate has a prefix that is present but empty (`some []`); the parser
    takes prefixes from NAME tokens, which are never empty -/
def exprNoEmptyPrefix : Expr → Bool
  | .attrVal (some p) _ => !p.isEmpty
  | .hasAttr (some p) _ => !p.isEmpty
  | .binop _ l r => exprNoEmptyPrefix l && exprNoEmptyPrefix r
  | _ => true

/-- neither the name test nor an attribute test of the step has the prefix `some []` -/
def stepNoEmptyPrefix (s : Step) : Bool :=
  (match s.test with
   | .name (some p) _ => !p.isEmpty
   | _ => true) && s.preds.all exprNoEmptyPrefix

end Delb.XPath

import DelbModel.Lemmas.Create.Defs
import DelbModel.Lemmas.XPathEval
/-!
# C15 helper lemmas: closed forms of the evaluation of unambiguously locatable steps
-/
namespace Delb.XPath
open Delb.Edit

/-! ## predicates -/

/-- the namespace a query gives to an attribute prefix -/
def qAttrNs (env : NsEnv) (pfx : Option Str) : String :=
  (pfx.bind (fun p => Ser.dget env (showS p))).getD ""

def attrEqB (env : NsEnv) (t : Option PTree) (pfx : Option Str) (n v : Str) : Bool :=
  match t with
  | some (.tag _ _ _ attrs _) => (lookupAttrVal attrs (qAttrNs env pfx) (showS n)).getD [] == v
  | _ => false

/-- the value of a locatable predicate at a node -/
def exprB (env : NsEnv) (t : Option PTree) : Expr → Bool
  | .binop op l r =>
    if op == "and" then exprB env t l && exprB env t r
    else if op == "=" then
      (match l, r with
       | .attrVal p n, .str v => attrEqB env t p n v
       | .str v, .attrVal p n => attrEqB env t p n v
       | _, _ => false)
    else false
  | _ => false

theorem checkPrefix_ok (env : NsEnv) (pfx : Option Str)
    (h : ∀ p, pfx = some p → (Ser.dget env (showS p)).isSome = true) : checkPrefix env pfx = .ok () := by
  cases pfx with
  | none => rfl
  | some p => simp [checkPrefix, h p rfl]

def attrValOf (env : NsEnv) (t : Option PTree) (pfx : Option Str) (n : Str) : Val :=
  match t with
  | some (.tag _ _ _ attrs _) => .s ((lookupAttrVal attrs (qAttrNs env pfx) (showS n)).getD [])
  | _ => .none

theorem evalExpr_attrVal (root : PTree) (env : NsEnv) (c : Ctx) (pfx : Option Str) (n : Str)
    (h : checkPrefix env pfx = .ok ()) :
    evalExpr root env c (.attrVal pfx n) = .ok (attrValOf env (nodeOf root c.node) pfx n) := by
  rw [evalExpr, h]
  simp only [attrValOf, qAttrNs]
  split <;> simp_all

theorem applyOp_eq_left (l r : Val) (h : asInt l = none) : applyOp "=" l r = .ok (.b (l == r)) := by
  simp [applyOp, h]

theorem applyOp_eq_right (l r : Val) (h : asInt r = none) : applyOp "=" l r = .ok (.b (l == r)) := by
  simp only [applyOp, h]
  cases asInt l <;> simp

theorem applyOp_and_bool (a b : Bool) : applyOp "and" (.b a) (.b b) = .ok (.b (a && b)) := by
  rfl

theorem attrValOf_beq (env : NsEnv) (t : Option PTree) (pfx : Option Str) (n v : Str) :
    (attrValOf env t pfx n == Val.s v) = attrEqB env t pfx n v := by
  unfold attrValOf attrEqB
  split
  · rw [Bool.eq_iff_iff]; simp
  · rfl

theorem beq_attrValOf (env : NsEnv) (t : Option PTree) (pfx : Option Str) (n v : Str) :
    (Val.s v == attrValOf env t pfx n) = attrEqB env t pfx n v := by
  unfold attrValOf attrEqB
  split
  · rw [Bool.eq_iff_iff]; simp only [beq_iff_eq, Val.s.injEq]; exact eq_comm
  · rfl

theorem asInt_attrValOf (env : NsEnv) (t : Option PTree) (pfx : Option Str) (n : Str) :
    asInt (attrValOf env t pfx n) = none := by
  unfold attrValOf; split <;> rfl

theorem exprPrefixesBound_attrVal (env : NsEnv) (pfx : Option Str) (n : Str)
    (h : exprPrefixesBound env (.attrVal pfx n) = true) :
    (∀ p, pfx = some p → p ≠ [] ∧ (Ser.dget env (showS p)).isSome = true) := by
  intro p hp
  subst hp
  simpa [exprPrefixesBound] using h

theorem evalExpr_locatable (root : PTree) (env : NsEnv) (c : Ctx) : ∀ (e : Expr),
    exprLocatable e = true → exprPrefixesBound env e = true →
    evalExpr root env c e = .ok (.b (exprB env (nodeOf root c.node) e))
  | .binop op l r, hl, hp => by
    simp only [exprPrefixesBound, Bool.and_eq_true] at hp
    by_cases h1 : op = "and"
    · subst h1
      simp only [exprLocatable, beq_self_eq_true, if_true, Bool.and_eq_true] at hl
      rw [evalExpr, evalExpr_locatable root env c l hl.1 hp.1, evalExpr_locatable root env c r hl.2 hp.2]
      simp only [applyOp_and_bool, exprB, beq_self_eq_true, if_true]
    · by_cases h2 : op = "="
      · subst h2
        cases l <;> cases r <;> simp [exprLocatable] at hl
        · rename_i v pfx n
          have hb := exprPrefixesBound_attrVal env pfx n hp.2
          have hc := checkPrefix_ok env pfx (fun p hp' => (hb p hp').2)
          rw [evalExpr, evalExpr_attrVal root env c pfx n hc]
          simp only [evalExpr, applyOp_eq_left _ _ (show asInt (Val.s v) = none from rfl), beq_attrValOf]
          simp [exprB]
        · rename_i pfx n v
          have hb := exprPrefixesBound_attrVal env pfx n hp.1
          have hc := checkPrefix_ok env pfx (fun p hp' => (hb p hp').2)
          rw [evalExpr, evalExpr_attrVal root env c pfx n hc]
          simp only [evalExpr, applyOp_eq_right _ _ (show asInt (Val.s v) = none from rfl), attrValOf_beq]
          simp [exprB]
      · simp [exprLocatable, h1, h2] at hl
  | .num _, hl, _ => by simp [exprLocatable] at hl
  | .str _, hl, _ => by simp [exprLocatable] at hl
  | .hasAttr _ _, hl, _ => by simp [exprLocatable] at hl
  | .attrVal _ _, hl, _ => by simp [exprLocatable] at hl
  | .func _ _, hl, _ => by simp [exprLocatable] at hl


theorem filterPred_closed (root : PTree) (env : NsEnv) (pred : Expr) (size : Nat) (f : XNode → Bool)
    (l : List XNode) (pos : Nat)
    (h : ∀ n ∈ l, ∀ pos, evalExpr root env { node := n, position := pos, size := size } pred = .ok (.b (f n))) :
    filterPred root env pred size pos l = .ok (l.filter f) := by
  induction l generalizing pos with
  | nil => simp [filterPred]
  | cons n rest ih =>
    have ih' := ih (pos + 1) (fun m hm => h m (List.mem_cons_of_mem _ hm))
    simp only [filterPred, h n (List.mem_cons_self ..) pos, ih', truthy, List.filter_cons]
    rfl

theorem applyPreds_closed (root : PTree) (env : NsEnv) (ps : List Expr) (l : List XNode)
    (hl : ps.all exprLocatable = true) (hb : ps.all (exprPrefixesBound env) = true) :
    applyPreds root env ps l = .ok (l.filter (fun n => ps.all (exprB env (nodeOf root n)))) := by
  induction ps generalizing l with
  | nil =>
    simp only [applyPreds, List.all_nil]
    rw [List.filter_eq_self.2 (fun _ _ => rfl)]
  | cons p ps ih =>
    simp only [List.all_cons, Bool.and_eq_true] at hl hb
    rw [applyPreds_cons,
      filterPred_closed root env p l.length (fun n => exprB env (nodeOf root n) p) l 1
        (fun n _ pos => evalExpr_locatable root env _ p hl.1 hb.1)]
    simp only [ih _ hl.2 hb.2, List.filter_filter, List.all_cons]
    congr 1
    apply List.filter_congr
    intro n _
    exact Bool.and_comm _ _

/-! ## name tests -/

def testB (env : NsEnv) (t : Option PTree) : NodeTest → Bool
  | .name pfx local_ =>
    match t with
    | some (.tag _ ns name _ _) =>
      let wanted : Option String := match pfx with
        | none => Ser.dget env ""
        | some p => Ser.dget env (showS p)
      let nsOk := match wanted with
        | none => ns.isEmpty
        | some w => if w.isEmpty then ns.isEmpty else ns == w
      nsOk && name == showS local_
    | _ => false
  | _ => false

theorem nodeTest_name (root : PTree) (env : NsEnv) (pfx : Option Str) (local_ : Str) (n : XNode)
    (h : testPrefixBound env (.name pfx local_) = true) :
    nodeTest root env (.name pfx local_) n = .ok (testB env (nodeOf root n) (.name pfx local_)) := by
  have hc : checkPrefix env pfx = .ok () := by
    apply checkPrefix_ok
    intro p hp; subst hp
    simpa [testPrefixBound] using h
  simp only [nodeTest, hc, testB]
  generalize nodeOf root n = t
  cases t with
  | none => rfl
  | some t => cases t <;> rfl

theorem filterTest_closed (root : PTree) (env : NsEnv) (t : NodeTest) (f : XNode → Bool) (l : List XNode)
    (h : ∀ n ∈ l, nodeTest root env t n = .ok (f n)) :
    filterTest root env t l = .ok (l.filter f) := by
  induction l with
  | nil => simp [filterTest]
  | cons n rest ih =>
    have ih' := ih (fun m hm => h m (List.mem_cons_of_mem _ hm))
    simp only [filterTest, h n (List.mem_cons_self ..), ih', List.filter_cons]

/-! ## a locatable step -/

structure StepOk (env : NsEnv) (s : Step) : Prop where
  loc : stepLocatable s = true
  bound : stepPrefixesBound env s = true

def stepB (env : NsEnv) (s : Step) (t : Option PTree) : Bool :=
  testB env t s.test && s.preds.all (exprB env t)

def childNodes (root : PTree) : XNode → List XNode
  | .doc => [.at []]
  | .at p => (List.range (kidsCount root p)).map (fun i => .at (p ++ [i]))

theorem axisNodes_child (root : PTree) (n : XNode) : axisNodes root "child" n = .ok (childNodes root n) := by
  cases n <;> rfl

theorem childNodes_nodup (root : PTree) (n : XNode) : (childNodes root n).Nodup :=
  axis_nodup root "child" n _ (axisNodes_child root n)

theorem StepOk.axis {env : NsEnv} {s : Step} (h : StepOk env s) : s.axis = "child" := by
  have := h.loc
  simp only [stepLocatable, Bool.and_eq_true, beq_iff_eq] at this
  exact this.1.1

theorem StepOk.test {env : NsEnv} {s : Step} (h : StepOk env s) : ∃ pfx l, s.test = .name pfx l := by
  have := h.loc
  simp only [stepLocatable, Bool.and_eq_true] at this
  cases ht : s.test <;> simp [ht, isNameTest] at this
  exact ⟨_, _, rfl⟩

theorem evalStepAt_closed (root : PTree) (env : NsEnv) (s : Step) (n : XNode) (h : StepOk env s) :
    evalStepAt root env s n = .ok ((childNodes root n).filter (fun m => stepB env s (nodeOf root m))) := by
  obtain ⟨pfx, l, ht⟩ := h.test
  have hloc := h.loc
  have hb := h.bound
  simp only [stepLocatable, stepPrefixesBound, Bool.and_eq_true, ht] at hloc hb
  have h1 : filterTest root env s.test (childNodes root n) =
      .ok ((childNodes root n).filter (fun m => testB env (nodeOf root m) s.test)) := by
    apply filterTest_closed
    intro m _
    rw [ht]
    exact nodeTest_name root env pfx l m hb.1
  simp only [evalStepAt, h.axis, axisNodes_child, h1, applyPreds_closed root env s.preds _ hloc.2 hb.2,
    List.filter_filter, stepB]
  congr 1
  apply List.filter_congr
  intro m _
  exact Bool.and_comm _ _

theorem addNew_append_of_nodup (acc l : List XNode) (h : (acc ++ l).Nodup) : addNew acc l = acc ++ l := by
  induction l generalizing acc with
  | nil => simp [addNew]
  | cons n rest ih =>
    have hn : n ∉ acc := by
      intro hm
      rw [List.nodup_append] at h
      exact h.2.2 n hm n (List.mem_cons_self ..) rfl
    have hc : acc.contains n = false := by simpa using hn
    simp only [addNew, hc, Bool.false_eq_true, if_false]
    rw [ih (acc ++ [n]) (by simpa using h)]
    simp

theorem evalStep_single (root : PTree) (env : NsEnv) (s : Step) (n : XNode) (h : StepOk env s) :
    evalStep root env s [] [n] = .ok ((childNodes root n).filter (fun m => stepB env s (nodeOf root m))) := by
  simp only [evalStep, evalStepAt_closed root env s n h]
  rw [addNew_append_of_nodup]
  · simp
  · simpa using (List.filter_sublist).nodup (childNodes_nodup root n)

end Delb.XPath

import DelbModel.Model.XPath.Create
import DelbModel.Model.Clone
import DelbModel.Lemmas.XPathEval
/-!
# C15 helper lemmas: a call only adds nodes with fresh identities

`removeNew` is defined next to the property; the lemmas here are stated for any pair of functions
satisfying its defining equations.
-/
namespace Delb.XPath
open Delb.Edit

/-- the defining equations of `removeNew n` / `removeNewList n` -/
structure IsRemoveNew (n : Nat) (f : PTree → PTree) (g : List PTree → List PTree) : Prop where
  tag : ∀ i ns name a ks, f (.tag i ns name a ks) = .tag i ns name a (g ks)
  text : ∀ i s, f (.text i s) = .text i s
  comment : ∀ i s, f (.comment i s) = .comment i s
  pi : ∀ i t s, f (.pi i t s) = .pi i t s
  nil : g [] = []
  cons : ∀ k ks, g (k :: ks) = if k.id ≥ n then g ks else f k :: g ks

namespace IsRemoveNew
variable {n : Nat} {f : PTree → PTree} {g : List PTree → List PTree}

theorem g_append (H : IsRemoveNew n f g) (A B : List PTree) : g (A ++ B) = g A ++ g B := by
  induction A with
  | nil => simp [H.nil]
  | cons k ks ih =>
    simp only [List.cons_append, H.cons, ih]
    split <;> simp

theorem id_mem_idsOf (t : PTree) : t.id ∈ Clone.idsOf t := by
  cases t <;> simp [Clone.idsOf, PTree.id]

mutual
  theorem f_id (H : IsRemoveNew n f g) : ∀ t : PTree, (∀ i ∈ Clone.idsOf t, i < n) → f t = t
    | .tag i ns nm a ks, h => by
      rw [H.tag, g_id H ks (fun j hj => h j (by simp [Clone.idsOf, hj]))]
    | .text i s, _ => H.text i s
    | .comment i s, _ => H.comment i s
    | .pi i t s, _ => H.pi i t s
  theorem g_id (H : IsRemoveNew n f g) : ∀ ks : List PTree, (∀ i ∈ Clone.idsOfList ks, i < n) → g ks = ks
    | [], _ => H.nil
    | k :: ks, h => by
      have hk : ¬ k.id ≥ n := by
        have := h k.id (by simp [Clone.idsOfList, id_mem_idsOf])
        omega
      rw [H.cons, if_neg hk, f_id H k (fun j hj => h j (by simp [Clone.idsOfList, hj])),
        g_id H ks (fun j hj => h j (by simp [Clone.idsOfList, hj]))]
end

theorem g_set (H : IsRemoveNew n f g) (c c' : PTree) (hf : f c' = f c) (hid : c'.id = c.id) :
    ∀ (ks : List PTree) (k : Nat), ks[k]? = some c → g (ks.set k c') = g ks := by
  intro ks
  induction ks with
  | nil => intro k h; simp at h
  | cons x xs ih =>
    intro k h
    cases k with
    | zero =>
      simp only [List.getElem?_cons_zero, Option.some.injEq] at h
      subst h
      simp only [List.set_cons_zero, H.cons, hf, hid]
    | succ k =>
      simp only [List.getElem?_cons_succ] at h
      simp only [List.set_cons_succ, H.cons, ih k h]

theorem insertKid_eq (H : IsRemoveNew n f g) (i : Nat) (new t t' : PTree) (hn : new.id ≥ n)
    (h : insertKid i new t = .ok t') : f t' = f t ∧ t'.id = t.id := by
  cases t with
  | tag id ns nm a ks =>
    simp only [insertKid] at h
    split at h
    · simp only [Except.ok.injEq] at h
      subst h
      refine ⟨?_, rfl⟩
      rw [H.tag, H.tag, H.g_append, H.cons, if_pos hn, ← H.g_append, List.take_append_drop]
    · cases h
  | text id s => simp [insertKid] at h
  | comment id s => simp [insertKid] at h
  | pi id t s => simp [insertKid] at h

theorem modifyAtP_eq (H : IsRemoveNew n f g) (f0 : PTree → Except EditErr PTree)
    (h0 : ∀ t t', f0 t = .ok t' → f t' = f t ∧ t'.id = t.id) :
    ∀ (p : List Nat) (t t' : PTree), modifyAtP f0 t p = .ok t' → f t' = f t ∧ t'.id = t.id := by
  intro p
  induction p with
  | nil => intro t t' h; exact h0 t t' (by simpa [modifyAtP] using h)
  | cons k p ih =>
    intro t t' h
    cases t with
    | tag id ns nm a ks =>
      simp only [modifyAtP] at h
      split at h
      · cases h
      · rename_i c hc
        split at h
        · cases h
        · rename_i c' hc'
          simp only [Except.ok.injEq] at h
          subst h
          obtain ⟨e1, e2⟩ := ih c c' hc'
          exact ⟨by rw [H.tag, H.tag, H.g_set c c' e1 e2 ks k hc], rfl⟩
    | text id s => simp [modifyAtP] at h
    | comment id s => simp [modifyAtP] at h
    | pi id t s => simp [modifyAtP] at h

end IsRemoveNew

theorem newNodeFor_id (envC : NsEnv) (id : Nat) (s : Step) (new : PTree) (h : newNodeFor envC id s = some new) :
    new.id = id := by
  unfold newNodeFor at h
  split at h
  · simp only [Option.some.injEq] at h
    subst h; rfl
  · cases h

theorem createSteps_untouched {n : Nat} {f : PTree → PTree} {g : List PTree → List PTree}
    (H : IsRemoveNew n f g) (envC : NsEnv) : ∀ (rest : List Step) (root : PTree) (nextId : Nat) (cur : XNode)
    (root' : PTree) (r : XNode) (n' : Nat), n ≤ nextId →
    createSteps envC root nextId cur rest = .ok (root', r, n') → f root' = f root ∧ nextId ≤ n' := by
  intro rest
  induction rest with
  | nil =>
    intro root nextId cur root' r n' _ h
    simp only [createSteps, Except.ok.injEq, Prod.mk.injEq] at h
    obtain ⟨rfl, rfl, rfl⟩ := h
    exact ⟨rfl, Nat.le_refl _⟩
  | cons s rest ih =>
    intro root nextId cur root' r n' hn h
    cases hE : evalStep root envC s [] [cur] with
    | error e => simp [createSteps, hE] at h
    | ok l =>
      match l, hE with
      | [], hE =>
        simp only [createSteps, hE] at h
        cases cur with
        | doc => simp at h
        | «at» p =>
          simp only at h
          cases hnn : newNodeFor envC nextId s with
          | none => simp [hnn] at h
          | some new =>
            simp only [hnn] at h
            cases hap : appendChildAt root p new with
            | error e => simp [hap] at h
            | ok root1 =>
              simp only [hap] at h
              have hid := newNodeFor_id envC nextId s new hnn
              obtain ⟨e1, _⟩ := H.modifyAtP_eq _
                (fun t t' ht => H.insertKid_eq _ new t t' (by omega) ht) p root root1 hap
              obtain ⟨e2, e3⟩ := ih root1 (nextId + 1) _ root' r n' (by omega) h
              exact ⟨e2.trans e1, by omega⟩
      | [c], hE =>
        simp only [createSteps, hE] at h
        exact ih root nextId c root' r n' hn h
      | _ :: _ :: _, hE => simp [createSteps, hE] at h

theorem fetchOrCreate_untouched {n : Nat} {f : PTree → PTree} {g : List PTree → List PTree}
    (H : IsRemoveNew n f g) (root root' : PTree) (n' : Nat) (envQ envC : NsEnv) (ctx : List Nat)
    (x : XExpr) (r : XNode) (hids : ∀ i ∈ Clone.idsOf root, i < n)
    (h : fetchOrCreate root n envQ envC ctx x = .ok (root', r, n')) :
    f root' = root ∧ n ≤ n' := by
  unfold fetchOrCreate at h
  split at h
  · cases h
  · split at h
    · cases h
    · simp only [Except.ok.injEq, Prod.mk.injEq] at h
      obtain ⟨rfl, rfl, rfl⟩ := h
      exact ⟨H.f_id root hids, Nat.le_refl _⟩
    · cases h
    · split at h
      · split at h
        · cases h
        · obtain ⟨e1, e2⟩ := createSteps_untouched H envC _ root n _ root' r n' (Nat.le_refl _) h
          exact ⟨e1.trans (H.f_id root hids), e2⟩
      · cases h

end Delb.XPath

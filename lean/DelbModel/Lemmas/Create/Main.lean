import DelbModel.Lemmas.Create.NewNode
/-!
# C15 helper lemmas: the loop of `_create_by_xpath` builds a branch the expression selects
-/
namespace Delb.XPath
open Delb.Edit

theorem filter_range_singleton (Q : Nat → Bool) (n i : Nat) (hi : i < n) (hq : Q i = true)
    (hn : ∀ j, j < n → j ≠ i → Q j = false) : (List.range n).filter Q = [i] := by
  induction n with
  | zero => omega
  | succ n ih =>
    rw [List.range_succ, List.filter_append]
    by_cases hin : i = n
    · subst hin
      have h0 : (List.range i).filter Q = [] := by
        rw [List.filter_eq_nil_iff]
        intro j hj
        rw [List.mem_range] at hj
        rw [hn j (by omega) (by omega)]
        simp
      simp [h0, hq]
    · have h1 := ih (by omega) (fun j hj hji => hn j (by omega) hji)
      have h2 : Q n = false := hn n (by omega) (fun h => hin h.symm)
      simp [h1, h2]

theorem getElem?_insert {α} (ks : List α) (i : Nat) (new : α) (hi : i ≤ ks.length) (j : Nat) :
    (ks.take i ++ new :: ks.drop i)[j]? =
      if j < i then ks[j]? else if j = i then some new else ks[j - 1]? := by
  have hlen : (ks.take i).length = i := by simp [List.length_take]; omega
  by_cases h1 : j < i
  · rw [if_pos h1, List.getElem?_append_left (by omega), List.getElem?_take_of_lt h1]
  · rw [if_neg h1, List.getElem?_append_right (by omega), hlen]
    by_cases h2 : j = i
    · subst h2; simp
    · rw [if_neg h2]
      have : j - i = (j - i - 1) + 1 := by omega
      rw [this, List.getElem?_cons_succ, List.getElem?_drop]
      congr 1
      omega

theorem kidsCount_of_getAtP {root : PTree} {p : List Nat} {t : PTree} (h : getAtP root p = some t) :
    kidsCount root p = t.kids.length := by
  simp [kidsCount, h]

theorem nodeOf_child {root : PTree} {p : List Nat} {t : PTree} (h : getAtP root p = some t) (j : Nat) :
    nodeOf root (.at (p ++ [j])) = t.kids[j]? := by
  simp [nodeOf, getAtP_append, h, getAtP_single]

/-- the step that has just been created for -/
theorem created_step (root root1 : PTree) (env : NsEnv) (s : Step) (p : List Nat) (new : PTree)
    (id : Nat) (ns nm : String) (a : List Attr) (ks : List PTree) (i : Nat)
    (hok : StepOk env s) (hold : evalStep root env s [] [.at p] = .ok [])
    (hg : getAtP root p = some (.tag id ns nm a ks)) (hi : i ≤ ks.length)
    (hg1 : getAtP root1 p = some (.tag id ns nm a (ks.take i ++ new :: ks.drop i)))
    (hnew : stepB env s (some new) = true) :
    evalStep root1 env s [] [.at p] = .ok [.at (p ++ [i])] := by
  rw [evalStep_single _ _ _ _ hok] at hold ⊢
  simp only [Except.ok.injEq, List.filter_eq_nil_iff] at hold
  have hall : ∀ j : Nat, stepB env s (ks[j]?) = false := by
    intro j
    rcases Nat.lt_or_ge j ks.length with hj | hj
    · have hm : XNode.at (p ++ [j]) ∈ childNodes root (.at p) := by
        simp only [childNodes, kidsCount_of_getAtP hg, PTree.kids, List.mem_map, List.mem_range]
        exact ⟨j, hj, rfl⟩
      have := hold _ hm
      rw [nodeOf_child hg] at this
      simpa [PTree.kids] using this
    · rw [List.getElem?_eq_none hj]; exact stepB_none env s
  congr 1
  simp only [childNodes, kidsCount_of_getAtP hg1, PTree.kids, List.filter_map]
  have hQ : ((fun m => stepB env s (nodeOf root1 m)) ∘ fun j => XNode.at (p ++ [j])) =
      fun j => stepB env s ((ks.take i ++ new :: ks.drop i)[j]?) := by
    funext j
    simp only [Function.comp, nodeOf_child hg1, PTree.kids]
  rw [hQ, filter_range_singleton _ _ i]
  · rfl
  · simp [List.length_take]; omega
  · rw [getElem?_insert ks i new hi]; simp [hnew]
  · intro j _ hji
    rw [getElem?_insert ks i new hi]
    by_cases h1 : j < i
    · rw [if_pos h1]; exact hall j
    · rw [if_neg h1, if_neg hji]; exact hall _

/-! ## a step sees the same after changes below one of its candidates -/

def BelowX (root root' : PTree) : XNode → Prop
  | .doc => True
  | .at p => Below p root root'

theorem evalStep_single_congr (root root' : PTree) (env : NsEnv) (s : Step) (n : XNode) (hok : StepOk env s)
    (hc : childNodes root' n = childNodes root n)
    (hs : ∀ m ∈ childNodes root n, shallowOf root' m = shallowOf root m) :
    evalStep root' env s [] [n] = evalStep root env s [] [n] := by
  rw [evalStep_single _ _ _ _ hok, evalStep_single _ _ _ _ hok, hc]
  congr 1
  apply List.filter_congr
  intro m hm
  rw [stepB_nodeOf, stepB_nodeOf, hs m hm]

theorem evalStep_below (root root' : PTree) (env : NsEnv) (s : Step) (cur c : XNode) (hok : StepOk env s)
    (hc : c ∈ childNodes root cur) (hb : BelowX root root' c) :
    evalStep root' env s [] [cur] = evalStep root env s [] [cur] ∧ BelowX root root' cur ∧ c ≠ .doc := by
  cases cur with
  | doc =>
    simp only [childNodes, List.mem_singleton] at hc
    subst hc
    refine ⟨?_, trivial, by simp⟩
    apply evalStep_single_congr root root' env s .doc hok rfl
    intro m hm
    simp only [childNodes, List.mem_singleton] at hm
    subst hm
    exact Below.root_shallow hb
  | «at» p =>
    simp only [childNodes, List.mem_map, List.mem_range] at hc
    obtain ⟨j, _, rfl⟩ := hc
    refine ⟨?_, Below.mono hb, by simp⟩
    apply evalStep_single_congr root root' env s (.at p) hok (Below.childNodes_eq hb)
    intro m hm
    simp only [childNodes, List.mem_map, List.mem_range] at hm
    obtain ⟨i, _, rfl⟩ := hm
    exact Below.child_shallow hb i

theorem mem_of_evalStep_single {root : PTree} {env : NsEnv} {s : Step} {cur c : XNode} {l : List XNode}
    (hok : StepOk env s) (h : evalStep root env s [] [cur] = .ok l) (hc : c ∈ l) : c ∈ childNodes root cur := by
  rw [evalStep_single _ _ _ _ hok] at h
  simp only [Except.ok.injEq] at h
  subst h
  exact (List.mem_filter.1 hc).1

/-! ## the loop -/

theorem createSteps_selected (env : NsEnv) : ∀ (rest : List Step) (root : PTree) (nextId : Nat) (cur : XNode)
    (root' : PTree) (r : XNode) (n' : Nat),
    (∀ s ∈ rest, StepOk env s ∧ consistentStepIn env s) →
    createSteps env root nextId cur rest = .ok (root', r, n') →
    evalSteps root' env rest [cur] = .ok [r] ∧ BelowX root root' cur ∧ (r = .doc → cur = .doc ∧ rest = []) := by
  intro rest
  induction rest with
  | nil =>
    intro root nextId cur root' r n' _ h
    simp only [createSteps, Except.ok.injEq, Prod.mk.injEq] at h
    obtain ⟨rfl, rfl, rfl⟩ := h
    refine ⟨rfl, ?_, fun h => ⟨h, rfl⟩⟩
    cases cur with
    | doc => trivial
    | «at» p => exact Below.refl p root
  | cons s rest ih =>
    intro root nextId cur root' r n' hall h
    obtain ⟨hok, hcons⟩ := hall s (List.mem_cons_self ..)
    have hall' : ∀ s ∈ rest, StepOk env s ∧ consistentStepIn env s :=
      fun x hx => hall x (List.mem_cons_of_mem _ hx)
    cases hE : evalStep root env s [] [cur] with
    | error e => simp [createSteps, hE] at h
    | ok l =>
      match l, hE with
      | [], hE =>
        simp only [createSteps, hE] at h
        cases cur with
        | doc => simp at h
        | «at» p =>
          simp only at h
          cases hnn : newNodeFor env nextId s with
          | none => simp [hnn] at h
          | some new =>
            simp only [hnn] at h
            cases hap : appendChildAt root p new with
            | error e => simp [hap] at h
            | ok root1 =>
              simp only [hap] at h
              obtain ⟨id, ns, nm, a, ks, hg, hi, hg1, hb1⟩ := appendChildAt_spec root root1 p new hap
              simp only [hg, PTree.kids] at h
              obtain ⟨h1, h2, h3⟩ := ih root1 (nextId + 1) (.at (p ++ [appendIndex ks])) root' r n' hall' h
              have hstep1 := created_step root root1 env s p new id ns nm a ks (appendIndex ks) hok hE hg hi hg1
                (stepB_new env nextId s new hok hcons hnn)
              have hmem := mem_of_evalStep_single hok hstep1 (List.mem_singleton.2 rfl)
              obtain ⟨e1, e2, _⟩ := evalStep_below root1 root' env s (.at p) _ hok hmem h2
              refine ⟨?_, Below.trans hb1 e2, fun hr => ?_⟩
              · simp only [evalSteps, e1, hstep1]
                exact h1
              · have := (h3 hr).1
                cases this
      | [c], hE =>
        simp only [createSteps, hE] at h
        obtain ⟨h1, h2, h3⟩ := ih root nextId c root' r n' hall' h
        have hmem := mem_of_evalStep_single hok hE (List.mem_singleton.2 rfl)
        obtain ⟨e1, e2, e3⟩ := evalStep_below root root' env s cur c hok hmem h2
        refine ⟨?_, e2, fun hr => absurd (h3 hr).1 e3⟩
        simp only [evalSteps, e1, hE]
        exact h1
      | _ :: _ :: _, hE => simp [createSteps, hE] at h

end Delb.XPath

import DelbModel.Lemmas.Create.Tree
/-!
# C15 helper lemmas: the node `_create_by_xpath` builds for a step passes that step's tests
-/
namespace Delb.XPath
open Delb.Edit

/-! ## `setAttr` -/

theorem lookup_map_same (a : Attr) (attrs : List Attr) :
    lookupAttrVal (attrs.map (fun b => if b.ns == a.ns && b.name == a.name then a else b)) a.ns a.name =
      if attrs.any (fun b => b.ns == a.ns && b.name == a.name) then some a.value else none := by
  induction attrs with
  | nil => simp [lookupAttrVal]
  | cons b rest ih =>
    unfold lookupAttrVal at ih ⊢
    by_cases hb : (b.ns == a.ns && b.name == a.name) = true
    · simp only [List.map_cons, hb, if_true, List.find?_cons, beq_self_eq_true, Bool.and_self,
        List.any_cons, Bool.true_or, Option.map_some]
    · have hb' : (b.ns == a.ns && b.name == a.name) = false := by simpa using hb
      simp only [List.map_cons, hb', Bool.false_eq_true, if_false, List.find?_cons, List.any_cons, Bool.false_or]
      exact ih

theorem lookup_map_other (a : Attr) (ns name : String) (h : ¬ (a.ns = ns ∧ a.name = name)) (attrs : List Attr) :
    lookupAttrVal (attrs.map (fun b => if b.ns == a.ns && b.name == a.name then a else b)) ns name =
      lookupAttrVal attrs ns name := by
  have ha : (a.ns == ns && a.name == name) = false := by
    simpa using h
  induction attrs with
  | nil => rfl
  | cons b rest ih =>
    unfold lookupAttrVal at ih ⊢
    by_cases hb : (b.ns == a.ns && b.name == a.name) = true
    · have hb2 : (b.ns == ns && b.name == name) = false := by
        simp only [Bool.and_eq_true, beq_iff_eq] at hb
        rw [hb.1, hb.2]; exact ha
      simp only [List.map_cons, hb, if_true, List.find?_cons, ha, hb2]
      exact ih
    · have hb' : (b.ns == a.ns && b.name == a.name) = false := by simpa using hb
      simp only [List.map_cons, hb', Bool.false_eq_true, if_false, List.find?_cons]
      cases (b.ns == ns && b.name == name)
      · exact ih
      · rfl

theorem lookup_setAttr (attrs : List Attr) (a : Attr) (ns name : String) :
    lookupAttrVal (setAttr attrs a) ns name =
      if a.ns = ns ∧ a.name = name then some a.value else lookupAttrVal attrs ns name := by
  unfold setAttr
  by_cases hk : a.ns = ns ∧ a.name = name
  · obtain ⟨rfl, rfl⟩ := hk
    simp only [and_self, if_true]
    split
    · rename_i hany
      rw [lookup_map_same, if_pos hany]
    · rename_i hany
      have hnone : attrs.find? (fun b => b.ns == a.ns && b.name == a.name) = none := by
        rw [List.find?_eq_none]
        intro x hx hx'
        exact hany (List.any_eq_true.2 ⟨x, hx, hx'⟩)
      simp [lookupAttrVal, List.find?_append, hnone]
  · rw [if_neg hk]
    split
    · exact lookup_map_other a ns name hk attrs
    · have ha : (a.ns == ns && a.name == name) = false := by simpa using hk
      simp [lookupAttrVal, List.find?_append, ha]

theorem lookup_foldl_setAttr (a : Attr) (L : List Attr)
    (hc : ∀ x ∈ L, x.ns = a.ns → x.name = a.name → x.value = a.value) (acc : List Attr)
    (h : a ∈ L ∨ lookupAttrVal acc a.ns a.name = some a.value) :
    lookupAttrVal (L.foldl setAttr acc) a.ns a.name = some a.value := by
  induction L generalizing acc with
  | nil =>
    rcases h with h | h
    · cases h
    · exact h
  | cons x rest ih =>
    simp only [List.foldl_cons]
    apply ih (fun y hy => hc y (List.mem_cons_of_mem _ hy))
    by_cases hm : a ∈ rest
    · exact .inl hm
    · right
      rw [lookup_setAttr]
      by_cases hk : x.ns = a.ns ∧ x.name = a.name
      · rw [if_pos hk, hc x (List.mem_cons_self ..) hk.1 hk.2]
      · rw [if_neg hk]
        rcases h with h | h
        · rcases List.mem_cons.1 h with rfl | h
          · exact absurd ⟨rfl, rfl⟩ hk
          · exact absurd h hm
        · exact h

/-! ## the new node -/

def toAttr (env : NsEnv) (t : Str × Str × Str) : Attr :=
  { ns := attrNsOf env t.1, name := showS t.2.1, value := t.2.2 }

def pfxKey : Option Str → String
  | some p => showS p
  | none => ""

theorem newNodeFor_eq (env : NsEnv) (id : Nat) (s : Step) (pfx : Option Str) (l : Str) (ht : s.test = .name pfx l) :
    newNodeFor env id s = some (.tag id ((Ser.dget env (pfxKey pfx)).getD "")
      (showS l) (((stepAttrs s).map (toAttr env)).foldl setAttr []) []) := by
  simp only [newNodeFor, ht, List.foldl_map]
  cases pfx <;> rfl

theorem newAttrs_lookup (env : NsEnv) (s : Step) (hc : consistentStepIn env s) (t : Str × Str × Str)
    (ht : t ∈ stepAttrs s) :
    lookupAttrVal (((stepAttrs s).map (toAttr env)).foldl setAttr []) (attrNsOf env t.1) (showS t.2.1) =
      some t.2.2 := by
  apply lookup_foldl_setAttr (toAttr env t)
  · intro x hx h1 h2
    obtain ⟨u, hu, rfl⟩ := List.mem_map.1 hx
    exact hc u t hu ht h1 (String.ofList_injective h2)
  · exact .inl (List.mem_map.2 ⟨t, ht, rfl⟩)

theorem qAttrNs_eq (env : NsEnv) (pfx : Option Str) (n : Str) (h : exprPrefixesBound env (.attrVal pfx n) = true) :
    qAttrNs env pfx = attrNsOf env (pfx.getD []) := by
  cases pfx with
  | none => rfl
  | some p =>
    have := (exprPrefixesBound_attrVal env (some p) n h p rfl).1
    cases p with
    | nil => exact absurd rfl this
    | cons c cs => rfl

theorem exprB_of_attrs (env : NsEnv) (id : Nat) (ns nm : String) (attrs : List Attr) (ks : List PTree) :
    ∀ (e : Expr), exprLocatable e = true → exprPrefixesBound env e = true →
    (∀ t ∈ derivedAttrs e, lookupAttrVal attrs (attrNsOf env t.1) (showS t.2.1) = some t.2.2) →
    exprB env (some (.tag id ns nm attrs ks)) e = true
  | .binop op l r, hl, hp, ha => by
    by_cases h1 : op = "and"
    · subst h1
      simp only [exprPrefixesBound, Bool.and_eq_true] at hp
      simp only [exprLocatable, beq_self_eq_true, if_true, Bool.and_eq_true] at hl
      simp only [derivedAttrs, beq_self_eq_true, if_true, List.mem_append] at ha
      simp only [exprB, beq_self_eq_true, if_true, Bool.and_eq_true]
      exact ⟨exprB_of_attrs env id ns nm attrs ks l hl.1 hp.1 (fun t ht => ha t (.inl ht)),
        exprB_of_attrs env id ns nm attrs ks r hl.2 hp.2 (fun t ht => ha t (.inr ht))⟩
    · by_cases h2 : op = "="
      · subst h2
        cases l <;> cases r <;> simp [exprLocatable] at hl
        · rename_i v pfx n
          simp only [exprPrefixesBound, Bool.and_eq_true] at hp
          have := ha (pfx.getD [], n, v) (by simp [derivedAttrs])
          simp [exprB, attrEqB, qAttrNs_eq env pfx n hp.2, this]
        · rename_i pfx n v
          simp only [exprPrefixesBound, Bool.and_eq_true] at hp
          have := ha (pfx.getD [], n, v) (by simp [derivedAttrs])
          simp [exprB, attrEqB, qAttrNs_eq env pfx n hp.1, this]
      · simp [exprLocatable, h1, h2] at hl
  | .num _, hl, _, _ => by simp [exprLocatable] at hl
  | .str _, hl, _, _ => by simp [exprLocatable] at hl
  | .hasAttr _ _, hl, _, _ => by simp [exprLocatable] at hl
  | .attrVal _ _, hl, _, _ => by simp [exprLocatable] at hl
  | .func _ _, hl, _, _ => by simp [exprLocatable] at hl

theorem testB_new (env : NsEnv) (id : Nat) (pfx : Option Str) (l : Str) (attrs : List Attr) (ks : List PTree) :
    testB env (some (.tag id ((Ser.dget env (pfxKey pfx)).getD "")
      (showS l) attrs ks)) (.name pfx l) = true := by
  cases pfx with
  | none =>
    simp only [testB, pfxKey]
    cases Ser.dget env "" with
    | none => simp
    | some v => by_cases hv : v = "" <;> simp [hv]
  | some p =>
    simp only [testB, pfxKey]
    cases Ser.dget env (showS p) with
    | none => simp
    | some v => by_cases hv : v = "" <;> simp [hv]

theorem stepB_new (env : NsEnv) (id : Nat) (s : Step) (new : PTree) (hok : StepOk env s)
    (hc : consistentStepIn env s) (hn : newNodeFor env id s = some new) : stepB env s (some new) = true := by
  obtain ⟨pfx, l, ht⟩ := hok.test
  rw [newNodeFor_eq env id s pfx l ht] at hn
  simp only [Option.some.injEq] at hn
  subst hn
  have hloc := hok.loc
  have hb := hok.bound
  simp only [stepLocatable, stepPrefixesBound, Bool.and_eq_true, List.all_eq_true] at hloc hb
  simp only [stepB, Bool.and_eq_true, List.all_eq_true]
  constructor
  · rw [ht]; exact testB_new env id pfx l _ _
  · intro e he
    apply exprB_of_attrs env id _ _ _ _ e (hloc.2 e he) (hb.2 e he)
    intro t hte
    apply newAttrs_lookup env s hc t
    exact List.mem_flatMap.2 ⟨e, he, hte⟩

end Delb.XPath

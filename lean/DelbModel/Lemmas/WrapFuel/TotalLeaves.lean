import DelbModel.Lemmas.WrapFuel.Leaves
import DelbModel.Lemmas.WrapFuel.Valid
/-!
# Nothing but an exhausted budget can go wrong — the non-recursive parts

`OF x Q`: the run `x` ends in a result with `Q` or in the budget error; `Sure x Q`: it ends in a result with `Q`.
Hypotheses: the prefix map covers the namespaces of the tree (`EnvOk`); paths are paths of nodes; the pending
text nodes (`st.unwritten`) are non-empty text nodes of the tree (`InvU`).
-/
set_option linter.unusedSimpArgs false
namespace Delb.Wrapping
open Delb.Ser Delb.WS Delb.Pretty

abbrev OF {α : Type} (x : Except Err α) (Q : α → Prop) : Prop := Tot (· = fuelErr) x Q
abbrev Sure {α : Type} (x : Except Err α) (Q : α → Prop) : Prop := Tot (fun _ => False) x Q

theorem Sure.of {α : Type} {x : Except Err α} {Q : α → Prop} (h : Sure x Q) : OF x Q :=
  Tot_weaken h (fun _ h => h.elim)

theorem sure_eq {α : Type} {x : Except Err α} {a : α} (h : x = .ok a) : Sure x (fun b => b = a) := by
  rw [h]; exact rfl

theorem sure_ex {α : Type} {x : Except Err α} (h : ∃ a, x = .ok a) : Sure x (fun _ => True) := by
  obtain ⟨a, h⟩ := h; rw [h]; trivial

theorem sure_pure {α : Type} {a : α} {Q : α → Prop} (h : Q a) : Sure (pure a : Except Err α) Q := h
theorem of_pure {α : Type} {a : α} {Q : α → Prop} (h : Q a) : OF (pure a : Except Err α) Q := h

/-- the prefix map covers the namespaces of the tree -/
def EnvOk (e : Env) : Prop := ∀ ns ∈ treeNamespaces e.root, (dget e.m ns).isSome

/-- the pending text nodes are non-empty text nodes of the tree -/
def InvU (e : Env) (st : St) : Prop := ∀ q ∈ st.unwritten, ∃ s, nodeAt e.root q = some (.text s) ∧ s ≠ []

theorem invU_nil (e : Env) {st : St} (h : st.unwritten = []) : InvU e st := by
  intro q hq; rw [h] at hq; simp at hq

theorem getNode_sure {e : Env} {p : Path} {n : Node} (h : nodeAt e.root p = some n) :
    Sure (getNode e p) (fun b => b = n) := sure_eq (by simp [getNode, h])

theorem envOk_sub {e : Env} (he : EnvOk e) {p : Path} {n : Node} (h : nodeAt e.root p = some n) :
    ∀ ns ∈ treeNamespaces n, (dget e.m ns).isSome :=
  fun ns hns => he ns (treeNamespaces_nodeAt h ns hns)

theorem requiredSpaceForAttributes_sure (e : Env) : ∀ (as : List Attr) (r : Nat) (upTo : Int),
    (∀ a ∈ as, (dget e.m a.ns).isSome) → Sure (requiredSpaceForAttributes e as r upTo) (fun _ => True)
  | [], r, upTo, _ => trivial
  | a :: as, r, upTo, h => by
    rw [requiredSpaceForAttributes]
    obtain ⟨pr, hp⟩ := pfx_total (h a (by simp))
    rw [hp]
    simp only
    split
    · trivial
    · exact requiredSpaceForAttributes_sure e as _ upTo (fun b hb => h b (by simp [hb]))

/-! ## `_required_space` -/

theorem requiredSpace_of (e : Env) (he : EnvOk e) : ∀ fuel,
    (∀ p upTo, Valid e.root p → OF (requiredSpace e fuel p upTo) (fun _ => True)) ∧
    (∀ p ns name attrs kids i used upTo, nodeAt e.root p = some (.tag ns name attrs kids) →
      OF (requiredSpaceChildren e fuel p i kids.length used upTo) (fun _ => True)) ∧
    (∀ p upTo, OF (requiredSpaceForFollowing e fuel p upTo) (fun _ => True)) := by
  intro fuel
  induction fuel with
  | zero =>
    refine ⟨?_, ?_, ?_⟩
    · intro p upTo _; rw [requiredSpace]; exact rfl
    · intro p ns name attrs kids i used upTo _; rw [requiredSpaceChildren]; exact rfl
    · intro p upTo; rw [requiredSpaceForFollowing]; exact rfl
  | succ fuel ih =>
    obtain ⟨ihR, ihC, ihF⟩ := ih
    refine ⟨?_, ?_, ?_⟩
    · intro p upTo ⟨node, hnode⟩
      rw [requiredSpace]
      refine Tot_bind_of (getNode_sure hnode).of (fun node' _ hn' => ?_)
      subst hn'
      have hns := envOk_sub he hnode
      split
      · trivial
      · trivial
      · trivial
      · rename_i ns name attrs kids _
        refine Tot_bind_of (sure_ex (pfx_total (hns ns (by simp [treeNamespaces])))).of (fun pr _ _ => ?_)
        simp only
        generalize (if kids.isEmpty = true then 3 + (name.length + pr.length)
          else 5 + 2 * (name.length + pr.length)) = used
        split
        · trivial
        · refine Tot_bind_of (requiredSpaceForAttributes_sure e attrs 0 _ ?_).of (fun r _ _ => ?_)
          · intro a ha
            exact hns a.ns (by simp only [treeNamespaces]; simp; exact Or.inr (Or.inl ⟨a, ha, rfl⟩))
          split
          · refine Tot_bind_of (ihC p ns name attrs kids 0 _ upTo hnode) (fun r _ _ => ?_)
            split
            · refine Tot_bind_of (ihF p _) (fun r _ _ => ?_)
              split <;> trivial
            · trivial
          · trivial
    · intro p ns name attrs kids i used upTo hnode
      rw [requiredSpaceChildren]
      split
      · trivial
      · rename_i hi
        have hlt : i < kids.length := by omega
        have hkid : nodeAt e.root (p ++ [i]) = some kids[i] := by
          rw [nodeAt_kid hnode]; simp [hlt]
        refine Tot_bind_of (ihR (p ++ [i]) _ ⟨_, hkid⟩) (fun r _ _ => ?_)
        split
        · exact ihC p ns name attrs kids (i + 1) _ upTo hnode
        · trivial
    · intro p upTo
      rw [requiredSpaceForFollowing]
      split
      · trivial
      · split
        · rename_i q hq
          obtain ⟨node, hnode⟩ := fetchFollowing_valid hq
          refine Tot_bind_of (getNode_sure hnode).of (fun node' _ _ => ?_)
          split
          · trivial
          · exact ihR q upTo ⟨node, hnode⟩
        · trivial

/-! ## the line-fitting and the space-preserving serializer -/

theorem writeToks_unwritten : ∀ (ts : List Tok) (st : St), (writeToks st ts).unwritten = st.unwritten := by
  intro ts
  induction ts with
  | nil => intro st; rfl
  | cons t ts ih =>
    intro st
    simp only [writeToks, List.foldl_cons]
    have := ih (write st [.verbatim [t]])
    simp only [writeToks] at this
    rw [this, write_unwritten]

theorem lf_sure (m : Dict) :
    (∀ n : Node, (∀ ns ∈ treeNamespaces n, (dget m ns).isSome) →
      ∀ st, Sure (lfSerializeNode m n st) (fun st' => st'.unwritten = st.unwritten)) ∧
    (∀ l : List Node, (∀ ns ∈ kidsNamespaces l, (dget m ns).isSome) →
      ∀ st, Sure (lfHandleChildNodes m l st) (fun st' => st'.unwritten = st.unwritten)) := by
  apply Pretty.node_induct
  · intro ns name attrs kids ih h st
    obtain ⟨pr, hp⟩ := pfx_total (h ns (by simp [treeNamespaces]))
    obtain ⟨ad, had⟩ := attrsData_total (m := m) (sortAttrs attrs)
      (fun a ha => h a.ns (by
        simp only [treeNamespaces]; simp; exact Or.inr (Or.inl ⟨a, mem_sortAttrs.mp ha, rfl⟩)))
    have hk : ∀ ns ∈ kidsNamespaces kids, (dget m ns).isSome :=
      fun x hx => h x (by simp only [treeNamespaces]; simp; exact Or.inr (Or.inr hx))
    rw [lfSerializeNode]
    simp only [hp, had]
    generalize hst0 : (if (directive attrs st.space != st.space) = true then
      { st with space := directive attrs st.space, preserveSpace := directive attrs st.space == Mode.default }
      else st) = st0
    have hu0 : st0.unwritten = st.unwritten := by
      rw [← hst0]; split <;> rfl
    by_cases hke : kids.isEmpty = true
    · simp only [hke, if_true]
      show (if _ then _ else _ : St).unwritten = _
      split
      · simp [write_unwritten, hu0]
      · simp [write_unwritten, hu0]
    · simp only [hke]
      have := ih hk (write st0 [Piece.stag (pr ++ name).toList (plainAttrs ad) [] false])
      cases hr : lfHandleChildNodes m kids (write st0 [Piece.stag (pr ++ name).toList (plainAttrs ad) [] false]) with
      | error err => rw [hr] at this; exact this.elim
      | ok st2 =>
        rw [hr] at this
        have h2 : st2.unwritten = st.unwritten := by
          have : st2.unwritten = (write st0 [Piece.stag (pr ++ name).toList (plainAttrs ad) [] false]).unwritten := this
          rw [this, write_unwritten, hu0]
        simp only [Bool.false_eq_true, if_false]
        show (if _ then _ else _ : St).unwritten = _
        split
        · simp [write_unwritten, h2]
        · simp [write_unwritten, h2]
  · intro s _ st; rw [lfSerializeNode]; split
    · exact rfl
    · split <;> exact write_unwritten _ _
  · intro s _ st; rw [lfSerializeNode]; exact write_unwritten _ _
  · intro t s _ st; rw [lfSerializeNode]; exact write_unwritten _ _
  · intro _ st; rw [lfHandleChildNodes]; exact rfl
  · intro k ks ihk ihks h st
    rw [lfHandleChildNodes]
    have h1 := ihk (fun x hx => h x (by simp [kidsNamespaces, hx])) st
    cases hr : lfSerializeNode m k st with
    | error err => rw [hr] at h1; exact h1.elim
    | ok st1 =>
      rw [hr] at h1
      simp only
      have h1' : st1.unwritten = st.unwritten := h1
      have h2 := ihks (fun x hx => h x (by simp [kidsNamespaces, hx])) st1
      exact Tot_mono h2 (fun st2 _ hq => by rw [hq, h1'])

theorem serializeAppendableNode_sure (e : Env) (he : EnvOk e) {p : Path} {node : Node}
    (hnode : nodeAt e.root p = some node) (hnt : node.isText = false) (st : St) :
    Sure (serializeAppendableNode e p st) (fun st' => st'.unwritten = st.unwritten) := by
  rw [serializeAppendableNode_eq]
  refine Tot_bind_of (getNode_sure hnode) (fun node' _ hn' => ?_)
  subst hn'
  have hns := envOk_sub he hnode
  generalize hst0 : (if (st.offset == 0 && !e.o.indent.isEmpty) = true then
    write st [.layout (indentN e.o st.level)] else st) = st0
  have hu0 : st0.unwritten = st.unwritten := by
    rw [← hst0]; split
    · exact write_unwritten _ _
    · rfl
  split
  · simp [Node.isText] at hnt
  · show (write st0 _).unwritten = _
    rw [write_unwritten, hu0]
  · show (write st0 _).unwritten = _
    rw [write_unwritten, hu0]
  · split
    · refine Tot_bind_of (sure_ex (emitNode_total _ hns)) (fun toks _ _ => ?_)
      show ({ writeToks { st0 with preserveSpace := true } toks with preserveSpace := false } : St).unwritten = _
      simp [writeToks_unwritten, hu0]
    · refine Tot_bind_of ((lf_sure e.m).1 _ hns st0) (fun st1 _ h1 => ?_)
      show ({ st1 with preserveSpace := false } : St).unwritten = _
      simp [h1, hu0]

end Delb.Wrapping

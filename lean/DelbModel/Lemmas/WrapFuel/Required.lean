import DelbModel.Lemmas.WrapFuel.Basic
/-!
# `_required_space` never exhausts a budget of `3 * rest root p + 1`
-/
set_option linter.unusedSimpArgs false
namespace Delb.Wrapping
open Delb.Ser Delb.WS Delb.Pretty

theorem getNode_noFuel (e : Env) (p : Path) : NoFuel (getNode e p) := by
  unfold getNode NoFuel
  split
  · trivial
  · rw [Tot_error]; decide

theorem getNode_post (e : Env) (p : Path) : Post (getNode e p) (fun n => nodeAt e.root p = some n) := by
  intro n h
  unfold getNode at h
  split at h
  · cases h; assumption
  · cases h

theorem textAt_noFuel (e : Env) (p : Path) : NoFuel (textAt e p) := by
  unfold textAt NoFuel
  split
  · trivial
  · rw [Tot_error]; decide

theorem pfx_noFuel (m : Dict) (ns : String) : NoFuel (pfx m ns) := by
  unfold pfx NoFuel
  split
  · trivial
  · rw [Tot_error]; decide

theorem requiredSpaceForAttributes_noFuel (e : Env) : ∀ (as : List Attr) (r : Nat) (upTo : Int),
    NoFuel (requiredSpaceForAttributes e as r upTo)
  | [], r, upTo => trivial
  | a :: as, r, upTo => by
    rw [requiredSpaceForAttributes]
    have := pfx_noFuel e.m a.ns
    split
    · rename_i err h; rw [h] at this; exact this
    · simp only
      split
      · trivial
      · exact requiredSpaceForAttributes_noFuel e as _ upTo

theorem requiredSpace_noFuel (e : Env) : ∀ fuel,
    (∀ p upTo, 3 * rest e.root p + 1 ≤ fuel → NoFuel (requiredSpace e fuel p upTo)) ∧
    (∀ p ns name attrs kids i used upTo, nodeAt e.root p = some (.tag ns name attrs kids) →
      3 * (sizeList (kids.drop i) + outside e.root p) + 2 ≤ fuel →
      NoFuel (requiredSpaceChildren e fuel p i kids.length used upTo)) ∧
    (∀ p upTo, 1 ≤ fuel → (∀ q, fetchFollowing e.root p = some q → 3 * rest e.root q + 2 ≤ fuel) →
      NoFuel (requiredSpaceForFollowing e fuel p upTo)) := by
  intro fuel
  induction fuel with
  | zero =>
    refine ⟨?_, ?_, ?_⟩
    · intro p upTo h; omega
    · intro p ns name attrs kids i used upTo _ h; omega
    · intro p upTo h; omega
  | succ fuel ih =>
    obtain ⟨ihR, ihC, ihF⟩ := ih
    refine ⟨?_, ?_, ?_⟩
    · intro p upTo hf
      rw [requiredSpace]
      refine Tot_bind_of (Tot_and_post (getNode_noFuel e p) (getNode_post e p)) (fun node _ hnode => ?_)
      replace hnode := hnode.2
      split
      · trivial
      · trivial
      · trivial
      · rename_i ns name attrs kids _
        refine Tot_bind_of (pfx_noFuel e.m ns) (fun pr _ _ => ?_)
        simp only
        generalize (if kids.isEmpty = true then 3 + (name.length + pr.length)
          else 5 + 2 * (name.length + pr.length)) = used
        split
        · trivial
        · refine Tot_bind_of (requiredSpaceForAttributes_noFuel e attrs 0 _) (fun r _ _ => ?_)
          split
          · rename_i a
            have hrest : rest e.root p = 1 + sizeList kids + outside e.root p := by
              rw [rest_valid hnode]; simp [size]
            refine Tot_bind_of (ihC p ns name attrs kids 0 _ upTo hnode (by simp; omega)) (fun r _ _ => ?_)
            split
            · refine Tot_bind_of (ihF p _ (by omega) ?_) (fun r _ _ => ?_)
              · intro q hq
                have := rest_following hnode hq
                omega
              · split <;> trivial
            · trivial
          · trivial
    · intro p ns name attrs kids i used upTo hnode hf
      rw [requiredSpaceChildren]
      split
      · trivial
      · rename_i hi
        have hlt : i < kids.length := by omega
        have hk : (kidsOf (Node.tag ns name attrs kids))[i]? = some kids[i] := by simp [kidsOf, hlt]
        have hd : sizeList (kids.drop i) = size kids[i] + sizeList (kids.drop (i + 1)) :=
          sizeList_drop (by simp [hlt])
        have hr := rest_snoc hnode hk
        simp only [kidsOf] at hr
        have := size_pos kids[i]
        refine Tot_bind_of (ihR (p ++ [i]) _ (by omega)) (fun r _ _ => ?_)
        split
        · exact ihC p ns name attrs kids (i + 1) _ upTo hnode (by omega)
        · trivial
    · intro p upTo h1 hf
      rw [requiredSpaceForFollowing]
      split
      · trivial
      · split
        · rename_i q hq
          have := hf q hq
          refine Tot_bind_of (getNode_noFuel e q) (fun node _ _ => ?_)
          split
          · trivial
          · exact ihR q upTo (by omega)
        · trivial

end Delb.Wrapping

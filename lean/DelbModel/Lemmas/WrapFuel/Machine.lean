import DelbModel.Lemmas.WrapFuel.Leaves
/-!
# The recursion of the text-wrapping serializer stays within `6 * size`

`serialize_node` → `_serialize_tag` → `PrettySerializer._serialize_tag` → `_handle_child_nodes` →
`_serialize_child_nodes` (one step per child) → `serialize_node`; `serialize_node` calls itself once more
after a line break (then at the beginning of a line, where it does not do that again).
-/
set_option linter.unusedSimpArgs false
namespace Delb.Wrapping
open Delb.Ser Delb.WS Delb.Pretty

theorem lineOffset_zero (e : Env) (st : St) (h : st.offset = 0) : lineOffset e st = 0 := by
  simp [lineOffset, h]

theorem lineOffset_pos (e : Env) (st : St) (h : lineOffset e st > 0) : st.offset ≠ 0 := by
  intro h0; rw [lineOffset_zero e st h0] at h; omega

theorem machine_noFuel (e : Env) (hR : ReqOk e) : ∀ fuel,
    (∀ p node st, nodeAt e.root p = some node → st.offset = 0 → st.unwritten = [] → 6 * size node ≤ fuel + 1 →
      NoFuel (serializeNode e fuel p st)) ∧
    (∀ p node st, nodeAt e.root p = some node → 6 * size node ≤ fuel → NoFuel (serializeNode e fuel p st)) ∧
    (∀ p node ad st, nodeAt e.root p = some node → 6 * size node ≤ fuel + 2 → NoFuel (serializeTag e fuel p ad st)) ∧
    (∀ p node ad st, nodeAt e.root p = some node → 6 * size node ≤ fuel + 3 →
      NoFuel (prettySerializeTag e fuel p ad st)) ∧
    (∀ p ns name attrs kids st, nodeAt e.root p = some (.tag ns name attrs kids) → 6 * sizeList kids + 2 ≤ fuel →
      NoFuel (handleChildNodes e fuel p kids.length st)) ∧
    (∀ p ns name attrs kids i st, nodeAt e.root p = some (.tag ns name attrs kids) →
      6 * sizeList (kids.drop i) + 1 ≤ fuel → NoFuel (serializeChildNodes e fuel p i kids.length st)) := by
  intro fuel
  induction fuel with
  | zero =>
    refine ⟨?_, ?_, ?_, ?_, ?_, ?_⟩
    · intro p node st _ _ _ h; have := size_pos node; omega
    · intro p node st _ h; have := size_pos node; omega
    · intro p node ad st _ h; have := size_pos node; omega
    · intro p node ad st _ h; have := size_pos node; omega
    · intro p ns name attrs kids st _ h; omega
    · intro p ns name attrs kids i st _ h; omega
  | succ fuel ih =>
    obtain ⟨ihA, ihN, ihT, ihP, ihH, ihC⟩ := ih
    -- `serialize_node` once pending text is written; `retry`: the second call after a line break is possible
    have hstep : ∀ p node st, nodeAt e.root p = some node → 6 * size node ≤ fuel + 1 + 1 →
        (lineOffset e st > 0 → st.unwritten = [] ∧ 6 * size node ≤ fuel + 1) →
        NoFuel (nodeStep e fuel p node st) := by
      intro p node st hnode hf hretry
      unfold nodeStep
      refine noFuel_bind (nodeFitsRemainingLine_noFuel e hR _ _) (fun fits _ => ?_)
      split
      · refine noFuel_bind (serializeAppendableNode_noFuel e p st) (fun st1 _ => ?_)
        split
        · trivial
        · exact afterNode_noFuel e hR _ _
      · split
        · rename_i hc
          simp only [Bool.and_eq_true, decide_eq_true_eq] at hc
          obtain ⟨hu, hf'⟩ := hretry hc.1
          refine ihA p node _ hnode (write_nl_offset_ne st (lineOffset_pos e st hc.1)) ?_ hf'
          rw [write_unwritten]; exact hu
        · unfold plainNodeK
          have hk : ∀ st1 : St, NoFuel (afterNode e p { st1 with preserveSpace := false }) :=
            fun st1 => afterNode_noFuel e hR _ _
          split
          · refine noFuel_bind (attrsData_noFuel _ _) (fun ad _ => ?_)
            exact noFuel_bind (ihT p _ ad _ hnode (by omega)) (fun st1 _ => hk st1)
          · exact hk _
          · exact hk _
          · exact hk _
    refine ⟨?_, ?_, ?_, ?_, ?_, ?_⟩
    · intro p node st hnode hoff hunw hf
      rw [serializeNode_succ]
      refine Tot_bind_of (Tot_and_post (getNode_noFuel e p) (getNode_post e p)) (fun node' _ hn' => ?_)
      have : node' = node := by
        have := hn'.2; rw [hnode] at this; cases this; rfl
      subst this
      rw [hunw]
      simp only [List.isEmpty_nil, if_true]
      refine hstep p node' st hnode (by omega) (fun hpos => ?_)
      exact absurd hoff (lineOffset_pos e st hpos)
    · intro p node st hnode hf
      rw [serializeNode_succ]
      refine Tot_bind_of (Tot_and_post (getNode_noFuel e p) (getNode_post e p)) (fun node' _ hn' => ?_)
      have : node' = node := by
        have := hn'.2; rw [hnode] at this; cases this; rfl
      subst this
      split
      · rename_i hemp
        refine hstep p node' st hnode (by omega) (fun _ => ⟨?_, hf⟩)
        simpa using hemp
      · refine Tot_bind_of (Tot_and_post (serializeText_noFuel e hR st) (serializeText_unwritten e st))
          (fun st1 _ h1 => ?_)
        exact hstep p node' st1 hnode (by omega) (fun _ => ⟨h1.2, hf⟩)
    · intro p node ad st hnode hf
      rw [serializeTag_succ]
      refine noFuel_bind (nodeFitsRemainingLine_noFuel e hR _ _) (fun fits _ => ?_)
      split
      · exact serializeAppendableNode_noFuel e p st
      · exact ihP p node ad st hnode (by omega)
    · intro p node ad st hnode hf
      rw [prettySerializeTag_succ]
      refine Tot_bind_of (Tot_and_post (getNode_noFuel e p) (getNode_post e p)) (fun node' _ hn' => ?_)
      have : node' = node := by
        have := hn'.2; rw [hnode] at this; cases this; rfl
      subst this
      split
      · rename_i ns name attrs kids _
        split
        · exact noFuel_bind ((emit_noFuel e.m).1 _) (fun _ _ => trivial)
        · unfold defaultTag
          refine noFuel_bind (pfx_noFuel _ _) (fun pr _ => ?_)
          split
          · trivial
          · refine noFuel_bind (ihH p ns name attrs kids _ hnode ?_) (fun _ _ => trivial)
            simp only [size] at hf
            omega
      · exact noFuel_throw (by decide)
    · intro p ns name attrs kids st hnode hf
      rw [handleChildNodes_succ]
      refine noFuel_bind (ihC p ns name attrs kids 0 _ hnode (by simpa using by omega)) (fun st1 _ => ?_)
      split <;> trivial
    · intro p ns name attrs kids i st hnode hf
      rw [serializeChildNodes_succ]
      split
      · split
        · trivial
        · exact serializeText_noFuel e hR st
      · rename_i hi
        have hlt : i < kids.length := by omega
        have hd : sizeList (kids.drop i) = size kids[i] + sizeList (kids.drop (i + 1)) :=
          sizeList_drop (by simp [hlt])
        have hpos := size_pos kids[i]
        have hkid : nodeAt e.root (p ++ [i]) = some kids[i] := by
          rw [nodeAt_kid hnode]; simp [hlt]
        refine Tot_bind_of (Tot_and_post (getNode_noFuel e _) (getNode_post e _)) (fun k _ hk => ?_)
        have : k = kids[i] := by
          have := hk.2; rw [hkid] at this; cases this; rfl
        subst this
        split
        · exact ihC p ns name attrs kids (i + 1) _ hnode (by omega)
        · refine noFuel_bind (ihN (p ++ [i]) _ st hkid (by omega)) (fun st1 _ => ?_)
          exact ihC p ns name attrs kids (i + 1) _ hnode (by omega)

/-- the budget of `wrapRoot` is not exhausted -/
theorem wrapRoot_noFuel (o : Opts) (width : Nat) (m : Dict) (root : Node) :
    wrapRoot o width m root ≠ .error (.invalidCodePath "fuel") := by
  rw [← noFuel_iff]
  unfold wrapRoot
  split
  · rename_i ns name attrs kids
    have h2 := attrsData_noFuel m (sortAttrs attrs)
    split
    · rename_i err h; rw [h] at h2; exact h2
    · rename_i ad _
      simp only
      generalize hroot : Node.tag ns name attrs kids = root
      have hR : ReqOk { o := o, width := width, m := m, root := root, fuel := fuelFor root } :=
        reqOk_of_le _ (by simp only [fuelFor]; omega)
      have := (machine_noFuel _ hR (fuelFor root)).2.2.1 [] root (declarations m ++ ad) {} rfl
        (by simp only [fuelFor]; omega)
      split
      · rename_i err h; rw [h] at this; exact this
      · trivial
  · exact noFuel_error (by decide)

end Delb.Wrapping

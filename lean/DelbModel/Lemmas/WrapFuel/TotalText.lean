import DelbModel.Lemmas.WrapFuel.TotalLeaves
/-!
# Nothing but an exhausted budget can go wrong — `_serialize_text`
-/
set_option linter.unusedSimpArgs false
namespace Delb.Wrapping
open Delb.Ser Delb.WS Delb.Pretty

/-- lines that `_consolidate_text_lines` does not reduce to nothing -/
def GoodLines (lines : List Str) : Prop := ∃ l rest, lines = l :: rest ∧ (l ≠ [] ∨ rest ≠ [])

theorem goodLines_snoc {lines : List Str} (h : GoodLines lines) (x : Str) : GoodLines (lines ++ [x]) := by
  obtain ⟨l, rest, rfl, _⟩ := h
  exact ⟨l, rest ++ [x], rfl, Or.inr (by simp)⟩

theorem goodLines_cons (l : Str) {rest : List Str} (h : rest ≠ []) : GoodLines (l :: rest) :=
  ⟨l, rest, rfl, Or.inr h⟩

theorem getLast?_some_of_ne {α} {l : List α} (h : l ≠ []) : ∃ a, l.getLast? = some a := by
  cases hl : l.getLast? with
  | none => exact absurd (List.getLast?_eq_none_iff.1 hl) h
  | some a => exact ⟨a, rfl⟩

theorem wrapFirst_sure (w : Int) {text : Str} (h : text ≠ []) : Sure (wrapFirst w text) (fun _ => True) := by
  unfold wrapFirst
  split
  · split <;> trivial
  · have := wrapText_ne_nil w.toNat h
    split
    · trivial
    · rename_i hnil; exact absurd hnil this

theorem consolidateTextLines_sure (e : Env) (st : St) (lines : List Str) (hu : st.unwritten ≠ [])
    (hl : GoodLines lines) : Sure (consolidateTextLines e st lines) (fun l => l ≠ []) := by
  obtain ⟨lastNode, hlast⟩ := getLast?_some_of_ne hu
  obtain ⟨l, rest, rfl, hg⟩ := hl
  unfold consolidateTextLines
  rw [hlast]
  simp only [List.head?_cons]
  split
  · show _ ++ _ ≠ []
    simp
  · show (if _ then _ else _ : List Str) ≠ []
    split
    · rename_i hc
      simp only [Bool.and_eq_true, List.isEmpty_iff] at hc
      have hrest : rest ≠ [] := by
        rcases hg with hg | hg
        · exact absurd hc.2 hg
        · exact hg
      split
      · simp
      · simpa using hrest
    · split <;> simp

theorem linesK_sure (e : Env) (st : St) (lines : List Str) (hu : st.unwritten ≠ []) (hl : GoodLines lines) :
    Sure (linesK e st lines) (fun _ => True) := by
  unfold linesK
  refine Tot_bind_of (consolidateTextLines_sure e st lines hu hl) (fun l' _ hne => ?_)
  obtain ⟨a, ha⟩ := getLast?_some_of_ne hne
  rw [ha]
  trivial

/-- `_required_space`, called with the full budget on an existing node, reports nothing but an exhausted budget -/
def ReqOF (e : Env) : Prop := ∀ p upTo, Valid e.root p → OF (requiredSpace e e.fuel p upTo) (fun _ => True)

section
variable (e : Env) (hR : ReqOF e)
include hR

theorem nodeFitsRemainingLine_of (st : St) (p : Path) (hp : Valid e.root p) :
    OF (nodeFitsRemainingLine e st p) (fun _ => True) := by
  unfold nodeFitsRemainingLine
  exact Tot_bind_of (hR p _ hp) (fun _ _ _ => trivial)

theorem overLinesTail_of (lastNode : Path) (st : St) (lines : List Str) (hu : st.unwritten ≠ [])
    (hl : GoodLines lines) : OF (overLinesTail e lastNode st lines) (fun _ => True) := by
  unfold overLinesTail
  obtain ⟨a, ha⟩ := getLast?_some_of_ne (l := lines) (by obtain ⟨l, rest, rfl, _⟩ := hl; simp)
  rw [ha]
  simp only
  split
  · split
    · exact (linesK_sure e _ _ hu hl).of
    · rename_i s hs
      refine Tot_bind_of (hR _ _ (fetchFollowingSibling_valid hs)) (fun r _ _ => ?_)
      split
      · exact (linesK_sure e _ _ hu (goodLines_snoc hl _)).of
      · exact (linesK_sure e _ _ hu (goodLines_snoc hl _)).of
      · exact (linesK_sure e _ _ hu hl).of
  · exact (linesK_sure e _ _ hu hl).of

theorem fillingK_of (f l : Path) (st : St) (content filling : Str) (hu : st.unwritten ≠ []) (hc : content ≠ []) :
    OF (fillingK e f l st content filling) (fun _ => True) := by
  unfold fillingK
  split
  · split
    · trivial
    · rename_i hne
      refine overLinesTail_of e hR _ _ _ (by rw [write_unwritten]; exact hu) ?_
      exact goodLines_cons _ (wrapText_ne_nil _ (by simpa using hne))
  · exact overLinesTail_of e hR _ _ _ hu (goodLines_cons _ (wrapText_ne_nil _ hc))

theorem serializeTextOverLines_of (st : St) (content : Str) (hu : st.unwritten ≠ []) (hc : content ≠ [])
    (hc1 : content ≠ [' ']) (hlt : ltrim pyWs content ≠ []) :
    OF (serializeTextOverLines e st content) (fun _ => True) := by
  rw [serializeTextOverLines_eq]
  obtain ⟨lastNode, hlast⟩ := getLast?_some_of_ne hu
  obtain ⟨firstNode, hfirst⟩ : ∃ a, st.unwritten.head? = some a := by
    cases h : st.unwritten with
    | nil => exact absurd h hu
    | cons a _ => exact ⟨a, rfl⟩
  rw [hfirst, hlast]
  simp only
  split
  · refine overLinesTail_of e hR _ _ _ hu ?_
    obtain ⟨l, rest, hw, hl⟩ := wrapText_head e.width hlt (head_ltrim content)
    rw [hw]
    split
    · exact goodLines_cons _ (by simp)
    · exact ⟨l, rest, rfl, Or.inl hl⟩
  · split
    · rename_i hhead
      have : content.drop 1 ≠ [] := by
        cases content with
        | nil => exact absurd rfl hc
        | cons c cs =>
          simp at hhead; subst hhead
          intro h; simp at h; subst h; exact hc1 rfl
      exact Tot_bind_of (wrapFirst_sure _ this).of (fun _ _ _ => fillingK_of e hR _ _ _ _ _ hu hc)
    · exact Tot_bind_of (wrapFirst_sure _ hc).of (fun _ _ _ => fillingK_of e hR _ _ _ _ _ hu hc)

theorem fitsLine_of (st : St) (lastNode : Path) (pre content : Str) :
    OF (fitsLine e st lastNode pre content) (fun _ => True) := by
  unfold fitsLine
  split
  · trivial
  · split
    · trivial
    · rename_i q hq
      split
      · exact Tot_bind_of (hR _ _ (fetchFollowing_valid hq)) (fun _ _ _ => trivial)
      · trivial

omit hR in
theorem mapM_textAt_sure : ∀ l : List Path, (∀ q ∈ l, ∃ s, nodeAt e.root q = some (.text s) ∧ s ≠ []) →
    Sure (l.mapM (textAt e)) (fun ss => (l ≠ [] → ss.flatten ≠ []))
  | [], _ => by
    rw [List.mapM_nil]
    show ([] : List Path) ≠ [] → _
    exact fun h => absurd rfl h
  | p :: ps, h => by
    rw [List.mapM_cons]
    obtain ⟨s, hs, hne⟩ := h p (by simp)
    have h1 : textAt e p = .ok s := by simp [textAt, hs]
    refine Tot_bind_of (sure_eq h1) (fun s' _ hs' => ?_)
    subst hs'
    refine Tot_bind_of (mapM_textAt_sure ps (fun q hq => h q (by simp [hq]))) (fun ss _ _ => ?_)
    show _ → (s' :: ss).flatten ≠ []
    intro _
    cases s' with
    | nil => exact absurd rfl hne
    | cons c cs => simp

theorem serializeText_of (st : St) (hi : InvU e st) (hu : st.unwritten ≠ []) :
    OF (serializeText e st) (fun st' => st'.unwritten = []) := by
  refine Tot_mono (Tot_and_post (Q := fun _ => True) ?_ (serializeText_unwritten e st)) (fun _ _ h => h.2)
  rw [serializeText_eq]
  refine Tot_bind_of (mapM_textAt_sure e _ hi).of (fun ss _ hss => ?_)
  obtain ⟨lastNode, hlast⟩ := getLast?_some_of_ne hu
  rw [hlast]
  simp only
  have hx := hss hu
  unfold textBody
  split
  · split <;> trivial
  · split
    · exact fitsLine_of e hR _ _ _ _
    · split
      · trivial
      · rename_i hc1
        have hc1' : normalizeText ss.flatten ≠ [' '] := by simpa using hc1
        refine Tot_bind_of (serializeTextOverLines_of e hR _ _ hu (normalizeText_ne_nil hx) hc1'
          (ltrim_normalizeText_ne_nil hx hc1')) (fun _ _ _ => trivial)

theorem afterNode_of (p : Path) (st : St) : OF (afterNode e p st) (fun st' => st'.unwritten = st.unwritten) := by
  have hk : ∀ b, OF (afterNodeK st b) (fun st' => st'.unwritten = st.unwritten) := by
    intro b; unfold afterNodeK; split
    · exact write_unwritten _ _
    · exact rfl
  unfold afterNode
  split
  · split
    · exact hk _
    · rename_i q hq
      exact Tot_bind_of (nodeFitsRemainingLine_of e hR _ _ (fetchFollowing_valid hq)) (fun _ _ _ => hk _)
  · exact rfl

end
end Delb.Wrapping

import DelbModel.Lemmas.WrapFuel.Required
import DelbModel.Lemmas.Pretty
/-!
# The non-recursive parts of the text-wrapping serializer never report an exhausted budget

(given that `_required_space`, which they call with the full budget `e.fuel`, does not)
-/
set_option linter.unusedSimpArgs false
namespace Delb.Wrapping
open Delb.Ser Delb.WS Delb.Pretty

theorem noFuel_error {α : Type} {err : Err} (h : err ≠ fuelErr) : NoFuel (.error err : Except Err α) := h
theorem noFuel_throw {α : Type} {err : Err} (h : err ≠ fuelErr) : NoFuel (throw err : Except Err α) := h
theorem noFuel_ok {α : Type} (a : α) : NoFuel (.ok a : Except Err α) := trivial
theorem noFuel_pure {α : Type} (a : α) : NoFuel (pure a : Except Err α) := trivial

theorem noFuel_bind {α β : Type} {x : Except Err α} {f : α → Except Err β} (hx : NoFuel x)
    (hf : ∀ a, x = .ok a → NoFuel (f a)) : NoFuel (x >>= f) :=
  Tot_bind_of hx (fun a ha _ => hf a ha)

theorem attrsData_noFuel (m : Dict) : ∀ as : List Attr, NoFuel (attrsData m as)
  | [] => trivial
  | a :: as => by
    rw [attrsData]
    have h1 := pfx_noFuel m a.ns
    have h2 := attrsData_noFuel m as
    cases hp : pfx m a.ns with
    | error err => rw [hp] at h1; cases attrsData m as <;> exact h1
    | ok pr =>
      cases ha : attrsData m as with
      | error err => rw [ha] at h2; exact h2
      | ok rest => trivial

theorem emit_noFuel (m : Dict) :
    (∀ n : Node, NoFuel (emitNode m n)) ∧ (∀ l : List Node, NoFuel (emitKids m l)) := by
  apply Pretty.node_induct
  · intro ns name attrs kids ih
    rw [emitNode]
    have h1 := pfx_noFuel m ns
    have h2 := attrsData_noFuel m (sortAttrs attrs)
    cases hp : pfx m ns with
    | error err => rw [hp] at h1; cases attrsData m (sortAttrs attrs) <;> cases emitKids m kids <;> exact h1
    | ok pr =>
      cases ha : attrsData m (sortAttrs attrs) with
      | error err => rw [ha] at h2; cases emitKids m kids <;> exact h2
      | ok ad =>
        cases hk : emitKids m kids with
        | error err => rw [hk] at ih; exact ih
        | ok ks => simp only; split <;> trivial
  · intro s; rw [emitNode]; split <;> trivial
  · intro s; rw [emitNode]; trivial
  · intro t s; rw [emitNode]; trivial
  · rw [emitKids]; trivial
  · intro k ks ihk ihks
    rw [emitKids]
    cases hk : emitNode m k with
    | error err => rw [hk] at ihk; cases emitKids m ks <;> exact ihk
    | ok a =>
      cases hks : emitKids m ks with
      | error err => rw [hks] at ihks; exact ihks
      | ok b => trivial

theorem lf_noFuel (m : Dict) :
    (∀ n : Node, ∀ st, NoFuel (lfSerializeNode m n st)) ∧
    (∀ l : List Node, ∀ st, NoFuel (lfHandleChildNodes m l st)) := by
  apply Pretty.node_induct
  · intro ns name attrs kids ih st
    rw [lfSerializeNode]
    simp only
    have h1 := pfx_noFuel m ns
    have h2 := attrsData_noFuel m (sortAttrs attrs)
    cases hp : pfx m ns with
    | error err => rw [hp] at h1; cases attrsData m (sortAttrs attrs) <;> exact h1
    | ok pr =>
      cases ha : attrsData m (sortAttrs attrs) with
      | error err => rw [ha] at h2; exact h2
      | ok ad =>
        simp only
        split
        · rename_i err hb
          split at hb
          · cases hb
          · split at hb
            · rename_i err' hk
              cases hb
              have := ih (write (if (directive attrs st.space != st.space) = true then
                { st with space := directive attrs st.space, preserveSpace := directive attrs st.space == Mode.default }
                else st) [Piece.stag (pr ++ name).toList (plainAttrs ad) [] false])
              rw [hk] at this; exact this
            · cases hb
        · trivial
  · intro s st; rw [lfSerializeNode]; split
    · trivial
    · split <;> trivial
  · intro s st; rw [lfSerializeNode]; trivial
  · intro t s st; rw [lfSerializeNode]; trivial
  · intro st; rw [lfHandleChildNodes]; trivial
  · intro k ks ihk ihks st
    rw [lfHandleChildNodes]
    have := ihk st
    split
    · rename_i err h; rw [h] at this; exact this
    · exact ihks _

theorem serializeAppendableNode_noFuel (e : Env) (p : Path) (st : St) : NoFuel (serializeAppendableNode e p st) := by
  rw [serializeAppendableNode_eq]
  refine noFuel_bind (getNode_noFuel e p) (fun node _ => ?_)
  split
  · exact noFuel_throw (by decide)
  · trivial
  · trivial
  · split
    · exact noFuel_bind ((emit_noFuel e.m).1 _) (fun _ _ => trivial)
    · exact noFuel_bind ((lf_noFuel e.m).1 _ _) (fun _ _ => trivial)

theorem wrapFirst_noFuel (w : Int) (text : Str) : NoFuel (wrapFirst w text) := by
  unfold wrapFirst
  split
  · split <;> trivial
  · split
    · trivial
    · exact noFuel_error (by decide)

theorem consolidateTextLines_noFuel (e : Env) (st : St) (lines : List Str) :
    NoFuel (consolidateTextLines e st lines) := by
  unfold consolidateTextLines
  split
  · split
    · simp only
      split <;> trivial
    · exact noFuel_throw (by decide)
  · exact noFuel_throw (by decide)

theorem linesK_noFuel (e : Env) (st : St) (lines : List Str) : NoFuel (linesK e st lines) := by
  unfold linesK
  refine noFuel_bind (consolidateTextLines_noFuel e st lines) (fun l _ => ?_)
  split
  · trivial
  · exact noFuel_throw (by decide)

/-- `_required_space`, called with the full budget, does not exhaust it -/
def ReqOk (e : Env) : Prop := ∀ p upTo, NoFuel (requiredSpace e e.fuel p upTo)

theorem reqOk_of_le (e : Env) (h : 3 * size e.root + 1 ≤ e.fuel) : ReqOk e := by
  intro p upTo
  apply (requiredSpace_noFuel e e.fuel).1
  have := rest_le e.root p
  omega

section
variable (e : Env) (hR : ReqOk e)
include hR

theorem nodeFitsRemainingLine_noFuel (st : St) (p : Path) : NoFuel (nodeFitsRemainingLine e st p) := by
  unfold nodeFitsRemainingLine
  exact noFuel_bind (hR p _) (fun _ _ => trivial)

theorem overLinesTail_noFuel (lastNode : Path) (st : St) (lines : List Str) :
    NoFuel (overLinesTail e lastNode st lines) := by
  unfold overLinesTail
  split
  · split
    · split
      · exact linesK_noFuel e _ _
      · refine noFuel_bind (hR _ _) (fun r _ => ?_)
        split <;> exact linesK_noFuel e _ _
    · exact linesK_noFuel e _ _
  · exact noFuel_throw (by decide)

theorem fillingK_noFuel (f l : Path) (st : St) (content filling : Str) :
    NoFuel (fillingK e f l st content filling) := by
  unfold fillingK
  split
  · split
    · trivial
    · exact overLinesTail_noFuel e hR _ _ _
  · exact overLinesTail_noFuel e hR _ _ _

theorem serializeTextOverLines_noFuel (st : St) (content : Str) : NoFuel (serializeTextOverLines e st content) := by
  rw [serializeTextOverLines_eq]
  split
  · split
    · split
      · exact overLinesTail_noFuel e hR _ _ _
      · split
        · exact noFuel_bind (wrapFirst_noFuel _ _) (fun _ _ => fillingK_noFuel e hR _ _ _ _ _)
        · exact noFuel_bind (wrapFirst_noFuel _ _) (fun _ _ => fillingK_noFuel e hR _ _ _ _ _)
    · exact noFuel_throw (by decide)
  · exact noFuel_throw (by decide)

theorem fitsLine_noFuel (st : St) (lastNode : Path) (pre content : Str) :
    NoFuel (fitsLine e st lastNode pre content) := by
  unfold fitsLine
  split
  · trivial
  · split
    · trivial
    · split
      · exact noFuel_bind (hR _ _) (fun _ _ => trivial)
      · trivial

omit hR in
theorem mapM_textAt_noFuel : ∀ l : List Path, NoFuel (l.mapM (textAt e))
  | [] => by simp [List.mapM_nil]; trivial
  | p :: ps => by
    rw [List.mapM_cons]
    refine noFuel_bind (textAt_noFuel e p) (fun _ _ => ?_)
    exact noFuel_bind (mapM_textAt_noFuel ps) (fun _ _ => trivial)

theorem serializeText_noFuel (st : St) : NoFuel (serializeText e st) := by
  rw [serializeText_eq]
  refine noFuel_bind (mapM_textAt_noFuel e _) (fun ss _ => ?_)
  split
  · unfold textBody
    split
    · split <;> trivial
    · split
      · exact fitsLine_noFuel e hR _ _ _ _
      · split
        · trivial
        · exact noFuel_bind (serializeTextOverLines_noFuel e hR _ _) (fun _ _ => trivial)
  · exact noFuel_throw (by decide)

theorem afterNode_noFuel (p : Path) (st : St) : NoFuel (afterNode e p st) := by
  have hk : ∀ b, NoFuel (afterNodeK st b) := by
    intro b; unfold afterNodeK; split <;> trivial
  unfold afterNode
  split
  · split
    · exact hk _
    · exact noFuel_bind (nodeFitsRemainingLine_noFuel e hR _ _) (fun _ _ => hk _)
  · trivial

end

/-! ## what `_serialize_text` and `write` leave behind -/

theorem serializeText_unwritten (e : Env) (st : St) : Post (serializeText e st) (fun st' => st'.unwritten = []) := by
  have hfin : ∀ st1 : St, Post (finishText st1) (fun st' => st'.unwritten = []) := by
    intro st1; unfold finishText; rw [Post_pure]
  rw [serializeText_eq]
  refine Post_bind_of (Post_true _) (fun ss _ => ?_)
  split
  · unfold textBody
    split
    · split <;> exact hfin _
    · split
      · unfold fitsLine fitsK
        split
        · exact hfin _
        · split
          · exact hfin _
          · split
            · exact Post_bind_of (Post_true _) (fun _ _ => hfin _)
            · exact hfin _
      · split
        · exact hfin _
        · exact Post_bind_of (Post_true _) (fun _ _ => hfin _)
  · exact Post_throw _ _

theorem write_unwritten (st : St) (ps : List Piece) : (write st ps).unwritten = st.unwritten := by
  unfold write
  simp only
  split <;> split <;> rfl

theorem write_nl_offset_ne (st : St) (h : st.offset ≠ 0) : (write st [nl]).offset = 0 := by
  have hb : (st.offset == 0) = false := by simpa using h
  unfold write
  simp [hb, nl, isEmptyPiece, renderP, renderPiece, newOffset, isNl]

end Delb.Wrapping

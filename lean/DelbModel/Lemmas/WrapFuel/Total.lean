import DelbModel.Lemmas.WrapFuel.TotalText
import DelbModel.Lemmas.WrapFuel.Machine
/-!
# The text-wrapping serializer is total

Machine half: under `EnvOk` every method ends in a state without pending text nodes or in the budget error.
Together with `machine_noFuel`: `wrapRoot` yields an output for every tag node whose namespaces the prefix map
covers.
-/
set_option linter.unusedSimpArgs false
namespace Delb.Wrapping
open Delb.Ser Delb.WS Delb.Pretty

theorem reqOF_of (e : Env) (he : EnvOk e) : ReqOF e :=
  fun p upTo hp => (requiredSpace_of e he e.fuel).1 p upTo hp

def Flushed (st : St) : Prop := st.unwritten = []

theorem machine_of (e : Env) (he : EnvOk e) : ∀ fuel,
    (∀ p node st, nodeAt e.root p = some node → node.isText = false → InvU e st →
      OF (serializeNode e fuel p st) Flushed) ∧
    (∀ p ns name attrs kids ad st, nodeAt e.root p = some (.tag ns name attrs kids) → st.unwritten = [] →
      OF (serializeTag e fuel p ad st) Flushed) ∧
    (∀ p ns name attrs kids ad st, nodeAt e.root p = some (.tag ns name attrs kids) → st.unwritten = [] →
      OF (prettySerializeTag e fuel p ad st) Flushed) ∧
    (∀ p ns name attrs kids st, nodeAt e.root p = some (.tag ns name attrs kids) → st.unwritten = [] →
      OF (handleChildNodes e fuel p kids.length st) Flushed) ∧
    (∀ p ns name attrs kids i st, nodeAt e.root p = some (.tag ns name attrs kids) → InvU e st →
      OF (serializeChildNodes e fuel p i kids.length st) Flushed) := by
  have hR := reqOF_of e he
  intro fuel
  induction fuel with
  | zero =>
    refine ⟨?_, ?_, ?_, ?_, ?_⟩
    · intro p node st _ _ _; rw [serializeNode]; exact rfl
    · intro p ns name attrs kids ad st _ _; rw [serializeTag]; exact rfl
    · intro p ns name attrs kids ad st _ _; rw [prettySerializeTag]; exact rfl
    · intro p ns name attrs kids st _ _; rw [handleChildNodes]; exact rfl
    · intro p ns name attrs kids i st _ _; rw [serializeChildNodes]; exact rfl
  | succ fuel ih =>
    obtain ⟨ihN, ihT, ihP, ihH, ihC⟩ := ih
    have hstep : ∀ p node st, nodeAt e.root p = some node → node.isText = false → st.unwritten = [] →
        OF (nodeStep e fuel p node st) Flushed := by
      intro p node st hnode hnt hu
      unfold nodeStep
      refine Tot_bind_of (nodeFitsRemainingLine_of e hR st p ⟨_, hnode⟩) (fun fits _ _ => ?_)
      split
      · refine Tot_bind_of (serializeAppendableNode_sure e he hnode hnt st).of (fun st1 _ h1 => ?_)
        have h1' : st1.unwritten = [] := by rw [h1, hu]
        split
        · show (write st1 [nl]).unwritten = []
          rw [write_unwritten, h1']
        · exact Tot_mono (afterNode_of e hR p st1) (fun st2 _ h2 => by show st2.unwritten = []; rw [h2, h1'])
      · split
        · exact ihN p node _ hnode hnt (invU_nil e (by rw [write_unwritten, hu]))
        · generalize hst0 : (if (!e.o.indent.isEmpty && st.offset == 0 && legitBefore e.root p) = true then
              write st [.layout (indentN e.o st.level)] else st) = st0
          have hu0 : st0.unwritten = [] := by
            rw [← hst0]; split
            · rw [write_unwritten, hu]
            · exact hu
          have hk : ∀ st1 : St, st1.unwritten = [] →
              OF (afterNode e p { st1 with preserveSpace := false }) Flushed := by
            intro st1 h1
            exact Tot_mono (afterNode_of e hR p _) (fun st2 _ h2 => by show st2.unwritten = []; rw [h2]; exact h1)
          unfold plainNodeK
          split
          · rename_i ns name attrs kids
            have hns := envOk_sub he hnode
            obtain ⟨ad, had⟩ := attrsData_total (m := e.m) (sortAttrs attrs)
              (fun a ha => hns a.ns (by
                simp only [treeNamespaces]; simp; exact Or.inr (Or.inl ⟨a, mem_sortAttrs.mp ha, rfl⟩)))
            refine Tot_bind_of (sure_eq had).of (fun ad' _ _ => ?_)
            refine Tot_bind_of (ihT p ns name attrs kids ad' _ hnode ?_) (fun st1 _ h1 => hk st1 h1)
            split
            · exact hu0
            · exact hu0
          · exact hk _ (by rw [write_unwritten, hu0])
          · exact hk _ (by rw [write_unwritten, hu0])
          · simp [Node.isText] at hnt
    refine ⟨?_, ?_, ?_, ?_, ?_⟩
    · intro p node st hnode hnt hi
      rw [serializeNode_succ]
      refine Tot_bind_of (getNode_sure hnode).of (fun node' _ hn' => ?_)
      subst hn'
      split
      · rename_i hemp
        exact hstep p node' st hnode hnt (by simpa using hemp)
      · rename_i hemp
        refine Tot_bind_of (serializeText_of e hR st hi (by simpa using hemp)) (fun st1 _ h1 => ?_)
        exact hstep p node' st1 hnode hnt h1
    · intro p ns name attrs kids ad st hnode hu
      rw [serializeTag_succ]
      refine Tot_bind_of (nodeFitsRemainingLine_of e hR st p ⟨_, hnode⟩) (fun fits _ _ => ?_)
      split
      · exact Tot_mono (serializeAppendableNode_sure e he hnode rfl st).of
          (fun st1 _ h1 => by show st1.unwritten = []; rw [h1, hu])
      · exact ihP p ns name attrs kids ad st hnode hu
    · intro p ns name attrs kids ad st hnode hu
      rw [prettySerializeTag_succ]
      refine Tot_bind_of (getNode_sure hnode).of (fun node' _ hn' => ?_)
      subst hn'
      have hns := envOk_sub he hnode
      simp only
      split
      · refine Tot_bind_of (sure_ex (emitNode_total _ hns)).of (fun toks _ _ => ?_)
        show (preserveTag st ad toks).unwritten = []
        unfold preserveTag
        split <;> rw [writeToks_unwritten, hu]
      · unfold defaultTag
        refine Tot_bind_of (sure_ex (pfx_total (hns ns (by simp [treeNamespaces])))).of (fun pr _ _ => ?_)
        split
        · show (write st _).unwritten = []
          rw [write_unwritten, hu]
        · refine Tot_bind_of (ihH p ns name attrs kids _ hnode (by rw [write_unwritten, hu])) (fun st1 _ h1 => ?_)
          show (write st1 _).unwritten = []
          rw [write_unwritten]; exact h1
    · intro p ns name attrs kids st hnode hu
      rw [handleChildNodes_succ]
      refine Tot_bind_of (ihC p ns name attrs kids 0 _ hnode (invU_nil e ?_)) (fun st1 _ h1 => ?_)
      · show (if _ then _ else _ : St).unwritten = []
        split
        · rw [write_unwritten, hu]
        · exact hu
      · split
        · show (write _ _).unwritten = []
          rw [write_unwritten]; exact h1
        · exact h1
    · intro p ns name attrs kids i st hnode hi
      rw [serializeChildNodes_succ]
      split
      · split
        · rename_i hemp
          show st.unwritten = []
          simpa using hemp
        · rename_i hemp
          exact serializeText_of e hR st hi (by simpa using hemp)
      · rename_i hlt'
        have hlt : i < kids.length := by omega
        have hkid : nodeAt e.root (p ++ [i]) = some kids[i] := by
          rw [nodeAt_kid hnode]; simp [hlt]
        refine Tot_bind_of (getNode_sure hkid).of (fun k _ hk => ?_)
        subst hk
        split
        · rename_i s hs
          apply ihC p ns name attrs kids (i + 1) _ hnode
          split
          · exact hi
          · rename_i hse
            intro q hq
            simp only [List.mem_append, List.mem_singleton] at hq
            rcases hq with hq | rfl
            · exact hi q hq
            · exact ⟨s, by rw [hkid, hs], by simpa using hse⟩
        · rename_i hnt
          have hnt' : (kids[i]).isText = false := by
            cases hk : kids[i] with
            | text s => exact absurd hk (hnt s)
            | _ => rfl
          refine Tot_bind_of (ihN (p ++ [i]) _ st hkid hnt' hi) (fun st1 _ h1 => ?_)
          exact ihC p ns name attrs kids (i + 1) _ hnode (invU_nil e h1)

/-- **totality**: for a tag node whose namespaces the prefix map covers, `wrapRoot` yields an output -/
theorem wrapRoot_total (o : Opts) (width : Nat) (m : Dict) (root : Node) (htag : root.isTag = true)
    (hm : ∀ ns ∈ treeNamespaces root, (dget m ns).isSome) : ∃ out, wrapRoot o width m root = .ok out := by
  cases root with
  | tag ns name attrs kids =>
    obtain ⟨ad, had⟩ := attrsData_total (m := m) (sortAttrs attrs)
      (fun a ha => hm a.ns (by
        simp only [treeNamespaces]; simp; exact Or.inr (Or.inl ⟨a, mem_sortAttrs.mp ha, rfl⟩)))
    unfold wrapRoot
    simp only [had]
    generalize hroot : Node.tag ns name attrs kids = root at hm
    generalize he : ({ o := o, width := width, m := m, root := root, fuel := fuelFor root } : Env) = e
    have heo : EnvOk e := by subst he; exact hm
    have hnode : nodeAt e.root [] = some (.tag ns name attrs kids) := by subst he; rw [← hroot]; rfl
    have hR : ReqOk e := reqOk_of_le _ (by subst he; simp only [fuelFor]; omega)
    have h1 := (machine_noFuel e hR (fuelFor root)).2.2.1 [] _ (declarations m ++ ad) {} hnode
      (by rw [hroot]; simp only [fuelFor]; omega)
    have h2 := (machine_of e heo (fuelFor root)).2.1 [] ns name attrs kids (declarations m ++ ad) {} hnode rfl
    have h3 := Tot_both h1 h2
    cases hr : serializeTag e (fuelFor root) [] (declarations m ++ ad) {} with
    | error err => rw [hr] at h3; exact absurd h3.2 h3.1
    | ok st => exact ⟨_, rfl⟩
  | text s => cases htag
  | comment s => cases htag
  | pi t s => cases htag

/-! ## `TagNode.serialize` with format options: collecting the prefixes first -/

theorem newDecl_noFuel (nsmap m : Dict) (ns : String) : NoFuel (newDecl nsmap m ns) := by
  unfold newDecl
  split
  · trivial
  · exact noFuel_error (by decide)

theorem collectOne_noFuel (nsmap m : Dict) (ns : String) : NoFuel (collectOne nsmap m ns) := by
  unfold collectOne
  split
  · trivial
  · split
    · split
      · rename_i other _ _
        have := newDecl_noFuel nsmap m other
        split
        · rename_i err h; rw [h] at this; exact this
        · trivial
      · trivial
    · split
      · exact newDecl_noFuel _ _ _
      · split
        · exact newDecl_noFuel _ _ _
        · split
          · split
            · exact noFuel_error (by decide)
            · trivial
          · split
            · exact noFuel_error (by decide)
            · trivial

theorem collectMany_noFuel (nsmap : Dict) : ∀ (m : Dict) (l : List String), NoFuel (collectMany nsmap m l)
  | m, [] => trivial
  | m, ns :: rest => by
    rw [collectMany]
    have := collectOne_noFuel nsmap m ns
    split
    · rename_i err h; rw [h] at this; exact this
    · exact collectMany_noFuel nsmap _ rest

theorem collectNodes_noFuel (nsmap : Dict) : ∀ (m : Dict) (l : List (List String)), NoFuel (collectNodes nsmap m l)
  | m, [] => trivial
  | m, nss :: rest => by
    rw [collectNodes]
    have := collectMany_noFuel nsmap m nss
    split
    · rename_i err h; rw [h] at this; exact this
    · exact collectNodes_noFuel nsmap _ rest

/-- the whole `serialize` call with a line width ≥ 1 does not end with an exhausted budget -/
theorem serializeWrapped_noFuel (o : Opts) (width : Nat) (hw : 1 ≤ width) (nsmap : Dict) (root : Node)
    (orders : List (List String)) :
    serializeWrapped o width nsmap root orders ≠ .error (.invalidCodePath "fuel") := by
  unfold serializeWrapped
  have h1 : NoFuel (collect nsmap root orders) := collectNodes_noFuel _ _ _
  split
  · rename_i err h
    rw [h] at h1
    intro h2; cases h2; exact h1 rfl
  · have : (width == 0) = false := by simp; omega
    simp only [this, Bool.false_eq_true, if_false]
    exact wrapRoot_noFuel o width _ root

end Delb.Wrapping

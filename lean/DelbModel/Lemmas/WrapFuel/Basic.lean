import DelbModel.Lemmas.WrapTransparent.Machine
import DelbModel.Lemmas.WrapTransparent.Paths
/-!
# C03 (width ≥ 1), totality: a calculus for "ends well" and the measures of the recursion budget

`Tot P x Q`: the run `x` ends in a result that satisfies `Q`, or in an error that satisfies `P`.
* `P := (· ≠ fuelErr)`, `Q := fun _ => True` — the budget is not exhausted (`NoFuel`);
* `P := (· = fuelErr)` — nothing but an exhausted budget can go wrong.

`outside root p` counts the nodes that follow the subtree at `p` in document order (inside `root`),
`rest root p` the nodes from `p` on: `_required_space` walks along `_fetch_following`, its recursion
depth is bounded by `3 * rest root p + 1`.
-/
set_option linter.unusedSimpArgs false
namespace Delb.Wrapping
open Delb.Ser Delb.WS Delb.Pretty

/-- the error that signals an exhausted recursion budget -/
abbrev fuelErr : Err := .invalidCodePath "fuel"

def Tot {α : Type} (P : Err → Prop) (x : Except Err α) (Q : α → Prop) : Prop :=
  match x with
  | .ok a => Q a
  | .error err => P err

section
variable {α β : Type} {P : Err → Prop}

theorem Tot_ok (a : α) (Q : α → Prop) : Tot P (.ok a : Except Err α) Q ↔ Q a := Iff.rfl
theorem Tot_pure (a : α) (Q : α → Prop) : Tot P (pure a : Except Err α) Q ↔ Q a := Iff.rfl
theorem Tot_error (err : Err) (Q : α → Prop) : Tot P (.error err : Except Err α) Q ↔ P err := Iff.rfl
theorem Tot_throw (err : Err) (Q : α → Prop) : Tot P (throw err : Except Err α) Q ↔ P err := Iff.rfl

theorem Tot_bind_of {x : Except Err α} {f : α → Except Err β} {R : α → Prop} {Q : β → Prop}
    (hx : Tot P x R) (hf : ∀ a, x = .ok a → R a → Tot P (f a) Q) : Tot P (x >>= f) Q := by
  cases x with
  | error err => exact hx
  | ok a => exact hf a rfl hx

theorem Tot_mono {x : Except Err α} {Q R : α → Prop} (h : Tot P x Q) (hqr : ∀ a, x = .ok a → Q a → R a) :
    Tot P x R := by
  cases x with
  | error err => exact h
  | ok a => exact hqr a rfl h

theorem Tot_and_post {x : Except Err α} {Q R : α → Prop} (h : Tot P x Q) (hp : Post x R) :
    Tot P x (fun a => Q a ∧ R a) :=
  Tot_mono h (fun a ha hq => ⟨hq, hp a ha⟩)

theorem Tot_weaken {P' : Err → Prop} {x : Except Err α} {Q : α → Prop} (h : Tot P x Q)
    (hp : ∀ err, P err → P' err) : Tot P' x Q := by
  cases x with
  | error err => exact hp _ h
  | ok a => exact h

theorem Tot_both {P' : Err → Prop} {x : Except Err α} {Q Q' : α → Prop} (h : Tot P x Q) (h' : Tot P' x Q') :
    Tot (fun err => P err ∧ P' err) x (fun a => Q a ∧ Q' a) := by
  cases x with
  | error err => exact ⟨h, h'⟩
  | ok a => exact ⟨h, h'⟩

theorem Tot_false_ok {x : Except Err α} {Q : α → Prop} (h : Tot (fun _ => False) x Q) : ∃ a, x = .ok a ∧ Q a := by
  cases x with
  | error err => exact h.elim
  | ok a => exact ⟨a, rfl, h⟩
end

/-- the run does not end with an exhausted recursion budget -/
def NoFuel {α : Type} (x : Except Err α) : Prop := Tot (· ≠ fuelErr) x (fun _ => True)

theorem noFuel_iff {α : Type} (x : Except Err α) : NoFuel x ↔ x ≠ .error fuelErr := by
  cases x with
  | error err =>
    constructor
    · intro h h'; cases h'; exact h rfl
    · intro h h'; exact h (by rw [h'])
  | ok a => exact ⟨fun _ h => (by cases h), fun _ => trivial⟩

/-! ## sizes -/

theorem size_eq (n : Node) : size n = 1 + sizeList (kidsOf n) := by
  cases n <;> simp [size, kidsOf, sizeList]

theorem size_pos (n : Node) : 1 ≤ size n := by rw [size_eq]; omega

theorem sizeList_drop : ∀ {kids : List Node} {i : Nat} {k : Node}, kids[i]? = some k →
    sizeList (kids.drop i) = size k + sizeList (kids.drop (i + 1))
  | [], i, k, h => by simp at h
  | x :: xs, 0, k, h => by
    simp at h; subst h; simp [sizeList]
  | x :: xs, i + 1, k, h => by
    simp at h
    simpa using sizeList_drop h

theorem sizeList_drop_le : ∀ (kids : List Node) (i : Nat), sizeList (kids.drop i) ≤ sizeList kids
  | [], i => by simp
  | x :: xs, 0 => by simp
  | x :: xs, i + 1 => by
    have := sizeList_drop_le xs i
    simp [sizeList]; omega

theorem sizeList_drop_length (kids : List Node) : sizeList (kids.drop kids.length) = 0 := by
  simp [sizeList]

/-! ## the nodes that follow in document order -/

/-- the number of nodes below `n` that follow the subtree at `p` in document order -/
def outside : Node → Path → Nat
  | _, [] => 0
  | n, i :: p =>
    match (kidsOf n)[i]? with
    | some k => outside k p + sizeList ((kidsOf n).drop (i + 1))
    | none => 0

/-- the number of nodes from the one at `p` on, in document order -/
def rest (root : Node) (p : Path) : Nat :=
  match nodeAt root p with
  | some n => size n + outside root p
  | none => 0

theorem outside_snoc : ∀ {root : Node} {p : Path} {n k : Node} {i : Nat}, nodeAt root p = some n →
    (kidsOf n)[i]? = some k → outside root (p ++ [i]) = sizeList ((kidsOf n).drop (i + 1)) + outside root p
  | root, [], n, k, i, hn, hk => by
    simp [nodeAt] at hn; subst hn
    simp [outside, hk]
  | root, j :: p, n, k, i, hn, hk => by
    simp only [nodeAt] at hn
    cases hj : (kidsOf root)[j]? with
    | none => rw [hj] at hn; cases hn
    | some c =>
      rw [hj] at hn
      simp only [List.cons_append, outside, hj]
      rw [outside_snoc hn hk]; omega

theorem rest_snoc {root : Node} {p : Path} {n k : Node} {i : Nat} (hn : nodeAt root p = some n)
    (hk : (kidsOf n)[i]? = some k) : rest root (p ++ [i]) = sizeList ((kidsOf n).drop i) + outside root p := by
  unfold rest
  rw [nodeAt_snoc hn, hk, outside_snoc hn hk, sizeList_drop hk]
  simp only; omega

theorem rest_valid {root : Node} {p : Path} {n : Node} (hn : nodeAt root p = some n) :
    rest root p = size n + outside root p := by
  simp [rest, hn]

theorem rest_le : ∀ (root : Node) (p : Path), rest root p ≤ size root
  | root, [] => by simp [rest, nodeAt, outside]
  | root, i :: p => by
    unfold rest
    simp only [nodeAt, outside]
    cases hi : (kidsOf root)[i]? with
    | none => simp
    | some k =>
      simp only
      have h1 := rest_le k p
      unfold rest at h1
      cases hn : nodeAt k p with
      | none => simp
      | some n =>
        rw [hn] at h1
        simp only at h1 ⊢
        have h2 := sizeList_drop hi
        have h3 := sizeList_drop_le (kidsOf root) i
        have h4 := size_eq root
        omega

/-- a valid non-empty path ends below a valid parent -/
theorem nodeAt_snoc_inv {root : Node} {q : Path} {i : Nat} {n : Node} (h : nodeAt root (q ++ [i]) = some n) :
    ∃ pn, nodeAt root q = some pn ∧ (kidsOf pn)[i]? = some n := by
  cases hq : nodeAt root q with
  | none => rw [nodeAt_append, hq] at h; cases h
  | some pn => exact ⟨pn, rfl, by rw [nodeAt_snoc hq] at h; exact h⟩

theorem lenAt_pos {root : Node} {q : Path} {i : Nat} (h : i < lenAt root q) :
    ∃ pn k, nodeAt root q = some pn ∧ (kidsOf pn)[i]? = some k := by
  unfold lenAt at h
  cases hq : nodeAt root q with
  | none => rw [hq] at h; simp at h
  | some pn =>
    rw [hq] at h
    exact ⟨pn, (kidsOf pn)[i], rfl, by simp [h]⟩

theorem path_cases (p : Path) : p = [] ∨ ∃ q i, p = q ++ [i] := by
  rcases List.eq_nil_or_concat p with h | ⟨q, i, h⟩
  · exact Or.inl h
  · exact Or.inr ⟨q, i, by simpa using h⟩

theorem fetchFollowingSibling_snoc (root : Node) (q : Path) (i : Nat) :
    fetchFollowingSibling root (q ++ [i]) = if i + 1 < lenAt root q then some (q ++ [i + 1]) else none := by
  simp [fetchFollowingSibling]

/-- the following sibling of a node: what follows the node's subtree starts with it -/
theorem rest_sibling {root : Node} {p s : Path} {n : Node} (hn : nodeAt root p = some n)
    (hs : fetchFollowingSibling root p = some s) : rest root s ≤ outside root p := by
  rcases path_cases p with rfl | ⟨q, i, rfl⟩
  · simp [fetchFollowingSibling] at hs
  · rw [fetchFollowingSibling_snoc] at hs
    split at hs
    · rename_i hlt
      cases hs
      obtain ⟨pn, hq, hi⟩ := nodeAt_snoc_inv hn
      obtain ⟨pn', k, hq', hk⟩ := lenAt_pos hlt
      rw [hq] at hq'; cases hq'
      rw [rest_snoc hq hk, outside_snoc hq hi]
      omega
    · cases hs

theorem outside_parent {root : Node} {q : Path} {i : Nat} {n : Node} (hn : nodeAt root (q ++ [i]) = some n) :
    outside root q ≤ outside root (q ++ [i]) := by
  obtain ⟨pn, hq, hi⟩ := nodeAt_snoc_inv hn
  rw [outside_snoc hq hi]; omega

theorem rest_nextSibling (root : Node) : ∀ (fuel : Nat) (p q : Path) (n : Node), nodeAt root p = some n →
    nextSiblingOfAnAncestor root fuel p = some q → rest root q ≤ outside root p
  | 0, p, q, n, hn, h => by simp [nextSiblingOfAnAncestor] at h
  | fuel + 1, p, q, n, hn, h => by
    rcases path_cases p with rfl | ⟨par, i, rfl⟩
    · simp [nextSiblingOfAnAncestor, parentOf] at h
    · simp only [nextSiblingOfAnAncestor, parentOf_snoc] at h
      obtain ⟨pn, hpar, hi⟩ := nodeAt_snoc_inv hn
      have hle := outside_parent hn
      split at h
      · cases h
      · split at h
        · rename_i s hs
          cases h
          have := rest_sibling hpar hs
          omega
        · have := rest_nextSibling root fuel par q pn hpar h
          omega

/-- `_fetch_following` moves on by at least one node -/
theorem rest_following {root : Node} {p q : Path} {n : Node} (hn : nodeAt root p = some n)
    (hq : fetchFollowing root p = some q) : rest root q + 1 ≤ rest root p := by
  unfold fetchFollowing at hq
  rw [rest_valid hn]
  split at hq
  · rename_i hlen
    cases hq
    obtain ⟨pn, k, hp, hk⟩ := lenAt_pos hlen
    rw [hn] at hp; cases hp
    rw [rest_snoc hn hk, size_eq]
    simp
    omega
  · have := size_pos n
    split at hq
    · rename_i s hs
      cases hq
      have := rest_sibling hn hs
      omega
    · have := rest_nextSibling root _ p q n hn hq
      omega

end Delb.Wrapping

import DelbModel.Lemmas.WrapFuel.Basic
import DelbModel.Lemmas.WrapTransparent.Text
import DelbModel.Lemmas.Roundtrip
/-!
# Facts behind the totality of the text-wrapping serializer

* the navigation (`_fetch_following`, `fetch_following_sibling`) only yields paths of existing nodes;
* every namespace of a subtree is a namespace of the tree;
* normalized text content is not empty, and — unless it is a single space — not blank;
* `_wrap_text` yields at least one line for a non-empty text, and the first line of a text that does not begin
  with a space is not empty.
-/
set_option linter.unusedSimpArgs false
namespace Delb.Wrapping
open Delb.Ser Delb.WS Delb.Pretty

/-! ## navigation stays inside the tree -/

def Valid (root : Node) (p : Path) : Prop := ∃ n, nodeAt root p = some n

theorem valid_kid {root : Node} {p : Path} {i : Nat} (h : i < lenAt root p) : Valid root (p ++ [i]) := by
  obtain ⟨pn, k, hp, hk⟩ := lenAt_pos h
  exact ⟨k, by rw [nodeAt_snoc hp, hk]⟩

theorem fetchFollowingSibling_valid {root : Node} {p s : Path} (h : fetchFollowingSibling root p = some s) :
    Valid root s := by
  rcases path_cases p with rfl | ⟨q, i, rfl⟩
  · simp [fetchFollowingSibling] at h
  · rw [fetchFollowingSibling_snoc] at h
    split at h
    · rename_i hlt; cases h; exact valid_kid hlt
    · cases h

theorem nextSiblingOfAnAncestor_valid (root : Node) : ∀ (n : Nat) (p q : Path),
    nextSiblingOfAnAncestor root n p = some q → Valid root q
  | 0, p, q, h => by simp [nextSiblingOfAnAncestor] at h
  | n + 1, p, q, h => by
    simp only [nextSiblingOfAnAncestor] at h
    split at h
    · cases h
    · split at h
      · rename_i s hs; cases h; exact fetchFollowingSibling_valid hs
      · exact nextSiblingOfAnAncestor_valid root n _ q h

theorem fetchFollowing_valid {root : Node} {p q : Path} (h : fetchFollowing root p = some q) : Valid root q := by
  unfold fetchFollowing at h
  split at h
  · rename_i hlen; cases h; exact valid_kid hlen
  · split at h
    · rename_i s hs; cases h; exact fetchFollowingSibling_valid hs
    · exact nextSiblingOfAnAncestor_valid root _ _ q h

/-! ## namespaces of subtrees -/

theorem kidsNamespaces_mem : ∀ {kids : List Node} {i : Nat} {k : Node}, kids[i]? = some k →
    ∀ ns ∈ treeNamespaces k, ns ∈ kidsNamespaces kids
  | [], i, k, h => by simp at h
  | x :: xs, 0, k, h => by
    simp at h; subst h
    intro ns hns; simp [kidsNamespaces, hns]
  | x :: xs, i + 1, k, h => by
    simp at h
    intro ns hns
    have := kidsNamespaces_mem h ns hns
    simp [kidsNamespaces, this]

theorem treeNamespaces_nodeAt : ∀ {root : Node} {p : Path} {n : Node}, nodeAt root p = some n →
    ∀ ns ∈ treeNamespaces n, ns ∈ treeNamespaces root
  | root, [], n, h => by
    simp [nodeAt] at h; subst h; exact fun _ h => h
  | root, i :: p, n, h => by
    simp only [nodeAt] at h
    cases hi : (kidsOf root)[i]? with
    | none => rw [hi] at h; cases h
    | some k =>
      rw [hi] at h
      intro ns hns
      have h1 := treeNamespaces_nodeAt h ns hns
      cases root with
      | tag rns name attrs kids =>
        simp only [kidsOf] at hi
        have := kidsNamespaces_mem hi ns h1
        simp [treeNamespaces, this]
      | _ => simp [kidsOf] at hi

/-! ## normalized text -/

theorem collapse_ne_nil {s : Str} (h : s ≠ []) : collapse pyWs s ≠ [] := by
  cases s with
  | nil => exact absurd rfl h
  | cons c cs =>
    unfold collapse collapseAux
    split <;> simp

theorem normalizeText_ne_nil {s : Str} (h : s ≠ []) : normalizeText s ≠ [] :=
  escapeText_ne_nil (collapse_ne_nil h)

/-- normalized text is blank only if it is a single space -/
theorem ltrim_normalizeText_ne_nil {s : Str} (h : s ≠ []) (h1 : normalizeText s ≠ [' ']) :
    ltrim pyWs (normalizeText s) ≠ [] := by
  intro hl
  unfold normalizeText normText at hl h1
  rw [ltrim_escapeText] at hl
  have h2 := escapeText_eq_nil hl
  have h3 : strip pyWs (collapse pyWs s) = [] := by
    unfold strip; rw [h2]; rfl
  apply h1
  rw [collapse_eq_space_of_strip_nil h h3]
  rfl

theorem head_ltrim (s : Str) : (ltrim pyWs s).head? ≠ some ' ' := by
  unfold ltrim
  intro h
  have := List.head?_dropWhile_not pyWs s
  rw [h] at this
  simp [pyWs_space] at this

/-! ## `_wrap_text` -/

theorem wrapText_ne_nil (w : Nat) {t : Str} (h : t ≠ []) : Wrap.wrapText w t ≠ [] :=
  Wrap.wrap_ne_nil w _ t h (by omega)

/-- the first line of a text that does not begin with a space is not empty -/
theorem wrapText_head (w : Nat) {t : Str} (h : t ≠ []) (hs : t.head? ≠ some ' ') :
    ∃ l rest, Wrap.wrapText w t = l :: rest ∧ l ≠ [] := by
  unfold Wrap.wrapText
  rw [Wrap.wrap]
  split
  · split
    · rename_i i hi
      obtain ⟨_, hlt, hsp⟩ := Wrap.rfindSp_spec t _ i hi
      refine ⟨_, _, rfl, ?_⟩
      cases i with
      | zero =>
        cases t with
        | nil => exact absurd rfl h
        | cons c cs => simp at hsp; subst hsp; simp at hs
      | succ i =>
        cases t with
        | nil => exact absurd rfl h
        | cons c cs => simp
    · split
      · refine ⟨_, _, rfl, ?_⟩
        cases t with
        | nil => exact absurd rfl h
        | cons c cs => simp
      · exact ⟨t, [], rfl, h⟩
  · exact ⟨t, [], rfl, h⟩

end Delb.Wrapping

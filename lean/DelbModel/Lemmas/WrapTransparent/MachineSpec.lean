import DelbModel.Lemmas.WrapTransparent.Skeleton
/-!
# C03 (width ≥ 1), machine half: what the serializer's methods write

Under the assumption `TextSpec` about `_serialize_text` (proved in `WrapTransparent/Text.lean`), every
method of the text-wrapping serializer writes pieces that read back as the plain emission of a
laid-out tree (`Lay`).
-/
set_option linter.unusedSimpArgs false
namespace Delb.Wrapping
open Delb.Ser Delb.WS Delb.Pretty

/-- characters already written in the current gap can be turned into a text node of the laid-out tree -/
theorem layKids_absorb : ∀ (rest : List Node) (first : Bool) (pend : Option Str) (g0 : List Str) (K : List Node),
    LayKids first pend g0.flatten rest K → LayKids first pend [] rest (g0.map Node.text ++ K) := by
  intro rest
  induction rest with
  | nil =>
    intro first pend g0 K h
    cases h with
    | nil _ _ _ g hg =>
      rw [← List.map_append]
      apply LayKids.nil
      intro T hT
      have := hg T hT
      simpa [List.append_assoc] using this
  | cons k rest ih =>
    intro first pend g0 K h
    cases h with
    | text _ _ s _ _ h' => exact LayKids.text _ _ _ _ _ (ih _ _ _ _ h')
    | node _ _ _ g _ u _ K' hnt hgap hlay hrest =>
      have : g0.map Node.text ++ (g.map Node.text ++ u :: K') = (g0 ++ g).map Node.text ++ u :: K' := by simp
      rw [this]
      exact LayKids.node _ _ _ _ _ _ _ _ hnt (by simpa [List.append_assoc] using hgap) hlay hrest

/-- `emitRoot`'s treatment of the first start tag -/
def withAd (ad : List (Str × Str)) : List Tok → List Tok
  | .stag qn _ sc :: rest => .stag qn ad sc :: rest
  | ts => ts

theorem withAd_self {m : Dict} {ns name : String} {attrs : List Attr} {kids : List Node} {toks : List Tok}
    {ad : List (Str × Str)} (h : emitNode m (.tag ns name attrs kids) = .ok toks)
    (had : attrsData m (sortAttrs attrs) = .ok ad) : withAd ad toks = toks := by
  obtain ⟨p, ad', ks, _, had', _, rfl⟩ := emitNode_tag_inv h
  rw [had] at had'; cases had'
  split <;> rfl

theorem lay_tag_inv {ns name : String} {attrs : List Attr} {kids : List Node} {u : Node}
    (h : Lay (.tag ns name attrs kids) u) : ∃ K, u = .tag ns name attrs K := by
  cases h with
  | plain => exact ⟨_, rfl⟩
  | elem => exact ⟨_, rfl⟩

/-! ## legit positions in terms of the child list -/

section
variable {e : Env} {q : Path} {ns name : String} {attrs : List Attr} {kids : List Node}
  (hp : Par e q ns name attrs kids)
include hp

theorem legitBefore_tB {i : Nat} {k : Node} (hk : kids[i]? = some k) (hnt : k.isText = false) :
    legitBefore e.root (q ++ [i]) = (match tB kids i with | none => i == 0 | some s => lastIsSpace s) := by
  rw [legitBefore_nontext hp.at_ i k hk hnt]
  unfold tB
  by_cases hi : i = 0
  · simp [hi]
  · have hb : (i == 0) = false := by simpa using hi
    simp only [hi, if_false, hb, Bool.false_or]
    generalize kids[i - 1]? = x
    cases x with
    | none => rfl
    | some n => cases n <;> rfl

theorem legitAfter_legBK {i : Nat} {k : Node} (hk : kids[i]? = some k) (hnt : k.isText = false) :
    legitAfter e.root (q ++ [i]) = legBK false none (kids.drop (i + 1)) := by
  rw [legitAfter_nontext hp.at_ i k hk hnt]
  have hlt : i < kids.length := (List.getElem?_eq_some_iff.1 hk).1
  unfold legBK
  simp only [Bool.false_or]
  by_cases hl : i + 1 = kids.length
  · have : kids.drop (i + 1) = [] := by rw [List.drop_eq_nil_iff]; omega
    simp [hl, this]
  · have hlt' : i + 1 < kids.length := by omega
    have hb : (i + 1 == kids.length) = false := by simpa using hl
    rw [List.drop_eq_getElem_cons hlt', hb, List.getElem?_eq_getElem hlt']
    simp only [Bool.false_or]
    generalize kids[i + 1] = n
    cases n <;> rfl

omit hp in
theorem tB_succ_nontext {i : Nat} {k : Node} (hk : kids[i]? = some k) (hnt : k.isText = false) :
    tB kids (i + 1) = none := by
  unfold tB
  simp only [Nat.add_one_ne_zero, if_false, Nat.add_sub_cancel, hk]
  cases k <;> simp_all [Node.isText]

omit hp in
theorem tB_succ_text {i : Nat} {s : Str} (hk : kids[i]? = some (.text s)) : tB kids (i + 1) = some s := by
  unfold tB
  simp [hk]

theorem tB_of_text {i : Nat} {s : Str} (hk : kids[i]? = some (.text s)) : tB kids i = none := by
  unfold tB
  by_cases hi : i = 0
  · simp [hi]
  · simp only [hi, if_false]
    cases hx : kids[i - 1]? with
    | none => rfl
    | some n =>
      cases n with
      | text t =>
        have := mergedKids_adjacent hp.merged hx (.text s) (by rw [show i - 1 + 1 = i by omega]; exact hk)
        simp at this
      | _ => rfl

omit hp in
theorem tB_some {i : Nat} {s : Str} (h : tB kids i = some s) : i ≠ 0 ∧ kids[i - 1]? = some (.text s) := by
  unfold tB at h
  by_cases hi : i = 0
  · simp [hi] at h
  · simp only [hi, if_false] at h
    refine ⟨hi, ?_⟩
    cases hx : kids[i - 1]? with
    | none => rw [hx] at h; cases h
    | some n => rw [hx] at h; cases n <;> simp_all
end
def TagPost (e : Env) (k : Node) (ad : List (Str × Str)) (st st' : St) : Prop :=
  ∃ ind N u toks, st'.out = st.out ++ ind ++ N ∧ AllGap ind ∧ NonEmp ind ∧ AllWs (gapChars ind) ∧
    (ind ≠ [] → st.offset = 0) ∧ Lay k u ∧ emitNode e.m u = .ok toks ∧ eraseAll N = withAd ad toks ∧
    EndsMarkup N ∧ st'.offset ≠ 0 ∧ st'.level = st.level ∧ st'.unwritten = [] ∧ st'.space = .default

def SpecN (e : Env) (fuel : Nat) : Prop :=
  ∀ (q : Path) (ns name : String) (attrs : List Attr) (kids : List Node) (i : Nat) (k : Node) (st : St),
    Par e q ns name attrs kids → kids[i]? = some k → k.isText = false →
    (Ready e (tB kids i) (firstOf (tB kids i) i) st ∨
      ∃ s, tB kids i = some s ∧ Pending q i s (firstOf (tB kids i) i) st) →
    Post (serializeNode e fuel (q ++ [i]) st) (NodePost e (q ++ [i]) k (tB kids i) (firstOf (tB kids i) i) st)

def SpecT (e : Env) (fuel : Nat) : Prop :=
  ∀ (p : Path) (ns name : String) (attrs : List Attr) (kids : List Node) (ad : List (Str × Str)) (st : St),
    p ≠ [] → nodeAt e.root p = some (.tag ns name attrs kids) → RedIn .default (.tag ns name attrs kids) →
    attrsData e.m (sortAttrs attrs) = .ok ad → st.space = .default → st.unwritten = [] →
    st.preserveSpace = (directive attrs .default == .preserve) →
    Post (serializeTag e fuel p ad st) (TagPost e (.tag ns name attrs kids) ad st)

def SpecP (e : Env) (fuel : Nat) : Prop :=
  ∀ (p : Path) (ns name : String) (attrs : List Attr) (kids : List Node) (ad ad0 : List (Str × Str)) (st : St),
    nodeAt e.root p = some (.tag ns name attrs kids) → RedIn .default (.tag ns name attrs kids) →
    attrsData e.m (sortAttrs attrs) = .ok ad0 → st.space = .default → st.unwritten = [] →
    st.preserveSpace = (directive attrs .default == .preserve) →
    Post (prettySerializeTag e fuel p ad st) (fun st' => ∃ N u toks, st'.out = st.out ++ N ∧
      Lay (.tag ns name attrs kids) u ∧ emitNode e.m u = .ok toks ∧ eraseAll N = withAd ad toks ∧
      EndsMarkup N ∧ st'.offset ≠ 0 ∧ st'.level = st.level ∧ st'.unwritten = [] ∧ st'.space = .default)

def SpecH (e : Env) (fuel : Nat) : Prop :=
  ∀ (q : Path) (ns name : String) (attrs : List Attr) (kids : List Node) (st : St),
    Par e q ns name attrs kids → kids ≠ [] → Base st → st.unwritten = [] → st.offset ≠ 0 → trailGap st.out = [] →
    Post (handleChildNodes e fuel q kids.length st) (fun st' => ∃ ps K toks, st'.out = st.out ++ ps ∧
      LayKids true none [] kids K ∧ emitKids e.m K = .ok toks ∧ eraseAll ps = toks ∧
      Base st' ∧ st'.level = st.level ∧ st'.unwritten = [])

def SpecC (e : Env) (fuel : Nat) : Prop :=
  ∀ (q : Path) (ns name : String) (attrs : List Attr) (kids : List Node) (i : Nat) (st : St),
    Par e q ns name attrs kids → i ≤ kids.length → Base st → Off st → AllWs (trailGap st.out) →
    (trailGap st.out ≠ [] → legBK (firstOf (tB kids i) i) (tB kids i) (kids.drop i) = true) →
    st.unwritten = (match tB kids i with | some _ => [q ++ [i - 1]] | none => []) →
    Post (serializeChildNodes e fuel q i kids.length st) (fun st' => ∃ ps K toks, st'.out = st.out ++ ps ∧
      LayKids (firstOf (tB kids i) i) (tB kids i) (trailGap st.out) (kids.drop i) K ∧
      emitKids e.m K = .ok toks ∧ eraseAll ps = toks ∧ Base st' ∧ st'.level = st.level ∧ st'.unwritten = [])

theorem lineOffset_pos {e : Env} {st : St} (h : lineOffset e st > 0) : st.offset ≠ 0 := by
  intro h0
  unfold lineOffset at h
  simp [h0] at h

theorem gapOwed_last {s w : Str} {f : Bool} (h : GapOwed s w f) : lastIsSpace s = true := by
  obtain ⟨s', rfl, _⟩ := h
  rw [lastIsSpace_concat]; exact pyWs_space

section
variable (e : Env) (hind : AllWs e.o.indent)

/-- the end of `serialize_node`, after the node's last piece has been written -/
theorem finish_node {p : Path} {k u : Node} {t : Option Str} {first : Bool} {st st2 : St} {g N : List Piece}
    {toks : List Tok} (hout : st2.out = st.out ++ g ++ N) (hg1 : AllGap g) (hg2 : NonEmp g)
    (hgap : GapOK t (trailGap st.out ++ gapChars g) first false) (hlay : Lay k u)
    (hemit : emitNode e.m u = .ok toks) (her : eraseAll N = toks) (hN : EndsMarkup N) (hoff : st2.offset ≠ 0)
    (hsp : st2.space = .default) (hunw : st2.unwritten = []) (hlev : st2.level = st.level) :
    Post (afterNode e p { st2 with preserveSpace := false }) (NodePost e p k t first st) := by
  refine Post_mono (afterNode_spec e p { st2 with preserveSpace := false } ⟨rfl, hsp⟩ hoff) ?_
  intro st' ⟨b, b1, b2, b3, b4, b5, b6, b7, b8, b9⟩
  exact ⟨g, N, b, u, toks, by rw [b1]; show st2.out ++ b = _; rw [hout], hg1, hg2, hgap, hlay, hemit, her, hN,
    b2, b3, b4, b5, b6, b7, by rw [b8]; exact hunw, by rw [b9]; exact hlev⟩

include hind

theorem nodeStep_spec (fuel : Nat) (ihN : SpecN e fuel) (ihT : SpecT e fuel)
    {q : Path} {ns name : String} {attrs : List Attr} {kids : List Node} {i : Nat} {k : Node} {st : St}
    (hp : Par e q ns name attrs kids) (hk : kids[i]? = some k) (hnt : k.isText = false)
    (hr : Ready e (tB kids i) (firstOf (tB kids i) i) st) :
    Post (nodeStep e fuel (q ++ [i]) k st) (NodePost e (q ++ [i]) k (tB kids i) (firstOf (tB kids i) i) st) := by
  have hnode : nodeAt e.root (q ++ [i]) = some k := by rw [nodeAt_kid hp.at_]; exact hk
  have hkmem : k ∈ kids := List.mem_of_getElem? hk
  have hred : RedIn .default k := hp.kidRed hkmem hnt
  have hts : ∀ s, tB kids i = some s → s ≠ [] := by
    intro s hs
    exact (hp.textFix (List.mem_of_getElem? (tB_some hs).2)).2
  have hLB : legitBefore e.root (q ++ [i]) = true → LegT (tB kids i) (firstOf (tB kids i) i) := by
    intro h
    rw [legitBefore_tB hp hk hnt] at h
    unfold LegT firstOf
    cases ht : tB kids i with
    | none => rw [ht] at h; simpa using h
    | some s => rw [ht] at h; simpa using h
  obtain ⟨hbase, hoff, hunw, hgap⟩ := hr
  unfold nodeStep
  refine Post_bind_of (Post_self _) (fun fits hfits => ?_)
  by_cases hf : fits = true
  · -- the node fits the remaining line
    rw [if_pos hf]
    have hg : GapReady (tB kids i) (firstOf (tB kids i) i) (trailGap st.out) := by
      rcases hgap with hg | ⟨s, _, _, hav, _⟩
      · exact hg
      · have := not_fits_zero e st _ k hnode hnt hav fits hfits
        rw [hf] at this; cases this
    refine Post_bind_of (appendable_spec e hind hnode hnt hred hbase.2 (fun _ => hbase.1)) ?_
    intro st1 ⟨ind, N, toks, a1, a2, a3, a4, a5, a6, a7, a8, a9, a10, a11, a12, a13⟩
    have hg' : GapReady (tB kids i) (firstOf (tB kids i) i) (trailGap st.out ++ gapChars ind) := by
      apply gap_ext hg a4
      intro hne
      have : ind ≠ [] := by intro h; rw [h] at hne; exact hne rfl
      exact legT_of_lineStart hg hts (hoff (a5 this))
    split
    · rename_i hc
      rw [Post_pure]
      obtain ⟨b, b1, b2, b3, b4, b5, b6, _⟩ := ws_step st1 ['\n'] allWs_nl
      refine ⟨ind, N, b, k, toks, by rw [show (write st1 [nl]).out = st1.out ++ b from b1, a1], a2, a3, gap_close hg', Lay.plain k, a6, a7, a8, b2, b3, b4, ?_,
        base_write ⟨a10, a13⟩ _, b6 (fun h => absurd h a9), by simp [a12, hunw], by simp [a11]⟩
      intro _
      simp only [Bool.and_eq_true] at hc
      exact hc.2
    · refine Post_mono (afterNode_spec e _ st1 ⟨a10, a13⟩ a9) ?_
      intro st' ⟨b, b1, b2, b3, b4, b5, b6, b7, b8, b9⟩
      exact ⟨ind, N, b, k, toks, by rw [b1, a1], a2, a3, gap_close hg', Lay.plain k, a6, a7, a8, b2, b3, b4, b5, b6, b7,
        by rw [b8, a12, hunw], by rw [b9, a11]⟩
  · rw [if_neg hf]
    by_cases hrec : (decide (lineOffset e st > 0) && legitBefore e.root (q ++ [i])) = true
    · -- line break, then once more
      rw [if_pos hrec]
      simp only [Bool.and_eq_true, decide_eq_true_eq] at hrec
      obtain ⟨hlo, hlb⟩ := hrec
      have ho : st.offset ≠ 0 := lineOffset_pos hlo
      obtain ⟨g0, c1, c2, c3, c4, c5, c6, c7⟩ := ws_step st ['\n'] allWs_nl
      have hgc : gapChars g0 = ['\n'] := c7 ho (by simp)
      have hready : Ready e (tB kids i) (firstOf (tB kids i) i) (write st [nl]) := by
        refine ⟨base_write hbase _, c6 hoff, by simp [hunw], Or.inl ?_⟩
        show GapReady _ _ (trailGap (write st [Piece.layout ['\n']]).out)
        rw [c5]
        rcases hgap with hg | ⟨s, hs, how, _, _⟩
        · exact gap_ext hg c4 (fun _ => hLB hlb)
        · rw [hs] at how ⊢
          exact gapOwed_append_ws how c4 (by rw [hgc]; simp)
      refine Post_mono (ihN q ns name attrs kids i k _ hp hk hnt (Or.inl hready)) ?_
      intro st' ⟨g, N, b, u, toks, d1, d2, d3, d4, d5, d6, d7, d8, d9, d10, d11, d12, d13, d14, d15, d16⟩
      have c1' : (write st [nl]).out = st.out ++ g0 := c1
      have c5' : trailGap (write st [nl]).out = trailGap st.out ++ gapChars g0 := c5
      refine ⟨g0 ++ g, N, b, u, toks, by rw [d1, c1']; simp, allGap_append c2 d2, nonEmp_append c3 d3, ?_, d5, d6, d7, d8,
        d9, d10, d11, d12, d13, d14, d15, by rw [d16]; simp⟩
      rw [c5'] at d4
      simpa [List.append_assoc] using d4
    · -- written by the plain serializer, piece by piece
      rw [if_neg hrec]
      have hg : GapReady (tB kids i) (firstOf (tB kids i) i) (trailGap st.out) := by
        rcases hgap with hg | ⟨s, hs, how, _, hlo⟩
        · exact hg
        · exfalso
          apply hrec
          have hl : legitBefore e.root (q ++ [i]) = true := by
            rw [legitBefore_tB hp hk hnt, hs]; exact gapOwed_last how
          simp [hlo, hl]
      -- the indentation
      obtain ⟨g0, st0, hs0, e1, e2, e3, e4, e5, e6, e7, e8, e9⟩ : ∃ g0 st0,
          (if (!e.o.indent.isEmpty && st.offset == 0 && legitBefore e.root (q ++ [i])) = true then
            write st [.layout (indentN e.o st.level)] else st) = st0 ∧
          st0.out = st.out ++ g0 ∧ AllGap g0 ∧ NonEmp g0 ∧
          GapReady (tB kids i) (firstOf (tB kids i) i) (trailGap st.out ++ gapChars g0) ∧
          trailGap st0.out = trailGap st.out ++ gapChars g0 ∧ Base st0 ∧ Off st0 ∧ st0.unwritten = [] ∧
          st0.level = st.level := by
        by_cases hc : (!e.o.indent.isEmpty && st.offset == 0 && legitBefore e.root (q ++ [i])) = true
        · rw [if_pos hc]
          simp only [Bool.and_eq_true] at hc
          obtain ⟨g0, c1, c2, c3, c4, c5, c6, _⟩ := ws_step st (indentN e.o st.level) (allWs_indentN e.o hind _)
          exact ⟨g0, _, rfl, c1, c2, c3, gap_ext hg c4 (fun _ => hLB hc.2), c5, base_write hbase _, c6 hoff,
            by simp [hunw], by simp⟩
        · rw [if_neg hc]
          exact ⟨[], _, rfl, by simp, allGap_nil, nonEmp_nil, by simpa using hg, by simp, hbase, hoff, hunw, rfl⟩
      rw [hs0]
      have hgc := gap_close e4
      unfold plainNodeK
      cases k with
      | text s => simp [Node.isText] at hnt
      | comment s =>
        simp only
        obtain ⟨w1, w2⟩ := write_mk st0 (.comment s) trivial
        exact finish_node e (g := g0) (N := [.comment s]) (toks := [.comment s]) (by rw [w1, e1]) e2 e3 hgc (Lay.plain _)
          (by simp [emitNode]) (by simp [erase]) ⟨[], _, rfl, rfl⟩ w2 (by simp [e6.2]) (by simp [e8]) (by simp [e9])
      | pi tg s =>
        simp only
        obtain ⟨w1, w2⟩ := write_mk st0 (.pi tg s) trivial
        exact finish_node e (g := g0) (N := [.pi tg s]) (toks := [.pi tg s]) (by rw [w1, e1]) e2 e3 hgc (Lay.plain _)
          (by simp [emitNode]) (by simp [erase]) ⟨[], _, rfl, rfl⟩ w2 (by simp [e6.2]) (by simp [e8]) (by simp [e9])
      | tag ns' name' attrs' kids' =>
        simp only
        refine Post_bind_of (Post_self _) (fun ad had => ?_)
        have hpre : ∃ st0', (if (directive attrs' Mode.default == Mode.preserve) = true then
              { st0 with preserveSpace := true } else st0) = st0' ∧ st0'.out = st0.out ∧ st0'.offset = st0.offset ∧
            st0'.level = st0.level ∧ st0'.unwritten = st0.unwritten ∧ st0'.space = st0.space ∧
            st0'.preserveSpace = (directive attrs' Mode.default == Mode.preserve) := by
          by_cases hd : (directive attrs' Mode.default == Mode.preserve) = true
          · rw [if_pos hd]; exact ⟨_, rfl, rfl, rfl, rfl, rfl, rfl, by simp [hd]⟩
          · rw [if_neg hd]; exact ⟨_, rfl, rfl, rfl, rfl, rfl, rfl, by rw [e6.1]; simpa using hd⟩
        obtain ⟨st0', hs0', f1, f2, f3, f4, f5, f6⟩ := hpre
        rw [hs0']
        refine Post_bind_of (ihT (q ++ [i]) ns' name' attrs' kids' ad st0' (by simp) hnode hred had
          (by rw [f5]; exact e6.2) (by rw [f4]; exact e8) f6) ?_
        intro st2 ⟨ind, N, u, toks, t1, t2, t3, t4, t5, t6, t7, t8, t9, t10, t11, t12, t13⟩
        obtain ⟨K, hu⟩ := lay_tag_inv t6
        have hwa : withAd ad toks = toks := by subst hu; exact withAd_self t7 had
        have hg' : GapReady (tB kids i) (firstOf (tB kids i) i) (trailGap st.out ++ gapChars (g0 ++ ind)) := by
          rw [gapChars_append, ← List.append_assoc]
          apply gap_ext e4 t4
          intro hne
          have : ind ≠ [] := by intro h; rw [h] at hne; exact hne rfl
          have h0 : st0.offset = 0 := by rw [← f2]; exact t5 this
          have hl := e7 h0
          rw [e5] at hl
          exact legT_of_lineStart e4 hts hl
        exact finish_node e (g := g0 ++ ind) (N := N) (by rw [t1, f1, e1]; simp) (allGap_append e2 t2)
          (nonEmp_append e3 t3) (gap_close hg') t6 t7 (by rw [t8, hwa]) t9 t10 t13 t12 (by rw [t11, f3, e9])
end
section
variable (e : Env) (hind : AllWs e.o.indent) (htext : TextSpec e)
include hind htext

theorem specN_step (fuel : Nat) (ihN : SpecN e fuel) (ihT : SpecT e fuel) : SpecN e (fuel + 1) := by
  intro q ns name attrs kids i k st hp hk hnt hpre
  have hnode : nodeAt e.root (q ++ [i]) = some k := by rw [nodeAt_kid hp.at_]; exact hk
  have hget : getNode e (q ++ [i]) = .ok k := by simp [getNode, hnode]
  rw [serializeNode_succ]
  refine (Post_bind _ _ _).2 ?_
  rw [hget, Post_ok]
  rcases hpre with hr | ⟨s, hts, hb, ho, hu, hw, hleg⟩
  · have : st.unwritten.isEmpty = true := by rw [hr.2.2.1]; rfl
    rw [if_pos this]
    exact nodeStep_spec e hind fuel ihN ihT hp hk hnt hr
  · have : ¬ st.unwritten.isEmpty = true := by rw [hu]; simp
    rw [if_neg this]
    obtain ⟨hi0, hkt⟩ := tB_some hts
    have hlen : i < kids.length := (List.getElem?_eq_some_iff.1 hk).1
    have hfirst : firstOf (tB kids i) i = (i - 1 == 0) := by
      rw [hts]; unfold firstOf
      cases i with
      | zero => exact absurd rfl hi0
      | succ i => cases i <;> simp
    have hlast : (i - 1 + 1 == kids.length) = false := by
      have : i - 1 + 1 = i := by omega
      rw [this]; simp; omega
    refine Post_bind_of (htext q ns name attrs kids (i - 1) s st hp hkt hu hb ho hw
      (by rw [← hfirst]; exact hleg)) ?_
    intro st1 ⟨g, g1, g2, g3, g4, g5, g6, g7, g8⟩
    have htg : trailGap st1.out = trailGap st.out ++ gapChars g := by rw [g1, trailGap_append_gap _ _ g2]
    have hready : Ready e (tB kids i) (firstOf (tB kids i) i) st1 := by
      refine ⟨g5, g7, g4, ?_⟩
      rw [htg, hfirst]
      rcases g8 with h | ⟨h1, h2, h3⟩
      · left; rw [hts]; rw [hlast] at h; exact h
      · right; exact ⟨s, hts, h1, h2, h3⟩
    refine Post_mono (nodeStep_spec e hind fuel ihN ihT hp hk hnt hready) ?_
    intro st' ⟨g', N, b, u, toks, d1, d2, d3, d4, d5, d6, d7, d8, d9, d10, d11, d12, d13, d14, d15, d16⟩
    refine ⟨g ++ g', N, b, u, toks, by rw [d1, g1]; simp, allGap_append g2 d2, nonEmp_append g3 d3, ?_, d5, d6, d7, d8,
      d9, d10, d11, d12, d13, d14, d15, by rw [d16, g6]⟩
    rw [htg] at d4
    simpa [List.append_assoc] using d4

omit htext in
theorem specT_step (fuel : Nat) (ihP : SpecP e fuel) : SpecT e (fuel + 1) := by
  intro p ns name attrs kids ad st hpne hnode hred had hsp hunw hps
  rw [serializeTag_succ]
  refine Post_bind_of (Post_true _) (fun fits _ => ?_)
  have hpe : p.isEmpty = false := by cases p <;> simp_all
  split
  · refine Post_mono (appendable_spec e hind hnode rfl hred hsp (fun h => by simp [Node.isTag] at h)) ?_
    intro st1 ⟨ind, N, toks, a1, a2, a3, a4, a5, a6, a7, a8, a9, a10, a11, a12, a13⟩
    exact ⟨ind, N, _, toks, a1, a2, a3, a4, a5, Lay.plain _, a6, by rw [a7, withAd_self a6 had], a8, a9, a11,
      by rw [a12, hunw], a13⟩
  · refine Post_mono (ihP p ns name attrs kids ad ad st hnode hred had hsp hunw hps) ?_
    intro st1 ⟨N, u, toks, b1, b2, b3, b4, b5, b6, b7, b8, b9⟩
    exact ⟨[], N, u, toks, by simpa using b1, allGap_nil, nonEmp_nil, by simp [AllWs], fun h => absurd rfl h,
      b2, b3, b4, b5, b6, b7, b8, b9⟩
end
/-- more whitespace behind the last child -/
theorem layKids_trail (Tg : List Str) (hT : AllWs Tg.flatten) : ∀ (rest : List Node) (first : Bool)
    (pend : Option Str) (w0 : Str) (K : List Node),
    LayKids first pend w0 rest K → LayKids first pend w0 rest (K ++ Tg.map Node.text) := by
  intro rest
  induction rest with
  | nil =>
    intro first pend w0 K h
    cases h with
    | nil _ _ _ g hg =>
      rw [← List.map_append]
      apply LayKids.nil
      intro T hT'
      have := hg (Tg.flatten ++ T) (allWs_append hT hT')
      simpa [List.append_assoc] using this
  | cons k rest ih =>
    intro first pend w0 K h
    cases h with
    | text _ _ s _ _ h' => exact LayKids.text _ _ _ _ _ (ih _ _ _ _ h')
    | node _ _ _ g _ u _ K' hnt hgap hlay hrest =>
      rw [List.append_assoc, List.cons_append]
      exact LayKids.node _ _ _ _ _ _ _ _ hnt hgap hlay (ih _ _ _ _ hrest)

theorem preserveTag_eq (st : St) (ad : List (Str × Str)) (toks : List Tok) :
    preserveTag st ad toks = writeToks st (withAd ad toks) := by
  cases toks with
  | nil => rfl
  | cons t ts => cases t <;> rfl

theorem withAd_chars (ad : List (Str × Str)) (toks : List Tok) (s : Str) (h : Tok.chars s ∈ withAd ad toks) :
    Tok.chars s ∈ toks := by
  unfold withAd at h
  split at h
  · simp at h ⊢; exact h
  · exact h

theorem gapChars_strs (g : List Piece) : gapChars g = (strs g).flatten := rfl

section
variable (e : Env)

theorem specP_step (fuel : Nat) (ihH : SpecH e fuel) : SpecP e (fuel + 1) := by
  intro p ns name attrs kids ad ad0 st hnode hred had hsp hunw hps
  have hget : getNode e p = .ok (.tag ns name attrs kids) := by simp [getNode, hnode]
  rw [prettySerializeTag_succ]
  refine (Post_bind _ _ _).2 ?_
  rw [hget, Post_ok]
  simp only
  by_cases hd : (directive attrs .default == .preserve) = true
  · -- written by the space-preserving serializer
    rw [if_pos hd]
    refine (Post_bind _ _ _).2 ?_
    intro toks htoks
    rw [Post_pure, preserveTag_eq]
    have hpt : st.preserveSpace = true := by rw [hps, hd]
    obtain ⟨v1, v2, v3, v4, v5, v6⟩ := writeToks_preserve (withAd ad toks) st hpt
      (fun s hs => (emit_chars_ne e.m).1 _ _ htoks s (withAd_chars ad toks s hs))
    obtain ⟨pp, ad', ks, _, _, _, hform⟩ := emitNode_tag_inv htoks
    have hlast : ∃ L t, withAd ad toks = L ++ [t] ∧ IsMkTok t := by
      rw [hform]
      split
      · exact ⟨[], _, rfl, trivial⟩
      · exact ⟨.stag (pp ++ name).toList ad false :: ks, .etag (pp ++ name).toList, rfl, trivial⟩
    obtain ⟨L, tl, hL, hmk⟩ := hlast
    refine ⟨(withAd ad toks).map (fun t => Piece.verbatim [t]), _, toks, v1, Lay.plain _, htoks,
      eraseAll_verbatim _, ?_, v6 tl (by rw [hL]; exact List.getLast?_concat) hmk, v3, by rw [v4, hunw],
      by rw [v5, hsp]⟩
    exact ⟨L.map (fun t => Piece.verbatim [t]), .verbatim [tl], by rw [hL]; simp, rfl⟩
  · rw [if_neg hd]
    have hdn : directive attrs .default ≠ .preserve := by simpa using hd
    have hps' : st.preserveSpace = false := by rw [hps]; simpa using hd
    unfold defaultTag
    refine (Post_bind _ _ _).2 ?_
    intro pr hpr
    by_cases hke : kids.isEmpty = true
    · rw [if_pos hke, Post_pure]
      have hk0 : kids = [] := by simpa using hke
      subst hk0
      obtain ⟨w1, w2⟩ := write_mk st (.stag (pr ++ name).toList (layoutAttrs e.o st.level ad).1
        (layoutAttrs e.o st.level ad).2 true) trivial
      refine ⟨_, _, [.stag (pr ++ name).toList ad0 true], w1, Lay.plain _, ?_, ?_, ⟨[], _, rfl, rfl⟩, w2,
        by simp, by simp [hunw], by simp [hsp]⟩
      · simp [emitNode, hpr, had, emitKids]
      · simp [erase, layoutAttrs_erase, withAd]
    · rw [if_neg hke]
      have hkne : kids ≠ [] := by simpa using hke
      obtain ⟨w1, w2⟩ := write_mk st (.stag (pr ++ name).toList (layoutAttrs e.o st.level ad).1
        (layoutAttrs e.o st.level ad).2 false) trivial
      have hpar : Par e p ns name attrs kids := ⟨hnode, hred, directive_cases attrs hdn⟩
      refine Post_bind_of (ihH p ns name attrs kids _ hpar hkne ⟨by simp [hps'], by simp [hsp]⟩ (by simp [hunw]) w2
        (by rw [w1]; exact trailGap_markup _ _ rfl)) ?_
      intro st2 ⟨ps, K, toks, h1, h2, h3, h4, h5, h6, h7⟩
      rw [Post_pure]
      obtain ⟨x1, x2⟩ := write_mk st2 (.etag (pr ++ name).toList) trivial
      have hK : emitKids e.m (K ++ [.text []]) = .ok toks := by
        have := emitKids_append e.m K [.text []] toks [] h3 (by simp [emitKids, emitNode])
        simpa using this
      refine ⟨[.stag (pr ++ name).toList (layoutAttrs e.o st.level ad).1 (layoutAttrs e.o st.level ad).2 false] ++ ps ++
          [.etag (pr ++ name).toList], .tag ns name attrs (K ++ [.text []]),
        .stag (pr ++ name).toList ad0 false :: toks ++ [.etag (pr ++ name).toList], ?_,
        Lay.elem ns name attrs kids K [] hdn hkne (by simp [AllWs]) h2, ?_, ?_, ⟨_, _, rfl, rfl⟩, x2,
        by rw [write_level, h6, write_level], by rw [write_unwritten, h7], by rw [write_space, h5.2]⟩
      · rw [x1, h1, w1]; simp
      · simp [emitNode, hpr, had, hK]
      · simp [erase, layoutAttrs_erase, withAd, h4]
end
section
variable (e : Env) (hind : AllWs e.o.indent) (htext : TextSpec e)
include hind

theorem specH_step (fuel : Nat) (ihC : SpecC e fuel) : SpecH e (fuel + 1) := by
  intro q ns name attrs kids st hp hkne hbase hunw hoff htg
  rw [handleChildNodes_succ]
  -- a newline behind the start tag
  have hlb : legitBefore e.root (q ++ [0]) = true := by
    obtain ⟨k0, ks, rfl⟩ := List.exists_cons_of_ne_nil hkne
    cases hk0 : k0.isText with
    | true =>
      cases k0 with
      | text s => rw [legitBefore_text hp.at_ 0 s rfl]; rfl
      | _ => simp [Node.isText] at hk0
    | false => rw [legitBefore_nontext hp.at_ 0 k0 rfl hk0]; rfl
  rw [hlb]
  simp only [if_true]
  obtain ⟨g0, c1, c2, c3, c4, c5, c6, c7⟩ := ws_step st ['\n'] allWs_nl
  have c1' : (write st [nl]).out = st.out ++ g0 := c1
  have c5' : trailGap (write st [nl]).out = gapChars g0 := by
    have : trailGap (write st [nl]).out = trailGap st.out ++ gapChars g0 := c5
    rw [this, htg]; rfl
  have hoff1 : Off (write st [nl]) := c6 (fun h => absurd h hoff)
  refine Post_bind_of (ihC q ns name attrs kids 0 { write st [nl] with level := (write st [nl]).level + 1 } hp
    (Nat.zero_le _) (base_write hbase _) hoff1 (by show AllWs (trailGap (write st [nl]).out); rw [c5']; exact c4)
    (fun _ => by simp [tB, firstOf, legBK]) (by simp [tB, hunw])) ?_
  intro st2 ⟨ps, K, toks, h1, h2, h3, h4, h5, h6, h7⟩
  have h1' : st2.out = st.out ++ g0 ++ ps := by rw [h1]; show (write st [nl]).out ++ ps = _; rw [c1']
  have h2' : LayKids true none [] kids ((strs g0).map Node.text ++ K) := by
    apply layKids_absorb
    have : trailGap ({ write st [nl] with level := (write st [nl]).level + 1 } : St).out = (strs g0).flatten := c5'
    rw [this] at h2
    simpa [tB, firstOf] using h2
  have hem0 : emitKids e.m ((strs g0).map Node.text) = .ok (eraseAll g0) := emitKids_gap e.m g0 c2 c3
  have h6' : st2.level = st.level + 1 := by rw [h6]; simp
  by_cases hc : (!e.o.indent.isEmpty && legitAfter e.root (q ++ [kids.length - 1])) = true
  · rw [if_pos hc, Post_pure]
    obtain ⟨gT, t1, t2, t3, t4, _⟩ := ws_step { st2 with level := st2.level - 1 } (indentN e.o (st2.level - 1))
      (allWs_indentN e.o hind _)
    have hemT : emitKids e.m ((strs gT).map Node.text) = .ok (eraseAll gT) := emitKids_gap e.m gT t2 t3
    refine ⟨g0 ++ ps ++ gT, (strs g0).map Node.text ++ K ++ (strs gT).map Node.text, eraseAll g0 ++ toks ++ eraseAll gT,
      by rw [t1]; show st2.out ++ gT = _; rw [h1']; simp, ?_, ?_, by simp [h4],
      base_write (st := { st2 with level := st2.level - 1 }) h5 _,
      by rw [write_level]; show st2.level - 1 = _; omega, by rw [write_unwritten]; exact h7⟩
    · exact layKids_trail (strs gT) (by rw [← gapChars_strs]; exact t4) _ _ _ _ _ h2'
    · exact emitKids_append _ _ _ _ _ (emitKids_append _ _ _ _ _ hem0 h3) hemT
  · rw [if_neg hc, Post_pure]
    refine ⟨g0 ++ ps, (strs g0).map Node.text ++ K, eraseAll g0 ++ toks, by show st2.out = _; rw [h1']; simp, h2',
      emitKids_append _ _ _ _ _ hem0 h3, by simp [h4], h5, by show st2.level - 1 = _; omega, h7⟩
end
section
variable (e : Env) (hind : AllWs e.o.indent) (htext : TextSpec e)
include htext

theorem specC_step (fuel : Nat) (ihN : SpecN e fuel) (ihC : SpecC e fuel) : SpecC e (fuel + 1) := by
  intro q ns name attrs kids i st hp hile hbase hoff hws hleg hunw
  rw [serializeChildNodes_succ]
  by_cases hge : i ≥ kids.length
  · -- all children done
    rw [if_pos hge]
    have hin : i = kids.length := by omega
    have hdrop : kids.drop i = [] := by rw [List.drop_eq_nil_iff]; omega
    rw [hdrop]
    cases ht : tB kids i with
    | none =>
      rw [ht] at hunw
      have : st.unwritten.isEmpty = true := by rw [hunw]; rfl
      rw [if_pos this, Post_pure]
      refine ⟨[], [], [], by simp, ?_, by simp [emitKids], rfl, hbase, rfl, hunw⟩
      have := LayKids.nil (firstOf none i) none (trailGap st.out) [] (by
        intro T hT
        exact ⟨by simpa using allWs_append hws hT, fun _ => Or.inr rfl⟩)
      simpa using this
    | some s =>
      rw [ht] at hunw hleg
      have : ¬ st.unwritten.isEmpty = true := by rw [hunw]; simp
      rw [if_neg this]
      obtain ⟨hi0, hkt⟩ := tB_some ht
      have hfirst : firstOf (some s) i = (i - 1 == 0) := by
        unfold firstOf
        cases i with
        | zero => exact absurd rfl hi0
        | succ i => cases i <;> simp
      have hlast : (i - 1 + 1 == kids.length) = true := by
        have : i - 1 + 1 = i := by omega
        rw [this, hin]; simp
      refine Post_mono (htext q ns name attrs kids (i - 1) s st hp hkt hunw hbase hoff hws (fun hne => by
        have := hleg hne
        rw [hdrop, hfirst] at this
        simpa [legBK] using this)) ?_
      intro st1 ⟨g, g1, g2, g3, g4, g5, g6, g7, g8⟩
      refine ⟨g, (strs g).map Node.text, eraseAll g, g1, ?_, emitKids_gap e.m g g2 g3, rfl, g5, g6, g4⟩
      apply LayKids.nil
      intro T hT
      rw [← gapChars_strs, hfirst]
      rcases g8 with h | ⟨h1, _, _⟩
      · rw [hlast] at h
        exact gapOK_append_ws h hT (fun _ => Or.inl rfl)
      · exfalso
        have hl := gapOwed_last h1
        have hs1 := hp.lastText hkt (by omega) hl
        obtain ⟨s', hs', hne, _⟩ := h1
        rw [hs1] at hs'
        cases s' with
        | nil => exact hne rfl
        | cons c cs =>
          have := congrArg List.length hs'
          simp at this
  · rw [if_neg hge]
    have hlt : i < kids.length := by omega
    obtain ⟨k, hki, hdrop⟩ : ∃ k, kids[i]? = some k ∧ kids.drop i = k :: kids.drop (i + 1) :=
      ⟨kids[i], List.getElem?_eq_getElem hlt, List.drop_eq_getElem_cons hlt⟩
    have hget : getNode e (q ++ [i]) = .ok k := by simp [getNode, nodeAt_kid hp.at_, hki]
    refine (Post_bind _ _ _).2 ?_
    rw [hget, Post_ok]
    generalize hQ : (fun st' : St => ∃ ps K toks, st'.out = st.out ++ ps ∧
      LayKids (firstOf (tB kids i) i) (tB kids i) (trailGap st.out) (kids.drop i) K ∧
      emitKids e.m K = .ok toks ∧ eraseAll ps = toks ∧ Base st' ∧ st'.level = st.level ∧ st'.unwritten = []) = Q
    have htxt : ∀ s, k = .text s → Post (serializeChildNodes e fuel q (i + 1) kids.length
        (if s.isEmpty then st else { st with unwritten := st.unwritten ++ [q ++ [i]] })) Q := by
      intro s hks
      subst hks hQ
      have htn : tB kids i = none := tB_of_text hp hki
      have hts : tB kids (i + 1) = some s := tB_succ_text hki
      have hse : s.isEmpty = false := by
        have := (hp.textFix (List.mem_of_getElem? hki)).2
        cases s <;> simp_all
      rw [htn] at hunw hleg
      rw [hse]
      simp only [Bool.false_eq_true, if_false, hunw, List.nil_append]
      have hf : firstOf (some s) (i + 1) = firstOf none i := by simp [firstOf]
      refine Post_mono (ihC q ns name attrs kids (i + 1) { st with unwritten := [q ++ [i]] } hp (by omega) hbase hoff hws
        (fun hne => by
          have := hleg hne
          rw [hts, hf]
          rw [hdrop] at this
          simpa [legBK] using this)
        (by rw [hts]; simp)) ?_
      intro st1 ⟨ps, K, toks, h1, h2, h3, h4, h5, h6, h7⟩
      refine ⟨ps, K, toks, h1, ?_, h3, h4, h5, h6, h7⟩
      rw [htn, hdrop]
      apply LayKids.text
      rw [hts, hf] at h2
      exact h2
    have hnon : k.isText = false → Post (serializeNode e fuel (q ++ [i]) st >>= fun st =>
        serializeChildNodes e fuel q (i + 1) kids.length st) Q := by
      intro hkt
      subst hQ
      -- the gap before the node
      have hpre : Ready e (tB kids i) (firstOf (tB kids i) i) st ∨
          ∃ s, tB kids i = some s ∧ Pending q i s (firstOf (tB kids i) i) st := by
        cases ht : tB kids i with
        | none =>
          rw [ht] at hunw hleg
          left
          refine ⟨hbase, hoff, hunw, Or.inl ⟨hws, fun hne => ?_⟩⟩
          have := hleg hne
          rw [hdrop] at this
          cases k <;> simp_all [legBK, Node.isText]
        | some s =>
          rw [ht] at hunw hleg
          right
          refine ⟨s, rfl, hbase, hoff, hunw, hws, fun hne => ?_⟩
          have := hleg hne
          simpa [legBK] using this
      refine Post_bind_of (ihN q ns name attrs kids i k st hp hki hkt hpre) ?_
      intro st1 ⟨g, N, b, u, toks, d1, d2, d3, d4, d5, d6, d7, d8, d9, d10, d11, d12, d13, d14, d15, d16⟩
      have htg1 : trailGap st1.out = gapChars b := by
        rw [d1, trailGap_append_gap _ _ d9, trailGap_endsMarkup _ _ d8]; rfl
      have htn : tB kids (i + 1) = none := tB_succ_nontext hki hkt
      have hf1 : firstOf none (i + 1) = false := by simp [firstOf]
      refine Post_mono (ihC q ns name attrs kids (i + 1) st1 hp (by omega) d13 d14 (by rw [htg1]; exact d11)
        (fun hne => by
          rw [htg1] at hne
          rw [htn, hf1, ← legitAfter_legBK hp hki hkt]
          exact d12 hne)
        (by rw [htn]; exact d15)) ?_
      intro st2 ⟨ps, K, toks2, h1, h2, h3, h4, h5, h6, h7⟩
      rw [htn, hf1, htg1, gapChars_strs] at h2
      have h2' := layKids_absorb _ _ _ _ _ h2
      refine ⟨g ++ N ++ b ++ ps, (strs g).map Node.text ++ u :: ((strs b).map Node.text ++ K),
        eraseAll g ++ (toks ++ (eraseAll b ++ toks2)), by rw [h1, d1]; simp, ?_, ?_, by simp [d7, h4], h5,
        by rw [h6, d16], h7⟩
      · rw [hdrop]
        exact LayKids.node _ _ _ _ _ _ _ _ hkt (by rw [← gapChars_strs]; exact d4) d5 h2'
      · have e1 := emitKids_gap e.m g d2 d3
        have e2 := emitKids_gap e.m b d9 d10
        have e3 := emitKids_single e.m u toks d6
        have := emitKids_append _ _ _ _ _ e1 (emitKids_append _ _ _ _ _ e3 (emitKids_append _ _ _ _ _ e2 h3))
        simpa using this
    cases k with
    | text s => exact htxt s rfl
    | _ => exact hnon rfl
end
section
variable (e : Env) (hind : AllWs e.o.indent) (htext : TextSpec e)
include hind htext

theorem machine_spec : ∀ fuel, SpecN e fuel ∧ SpecT e fuel ∧ SpecP e fuel ∧ SpecH e fuel ∧ SpecC e fuel := by
  intro fuel
  induction fuel with
  | zero =>
    refine ⟨?_, ?_, ?_, ?_, ?_⟩
    · intro q ns name attrs kids i k st _ _ _ _ a h; simp [serializeNode] at h
    · intro p ns name attrs kids ad st _ _ _ _ _ _ _ a h; simp [serializeTag] at h
    · intro p ns name attrs kids ad ad0 st _ _ _ _ _ _ a h; simp [prettySerializeTag] at h
    · intro q ns name attrs kids st _ _ _ _ _ _ a h; simp [handleChildNodes] at h
    · intro q ns name attrs kids i st _ _ _ _ _ _ _ a h; simp [serializeChildNodes] at h
  | succ fuel ih =>
    obtain ⟨ihN, ihT, ihP, ihH, ihC⟩ := ih
    exact ⟨specN_step e hind htext fuel ihN ihT, specT_step e hind fuel ihP, specP_step e fuel ihH,
      specH_step e hind fuel ihC, specC_step e htext fuel ihN ihC⟩
end

theorem emitRoot_withAd {m : Dict} {ns name : String} {attrs : List Attr} {K : List Node} {toks : List Tok}
    {ad : List (Str × Str)} (h : emitNode m (.tag ns name attrs K) = .ok toks)
    (had : attrsData m (sortAttrs attrs) = .ok ad) :
    emitRoot m (.tag ns name attrs K) = .ok (withAd (declarations m ++ ad) toks) := by
  obtain ⟨p, ad', ks, _, had', _, hform⟩ := emitNode_tag_inv h
  rw [had] at had'; cases had'
  simp only [emitRoot, h]
  rw [hform]
  by_cases hk : K.isEmpty = true
  · simp only [hk, if_true]; rfl
  · simp only [hk, if_false]; rfl

/-- **machine half** (root not `xml:space="preserve"`): the pieces written for a reduced tree read back as
    the plain emission of a laid-out tree -/
theorem wrapRoot_lay (o : Opts) (ho : AllWs o.indent) (width : Nat) (m : Dict) (ns name : String)
    (attrs : List Attr) (kids : List Node) (hred : RedIn .default (.tag ns name attrs kids))
    (hd : directive attrs .default ≠ .preserve)
    (htext : ∀ fuel, TextSpec { o := o, width := width, m := m, root := .tag ns name attrs kids, fuel := fuel })
    (ps : List Piece) (h : wrapRoot o width m (.tag ns name attrs kids) = .ok ps) :
    ∃ u, Lay (.tag ns name attrs kids) u ∧ emitRoot m u = .ok (eraseAll ps) := by
  unfold wrapRoot at h
  simp only at h
  split at h
  · cases h
  · rename_i ad had
    split at h
    · cases h
    · rename_i st hst
      cases h
      obtain ⟨e, he⟩ : ∃ e : Env, (⟨o, width, m, Node.tag ns name attrs kids, fuelFor (Node.tag ns name attrs kids)⟩ : Env) = e :=
        ⟨_, rfl⟩
      rw [he] at hst
      have hf : fuelFor (Node.tag ns name attrs kids) = (8 * size (Node.tag ns name attrs kids) + 31) + 1 := by
        unfold fuelFor; omega
      rw [hf, serializeTag_succ] at hst
      have hspec := (machine_spec e (by subst he; exact ho) (by subst he; exact htext _)
        (8 * size (Node.tag ns name attrs kids) + 31)).2.2.1
      have hem : e.m = m := by subst he; rfl
      have hroot : nodeAt e.root [] = some (.tag ns name attrs kids) := by subst he; rfl
      have hP := hspec [] ns name attrs kids (declarations m ++ ad) ad {} hroot hred (by rw [hem]; exact had) rfl rfl
        (by simp; exact hd)
      cases hfit : nodeFitsRemainingLine e {} [] with
      | error err => rw [hfit] at hst; cases hst
      | ok fits =>
        rw [hfit] at hst
        have hst' : prettySerializeTag e (8 * size (Node.tag ns name attrs kids) + 31) []
            (declarations m ++ ad) {} = .ok st := by
          simpa [bind, Except.bind] using hst
        obtain ⟨N, u, toks, b1, b2, b3, b4, _⟩ := hP st hst'
        obtain ⟨K, hu⟩ := lay_tag_inv b2
        refine ⟨u, b2, ?_⟩
        subst hu
        rw [hem] at b3
        rw [emitRoot_withAd b3 had, b1, ← b4]
        simp
end Delb.Wrapping

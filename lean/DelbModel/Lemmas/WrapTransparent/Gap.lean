import DelbModel.Lemmas.PrettyTransparent
/-!
# C03 (width ≥ 1): the character data written between two markup pieces ("gap")

`GapOK t w first last`: the string `w` written where the original has the (reduced) text `t`
(`none`: no text node) is `t` up to whitespace that reduction removes: whitespace in front / behind
only where that is legit, line breaks and indentation in place of single spaces.
`gapOK_some_reduce` / `gapOK_none_reduce`: whitespace reduction of `w` gives `t` back.
-/
set_option linter.unusedSimpArgs false
namespace Delb.Wrapping
open Delb.Ser Delb.WS Delb.Pretty

/-- whitespace before the text of a gap is legit -/
def legB (first : Bool) (t : Option Str) (last : Bool) : Bool :=
  first || (match t with | some s => firstIsSpace s | none => last)

/-- whitespace behind the text of a gap is legit -/
def legA (first : Bool) (t : Option Str) (last : Bool) : Bool :=
  last || (match t with | some s => lastIsSpace s | none => first)

def GapOK (t : Option Str) (w : Str) (first last : Bool) : Prop :=
  match t with
  | none => AllWs w ∧ (w ≠ [] → first = true ∨ last = true)
  | some s => ∃ A Z, AllWs A ∧ AllWs Z ∧ (A ≠ [] → first = true ∨ firstIsSpace s = true) ∧
      (Z ≠ [] → last = true ∨ lastIsSpace s = true) ∧ collapse pyWs w = collapse pyWs (A ++ (s ++ Z))

theorem reduceContentSpec_congr {w w' : Str} (h : collapse pyWs w = collapse pyWs w') (f l : Bool) :
    reduceContentSpec pyWs w f l = reduceContentSpec pyWs w' f l := by
  unfold reduceContentSpec; rw [h]

theorem gapOK_none_reduce {w : Str} {f l : Bool} (h : GapOK none w f l) (hfl : ¬(f = true ∧ l = true)) :
    reduceContentSpec pyWs w f l = [] := by
  obtain ⟨hw, hleg⟩ := h
  rw [reduce_allWs pyWs pyWs_space _ hw]
  by_cases hwe : w = []
  · subst hwe; cases f <;> cases l <;> simp_all
  · have := hleg hwe
    cases f <;> cases l <;> simp_all

theorem collapse_ne_nil_of_nonws {x : Str} (c : Char) (hc : c ∈ x) (hws : pyWs c = false) :
    collapse pyWs x ≠ [] := by
  intro h
  have := nonWs_collapseAux pyWs pyWs_space false x
  unfold collapse at h
  rw [h] at this
  have hm : c ∈ nonWs pyWs x := by simp [nonWs, hc, hws]
  rw [← this] at hm
  simp [nonWs] at hm

theorem gapOK_some_reduce {s w : Str} {f l : Bool} (h : GapOK (some s) w f l)
    (hs : reduceContentSpec pyWs s f l = s) (hne : s ≠ []) :
    reduceContentSpec pyWs w f l = s ∧ w ≠ [] := by
  obtain ⟨A, Z, hA, hZ, hlegA, hlegZ, hc⟩ := h
  rw [reduceContentSpec_congr hc]
  have hshape : Shape pyWs s := by
    rw [← hs]
    exact shape_of_collapsed _ pyWs_space _ (spec_onlySp _ _ _ _) (spec_noDbl _ pyWs_space _ _ _)
  rcases hshape with rfl | rfl | ⟨pre, core, post, rfl, hpre, hpost, hcne, hh, hl⟩
  · exact absurd rfl hne
  · -- a single space
    have hse : f = l := by
      cases f <;> cases l <;>
        simp [reduceContentSpec, collapse, collapseAux, pyWs_space, ltrim, rtrim] at hs ⊢
    subst hse
    have hW : AllWs (A ++ ([' '] ++ Z)) := allWs_append hA (allWs_append allWs_space hZ)
    constructor
    · rw [reduce_allWs pyWs pyWs_space _ hW]
      cases f <;> simp [sp]
    · intro hw
      subst hw
      have : collapse pyWs (A ++ ([' '] ++ Z)) = [' '] := by
        unfold collapse
        rw [collapseAux_false_allWs pyWs _ hW]; simp [sp]
      rw [this] at hc
      simp [collapse, collapseAux] at hc
  · have hfirst := firstIsSpace_shape (post := post) hpre hcne hh
    have hlast := lastIsSpace_shape (pre := pre) hpost hcne hl
    have hpreW : AllWs pre := by rcases hpre with rfl | rfl <;> simp [AllWs, pyWs_space]
    have hpostW : AllWs post := by rcases hpost with rfl | rfl <;> simp [AllWs, pyWs_space]
    have hsp_pre : sp pre = pre := by rcases hpre with rfl | rfl <;> simp
    have hsp_post : sp post = post := by rcases hpost with rfl | rfl <;> simp
    have hO : OnlySp pyWs (pre ++ (core ++ post)) := by rw [← hs]; exact spec_onlySp _ _ _ _
    have hN : NoDbl (pre ++ (core ++ post)) := by rw [← hs]; exact spec_noDbl _ pyWs_space _ _ _
    have hfix : collapse pyWs core = core :=
      collapseAux_fixed pyWs false core (fun c hc => hO c (by simp [hc]))
        (noDbl_append_left _ _ (noDbl_append_right _ _ hN)) (by simp)
    have hred := reduce_sandwich pyWs pyWs_space pre core post hpreW hpostW hfix hcne hh hl f l
    rw [hs, hsp_pre, hsp_post] at hred
    obtain ⟨a, tl, hcore⟩ := List.exists_cons_of_ne_nil hcne
    have ha : pyWs a = false := by subst hcore; simpa using hh
    have ha' : a ≠ ' ' := by intro h; subst h; simp [pyWs_space] at ha
    have hstart : f = true → pre = [] := by
      intro h; subst h; subst hcore
      rcases hpre with rfl | rfl
      · rfl
      · simp at hred; exact absurd hred.1.symm ha'
    have hend : l = true → post = [] := by
      intro h; subst h
      rcases hpost with rfl | rfl
      · rfl
      · have := congrArg List.length hred
        cases f <;> simp at this
        omega
    have key : A ++ ((pre ++ (core ++ post)) ++ Z) = (A ++ pre) ++ (core ++ (post ++ Z)) := by
      simp only [List.append_assoc]
    have hL' : AllWs (A ++ pre) := allWs_append hA hpreW
    have hR' : AllWs (post ++ Z) := allWs_append hpostW hZ
    constructor
    · rw [key, reduce_sandwich pyWs pyWs_space _ core _ hL' hR' hfix hcne hh hl]
      have h1 : (if f = true then [] else sp (A ++ pre)) = pre := by
        cases f
        · rcases hpre with rfl | rfl
          · have : A = [] := by
              by_cases hA0 : A = []
              · exact hA0
              · rcases hlegA hA0 with h | h
                · cases h
                · rw [hfirst] at h; simp at h
            simp [this]
          · cases A <;> simp [sp]
        · simp [hstart rfl]
      have h2 : (if l = true then [] else sp (post ++ Z)) = post := by
        cases l
        · rcases hpost with rfl | rfl
          · have : Z = [] := by
              by_cases hZ0 : Z = []
              · exact hZ0
              · rcases hlegZ hZ0 with h | h
                · cases h
                · rw [hlast] at h; simp at h
            simp [this]
          · simp [sp]
        · simp [hend rfl]
      rw [h1, h2]
    · intro hw
      subst hw
      have : collapse pyWs (A ++ (pre ++ (core ++ post) ++ Z)) ≠ [] :=
        collapse_ne_nil_of_nonws a (by subst hcore; simp) ha
      rw [← hc] at this
      simp [collapse, collapseAux] at this

/-! ## `collapse` and appending -/

theorem lastIsSpace_nil : lastIsSpace [] = false := rfl
theorem lastIsSpace_concat (a : Str) (c : Char) : lastIsSpace (a ++ [c]) = pyWs c := by
  simp [lastIsSpace]
theorem lastIsSpace_append_ne (a b : Str) (hb : b ≠ []) : lastIsSpace (a ++ b) = lastIsSpace b := by
  unfold lastIsSpace
  rw [List.getLast?_append]
  cases h : b.getLast? with
  | none => simp at h; exact absurd h hb
  | some c => simp

theorem collapseAux_append (b : Bool) (a x : Str) :
    collapseAux pyWs b (a ++ x) =
      collapseAux pyWs b a ++ collapseAux pyWs (if a = [] then b else lastIsSpace a) x := by
  induction a generalizing b with
  | nil => simp [collapseAux]
  | cons c a ih =>
    have hl : ∀ b', (if a = [] then b' else lastIsSpace a) = if a = [] then b' else lastIsSpace (c :: a) := by
      intro b'
      by_cases ha : a = []
      · simp [ha]
      · simp only [ha, if_false]
        rw [show c :: a = [c] ++ a from rfl, lastIsSpace_append_ne _ _ ha]
    simp only [List.cons_append, collapseAux_cons, ih, List.cons_ne_nil, if_false]
    by_cases hc : pyWs c = true
    · simp only [hc, if_true]
      have := hl true
      by_cases ha : a = []
      · subst ha; cases b <;> simp [lastIsSpace, hc, collapseAux]
      · simp only [ha, if_false] at this ⊢
        rw [this]; cases b <;> simp
    · have hc' : pyWs c = false := by simpa using hc
      simp only [hc', Bool.false_eq_true, if_false]
      have := hl false
      by_cases ha : a = []
      · subst ha; simp [lastIsSpace, hc', collapseAux]
      · simp only [ha, if_false] at this ⊢
        rw [this]; simp

theorem snoc_induction {α} {P : List α → Prop} (nil : P []) (snoc : ∀ a c, P a → P (a ++ [c])) : ∀ a, P a := by
  intro a
  have : ∀ n (a : List α), a.length = n → P a := by
    intro n
    induction n with
    | zero => intro a h; have : a = [] := List.eq_nil_of_length_eq_zero h; subst this; exact nil
    | succ n ih =>
      intro a h
      rcases List.eq_nil_or_concat a with rfl | ⟨L, b, rfl⟩
      · simp at h
      · rw [List.concat_eq_append]
        exact snoc L b (ih L (by simp at h; omega))
  exact this _ a rfl

theorem lastIsSpace_collapse (a : Str) : lastIsSpace (collapse pyWs a) = lastIsSpace a := by
  induction a using snoc_induction with
  | nil => rfl
  | snoc a c ih =>
    unfold collapse at ih ⊢
    rw [collapseAux_append, lastIsSpace_concat]
    by_cases hc : pyWs c = true
    · by_cases ha : a = []
      · subst ha; simp [collapseAux, hc, lastIsSpace, pyWs_space]
      · simp only [ha, if_false]
        by_cases hl : lastIsSpace a = true
        · simp [hl, collapseAux, hc, ih]
        · have hl' : lastIsSpace a = false := by simpa using hl
          simp only [hl', collapseAux, hc, if_true, Bool.false_eq_true, if_false]
          rw [lastIsSpace_concat, pyWs_space]
    · have hc' : pyWs c = false := by simpa using hc
      simp only [collapseAux, hc', Bool.false_eq_true, if_false]
      rw [lastIsSpace_concat, hc']

theorem collapse_eq_nil {a : Str} (h : collapse pyWs a = []) : a = [] := by
  cases a with
  | nil => rfl
  | cons c a =>
    unfold collapse at h
    rw [collapseAux_cons] at h
    split at h <;> simp at h

/-- `collapse (a ++ x)` is determined by `collapse a` -/
theorem collapse_append (a x : Str) :
    collapse pyWs (a ++ x) = collapse pyWs a ++ collapseAux pyWs (lastIsSpace (collapse pyWs a)) x := by
  unfold collapse
  rw [collapseAux_append]
  by_cases ha : a = []
  · subst ha; simp [collapseAux, lastIsSpace]
  · simp only [ha, if_false]
    have := lastIsSpace_collapse a
    unfold collapse at this
    rw [this]

theorem collapse_congr_right {a a' : Str} (h : collapse pyWs a = collapse pyWs a') (x : Str) :
    collapse pyWs (a ++ x) = collapse pyWs (a' ++ x) := by
  rw [collapse_append, collapse_append, h]

theorem lastIsSpace_of_collapse_eq {a a' : Str} (h : collapse pyWs a = collapse pyWs a') :
    lastIsSpace a = lastIsSpace a' := by
  rw [← lastIsSpace_collapse a, ← lastIsSpace_collapse a', h]

/-- more whitespace behind the text of a gap -/
theorem gapOK_append_ws {s w x : Str} {f l : Bool} (h : GapOK (some s) w f l) (hx : AllWs x)
    (hleg : x ≠ [] → l = true ∨ lastIsSpace s = true) : GapOK (some s) (w ++ x) f l := by
  obtain ⟨A, Z, hA, hZ, h1, h2, hc⟩ := h
  refine ⟨A, Z ++ x, hA, allWs_append hZ hx, h1, ?_, ?_⟩
  · intro hne
    by_cases hz : Z = []
    · subst hz; exact hleg (by simpa using hne)
    · exact h2 hz
  · have := collapse_congr_right hc x
    simpa [List.append_assoc] using this

/-- a gap whose written characters end in whitespace: whitespace is legit there -/
theorem gapOK_ends_ws {s w : Str} {f l : Bool} (h : GapOK (some s) w f l) (hs : s ≠ [])
    (hw : lastIsSpace w = true) : l = true ∨ lastIsSpace s = true := by
  obtain ⟨A, Z, hA, hZ, h1, h2, hc⟩ := h
  by_cases hz : Z = []
  · subst hz
    rw [lastIsSpace_of_collapse_eq hc] at hw
    simp only [List.append_nil] at hw
    rw [lastIsSpace_append_ne _ _ hs] at hw
    exact Or.inr hw
  · exact h2 hz

/-- the text `s' ++ " "` of the gap was written without its trailing space -/
def GapOwed (s w : Str) (f : Bool) : Prop :=
  ∃ s', s = s' ++ [' '] ∧ s' ≠ [] ∧ lastIsSpace s' = false ∧
    ∃ A, AllWs A ∧ (A ≠ [] → f = true ∨ firstIsSpace s = true) ∧ collapse pyWs w = collapse pyWs (A ++ s')

theorem collapseAux_false_ws_ne (x : Str) (hx : AllWs x) (hne : x ≠ []) : collapseAux pyWs false x = [' '] := by
  rw [collapseAux_false_allWs pyWs x hx]
  cases x with
  | nil => exact absurd rfl hne
  | cons => simp

theorem gapOwed_append_ws {s w x : Str} {f l : Bool} (h : GapOwed s w f) (hx : AllWs x) (hne : x ≠ []) :
    GapOK (some s) (w ++ x) f l := by
  obtain ⟨s', rfl, hs', hl, A, hA, h1, hc⟩ := h
  refine ⟨A, x, hA, hx, h1, fun _ => Or.inr (by rw [lastIsSpace_concat]; exact pyWs_space), ?_⟩
  rw [collapse_congr_right hc x]
  have e1 : A ++ s' ++ x = (A ++ s') ++ x := rfl
  have e2 : A ++ (s' ++ [' '] ++ x) = (A ++ s') ++ ([' '] ++ x) := by simp [List.append_assoc]
  rw [e2, collapse_append, collapse_append (A ++ s') ([' '] ++ x)]
  congr 1
  have hls : lastIsSpace (collapse pyWs (A ++ s')) = false := by
    rw [lastIsSpace_collapse, lastIsSpace_append_ne _ _ hs', hl]
  rw [hls, collapseAux_false_ws_ne x hx hne,
    collapseAux_false_ws_ne _ (allWs_append allWs_space hx) (by simp)]

end Delb.Wrapping

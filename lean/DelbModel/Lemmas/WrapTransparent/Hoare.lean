import DelbModel.Model.Wrapping
/-!
# A small weakest-precondition calculus for `Except Err` programs

`Post x Q`: if `x` succeeds, its result satisfies `Q`.  Used to reason about the text-wrapping
serializer (`Model/Wrapping.lean`), which never needs to be shown to succeed.
-/
namespace Delb.Wrapping
open Delb.Ser

def Post {α : Type} (x : Except Err α) (Q : α → Prop) : Prop := ∀ a, x = .ok a → Q a

theorem Post_ok {α} (a : α) (Q : α → Prop) : Post (.ok a : Except Err α) Q ↔ Q a := by
  constructor
  · intro h; exact h a rfl
  · intro h b hb; cases hb; exact h

theorem Post_pure {α} (a : α) (Q : α → Prop) : Post (pure a : Except Err α) Q ↔ Q a := Post_ok a Q

theorem Post_error {α} (e : Err) (Q : α → Prop) : Post (.error e : Except Err α) Q := by
  intro a h; cases h

theorem Post_throw {α} (e : Err) (Q : α → Prop) : Post (throw e : Except Err α) Q := by
  intro a h; cases h

theorem Post_bind {α β} (x : Except Err α) (f : α → Except Err β) (Q : β → Prop) :
    Post (x >>= f) Q ↔ Post x (fun a => Post (f a) Q) := by
  cases x with
  | error e => exact ⟨fun _ => Post_error _ _, fun _ => Post_error _ _⟩
  | ok a => exact ⟨fun h b hb => by cases hb; exact h, fun h => h a rfl⟩

theorem Post_mono {α} {x : Except Err α} {Q R : α → Prop} (h : Post x Q) (hqr : ∀ a, Q a → R a) : Post x R :=
  fun a ha => hqr a (h a ha)

theorem Post_bind_of {α β} {x : Except Err α} {f : α → Except Err β} {R : α → Prop} {Q : β → Prop}
    (hx : Post x R) (hf : ∀ a, R a → Post (f a) Q) : Post (x >>= f) Q :=
  (Post_bind x f Q).2 (Post_mono hx hf)

theorem Post_of_eq {α} {x : Except Err α} {Q : α → Prop} {a : α} (h : x = .ok a) (hp : Post x Q) : Q a := hp a h

theorem Post_and {α} {x : Except Err α} {Q R : α → Prop} (h1 : Post x Q) (h2 : Post x R) :
    Post x (fun a => Q a ∧ R a) := fun a ha => ⟨h1 a ha, h2 a ha⟩

theorem Post_true {α} (x : Except Err α) : Post x (fun _ => True) := fun _ _ => trivial

end Delb.Wrapping

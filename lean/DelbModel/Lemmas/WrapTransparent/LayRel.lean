import DelbModel.Lemmas.WrapTransparent.Gap
import DelbModel.Props.C02
/-!
# C03 (width ≥ 1), structural half: laid-out trees

`Lay t u`: `u` is `t` with whitespace text nodes added and text nodes re-broken as the text-wrapping
serializer may do it (each gap between non-text children satisfies `GapOK`); sub-trees written by the
line-fitting or the space-preserving serializer are unchanged (`Lay.plain`).
`lay_reduce`: reading a laid-out tree back and reducing its whitespace gives the original tree.
-/
set_option linter.unusedSimpArgs false
namespace Delb.Wrapping
open Delb.Ser Delb.WS Delb.Pretty

mutual
  inductive Lay : Node → Node → Prop
    | plain (k : Node) : Lay k k
    | elem (ns name : String) (attrs : List Attr) (kids K : List Node) (T : Str) :
        directive attrs .default ≠ .preserve → kids ≠ [] → AllWs T →
        LayKids true none [] kids K → Lay (.tag ns name attrs kids) (.tag ns name attrs (K ++ [.text T]))
  /-- `LayKids first pend w0 rest K`: `K` lays out the children `rest`; the current gap has the text
      `pend` (if already seen) and the characters `w0` written so far -/
  inductive LayKids : Bool → Option Str → Str → List Node → List Node → Prop
    | nil (first : Bool) (pend : Option Str) (w0 : Str) (g : List Str) :
        (∀ T, AllWs T → GapOK pend (w0 ++ g.flatten ++ T) first true) →
        LayKids first pend w0 [] (g.map Node.text)
    | text (first : Bool) (w0 s : Str) (rest K : List Node) :
        LayKids first (some s) w0 rest K → LayKids first none w0 (.text s :: rest) K
    | node (first : Bool) (pend : Option Str) (w0 : Str) (g : List Str) (k u : Node) (rest K : List Node) :
        k.isText = false → GapOK pend (w0 ++ g.flatten) first false → Lay k u →
        LayKids false none [] rest K → LayKids first pend w0 (k :: rest) (g.map Node.text ++ u :: K)
end

theorem lay_isText {k u : Node} (h : Lay k u) : u.isText = k.isText := by
  cases h with
  | plain => rfl
  | elem => rfl

abbrev rcS := reduceContentSpec pyWs

theorem normalizeList_texts' (g : List Str) : normalizeList (g.map Node.text) = g.map Node.text :=
  normalizeList_texts g

theorem mk_nil_head (L : List Node) : Ser.mergeKids (.text [] :: L) = Ser.mergeKids L := mergeKids_text_nil L

/-- the children of a laid-out element, read back and reduced -/
theorem layKids_reduce (T : Str) (hT : AllWs T) : ∀ (rest : List Node) (first : Bool) (pend : Option Str)
    (w0 : Str) (K : List Node), LayKids first pend w0 rest K → mergedKids rest = true →
    (match pend with
     | some s => rcS s first rest.isEmpty = s ∧ s ≠ [] ∧ headIsText rest = false ∧ TextsOK rcS false rest
     | none => TextsOK rcS first rest ∧ (first = true → rest ≠ [])) →
    (∀ k ∈ rest, k.isText = false → ∀ u, Lay k u → reduceNode rcS .default (normalize u) = normalize k) →
    reduceTextsF rcS first
        (reduceList rcS .default (Ser.mergeKids (.text w0 :: (normalizeList K ++ [.text T])))) =
      (match pend with | some s => [Node.text s] | none => []) ++ rest.map normalize := by
  intro rest
  induction rest with
  | nil =>
    intro first pend w0 K h _ hc _
    cases h with
    | nil _ _ _ g hg =>
      have hg' := hg T hT
      rw [normalizeList_texts', mk_texts_map, mk_texts, mk_single]
      cases pend with
      | some s =>
        obtain ⟨h1, h2, _, _⟩ := hc
        obtain ⟨hr, hne⟩ := gapOK_some_reduce hg' h1 h2
        unfold txt
        rw [if_neg hne, reduceList_text, if_neg hne, reduceTextsF_text]
        simp only [List.isEmpty_nil, reduceList_nil]
        show (if (rcS (w0 ++ g.flatten ++ T) first true).isEmpty = true then _ else _) = _
        rw [show rcS (w0 ++ g.flatten ++ T) first true = s from hr]
        have : s.isEmpty = false := by cases s <;> simp_all
        simp [this]
      | none =>
        obtain ⟨_, h2⟩ := hc
        have hs : first = false := by cases first <;> simp_all
        subst hs
        have hr := gapOK_none_reduce hg' (by simp)
        unfold txt
        split
        · simp
        · rename_i hne
          rw [reduceList_text, if_neg hne, reduceTextsF_text]
          simp only [List.isEmpty_nil, reduceList_nil]
          show (if (rcS (w0 ++ g.flatten ++ T) false true).isEmpty = true then _ else _) = _
          rw [show rcS (w0 ++ g.flatten ++ T) false true = [] from hr]
          simp
  | cons k rest ih =>
    intro first pend w0 K h hm hc hk
    cases hkt : k.isText with
    | true =>
      cases k with
      | text s =>
        rw [mergedKids_text] at hm
        simp only [Bool.and_eq_true, Bool.not_eq_true'] at hm
        obtain ⟨⟨hs, hh⟩, hm⟩ := hm
        cases h with
        | text _ _ _ _ _ h' =>
          obtain ⟨h1, _⟩ := hc
          rw [textsOK_text] at h1
          rw [ih first (some s) w0 K h' hm ⟨h1.1, h1.2.1, hh, h1.2.2⟩
            (fun k hk' => hk k (List.mem_cons_of_mem _ hk'))]
          simp [normalize]
        | node _ _ _ _ _ _ _ _ hnt => simp at hnt
      | _ => simp [Node.isText] at hkt
    | false =>
      rw [mergedKids_nontext _ _ hkt] at hm
      cases h with
      | text => simp at hkt
      | node _ _ _ g _ u _ K' _ hgap hlay hrest =>
        have hu : (normalize u).isText = false := by rw [isText_normalize, lay_isText hlay, hkt]
        have hku := hk k (by simp) hkt u hlay
        have hnl : normalizeList (g.map Node.text ++ u :: K') ++ [Node.text T] =
            g.map Node.text ++ (normalize u :: (normalizeList K' ++ [Node.text T])) := by
          rw [normalizeList_append, normalizeList_texts']
          simp [normalizeList]
        rw [hnl, mk_texts_map, mk_text_node _ _ _ hu, reduceList_txt, reduceList_nontext _ _ _ _ hu, hku]
        have hn : (normalize k).isText = false := by rw [isText_normalize, hkt]
        cases pend with
        | some s =>
          obtain ⟨h1, h2, _, h4⟩ := hc
          rw [textsOK_nontext _ _ _ _ hkt] at h4
          simp only [List.isEmpty_cons] at h1
          obtain ⟨hr, hne⟩ := gapOK_some_reduce hgap h1 h2
          have := ih false none [] K' hrest hm ⟨h4, by simp⟩ (fun k hk' => hk k (List.mem_cons_of_mem _ hk'))
          rw [mk_nil_head] at this
          simp only [List.nil_append] at this
          simp [txt, hne, reduceTextsF_text, hr, h2, reduceTextsF_nontext _ _ _ _ hn, this]
        | none =>
          obtain ⟨h1, _⟩ := hc
          rw [textsOK_nontext _ _ _ _ hkt] at h1
          have hr := gapOK_none_reduce hgap (by simp)
          have := ih false none [] K' hrest hm ⟨h1, by simp⟩ (fun k hk' => hk k (List.mem_cons_of_mem _ hk'))
          rw [mk_nil_head] at this
          simp only [List.nil_append] at this
          rw [reduceTextsF_txt_drop _ _ _ _ _ hn hr, this]
          simp

section
variable (P : Node → Prop) (PL : List Node → Prop)
  (hP : ∀ ns name attrs kids, P (.tag ns name attrs kids) →
      (attrs.map (fun a => (a.ns, a.name))).Nodup ∧ PL kids)
  (hPL : ∀ k ks, PL (k :: ks) → P k ∧ PL ks)
include hP hPL

/-- **structural half**: whitespace reduction of a laid-out tree (as read back) gives the original tree -/
theorem wlay_reduce :
    (∀ t, P t → merged t = true → reduceNode rcS .default t = t →
      ∀ u, Lay t u → reduceNode rcS .default (normalize u) = normalize t) ∧
    (∀ l, PL l → mergedAll l = true → ∀ k ∈ l, reduceNode rcS .default k = k →
      ∀ u, Lay k u → reduceNode rcS .default (normalize u) = normalize k) := by
  apply Pretty.node_induct
  · intro ns name attrs kids ih hp hm hr u hu
    obtain ⟨hn, hpk⟩ := hP _ _ _ _ hp
    cases hu with
    | plain => exact reduce_normalize_fixed P PL hP hPL _ _ hp hm _ hr
    | elem _ _ _ _ K T hd hke hT hK =>
      have hdd := directive_cases attrs hd
      simp only [merged_tag, Bool.and_eq_true] at hm
      obtain ⟨hmk, hma⟩ := hm
      obtain ⟨hfix, hok⟩ := reduced_kids hdd hmk hma hr
      have e2 : normalize (.tag ns name attrs kids) = .tag ns name (sortAttrs attrs) (kids.map normalize) := by
        rw [normalize, normalizeList_eq_map, mk_merged]
        rw [mergedKids_map _ isText_normalize (fun s => by simp [normalize])]
        exact hmk
      have e1 : normalize (.tag ns name attrs (K ++ [.text T])) =
          .tag ns name (sortAttrs attrs) (Ser.mergeKids (.text [] :: (normalizeList K ++ [.text T]))) := by
        rw [normalize, normalizeList_append, mk_nil_head]
        simp [normalizeList, normalize]
      rw [e1, e2, reduceNode_tag, directive_sortAttrs _ _ hn, hdd, finishKids_default,
        reduceTexts_eq_F _ _ 0 _ (by simp)]
      simp only [beq_self_eq_true]
      rw [layKids_reduce T hT kids true none [] K hK hmk ⟨hok, fun _ => hke⟩
        (fun k hk hnt u hu => ih hpk hma k hk (hfix k hk hnt) u hu)]
      simp
  · intro s _ _ _ u hu; cases hu; simp [normalize]
  · intro s _ _ _ u hu; cases hu; simp [normalize]
  · intro t s _ _ _ u hu; cases hu; simp [normalize]
  · intro _ _ k hk; simp at hk
  · intro k ks ihk ihks hpl hma x hx hrx u hu
    obtain ⟨hp1, hp2⟩ := hPL _ _ hpl
    simp only [mergedAll_cons, Bool.and_eq_true] at hma
    rcases List.mem_cons.1 hx with rfl | hx
    · exact ihk hp1 hma.1 hrx u hu
    · exact ihks hp2 hma.2 x hx hrx u hu
end

/-! ## a laid-out tree is as serializable as the original -/

theorem serializableList_append : ∀ (a b : List Node), SerializableList a → SerializableList b →
    SerializableList (a ++ b)
  | [], b, _, hb => hb
  | k :: a, b, ha, hb => by
    simp only [List.cons_append, SerializableList] at ha ⊢
    exact ⟨ha.1, serializableList_append a b ha.2 hb⟩

theorem serializableList_texts : ∀ (g : List Str), SerializableList (g.map Node.text)
  | [] => by simp [SerializableList]
  | s :: g => by simp [SerializableList, Serializable, serializableList_texts g]

theorem lay_serializable :
    (∀ t, Serializable t → ∀ u, Lay t u → Serializable u) ∧
    (∀ l, SerializableList l → ∀ first pend w0 K, LayKids first pend w0 l K → SerializableList K) := by
  apply Pretty.node_induct
  · intro ns name attrs kids ih hs u hu
    cases hu with
    | plain => exact hs
    | elem _ _ _ _ K T _ _ _ hK =>
      simp only [Serializable] at hs ⊢
      refine ⟨hs.1, hs.2.1, hs.2.2.1, hs.2.2.2.1, ?_⟩
      exact serializableList_append _ _ (ih hs.2.2.2.2 _ _ _ _ hK) (by simp [SerializableList, Serializable])
  · intro s _ u hu; cases hu; simp [Serializable]
  · intro s _ u hu; cases hu; simp [Serializable]
  · intro t s _ u hu; cases hu; simp [Serializable]
  · intro _ first pend w0 K hK
    cases hK with
    | nil _ _ _ g _ => exact serializableList_texts g
  · intro k ks ihk ihks hs first pend w0 K hK
    simp only [SerializableList] at hs
    cases hK with
    | text _ _ s _ _ h' => exact ihks hs.2 _ _ _ _ h'
    | node _ _ _ g _ u _ K' _ _ hlay hrest =>
      apply serializableList_append _ _ (serializableList_texts g)
      simp only [SerializableList]
      exact ⟨ihk hs.1 u hlay, ihks hs.2 _ _ _ _ hrest⟩

end Delb.Wrapping

import DelbModel.Lemmas.WrapTransparent.Plain
import DelbModel.Lemmas.WrapTransparent.Paths
/-!
# C03 (width ≥ 1): the serializer's state between two nodes, and the specification of `_serialize_text`

Vocabulary for the machine proof (`WrapTransparent/MachineSpec.lean`).
-/
set_option linter.unusedSimpArgs false
namespace Delb.Wrapping
open Delb.Ser Delb.WS Delb.Pretty

/-- the text node right before position `i` -/
def tB (kids : List Node) (i : Nat) : Option Str :=
  if i = 0 then none else match kids[i - 1]? with | some (.text s) => some s | _ => none

/-- whitespace is legit at the beginning of a gap -/
def legBK (first : Bool) (pend : Option Str) (rest : List Node) : Bool :=
  first || (match pend with
    | some s => firstIsSpace s
    | none => match rest with | [] => true | .text s :: _ => firstIsSpace s | _ => false)

/-- the serializer is in its normal mode -/
def Base (st : St) : Prop := st.preserveSpace = false ∧ st.space = .default

/-- at the beginning of a line the current gap ends in whitespace -/
def Off (st : St) : Prop := st.offset = 0 → lastIsSpace (trailGap st.out) = true

/-- an element in default mode whose children are being serialized -/
structure Par (e : Env) (q : Path) (ns name : String) (attrs : List Attr) (kids : List Node) : Prop where
  at_ : nodeAt e.root q = some (.tag ns name attrs kids)
  red : RedIn .default (.tag ns name attrs kids)
  dflt : directive attrs .default = .default

theorem Par.merged {e q ns name attrs kids} (h : Par e q ns name attrs kids) : mergedKids kids = true :=
  (redIn_kids h.red).1

theorem Par.kidRed {e q ns name attrs kids} (h : Par e q ns name attrs kids) {k : Node} (hk : k ∈ kids)
    (hnt : k.isText = false) : RedIn .default k := by
  have := (redIn_kids h.red).2.2.1 k hk hnt
  rwa [h.dflt] at this

theorem Par.textFix {e q ns name attrs kids} (h : Par e q ns name attrs kids) {s : Str} (hs : Node.text s ∈ kids) :
    collapse pyWs s = s ∧ s ≠ [] := by
  obtain ⟨f', l', hfix, hne⟩ := textsOK_mem _ _ _ ((redIn_kids h.red).2.2.2 h.dflt) hs
  exact ⟨collapse_of_rc_fixed hfix, hne⟩

theorem mergedKids_adjacent : ∀ {kids : List Node} {i : Nat} {s : Str}, mergedKids kids = true →
    kids[i]? = some (.text s) → ∀ k, kids[i + 1]? = some k → k.isText = false := by
  intro kids
  induction kids with
  | nil => intro i s _ h; simp at h
  | cons x xs ih =>
    intro i s hm h k hk
    cases i with
    | zero =>
      simp at h; subst h
      rw [mergedKids_text] at hm
      simp only [Bool.and_eq_true, Bool.not_eq_true'] at hm
      cases xs with
      | nil => simp at hk
      | cons y ys => simp at hk; subst hk; simpa using hm.1.2
    | succ i =>
      have hm' : mergedKids xs = true := by
        cases hx : x.isText with
        | false => rwa [mergedKids_nontext _ _ hx] at hm
        | true =>
          cases x with
          | text t => rw [mergedKids_text] at hm; simp at hm; exact hm.2
          | _ => simp [Node.isText] at hx
      exact ih hm' (by simpa using h) k (by simpa using hk)

/-- the last text node of a reduced element does not end in whitespace (unless it is a lone space) -/
theorem Par.lastText {e q ns name attrs kids} (h : Par e q ns name attrs kids) {i : Nat} {s : Str}
    (hk : kids[i]? = some (.text s)) (hl : i + 1 = kids.length) (hsp : lastIsSpace s = true) : s = [' '] := by
  have hok := (redIn_kids h.red).2.2.2 h.dflt
  -- the text is a fixed point of the reduction with `isLast = true`
  have key : ∀ (l : List Node) (f : Bool) (i : Nat), TextsOK rcS f l → l[i]? = some (.text s) → i + 1 = l.length →
      ∃ f', rcS s f' true = s := by
    intro l
    induction l with
    | nil => intro f i _ h; simp at h
    | cons x xs ih =>
      intro f i hok hi hl
      cases i with
      | zero =>
        simp at hi; subst hi
        have : xs = [] := by cases xs <;> simp_all
        subst this
        rw [textsOK_text] at hok
        exact ⟨f, by simpa using hok.1⟩
      | succ i =>
        have hok' : TextsOK rcS false xs := by
          cases hx : x.isText with
          | false => rwa [textsOK_nontext _ _ _ _ hx] at hok
          | true =>
            cases x with
            | text t => rw [textsOK_text] at hok; exact hok.2.2
            | _ => simp [Node.isText] at hx
        exact ih false i hok' (by simpa using hi) (by simp at hl; omega)
  obtain ⟨f', hfix⟩ := key kids true i hok hk hl
  unfold rcS reduceContentSpec at hfix
  simp only [if_true] at hfix
  generalize (if f' = true then ltrim pyWs (collapse pyWs s) else collapse pyWs s) = x at hfix
  by_cases hc : ((rtrim pyWs x).isEmpty && f' && true) = true
  · rw [if_pos hc] at hfix; exact hfix.symm
  · rw [if_neg hc] at hfix
    have hl' : LastNonWs pyWs s := by rw [← hfix]; exact rtrim_lastNonWs _ _
    unfold lastIsSpace at hsp
    cases hg : s.getLast? with
    | none => rw [hg] at hsp; cases hsp
    | some c => rw [hg] at hsp; have := hl' c hg; simp_all

/-- the first-child flag of the gap before position `i` whose text (if any) is `t` -/
def firstOf (t : Option Str) (i : Nat) : Bool := match t with | none => i == 0 | some _ => i == 1

/-- `_serialize_text` writes the pending text node as character data that reduces to it -/
def TextSpec (e : Env) : Prop :=
  ∀ (q : Path) (ns name : String) (attrs : List Attr) (kids : List Node) (j : Nat) (s : Str) (st : St),
    Par e q ns name attrs kids → kids[j]? = some (.text s) → st.unwritten = [q ++ [j]] → Base st → Off st →
    AllWs (trailGap st.out) → (trailGap st.out ≠ [] → (j == 0) = true ∨ firstIsSpace s = true) →
    Post (serializeText e st) (fun st' => ∃ g, st'.out = st.out ++ g ∧ AllGap g ∧ NonEmp g ∧ st'.unwritten = [] ∧
      Base st' ∧ st'.level = st.level ∧ Off st' ∧
      (GapOK (some s) (trailGap st.out ++ gapChars g) (j == 0) (j + 1 == kids.length) ∨
       (GapOwed s (trailGap st.out ++ gapChars g) (j == 0) ∧ availableSpace e st' = 0 ∧ lineOffset e st' > 0)))

/-- the characters `w` written so far are fine for a gap with text `t` in front of a non-text node -/
def GapReady (t : Option Str) (first : Bool) (w : Str) : Prop :=
  match t with
  | none => AllWs w ∧ (w ≠ [] → first = true)
  | some s => GapOK (some s) w first false

/-- more whitespace is legit before the node that follows the gap -/
def LegT (t : Option Str) (first : Bool) : Prop :=
  match t with
  | none => first = true
  | some s => lastIsSpace s = true

/-- the gap before the next node is ready: no text is pending -/
def Ready (e : Env) (t : Option Str) (first : Bool) (st : St) : Prop :=
  Base st ∧ Off st ∧ st.unwritten = [] ∧
  (GapReady t first (trailGap st.out) ∨
    ∃ s, t = some s ∧ GapOwed s (trailGap st.out) first ∧ availableSpace e st = 0 ∧ lineOffset e st > 0)

/-- the text node before position `i` is still to be written -/
def Pending (q : Path) (i : Nat) (s : Str) (first : Bool) (st : St) : Prop :=
  Base st ∧ Off st ∧ st.unwritten = [q ++ [i - 1]] ∧ AllWs (trailGap st.out) ∧
    (trailGap st.out ≠ [] → first = true ∨ firstIsSpace s = true)

def NodePost (e : Env) (p : Path) (k : Node) (t : Option Str) (first : Bool) (st st' : St) : Prop :=
  ∃ g N b u toks, st'.out = st.out ++ g ++ N ++ b ∧ AllGap g ∧ NonEmp g ∧
    GapOK t (trailGap st.out ++ gapChars g) first false ∧ Lay k u ∧ emitNode e.m u = .ok toks ∧
    eraseAll N = toks ∧ EndsMarkup N ∧ AllGap b ∧ NonEmp b ∧ AllWs (gapChars b) ∧
    (gapChars b ≠ [] → legitAfter e.root p = true) ∧ Base st' ∧ Off st' ∧ st'.unwritten = [] ∧ st'.level = st.level

theorem Post_self {α} (x : Except Err α) : Post x (fun a => x = .ok a) := fun _ h => h

/-! ## no node fits into no space -/

theorem upTo?_zero {n : Nat} (h : 0 < n) : upTo? n 0 = none := by
  unfold upTo?
  have : ¬ ((n : Int) ≤ 0) := by omega
  rw [if_neg this]

theorem requiredSpace_zero (e : Env) (fuel : Nat) (p : Path) (k : Node) (hk : nodeAt e.root p = some k)
    (hnt : k.isText = false) (r : Option Nat) (h : requiredSpace e fuel p 0 = .ok r) : r = none := by
  cases fuel with
  | zero => simp [requiredSpace] at h
  | succ fuel =>
    rw [requiredSpace] at h
    have hget : getNode e p = .ok k := by simp [getNode, hk]
    simp only [hget, bind, Except.bind, pure, Except.pure] at h
    cases k with
    | text s => simp [Node.isText] at hnt
    | comment s =>
      simp only at h
      cases h
      apply upTo?_zero
      simp [renderPiece]
    | pi t s =>
      simp only at h
      cases h
      apply upTo?_zero
      simp [renderPiece]
    | tag ns name attrs kids =>
      simp only at h
      cases hp : pfx e.m ns with
      | error err => simp [hp] at h
      | ok pr =>
        simp only [hp] at h
        have : ((if kids.isEmpty = true then 3 + (name.length + pr.length) else 5 + 2 * (name.length + pr.length) : Nat) : Int) > 0 := by
          split <;> omega
        simp only [this, if_true] at h
        cases h; rfl

theorem not_fits_zero (e : Env) (st : St) (p : Path) (k : Node) (hk : nodeAt e.root p = some k)
    (hnt : k.isText = false) (ha : availableSpace e st = 0) (b : Bool)
    (h : nodeFitsRemainingLine e st p = .ok b) : b = false := by
  unfold nodeFitsRemainingLine at h
  simp only [bind, Except.bind, pure, Except.pure, ha] at h
  split at h
  · cases h
  · rename_i r hr
    cases h
    have := requiredSpace_zero e e.fuel p k hk hnt r (by simpa using hr)
    subst this; rfl

theorem lastIsSpace_of_last_nl {w : Str} (h : w.getLast? = some '\n') : lastIsSpace w = true := by
  simp [lastIsSpace, h, pyWs_nl]

/-- one whitespace write between two nodes -/
theorem ws_step (st : St) (x : Str) (hx : AllWs x) :
    ∃ g, (write st [.layout x]).out = st.out ++ g ∧ AllGap g ∧ NonEmp g ∧ AllWs (gapChars g) ∧
      trailGap (write st [.layout x]).out = trailGap st.out ++ gapChars g ∧
      (Off st → Off (write st [.layout x])) ∧ (st.offset ≠ 0 → x ≠ [] → gapChars g = x) := by
  obtain ⟨g, g1, g2, g3, g4, g5, g6, g7⟩ := write_ws st x hx
  refine ⟨g, g1, g2, g3, g4, by rw [g1, trailGap_append_gap _ _ g2], ?_, g7⟩
  intro hoff h0
  rw [g1, trailGap_append_gap _ _ g2]
  rcases g6 h0 with ⟨hg, hs0⟩ | hl
  · subst hg; simpa using hoff hs0
  · have hne : gapChars g ≠ [] := by intro h; rw [h] at hl; simp at hl
    rw [lastIsSpace_append_ne _ _ hne]
    exact lastIsSpace_of_last_nl hl

theorem base_write {st : St} (h : Base st) (ps : List Piece) : Base (write st ps) := by
  unfold Base at *; simpa using h

/-- extending the gap of a ready state by legit whitespace -/
theorem gap_ext {t : Option Str} {first : Bool} {w x : Str} (h : GapReady t first w)
    (hx : AllWs x) (hleg : x ≠ [] → LegT t first) : GapReady t first (w ++ x) := by
  cases t with
  | none =>
    obtain ⟨h1, h2⟩ := h
    refine ⟨allWs_append h1 hx, fun hne => ?_⟩
    by_cases hw : w = []
    · subst hw; exact hleg (by simpa using hne)
    · exact h2 hw
  | some s => exact gapOK_append_ws h hx (fun hne => Or.inr (hleg hne))

/-- closing the gap of a ready state -/
theorem gap_close {t : Option Str} {first : Bool} {w : Str} (h : GapReady t first w) : GapOK t w first false := by
  cases t with
  | none => exact ⟨h.1, fun hne => Or.inl (h.2 hne)⟩
  | some s => exact h

/-- at the beginning of a line whitespace is legit -/
theorem legT_of_lineStart {t : Option Str} {first : Bool} {w : Str} (h : GapReady t first w)
    (hs : ∀ s, t = some s → s ≠ []) (hl : lastIsSpace w = true) : LegT t first := by
  cases t with
  | none =>
    apply h.2
    intro hw0; rw [hw0] at hl; simp [lastIsSpace] at hl
  | some s =>
    rcases gapOK_ends_ws h (hs s rfl) hl with h' | h'
    · cases h'
    · exact h'

section
variable (e : Env)

/-- the newline `serialize_node` may write behind a node -/
theorem afterNode_spec (p : Path) (st : St) (hb : Base st) (h0 : st.offset ≠ 0) :
    Post (afterNode e p st) (fun st' => ∃ b, st'.out = st.out ++ b ∧ AllGap b ∧ NonEmp b ∧ AllWs (gapChars b) ∧
      (gapChars b ≠ [] → legitAfter e.root p = true) ∧ Base st' ∧ Off st' ∧ st'.unwritten = st.unwritten ∧
      st'.level = st.level) := by
  have hstay : ∃ b, st.out = st.out ++ b ∧ AllGap b ∧ NonEmp b ∧ AllWs (gapChars b) ∧
      (gapChars b ≠ [] → legitAfter e.root p = true) ∧ Base st ∧ Off st ∧ st.unwritten = st.unwritten ∧
      st.level = st.level :=
    ⟨[], by simp, allGap_nil, nonEmp_nil, by simp [AllWs], fun h => absurd rfl h, hb, fun h => absurd h h0, rfl, rfl⟩
  unfold afterNode
  by_cases hl : legitAfter e.root p = true
  · rw [if_pos hl]
    have hk : ∀ ff, Post (afterNodeK st ff) (fun st' => ∃ b, st'.out = st.out ++ b ∧ AllGap b ∧ NonEmp b ∧
        AllWs (gapChars b) ∧ (gapChars b ≠ [] → legitAfter e.root p = true) ∧ Base st' ∧ Off st' ∧
        st'.unwritten = st.unwritten ∧ st'.level = st.level) := by
      intro ff
      unfold afterNodeK
      split
      · rw [Post_pure]
        obtain ⟨g, g1, g2, g3, g4, g5, g6, _⟩ := ws_step st ['\n'] allWs_nl
        exact ⟨g, g1, g2, g3, g4, fun _ => hl, base_write hb _, g6 (fun h => absurd h h0), by simp, by simp⟩
      · rw [Post_pure]; exact hstay
    split
    · exact hk _
    · exact Post_bind_of (Post_true _) (fun _ _ => hk _)
  · rw [if_neg hl, Post_pure]; exact hstay
end
end Delb.Wrapping

import DelbModel.Lemmas.WrapTransparent.MachineSpec
import DelbModel.Lemmas.WrapTransparent.Text
import DelbModel.Props.C03
/-!
# C03 (width ≥ 1): machine half and structural half combined
-/
set_option linter.unusedSimpArgs false
namespace Delb.Wrapping
open Delb.Ser Delb.WS Delb.Pretty

/-- transparency of the text-wrapping serializer for a root that is not `xml:space="preserve"`,
    given the specification of `_serialize_text` -/
theorem wrapped_transparent_of_textSpec (o : Opts) (ho : IndentOk o) (width : Nat)
    (nsmap m : Dict) (ns name : String) (attrs : List Attr) (kids : List Node)
    (hs : Serializable (.tag ns name attrs kids)) (hm : PMapOk nsmap m (.tag ns name attrs kids))
    (hr : Reduced (.tag ns name attrs kids)) (hd : directive attrs .default ≠ .preserve)
    (htext : ∀ fuel, TextSpec { o := o, width := width, m := m, root := .tag ns name attrs kids, fuel := fuel })
    (ps : List Piece) (h : wrapRoot o width m (.tag ns name attrs kids) = .ok ps) :
    ∃ u, build (eraseAll ps) = some u ∧ reduceSpec pyWs u = normalize (.tag ns name attrs kids) := by
  obtain ⟨u, hlay, hemit⟩ := wrapRoot_lay o ho width m ns name attrs kids ⟨hr.2, hr.1⟩ hd htext ps h
  obtain ⟨K, hu⟩ := lay_tag_inv hlay
  have hsu : Serializable u := lay_serializable.1 _ hs u hlay
  have hbuild := build_emitRoot ⟨hm.injective, hm.shape, hm.keysNodup, hm.xmlPrefix, hm.xmlnsPrefix⟩
    Serializable SerializableList
    (fun _ _ _ _ h => by simp only [Serializable] at h; exact ⟨h.1, h.2.1, h.2.2.1, h.2.2.2.2⟩)
    (fun _ _ h => by simpa only [SerializableList] using h) u (by subst hu; rfl) hsu _ hemit
  have hreduce := (wlay_reduce Serializable SerializableList
    (fun _ _ _ _ h => by simp only [Serializable] at h; exact ⟨h.2.2.2.1, h.2.2.2.2⟩)
    (fun _ _ h => by simpa only [SerializableList] using h)).1 _ hs hr.2 hr.1 u hlay
  exact ⟨_, hbuild, hreduce⟩

theorem withAd_sep (ad : List (Str × Str)) (toks : List Tok) (h : CharsSep toks) : CharsSep (withAd ad toks) := by
  unfold withAd
  split
  · rename_i qn a sc rest
    cases rest with
    | nil => trivial
    | cons b r => exact ⟨fun hx => by simp [isCharsTok] at hx, h.2⟩
  · exact h

/-- a root with `xml:space="preserve"` is written token by token -/
theorem wrapRoot_preserve (o : Opts) (width : Nat) (m : Dict) (ns name : String)
    (attrs : List Attr) (kids : List Node) (hmerged : merged (.tag ns name attrs kids) = true)
    (hd : directive attrs .default = .preserve)
    (ps : List Piece) (h : wrapRoot o width m (.tag ns name attrs kids) = .ok ps) :
    emitRoot m (.tag ns name attrs kids) = .ok (eraseAll ps) := by
  unfold wrapRoot at h
  simp only at h
  split at h
  · cases h
  · rename_i ad had
    split at h
    · cases h
    · rename_i st hst
      cases h
      obtain ⟨e, he⟩ : ∃ e : Env, (⟨o, width, m, Node.tag ns name attrs kids, fuelFor (Node.tag ns name attrs kids)⟩ : Env) = e :=
        ⟨_, rfl⟩
      rw [he] at hst
      have hf : fuelFor (Node.tag ns name attrs kids) = (8 * size (Node.tag ns name attrs kids) + 30) + 1 + 1 := by
        unfold fuelFor; omega
      rw [hf, serializeTag_succ] at hst
      have hem : e.m = m := by subst he; rfl
      have hroot : nodeAt e.root [] = some (.tag ns name attrs kids) := by subst he; rfl
      cases hfit : nodeFitsRemainingLine e {} [] with
      | error err => rw [hfit] at hst; cases hst
      | ok fits =>
        rw [hfit] at hst
        have hst' : prettySerializeTag e ((8 * size (Node.tag ns name attrs kids) + 30) + 1) []
            (declarations m ++ ad) {} = .ok st := by
          simpa [bind, Except.bind] using hst
        rw [prettySerializeTag_succ] at hst'
        have hget : getNode e [] = .ok (.tag ns name attrs kids) := by simp [getNode, hroot]
        rw [hget] at hst'
        have hdp : (directive attrs Mode.default == Mode.preserve) = true := by rw [hd]; rfl
        simp only [bind, Except.bind, hdp, if_true, hem] at hst'
        cases hemit : emitNode m (.tag ns name attrs kids) with
        | error err => rw [hemit] at hst'; cases hst'
        | ok toks =>
          rw [hemit] at hst'
          simp only [pure, Except.pure, Except.ok.injEq] at hst'
          rw [preserveTag_eq] at hst'
          obtain ⟨pp, ad', ks, _, _, _, hform⟩ := emitNode_tag_inv hemit
          obtain ⟨hsep, _⟩ := (emit_sep m).1 _ hmerged toks hemit
          have hhead : ∀ t ∈ (withAd (declarations m ++ ad) toks).head?, isCharsTok t = false := by
            rw [hform]
            intro t ht
            split at ht <;> (simp [withAd] at ht; subst ht; rfl)
          obtain ⟨w1, _⟩ := writeToks_sep (withAd (declarations m ++ ad) toks) {} (Or.inr hhead)
            (withAd_sep _ _ hsep) (fun s hs => (emit_chars_ne m).1 _ _ hemit s (withAd_chars _ _ s hs))
          rw [emitRoot_withAd hemit had, ← hst', w1]
          simp [eraseAll_verbatim]


/-- **whitespace transparency of the text-wrapping serializer** for indentation strings without a newline -/
theorem wrapped_transparent (o : Opts) (ho : IndentOk o) (hnl : '\n' ∉ o.indent) (width : Nat) (hw : 1 ≤ width)
    (nsmap m : Dict) (t : Node) (htag : t.isTag = true) (hs : Serializable t) (hm : PMapOk nsmap m t)
    (hr : Reduced t) (ps : List Piece) (h : wrapRoot o width m t = .ok ps) :
    ∃ u, build (eraseAll ps) = some u ∧ reduceSpec pyWs u = normalize t := by
  cases t with
  | text s => cases htag
  | comment s => cases htag
  | pi tg s => cases htag
  | tag ns name attrs kids =>
    by_cases hd : directive attrs .default = .preserve
    · have hemit := wrapRoot_preserve o width m ns name attrs kids hr.2 hd ps h
      have hbuild := build_emitRoot ⟨hm.injective, hm.shape, hm.keysNodup, hm.xmlPrefix, hm.xmlnsPrefix⟩
        Serializable SerializableList
        (fun _ _ _ _ h => by simp only [Serializable] at h; exact ⟨h.1, h.2.1, h.2.2.1, h.2.2.2.2⟩)
        (fun _ _ h => by simpa only [SerializableList] using h) _ rfl hs _ hemit
      refine ⟨_, hbuild, ?_⟩
      exact reduce_normalize_fixed Serializable SerializableList
        (fun _ _ _ _ h => by simp only [Serializable] at h; exact ⟨h.2.2.2.1, h.2.2.2.2⟩)
        (fun _ _ h => by simpa only [SerializableList] using h) _ _ hs hr.2 _ hr.1
    · exact wrapped_transparent_of_textSpec o ho width nsmap m ns name attrs kids hs hm hr hd
        (fun fuel => textSpec _ ho hnl hw) ps h

end Delb.Wrapping

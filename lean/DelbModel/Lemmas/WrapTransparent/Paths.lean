import DelbModel.Model.Wrapping
/-!
# C03 (width ≥ 1): navigation by paths, in terms of the parent's child list
-/
set_option linter.unusedSimpArgs false
namespace Delb.Wrapping
open Delb.Ser Delb.WS Delb.Pretty

theorem nodeAt_append (root : Node) : ∀ (q p : Path), nodeAt root (q ++ p) = (nodeAt root q).bind (fun n => nodeAt n p) := by
  intro q
  induction q generalizing root with
  | nil => intro p; simp [nodeAt]
  | cons i q ih =>
    intro p
    simp only [List.cons_append, nodeAt]
    cases (kidsOf root)[i]? with
    | none => simp
    | some k => simpa using ih k p

theorem nodeAt_snoc {root : Node} {q : Path} {n : Node} (h : nodeAt root q = some n) (i : Nat) :
    nodeAt root (q ++ [i]) = (kidsOf n)[i]? := by
  rw [nodeAt_append, h]
  simp only [Option.bind_some, nodeAt]
  cases (kidsOf n)[i]? <;> rfl

@[simp] theorem parentOf_snoc (q : Path) (i : Nat) : parentOf (q ++ [i]) = q := by simp [parentOf]
@[simp] theorem indexOf_snoc (q : Path) (i : Nat) : indexOf (q ++ [i]) = i := by simp [indexOf]
@[simp] theorem isEmpty_snoc (q : Path) (i : Nat) : (q ++ [i]).isEmpty = false := by
  cases q <;> simp

section
variable {root : Node} {q : Path} {ns name : String} {attrs : List Attr} {kids : List Node}
  (hq : nodeAt root q = some (.tag ns name attrs kids))
include hq

theorem lenAt_eq : lenAt root q = kids.length := by simp [lenAt, hq, kidsOf]

theorem nodeAt_kid (i : Nat) : nodeAt root (q ++ [i]) = kids[i]? := by
  rw [nodeAt_snoc hq]; rfl

theorem isLastChild_eq (i : Nat) : isLastChild root (q ++ [i]) = (i + 1 == kids.length) := by
  simp [isLastChild, lenAt_eq hq]

theorem fetchFollowingSibling_eq (i : Nat) :
    fetchFollowingSibling root (q ++ [i]) = if i + 1 < kids.length then some (q ++ [i + 1]) else none := by
  simp [fetchFollowingSibling, lenAt_eq hq]

omit hq in
theorem fetchPrecedingSibling_eq (i : Nat) :
    fetchPrecedingSibling (q ++ [i]) = if i = 0 then none else some (q ++ [i - 1]) := by
  simp [fetchPrecedingSibling]

theorem legitBefore_text (i : Nat) (s : Str) (hk : kids[i]? = some (.text s)) :
    legitBefore root (q ++ [i]) = (i == 0 || firstIsSpace s) := by
  simp only [legitBefore, isEmpty_snoc, Bool.false_eq_true, if_false, indexOf_snoc, nodeAt_kid hq, hk]
  by_cases h : i = 0 <;> simp [h]

theorem legitBefore_nontext (i : Nat) (k : Node) (hk : kids[i]? = some k) (hnt : k.isText = false) :
    legitBefore root (q ++ [i]) =
      (i == 0 || (match kids[i - 1]? with | some (.text s) => lastIsSpace s | _ => false)) := by
  simp only [legitBefore, isEmpty_snoc, Bool.false_eq_true, if_false, indexOf_snoc, nodeAt_kid hq, hk]
  by_cases h : i = 0
  · simp [h]
  · have hb : (i == 0) = false := by simpa using h
    simp only [beq_iff_eq, h, if_false, Bool.false_or, fetchPrecedingSibling_eq, Option.bind_some, nodeAt_kid hq, hb]
    cases k <;> simp_all [Node.isText] <;>
      (generalize kids[i - 1]? = x; cases x with | none => rfl | some n => cases n <;> rfl)

theorem legitAfter_text (i : Nat) (s : Str) (hk : kids[i]? = some (.text s)) :
    legitAfter root (q ++ [i]) = (i + 1 == kids.length || lastIsSpace s) := by
  simp only [legitAfter, isEmpty_snoc, Bool.false_eq_true, if_false, isLastChild_eq hq, nodeAt_kid hq, hk]
  by_cases h : i + 1 = kids.length <;> simp [h]

theorem legitAfter_nontext (i : Nat) (k : Node) (hk : kids[i]? = some k) (hnt : k.isText = false) :
    legitAfter root (q ++ [i]) =
      (i + 1 == kids.length || (match kids[i + 1]? with | some (.text s) => firstIsSpace s | _ => false)) := by
  simp only [legitAfter, isEmpty_snoc, Bool.false_eq_true, if_false, isLastChild_eq hq, nodeAt_kid hq, hk]
  by_cases h : i + 1 = kids.length
  · simp [h]
  · have hlt : i + 1 < kids.length := by
      have := (List.getElem?_eq_some_iff.1 hk).1
      omega
    have hb : (i + 1 == kids.length) = false := by simpa using h
    simp only [beq_iff_eq, h, if_false, Bool.false_or, fetchFollowingSibling_eq hq, hlt, if_true,
      Option.bind_some, nodeAt_kid hq, hb]
    cases k <;> simp_all [Node.isText] <;>
      (generalize kids[i + 1] = n; cases n <;> rfl)

end
end Delb.Wrapping

import DelbModel.Lemmas.WrapTransparent.Layout
import DelbModel.Lemmas.WrapTransparent.Gap
/-!
# C03 (width ≥ 1): what `write` appends — gap pieces (character data) and markup pieces
-/
set_option linter.unusedSimpArgs false
namespace Delb.Wrapping
open Delb.Ser Delb.WS Delb.Pretty

/-- character data: text and layout pieces -/
def isGapPiece : Piece → Bool
  | .text _ => true
  | .layout _ => true
  | _ => false

def pieceStr : Piece → Str
  | .text s => s
  | .layout s => s
  | _ => []

/-- the strings of a list of gap pieces -/
def strs (g : List Piece) : List Str := g.map pieceStr

/-- the character data of a list of gap pieces -/
def gapChars (g : List Piece) : Str := (strs g).flatten

def AllGap (g : List Piece) : Prop := ∀ p ∈ g, isGapPiece p = true

/-- no empty strings -/
def NonEmp (g : List Piece) : Prop := ∀ p ∈ g, pieceStr p ≠ []

@[simp] theorem gapChars_nil : gapChars [] = [] := rfl
@[simp] theorem gapChars_append (a b : List Piece) : gapChars (a ++ b) = gapChars a ++ gapChars b := by
  simp [gapChars, strs]
@[simp] theorem gapChars_cons (p : Piece) (g : List Piece) : gapChars (p :: g) = pieceStr p ++ gapChars g := by
  simp [gapChars, strs]
@[simp] theorem strs_append (a b : List Piece) : strs (a ++ b) = strs a ++ strs b := by simp [strs]
@[simp] theorem strs_nil : strs [] = [] := rfl

theorem allGap_nil : AllGap [] := by intro p h; simp at h
theorem allGap_append {a b : List Piece} (ha : AllGap a) (hb : AllGap b) : AllGap (a ++ b) := by
  intro p h
  rcases List.mem_append.1 h with h | h
  · exact ha p h
  · exact hb p h
theorem nonEmp_nil : NonEmp [] := by intro p h; simp at h
theorem nonEmp_append {a b : List Piece} (ha : NonEmp a) (hb : NonEmp b) : NonEmp (a ++ b) := by
  intro p h
  rcases List.mem_append.1 h with h | h
  · exact ha p h
  · exact hb p h

/-- the character data written since the last markup piece -/
def trailGap (out : List Piece) : Str := gapChars (out.reverse.takeWhile isGapPiece).reverse

theorem trailGap_append_gap (out g : List Piece) (hg : AllGap g) :
    trailGap (out ++ g) = trailGap out ++ gapChars g := by
  unfold trailGap
  rw [List.reverse_append]
  have : ∀ p ∈ g.reverse, isGapPiece p = true := fun p hp => hg p (List.mem_reverse.1 hp)
  rw [List.takeWhile_append_of_pos this]
  simp

theorem trailGap_markup (out : List Piece) (x : Piece) (hx : isGapPiece x = false) :
    trailGap (out ++ [x]) = [] := by
  unfold trailGap
  simp [List.reverse_append, List.takeWhile, hx]

/-- ends with a markup piece -/
def EndsMarkup (N : List Piece) : Prop := ∃ N' x, N = N' ++ [x] ∧ isGapPiece x = false

theorem trailGap_endsMarkup (out N : List Piece) (h : EndsMarkup N) : trailGap (out ++ N) = [] := by
  obtain ⟨N', x, rfl, hx⟩ := h
  rw [← List.append_assoc]
  exact trailGap_markup _ _ hx

theorem endsMarkup_append (a : List Piece) {b : List Piece} (h : EndsMarkup b) : EndsMarkup (a ++ b) := by
  obtain ⟨N', x, rfl, hx⟩ := h
  exact ⟨a ++ N', x, by simp, hx⟩

@[simp] theorem trailGap_nil : trailGap [] = [] := rfl

/-! ## reading gap pieces back -/

theorem eraseAll_gap : ∀ (g : List Piece), AllGap g → eraseAll g = (strs g).map Tok.chars
  | [], _ => rfl
  | p :: g, h => by
    have hp := h p (by simp)
    have ih := eraseAll_gap g (fun q hq => h q (by simp [hq]))
    cases p <;> simp_all [isGapPiece, erase, strs, pieceStr]

theorem emitKids_texts (m : Dict) : ∀ (ss : List Str), (∀ s ∈ ss, s ≠ []) →
    emitKids m (ss.map Node.text) = .ok (ss.map Tok.chars)
  | [], _ => by simp [emitKids]
  | s :: ss, h => by
    have hs : s.isEmpty = false := by
      have := h s (by simp)
      cases s <;> simp_all
    have ih := emitKids_texts m ss (fun t ht => h t (by simp [ht]))
    simp [emitKids, emitNode, hs, ih]

theorem emitKids_append (m : Dict) : ∀ (a b : List Node) (x y : List Tok), emitKids m a = .ok x →
    emitKids m b = .ok y → emitKids m (a ++ b) = .ok (x ++ y)
  | [], b, x, y, ha, hb => by
    simp [emitKids] at ha; subst ha; simpa using hb
  | k :: a, b, x, y, ha, hb => by
    obtain ⟨x1, x2, h1, h2, rfl⟩ := emitKids_cons_inv ha
    have ih := emitKids_append m a b x2 y h2 hb
    simp [emitKids, h1, ih]

theorem emitKids_single (m : Dict) (k : Node) (x : List Tok) (h : emitNode m k = .ok x) :
    emitKids m [k] = .ok x := by
  simp [emitKids, h]

theorem strs_nonEmp {g : List Piece} (h : NonEmp g) : ∀ s ∈ strs g, s ≠ [] := by
  intro s hs
  simp only [strs, List.mem_map] at hs
  obtain ⟨p, hp, rfl⟩ := hs
  exact h p hp

theorem emitKids_gap (m : Dict) (g : List Piece) (hg : AllGap g) (hne : NonEmp g) :
    emitKids m ((strs g).map Node.text) = .ok (eraseAll g) := by
  rw [eraseAll_gap g hg]
  exact emitKids_texts m _ (strs_nonEmp hne)

/-! ## offsets -/

theorem newOffset_ne_zero (o : Nat) (data : Str) (c : Char) (h : data.getLast? = some c) (hc : c ≠ '\n') :
    newOffset o data ≠ 0 := by
  unfold newOffset
  obtain ⟨d, rfl⟩ : ∃ d, data = d ++ [c] := by
    cases hd : data.reverse with
    | nil => simp at hd; subst hd; simp at h
    | cons x xs =>
      have : data = xs.reverse ++ [x] := by
        have := congrArg List.reverse hd; simpa using this
      subst this
      simp at h; subst h; exact ⟨_, rfl⟩
  split
  · simp [List.takeWhile, isNl, hc]
  · simp

theorem newOffset_zero (o : Nat) (data : Str) (hne : data ≠ []) (h : newOffset o data = 0) :
    data.getLast? = some '\n' := by
  cases hl : data.getLast? with
  | none => simp at hl; exact absurd hl hne
  | some c =>
    by_cases hc : c = '\n'
    · rw [hc]
    · exact absurd h (newOffset_ne_zero o data c hl hc)

theorem textEscapes_eq : Gen.textEscapes = textTable := by decide

theorem escapeChar_text_last (c : Char) :
    (escapeChar Gen.textEscapes c).getLast? = some '\n' → c = '\n' := by
  rw [textEscapes_eq, escapeChar_textTable]
  split
  · simp
  · split
    · simp
    · split
      · simp
      · simp

theorem escapeChar_text_ne_nil (c : Char) : escapeChar Gen.textEscapes c ≠ [] := by
  rw [textEscapes_eq, escapeChar_textTable]
  split
  · simp
  · split
    · simp
    · split <;> simp

theorem escapeText_append (a b : Str) : escapeText (a ++ b) = escapeText a ++ escapeText b := by
  simp [escapeText, escape]

theorem escapeText_ne_nil {s : Str} (h : s ≠ []) : escapeText s ≠ [] := by
  cases s with
  | nil => exact absurd rfl h
  | cons c cs =>
    simp only [escapeText, escape, List.flatMap_cons]
    intro hh
    exact escapeChar_text_ne_nil c (List.append_eq_nil_iff.1 hh).1

theorem escapeText_last {s : Str} (h : (escapeText s).getLast? = some '\n') : s.getLast? = some '\n' := by
  cases hr : s.reverse with
  | nil => simp at hr; subst hr; simp [escapeText, escape] at h
  | cons x xs =>
    have : s = xs.reverse ++ [x] := by
      have := congrArg List.reverse hr; simpa using this
    subst this
    rw [escapeText_append] at h
    have hx : escapeText [x] = escapeChar Gen.textEscapes x := by simp [escapeText, escape]
    rw [List.getLast?_append, hx] at h
    have hne := escapeChar_text_ne_nil x
    cases hl : (escapeChar Gen.textEscapes x).getLast? with
    | none => simp at hl; exact absurd hl hne
    | some c =>
      rw [hl] at h
      simp at h
      subst h
      have := escapeChar_text_last x hl
      subst this
      simp


/-! ## `write` on gap pieces -/

theorem renderP_append (a b : List Piece) : renderP (a ++ b) = renderP a ++ renderP b := by simp [renderP]
@[simp] theorem renderP_nil : renderP [] = [] := rfl
theorem renderP_single (p : Piece) : renderP [p] = renderPiece p := by simp [renderP]

theorem renderPiece_gap_ne_nil {p : Piece} (hg : isGapPiece p = true) (hne : pieceStr p ≠ []) :
    renderPiece p ≠ [] := by
  cases p <;> simp_all [isGapPiece, pieceStr, renderPiece]
  exact escapeText_ne_nil hne

theorem renderP_gap_eq_nil {g : List Piece} (hg : AllGap g) (hne : NonEmp g) (h : renderP g = []) : g = [] := by
  cases g with
  | nil => rfl
  | cons p g =>
    exfalso
    simp only [renderP, List.flatMap_cons, List.append_eq_nil_iff] at h
    exact renderPiece_gap_ne_nil (hg p (by simp)) (hne p (by simp)) h.1

theorem getLast?_append_ne {α} (a b : List α) (hb : b ≠ []) : (a ++ b).getLast? = b.getLast? := by
  rw [List.getLast?_append]
  cases h : b.getLast? with
  | none => simp at h; exact absurd h hb
  | some c => simp

theorem render_gap_last : ∀ {g : List Piece}, AllGap g → NonEmp g →
    (renderP g).getLast? = some '\n' → (gapChars g).getLast? = some '\n' := by
  intro g
  induction g with
  | nil => intro _ _ h; simp at h
  | cons p g ih =>
    intro hg hne h
    have hp := hg p (by simp)
    have hpn := hne p (by simp)
    have hg' : AllGap g := fun q hq => hg q (by simp [hq])
    have hne' : NonEmp g := fun q hq => hne q (by simp [hq])
    by_cases hgn : g = []
    · subst hgn
      rw [renderP_single] at h
      have : (pieceStr p).getLast? = some '\n' := by
        cases p <;> simp_all [isGapPiece, pieceStr, renderPiece]
        exact escapeText_last h
      simpa [gapChars, strs] using this
    · have hr : renderP g ≠ [] := fun hh => hgn (renderP_gap_eq_nil hg' hne' hh)
      have : renderP (p :: g) = renderPiece p ++ renderP g := by simp [renderP]
      rw [this, getLast?_append_ne _ _ hr] at h
      have ih' := ih hg' hne' h
      rw [gapChars_cons]
      have hgc : gapChars g ≠ [] := by
        intro hh; rw [hh] at ih'; simp at ih'
      rw [getLast?_append_ne _ _ hgc]
      exact ih'

theorem dropWhile_append_all {α} (f : α → Bool) (a b : List α) (h : ∀ x ∈ a, f x = true) :
    (a ++ b).dropWhile f = b.dropWhile f := by
  induction a with
  | nil => rfl
  | cons x a ih =>
    have hx := h x (by simp)
    simp only [List.cons_append, List.dropWhile_cons, hx, if_true]
    exact ih (fun y hy => h y (by simp [hy]))

theorem dropWhile_eq_nil_all {α} (f : α → Bool) (a : List α) (h : a.dropWhile f = []) : ∀ x ∈ a, f x = true := by
  induction a with
  | nil => intro x hx; simp at hx
  | cons y a ih =>
    intro x hx
    simp only [List.dropWhile_cons] at h
    split at h
    · rename_i hy
      rcases List.mem_cons.1 hx with rfl | hx
      · exact hy
      · exact ih h x hx
    · cases h

theorem dropWhile_append_ne {α} (f : α → Bool) (a b : List α) (h : a.dropWhile f ≠ []) :
    (a ++ b).dropWhile f = a.dropWhile f ++ b := by
  induction a with
  | nil => simp at h
  | cons x a ih =>
    simp only [List.cons_append, List.dropWhile_cons] at h ⊢
    split
    · rename_i hx; simp only [hx, if_true] at h; exact ih h
    · rfl

theorem stripNl_gap : ∀ (ps : List Piece), AllGap ps →
    AllGap (stripNl ps) ∧ gapChars (stripNl ps) = (gapChars ps).dropWhile isNl := by
  intro ps
  induction ps with
  | nil => intro _; simp [stripNl, allGap_nil]
  | cons p ps ih =>
    intro h
    have hp := h p (by simp)
    have hps : AllGap ps := fun q hq => h q (by simp [hq])
    obtain ⟨ih1, ih2⟩ := ih hps
    cases p with
    | text s =>
      simp only [stripNl, gapChars_cons, pieceStr]
      split
      · rename_i he
        have he' : s.dropWhile isNl = [] := by simpa using he
        rw [dropWhile_append_all _ _ _ (dropWhile_eq_nil_all _ _ he')]
        exact ⟨ih1, ih2⟩
      · rename_i he
        have he' : s.dropWhile isNl ≠ [] := by simpa using he
        rw [dropWhile_append_ne _ _ _ he']
        refine ⟨?_, by simp [pieceStr]⟩
        intro q hq
        rcases List.mem_cons.1 hq with rfl | hq
        · rfl
        · exact hps q hq
    | layout s =>
      simp only [stripNl, gapChars_cons, pieceStr]
      split
      · rename_i he
        have he' : s.dropWhile isNl = [] := by simpa using he
        rw [dropWhile_append_all _ _ _ (dropWhile_eq_nil_all _ _ he')]
        exact ⟨ih1, ih2⟩
      · rename_i he
        have he' : s.dropWhile isNl ≠ [] := by simpa using he
        rw [dropWhile_append_ne _ _ _ he']
        refine ⟨?_, by simp [pieceStr]⟩
        intro q hq
        rcases List.mem_cons.1 hq with rfl | hq
        · rfl
        · exact hps q hq
    | _ => simp [isGapPiece] at hp

theorem filter_gap (ps : List Piece) (h : AllGap ps) :
    AllGap (ps.filter (fun p => !isEmptyPiece p)) ∧ NonEmp (ps.filter (fun p => !isEmptyPiece p)) ∧
    gapChars (ps.filter (fun p => !isEmptyPiece p)) = gapChars ps := by
  induction ps with
  | nil => simp [allGap_nil, nonEmp_nil]
  | cons p ps ih =>
    have hp := h p (by simp)
    obtain ⟨i1, i2, i3⟩ := ih (fun q hq => h q (by simp [hq]))
    have key : isEmptyPiece p = (pieceStr p).isEmpty := by
      cases p <;> simp_all [isGapPiece, isEmptyPiece, pieceStr]
    by_cases he : (pieceStr p).isEmpty = true
    · have : pieceStr p = [] := by simpa using he
      simp only [List.filter_cons, key, he, Bool.not_true, Bool.false_eq_true, if_false, gapChars_cons, this,
        List.nil_append]
      exact ⟨i1, i2, i3⟩
    · have he' : (pieceStr p).isEmpty = false := by simpa using he
      simp only [List.filter_cons, key, he', Bool.not_false, if_true, gapChars_cons, i3]
      refine ⟨?_, ?_, trivial⟩
      · intro q hq
        rcases List.mem_cons.1 hq with rfl | hq
        · exact hp
        · exact i1 q hq
      · intro q hq
        rcases List.mem_cons.1 hq with rfl | hq
        · simpa using he
        · exact i2 q hq

/-- writing character data -/
theorem write_gap (st : St) (ps : List Piece) (hps : AllGap ps) :
    ∃ g, (write st ps).out = st.out ++ g ∧ AllGap g ∧ NonEmp g ∧
      (gapChars g = gapChars ps ∨
        (st.offset = 0 ∧ st.preserveSpace = false ∧ gapChars g = (gapChars ps).dropWhile isNl)) ∧
      (g = [] → write st ps = st) ∧
      ((write st ps).offset = 0 → (g = [] ∧ st.offset = 0) ∨ (gapChars g).getLast? = some '\n') ∧
      (g ≠ [] → (write st ps).offset = newOffset st.offset (renderP g)) := by
  have hprep : AllGap (prep st ps) ∧ NonEmp (prep st ps) ∧
      (gapChars (prep st ps) = gapChars ps ∨
        (st.offset = 0 ∧ st.preserveSpace = false ∧ gapChars (prep st ps) = (gapChars ps).dropWhile isNl)) := by
    unfold prep
    by_cases hc : (!st.preserveSpace && st.offset == 0) = true
    · rw [if_pos hc]
      obtain ⟨s1, s2⟩ := stripNl_gap ps hps
      obtain ⟨f1, f2, f3⟩ := filter_gap _ s1
      refine ⟨f1, f2, Or.inr ⟨?_, ?_, by rw [f3, s2]⟩⟩
      · simp at hc; exact hc.2
      · simp at hc; exact hc.1
    · rw [if_neg hc]
      obtain ⟨f1, f2, f3⟩ := filter_gap _ hps
      exact ⟨f1, f2, Or.inl f3⟩
  obtain ⟨p1, p2, p3⟩ := hprep
  by_cases he : (renderP (prep st ps)).isEmpty = true
  · have hnil : prep st ps = [] := renderP_gap_eq_nil p1 p2 (by simpa using he)
    have hw : write st ps = st := by rw [write_eq, if_pos he]
    refine ⟨[], by rw [hw]; simp, allGap_nil, nonEmp_nil, ?_, fun _ => hw, ?_, fun h => absurd rfl h⟩
    · rw [hnil] at p3; exact p3
    · intro h0; rw [hw] at h0; exact Or.inl ⟨rfl, h0⟩
  · have hw : write st ps = { st with out := st.out ++ prep st ps,
                                      offset := newOffset st.offset (renderP (prep st ps)) } := by
      rw [write_eq, if_neg he]
    refine ⟨prep st ps, by rw [hw], p1, p2, p3, ?_, ?_, fun _ => by rw [hw]⟩
    · intro hg; rw [hg] at he; simp at he
    · intro h0
      rw [hw] at h0
      right
      exact render_gap_last p1 p2 (newOffset_zero _ _ (by simpa using he) h0)

def IsMk : Piece → Prop
  | .stag .. => True
  | .etag _ => True
  | .comment _ => True
  | .pi .. => True
  | _ => False

theorem isMk_notGap {x : Piece} (h : IsMk x) : isGapPiece x = false := by
  cases x <;> simp_all [IsMk, isGapPiece]

theorem renderPiece_mk_last {x : Piece} (h : IsMk x) : (renderPiece x).getLast? = some '>' := by
  cases x with
  | stag qn attrs cp sc =>
    cases sc
    · show ((['<'] ++ qn ++ renderAttrsL attrs ++ cp) ++ ['>']).getLast? = some '>'
      exact List.getLast?_concat
    · show (['<'] ++ qn ++ renderAttrsL attrs ++ cp ++ ['/', '>']).getLast? = some '>'
      rw [getLast?_append_ne _ _ (by simp)]; rfl
  | etag qn =>
    show ((['<', '/'] ++ qn) ++ ['>']).getLast? = some '>'
    exact List.getLast?_concat
  | comment s =>
    show ("<!--".toList ++ s ++ "-->".toList).getLast? = some '>'
    rw [getLast?_append_ne _ _ (by decide)]; decide
  | pi t s =>
    show ("<?".toList ++ t.toList ++ [' '] ++ s ++ "?>".toList).getLast? = some '>'
    rw [getLast?_append_ne _ _ (by decide)]; decide
  | _ => simp [IsMk] at h

/-- writing a markup piece -/
theorem write_mk (st : St) (x : Piece) (hx : IsMk x) :
    (write st [x]).out = st.out ++ [x] ∧ (write st [x]).offset ≠ 0 := by
  have hprep : prep st [x] = [x] := by
    unfold prep
    have h1 : stripNl [x] = [x] := by cases x <;> simp_all [IsMk, stripNl]
    have h2 : isEmptyPiece x = false := by cases x <;> simp_all [IsMk, isEmptyPiece]
    split <;> simp [h1, h2]
  have hlast := renderPiece_mk_last hx
  have hne : (renderP [x]).isEmpty = false := by
    rw [renderP_single]
    cases hr : renderPiece x with
    | nil => rw [hr] at hlast; simp at hlast
    | cons => rfl
  rw [write_eq, hprep, hne]
  simp only [Bool.false_eq_true, if_false]
  refine ⟨trivial, ?_⟩
  rw [renderP_single]
  exact newOffset_ne_zero _ _ '>' hlast (by decide)

end Delb.Wrapping

import DelbModel.Lemmas.WrapTransparent.Skeleton
import DelbModel.Lemmas.Wrap
/-!
# C03 (width ≥ 1): `_serialize_text` writes character data that reduces to the text (`TextSpec`)
-/
set_option linter.unusedSimpArgs false
namespace Delb.Wrapping
open Delb.Ser Delb.WS Delb.Pretty

/-! ## whitespace runs under `collapse` -/

theorem collapseAux_ws_run (b : Bool) (W : Str) (hW : AllWs W) (hne : W ≠ []) :
    collapseAux pyWs b W = if b then [] else [' '] := by
  cases b
  · simpa using collapseAux_false_ws_ne W hW hne
  · simpa using collapseAux_allWs pyWs W hW

/-- any two non-empty whitespace runs are the same to `collapse` -/
theorem collapse_ws_swap (p W1 W2 x : Str) (h1 : AllWs W1) (h2 : AllWs W2) (n1 : W1 ≠ []) (n2 : W2 ≠ []) :
    collapse pyWs (p ++ W1 ++ x) = collapse pyWs (p ++ W2 ++ x) := by
  apply collapse_congr_right
  rw [collapse_append, collapse_append, collapseAux_ws_run _ _ h1 n1, collapseAux_ws_run _ _ h2 n2]

/-- whitespace after whitespace does not count -/
theorem collapse_ws_absorb (p W x : Str) (hW : AllWs W) (hp : lastIsSpace p = true) :
    collapse pyWs (p ++ W ++ x) = collapse pyWs (p ++ x) := by
  apply collapse_congr_right
  by_cases hne : W = []
  · subst hne; simp
  · rw [collapse_append, collapseAux_ws_run _ _ hW hne, lastIsSpace_collapse, hp]; simp

theorem mem_takeWhile_imp' {α} (f : α → Bool) : ∀ (l : List α) (x : α), x ∈ l.takeWhile f → f x = true := by
  intro l
  induction l with
  | nil => intro x h; simp at h
  | cons a l ih =>
    intro x h
    simp only [List.takeWhile_cons] at h
    split at h
    · rename_i ha
      rcases List.mem_cons.1 h with rfl | h
      · exact ha
      · exact ih x h
    · simp at h

theorem allWs_takeWhile (x : Str) : AllWs (x.takeWhile pyWs) := by
  intro c hc
  exact mem_takeWhile_imp' _ _ _ hc

theorem ltrim_split (x : Str) : x = x.takeWhile pyWs ++ ltrim pyWs x := by
  unfold ltrim; exact (List.takeWhile_append_dropWhile).symm

/-- the whitespace `rtrim` removes -/
def wsSuffix (x : Str) : Str := (x.reverse.takeWhile pyWs).reverse

theorem rtrim_split (x : Str) : x = rtrim pyWs x ++ wsSuffix x := by
  unfold rtrim wsSuffix
  rw [← List.reverse_append, List.takeWhile_append_dropWhile, List.reverse_reverse]

theorem allWs_wsSuffix (x : Str) : AllWs (wsSuffix x) := by
  intro c hc
  unfold wsSuffix at hc
  rw [List.mem_reverse] at hc
  exact mem_takeWhile_imp' _ _ _ hc

/-- trimming on the left after whitespace -/
theorem collapse_ltrim (p x y : Str) (hp : lastIsSpace p = true) :
    collapse pyWs (p ++ ltrim pyWs x ++ y) = collapse pyWs (p ++ x ++ y) := by
  conv => rhs; rw [ltrim_split x]
  rw [← List.append_assoc p, List.append_assoc (p ++ _)]
  rw [show p ++ List.takeWhile pyWs x ++ (ltrim pyWs x ++ y) = p ++ List.takeWhile pyWs x ++ (ltrim pyWs x ++ y) from rfl]
  have := collapse_ws_absorb p (x.takeWhile pyWs) (ltrim pyWs x ++ y) (allWs_takeWhile x) hp
  simpa [List.append_assoc] using this.symm

/-- trimming on the right before whitespace -/
theorem collapse_rtrim (p x Z y : Str) (hZ : AllWs Z) (hne : Z ≠ []) :
    collapse pyWs (p ++ rtrim pyWs x ++ Z ++ y) = collapse pyWs (p ++ x ++ Z ++ y) := by
  conv => rhs; rw [rtrim_split x]
  have := collapse_ws_swap (p ++ rtrim pyWs x) Z (wsSuffix x ++ Z) y hZ (allWs_append (allWs_wsSuffix x) hZ) hne
    (by intro h; exact hne (List.append_eq_nil_iff.1 h).2)
  simpa [List.append_assoc] using this

/-- newlines stripped at the beginning of a line -/
theorem collapse_dropNl (p x : Str) (hp : lastIsSpace p = true) :
    collapse pyWs (p ++ x.dropWhile isNl) = collapse pyWs (p ++ x) := by
  have hsplit : x = x.takeWhile isNl ++ x.dropWhile isNl := (List.takeWhile_append_dropWhile).symm
  have hW : AllWs (x.takeWhile isNl) := by
    intro c hc
    have := mem_takeWhile_imp' _ _ _ hc
    have : c = '\n' := by simpa [isNl] using this
    subst this; exact pyWs_nl
  conv => rhs; rw [hsplit]
  have := collapse_ws_absorb p (x.takeWhile isNl) (x.dropWhile isNl) hW hp
  simpa [List.append_assoc] using this.symm


/-! ## escaping and whitespace -/

theorem pyWs_amp : pyWs '&' = false := by decide
theorem pyWs_lt : pyWs '<' = false := by decide
theorem pyWs_gt : pyWs '>' = false := by decide
theorem pyWs_semi : pyWs ';' = false := by decide

theorem escapeChar_ws {c : Char} (h : pyWs c = true) : escapeChar Gen.textEscapes c = [c] := by
  rw [textEscapes_eq, escapeChar_textTable]
  have h1 : c ≠ '&' := by intro hc; subst hc; simp [pyWs_amp] at h
  have h2 : c ≠ '<' := by intro hc; subst hc; simp [pyWs_lt] at h
  have h3 : c ≠ '>' := by intro hc; subst hc; simp [pyWs_gt] at h
  simp [h1, h2, h3]

theorem escapeChar_nonws {c : Char} (h : pyWs c = false) :
    ∃ a r, escapeChar Gen.textEscapes c = a :: r ∧ pyWs a = false ∧ ' ' ∉ (a :: r) ∧
      ∀ l, (a :: r).getLast? = some l → pyWs l = false := by
  rw [textEscapes_eq, escapeChar_textTable]
  have hsp : c ≠ ' ' := by intro hc; subst hc; simp [pyWs_space] at h
  split
  · exact ⟨'&', ['a','m','p',';'], rfl, pyWs_amp, by decide, by intro l hl; simp at hl; subst hl; exact pyWs_semi⟩
  · split
    · exact ⟨'&', ['l','t',';'], rfl, pyWs_amp, by decide, by intro l hl; simp at hl; subst hl; exact pyWs_semi⟩
    · split
      · exact ⟨'&', ['g','t',';'], rfl, pyWs_amp, by decide, by intro l hl; simp at hl; subst hl; exact pyWs_semi⟩
      · exact ⟨c, [], rfl, h, by simpa using Ne.symm hsp, by intro l hl; simp at hl; subst hl; exact h⟩

theorem escapeText_cons (c : Char) (s : Str) : escapeText (c :: s) = escapeChar Gen.textEscapes c ++ escapeText s := by
  simp [escapeText, escape]

@[simp] theorem escapeText_nil : escapeText [] = [] := rfl

theorem escapeText_allWs {W : Str} (h : AllWs W) : escapeText W = W := by
  induction W with
  | nil => rfl
  | cons c W ih =>
    rw [escapeText_cons, escapeChar_ws (h c (by simp)), ih (fun d hd => h d (by simp [hd]))]; rfl

theorem ltrim_escapeText (s : Str) : ltrim pyWs (escapeText s) = escapeText (ltrim pyWs s) := by
  induction s with
  | nil => rfl
  | cons c s ih =>
    by_cases hc : pyWs c = true
    · rw [escapeText_cons, escapeChar_ws hc]
      simp only [List.singleton_append, ltrim_cons, hc, if_true, ih]
    · have hc' : pyWs c = false := by simpa using hc
      obtain ⟨a, r, he, ha, _, _⟩ := escapeChar_nonws hc'
      rw [ltrim_cons, hc']
      simp only [Bool.false_eq_true, if_false]
      rw [escapeText_cons, he]
      simp [ltrim_cons, ha]

theorem lastNonWs_escapeText {s : Str} (h : LastNonWs pyWs s) : LastNonWs pyWs (escapeText s) := by
  induction s using snoc_induction with
  | nil => simp [LastNonWs]
  | snoc s c _ =>
    have hc : pyWs c = false := by
      have := h c (by simp)
      exact this
    obtain ⟨a, r, he, _, _, hl⟩ := escapeChar_nonws hc
    rw [escapeText_append]
    have : escapeText [c] = a :: r := by simp [escapeText, escape, he]
    rw [this]
    intro l hl'
    rw [getLast?_append_ne _ _ (by simp)] at hl'
    exact hl l hl'

theorem rtrim_escapeText (s : Str) : rtrim pyWs (escapeText s) = escapeText (rtrim pyWs s) := by
  conv => lhs; rw [rtrim_split s]
  rw [escapeText_append, escapeText_allWs (allWs_wsSuffix s), rtrim_append_of_all _ _ _ (allWs_wsSuffix s)]
  exact rtrim_of_lastNonWs _ _ (lastNonWs_escapeText (rtrim_lastNonWs _ _))

theorem escapeText_space (a b : Str) : escapeText (a ++ ' ' :: b) = escapeText a ++ ' ' :: escapeText b := by
  rw [escapeText_append, escapeText_cons, escapeChar_ws pyWs_space]; rfl

theorem escapeText_head_space (s : Str) : (escapeText s).head? = some ' ' ↔ s.head? = some ' ' := by
  cases s with
  | nil => simp
  | cons c s =>
    rw [escapeText_cons]
    by_cases hc : pyWs c = true
    · rw [escapeChar_ws hc]; simp
    · have hc' : pyWs c = false := by simpa using hc
      obtain ⟨a, r, he, ha, hsp, _⟩ := escapeChar_nonws hc'
      rw [he]
      simp only [List.cons_append, List.head?_cons, Option.some.injEq]
      constructor
      · intro h; subst h; simp at hsp
      · intro h; subst h; simp [pyWs_space] at hc'

theorem escapeText_eq_nil {s : Str} (h : escapeText s = []) : s = [] := by
  by_cases hs : s = []
  · exact hs
  · exact absurd h (escapeText_ne_nil hs)

/-- a space in escaped text is a space of the text -/
theorem escapeText_split : ∀ (s : Str) (i : Nat), (escapeText s)[i]? = some ' ' →
    ∃ a b, s = a ++ ' ' :: b ∧ (escapeText s).take i = escapeText a ∧ (escapeText s).drop (i + 1) = escapeText b := by
  intro s
  induction s with
  | nil => intro i h; simp at h
  | cons c s ih =>
    intro i h
    rw [escapeText_cons] at h ⊢
    by_cases hi : i < (escapeChar Gen.textEscapes c).length
    · rw [List.getElem?_append_left hi] at h
      by_cases hc : pyWs c = true
      · rw [escapeChar_ws hc] at h hi ⊢
        have : i = 0 := by simpa using hi
        subst this
        simp at h; subst h
        exact ⟨[], s, rfl, rfl, rfl⟩
      · have hc' : pyWs c = false := by simpa using hc
        obtain ⟨a, r, he, _, hsp, _⟩ := escapeChar_nonws hc'
        rw [he] at h
        exact absurd (List.mem_of_getElem? h) hsp
    · have hi' : (escapeChar Gen.textEscapes c).length ≤ i := by omega
      rw [List.getElem?_append_right hi'] at h
      obtain ⟨a, b, hs, h1, h2⟩ := ih _ h
      refine ⟨c :: a, b, by rw [hs]; rfl, ?_, ?_⟩
      · rw [List.take_append, List.take_of_length_le hi', h1, escapeText_cons]
      · rw [List.drop_append, List.drop_of_length_le (by omega)]
        have : i + 1 - (escapeChar Gen.textEscapes c).length = (i - (escapeChar Gen.textEscapes c).length) + 1 := by omega
        rw [this, h2]; rfl

/-! ## `_wrap_text` on escaped text -/

/-- the lines are the parts, joined by single spaces; a trailing space may be swallowed when the last
    line is full -/
def WrapRel (w : Nat) (x : Str) (parts : List Str) : Prop :=
  Wrap.join parts = x ∨
    (x = Wrap.join parts ++ [' '] ∧ ∃ l, parts.getLast? = some l ∧ w ≤ (escapeText l).length)

theorem wrap_nil (w fuel : Nat) : Wrap.wrap w fuel [] = [] := by
  cases fuel with
  | zero => rfl
  | succ n => simp [Wrap.wrap]

theorem wrap_esc (w : Nat) : ∀ (fuel : Nat) (x : Str), (escapeText x).length < fuel →
    ∃ parts, Wrap.wrap w fuel (escapeText x) = parts.map escapeText ∧ WrapRel w x parts ∧ (x ≠ [] → parts ≠ []) := by
  intro fuel
  induction fuel with
  | zero => intro x h; omega
  | succ fuel ih =>
    intro x hf
    -- one cut at a space
    have hcut : ∀ i, (escapeText x)[i]? = some ' ' → i < (escapeText x).length →
        (i + 1 = (escapeText x).length → w ≤ i) →
        ∃ parts, (escapeText x).take i :: Wrap.wrap w fuel ((escapeText x).drop (i + 1)) = parts.map escapeText ∧
          WrapRel w x parts ∧ (x ≠ [] → parts ≠ []) := by
      intro i hsp hil hfull
      obtain ⟨a, b, hx, h1, h2⟩ := escapeText_split x i hsp
      have hdl : ((escapeText x).drop (i + 1)).length = (escapeText x).length - (i + 1) := List.length_drop
      have hlen : (escapeText b).length < fuel := by rw [← h2, hdl]; omega
      obtain ⟨pb, hpb, hrel, hne⟩ := ih b hlen
      refine ⟨a :: pb, by rw [h1, h2, hpb]; rfl, ?_, fun _ => List.cons_ne_nil _ _⟩
      by_cases hb : b = []
      · subst hb
        have hpb0 : pb = [] := by
          rw [show escapeText [] = [] from rfl, wrap_nil] at hpb
          cases pb with
          | nil => rfl
          | cons p ps => simp at hpb
        subst hpb0
        right
        refine ⟨by rw [hx]; rfl, a, rfl, ?_⟩
        have hia : (escapeText a).length = i := by
          rw [← h1, List.length_take]; omega
        rw [hia]
        apply hfull
        have : ((escapeText x).drop (i + 1)).length = 0 := by rw [h2]; rfl
        rw [hdl] at this
        omega
      · have hpne := hne hb
        rcases hrel with hj | ⟨hj, l, hl, hw⟩
        · left; rw [Wrap.join_cons_ne _ _ hpne, hj, hx]
        · right
          refine ⟨by rw [Wrap.join_cons_ne _ _ hpne, hx, hj]; simp, l, ?_, hw⟩
          obtain ⟨p0, ps, rfl⟩ := List.exists_cons_of_ne_nil hpne
          simpa using hl
    unfold Wrap.wrap
    by_cases hlong : (escapeText x).length > w
    · rw [if_pos hlong]
      cases hr : Wrap.rfindSp (escapeText x) (w + 1) with
      | some i =>
        obtain ⟨_, hil, hsp⟩ := Wrap.rfindSp_spec _ _ _ hr
        exact hcut i hsp hil (fun h => by omega)
      | none =>
        cases hfd : Wrap.findSpFrom (escapeText x) w with
        | none => exact ⟨[x], rfl, Or.inl rfl, fun _ => List.cons_ne_nil _ _⟩
        | some j =>
          cases j with
          | zero => exact ⟨[x], rfl, Or.inl rfl, fun _ => List.cons_ne_nil _ _⟩
          | succ i =>
            obtain ⟨hlo, hil, hsp⟩ := Wrap.findSpFrom_spec _ _ _ hfd
            exact hcut (i + 1) hsp hil (fun _ => hlo)
    · rw [if_neg hlong]
      by_cases he : escapeText x = []
      · rw [if_pos he]
        have : x = [] := escapeText_eq_nil he
        subst this
        exact ⟨[], rfl, Or.inl rfl, fun h => absurd rfl h⟩
      · rw [if_neg he]
        exact ⟨[x], rfl, Or.inl rfl, fun _ => List.cons_ne_nil _ _⟩

theorem wrapText_esc (w : Nat) (x : Str) :
    ∃ parts, Wrap.wrapText w (escapeText x) = parts.map escapeText ∧ WrapRel w x parts ∧ (x ≠ [] → parts ≠ []) :=
  wrap_esc w _ x (Nat.lt_succ_self _)

/-- the first line of `_wrap_text` -/
theorem wrapText_first (w : Nat) (x : Str) (l : Str) (rest : List Str)
    (h : Wrap.wrapText w (escapeText x) = l :: rest) :
    ∃ f, l = escapeText f ∧
      ((f = x ∧ (escapeText x).drop (l.length + 1) = []) ∨
       (∃ b, x = f ++ ' ' :: b ∧ (escapeText x).drop (l.length + 1) = escapeText b ∧ (escapeText x).length > w)) := by
  unfold Wrap.wrapText Wrap.wrap at h
  have hwhole : [escapeText x] = l :: rest → ∃ f, l = escapeText f ∧
      ((f = x ∧ (escapeText x).drop (l.length + 1) = []) ∨
       (∃ b, x = f ++ ' ' :: b ∧ (escapeText x).drop (l.length + 1) = escapeText b ∧ (escapeText x).length > w)) := by
    intro h
    simp only [List.cons.injEq] at h
    refine ⟨x, h.1.symm, Or.inl ⟨rfl, ?_⟩⟩
    rw [← h.1]; apply List.drop_eq_nil_of_le; omega
  have hcut : ∀ i, (escapeText x)[i]? = some ' ' → i < (escapeText x).length → (escapeText x).length > w →
      (escapeText x).take i = l → ∃ f, l = escapeText f ∧
      ((f = x ∧ (escapeText x).drop (l.length + 1) = []) ∨
       (∃ b, x = f ++ ' ' :: b ∧ (escapeText x).drop (l.length + 1) = escapeText b ∧ (escapeText x).length > w)) := by
    intro i hsp hil hlong hl
    obtain ⟨a, b, hx, h1, h2⟩ := escapeText_split x i hsp
    have hll : l.length = i := by rw [← hl, List.length_take]; omega
    exact ⟨a, by rw [← hl, h1], Or.inr ⟨b, hx, by rw [hll, h2], hlong⟩⟩
  by_cases hlong : (escapeText x).length > w
  · rw [if_pos hlong] at h
    cases hr : Wrap.rfindSp (escapeText x) (w + 1) with
    | some i =>
      rw [hr] at h
      obtain ⟨_, hil, hsp⟩ := Wrap.rfindSp_spec _ _ _ hr
      simp only [List.cons.injEq] at h
      exact hcut i hsp hil hlong h.1
    | none =>
      rw [hr] at h
      cases hfd : Wrap.findSpFrom (escapeText x) w with
      | none => rw [hfd] at h; exact hwhole h
      | some j =>
        rw [hfd] at h
        cases j with
        | zero => exact hwhole h
        | succ i =>
          obtain ⟨_, hil, hsp⟩ := Wrap.findSpFrom_spec _ _ _ hfd
          simp only [List.cons.injEq] at h
          exact hcut (i + 1) hsp hil hlong h.1
  · rw [if_neg hlong] at h
    by_cases he : escapeText x = []
    · rw [if_pos he] at h; cases h
    · rw [if_neg he] at h; exact hwhole h

/-! ## sequences of character-data writes -/

/-- `st'` is `st` after writing character data that is, up to whitespace that `collapse` ignores,
    the string `X` -/
def Wrote (st st' : St) (X : Str) : Prop :=
  ∃ g, st'.out = st.out ++ g ∧ AllGap g ∧ NonEmp g ∧
    collapse pyWs (trailGap st.out ++ gapChars g) = collapse pyWs (trailGap st.out ++ X) ∧
    Base st' ∧ Off st' ∧ st'.level = st.level ∧ st'.unwritten = st.unwritten

theorem Wrote.refl {st : St} (hb : Base st) (ho : Off st) : Wrote st st [] :=
  ⟨[], by simp, allGap_nil, nonEmp_nil, by simp, hb, ho, rfl, rfl⟩

theorem Wrote.trans {st st1 st2 : St} {X Y : Str} (h1 : Wrote st st1 X) (h2 : Wrote st1 st2 Y) :
    Wrote st st2 (X ++ Y) := by
  obtain ⟨g1, a1, a2, a3, a4, _, _, a7, a8⟩ := h1
  obtain ⟨g2, b1, b2, b3, b4, b5, b6, b7, b8⟩ := h2
  have htg : trailGap st1.out = trailGap st.out ++ gapChars g1 := by rw [a1, trailGap_append_gap _ _ a2]
  refine ⟨g1 ++ g2, by rw [b1, a1]; simp, allGap_append a2 b2, nonEmp_append a3 b3, ?_, b5, b6,
    by rw [b7, a7], by rw [b8, a8]⟩
  rw [htg] at b4
  rw [gapChars_append, ← List.append_assoc, b4, ← List.append_assoc]
  exact collapse_congr_right a4 Y

theorem Wrote.write {st : St} (hb : Base st) (ho : Off st) (ps : List Piece) (hps : AllGap ps) :
    Wrote st (write st ps) (gapChars ps) := by
  obtain ⟨g, g1, g2, g3, g4, g5, g6, _⟩ := write_gap st ps hps
  refine ⟨g, g1, g2, g3, ?_, base_write hb _, ?_, by simp, by simp⟩
  · rcases g4 with h | ⟨h0, _, h⟩
    · rw [h]
    · rw [h]; exact collapse_dropNl _ _ (ho h0)
  · intro h0
    rw [g1, trailGap_append_gap _ _ g2]
    rcases g6 h0 with ⟨hg, hs0⟩ | hl
    · subst hg; simpa using ho hs0
    · have hne : gapChars g ≠ [] := by intro h; rw [h] at hl; simp at hl
      rw [lastIsSpace_append_ne _ _ hne]
      exact lastIsSpace_of_last_nl hl

/-- the same up to `collapse` in every context that ends like the current gap -/
theorem Wrote.congr {st st' : St} {X Y : Str}
    (h : Wrote st st' X) (hxy : collapse pyWs (trailGap st.out ++ X) = collapse pyWs (trailGap st.out ++ Y)) :
    Wrote st st' Y := by
  obtain ⟨g, a1, a2, a3, a4, a5, a6, a7, a8⟩ := h
  exact ⟨g, a1, a2, a3, a4.trans hxy, a5, a6, a7, a8⟩

theorem Wrote.trailGap {st st' : St} {X : Str} (h : Wrote st st' X) :
    collapse pyWs (trailGap st'.out) = collapse pyWs (trailGap st.out ++ X) := by
  obtain ⟨g, a1, a2, _, a4, _⟩ := h
  rw [a1, trailGap_append_gap _ _ a2, a4]

/-! ## writing lines -/

/-- the characters `_serialize_text_over_lines` writes for the lines `L` (unescaped) -/
def linesChars (pre : Str) : List Str → Str
  | [] => []
  | [l] => if l.isEmpty then [] else pre ++ l
  | l :: rest => (if l.isEmpty then ['\n'] else pre ++ l ++ ['\n']) ++ linesChars pre rest

theorem linesChars_cons (pre l : Str) (rest : List Str) (h : rest ≠ []) :
    linesChars pre (l :: rest) = (if l.isEmpty then ['\n'] else pre ++ l ++ ['\n']) ++ linesChars pre rest := by
  cases rest with
  | nil => exact absurd rfl h
  | cons => rfl

theorem isEmpty_escapeText (l : Str) : (escapeText l).isEmpty = l.isEmpty := by
  cases l with
  | nil => rfl
  | cons c l =>
    have := escapeText_ne_nil (s := c :: l) (by simp)
    cases h : escapeText (c :: l) with
    | nil => exact absurd h this
    | cons => rfl

theorem textPiece_esc (l : Str) : textPiece (escapeText l) = .text l := by
  unfold textPiece; rw [c02_unescape_text]

/-- the characters written for all lines but the last -/
def bodyChars (pre : Str) (L : List Str) : Str :=
  (L.map (fun l => if l.isEmpty then ['\n'] else pre ++ l ++ ['\n'])).flatten

theorem writeLines_wrote (pre : Str) : ∀ (L : List Str) (st : St), Base st → Off st →
    Wrote st (writeLines pre st (L.map escapeText)) (bodyChars pre L) := by
  intro L
  induction L with
  | nil => intro st hb ho; exact Wrote.refl hb ho
  | cons l L ih =>
    intro st hb ho
    simp only [List.map_cons, writeLines, List.foldl_cons, isEmpty_escapeText, textPiece_esc]
    have hstep : Wrote st (if l.isEmpty = true then write st [nl] else write st [.layout pre, .text l, nl])
        (if l.isEmpty then ['\n'] else pre ++ l ++ ['\n']) := by
      split
      · exact Wrote.write hb ho [nl] (by intro p hp; simp at hp; subst hp; rfl)
      · have := Wrote.write hb ho [.layout pre, .text l, nl] (by
          intro p hp; simp at hp; rcases hp with rfl | rfl | rfl <;> rfl)
        simpa [gapChars, strs, pieceStr, nl] using this
    obtain ⟨g, a1, a2, a3, a4, a5, a6, a7, a8⟩ := hstep
    have := ih _ a5 a6
    have hh : Wrote st _ _ := ⟨g, a1, a2, a3, a4, a5, a6, a7, a8⟩
    have := hh.trans this
    simpa [bodyChars, writeLines] using this

/-! ## `_consolidate_text_lines` -/

/-- the last step of `_consolidate_text_lines` -/
def fixTail (L : List Str) : List Str :=
  match L.reverse with
  | [] :: l :: rest => rest.reverse ++ [rtrim pyWs l, []]
  | _ => L

def addIf (c : Bool) (L : List Str) : List Str := if c then L ++ [[]] else L
def dropIf (c : Bool) (L : List Str) : List Str := if c then L.drop 1 else L

/-- `_consolidate_text_lines`; `la`: `last_node` is the last child and whitespace is legit after it,
    `z`: `writer.offset == 0` -/
def consol (la z : Bool) (L : List Str) : List Str :=
  fixTail (dropIf (z && (L.head?.getD []).isEmpty) (addIf ((L.head?.getD []).isEmpty && la) L))

theorem consolidate_eq (e : Env) (st : St) (lastNode : Path) (f : Str) (rest : List Str)
    (hl : st.unwritten.getLast? = some lastNode) :
    consolidateTextLines e st (f :: rest) =
      .ok (consol (isLastChild e.root lastNode && legitAfter e.root lastNode) (st.offset == 0) (f :: rest)) := by
  have key : ∀ X : List Str, (match X.reverse with
      | [] :: l :: rest => (pure (rest.reverse ++ [rtrim pyWs l, []]) : Except Err (List Str))
      | _ => pure X) = .ok (fixTail X) := by
    intro X
    unfold fixTail
    cases hr : X.reverse with
    | nil => rfl
    | cons a r =>
      cases a with
      | nil =>
        cases r with
        | nil => rfl
        | cons b r' => rfl
      | cons c cs => rfl
  unfold consolidateTextLines consol addIf dropIf
  simp only [hl, List.head?_cons, Option.getD_some, bind, Except.bind]
  by_cases h1 : f.isEmpty = true <;> by_cases h2 : st.offset == 0 <;>
    by_cases h3 : (isLastChild e.root lastNode && legitAfter e.root lastNode) = true <;>
    simp only [h1, h2, h3, Bool.true_and, Bool.and_true, Bool.false_and, Bool.and_false, if_true, if_false,
      Bool.false_eq_true, Bool.and_self] <;>
    first
      | exact key _
      | (simp only [Bool.and_eq_true] at h3
         first
           | (simp only [h3.1, h3.2, Bool.and_self, if_true]; exact key _)
           | (have h3' : (isLastChild e.root lastNode && legitAfter e.root lastNode) = false := by simpa using h3
              simp only [Bool.and_assoc, h3', Bool.and_false, Bool.false_eq_true, if_false]; exact key _))

theorem escapeText_cons_ne_nil (c : Char) (cs : Str) : ∃ x xs, escapeText (c :: cs) = x :: xs := by
  have := escapeText_ne_nil (s := c :: cs) (by simp)
  cases h : escapeText (c :: cs) with
  | nil => exact absurd h this
  | cons x xs => exact ⟨x, xs, rfl⟩

theorem fixTail_map (L : List Str) : fixTail (L.map escapeText) = (fixTail L).map escapeText := by
  unfold fixTail
  rw [← List.map_reverse]
  cases hr : L.reverse with
  | nil => simp
  | cons a r =>
    have hL : L = (a :: r).reverse := by rw [← hr, List.reverse_reverse]
    cases a with
    | nil =>
      cases r with
      | nil => simp [hL]
      | cons b r' => simp [rtrim_escapeText, List.map_reverse]
    | cons c cs =>
      obtain ⟨x, xs, hx⟩ := escapeText_cons_ne_nil c cs
      simp only [List.map_cons, hx]

theorem consol_map (la z : Bool) (L : List Str) :
    consol la z (L.map escapeText) = (consol la z L).map escapeText := by
  unfold consol addIf dropIf
  have hh : ((L.map escapeText).head?.getD []).isEmpty = (L.head?.getD []).isEmpty := by
    cases L with
    | nil => rfl
    | cons f r => simp [isEmpty_escapeText]
  rw [hh, ← fixTail_map]
  congr 1
  by_cases h1 : (z && (L.head?.getD []).isEmpty) = true <;> by_cases h2 : ((L.head?.getD []).isEmpty && la) = true <;>
    simp [h1, h2, List.map_drop]

theorem consolidate_map (e : Env) (st : St) (lastNode : Path) (L : List Str)
    (hl : st.unwritten.getLast? = some lastNode) (hne : L ≠ []) :
    consolidateTextLines e st (L.map escapeText) =
      .ok ((consol (isLastChild e.root lastNode && legitAfter e.root lastNode) (st.offset == 0) L).map escapeText) := by
  obtain ⟨f, rest, rfl⟩ := List.exists_cons_of_ne_nil hne
  rw [List.map_cons, consolidate_eq e st lastNode _ _ hl, ← List.map_cons, consol_map]

/-! ## lines and `join` under `collapse` -/

theorem linesChars_snoc (pre : Str) : ∀ (init : List Str) (l : Str),
    linesChars pre (init ++ [l]) = bodyChars pre init ++ (if l.isEmpty then [] else pre ++ l)
  | [], l => by simp [linesChars, bodyChars]
  | a :: init, l => by
    rw [List.cons_append, linesChars_cons _ _ _ (by simp), linesChars_snoc pre init l]
    simp [bodyChars]

theorem lastIsSpace_snoc_nl (P : Str) : lastIsSpace (P ++ ['\n']) = true := by
  rw [lastIsSpace_concat]; exact pyWs_nl

/-- after whitespace, the written lines are their `join` -/
theorem linesChars_join (pre : Str) (hpre : AllWs pre) : ∀ (L : List Str) (P : Str), L ≠ [] →
    lastIsSpace P = true → collapse pyWs (P ++ linesChars pre L) = collapse pyWs (P ++ Wrap.join L) := by
  intro L
  induction L with
  | nil => intro P h; exact absurd rfl h
  | cons l rest ih =>
    intro P _ hP
    by_cases hr : rest = []
    · subst hr
      simp only [linesChars, Wrap.join]
      by_cases hl : l.isEmpty = true
      · have : l = [] := by simpa using hl
        subst this; simp
      · rw [if_neg hl]
        have := collapse_ws_absorb P pre l hpre hP
        simpa [List.append_assoc] using this
    · rw [linesChars_cons _ _ _ hr, Wrap.join_cons_ne _ _ hr]
      by_cases hl : l.isEmpty = true
      · have : l = [] := by simpa using hl
        subst this
        simp only [List.isEmpty_nil, if_true, List.nil_append]
        have h1 := ih (P ++ ['\n']) hr (lastIsSpace_snoc_nl P)
        have h2 := collapse_ws_swap P ['\n'] [' '] (Wrap.join rest) allWs_nl allWs_space (by simp) (by simp)
        simp only [List.append_assoc, List.singleton_append] at h1 h2 ⊢
        rw [h1, h2]
      · rw [if_neg hl]
        have h1 := ih (P ++ pre ++ l ++ ['\n']) hr (lastIsSpace_snoc_nl _)
        have h2 := collapse_ws_swap (P ++ pre ++ l) ['\n'] [' '] (Wrap.join rest) allWs_nl allWs_space (by simp) (by simp)
        have h3 := collapse_ws_absorb P pre (l ++ ' ' :: Wrap.join rest) hpre hP
        simp only [List.append_assoc, List.singleton_append, List.cons_append, List.nil_append] at h1 h2 h3 ⊢
        rw [h1, h2, h3]

theorem join_snoc_nil (L : List Str) (h : L ≠ []) : Wrap.join (L ++ [[]]) = Wrap.join L ++ [' '] := by
  induction L with
  | nil => exact absurd rfl h
  | cons a L ih =>
    by_cases hL : L = []
    · subst hL; simp [Wrap.join]
    · rw [List.cons_append, Wrap.join_cons_ne _ _ (by simp), Wrap.join_cons_ne _ _ hL, ih hL]
      simp

theorem join_snoc (L : List Str) (l : Str) (h : L ≠ []) : Wrap.join (L ++ [l]) = Wrap.join L ++ ' ' :: l := by
  induction L with
  | nil => exact absurd rfl h
  | cons a L ih =>
    by_cases hL : L = []
    · subst hL; simp [Wrap.join]
    · rw [List.cons_append, Wrap.join_cons_ne _ _ (by simp), Wrap.join_cons_ne _ _ hL, ih hL]
      simp

/-- `fixTail` only removes whitespace in front of whitespace -/
theorem fixTail_join (L : List Str) (P : Str) :
    collapse pyWs (P ++ Wrap.join (fixTail L)) = collapse pyWs (P ++ Wrap.join L) := by
  unfold fixTail
  cases hr : L.reverse with
  | nil => rfl
  | cons a r =>
    have hL : L = (a :: r).reverse := by rw [← hr, List.reverse_reverse]
    cases a with
    | cons c cs => rfl
    | nil =>
      cases r with
      | nil => rfl
      | cons b r' =>
        simp only
        have hL' : L = r'.reverse ++ [b, []] := by rw [hL]; simp
        rw [hL']
        have e1 : ∀ x : Str, r'.reverse ++ [x, []] = (r'.reverse ++ [x]) ++ [[]] := by intro x; simp
        rw [e1, e1, join_snoc_nil _ (by simp), join_snoc_nil _ (by simp)]
        by_cases hr' : r'.reverse = []
        · rw [hr']
          simp only [List.nil_append, Wrap.join]
          have := collapse_rtrim P b [' '] [] allWs_space (by simp)
          simpa using this
        · rw [join_snoc _ _ hr', join_snoc _ _ hr']
          have := collapse_rtrim (P ++ Wrap.join r'.reverse ++ [' ']) b [' '] [] allWs_space (by simp)
          simpa [List.append_assoc] using this

/-- `_consolidate_text_lines` at the level of `join`: whitespace may be added behind (`la`), and a leading
    empty line is dropped at the beginning of a line -/
theorem consol_join (la z : Bool) (L : List Str) (hne : L ≠ []) (P : Str) (hP : z = true → lastIsSpace P = true) :
    ∃ Z, AllWs Z ∧ (Z ≠ [] → la = true) ∧
      collapse pyWs (P ++ Wrap.join (consol la z L)) = collapse pyWs (P ++ Wrap.join L ++ Z) ∧
      (((L.head?.getD []).isEmpty && la) = true → Z ≠ []) := by
  unfold consol
  obtain ⟨f, rest, rfl⟩ := List.exists_cons_of_ne_nil hne
  simp only [List.head?_cons, Option.getD_some]
  rw [fixTail_join]
  unfold addIf dropIf
  by_cases h1 : (f.isEmpty && la) = true
  · rw [if_pos h1]
    simp only [Bool.and_eq_true] at h1
    refine ⟨[' '], allWs_space, fun _ => h1.2, ?_, fun _ => by simp⟩
    by_cases h2 : (z && f.isEmpty) = true
    · rw [if_pos h2]
      simp only [Bool.and_eq_true] at h2
      have hf : f = [] := by simpa using h1.1
      subst hf
      simp only [List.cons_append, List.drop_one, List.tail_cons]
      by_cases hr : rest = []
      · subst hr
        simp only [List.nil_append, Wrap.join, List.append_nil]
        have := collapse_ws_absorb P [' '] [] allWs_space (hP h2.1)
        simpa using this.symm
      · rw [join_snoc_nil _ hr, Wrap.join_cons_ne _ _ hr]
        have := collapse_ws_absorb P [' '] (Wrap.join rest ++ [' ']) allWs_space (hP h2.1)
        simpa [List.append_assoc] using this.symm
    · rw [if_neg h2, join_snoc_nil _ (by simp), List.append_assoc]
  · rw [if_neg h1]
    refine ⟨[], by simp [AllWs], fun h => absurd rfl h, ?_, fun h => absurd h h1⟩
    by_cases h2 : (z && f.isEmpty) = true
    · rw [if_pos h2]
      simp only [Bool.and_eq_true] at h2
      have hf : f = [] := by simpa using h2.2
      subst hf
      simp only [List.drop_one, List.tail_cons, List.append_nil]
      by_cases hr : rest = []
      · subst hr; rfl
      · rw [Wrap.join_cons_ne _ _ hr]
        have := collapse_ws_absorb P [' '] (Wrap.join rest) allWs_space (hP h2.1)
        simpa [List.append_assoc] using this.symm
    · rw [if_neg h2]; simp

/-! ## what `write` renders for a line -/

theorem stripNl_layout (s : Str) (rest : List Piece) :
    stripNl (.layout s :: rest) =
      if (s.dropWhile isNl).isEmpty then stripNl rest else .layout (s.dropWhile isNl) :: rest := by
  simp [stripNl]
theorem stripNl_text (s : Str) (rest : List Piece) :
    stripNl (.text s :: rest) =
      if (s.dropWhile isNl).isEmpty then stripNl rest else .text (s.dropWhile isNl) :: rest := by
  simp [stripNl]
@[simp] theorem stripNl_nil : stripNl [] = [] := by simp [stripNl]

theorem dropWhile_isNl_id {s : Str} (h : '\n' ∉ s) : s.dropWhile isNl = s := by
  cases s with
  | nil => rfl
  | cons c cs =>
    have : c ≠ '\n' := by intro hc; subst hc; simp at h
    have hb : (c == '\n') = false := by simpa using this
    simp [List.dropWhile, isNl, hb]

theorem isEmptyPiece_text (s : Str) : isEmptyPiece (.text s) = s.isEmpty := rfl
theorem isEmptyPiece_layout (s : Str) : isEmptyPiece (.layout s) = s.isEmpty := rfl

theorem renderP_cons (p : Piece) (ps : List Piece) : renderP (p :: ps) = renderPiece p ++ renderP ps := by
  simp [renderP]

/-- what is rendered for one line of text -/
theorem render_prep_line (st : St) (pre l : Str) (tail : List Piece) (hpre : '\n' ∉ pre) (hl : '\n' ∉ l)
    (hne : l ≠ []) (htail : ∀ p ∈ tail, isEmptyPiece p = false) :
    renderP (prep st (.layout pre :: .text l :: tail)) = pre ++ escapeText l ++ renderP tail := by
  have hle : l.isEmpty = false := by cases l <;> simp_all
  have hft : tail.filter (fun p => !isEmptyPiece p) = tail := by
    rw [List.filter_eq_self]; intro p hp; simp [htail p hp]
  have hstrip : stripNl (.layout pre :: .text l :: tail) =
      if pre.isEmpty then .text l :: tail else .layout pre :: .text l :: tail := by
    rw [stripNl_layout, dropWhile_isNl_id hpre]
    split
    · rw [stripNl_text, dropWhile_isNl_id hl, hle]; rfl
    · rfl
  unfold prep
  by_cases hc : (!st.preserveSpace && st.offset == 0) = true
  · rw [if_pos hc, hstrip]
    by_cases hp : pre.isEmpty = true
    · have : pre = [] := by simpa using hp
      subst this
      simp only [List.isEmpty_nil, if_true, List.filter_cons, isEmptyPiece_text, hle, Bool.not_false, hft,
        renderP_cons, renderPiece, List.nil_append]
    · simp only [hp, if_false, Bool.false_eq_true, List.filter_cons, isEmptyPiece_text, isEmptyPiece_layout, hle,
        Bool.not_false, if_true, hft, renderP_cons, renderPiece, List.append_assoc]
  · rw [if_neg hc]
    by_cases hp : pre.isEmpty = true
    · have : pre = [] := by simpa using hp
      subst this
      simp only [List.filter_cons, isEmptyPiece_text, isEmptyPiece_layout, List.isEmpty_nil, Bool.not_true,
        Bool.false_eq_true, if_false, hle, Bool.not_false, if_true, hft, renderP_cons, renderPiece, List.nil_append]
    · simp only [hp, List.filter_cons, isEmptyPiece_text, isEmptyPiece_layout, hle, Bool.not_false, if_true, hft,
        renderP_cons, renderPiece, List.append_assoc]


/-! ## exact offsets -/

theorem escapeChar_no_nl (c : Char) (h : c ≠ '\n') : '\n' ∉ escapeChar Gen.textEscapes c := by
  rw [textEscapes_eq, escapeChar_textTable]
  split
  · decide
  · split
    · decide
    · split
      · decide
      · simpa using Ne.symm h

theorem escapeText_no_nl {s : Str} (h : '\n' ∉ s) : '\n' ∉ escapeText s := by
  induction s with
  | nil => simp
  | cons c s ih =>
    rw [escapeText_cons]
    simp only [List.mem_append, not_or]
    exact ⟨escapeChar_no_nl c (by intro hc; subst hc; simp at h), ih (by intro hh; exact h (by simp [hh]))⟩

theorem newOffset_no_nl (o : Nat) (data : Str) (h : '\n' ∉ data) : newOffset o data = o + data.length := by
  unfold newOffset
  have : data.any isNl = false := by
    rw [List.any_eq_false]
    intro c hc hn
    have : c = '\n' := by simpa [isNl] using hn
    subst this; exact h hc
  rw [this]; rfl

theorem newOffset_nl_end (o : Nat) (data : Str) : newOffset o (data ++ ['\n']) = 0 := by
  unfold newOffset
  have : (data ++ ['\n']).any isNl = true := by simp [isNl]
  rw [this]
  simp [List.takeWhile, isNl]

/-- the last line of a wrapped text, written at the beginning of a line -/
theorem write_line_offset (st : St) (pre l : Str) (ho : st.offset = 0) (hpre : '\n' ∉ pre) (hl : '\n' ∉ l)
    (hne : l ≠ []) : (write st [.layout pre, .text l]).offset = pre.length + (escapeText l).length := by
  have hr := render_prep_line st pre l [] hpre hl hne (by simp)
  simp only [renderP_nil, List.append_nil] at hr
  have hne' : (renderP (prep st [.layout pre, .text l])).isEmpty = false := by
    rw [hr]
    have := escapeText_ne_nil hne
    cases h : escapeText l with
    | nil => exact absurd h this
    | cons x xs => cases pre <;> simp
  rw [write_eq, hne']
  simp only [Bool.false_eq_true, if_false]
  rw [hr, newOffset_no_nl _ _ (by
    simp only [List.mem_append, not_or]; exact ⟨hpre, escapeText_no_nl hl⟩), ho]
  simp

theorem write_line_nl_offset (st : St) (pre l : Str) (hpre : '\n' ∉ pre) (hl : '\n' ∉ l) (hne : l ≠ []) :
    (write st [.layout pre, .text l, nl]).offset = 0 := by
  have hr := render_prep_line st pre l [nl] hpre hl hne (by intro p hp; simp at hp; subst hp; rfl)
  have hrn : renderP [nl] = ['\n'] := by simp [renderP, renderPiece, nl]
  rw [hrn] at hr
  rw [write_eq, hr]
  have : (pre ++ escapeText l ++ ['\n']).isEmpty = false := by simp
  rw [this]
  simp only [Bool.false_eq_true, if_false]
  exact newOffset_nl_end _ _

theorem write_nl_offset (st : St) : (write st [nl]).offset = 0 := by
  have hprep : prep st [nl] = if (!st.preserveSpace && st.offset == 0) = true then [] else [nl] := by
    unfold prep
    by_cases hc : (!st.preserveSpace && st.offset == 0) = true
    · rw [if_pos hc, if_pos hc]
      have : stripNl [nl] = [] := by
        show stripNl [Piece.layout ['\n']] = []
        rw [stripNl_layout]; simp [List.dropWhile, isNl]
      rw [this]; rfl
    · rw [if_neg hc, if_neg hc]; rfl
  rw [write_eq, hprep]
  by_cases hc : (!st.preserveSpace && st.offset == 0) = true
  · rw [if_pos hc]
    simp only [renderP_nil, List.isEmpty_nil, if_true]
    simp only [Bool.and_eq_true, Bool.not_eq_true', beq_iff_eq] at hc; exact hc.2
  · rw [if_neg hc]
    have hrn : renderP [nl] = [] ++ ['\n'] := by simp [renderP, renderPiece, nl]
    rw [hrn]
    simp only [List.nil_append, List.isEmpty_cons, Bool.false_eq_true, if_false]
    exact newOffset_nl_end _ []

theorem writeLines_offset (pre : Str) (hpre : '\n' ∉ pre) : ∀ (L : List Str) (st : St), L ≠ [] →
    (∀ l ∈ L, '\n' ∉ l) → (writeLines pre st (L.map escapeText)).offset = 0 := by
  intro L
  induction L with
  | nil => intro st h; exact absurd rfl h
  | cons l L ih =>
    intro st _ hnl
    simp only [List.map_cons, writeLines, List.foldl_cons, isEmpty_escapeText, textPiece_esc]
    by_cases hL : L = []
    · subst hL
      simp only [List.map_nil, List.foldl_nil]
      split
      · exact write_nl_offset st
      · rename_i hl
        exact write_line_nl_offset st pre l hpre (hnl l (by simp)) (by simpa using hl)
    · exact ih _ hL (fun x hx => hnl x (by simp [hx]))

/-! ## `_serialize_text_over_lines`, from the lines on -/

/-- the offset after the last line, when that is known exactly -/
def LastLineOffset (pre : Str) (L' : List Str) (st st' : St) : Prop :=
  ∀ init last, L' = init ++ [last] → last ≠ [] → (init ≠ [] ∨ st.offset = 0) → '\n' ∉ pre →
    (∀ l ∈ L', '\n' ∉ l) → st'.offset = pre.length + (escapeText last).length

theorem linesK_spec (e : Env) (st : St) (tp : Path) (L : List Str) (hl : st.unwritten.getLast? = some tp)
    (hne : L ≠ []) (hb : Base st) (ho : Off st) :
    Post (linesK e st (L.map escapeText)) (fun st' =>
      Wrote st st' (linesChars (indentN e.o st.level)
        (consol (isLastChild e.root tp && legitAfter e.root tp) (st.offset == 0) L)) ∧
      LastLineOffset (indentN e.o st.level)
        (consol (isLastChild e.root tp && legitAfter e.root tp) (st.offset == 0) L) st st' ∧
      consol (isLastChild e.root tp && legitAfter e.root tp) (st.offset == 0) L ≠ []) := by
  unfold linesK
  rw [consolidate_map e st tp L hl hne]
  refine (Post_bind _ _ _).2 ?_
  rw [Post_ok]
  generalize consol (isLastChild e.root tp && legitAfter e.root tp) (st.offset == 0) L = L'
  rcases List.eq_nil_or_concat L' with rfl | ⟨init, last, rfl⟩
  · simp only [List.map_nil, List.getLast?_nil]
    exact Post_throw _ _
  · rw [List.concat_eq_append]
    have hgl : ((init ++ [last]).map escapeText).getLast? = some (escapeText last) := by simp
    have hdl : ((init ++ [last]).map escapeText).dropLast = init.map escapeText := by simp
    rw [hgl]
    simp only [hdl, isEmpty_escapeText, textPiece_esc]
    rw [Post_pure]
    have hbody := writeLines_wrote (indentN e.o st.level) init st hb ho
    obtain ⟨g, a1, a2, a3, a4, a5, a6, a7, a8⟩ := hbody
    by_cases hle : last.isEmpty = true
    · rw [if_pos hle]
      refine ⟨?_, ?_, by simp⟩
      · rw [linesChars_snoc, if_pos hle, List.append_nil]
        exact ⟨g, a1, a2, a3, a4, a5, a6, a7, a8⟩
      · intro init' last' heq hne' _ _ _
        obtain ⟨_, h2⟩ := List.append_inj' heq rfl
        simp only [List.cons.injEq, and_true] at h2
        subst h2
        simp at hle; exact absurd hle hne'
    · rw [if_neg hle]
      refine ⟨?_, ?_, by simp⟩
      · rw [linesChars_snoc, if_neg hle]
        have hw := Wrote.write a5 a6 [.layout (indentN e.o st.level), .text last] (by
          intro p hp; simp at hp; rcases hp with rfl | rfl <;> rfl)
        have := Wrote.trans ⟨g, a1, a2, a3, a4, a5, a6, a7, a8⟩ hw
        simpa [gapChars, strs, pieceStr] using this
      · intro init' last' heq hne' hpos hpre hnl
        obtain ⟨h1, h2⟩ := List.append_inj' heq rfl
        simp only [List.cons.injEq, and_true] at h2
        subst h1 h2
        apply write_line_offset _ _ _ _ hpre (hnl _ (by simp)) hne'
        by_cases hi : init = []
        · subst hi
          rcases hpos with h | h
          · exact absurd rfl h
          · exact h
        · exact writeLines_offset _ hpre init st hi (fun l hl => hnl l (by simp [hl]))

theorem linesChars_join' (pre : Str) (hpre : AllWs pre) (L : List Str) (P : Str)
    (h : (L ≠ [] ∧ lastIsSpace P = true) ∨ ∃ R, L = [] :: R ∧ R ≠ []) :
    collapse pyWs (P ++ linesChars pre L) = collapse pyWs (P ++ ['\n'] ++ Wrap.join L) := by
  rcases h with ⟨hne, hP⟩ | ⟨R, rfl, hR⟩
  · rw [linesChars_join pre hpre L P hne hP]
    exact (collapse_ws_absorb P ['\n'] (Wrap.join L) allWs_nl hP).symm
  · rw [linesChars_cons _ _ _ hR, Wrap.join_cons_ne _ _ hR]
    simp only [List.isEmpty_nil, if_true]
    have h1 := linesChars_join pre hpre R (P ++ ['\n']) hR (lastIsSpace_snoc_nl P)
    have h2 := collapse_ws_absorb (P ++ ['\n']) [' '] (Wrap.join R) allWs_space (lastIsSpace_snoc_nl P)
    simp only [List.append_assoc, List.singleton_append, List.nil_append, List.cons_append] at h1 h2 ⊢
    rw [h1, h2]

theorem fixTail_head (R : List Str) (hR : R ≠ []) : ∃ R', fixTail ([] :: R) = [] :: R' ∧ R' ≠ [] := by
  unfold fixTail
  cases hr : ([] :: R : List Str).reverse with
  | nil => simp at hr
  | cons a r =>
    have hX : ([] :: R : List Str) = (a :: r).reverse := by rw [← hr, List.reverse_reverse]
    cases a with
    | cons c cs => exact ⟨R, rfl, hR⟩
    | nil =>
      cases r with
      | nil => exact ⟨R, rfl, hR⟩
      | cons b r' =>
        simp only
        simp only [List.reverse_cons, List.append_assoc, List.cons_append, List.nil_append] at hX
        cases hrr : r'.reverse with
        | nil =>
          rw [hrr] at hX
          simp only [List.nil_append, List.cons.injEq] at hX
          obtain ⟨hb, _⟩ := hX
          subst hb
          exact ⟨[[]], by simp [rtrim], by simp⟩
        | cons x xs =>
          rw [hrr] at hX
          simp only [List.cons_append, List.cons.injEq] at hX
          obtain ⟨hx, _⟩ := hX
          subst hx
          exact ⟨xs ++ [rtrim pyWs b, []], by simp, by simp⟩

theorem consol_head (la : Bool) (R : List Str) (hR : R ≠ []) :
    ∃ R', consol la false ([] :: R) = [] :: R' ∧ R' ≠ [] := by
  unfold consol addIf dropIf
  simp only [Bool.false_and, Bool.false_eq_true, if_false, List.head?_cons, Option.getD_some, List.isEmpty_nil,
    Bool.true_and]
  split
  · rw [List.cons_append]; exact fixTail_head _ (by simp)
  · exact fixTail_head _ hR

theorem consol_noadd (la z : Bool) (L : List Str) (h : ((L.head?.getD []).isEmpty && la) = false) :
    consol la z L = consol false z L := by
  unfold consol addIf
  rw [h]; simp

section
variable (e : Env) (hind : AllWs e.o.indent)
include hind

/-- what `linesK` writes, up to `collapse` -/
def LinesPost (e : Env) (tp : Path) (st : St) (J : Str) (L0 : List Str) (st' : St) : Prop :=
  ∃ g Z, st'.out = st.out ++ g ∧ AllGap g ∧ NonEmp g ∧ Base st' ∧ Off st' ∧ st'.level = st.level ∧
    st'.unwritten = st.unwritten ∧ AllWs Z ∧ (Z ≠ [] → legitAfter e.root tp = true) ∧
    collapse pyWs (trailGap st.out ++ gapChars g) = collapse pyWs (trailGap st.out ++ ['\n'] ++ J ++ Z) ∧
    (Z = [] → LastLineOffset (indentN e.o st.level) (consol false (st.offset == 0) L0) st st')

theorem linesK_collapse (st : St) (tp : Path) (L : List Str) (hl : st.unwritten.getLast? = some tp)
    (hne : L ≠ []) (hb : Base st) (ho : Off st)
    (hcase : lastIsSpace (trailGap st.out) = true ∨ (st.offset ≠ 0 ∧ ∃ R, L = [] :: R ∧ R ≠ [])) :
    Post (linesK e st (L.map escapeText)) (LinesPost e tp st (Wrap.join L) L) := by
  have hpre := allWs_indentN e.o hind st.level
  refine Post_mono (linesK_spec e st tp L hl hne hb ho) ?_
  intro st' ⟨hw, hoffs, hcne⟩
  obtain ⟨g, a1, a2, a3, a4, a5, a6, a7, a8⟩ := hw
  have hshape : ((consol (isLastChild e.root tp && legitAfter e.root tp) (st.offset == 0) L) ≠ [] ∧
        lastIsSpace (trailGap st.out) = true) ∨
      ∃ R, consol (isLastChild e.root tp && legitAfter e.root tp) (st.offset == 0) L = [] :: R ∧ R ≠ [] := by
    rcases hcase with hP | ⟨h0, R, hLR, hR⟩
    · exact Or.inl ⟨hcne, hP⟩
    · right
      have hz : (st.offset == 0) = false := by simpa using h0
      rw [hz, hLR]
      exact consol_head _ _ hR
  have h1 := linesChars_join' _ hpre _ (trailGap st.out) hshape
  obtain ⟨Z, z1, z2, z3, z4⟩ := consol_join (isLastChild e.root tp && legitAfter e.root tp) (st.offset == 0)
    L hne (trailGap st.out ++ ['\n']) (fun _ => lastIsSpace_snoc_nl _)
  refine ⟨g, Z, a1, a2, a3, a5, a6, a7, a8, z1, fun h => ?_, by rw [a4, h1, z3], fun hz => ?_⟩
  · have := z2 h
    simp only [Bool.and_eq_true] at this
    exact this.2
  · subst hz
    by_cases hadd : ((L.head?.getD []).isEmpty && (isLastChild e.root tp && legitAfter e.root tp)) = false
    · rwa [consol_noadd _ _ _ hadd] at hoffs
    · -- a line was added: then `Z` is not empty
      exfalso
      exact z4 (by simpa using hadd) rfl

/-- `_serialize_text_over_lines` once the lines (unescaped: `L`) are known -/
theorem overLinesTail_spec (st : St) (tp : Path) (L : List Str) (hl : st.unwritten.getLast? = some tp)
    (hne : L ≠ []) (hb : Base st) (ho : Off st)
    (hcase : lastIsSpace (trailGap st.out) = true ∨ (st.offset ≠ 0 ∧ ∃ R, L = [] :: R ∧ R ≠ [])) :
    Post (overLinesTail e tp st (L.map escapeText)) (LinesPost e tp st (Wrap.join L) L) := by
  have h1 := linesK_collapse e hind st tp L hl hne hb ho hcase
  have h2 : legitAfter e.root tp = true →
      Post (linesK e st (L.map escapeText ++ [[]])) (LinesPost e tp st (Wrap.join L) L) := by
    intro hla
    have hcase2 : lastIsSpace (trailGap st.out) = true ∨ (st.offset ≠ 0 ∧ ∃ R, L ++ [[]] = [] :: R ∧ R ≠ []) := by
      rcases hcase with h | ⟨h0, R, hLR, hR⟩
      · exact Or.inl h
      · exact Or.inr ⟨h0, R ++ [[]], by rw [hLR]; rfl, by simp⟩
    have := linesK_collapse e hind st tp (L ++ [[]]) hl (by simp) hb ho hcase2
    rw [List.map_append] at this
    refine Post_mono this ?_
    intro st' ⟨g, Z, a1, a2, a3, a4, a5, a6, a7, a8, a9, a10, _⟩
    refine ⟨g, [' '] ++ Z, a1, a2, a3, a4, a5, a6, a7, allWs_append allWs_space a8, fun _ => hla, ?_,
      fun h => by simp at h⟩
    rw [a10, join_snoc_nil _ hne]
    simp [List.append_assoc]
  unfold overLinesTail
  split
  · split
    · rename_i hc
      simp only [Bool.and_eq_true] at hc
      split
      · exact h1
      · refine Post_bind_of (Post_true _) (fun r _ => ?_)
        split
        · exact h2 hc.2
        · exact h2 hc.2
        · exact h1
    · exact h1
  · exact Post_throw _ _
end
/-! ## closing the gap of a text node -/

theorem gapOK_congr {s w w' : Str} {f l : Bool} (h : collapse pyWs w = collapse pyWs w')
    (hg : GapOK (some s) w' f l) : GapOK (some s) w f l := by
  obtain ⟨A, Z, h1, h2, h3, h4, h5⟩ := hg
  exact ⟨A, Z, h1, h2, h3, h4, h.trans h5⟩

theorem length_collapseAux_le (b : Bool) (s : Str) : (collapseAux pyWs b s).length ≤ s.length := by
  induction s generalizing b with
  | nil => simp [collapseAux]
  | cons c s ih =>
    rw [collapseAux_cons]
    split
    · split
      · have := ih true; simp; omega
      · have := ih true; simp; omega
    · have := ih false; simp; omega

/-- a collapsed text that ends in a space: what is in front of the space ends in non-whitespace -/
theorem collapsed_snoc_space {u : Str} (h : collapse pyWs (u ++ [' ']) = u ++ [' ']) (_hu : u ≠ []) :
    lastIsSpace u = false := by
  cases hl : lastIsSpace u with
  | false => rfl
  | true =>
    exfalso
    rw [collapse_append, lastIsSpace_collapse, hl] at h
    simp only [collapseAux, pyWs_space, if_true, List.append_nil] at h
    have := length_collapseAux_le false u
    unfold collapse at h
    rw [h] at this
    simp at this
    omega

/-- the text as it was written (`Y`): all of it, or all but its trailing space -/
def Written (s Y : Str) : Prop := Y = s ∨ (s = Y ++ [' '] ∧ Y ≠ [] ∧ lastIsSpace Y = false)

theorem close_gap {s w A Y Z : Str} {f l : Bool} (hA : AllWs A) (hZ : AllWs Z)
    (hlA : A ≠ [] → f = true ∨ firstIsSpace s = true) (hlZ : Z ≠ [] → l = true ∨ lastIsSpace s = true)
    (hcol : collapse pyWs w = collapse pyWs (A ++ Y ++ Z)) (hrel : Written s Y) :
    GapOK (some s) w f l ∨ (Z = [] ∧ GapOwed s w f) := by
  rcases hrel with rfl | ⟨hs, hY, hlast⟩
  · exact Or.inl ⟨A, Z, hA, hZ, hlA, hlZ, by simpa [List.append_assoc] using hcol⟩
  · by_cases hz : Z = []
    · subst hz
      right
      refine ⟨rfl, Y, hs, hY, hlast, A, hA, hlA, by simpa using hcol⟩
    · left
      refine ⟨A, Z, hA, hZ, hlA, hlZ, ?_⟩
      rw [hcol, hs]
      have := collapse_ws_swap (A ++ Y) Z ([' '] ++ Z) [] hZ (allWs_append allWs_space hZ) hz (by simp)
      simpa [List.append_assoc] using this

theorem ltrim_append_ne (a b : Str) (h : ltrim pyWs a ≠ []) : ltrim pyWs (a ++ b) = ltrim pyWs a ++ b := by
  unfold ltrim at *
  exact dropWhile_append_ne _ _ _ h

/-- `Written` for the left-trimmed text -/
theorem written_of_ltrim {s J : Str} (hfix : collapse pyWs s = s) (hs1 : s ≠ [' ']) (hsne : s ≠ [])
    (h : J = ltrim pyWs s ∨ ltrim pyWs s = J ++ [' ']) : ∃ Y, Written s Y ∧ J = ltrim pyWs Y := by
  rcases h with rfl | h
  · exact ⟨s, Or.inl rfl, rfl⟩
  · -- `s` ends in a space
    have hsplit : s = s.dropLast ++ [' '] := by
      have h1 : s = s.takeWhile pyWs ++ ltrim pyWs s := ltrim_split s
      rw [h] at h1
      have : s.getLast? = some ' ' := by
        rw [h1, ← List.append_assoc]; exact List.getLast?_concat
      rcases List.eq_nil_or_concat s with h0 | ⟨L, b, hL⟩
      · exact absurd h0 hsne
      · rw [hL, List.concat_eq_append] at this ⊢
        simp at this; subst this; simp
    have hu : s.dropLast ≠ [] := by
      intro h0; rw [h0] at hsplit; exact hs1 (by simpa using hsplit)
    have hlast : lastIsSpace s.dropLast = false := collapsed_snoc_space (by rw [← hsplit]; exact hfix) hu
    have hlt : ltrim pyWs s.dropLast ≠ [] := by
      intro h0
      unfold ltrim at h0
      have hall := dropWhile_eq_nil_all _ _ h0
      unfold lastIsSpace at hlast
      cases hg : s.dropLast.getLast? with
      | none => simp at hg; exact hu hg
      | some c =>
        rw [hg] at hlast
        have hc := hall c (List.mem_of_getLast? hg)
        simp only at hlast
        rw [hc] at hlast
        cases hlast
    refine ⟨s.dropLast, Or.inr ⟨hsplit, hu, hlast⟩, ?_⟩
    have h2 : ltrim pyWs s = ltrim pyWs s.dropLast ++ [' '] := by
      conv => lhs; rw [hsplit]
      exact ltrim_append_ne _ _ hlt
    rw [h] at h2
    exact List.append_cancel_right h2

/-! ## `_serialize_text`: the text fits -/

def TextPost (e : Env) (s : Str) (first last : Bool) (st st' : St) : Prop :=
  ∃ g, st'.out = st.out ++ g ∧ AllGap g ∧ NonEmp g ∧ st'.unwritten = [] ∧ Base st' ∧ st'.level = st.level ∧ Off st' ∧
    (GapOK (some s) (trailGap st.out ++ gapChars g) first last ∨
     (GapOwed s (trailGap st.out ++ gapChars g) first ∧ availableSpace e st' = 0 ∧ lineOffset e st' > 0))

theorem finish_wrote (e : Env) {s X : Str} {f l : Bool} {st st1 : St} (hw : Wrote st st1 X)
    (hg : GapOK (some s) (trailGap st.out ++ X) f l) : Post (finishText st1) (TextPost e s f l st) := by
  unfold finishText
  rw [Post_pure]
  obtain ⟨g, a1, a2, a3, a4, a5, a6, a7, a8⟩ := hw
  exact ⟨g, a1, a2, a3, rfl, a5, a7, a6, Or.inl (gapOK_congr a4 hg)⟩

theorem textPieces_allGap (pre body : Str) (r n : Bool) : AllGap (textPieces pre body r n) := by
  unfold textPieces textPiece
  intro p hp
  simp only [List.mem_append, List.mem_cons, List.not_mem_nil, or_false] at hp
  rcases hp with (rfl | rfl) | hp
  · rfl
  · rfl
  · split at hp
    · simp at hp; subst hp; rfl
    · simp at hp

theorem textPieces_chars (pre t : Str) (r n : Bool) :
    gapChars (textPieces pre (escapeText t) r n) =
      (if (r && (if r then rtrim pyWs t else t).isEmpty) = true then rtrim pyWs pre else pre) ++
        (if r then rtrim pyWs t else t) ++ (if n then ['\n'] else []) := by
  unfold textPieces
  have hb : (if r = true then rtrim pyWs (escapeText t) else escapeText t) =
      escapeText (if r then rtrim pyWs t else t) := by
    split
    · exact rtrim_escapeText t
    · rfl
  simp only [hb, textPiece_esc, isEmpty_escapeText]
  cases n <;> simp [gapChars, strs, pieceStr, nl]

theorem lastIsSpace_append_ws (p W : Str) (hp : lastIsSpace p = true) (hW : AllWs W) :
    lastIsSpace (p ++ W) = true := by
  by_cases h : W = []
  · subst h; simpa using hp
  · rw [lastIsSpace_append_ne _ _ h]
    unfold lastIsSpace
    cases hg : W.getLast? with
    | none => simp at hg; exact absurd hg h
    | some c => exact hW c (List.mem_of_getLast? hg)

theorem lastIsSpace_ne_nil {w : Str} (h : lastIsSpace w = true) : w ≠ [] := by
  intro h0; rw [h0] at h; simp [lastIsSpace] at h

theorem allWs_rtrim' {s : Str} (h : AllWs s) : AllWs (rtrim pyWs s) := allWs_rtrim h

/-- a text that fits the line: written as it is, trimmed where whitespace is written instead -/
theorem fits_gapOK (s w0 pre : Str) (f l z b : Bool) (hpre : AllWs pre)
    (hz : z = true → lastIsSpace w0 = true) (hws : AllWs w0)
    (hlegB : w0 ≠ [] → f = true ∨ firstIsSpace s = true) (hlegA : b = true → l = true ∨ lastIsSpace s = true) :
    GapOK (some s) (w0 ++ gapChars (textPieces (if z then pre else [])
      (escapeText (if z then ltrim pyWs s else s)) b b)) f l := by
  rw [textPieces_chars]
  generalize hP : (if (b && (if b = true then rtrim pyWs (if z = true then ltrim pyWs s else s)
      else if z = true then ltrim pyWs s else s).isEmpty) = true
    then rtrim pyWs (if z = true then pre else []) else if z = true then pre else []) = P'
  have hP' : AllWs P' := by
    subst hP
    have h0 : AllWs (if z = true then pre else []) := by split; exact hpre; simp [AllWs]
    exact allWs_ite (allWs_rtrim h0) h0
  have hPz : z = false → P' = [] := by
    intro hzf; subst hP; subst hzf
    simp [rtrim]
  have hZ : AllWs (if b = true then ['\n'] else []) := by split; exact allWs_nl; simp [AllWs]
  refine ⟨w0 ++ P', if b = true then ['\n'] else [], allWs_append hws hP', hZ, ?_, ?_, ?_⟩
  · intro hne
    by_cases hw : w0 = []
    · exfalso
      subst hw
      have hzf : z = false := by
        cases z with
        | false => rfl
        | true => have := hz rfl; simp [lastIsSpace] at this
      rw [hPz hzf] at hne; exact hne rfl
    · exact hlegB hw
  · intro hne
    apply hlegA
    cases b with
    | true => rfl
    | false => simp at hne
  · -- the trimmed text
    have step1 : collapse pyWs (w0 ++ (P' ++ (if b = true then rtrim pyWs (if z = true then ltrim pyWs s else s)
          else if z = true then ltrim pyWs s else s) ++ (if b = true then ['\n'] else []))) =
        collapse pyWs (w0 ++ P' ++ (if z = true then ltrim pyWs s else s) ++ (if b = true then ['\n'] else [])) := by
      cases b with
      | false => simp [List.append_assoc]
      | true =>
        have := collapse_rtrim (w0 ++ P') (if z = true then ltrim pyWs s else s) ['\n'] [] allWs_nl (by simp)
        simpa [List.append_assoc] using this
    have step2 : collapse pyWs (w0 ++ P' ++ (if z = true then ltrim pyWs s else s) ++ (if b = true then ['\n'] else [])) =
        collapse pyWs (w0 ++ P' ++ s ++ (if b = true then ['\n'] else [])) := by
      cases z with
      | false => rfl
      | true =>
        exact collapse_ltrim (w0 ++ P') s _ (lastIsSpace_append_ws _ _ (hz rfl) hP')
    rw [step1, step2]
    simp [List.append_assoc]

/-! ## `_serialize_text`: the text is written over several lines -/

theorem length_indentN (o : Opts) (n : Nat) : (indentN o n).length = n * o.indent.length := by
  unfold indentN
  induction n with
  | zero => simp
  | succ n ih => simp [List.replicate_succ, ih, Nat.succ_mul, Nat.add_comm]

theorem indentN_no_nl (o : Opts) (h : '\n' ∉ o.indent) (n : Nat) : '\n' ∉ indentN o n := by
  unfold indentN
  simp only [List.mem_flatten, List.mem_replicate, not_exists, not_and]
  intro l ⟨_, hl⟩ hmem
  subst hl; exact h hmem

/-- after a full last line nothing fits -/
theorem full_line (e : Env) (st : St) (l : Str) (hw : 1 ≤ e.width) (hl : e.width ≤ l.length)
    (ho : st.offset = (indentN e.o st.level).length + l.length) :
    availableSpace e st = 0 ∧ lineOffset e st > 0 := by
  have hlo : lineOffset e st = (l.length : Int) := by
    unfold lineOffset
    have : st.offset ≠ 0 := by rw [ho]; omega
    simp only [bne_iff_ne, ne_eq, this, not_false_eq_true, if_true]
    rw [ho, length_indentN]
    omega
  constructor
  · unfold availableSpace; rw [hlo]; omega
  · rw [hlo]; omega

section
variable (e : Env) (hind : AllWs e.o.indent) (hnl : '\n' ∉ e.o.indent) (hw : 1 ≤ e.width)
include hind hnl hw

/-- the lines of a text and the end of `_serialize_text` -/
theorem lines_close {s F A Y : Str} {f l : Bool} {st st0 : St} {tp : Path} {L : List Str}
    (h1 : Wrote st st0 F) (hl : st0.unwritten.getLast? = some tp) (hne : L ≠ [])
    (hcase : lastIsSpace (trailGap st0.out) = true ∨ (st0.offset ≠ 0 ∧ ∃ R, L = [] :: R ∧ R ≠ []))
    (hla : legitAfter e.root tp = true → l = true ∨ lastIsSpace s = true)
    (h4 : ∀ Z, AllWs Z → collapse pyWs (trailGap st.out ++ F ++ ['\n'] ++ Wrap.join L ++ Z) =
      collapse pyWs (A ++ Y ++ Z))
    (hA : AllWs A) (hlA : A ≠ [] → f = true ∨ firstIsSpace s = true)
    (h6 : Y = s ∨ (s = Y ++ [' '] ∧ Y ≠ [] ∧ lastIsSpace Y = false ∧
      ∃ init x, consol false (st0.offset == 0) L = init ++ [x] ∧ (init ≠ [] ∨ st0.offset = 0) ∧
        e.width ≤ (escapeText x).length ∧ x ≠ [] ∧ ∀ y ∈ init ++ [x], '\n' ∉ y)) :
    Post (overLinesTail e tp st0 (L.map escapeText) >>= finishText) (TextPost e s f l st) := by
  obtain ⟨g1, a1, a2, a3, a4, a5, a6, a7, a8⟩ := h1
  refine Post_bind_of (overLinesTail_spec e hind st0 tp L hl hne a5 a6 hcase) ?_
  intro st2 ⟨g2, Z, b1, b2, b3, b4, b5, b6, b7, b8, b9, b10, b11⟩
  unfold finishText
  rw [Post_pure]
  have htg0 : trailGap st0.out = trailGap st.out ++ gapChars g1 := by rw [a1, trailGap_append_gap _ _ a2]
  have hcol : collapse pyWs (trailGap st.out ++ gapChars (g1 ++ g2)) = collapse pyWs (A ++ Y ++ Z) := by
    rw [gapChars_append, ← List.append_assoc, ← htg0, b10, htg0, ← h4 Z b8]
    have := collapse_congr_right a4 (['\n'] ++ Wrap.join L ++ Z)
    simpa [List.append_assoc] using this
  refine ⟨g1 ++ g2, by rw [b1, a1]; simp, allGap_append a2 b2, nonEmp_append a3 b3, rfl, b4, by rw [b6, a7], b5, ?_⟩
  have hlZ : Z ≠ [] → l = true ∨ lastIsSpace s = true := fun h => hla (b9 h)
  rcases h6 with hY | ⟨hs, hYne, hYl, init, x, hc, hpos, hwx, hxne, hnonl⟩
  · subst hY
    exact Or.inl ⟨A, Z, hA, b8, hlA, hlZ, by rw [hcol]; simp [List.append_assoc]⟩
  · rcases close_gap hA b8 hlA hlZ hcol (Or.inr ⟨hs, hYne, hYl⟩) with h | ⟨hz, h⟩
    · exact Or.inl h
    · right
      have hoffs := b11 hz init x hc hxne hpos (indentN_no_nl e.o hnl _) (by rw [hc]; exact hnonl)
      have hlev : st2.level = st0.level := b6
      have := full_line e { st2 with unwritten := [] } (escapeText x) hw hwx (by
        show st2.offset = (indentN e.o st2.level).length + _
        rw [hlev]; exact hoffs)
      exact ⟨h, this.1, this.2⟩
end
theorem mem_join_of_mem {parts : List Str} {p : Str} (hp : p ∈ parts) : ∀ c ∈ p, c ∈ Wrap.join parts := by
  induction parts with
  | nil => simp at hp
  | cons a rest ih =>
    intro c hc
    by_cases hr : rest = []
    · subst hr
      simp at hp; subst hp
      simpa [Wrap.join] using hc
    · rw [Wrap.join_cons_ne _ _ hr]
      rcases List.mem_cons.1 hp with rfl | hp
      · simp [hc]
      · simp [ih hp c hc]

theorem collapsed_no_nl {s : Str} (h : collapse pyWs s = s) : '\n' ∉ s := by
  intro hm
  have hO : OnlySp pyWs s := by rw [← h]; exact collapseAux_onlySp pyWs false s
  have := hO '\n' hm pyWs_nl
  cases this

theorem fixTail_last (X0 : List Str) (x : Str) (hx : x ≠ []) : fixTail (X0 ++ [x]) = X0 ++ [x] := by
  unfold fixTail
  rw [List.reverse_append]
  obtain ⟨c, cs, rfl⟩ := List.exists_cons_of_ne_nil hx
  rfl

/-- the consolidated lines when nothing is added and the last line is not empty -/
theorem consol_last (z : Bool) (L0 : List Str) (x : Str) (hx : x ≠ []) :
    ∃ init, consol false z (L0 ++ [x]) = init ++ [x] ∧ (∀ y ∈ init, y ∈ L0) ∧ (z = false → init = L0) := by
  unfold consol addIf dropIf
  simp only [Bool.and_false, Bool.false_eq_true, if_false]
  by_cases hc : (z && ((L0 ++ [x]).head?.getD []).isEmpty) = true
  · rw [if_pos hc]
    simp only [Bool.and_eq_true] at hc
    cases L0 with
    | nil =>
      exfalso
      simp at hc
      exact hx hc.2
    | cons a L0' =>
      refine ⟨L0', ?_, fun y hy => by simp [hy], fun hz => by rw [hz] at hc; simp at hc⟩
      simp only [List.cons_append, List.drop_one, List.tail_cons]
      exact fixTail_last _ _ hx
  · rw [if_neg hc]
    exact ⟨L0, fixTail_last _ _ hx, fun y hy => hy, fun _ => rfl⟩

theorem escapeText_eq_space {s : Str} (h : escapeText s = [' ']) : s = [' '] := by
  obtain ⟨a, b, hs, h1, h2⟩ := escapeText_split s 0 (by rw [h]; rfl)
  rw [h] at h1 h2
  have ha : a = [] := escapeText_eq_nil (by simpa using h1.symm)
  have hb : b = [] := escapeText_eq_nil (by simpa using h2.symm)
  rw [hs, ha, hb]; rfl

/-- the last line of a text whose trailing space was swallowed -/
theorem last_info {w : Nat} {parts hd : List Str} {l : Str} {z : Bool} (hl : parts.getLast? = some l)
    (hwl : w ≤ (escapeText l).length) (hw : 1 ≤ w) (hnl : ∀ p ∈ parts, '\n' ∉ p)
    (hz : z = false → hd ≠ []) (hhd : ∀ y ∈ hd, y = ([] : Str)) :
    ∃ init, consol false z (hd ++ parts) = init ++ [l] ∧ (init ≠ [] ∨ z = true) ∧ l ≠ [] ∧
      ∀ y ∈ init ++ [l], '\n' ∉ y := by
  have hlne : l ≠ [] := by
    intro h0; subst h0
    simp [escapeText, escape] at hwl; omega
  obtain ⟨pinit, rfl⟩ : ∃ pinit, parts = pinit ++ [l] := by
    rcases List.eq_nil_or_concat parts with h0 | ⟨L, b, hL⟩
    · rw [h0] at hl; simp at hl
    · rw [hL, List.concat_eq_append] at hl ⊢
      simp at hl; subst hl; exact ⟨L, rfl⟩
  rw [← List.append_assoc]
  obtain ⟨init, h1, h2, h3⟩ := consol_last z (hd ++ pinit) l hlne
  refine ⟨init, h1, ?_, hlne, ?_⟩
  · cases z with
    | true => exact Or.inr rfl
    | false =>
      left
      rw [h3 rfl]
      intro h0
      exact hz rfl (List.append_eq_nil_iff.1 h0).1
  · intro y hy
    rcases List.mem_append.1 hy with hy | hy
    · rcases List.mem_append.1 (h2 y hy) with hy' | hy'
      · rw [hhd y hy']; simp
      · exact hnl y (by simp [hy'])
    · simp at hy; subst hy; exact hnl y (by simp)

section
variable (e : Env) (hind : AllWs e.o.indent) (hnl : '\n' ∉ e.o.indent) (hw : 1 ≤ e.width)
include hind hnl hw

/-- case 4a: the text starts at the beginning of a line -/
theorem overLines_lineStart {s : Str} {f l : Bool} {st : St} {tp : Path}
    (hl : st.unwritten.getLast? = some tp) (hb : Base st) (hoff : Off st) (h0 : st.offset = 0)
    (hfix : collapse pyWs s = s) (hsne : s ≠ []) (hs1 : s ≠ [' '])
    (hlegB : trailGap st.out ≠ [] → f = true ∨ firstIsSpace s = true)
    (hla : legitAfter e.root tp = true → l = true ∨ lastIsSpace s = true) (hws : AllWs (trailGap st.out))
    (extra : List Str) (hextra : ∀ y ∈ extra, y = ([] : Str)) :
    Post (overLinesTail e tp st (extra.map escapeText ++ Wrap.wrapText e.width (ltrim pyWs (escapeText s))) >>= finishText)
      (TextPost e s f l st) := by
  have hP : lastIsSpace (trailGap st.out) = true := hoff h0
  have hxne : ltrim pyWs s ≠ [] := by
    intro hx
    unfold ltrim at hx
    have hall : AllWs s := dropWhile_eq_nil_all _ _ hx
    have hc : collapse pyWs s = [' '] := by
      unfold collapse; rw [collapseAux_false_ws_ne s hall hsne]
    rw [hfix] at hc; exact hs1 hc
  rw [ltrim_escapeText]
  obtain ⟨parts, hmap, hrel, hpne⟩ := wrapText_esc e.width (ltrim pyWs s)
  have hpne' := hpne hxne
  rw [hmap, ← List.map_append]
  have hnonl : ∀ p ∈ parts, '\n' ∉ p := by
    intro p hp hm
    have hj := mem_join_of_mem hp _ hm
    have hs_nl := collapsed_no_nl hfix
    rcases hrel with hj' | ⟨hj', _⟩
    · rw [hj'] at hj
      exact hs_nl ((List.dropWhile_suffix _).subset hj)
    · have : '\n' ∈ ltrim pyWs s := by rw [hj']; simp [hj]
      exact hs_nl ((List.dropWhile_suffix _).subset this)
  -- the join of the lines, up to `collapse`
  have hjoin : ∀ Z, collapse pyWs (trailGap st.out ++ [] ++ ['\n'] ++ Wrap.join (extra ++ parts) ++ Z) =
      collapse pyWs (trailGap st.out ++ Wrap.join parts ++ Z) := by
    intro Z
    have hex : ∃ W, AllWs W ∧ Wrap.join (extra ++ parts) = W ++ Wrap.join parts := by
      clear hmap hrel hpne hnonl
      induction extra with
      | nil => exact ⟨[], by simp [AllWs], rfl⟩
      | cons a ex ih =>
        obtain ⟨W, hW, hj⟩ := ih (fun y hy => hextra y (by simp [hy]))
        have ha : a = [] := hextra a (by simp)
        subst ha
        refine ⟨[' '] ++ W, allWs_append allWs_space hW, ?_⟩
        rw [List.cons_append, Wrap.join_cons_ne _ _ (by simp [hpne']), hj]; rfl
    obtain ⟨W, hW, hj⟩ := hex
    rw [hj]
    have := collapse_ws_absorb (trailGap st.out) (['\n'] ++ W) (Wrap.join parts ++ Z) (allWs_append allWs_nl hW) hP
    simpa [List.append_assoc] using this
  have hwr : Wrote st st [] := Wrote.refl hb hoff
  have hlinfo : ∀ x, parts.getLast? = some x → e.width ≤ (escapeText x).length →
      ∃ init, consol false (st.offset == 0) (extra ++ parts) = init ++ [x] ∧ (init ≠ [] ∨ st.offset = 0) ∧
        x ≠ [] ∧ ∀ y ∈ init ++ [x], '\n' ∉ y := by
    intro x hx hwx
    obtain ⟨init, i1, i2, i3, i4⟩ := last_info (z := st.offset == 0) (hd := extra) hx hwx hw hnonl
      (fun hz => by simp [h0] at hz) hextra
    exact ⟨init, i1, Or.inr h0, i3, i4⟩
  rcases hrel with hj | ⟨hj, x, hx, hwx⟩
  · -- nothing swallowed
    refine lines_close e hind hnl hw (A := trailGap st.out) (Y := s) hwr hl (by simp [hpne']) (Or.inl hP) hla ?_ hws hlegB
      (Or.inl rfl)
    intro Z _
    rw [hjoin Z, hj]
    exact collapse_ltrim _ _ _ hP
  · obtain ⟨Y, hY, hJ⟩ := written_of_ltrim (J := Wrap.join parts) hfix hs1 hsne (Or.inr hj)
    obtain ⟨init, i1, i2, i3, i4⟩ := hlinfo x hx hwx
    refine lines_close e hind hnl hw (A := trailGap st.out) (Y := Y) hwr hl (by simp [hpne']) (Or.inl hP) hla ?_ hws hlegB ?_
    · intro Z _
      rw [hjoin Z, hJ]
      exact collapse_ltrim _ _ _ hP
    · rcases hY with hY | ⟨h1, h2, h3⟩
      · exact Or.inl hY
      · exact Or.inr ⟨h1, h2, h3, init, x, i1, i2, hwx, i3, i4⟩

/-- case 4b: the remaining text `x` is written on new lines -/
theorem overLines_midLine {s F A Ypre x : Str} {f l : Bool} {st st0 : St} {tp : Path}
    (h1 : Wrote st st0 F) (hl : st0.unwritten.getLast? = some tp) (h0 : st0.offset ≠ 0)
    (hfix : collapse pyWs s = s) (hs1 : s ≠ [' ']) (hsx : s = Ypre ++ x) (hxne : x ≠ [])
    (hla : legitAfter e.root tp = true → l = true ∨ lastIsSpace s = true)
    (hA : AllWs A) (hlA : A ≠ [] → f = true ∨ firstIsSpace s = true)
    (hcolx : ∀ J Z, collapse pyWs (trailGap st.out ++ F ++ ['\n'] ++ ([' '] ++ J) ++ Z) =
      collapse pyWs (A ++ (Ypre ++ J) ++ Z)) :
    Post (overLinesTail e tp st0 ([[]] ++ Wrap.wrapText e.width (escapeText x)) >>= finishText)
      (TextPost e s f l st) := by
  obtain ⟨parts, hmap, hrel, hpne⟩ := wrapText_esc e.width x
  have hpne' := hpne hxne
  have hm : [[]] ++ Wrap.wrapText e.width (escapeText x) = ([] :: parts).map escapeText := by
    rw [hmap]; rfl
  rw [hm]
  have hs_nl := collapsed_no_nl hfix
  have hnonl : ∀ p ∈ parts, '\n' ∉ p := by
    intro p hp hmem
    have hj := mem_join_of_mem hp _ hmem
    apply hs_nl
    rw [hsx]
    rcases hrel with hj' | ⟨hj', _⟩
    · rw [hj'] at hj; simp [hj]
    · rw [hj']; simp [hj]
  have hjoin : Wrap.join ([] :: parts) = [' '] ++ Wrap.join parts := by
    rw [Wrap.join_cons_ne _ _ hpne']; rfl
  have hcase : lastIsSpace (trailGap st0.out) = true ∨ (st0.offset ≠ 0 ∧ ∃ R, ([] :: parts) = [] :: R ∧ R ≠ []) :=
    Or.inr ⟨h0, parts, rfl, hpne'⟩
  refine lines_close e hind hnl hw (A := A) (Y := Ypre ++ Wrap.join parts) h1 hl (by simp) hcase hla ?_ hA hlA ?_
  · intro Z _
    rw [hjoin]
    exact hcolx _ Z
  · rcases hrel with hj | ⟨hj, y, hy, hwy⟩
    · left; rw [hj, hsx]
    · right
      have hsY : s = (Ypre ++ Wrap.join parts) ++ [' '] := by rw [hsx, hj]; simp
      have hYne : Ypre ++ Wrap.join parts ≠ [] := by
        intro h; rw [h] at hsY; exact hs1 (by simpa using hsY)
      have hz : (st0.offset == 0) = false := by simpa using h0
      obtain ⟨init, i1, i2, i3, i4⟩ := last_info (z := st0.offset == 0) (hd := [[]]) hy hwy hw hnonl
        (fun _ => by simp) (fun y hy => by simpa using hy)
      refine ⟨hsY, hYne, collapsed_snoc_space (by rw [← hsY]; exact hfix) hYne, init, y, i1, ?_, hwy, i3, i4⟩
      rcases i2 with h | h
      · exact Or.inl h
      · rw [hz] at h; cases h
end
/-- a piece of text written in the middle of a line -/
theorem write_text_mid (st : St) (f : Str) (h0 : st.offset ≠ 0) (hf : '\n' ∉ f) :
    (write st [.text f]).offset = st.offset + (escapeText f).length := by
  by_cases hfe : f = []
  · subst hfe
    have : prep st [.text []] = [] := by
      unfold prep
      split <;> simp [stripNl, isEmptyPiece]
    rw [write_eq, this]
    simp [escapeText, escape]
  · obtain ⟨_, _⟩ := write_text_exact st f hfe (Or.inr (Or.inl h0))
    have hprep : prep st [.text f] = [.text f] := by
      unfold prep
      have he : isEmptyPiece (.text f) = false := by cases f <;> simp_all [isEmptyPiece]
      have hc : (!st.preserveSpace && st.offset == 0) = false := by simp [h0]
      rw [hc]; simp [he]
    have hr : (renderP [Piece.text f]).isEmpty = false := by
      rw [renderP_single]
      have := escapeText_ne_nil hfe
      cases h : escapeText f with
      | nil => exact absurd h this
      | cons => simp [renderPiece, h]
    rw [write_eq, hprep, hr]
    simp only [Bool.false_eq_true, if_false]
    rw [renderP_single]
    exact newOffset_no_nl _ _ (escapeText_no_nl hf)

/-- after a text that swallowed its trailing space in the middle of a line nothing fits -/
theorem mid_full (e : Env) (st st1 : St) (n : Nat) (hw : 1 ≤ e.width) (h0 : st.offset ≠ 0)
    (hav : availableSpace e st ≤ n) (ho : st1.offset = st.offset + n) (hlev : st1.level = st.level) :
    availableSpace e st1 = 0 ∧ lineOffset e st1 > 0 := by
  have h1 : st1.offset ≠ 0 := by omega
  have hlo : lineOffset e st = (st.offset : Int) - ((st.level * e.o.indent.length : Nat) : Int) := by
    unfold lineOffset; simp [h0]
  have hlo1 : lineOffset e st1 = (st1.offset : Int) - ((st.level * e.o.indent.length : Nat) : Int) := by
    unfold lineOffset; simp [h1, hlev]
  unfold availableSpace at hav ⊢
  rw [hlo] at hav
  rw [hlo1, ho]
  constructor <;> omega

section
variable (e : Env) (hind : AllWs e.o.indent) (hnl : '\n' ∉ e.o.indent) (hw : 1 ≤ e.width)
include hind hnl hw

/-- `_serialize_text_over_lines` in the middle of a line, once the first part `f` is known -/
theorem filling_spec {s f : Str} {fl l : Bool} {st : St} {tp : Path}
    (hl : st.unwritten.getLast? = some tp) (hb : Base st) (hoff : Off st) (h0 : st.offset ≠ 0)
    (hfix : collapse pyWs s = s) (hs1 : s ≠ [' '])
    (hlegB : trailGap st.out ≠ [] → fl = true ∨ firstIsSpace s = true)
    (hLB : legitBefore e.root tp = true → fl = true ∨ firstIsSpace s = true)
    (hla : legitAfter e.root tp = true → l = true ∨ lastIsSpace s = true) (hws : AllWs (trailGap st.out))
    (hdec : (f = s ∧ (escapeText s).drop ((escapeText f).length + 1) = []) ∨
      (∃ b, s = f ++ ' ' :: b ∧ (escapeText s).drop ((escapeText f).length + 1) = escapeText b ∧
        (b = [] → availableSpace e st ≤ (escapeText f).length))) :
    Post (fillingK e tp tp st (escapeText s) (escapeText f) >>= finishText) (TextPost e s fl l st) := by
  have hs_nl := collapsed_no_nl hfix
  have hf_nl : '\n' ∉ f := by
    intro hm; apply hs_nl
    rcases hdec with ⟨h, _⟩ | ⟨b, h, _⟩
    · rw [← h]; exact hm
    · rw [h]; simp [hm]
  unfold fillingK
  by_cases hc : (!(decide ((escapeText f).length > availableSpace e st) && legitBefore e.root tp)) = true
  · rw [if_pos hc, textPiece_esc]
    have hw1 : Wrote st (write st [.text f]) f := by
      have := Wrote.write hb hoff [.text f] (by intro p hp; simp at hp; subst hp; rfl)
      simpa [gapChars, strs, pieceStr] using this
    have hoff1 : (write st [.text f]).offset = st.offset + (escapeText f).length := write_text_mid st f h0 hf_nl
    rcases hdec with ⟨hfs, hdrop⟩ | ⟨b, hsb, hdrop, hav⟩
    · rw [hdrop]
      simp only [List.isEmpty_nil, if_true]
      refine (Post_bind _ _ _).2 ?_
      rw [Post_pure]
      exact finish_wrote e hw1 ⟨trailGap st.out, [], hws, by simp [AllWs], hlegB, fun h => absurd rfl h,
        by rw [hfs]; simp⟩
    · rw [hdrop]
      by_cases hbe : b = []
      · subst hbe
        simp only [escapeText_nil, List.isEmpty_nil, if_true]
        refine (Post_bind _ _ _).2 ?_
        rw [Post_pure]
        unfold finishText
        rw [Post_pure]
        obtain ⟨g, a1, a2, a3, a4, a5, a6, a7, a8⟩ := hw1
        have hfne : f ≠ [] := by
          intro h; rw [h] at hsb; exact hs1 (by simpa using hsb)
        have hsf : s = f ++ [' '] := by rw [hsb]
        refine ⟨g, a1, a2, a3, rfl, a5, a7, a6, Or.inr ⟨?_, ?_⟩⟩
        · exact ⟨f, hsf, hfne, collapsed_snoc_space (by rw [← hsf]; exact hfix) hfne, trailGap st.out, hws, hlegB, a4⟩
        · exact mid_full e st { write st [.text f] with unwritten := [] } _ hw h0 (hav rfl) hoff1 (by simp)
      · have hne : (escapeText b).isEmpty = false := by rw [isEmpty_escapeText]; simpa using hbe
        rw [hne]
        simp only [Bool.false_eq_true, if_false]
        have hst1 : (write st [.text f]).offset ≠ 0 := by rw [hoff1]; omega
        refine overLines_midLine e hind hnl hw (F := f) (A := trailGap st.out) (Ypre := f ++ [' ']) (x := b) hw1
          (by rw [write_unwritten]; exact hl) hst1 hfix hs1 (by rw [hsb]; simp) hbe hla hws hlegB ?_
        intro J Z
        have := collapse_ws_swap (trailGap st.out ++ f) (['\n'] ++ [' ']) [' '] (J ++ Z)
          (allWs_append allWs_nl allWs_space) allWs_space (by simp) (by simp)
        simpa [List.append_assoc] using this
  · rw [if_neg hc]
    have hc' : (escapeText f).length > availableSpace e st ∧ legitBefore e.root tp = true := by
      simpa using hc
    have hsne : s ≠ [] := by
      intro h; subst h
      rcases hdec with ⟨h, _⟩ | ⟨b, h, _⟩
      · subst h; simp [escapeText, escape] at hc'
      · simp at h
    refine overLines_midLine e hind hnl hw (F := []) (A := trailGap st.out ++ ['\n']) (Ypre := []) (x := s)
      (Wrote.refl hb hoff) hl h0 hfix hs1 (by simp) hsne hla (allWs_append hws allWs_nl) (fun _ => hLB hc'.2) ?_
    intro J Z
    have := collapse_ws_absorb (trailGap st.out ++ ['\n']) [' '] (J ++ Z) allWs_space (lastIsSpace_snoc_nl _)
    simpa [List.append_assoc] using this
end
section
variable (e : Env) (hind : AllWs e.o.indent) (hnl : '\n' ∉ e.o.indent) (hw : 1 ≤ e.width)
include hind hnl hw

/-- `_serialize_text_over_lines` followed by the end of `_serialize_text` -/
theorem overLines_spec {s : Str} {fl l : Bool} {st : St} {tp : Path}
    (hu : st.unwritten = [tp]) (hb : Base st) (hoff : Off st)
    (hfix : collapse pyWs s = s) (hsne : s ≠ []) (hs1 : s ≠ [' '])
    (hlegB : trailGap st.out ≠ [] → fl = true ∨ firstIsSpace s = true)
    (hLB : legitBefore e.root tp = true → fl = true ∨ firstIsSpace s = true)
    (hLB' : firstIsSpace s = true → legitBefore e.root tp = true)
    (hla : legitAfter e.root tp = true → l = true ∨ lastIsSpace s = true) (hws : AllWs (trailGap st.out)) :
    Post (serializeTextOverLines e st (escapeText s) >>= finishText) (TextPost e s fl l st) := by
  have hl : st.unwritten.getLast? = some tp := by rw [hu]; rfl
  rw [serializeTextOverLines_eq]
  simp only [hu, List.head?_cons, List.getLast?_singleton]
  by_cases h0 : (st.offset == 0) = true
  · rw [if_pos h0]
    have h0' : st.offset = 0 := by simpa using h0
    have hex : (if legitBefore e.root tp = true then [[]] else [] : List Str) =
        (if legitBefore e.root tp = true then [[]] else [] : List Str).map escapeText := by
      split <;> rfl
    rw [hex]
    exact overLines_lineStart e hind hnl hw hl hb hoff h0' hfix hsne hs1 hlegB hla hws _
      (by intro y hy; split at hy <;> simp at hy; exact hy)
  · rw [if_neg h0]
    have h0' : st.offset ≠ 0 := by simpa using h0
    -- the branch in which the first part is not written
    have hnot : ∀ F : Str, F.length > availableSpace e st → legitBefore e.root tp = true →
        Post (fillingK e tp tp st (escapeText s) F >>= finishText) (TextPost e s fl l st) := by
      intro F hF hlb
      unfold fillingK
      have : (!(decide (F.length > availableSpace e st) && legitBefore e.root tp)) = false := by simp [hF, hlb]
      rw [this]
      simp only [Bool.false_eq_true, if_false]
      refine overLines_midLine e hind hnl hw (F := []) (A := trailGap st.out ++ ['\n']) (Ypre := []) (x := s)
        (Wrote.refl hb hoff) hl h0' hfix hs1 (by simp) hsne hla (allWs_append hws allWs_nl) (fun _ => hLB hlb) ?_
      intro J Z
      have := collapse_ws_absorb (trailGap st.out ++ ['\n']) [' '] (J ++ Z) allWs_space (lastIsSpace_snoc_nl _)
      simpa [List.append_assoc] using this
    by_cases hh : ((escapeText s).head? == some ' ') = true
    · rw [if_pos hh]
      have hhs : s.head? = some ' ' := (escapeText_head_space s).1 (by simpa using hh)
      obtain ⟨s1, rfl⟩ : ∃ s1, s = ' ' :: s1 := by
        cases s with
        | nil => simp at hhs
        | cons c cs => simp at hhs; subst hhs; exact ⟨cs, rfl⟩
      have hesc : escapeText (' ' :: s1) = ' ' :: escapeText s1 := by
        rw [escapeText_cons, escapeChar_ws pyWs_space]; rfl
      have hfs : firstIsSpace (' ' :: s1) = true := by simp [firstIsSpace, pyWs_space]
      rw [hesc]
      simp only [List.drop_succ_cons, List.drop_zero]
      rw [← hesc]
      refine (Post_bind _ _ _).2 ?_
      refine (Post_bind _ _ _).2 ?_
      intro F0 hF0
      refine (Post_bind _ _ _).1 ?_
      unfold wrapFirst at hF0
      by_cases hneg : ((availableSpace e st : Int) - 1 < 0)
      · -- no space at all: nothing is written on this line
        apply hnot _ _ (hLB' hfs)
        have : availableSpace e st = 0 := by omega
        rw [this]; simp
      · rw [if_neg hneg] at hF0
        split at hF0
        · rename_i F0' rest hwt
          cases hF0
          obtain ⟨f1, hF1, hdec⟩ := wrapText_first _ s1 _ _ hwt
          have hF : ' ' :: F0 = escapeText (' ' :: f1) := by
            rw [escapeText_cons, escapeChar_ws pyWs_space, hF1]; rfl
          rw [hF]
          have hlen : (escapeText (' ' :: f1)).length = (escapeText f1).length + 1 := by
            rw [escapeText_cons, escapeChar_ws pyWs_space]; simp
          refine filling_spec e hind hnl hw hl hb hoff h0' hfix hs1 hlegB hLB hla hws ?_
          rw [hesc, hlen]
          simp only [List.drop_succ_cons]
          rw [← hF1]
          rcases hdec with ⟨h1, h2⟩ | ⟨b, h1, h2, h3⟩
          · exact Or.inl ⟨by rw [h1], h2⟩
          · refine Or.inr ⟨b, by rw [h1]; rfl, h2, fun hb0 => ?_⟩
            subst hb0
            rw [h1, escapeText_space] at h3
            simp only [escapeText_nil, List.length_append, List.length_cons, List.length_nil] at h3
            have hle : (escapeText f1).length = F0.length := by rw [hF1]
            omega
        · cases hF0
    · rw [if_neg hh]
      refine (Post_bind _ _ _).2 ?_
      refine (Post_bind _ _ _).2 ?_
      intro F hF
      refine (Post_bind _ _ _).1 ?_
      unfold wrapFirst at hF
      have hneg : ¬ ((availableSpace e st : Int) < 0) := by omega
      rw [if_neg hneg] at hF
      split at hF
      · rename_i F' rest hwt
        cases hF
        obtain ⟨f, hF1, hdec⟩ := wrapText_first _ s _ _ hwt
        rw [hF1]
        refine filling_spec e hind hnl hw hl hb hoff h0' hfix hs1 hlegB hLB hla hws ?_
        rw [← hF1]
        rcases hdec with ⟨h1, h2⟩ | ⟨b, h1, h2, h3⟩
        · exact Or.inl ⟨h1, h2⟩
        · refine Or.inr ⟨b, h1, h2, fun hb0 => ?_⟩
          subst hb0
          have : (escapeText s).length = (escapeText f).length + 1 := by
            rw [h1, escapeText_space]; simp
          rw [hF1]
          simp only [Int.toNat_natCast] at h3
          omega
      · cases hF
end
section
variable (e : Env) (hind : AllWs e.o.indent) (hnl : '\n' ∉ e.o.indent) (hw : 1 ≤ e.width)
include hind hnl hw

/-- **`_serialize_text`** writes character data that whitespace reduction turns back into the text -/
theorem textSpec : TextSpec e := by
  intro q ns name attrs kids j s st hp hk hunw hb hoff hws hleg
  have hnode : nodeAt e.root (q ++ [j]) = some (.text s) := by rw [nodeAt_kid hp.at_]; exact hk
  obtain ⟨hfix, hsne⟩ := hp.textFix (List.mem_of_getElem? hk)
  have hlt : j < kids.length := (List.getElem?_eq_some_iff.1 hk).1
  have hLBeq : legitBefore e.root (q ++ [j]) = (j == 0 || firstIsSpace s) := legitBefore_text hp.at_ j s hk
  have hLAeq : legitAfter e.root (q ++ [j]) = (j + 1 == kids.length || lastIsSpace s) := legitAfter_text hp.at_ j s hk
  have hLast : isLastChild e.root (q ++ [j]) = (j + 1 == kids.length) := isLastChild_eq hp.at_ j
  have hLB : legitBefore e.root (q ++ [j]) = true → (j == 0) = true ∨ firstIsSpace s = true := by
    rw [hLBeq]; simp
  have hLB' : firstIsSpace s = true → legitBefore e.root (q ++ [j]) = true := by
    rw [hLBeq]; intro h; simp [h]
  have hla : legitAfter e.root (q ++ [j]) = true → (j + 1 == kids.length) = true ∨ lastIsSpace s = true := by
    rw [hLAeq]; simp
  have hzP : (st.offset == 0) = true → lastIsSpace (trailGap st.out) = true := fun h => hoff (by simpa using h)
  have hpre := allWs_indentN e.o hind st.level
  rw [serializeText_eq, hunw]
  have htext : textAt e (q ++ [j]) = .ok s := by simp [textAt, hnode]
  have hmap : List.mapM (textAt e) [q ++ [j]] = .ok [s] := by
    simp [List.mapM_cons, htext, bind, Except.bind, pure, Except.pure]
  refine (Post_bind _ _ _).2 ?_
  rw [hmap, Post_ok]
  simp only [List.getLast?_singleton, List.flatten_cons, List.flatten_nil, List.append_nil]
  have hcontent : normalizeText s = escapeText s := by unfold normalizeText normText; rw [hfix]
  rw [hcontent]
  -- a write of `textPieces`
  have hfits : ∀ (b : Bool), (b = true → (j + 1 == kids.length) = true ∨ lastIsSpace s = true) →
      Post (finishText (write st (textPieces (if (st.offset == 0) = true then indentN e.o st.level else [])
        (escapeText (if (st.offset == 0) = true then ltrim pyWs s else s)) b b)))
        (TextPost e s (j == 0) (j + 1 == kids.length) st) := by
    intro b hbl
    exact finish_wrote e (Wrote.write hb hoff _ (textPieces_allGap _ _ _ _))
      (fits_gapOK s (trailGap st.out) (indentN e.o st.level) _ _ (st.offset == 0) b hpre hzP hws hleg hbl)
  unfold textBody
  by_cases hc1 : (availableSpace e st == (rtrim pyWs (escapeText s)).length && legitAfter e.root (q ++ [j])) = true
  · -- text fits perfectly
    rw [if_pos hc1]
    simp only [Bool.and_eq_true] at hc1
    have := hfits true (fun _ => hla hc1.2)
    by_cases h0 : (st.offset == 0) = true
    · rw [if_pos h0]
      rw [if_pos h0, if_pos h0, ← ltrim_escapeText] at this
      exact this
    · rw [if_neg h0]
      rw [if_neg h0, if_neg h0] at this
      exact this
  · rw [if_neg hc1]
    by_cases hc2 : availableSpace e st > (escapeText s).length
    · -- text fits the current line
      rw [if_pos hc2]
      have hpc1 : (if (st.offset == 0) = true then (indentN e.o st.level, ltrim pyWs (escapeText s))
          else ([], escapeText s)).1 = (if (st.offset == 0) = true then indentN e.o st.level else []) := by
        split <;> rfl
      have hpc2 : (if (st.offset == 0) = true then (indentN e.o st.level, ltrim pyWs (escapeText s))
          else ([], escapeText s)).2 = escapeText (if (st.offset == 0) = true then ltrim pyWs s else s) := by
        split
        · exact ltrim_escapeText s
        · rfl
      rw [hpc1, hpc2]
      unfold fitsLine fitsK
      by_cases hlc : isLastChild e.root (q ++ [j]) = true
      · rw [if_pos hlc]
        exact hfits true (fun _ => Or.inl (by rw [← hLast]; exact hlc))
      · rw [if_neg hlc]
        have hnl' : ¬ (j + 1 == kids.length) = true := by rw [← hLast]; exact hlc
        have hlt' : j + 1 < kids.length := by
          have : j + 1 ≠ kids.length := by simpa using hnl'
          omega
        -- what follows is the next sibling
        have hfol : fetchFollowing e.root (q ++ [j]) = some (q ++ [j + 1]) := by
          unfold fetchFollowing
          have : lenAt e.root (q ++ [j]) = 0 := by simp [lenAt, hnode, kidsOf]
          rw [this]
          simp only [Nat.lt_irrefl, if_false, gt_iff_lt]
          rw [fetchFollowingSibling_eq hp.at_, if_pos hlt']
        rw [hfol]
        simp only
        by_cases hlb : legitBefore e.root (q ++ [j + 1]) = true
        · rw [if_pos hlb]
          refine Post_bind_of (Post_true _) (fun r _ => ?_)
          apply hfits
          intro _
          right
          -- the next sibling is not a text node, so whitespace in front of it is legit because of this text
          have hk1 : kids[j + 1]? = some kids[j + 1] := List.getElem?_eq_getElem hlt'
          have hnt := mergedKids_adjacent hp.merged hk kids[j + 1] hk1
          rw [legitBefore_nontext hp.at_ (j + 1) _ hk1 hnt] at hlb
          simpa [hk] using hlb
        · rw [if_neg hlb]
          exact hfits false (fun h => by cases h)
    · rw [if_neg hc2]
      by_cases hc3 : (escapeText s == [' ']) = true
      · -- a single space that does not fit
        rw [if_pos hc3]
        have hs : s = [' '] := escapeText_eq_space (by simpa using hc3)
        subst hs
        have hw1 : Wrote st (write st [nl]) ['\n'] := by
          have := Wrote.write hb hoff [nl] (by intro p hp; simp at hp; subst hp; rfl)
          simpa [gapChars, strs, pieceStr, nl] using this
        refine finish_wrote e hw1 ⟨trailGap st.out, ['\n'], hws, allWs_nl, hleg,
          fun _ => Or.inr (by simp [lastIsSpace, pyWs_space]), ?_⟩
        have := collapse_ws_swap (trailGap st.out) ['\n'] ([' '] ++ ['\n']) [] allWs_nl
          (allWs_append allWs_space allWs_nl) (by simp) (by simp)
        simpa [List.append_assoc] using this
      · rw [if_neg hc3]
        have hs1 : s ≠ [' '] := by
          intro h; subst h
          exact hc3 (by decide)
        exact overLines_spec e hind hnl hw hunw hb hoff hfix hsne hs1 hleg hLB hLB' hla hws
end
end Delb.Wrapping
